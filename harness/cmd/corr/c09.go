package main

import (
	"bytes"
	"fmt"
	"strings"

	"filippo.io/age"
	"filippo.io/age/plugin"
	"filippo.io/age/verifhook"
	"verifharness/h"
)

func init() {
	register("C09", "age.ParseX25519Recipient/Identity, String(), plugin.Encode*/Parse* and bech32.Encode/Decode (through verifhook) "+
		"on printed keys, all single and sampled 2-4 character substitutions, case variants, Unicode case-folding confusables, "+
		"padding/length variants with valid checksums and plugin names over the whole HRP alphabet; every case that calls a "+
		"parser or printer is non-trivial, distinct by (request line, observation)", runC09)
}

// ---------- observations of the real code ----------

// xrecCase: age.ParseX25519Recipient(s). The key of an accepted value is read
// back from its printed form.
func xrecCase(kind, s string, wantReject bool, note string) *h.Case {
	r, err := age.ParseX25519Recipient(s)
	impl, oracle := "err", ""
	if err == nil {
		p := r.String()
		_, k, derr := verifhook.Bech32Decode(p)
		switch {
		case derr != nil:
			oracle = fmt.Sprintf("the printed form %q of an accepted recipient does not decode: %v", p, derr)
		case p != s:
			oracle = fmt.Sprintf("accepted recipient string %q is not canonical: it prints back as %q", s, p)
		case wantReject:
			oracle = fmt.Sprintf("recipient string %q must be rejected (%s) but was accepted", s, note)
		}
		impl = "ok " + h.Sum(k)
	}
	return &h.Case{Kind: kind, Line: "xrec " + hx(s), Impl: impl, Oracle: oracle, NonTrivial: true,
		Note: fmt.Sprintf("%s: %q", note, s)}
}

func xidCase(kind, s string, wantReject bool, note string) *h.Case {
	id, err := age.ParseX25519Identity(s)
	impl, oracle := "err", ""
	if err == nil {
		p := id.String()
		_, k, derr := verifhook.Bech32Decode(p)
		switch {
		case derr != nil:
			oracle = fmt.Sprintf("the printed form of an accepted identity does not decode: %v", derr)
		case p != s:
			oracle = fmt.Sprintf("accepted identity string %q is not canonical: it prints back as %q", s, p)
		case wantReject:
			oracle = fmt.Sprintf("identity string %q must be rejected (%s) but was accepted", s, note)
		}
		impl = "ok " + h.Sum(k)
	}
	return &h.Case{Kind: kind, Line: "xid " + hx(s), Impl: impl, Oracle: oracle, NonTrivial: true,
		Note: fmt.Sprintf("%s: %q", note, s)}
}

// printCase: String() of the value holding key k, and parse(print(k)) = k.
func printCase(identity bool, k []byte) *h.Case {
	if identity {
		src := asciiUpper(b32Build("age-secret-key-", to5(k), false))
		id, err := age.ParseX25519Identity(src)
		if err != nil {
			return &h.Case{Kind: "print-identity", Line: "xidstr " + h.Hex(k), Impl: "err", NonTrivial: true,
				Oracle: fmt.Sprintf("the encoding %q of a 32-byte scalar is rejected: %v", src, err)}
		}
		p := id.String()
		oracle := ""
		id2, err := age.ParseX25519Identity(p)
		if err != nil {
			oracle = fmt.Sprintf("printed identity %q does not parse: %v", p, err)
		} else if _, k2, _ := verifhook.Bech32Decode(id2.String()); !bytes.Equal(k2, k) {
			oracle = "printed identity parses back to a different key"
		} else if id2.Recipient().String() != id.Recipient().String() {
			oracle = "printed identity parses back to an identity with a different recipient"
		}
		return &h.Case{Kind: "print-identity", Line: "xidstr " + h.Hex(k), Impl: hs(p), Oracle: oracle, NonTrivial: true,
			Note: fmt.Sprintf("key %x", k)}
	}
	src := b32Build("age", to5(k), false)
	r, err := age.ParseX25519Recipient(src)
	if err != nil {
		return &h.Case{Kind: "print-recipient", Line: "xrecstr " + h.Hex(k), Impl: "err", NonTrivial: true,
			Oracle: fmt.Sprintf("the encoding %q of a 32-byte key is rejected: %v", src, err)}
	}
	p := r.String()
	oracle := ""
	r2, err := age.ParseX25519Recipient(p)
	if err != nil {
		oracle = fmt.Sprintf("printed recipient %q does not parse: %v", p, err)
	} else if _, k2, _ := verifhook.Bech32Decode(r2.String()); !bytes.Equal(k2, k) {
		oracle = "printed recipient parses back to a different key"
	}
	return &h.Case{Kind: "print-recipient", Line: "xrecstr " + h.Hex(k), Impl: hs(p), Oracle: oracle, NonTrivial: true,
		Note: fmt.Sprintf("key %x", k)}
}

func precCase(kind, s string, wantReject bool, note string) *h.Case {
	name, data, err := plugin.ParseRecipient(s)
	impl, oracle := "err", ""
	if err == nil {
		impl = "ok " + hs(name) + " " + h.Sum(data)
		if p := plugin.EncodeRecipient(name, data); p != s {
			oracle = fmt.Sprintf("accepted plugin recipient %q is not canonical: it re-encodes to %q", s, p)
		} else if wantReject {
			oracle = fmt.Sprintf("plugin recipient %q must be rejected (%s) but was accepted", s, note)
		}
	}
	return &h.Case{Kind: kind, Line: "prec " + hx(s), Impl: impl, Oracle: oracle, NonTrivial: true,
		Note: fmt.Sprintf("%s: %q", note, s)}
}

func pidCase(kind, s string, wantReject bool, note string) *h.Case {
	name, data, err := plugin.ParseIdentity(s)
	impl, oracle := "err", ""
	if err == nil {
		impl = "ok " + hs(name) + " " + h.Sum(data)
		if p := plugin.EncodeIdentity(name, data); p != s {
			oracle = fmt.Sprintf("accepted plugin identity %q is not canonical: it re-encodes to %q", s, p)
		} else if wantReject {
			oracle = fmt.Sprintf("plugin identity %q must be rejected (%s) but was accepted", s, note)
		}
	}
	return &h.Case{Kind: kind, Line: "pid " + hx(s), Impl: impl, Oracle: oracle, NonTrivial: true,
		Note: fmt.Sprintf("%s: %q", note, s)}
}

// pencCase: plugin.EncodeRecipient / EncodeIdentity and the round trip.
func pencCase(identity bool, name string, data []byte) *h.Case {
	kind, op := "plugin-encode-recipient", "pencrec"
	var out string
	if identity {
		kind, op = "plugin-encode-identity", "pencid"
		out = plugin.EncodeIdentity(name, data)
	} else {
		out = plugin.EncodeRecipient(name, data)
	}
	oracle := ""
	if out == "" {
		if nameMatches(name) {
			oracle = fmt.Sprintf("valid plugin name %q was refused by the encoder", name)
		}
	} else {
		var n2 string
		var d2 []byte
		var err error
		if identity {
			n2, d2, err = plugin.ParseIdentity(out)
		} else {
			n2, d2, err = plugin.ParseRecipient(out)
		}
		switch {
		case !nameMatches(name):
			oracle = fmt.Sprintf("invalid plugin name %q was encoded", name)
		case err != nil:
			oracle = fmt.Sprintf("encoded plugin string %q does not parse: %v", out, err)
		case n2 != asciiLower(name) || !bytes.Equal(d2, data):
			oracle = fmt.Sprintf("encoded plugin string %q parses back to (%q, %x), want (%q, %x)", out, n2, d2, asciiLower(name), data)
		}
	}
	return &h.Case{Kind: kind, Line: op + " " + hx(name) + " " + h.Hex(data), Impl: hs(out), Oracle: oracle, NonTrivial: true,
		Note: fmt.Sprintf("name %q, %d payload bytes", name, len(data))}
}

// b32decCase / b32encCase: correspondence on the bech32 package itself.
func b32decCase(kind, s, note string) *h.Case {
	hrp, data, err := verifhook.Bech32Decode(s)
	impl := "err"
	if err == nil {
		impl = "ok " + hs(hrp) + " " + h.Sum(data)
	}
	return &h.Case{Kind: kind, Line: "b32dec " + hx(s), Impl: impl, NonTrivial: true, Note: fmt.Sprintf("%s: %q", note, s)}
}

func b32encCase(kind, hrp string, data []byte) *h.Case {
	s, err := verifhook.Bech32Encode(hrp, data)
	impl, oracle := "err", ""
	if err == nil {
		impl = "ok " + hs(s)
		h2, d2, derr := verifhook.Bech32Decode(s)
		if derr != nil || h2 != hrp || !bytes.Equal(d2, data) {
			oracle = fmt.Sprintf("Decode(Encode(%q, %x)) = (%q, %x, %v)", hrp, data, h2, d2, derr)
		}
	}
	return &h.Case{Kind: kind, Line: "b32enc " + hx(hrp) + " " + h.Hex(data), Impl: impl, Oracle: oracle, NonTrivial: true,
		Note: fmt.Sprintf("hrp %q, %d bytes", hrp, len(data))}
}

// ---------- generators ----------

// substitute returns s with positions pos replaced by chars (never the same char).
func substitute(s string, pos []int, chars []byte) string {
	b := []byte(s)
	for i, p := range pos {
		b[p] = chars[i]
	}
	return string(b)
}

// confusables: runes whose Unicode case mapping or appearance collides with ASCII.
var confusables = []rune{0x212A, 0x017F, 0x0130, 0x0131, 0xFF21, 0xFF41, 0xFF11, 0xFF2B, 0xFF4B, 0x1E9E, 0x00DF, 0x0261}

// confusableFor returns runes that case-fold or look like the ASCII byte c.
func confusableFor(c byte) []rune {
	var rs []rune
	switch c {
	case 'k', 'K':
		rs = append(rs, 0x212A)
	case 's', 'S':
		rs = append(rs, 0x017F)
	case 'i', 'I':
		rs = append(rs, 0x0130, 0x0131)
	}
	switch {
	case 'A' <= c && c <= 'Z':
		rs = append(rs, 0xFF21+rune(c-'A'), 0xFF41+rune(c-'A'))
	case 'a' <= c && c <= 'z':
		rs = append(rs, 0xFF41+rune(c-'a'), 0xFF21+rune(c-'a'))
	case '0' <= c && c <= '9':
		rs = append(rs, 0xFF10+rune(c-'0'))
	case c == '-':
		rs = append(rs, 0x2010, 0xFF0D)
	}
	return rs
}

func runC09(cx *ctx) {
	r := cx.rng
	// the model's byte constants are the string literals of the Go source
	cx.ru.Do(func() *h.Case {
		return &h.Case{Kind: "model-constants", Line: "kconsts", Impl: "ok", NonTrivial: true}
	})
	// the standard-library stubs used by the functions translated from the Go source (lean/AgeModel/GoSem.lean)
	goSemCases(cx)

	// --- printing and round trip on random and boundary keys
	var keys [][]byte
	keys = append(keys, make([]byte, 32), bytes.Repeat([]byte{0xff}, 32), bytes.Repeat([]byte{0x42}, 32))
	for i := 0; i < cx.n(2000, 30000); i++ {
		keys = append(keys, r.Bytes(32))
	}
	for _, k := range keys {
		k := k
		cx.ru.Do(func() *h.Case { return printCase(false, k) })
		cx.ru.Do(func() *h.Case { return printCase(true, k) })
		s := b32Build("age", to5(k), false)
		cx.ru.Do(func() *h.Case { return xrecCase("parse-valid-recipient", s, false, "valid") })
		t := asciiUpper(b32Build("age-secret-key-", to5(k), false))
		cx.ru.Do(func() *h.Case { return xidCase("parse-valid-identity", t, false, "valid") })
	}

	// --- substitutions of valid native strings
	nBase := cx.n(3, 12)
	for bi := 0; bi < nBase; bi++ {
		k := r.Bytes(32)
		rec := b32Build("age", to5(k), false)
		id := asciiUpper(b32Build("age-secret-key-", to5(k), false))
		for _, base := range []struct {
			s  string
			id bool
		}{{rec, false}, {id, true}} {
			base := base
			mk := func(kind, s, note string) {
				if base.id {
					cx.ru.Do(func() *h.Case { return xidCase(kind+"-identity", s, true, note) })
				} else {
					cx.ru.Do(func() *h.Case { return xrecCase(kind+"-recipient", s, true, note) })
				}
			}
			// all single substitutions over the printable alphabet (exhaustive in thorough, sampled in quick)
			for p := 0; p < len(base.s); p++ {
				for _, c := range printable {
					if c == base.s[p] {
						continue
					}
					if cx.quick && r.Intn(4) != 0 {
						continue
					}
					mk("subst1", substitute(base.s, []int{p}, []byte{c}), fmt.Sprintf("1 substitution at %d", p))
				}
			}
			// sampled 2..4 substitutions, mostly inside the data part and the data alphabet
			dataStart := strings.LastIndex(base.s, "1") + 1
			for i := 0; i < cx.n(10000, 250000); i++ {
				w := 2 + r.Intn(3)
				var pos []int
				var chars []byte
				seen := map[int]bool{}
				for len(pos) < w {
					p := dataStart + r.Intn(len(base.s)-dataStart)
					if r.Intn(8) == 0 {
						p = r.Intn(len(base.s))
					}
					if seen[p] {
						continue
					}
					var c byte
					if r.Intn(6) == 0 {
						c = printable[r.Intn(len(printable))]
					} else {
						c = b32Charset[r.Intn(32)]
						if base.id {
							c = asciiUpper(string(c))[0]
						}
					}
					if c == base.s[p] {
						continue
					}
					seen[p] = true
					pos = append(pos, p)
					chars = append(chars, c)
				}
				mk(fmt.Sprintf("subst%d", w), substitute(base.s, pos, chars), fmt.Sprintf("%d substitutions at %v", w, pos))
			}
			// burst errors: 2..4 adjacent symbols
			for i := 0; i < cx.n(1000, 20000); i++ {
				w := 2 + r.Intn(3)
				p0 := dataStart + r.Intn(len(base.s)-dataStart-w+1)
				var pos []int
				var chars []byte
				for j := 0; j < w; j++ {
					c := b32Charset[r.Intn(32)]
					if base.id {
						c = asciiUpper(string(c))[0]
					}
					if c == base.s[p0+j] {
						c = b32Charset[(strings.IndexByte(b32Charset, asciiLower(string(c))[0])+1)%32]
						if base.id {
							c = asciiUpper(string(c))[0]
						}
					}
					pos = append(pos, p0+j)
					chars = append(chars, c)
				}
				mk(fmt.Sprintf("burst%d", w), substitute(base.s, pos, chars), fmt.Sprintf("burst of %d at %d", w, p0))
			}
			// case variants
			if v := asciiUpper(base.s); v != base.s {
				mk("case-upper", v, "all upper case")
			}
			if v := asciiLower(base.s); v != base.s {
				mk("case-lower", v, "all lower case")
			}
			for p := 0; p < len(base.s); p++ {
				c := base.s[p]
				var d byte
				switch {
				case 'a' <= c && c <= 'z':
					d = c - 32
				case 'A' <= c && c <= 'Z':
					d = c + 32
				default:
					continue
				}
				mk("case-mixed", substitute(base.s, []int{p}, []byte{d}), fmt.Sprintf("case of character %d flipped", p))
			}
			// Unicode confusables: replacing and inserted at every position; control and non-ASCII bytes
			for p := 0; p <= len(base.s); p++ {
				if p < len(base.s) {
					for _, ru := range confusableFor(base.s[p]) {
						mk("confusable-replace", base.s[:p]+string(ru)+base.s[p+1:], fmt.Sprintf("U+%04X for %q at %d", ru, base.s[p], p))
					}
				}
				for _, ru := range confusables {
					if cx.quick && r.Intn(3) != 0 {
						continue
					}
					mk("confusable-insert", base.s[:p]+string(ru)+base.s[p:], fmt.Sprintf("U+%04X inserted at %d", ru, p))
				}
				for _, raw := range []string{"\x00", " ", "\t", "\n", "\r", "\x7f", "\x80", "\xff", "\xc0\xaf", "\xe2\x84", "\u00a0", "\u200b"} {
					if cx.quick && r.Intn(3) != 0 {
						continue
					}
					mk("non-printable-insert", base.s[:p]+raw+base.s[p:], fmt.Sprintf("%q inserted at %d", raw, p))
					if p < len(base.s) {
						mk("non-printable-replace", base.s[:p]+raw+base.s[p+1:], fmt.Sprintf("%q for character %d", raw, p))
					}
				}
			}
			// truncations, extensions, deletions, duplications
			for p := 0; p < len(base.s); p++ {
				mk("truncate", base.s[:p], fmt.Sprintf("truncated to %d", p))
				mk("delete", base.s[:p]+base.s[p+1:], fmt.Sprintf("character %d deleted", p))
				mk("duplicate", base.s[:p+1]+base.s[p:], fmt.Sprintf("character %d doubled", p))
			}
			for i := 0; i < 32; i++ {
				c := string(b32Charset[i])
				if base.id {
					c = asciiUpper(c)
				}
				mk("extend", base.s+c, "one data character appended")
			}
		}

		// padding and length variants with a valid checksum
		d5 := to5(k) // 52 symbols, 4 padding bits
		build := func(id bool, d []byte) string {
			if id {
				return asciiUpper(b32Build("age-secret-key-", d, false))
			}
			return b32Build("age", d, false)
		}
		for _, id := range []bool{false, true} {
			id := id
			mk := func(kind, s, note string) {
				if id {
					cx.ru.Do(func() *h.Case { return xidCase(kind+"-identity", s, true, note) })
				} else {
					cx.ru.Do(func() *h.Case { return xrecCase(kind+"-recipient", s, true, note) })
				}
			}
			for pad := 1; pad < 16; pad++ {
				d := append([]byte(nil), d5...)
				d[51] |= byte(pad)
				mk("padding-nonzero", build(id, d), fmt.Sprintf("padding bits %04b", pad))
			}
			for x := 0; x < 32; x++ {
				mk("padding-extra-symbol", build(id, append(append([]byte(nil), d5...), byte(x))), fmt.Sprintf("53 symbols, last %d", x))
			}
			mk("padding-two-extra-symbols", build(id, append(append([]byte(nil), d5...), 0, 0)), "54 symbols")
			mk("padding-short", build(id, d5[:51]), "51 symbols (7 surplus bits)")
			mk("padding-short", build(id, d5[:50]), "50 symbols")
			for _, n := range []int{0, 1, 2, 5, 16, 30, 31, 33, 34, 35, 48, 64} {
				var data []byte
				if n <= 32 {
					data = k[:n]
				} else {
					data = append(append([]byte(nil), k...), r.Bytes(n-32)...)
				}
				mk("length", build(id, to5(data)), fmt.Sprintf("%d-byte payload", n))
			}
			// wrong prefixes with a valid checksum for that prefix
			var hrps []string
			if id {
				hrps = []string{"AGE-SECRET-KEY", "AGE-SECRET-KEY--", "AGE-SECRET-KEZ-", "AGE-PLUGIN-X-", "AGE", "age-secret-key-", "AGE-SECRET-KEY-1", "A", "AGE-SECRET-KEY-AGE-SECRET-KEY-"}
			} else {
				hrps = []string{"ag", "agf", "agee", "age1", "age1age", "AGE", "a", "age-", "bge", "age-secret-key-"}
			}
			for _, hrp := range hrps {
				up := hasUpper(hrp)
				mk("prefix", b32Build(hrp, d5, up), fmt.Sprintf("HRP %q with a valid checksum", hrp))
			}
			// the other kind's string and the wrong checksum constant (Bech32m)
			if id {
				mk("prefix", b32Build("age", d5, false), "a recipient string as identity")
			} else {
				mk("prefix", asciiUpper(b32Build("age-secret-key-", d5, false)), "an identity string as recipient")
			}
		}
	}

	// --- oracle-only bulk runs on the real parsers (no model): every double substitution inside
	// the data part of one printed recipient and one printed identity over the data alphabet
	// (exhaustive in thorough: 58·57/2·31² = 1.59 million strings each), and sampled triple and
	// quadruple substitutions; one case per batch
	{
		k := r.Bytes(32)
		rec := b32Build("age", to5(k), false)
		id := asciiUpper(b32Build("age-secret-key-", to5(k), false))
		for _, base := range []struct {
			s  string
			id bool
		}{{rec, false}, {id, true}} {
			base := base
			accept := func(s string) bool {
				if base.id {
					_, err := age.ParseX25519Identity(s)
					return err == nil
				}
				_, err := age.ParseX25519Recipient(s)
				return err == nil
			}
			alpha := b32Charset
			if base.id {
				alpha = asciiUpper(alpha)
			}
			kindSfx := "-recipient"
			if base.id {
				kindSfx = "-identity"
			}
			start := strings.LastIndex(base.s, "1") + 1
			for p1 := start; p1 < len(base.s); p1++ {
				p1 := p1
				if cx.quick && r.Intn(8) != 0 {
					continue
				}
				cx.ru.Do(func() *h.Case {
					b := []byte(base.s)
					n, oracle := 0, ""
					for p2 := p1 + 1; p2 < len(b); p2++ {
						for i := 0; i < 32; i++ {
							if alpha[i] == base.s[p1] {
								continue
							}
							b[p1] = alpha[i]
							for j := 0; j < 32; j++ {
								if alpha[j] == base.s[p2] {
									continue
								}
								b[p2] = alpha[j]
								n++
								if accept(string(b)) && oracle == "" {
									oracle = fmt.Sprintf("%q, which differs from the printed %q in 2 characters, was accepted", string(b), base.s)
								}
							}
							b[p2] = base.s[p2]
						}
						b[p1] = base.s[p1]
					}
					return &h.Case{Kind: "subst2-exhaustive-batch" + kindSfx, Impl: fmt.Sprintf("rejected=%d", n), Oracle: oracle, NonTrivial: true,
						Note: fmt.Sprintf("all double substitutions with first position %d in %q", p1, base.s)}
				})
			}
			for bi := 0; bi < cx.n(40, 3000); bi++ {
				rr := r.Fork()
				cx.ru.Do(func() *h.Case {
					b := []byte(base.s)
					n, oracle := 0, ""
					for it := 0; it < 5000; it++ {
						copy(b, base.s)
						w := 3 + rr.Intn(2)
						changed := 0
						for changed < w {
							p := start + rr.Intn(len(b)-start)
							if b[p] != base.s[p] {
								continue
							}
							c := alpha[rr.Intn(32)]
							if c == base.s[p] {
								continue
							}
							b[p] = c
							changed++
						}
						n++
						if accept(string(b)) && oracle == "" {
							oracle = fmt.Sprintf("%q, which differs from the printed %q in %d characters, was accepted", string(b), base.s, w)
						}
					}
					return &h.Case{Kind: "subst34-sampled-batch" + kindSfx, Impl: fmt.Sprintf("rejected=%d", n), Oracle: oracle, NonTrivial: true,
						Note: fmt.Sprintf("5000 random triple/quadruple substitutions of %q (batch %d)", base.s, rr.Intn(1<<30))}
				})
			}
		}
	}

	// --- the bech32 package itself: encode
	for i := 0; i < cx.n(20000, 300000); i++ {
		rr := r.Fork()
		cx.ru.Do(func() *h.Case {
			n := rr.Intn(9)
			if rr.Intn(10) == 0 {
				n = rr.Intn(40)
			}
			hrp := randName(rr, n, rr.Intn(5))
			if rr.Intn(4) == 0 {
				hrp = randName(rr, 1+rr.Intn(3), 3) + "1" + hrp
			}
			if rr.Intn(30) == 0 {
				hrp += string(confusables[rr.Intn(len(confusables))])
			}
			if rr.Intn(30) == 0 {
				hrp += string([]byte{byte(rr.Intn(256))})
			}
			dn := rr.Intn(12)
			if rr.Intn(4) == 0 {
				dn = rr.Intn(120)
			}
			return b32encCase("b32-encode", hrp, rr.Bytes(dn))
		})
	}
	// --- decode: valid strings and damaged ones, arbitrary HRPs, both cases
	for i := 0; i < cx.n(40000, 600000); i++ {
		rr := r.Fork()
		cx.ru.Do(func() *h.Case {
			hrp := randName(rr, 1+rr.Intn(8), rr.Intn(5))
			if rr.Intn(4) == 0 {
				hrp = hrp + "1" + randName(rr, rr.Intn(3), 3)
			}
			var d5 []byte
			if rr.Intn(3) == 0 {
				d5 = rr.Bytes(rr.Intn(20))
				for i := range d5 {
					d5[i] &= 31
				}
			} else {
				d5 = to5(rr.Bytes(rr.Intn(40)))
			}
			upper := rr.Bool()
			s := b32Build(hrp, d5, upper)
			kind, note := "b32-decode-built", fmt.Sprintf("hrp %q, %d symbols, upper data %v", hrp, len(d5), upper)
			if !hasLower(hrp) && !hasUpper(hrp) && upper {
				kind = "b32-decode-caseless-hrp-upper"
			}
			switch rr.Intn(8) {
			case 0:
				b := []byte(s)
				if len(b) > 0 {
					p := rr.Intn(len(b))
					b[p] = printable[rr.Intn(len(printable))]
					s, kind, note = string(b), "b32-decode-damaged", note+fmt.Sprintf(", substitution at %d", p)
				}
			case 1:
				p := rr.Intn(len(s) + 1)
				s, kind, note = s[:p], "b32-decode-damaged", note+fmt.Sprintf(", truncated to %d", p)
			case 2:
				p := rr.Intn(len(s) + 1)
				ins := []string{"1", "b", "i", "o", "B", "q", "Q", " ", "\x7f", "K", "\xff"}[rr.Intn(11)]
				s, kind, note = s[:p]+ins+s[p:], "b32-decode-damaged", note+fmt.Sprintf(", %q inserted at %d", ins, p)
			}
			return b32decCase(kind, s, note)
		})
	}
	// short strings around the separator/length test, exhaustively over a small alphabet
	{
		alpha := []byte("1aAq!")
		var rec func(prefix string, n int)
		rec = func(prefix string, n int) {
			s := prefix
			cx.ru.Do(func() *h.Case { return b32decCase("b32-decode-short", s, "short string") })
			if n == 0 {
				return
			}
			for _, c := range alpha {
				rec(prefix+string(c), n-1)
			}
		}
		rec("", cx.n(4, 6))
		for _, s := range []string{"a1qqqqqq", "a1qqqqq", "1qqqqqq", "a1" + string(b32Build("a", nil, false)[2:]), "A1" + asciiUpper(b32Build("a", nil, false)[2:]),
			"a1" + asciiUpper(b32Build("a", nil, false)[2:]), b32Build("1", nil, false), b32Build("11", nil, false), b32Build("~", nil, false)} {
			s := s
			cx.ru.Do(func() *h.Case { return b32decCase("b32-decode-short", s, "boundary") })
		}
	}

	// --- plugin strings
	for i := 0; i < cx.n(20000, 300000); i++ {
		rr := r.Fork()
		cx.ru.Do(func() *h.Case {
			style := rr.Intn(5)
			n := 1 + rr.Intn(8)
			if rr.Intn(15) == 0 {
				n = 0
			}
			name := randName(rr, n, style)
			if style >= 3 && rr.Bool() && n > 0 {
				// a valid name with exactly one character from outside the allow-list
				b := []byte(randName(rr, n, rr.Intn(3)))
				b[rr.Intn(len(b))] = printable[rr.Intn(len(printable))]
				name = string(b)
			}
			if rr.Intn(40) == 0 {
				name += string(confusables[rr.Intn(len(confusables))])
			}
			dn := rr.Intn(40)
			if rr.Intn(10) == 0 {
				dn = rr.Intn(200)
			}
			return pencCase(rr.Bool(), name, rr.Bytes(dn))
		})
	}
	for i := 0; i < cx.n(40000, 600000); i++ {
		rr := r.Fork()
		cx.ru.Do(func() *h.Case {
			style := rr.Intn(5)
			name := randName(rr, rr.Intn(7), style)
			if style >= 3 && rr.Bool() && len(name) > 0 {
				b := []byte(randName(rr, len(name), rr.Intn(3)))
				b[rr.Intn(len(b))] = printable[rr.Intn(len(printable))]
				name = string(b)
			}
			var d5 []byte
			if rr.Intn(4) == 0 {
				d5 = rr.Bytes(rr.Intn(12))
				for i := range d5 {
					d5[i] &= 31
				}
			} else {
				d5 = to5(rr.Bytes(rr.Intn(40)))
			}
			identity := rr.Bool()
			var s string
			note := fmt.Sprintf("name %q, %d symbols", name, len(d5))
			if identity {
				hrp := "AGE-PLUGIN-" + name + "-"
				switch rr.Intn(8) {
				case 0:
					hrp = "AGE-PLUGIN-" + name
				case 1:
					hrp = "AGE-PLUGIN" + name + "-"
				case 2:
					hrp = "age-plugin-" + name + "-"
				}
				s = b32Build(hrp, d5, !hasLower(hrp) || rr.Intn(6) == 0)
			} else {
				hrp := "age1" + name
				switch rr.Intn(8) {
				case 0:
					hrp = "age" + name
				case 1:
					hrp = "AGE1" + name
				}
				s = b32Build(hrp, d5, !hasLower(hrp) && rr.Intn(2) == 0)
			}
			kind := "plugin-parse"
			switch rr.Intn(10) {
			case 0:
				b := []byte(s)
				p := rr.Intn(len(b))
				b[p] = printable[rr.Intn(len(printable))]
				s, kind, note = string(b), "plugin-parse-damaged", note+fmt.Sprintf(", substitution at %d", p)
			case 1:
				s, kind, note = asciiUpper(s), "plugin-parse-case", note+", upper-cased"
			case 2:
				s, kind, note = asciiLower(s), "plugin-parse-case", note+", lower-cased"
			case 3:
				p := rr.Intn(len(s) + 1)
				ru := confusables[rr.Intn(len(confusables))]
				s, kind, note = s[:p]+string(ru)+s[p:], "plugin-parse-confusable", note+fmt.Sprintf(", U+%04X inserted at %d", ru, p)
			}
			wantReject := kind == "plugin-parse-confusable"
			if identity {
				return pidCase(kind+"-identity", s, wantReject, note)
			}
			return precCase(kind+"-recipient", s, wantReject, note)
		})
	}
	// a plugin string given to the native parsers and vice versa
	for i := 0; i < cx.n(50, 500); i++ {
		rr := r.Fork()
		cx.ru.Do(func() *h.Case {
			name := randName(rr, 1+rr.Intn(6), 0)
			return xrecCase("cross-plugin-to-native", plugin.EncodeRecipient(name, rr.Bytes(32)), true, "plugin recipient given to ParseX25519Recipient")
		})
		cx.ru.Do(func() *h.Case {
			name := randName(rr, 1+rr.Intn(6), 0)
			return xidCase("cross-plugin-to-native", plugin.EncodeIdentity(name, rr.Bytes(32)), true, "plugin identity given to ParseX25519Identity")
		})
		cx.ru.Do(func() *h.Case {
			return precCase("cross-native-to-plugin", b32Build("age", to5(rr.Bytes(32)), false), true, "native recipient given to plugin.ParseRecipient")
		})
		cx.ru.Do(func() *h.Case {
			return pidCase("cross-native-to-plugin", asciiUpper(b32Build("age-secret-key-", to5(rr.Bytes(32)), false)), true, "native identity given to plugin.ParseIdentity")
		})
	}	// deterministic sweeps and hand-built strings (c09_extra.go)
	c09Extra(cx)
}
