// primtest: differential test of the Lean execution-only crypto backend
// (/verif/lean/AgeModel/Crypto, driven through the `cryptotest` executable)
// against Go's standard library, golang.org/x/crypto and filippo.io/edwards25519.
//
// usage: primtest /verif/lean/.lake/build/bin/cryptotest
// env:   VERIF_SEED (default 1) seeds the case generator; PRIMTEST_BENCH=0 skips timings.
package main

import (
	"bufio"
	"bytes"
	"crypto/ed25519"
	"crypto/hmac"
	crand "crypto/rand"
	"crypto/rsa"
	"crypto/sha256"
	"crypto/sha512"
	"encoding/binary"
	"encoding/hex"
	"fmt"
	"io"
	"math/big"
	"math/rand"
	"os"
	"os/exec"
	"strconv"
	"strings"
	"time"

	"filippo.io/edwards25519"
	"golang.org/x/crypto/chacha20poly1305"
	"golang.org/x/crypto/curve25519"
	"golang.org/x/crypto/hkdf"
	"golang.org/x/crypto/pbkdf2"
	"golang.org/x/crypto/scrypt"
	"golang.org/x/crypto/ssh"
)

// ---------------------------------------------------------------- plumbing

type leanProc struct {
	cmd *exec.Cmd
	in  *bufio.Writer
	out *bufio.Reader
}

func startLean(path string) *leanProc {
	cmd := exec.Command(path)
	stdin, err := cmd.StdinPipe()
	must(err)
	stdout, err := cmd.StdoutPipe()
	must(err)
	cmd.Stderr = os.Stderr
	must(cmd.Start())
	return &leanProc{cmd: cmd, in: bufio.NewWriterSize(stdin, 1<<20), out: bufio.NewReaderSize(stdout, 1<<20)}
}

func (l *leanProc) ask(line string) string {
	if strings.ContainsAny(line, "\n\r") {
		panic("newline in request")
	}
	_, err := l.in.WriteString(line + "\n")
	must(err)
	must(l.in.Flush())
	resp, err := l.out.ReadString('\n')
	if err != nil {
		fmt.Printf("PRIMTEST FAIL lean process died on request %.200q: %v\n", line, err)
		os.Exit(1)
	}
	return strings.TrimRight(resp, "\r\n")
}

func must(err error) {
	if err != nil {
		panic(err)
	}
}

type failure struct{ prim, op, want, got string }

type stat struct{ cases, mism int }

var (
	lean     *leanProc
	order    []string
	stats    = map[string]*stat{}
	failures []failure
	rng      *rand.Rand
)

func st(prim string) *stat {
	s, ok := stats[prim]
	if !ok {
		s = &stat{}
		stats[prim] = s
		order = append(order, prim)
	}
	return s
}

// check sends one request and compares the reply with want.
func check(prim, op, want string) {
	s := st(prim)
	s.cases++
	got := lean.ask(op)
	if got != want {
		s.mism++
		failures = append(failures, failure{prim, op, want, got})
	}
}

// assert records a pure Go-side expectation (e.g. a literal RFC vector vs Go's own result).
func assert(prim, what string, ok bool) {
	s := st(prim)
	s.cases++
	if !ok {
		s.mism++
		failures = append(failures, failure{prim, "(go-side assertion) " + what, "true", "false"})
	}
}

func hx(b []byte) string {
	if len(b) == 0 {
		return "-"
	}
	return hex.EncodeToString(b)
}

func opt(b []byte, err error) string {
	if err != nil {
		return "none"
	}
	return hx(b)
}

func unhex(s string) []byte {
	b, err := hex.DecodeString(s)
	must(err)
	return b
}

func rb(n int) []byte {
	b := make([]byte, n)
	rng.Read(b)
	return b
}

func op(name string, args ...string) string {
	return name + " " + strings.Join(args, " ")
}

func itoa(n int) string { return strconv.Itoa(n) }

var blockEdges = []int{0, 1, 15, 16, 17, 55, 56, 63, 64, 65, 111, 112, 127, 128, 129}
var bigEdges = []int{65535, 65536, 65537}

// ---------------------------------------------------------------- hashes, MAC, KDFs

func testSha256() {
	const p = "sha256"
	want := "ba7816bf8f01cfea414140de5dae2223b00361a396177a9cb410ff61f20015ad"
	g := sha256.Sum256([]byte("abc"))
	assert(p, "FIPS 180 abc vector vs Go", hex.EncodeToString(g[:]) == want)
	check(p, op(p, hx([]byte("abc"))), want)
	check(p, op(p, "-"), "e3b0c44298fc1c149afbf4c8996fb92427ae41e4649b934ca495991b7852b855")
	one := func(m []byte) {
		h := sha256.Sum256(m)
		check(p, op(p, hx(m)), hx(h[:]))
	}
	for _, n := range blockEdges {
		one(rb(n))
		one(make([]byte, n))
	}
	for _, n := range bigEdges {
		one(rb(n))
	}
	for i := 0; i < 300; i++ {
		one(rb(rng.Intn(400)))
	}
	// upper-case hex on the wire is accepted too
	m := rb(40)
	h := sha256.Sum256(m)
	check(p, op(p, strings.ToUpper(hex.EncodeToString(m))), hx(h[:]))
}

func testSha512() {
	const p = "sha512"
	one := func(m []byte) {
		h := sha512.Sum512(m)
		check(p, op(p, hx(m)), hx(h[:]))
	}
	want := "ddaf35a193617abacc417349ae20413112e6fa4e89a97ea20a9eeee64b55d39a2192992a274fc1a836ba3c23a3feebbd454d4423643ce80e2a9ac94fa54ca49f"
	check(p, op(p, hx([]byte("abc"))), want)
	for _, n := range append(blockEdges, 239, 240, 241, 255, 256, 257, 1000, 8191) {
		one(rb(n))
		one(make([]byte, n))
	}
	for i := 0; i < 300; i++ {
		one(rb(rng.Intn(600)))
	}
}

func goHmac(key, msg []byte) []byte {
	m := hmac.New(sha256.New, key)
	m.Write(msg)
	return m.Sum(nil)
}

func testHmac() {
	const p = "hmacSha256"
	one := func(k, m []byte) { check(p, op(p, hx(k), hx(m)), hx(goHmac(k, m))) }
	// RFC 4231 test case 2
	check(p, op(p, hx([]byte("Jefe")), hx([]byte("what do ya want for nothing?"))),
		"5bdcc146bf60754e6a042426089575c75a003f089d2739839dec58b964ec3843")
	for _, kl := range []int{0, 1, 31, 32, 33, 63, 64, 65, 100, 128, 129, 200} {
		for _, ml := range blockEdges {
			one(rb(kl), rb(ml))
		}
	}
	for i := 0; i < 300; i++ {
		one(rb(rng.Intn(150)), rb(rng.Intn(300)))
	}
}

func goHkdf(ikm, salt, info []byte, n int) []byte {
	out := make([]byte, n)
	_, err := io.ReadFull(hkdf.New(sha256.New, ikm, salt, info), out)
	must(err)
	return out
}

func testHkdf() {
	const p = "hkdfSha256"
	one := func(ikm, salt, info []byte, n int) {
		check(p, op(p, hx(ikm), hx(salt), hx(info), itoa(n)), hx(goHkdf(ikm, salt, info, n)))
	}
	// RFC 5869 test case 1
	check(p, op(p, "0b0b0b0b0b0b0b0b0b0b0b0b0b0b0b0b0b0b0b0b0b0b", "000102030405060708090a0b0c", "f0f1f2f3f4f5f6f7f8f9", "42"),
		"3cb25f25faacd57a90434f64d0362f2a2d2d0a90cf1a5a4c5db02d56ecc4c5bf34007208d5b887185865")
	// RFC 5869 test case 3 (empty salt and info)
	check(p, op(p, "0b0b0b0b0b0b0b0b0b0b0b0b0b0b0b0b0b0b0b0b0b0b", "-", "-", "42"),
		"8da4e775a563c18f715f802a063c5a31b8a11f5c5ee1879ec3454e5f3c738d2d9d201395faa4b61a96c8")
	for _, n := range []int{0, 1, 31, 32, 33, 63, 64, 65, 96, 255, 256, 8159, 8160} {
		one(rb(32), rb(16), rb(10), n)
		one(rb(32), nil, []byte("age-encryption.org/v1/X25519"), n)
		one(rb(32), make([]byte, 32), []byte("age-encryption.org/v1/X25519"), n)
	}
	one(nil, nil, nil, 32)
	one(nil, rb(5), nil, 32)
	one(rb(64), rb(64), []byte("payload"), 32)
	one(rb(16), rb(16), []byte("header"), 32)
	one(rb(100), rb(100), rb(100), 100)
	for i := 0; i < 300; i++ {
		var salt []byte
		if rng.Intn(4) != 0 {
			salt = rb(rng.Intn(100))
		}
		one(rb(rng.Intn(100)), salt, rb(rng.Intn(100)), rng.Intn(200))
	}
}

func testPbkdf2() {
	const p = "pbkdf2Sha256"
	one := func(pw, salt []byte, iter, n int) {
		check(p, op(p, hx(pw), hx(salt), itoa(iter), itoa(n)), hx(pbkdf2.Key(pw, salt, iter, n, sha256.New)))
	}
	// RFC 7914 section 11
	v1 := "55ac046e56e3089fec1691c22544b605f94185216dde0465e68b9d57c20dacbc49ca9cccf179b645991664b39d77ef317c71b845b1e30bd509112041d3a19783"
	assert(p, "RFC 7914 PBKDF2 vector 1 vs Go", hex.EncodeToString(pbkdf2.Key([]byte("passwd"), []byte("salt"), 1, 64, sha256.New)) == v1)
	check(p, op(p, hx([]byte("passwd")), hx([]byte("salt")), "1", "64"), v1)
	v2 := "4ddcd8f60b98be21830cee5ef22701f9641a4418d04c0414aeff08876b34ab56a1d425a1225833549adb841b51c9b3176a272bdebba1d078478f62b397f33c8d"
	assert(p, "RFC 7914 PBKDF2 vector 2 vs Go", hex.EncodeToString(pbkdf2.Key([]byte("Password"), []byte("NaCl"), 80000, 64, sha256.New)) == v2)
	for _, n := range []int{0, 1, 31, 32, 33, 64, 65, 100} {
		one(rb(10), rb(10), 1, n)
		one(rb(10), rb(10), 3, n)
	}
	for _, pl := range []int{0, 1, 63, 64, 65, 128, 200} {
		one(rb(pl), rb(16), 2, 40)
		one(rb(pl), nil, 1, 32)
	}
	one(rb(12), rb(1024), 1, 32) // the shape of scrypt's second PBKDF2 call
	one(rb(12), rb(16), 1, 1024) // the shape of scrypt's first PBKDF2 call
	one(rb(8), rb(8), 1000, 32)
	one(rb(8), rb(8), 4096, 20)
	for i := 0; i < 300; i++ {
		one(rb(rng.Intn(100)), rb(rng.Intn(100)), 1+rng.Intn(20), rng.Intn(100))
	}
}

func testScrypt() {
	const p = "scrypt"
	one := func(pw, salt []byte, logN, r, pp, n int) {
		k, err := scrypt.Key(pw, salt, 1<<uint(logN), r, pp, n)
		must(err)
		check(p, op(p, hx(pw), hx(salt), itoa(logN), itoa(r), itoa(pp), itoa(n)), hx(k))
	}
	// RFC 7914 section 12
	v1 := "77d6576238657b203b19ca42c18a0497f16b4844e3074ae8dfdffa3fede21442fcd0069ded0948f8326a753a0fc81f17e8d3e0fb2e0d3628cf35e20c38d18906"
	k, _ := scrypt.Key(nil, nil, 16, 1, 1, 64)
	assert(p, "RFC 7914 scrypt vector 1 vs Go", hex.EncodeToString(k) == v1)
	check(p, op(p, "-", "-", "4", "1", "1", "64"), v1)
	v2 := "fdbabe1c9d3472007856e7190d01e9fe7c6ad7cbc8237830e77376634b3731622eaf30d92e22a3886ff109279d9830dac727afb94a83ee6d8360cbdfa2cc0640"
	k, _ = scrypt.Key([]byte("password"), []byte("NaCl"), 1024, 8, 16, 64)
	assert(p, "RFC 7914 scrypt vector 2 vs Go", hex.EncodeToString(k) == v2)
	check(p, op(p, hx([]byte("password")), hx([]byte("NaCl")), "10", "8", "16", "64"), v2)
	for logN := 1; logN <= 9; logN++ {
		for i := 0; i < 6; i++ {
			one(rb(rng.Intn(40)), rb(rng.Intn(40)), logN, 8, 1, 32)
		}
		one(nil, nil, logN, 8, 1, 32)
		for _, r := range []int{1, 2, 3, 8} {
			for _, pp := range []int{1, 2, 3} {
				one(rb(rng.Intn(40)), rb(rng.Intn(40)), logN, r, pp, []int{1, 32, 64, 100}[rng.Intn(4)])
			}
		}
	}
	// the age shape: 16-byte salt prefixed by the label, r=8, p=1, 32-byte key
	label := []byte("age-encryption.org/v1/scrypt")
	for i := 0; i < 3; i++ {
		one(rb(10+rng.Intn(20)), append(append([]byte{}, label...), rb(16)...), 10, 8, 1, 32)
	}
	one(rb(20), append(append([]byte{}, label...), rb(16)...), 11, 8, 1, 32)
	one(rb(20), append(append([]byte{}, label...), rb(16)...), 12, 8, 1, 32)
}

// ---------------------------------------------------------------- AEAD

func goSeal(key, nonce, pt []byte) []byte {
	a, err := chacha20poly1305.New(key)
	must(err)
	return a.Seal(nil, nonce, pt, nil)
}

func goOpen(key, nonce, ct []byte) ([]byte, error) {
	a, err := chacha20poly1305.New(key)
	must(err)
	return a.Open(nil, nonce, ct, nil)
}

func testAead() {
	const ps, po = "aeadSeal", "aeadOpen"
	sealOne := func(key, nonce, pt []byte) {
		check(ps, op(ps, hx(key), hx(nonce), hx(pt)), hx(goSeal(key, nonce, pt)))
	}
	openOne := func(key, nonce, ct []byte) {
		check(po, op(po, hx(key), hx(nonce), hx(ct)), opt(goOpen(key, nonce, ct)))
	}
	zeroNonce := make([]byte, 12)
	lastNonce := append(make([]byte, 11), 1) // age's final-chunk nonce for chunk 0
	for _, n := range append(append([]int{}, blockEdges...), 31, 32, 33, 191, 192, 193, 1000) {
		key := rb(32)
		sealOne(key, rb(12), rb(n))
		sealOne(key, zeroNonce, make([]byte, n))
		ct := goSeal(key, lastNonce, rb(n))
		openOne(key, lastNonce, ct)
	}
	for _, n := range bigEdges {
		key, nonce := rb(32), rb(12)
		sealOne(key, nonce, rb(n))
		openOne(key, nonce, goSeal(key, nonce, rb(n)))
	}
	// all-ones key/nonce to exercise carries in Poly1305
	ff32, ff12 := bytes.Repeat([]byte{0xff}, 32), bytes.Repeat([]byte{0xff}, 12)
	for _, n := range []int{0, 16, 64, 100} {
		sealOne(ff32, ff12, bytes.Repeat([]byte{0xff}, n))
	}
	for i := 0; i < 300; i++ {
		n := rng.Intn(300)
		if i%10 == 0 {
			n = rng.Intn(3000)
		}
		sealOne(rb(32), rb(12), rb(n))
	}
	for i := 0; i < 300; i++ {
		key, nonce := rb(32), rb(12)
		n := rng.Intn(200)
		ct := goSeal(key, nonce, rb(n))
		switch i % 6 {
		case 0, 1:
			openOne(key, nonce, ct)
		case 2: // flip one bit anywhere (body or tag)
			j := rng.Intn(len(ct))
			ct[j] ^= 1 << uint(rng.Intn(8))
			openOne(key, nonce, ct)
		case 3: // wrong key / wrong nonce
			if rng.Intn(2) == 0 {
				openOne(rb(32), nonce, ct)
			} else {
				openOne(key, rb(12), ct)
			}
		case 4: // truncated / extended
			if rng.Intn(2) == 0 {
				openOne(key, nonce, ct[:rng.Intn(len(ct))])
			} else {
				openOne(key, nonce, append(ct, byte(rng.Intn(256))))
			}
		case 5: // random garbage of small length, incl. < 16
			openOne(key, nonce, rb(rng.Intn(40)))
		}
	}
	key, nonce := rb(32), rb(12)
	for _, n := range []int{0, 1, 15, 16, 17} {
		openOne(key, nonce, make([]byte, n))
	}
	openOne(key, nonce, goSeal(key, nonce, nil)) // 16 bytes: valid empty plaintext
}

// ---------------------------------------------------------------- X25519

var fieldP = new(big.Int).Sub(new(big.Int).Lsh(big.NewInt(1), 255), big.NewInt(19))

func le32(n *big.Int) []byte {
	b := n.Bytes()
	if len(b) > 32 {
		panic("too big")
	}
	out := make([]byte, 32)
	for i := range b {
		out[len(b)-1-i] = b[i]
	}
	return out
}

func testX25519() {
	const p = "x25519"
	one := func(s, pt []byte) {
		check(p, op(p, hx(s), hx(pt)), opt(curve25519.X25519(s, pt)))
	}
	// RFC 7748 section 5.2
	vec := [][3]string{
		{"a546e36bf0527c9d3b16154b82465edd62144c0ac1fc5a18506a2244ba449ac4", "e6db6867583030db3594c1a424b15f7c726624ec26b3353b10a903a6d0ab1c4c", "c3da55379de9c6908e94ea4df28d084f32eccf03491c71f754b4075577a28552"},
		{"4b66e9d4d1b4673c5ad22691957d6af5c11b6421e0ea01d42ca4169e7918ba0d", "e5210f12786811d3f4b7959d0538ae2c31dbe7106fc03c3efc4cd549c715a493", "95cbde9476e8907d7aade45cb4b873f88b595a68799fa152e6f8f7647aac7957"},
	}
	for _, v := range vec {
		g, err := curve25519.X25519(unhex(v[0]), unhex(v[1]))
		assert(p, "RFC 7748 5.2 vector vs Go", err == nil && hex.EncodeToString(g) == v[2])
		check(p, op(p, v[0], v[1]), v[2])
	}
	// RFC 7748 section 5.2 iteration: 1 and 1000 rounds, run on the Lean side
	k := unhex("0900000000000000000000000000000000000000000000000000000000000000")
	u := append([]byte{}, k...)
	for i := 1; i <= 1000; i++ {
		r := lean.ask(op(p, hx(k), hx(u)))
		nk, err := hex.DecodeString(r)
		if err != nil {
			nk = make([]byte, 32)
		}
		u, k = k, nk
		if i == 1 {
			assert(p, "RFC 7748 iteration 1 (Lean)", hex.EncodeToString(k) == "422c8e7a6227d7bca1350b3e2bb7279f7897b87bb6854b783c60e80311ae3079")
		}
	}
	assert(p, "RFC 7748 iteration 1000 (Lean)", hex.EncodeToString(k) == "684cf59ba83309552800ef566f2f4d3c1c3887c49360e3875f2eb94d99532c51")

	// low-order points (RFC 7748 section 6.1 note / libsodium blocklist / Cremers-Jackson list)
	low := []string{
		"0000000000000000000000000000000000000000000000000000000000000000",
		"0100000000000000000000000000000000000000000000000000000000000000",
		"e0eb7a7c3b41b8ae1656e3faf19fc46ada098deb9c32b1fd866205165f49b800",
		"5f9c95bca3508c24b1d0b1559c83ef5b04445cc4581c8e86d8224eddd09f1157",
		"ecffffffffffffffffffffffffffffffffffffffffffffffffffffffffffff7f", // p-1
		"edffffffffffffffffffffffffffffffffffffffffffffffffffffffffffff7f", // p
		"eeffffffffffffffffffffffffffffffffffffffffffffffffffffffffffff7f", // p+1
		"cdeb7a7c3b41b8ae1656e3faf19fc46ada098deb9c32b1fd866205165f49b880",
		"4c9c95bca3508c24b1d0b1559c83ef5b04445cc4581c8e86d8224eddd09f11d7",
		"d9ffffffffffffffffffffffffffffffffffffffffffffffffffffffffffffff",
		"daffffffffffffffffffffffffffffffffffffffffffffffffffffffffffffff",
		"dbffffffffffffffffffffffffffffffffffffffffffffffffffffffffffffff",
	}
	nLowNone := 0
	for _, l := range low {
		pt := unhex(l)
		for _, hi := range []byte{0, 0x80} {
			q := append([]byte{}, pt...)
			q[31] |= hi
			for i := 0; i < 3; i++ {
				s := rb(32)
				if _, err := curve25519.X25519(s, q); err != nil {
					nLowNone++
				}
				one(s, q)
			}
		}
	}
	assert(p, "Go rejects at least the 7 canonical low-order points (x2 high-bit variants x3 scalars)", nLowNone >= 42)
	// non-canonical u: p .. p+18, 2^255-1, each with and without bit 255
	for kk := int64(0); kk <= 18; kk++ {
		q := le32(new(big.Int).Add(fieldP, big.NewInt(kk)))
		s := rb(32)
		one(s, q)
		q[31] |= 0x80
		one(s, q)
		// and its canonical twin must give the same answer: compare through Go
		one(s, le32(big.NewInt(kk)))
	}
	one(rb(32), bytes.Repeat([]byte{0xff}, 32))
	// scalar edge cases (clamping)
	for _, s := range [][]byte{make([]byte, 32), bytes.Repeat([]byte{0xff}, 32), append(make([]byte, 31), 0x80), append([]byte{7}, make([]byte, 31)...)} {
		one(s, rb(32))
		one(s, curve25519.Basepoint)
	}
	// wrong lengths
	for _, n := range []int{0, 1, 31, 33, 64} {
		one(rb(n), rb(32))
		one(rb(32), rb(n))
		one(rb(n), rb(n))
	}
	for i := 0; i < 300; i++ {
		one(rb(32), rb(32))
	}

	const pb = "x25519Base"
	check(pb, op(pb, "77076d0a7318a57d3c16c17251b26645df4c2f87ebc0992ab177fba51db92c2a"),
		"8520f0098930a754748b7ddcb43ef75a0dbf3a0d26381af4eba4a98eaa9b4e6a")
	check(pb, op(pb, "5dab087e624a8a4b79e17f8b83800ee66f3bb1292618b6fd1c2f8b27ff88e0eb"),
		"de9edb7d7b7dc1b4d35b61c2ece435373f8343c85b78674dadfc7e146f882b4f")
	for _, s := range [][]byte{make([]byte, 32), bytes.Repeat([]byte{0xff}, 32)} {
		g, err := curve25519.X25519(s, curve25519.Basepoint)
		must(err)
		check(pb, op(pb, hx(s)), hx(g))
	}
	for i := 0; i < 300; i++ {
		s := rb(32)
		g, err := curve25519.X25519(s, curve25519.Basepoint)
		must(err)
		check(pb, op(pb, hx(s)), hx(g))
	}
}

// ---------------------------------------------------------------- ed25519 → curve25519

func goEdToMont(pk []byte) string {
	pt, err := new(edwards25519.Point).SetBytes(pk)
	if err != nil {
		return "none"
	}
	return hx(pt.BytesMontgomery())
}

func testEd() {
	const p = "edPubToMontgomery"
	nSome, nNone := 0, 0
	one := func(pk []byte) {
		w := goEdToMont(pk)
		if w == "none" {
			nNone++
		} else {
			nSome++
		}
		check(p, op(p, hx(pk)), w)
	}
	for i := 0; i < 100; i++ {
		pub, _, err := ed25519.GenerateKey(rng)
		must(err)
		one(pub)
		q := append([]byte{}, pub...)
		q[31] ^= 0x80 // the negated point: same Montgomery u
		one(q)
	}
	for i := 0; i < 300; i++ {
		one(rb(32)) // about half are not on the curve
	}
	// non-canonical y: p+k for k = 0..18 (y ≡ k), both sign bits; Go reduces mod p
	ncAccepted := 0
	for kk := int64(0); kk <= 18; kk++ {
		for _, hi := range []byte{0, 0x80} {
			q := le32(new(big.Int).Add(fieldP, big.NewInt(kk)))
			q[31] |= hi
			if goEdToMont(q) != "none" {
				ncAccepted++
				// must equal the canonical encoding's image
				c := le32(big.NewInt(kk))
				c[31] |= hi
				assert(p, "non-canonical y maps like its reduced twin (Go)", goEdToMont(q) == goEdToMont(c))
			}
			one(q)
			c := le32(big.NewInt(kk))
			c[31] |= hi
			one(c)
		}
	}
	assert(p, "Go accepts some non-canonical y encodings", ncAccepted > 0)
	// special points: identity (y=1), y=1 with sign bit (x=0 "negative zero"), y=-1, y=0, all-ones
	pm1 := le32(new(big.Int).Sub(fieldP, big.NewInt(1)))
	specials := [][]byte{
		le32(big.NewInt(1)),
		append(append([]byte{1}, make([]byte, 30)...), 0x80),
		pm1,
		append(append([]byte{}, pm1[:31]...), pm1[31]|0x80),
		make([]byte, 32),
		append(make([]byte, 31), 0x80),
		bytes.Repeat([]byte{0xff}, 32),
		append(bytes.Repeat([]byte{0xff}, 31), 0x7f),
	}
	// the eight small-order points (canonical encodings)
	for _, s := range []string{
		"c7176a703d4dd84fba3c0b760d10670f2a2053fa2c39ccc64ec7fd7792ac037a",
		"c7176a703d4dd84fba3c0b760d10670f2a2053fa2c39ccc64ec7fd7792ac03fa",
		"26e8958fc2b227b045c3f489f2ef98f0d5dfac05d3c63339b13802886d53fc05",
		"26e8958fc2b227b045c3f489f2ef98f0d5dfac05d3c63339b13802886d53fc85",
	} {
		specials = append(specials, unhex(s))
	}
	for _, s := range specials {
		one(s)
	}
	for _, n := range []int{0, 1, 31, 33, 64} {
		one(rb(n))
	}
	assert(p, "both outcomes exercised", nSome > 100 && nNone > 100)

	const ps = "edSeedToCurveScalar"
	for i := 0; i < 200; i++ {
		seed := rb(32)
		h := sha512.Sum512(seed)
		check(ps, op(ps, hx(seed)), hx(h[:32]))
		if i < 20 {
			// and consistency with the real key: scalar*B on Montgomery == map of the ed25519 public key
			priv := ed25519.NewKeyFromSeed(seed)
			pub := priv.Public().(ed25519.PublicKey)
			mont, err := curve25519.X25519(h[:32], curve25519.Basepoint)
			must(err)
			assert(ps, "X25519(sha512(seed)[:32], 9) == montgomery(pub) (Go)", goEdToMont(pub) == hx(mont))
			check("x25519Base", op("x25519Base", hx(h[:32])), goEdToMont(pub))
		}
	}
	for _, n := range []int{0, 1, 31, 33, 64, 111, 112, 128, 129} {
		seed := rb(n)
		h := sha512.Sum512(seed)
		check(ps, op(ps, hx(seed)), hx(h[:32]))
	}
}

// ---------------------------------------------------------------- SSH wire formats

func testSSH(keys []*rsa.PrivateKey) {
	const p1 = "sshString"
	for _, n := range append(append([]int{}, blockEdges...), 255, 256, 257, 65535, 65536) {
		b := rb(n)
		want := make([]byte, 4+n)
		binary.BigEndian.PutUint32(want, uint32(n))
		copy(want[4:], b)
		assert(p1, "hand encoding == ssh.Marshal", bytes.Equal(want, ssh.Marshal(struct{ B []byte }{b})))
		check(p1, op(p1, hx(b)), hx(want))
	}
	for i := 0; i < 200; i++ {
		b := rb(rng.Intn(300))
		check(p1, op(p1, hx(b)), hx(ssh.Marshal(struct{ B []byte }{b})))
	}

	const p2 = "sshEd25519Wire"
	for i := 0; i < 200; i++ {
		pk := rb(32)
		k, err := ssh.NewPublicKey(ed25519.PublicKey(pk))
		must(err)
		check(p2, op(p2, hx(pk)), hx(k.Marshal()))
	}

	const p3 = "sshRsaWire"
	one := func(e int, n *big.Int) {
		k, err := ssh.NewPublicKey(&rsa.PublicKey{N: n, E: e})
		must(err)
		check(p3, op(p3, hx(big.NewInt(int64(e)).Bytes()), hx(n.Bytes())), hx(k.Marshal()))
	}
	for _, k := range keys {
		one(k.E, k.N)
	}
	es := []int{0, 1, 3, 17, 127, 128, 255, 256, 32767, 32768, 65535, 65536, 65537, 1<<23 - 1, 1 << 23, 1<<31 - 1}
	for _, e := range es {
		one(e, new(big.Int).SetBytes(rb(1+rng.Intn(300))))
	}
	one(65537, big.NewInt(0))
	one(65537, big.NewInt(127))
	one(65537, big.NewInt(128))
	one(65537, big.NewInt(255))
	one(65537, big.NewInt(256))
	for i := 0; i < 200; i++ {
		nb := rb(1 + rng.Intn(520))
		switch i % 3 {
		case 0:
			nb[0] |= 0x80 // top bit set: needs the 0x00 prefix
		case 1:
			nb[0] &= 0x7f
			if nb[0] == 0 {
				nb[0] = 1
			}
		}
		one(es[rng.Intn(len(es))], new(big.Int).SetBytes(nb))
	}
	// leading zeros on the wire form of n/e must not matter (Nat argument)
	k, _ := ssh.NewPublicKey(&rsa.PublicKey{N: big.NewInt(0x1234), E: 3})
	check(p3, op(p3, "00000003", "0000001234"), hx(k.Marshal()))
}

// ---------------------------------------------------------------- RSA-OAEP

func goMgf1(seed []byte, n int) []byte {
	var out []byte
	for c := uint32(0); len(out) < n; c++ {
		h := sha256.New()
		h.Write(seed)
		var cb [4]byte
		binary.BigEndian.PutUint32(cb[:], c)
		h.Write(cb[:])
		out = h.Sum(out)
	}
	return out[:n]
}

func testMgf1() {
	const p = "mgf1Sha256"
	for _, n := range []int{0, 1, 31, 32, 33, 63, 64, 65, 223, 351, 479, 1000} {
		s := rb(32)
		check(p, op(p, hx(s), itoa(n)), hx(goMgf1(s, n)))
	}
	check(p, op(p, "-", "40"), hx(goMgf1(nil, 40)))
	for i := 0; i < 200; i++ {
		s, n := rb(rng.Intn(300)), rng.Intn(600)
		check(p, op(p, hx(s), itoa(n)), hx(goMgf1(s, n)))
	}
}

// tape is a deterministic io.Reader that records the size of every Read call.
type tape struct {
	data  []byte
	reads []int
}

func (t *tape) Read(b []byte) (int, error) {
	t.reads = append(t.reads, len(b))
	n := copy(b, t.data)
	t.data = t.data[n:]
	if n == 0 && len(b) > 0 {
		return 0, io.EOF
	}
	return n, nil
}

func xorInto(dst, mask []byte) {
	for i := range dst {
		dst[i] ^= mask[i]
	}
}

// rawOaep builds an OAEP encoded message by hand with the given deviations and RSA-encrypts it with big.Int.
func rawOaep(pub *rsa.PublicKey, seed, lHash, ps, sep, msg []byte, first byte) []byte {
	k := pub.Size()
	db := append(append(append(append([]byte{}, lHash...), ps...), sep...), msg...)
	if len(db) != k-33 {
		panic(fmt.Sprintf("rawOaep: bad db length %d want %d", len(db), k-33))
	}
	s := append([]byte{}, seed...)
	xorInto(db, goMgf1(s, len(db)))
	xorInto(s, goMgf1(db, 32))
	em := append(append([]byte{first}, s...), db...)
	m := new(big.Int).SetBytes(em)
	if m.Cmp(pub.N) >= 0 {
		return nil
	}
	c := new(big.Int).Exp(m, big.NewInt(int64(pub.E)), pub.N)
	return c.FillBytes(make([]byte, k))
}

var tapeReadLog = map[string]int{}

func testOaep(keys []*rsa.PrivateKey) {
	const pe, pd, pt = "rsaOaepEncrypt", "rsaOaepDecrypt", "oaepTapeReads"
	ageLabel := []byte("age-encryption.org/v1/ssh-rsa")
	for ki, key := range keys {
		pub := &key.PublicKey
		k := pub.Size()
		max := k - 66
		nHex, eHex, dHex := hx(pub.N.Bytes()), hx(big.NewInt(int64(pub.E)).Bytes()), hx(key.D.Bytes())

		enc := func(msg, label []byte) {
			seed := rb(64) // twice what should be consumed
			tp := &tape{data: append([]byte{}, seed...)}
			ct, err := rsa.EncryptOAEP(sha256.New(), tp, pub, msg, label)
			tapeReadLog[fmt.Sprint(tp.reads)]++
			if err != nil {
				assert(pt, "no tape reads when EncryptOAEP fails with message too long", len(tp.reads) == 0 && len(msg) > max)
			} else {
				assert(pt, fmt.Sprintf("EncryptOAEP reads exactly [32] from the tape, got %v", tp.reads),
					len(tp.reads) == 1 && tp.reads[0] == 32 && len(tp.data) == 32)
			}
			check(pe, op(pe, nHex, eHex, hx(seed[:32]), hx(msg), hx(label)), opt(ct, err))
		}
		dec := func(ct, label []byte) {
			check(pd, op(pd, nHex, dHex, hx(ct), hx(label)), opt(rsa.DecryptOAEP(sha256.New(), nil, key, ct, label)))
		}
		goEnc := func(msg, label []byte) []byte {
			ct, err := rsa.EncryptOAEP(sha256.New(), rng, pub, msg, label)
			must(err)
			return ct
		}

		nRand := 30
		if ki >= 2 {
			nRand = 6
		}
		for _, n := range []int{0, 1, 16, max - 1, max, max + 1, max + 2, k} {
			enc(rb(n), ageLabel)
			enc(rb(n), nil)
		}
		for i := 0; i < nRand; i++ {
			label := ageLabel
			if i%3 == 1 {
				label = rb(rng.Intn(100))
			}
			enc(rb(rng.Intn(max+1)), label)
		}
		// Lean-side seed of the wrong size is refused
		check(pe, op(pe, nHex, eHex, hx(rb(31)), hx(rb(16)), "-"), "none")
		check(pe, op(pe, nHex, eHex, hx(rb(33)), hx(rb(16)), "-"), "none")

		// ---- decrypt
		for _, n := range []int{0, 1, 16, max} {
			m := rb(n)
			dec(goEnc(m, ageLabel), ageLabel)
			dec(goEnc(m, nil), nil)
		}
		// messages with leading zero / 0x01 bytes (separator scan)
		dec(goEnc([]byte{0, 0, 1, 0}, ageLabel), ageLabel)
		dec(goEnc([]byte{1, 1, 1}, ageLabel), ageLabel)
		for i := 0; i < nRand/2; i++ {
			label := rb(rng.Intn(60))
			ct := goEnc(rb(rng.Intn(max+1)), label)
			switch i % 3 {
			case 0:
				dec(ct, label)
			case 1: // wrong label
				dec(ct, ageLabel)
			case 2: // corrupted ciphertext
				ct[rng.Intn(len(ct))] ^= 1 << uint(rng.Intn(8))
				dec(ct, label)
			}
		}
		if ki < 2 {
			// ciphertext whose integer value has a leading zero byte: Go also accepts the short form
			for tries := 0; tries < 5000; tries++ {
				m := rb(16)
				ct := goEnc(m, ageLabel)
				if ct[0] == 0 {
					dec(ct, ageLabel)
					dec(ct[1:], ageLabel)                          // short: accepted by Go
					dec(append([]byte{0}, ct...), ageLabel)        // long: rejected by Go (len > k)
					dec(append([]byte{0, 0}, ct[1:]...), ageLabel) // same length k+1
					break
				}
			}
		}
		// out-of-range and degenerate ciphertexts
		nB := pub.N.FillBytes(make([]byte, k))
		dec(nB, ageLabel)
		dec(new(big.Int).Add(pub.N, big.NewInt(1)).FillBytes(make([]byte, k)), ageLabel)
		dec(new(big.Int).Sub(pub.N, big.NewInt(1)).FillBytes(make([]byte, k)), ageLabel)
		dec(bytes.Repeat([]byte{0xff}, k), ageLabel)
		dec(make([]byte, k), ageLabel)
		dec(append(make([]byte, k-1), 1), ageLabel)
		dec(nil, ageLabel)
		dec([]byte{1}, ageLabel)
		dec([]byte{2}, ageLabel)
		dec(rb(k-1), ageLabel)
		dec(rb(k+1), ageLabel)
		// structurally broken encodings, built by hand
		lh := sha256.Sum256(ageLabel)
		msg := rb(16)
		zeros := func(n int) []byte { return make([]byte, n) }
		psLen := k - 66 - len(msg)
		good := rawOaep(pub, rb(32), lh[:], zeros(psLen), []byte{1}, msg, 0)
		dec(good, ageLabel) // sanity: hand-built valid encoding decrypts
		assert(pd, "hand-built OAEP encoding is accepted by Go", func() bool {
			m, err := rsa.DecryptOAEP(sha256.New(), nil, key, good, ageLabel)
			return err == nil && bytes.Equal(m, msg)
		}())
		if c := rawOaep(pub, rb(32), lh[:], zeros(psLen), []byte{1}, msg, 1); c != nil {
			dec(c, ageLabel) // first byte 0x01
		}
		badLh := append([]byte{}, lh[:]...)
		badLh[31] ^= 1
		dec(rawOaep(pub, rb(32), badLh, zeros(psLen), []byte{1}, msg, 0), ageLabel)     // wrong lHash
		dec(rawOaep(pub, rb(32), lh[:], zeros(psLen), []byte{2}, msg, 0), ageLabel)     // separator 0x02
		dec(rawOaep(pub, rb(32), lh[:], zeros(k-33-32), nil, nil, 0), ageLabel)         // no separator at all
		dec(rawOaep(pub, rb(32), lh[:], zeros(k-33-32-1), []byte{1}, nil, 0), ageLabel) // separator last: empty message
		ps := zeros(psLen)
		ps[psLen/2] = 0x80
		dec(rawOaep(pub, rb(32), lh[:], ps, []byte{1}, msg, 0), ageLabel) // non-zero padding byte
		ps2 := zeros(psLen)
		ps2[0] = 1
		dec(rawOaep(pub, rb(32), lh[:], ps2, []byte{1}, msg, 0), ageLabel) // early 0x01: longer message
	}
}

func testHex() {
	const ph, pu = "hex", "unhex"
	for _, n := range []int{0, 1, 2, 16, 255, 256} {
		b := rb(n)
		check(ph, op(ph, hx(b)), hx([]byte(hex.EncodeToString(b))))
	}
	all := make([]byte, 256)
	for i := range all {
		all[i] = byte(i)
	}
	check(ph, op(ph, hx(all)), hx([]byte(hex.EncodeToString(all))))
	check(ph, op(ph, strings.ToUpper(hx(all))), hx([]byte(hex.EncodeToString(all))))
	for i := 0; i < 100; i++ {
		b := rb(rng.Intn(100))
		check(ph, op(ph, hx(b)), hx([]byte(hex.EncodeToString(b))))
	}
	one := func(s string) {
		if s == "" {
			check(pu, "unhex", "-")
			return
		}
		b, err := hex.DecodeString(s)
		check(pu, op(pu, s), opt(b, err))
	}
	for _, s := range []string{"", "0", "00", "0g", "g0", "abc", "ABCDEF", "abcdef0123456789", "0x00", "-", "--", "0-", "é", "éé", "٣٣", "a٣", "٣a", "0:", "/0", "@A", "`a", "Gg", "fF", "00 "} {
		one(strings.TrimSpace(s))
	}
	good := "0123456789abcdefABCDEF"
	bad := "gGxXzZ/:@`-_+.~"
	for i := 0; i < 300; i++ {
		n := rng.Intn(40)
		var sb strings.Builder
		for j := 0; j < n; j++ {
			if i%3 == 0 && rng.Intn(20) == 0 {
				sb.WriteByte(bad[rng.Intn(len(bad))])
			} else {
				sb.WriteByte(good[rng.Intn(len(good))])
			}
		}
		one(sb.String())
	}
}

// ---------------------------------------------------------------- timings (informational)

func bench(keys []*rsa.PrivateKey) {
	ms := func(line string) float64 {
		r := lean.ask(line)
		f := strings.Fields(r)
		if len(f) == 0 || !strings.HasPrefix(f[0], "ms=") {
			return -1
		}
		v, _ := strconv.ParseFloat(strings.TrimPrefix(f[0], "ms="), 64)
		return v
	}
	const iters = 50
	mb := float64(iters) * 65536 / 1e6
	for _, name := range []string{"sha256", "aeadSeal", "aeadOpen"} {
		cold := ms(fmt.Sprintf("bench %s 65536 %d", name, iters))
		hot := ms(fmt.Sprintf("bench %s 65536 %d hot", name, iters))
		fmt.Printf("bench %s 64KiB: %.1f MB/s (fresh input list per call), %.1f MB/s (same input list reused); List UInt8 in/out included\n",
			name, mb/(cold/1000), mb/(hot/1000))
	}
	fmt.Printf("bench scrypt logN=10 r=8 p=1: %.2f ms/op\n", ms("bench scrypt 10 10")/10)
	fmt.Printf("bench scrypt logN=12 r=8 p=1: %.2f ms/op\n", ms("bench scrypt 12 4")/4)
	fmt.Printf("bench x25519: %.3f ms/op\n", ms("bench x25519 0 200")/200)
	for _, key := range keys {
		pub := &key.PublicKey
		ct, err := rsa.EncryptOAEP(sha256.New(), crand.Reader, pub, make([]byte, 16), nil)
		must(err)
		line := op("rsaOaepDecrypt", hx(pub.N.Bytes()), hx(key.D.Bytes()), hx(ct), "-")
		lean.ask(line) // warm
		const n = 5
		t0 := time.Now()
		for i := 0; i < n; i++ {
			lean.ask(line)
		}
		fmt.Printf("bench rsaOaepDecrypt RSA-%d: %.2f ms/op (round trip through the pipe, hex parsing included)\n",
			pub.N.BitLen(), float64(time.Since(t0).Microseconds())/1000/n)
	}
}

// ---------------------------------------------------------------- main

func main() {
	if len(os.Args) < 2 {
		fmt.Fprintln(os.Stderr, "usage: primtest <path to cryptotest binary>")
		os.Exit(2)
	}
	seed := int64(1)
	if s := os.Getenv("VERIF_SEED"); s != "" {
		v, err := strconv.ParseInt(s, 10, 64)
		must(err)
		seed = v
	}
	rng = rand.New(rand.NewSource(seed))
	start := time.Now()

	var keys []*rsa.PrivateKey
	for _, bits := range []int{2048, 2048, 3072, 4096} {
		k, err := rsa.GenerateKey(crand.Reader, bits)
		must(err)
		keys = append(keys, k)
	}
	keygen := time.Since(start)

	lean = startLean(os.Args[1])

	testSha256()
	testSha512()
	testHmac()
	testHkdf()
	testPbkdf2()
	testScrypt()
	testAead()
	testX25519()
	testEd()
	testSSH(keys)
	testMgf1()
	testOaep(keys)
	testHex()

	total, mism := 0, 0
	for _, name := range order {
		s := stats[name]
		fmt.Printf("prim=%s cases=%d mismatches=%d\n", name, s.cases, s.mism)
		total += s.cases
		mism += s.mism
	}
	fmt.Printf("info: seed=%d rsa-keygen=%.1fs tests=%.1fs; rsa.EncryptOAEP tape read patterns (sizes of Read calls -> count): %v\n",
		seed, keygen.Seconds(), (time.Since(start) - keygen).Seconds(), tapeReadLog)

	if os.Getenv("PRIMTEST_BENCH") != "0" {
		bench(keys)
	}
	lean.in.Flush()
	lean.cmd.Process.Kill()

	if mism == 0 {
		fmt.Printf("PRIMTEST OK total=%d\n", total)
		return
	}
	fmt.Printf("PRIMTEST FAIL total=%d mismatches=%d (showing first %d)\n", total, mism, minInt(len(failures), 8))
	for i, f := range failures {
		if i >= 8 {
			break
		}
		fmt.Printf("--- mismatch %d prim=%s\nop:       %s\nexpected: %s\ngot:      %s\n", i+1, f.prim, f.op, f.want, f.got)
	}
	os.Exit(1)
}

func minInt(a, b int) int {
	if a < b {
		return a
	}
	return b
}
