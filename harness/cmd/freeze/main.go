// freeze: one-off generator of the frozen corpus (corpus/frozen). Run once
// against the pinned tree; the files it wrote are committed and must keep
// decrypting with every later version of /repo.
package main

import (
	"bytes"
	"crypto/ed25519"
	"crypto/rand"
	"crypto/rsa"
	"crypto/sha256"
	"crypto/x509"
	"encoding/hex"
	"encoding/json"
	"encoding/pem"
	"fmt"
	"os"
	"path/filepath"

	"filippo.io/age"
	"filippo.io/age/agessh"
	"filippo.io/age/armor"
	"golang.org/x/crypto/ssh"
)

type entry struct {
	File    string `json:"file"`
	Kind    string `json:"kind"` // x, s, e, r
	Armored bool   `json:"armored"`
	SHA256  string `json:"sha256"`
	Size    int    `json:"size"`
	Key     string `json:"key"`  // x: AGE-SECRET-KEY-1…; s: passphrase; e: seed hex; r: PKCS#1 PEM
	LogN    int    `json:"logN"` // s only
}

func main() {
	dir := os.Args[1]
	os.MkdirAll(dir, 0755)
	var idx []entry
	sizes := []int{0, 1, 65535, 65536, 65537, 131072}
	xid, _ := age.GenerateX25519Identity()
	seed := make([]byte, 32)
	rand.Read(seed)
	edPriv := ed25519.NewKeyFromSeed(seed)
	edPub, _ := ssh.NewPublicKey(edPriv.Public())
	edRec, _ := agessh.NewEd25519Recipient(edPub)
	rsaKey, _ := rsa.GenerateKey(rand.Reader, 2048)
	rsaPub, _ := ssh.NewPublicKey(&rsaKey.PublicKey)
	rsaRec, _ := agessh.NewRSARecipient(rsaPub)
	rsaPEM := string(pem.EncodeToMemory(&pem.Block{Type: "RSA PRIVATE KEY", Bytes: x509.MarshalPKCS1PrivateKey(rsaKey)}))
	write := func(kind string, rec age.Recipient, key string, logN int, n int, arm bool) {
		pt := make([]byte, n)
		rand.Read(pt)
		var buf bytes.Buffer
		var dst interface {
			Write([]byte) (int, error)
		} = &buf
		var aw interface{ Close() error }
		if arm {
			a := armor.NewWriter(&buf)
			dst, aw = a, a
		}
		w, err := age.Encrypt(dst, rec)
		if err != nil {
			panic(err)
		}
		w.Write(pt)
		w.Close()
		if aw != nil {
			aw.Close()
		}
		name := fmt.Sprintf("%s-%d", kind, n)
		if arm {
			name += "-armored"
		}
		name += ".age"
		os.WriteFile(filepath.Join(dir, name), buf.Bytes(), 0644)
		h := sha256.Sum256(pt)
		idx = append(idx, entry{File: name, Kind: kind, Armored: arm, SHA256: hex.EncodeToString(h[:]), Size: n, Key: key, LogN: logN})
	}
	for _, n := range sizes {
		write("x", xid.Recipient(), xid.String(), 0, n, false)
		sr, _ := age.NewScryptRecipient("frozen passphrase")
		sr.SetWorkFactor(10)
		write("s", sr, "frozen passphrase", 10, n, false)
		write("e", edRec, hex.EncodeToString(seed), 0, n, false)
		write("r", rsaRec, rsaPEM, 0, n, false)
	}
	for _, n := range []int{0, 1, 47, 48, 49, 65536} {
		write("x", xid.Recipient(), xid.String(), 0, n, true)
		write("e", edRec, hex.EncodeToString(seed), 0, n, true)
	}
	// one passphrase file at the default work factor
	dr, _ := age.NewScryptRecipient("default work factor")
	write("s18", dr, "default work factor", 18, 100, false)
	b, _ := json.MarshalIndent(idx, "", " ")
	os.WriteFile(filepath.Join(dir, "index.json"), b, 0644)
	fmt.Println(len(idx), "files")
}
