/-
  Tie/C15 — "the -o file is opened on first write only", in the source.

  `(*lazyOpener).Write` and `.Close` of cmd/age/age.go are TRANSLATED from /repo on every run
  (`os.Create`, `(*os.File).Write`, `.Close` are parameters) and proved to be the three-state
  machine `Cli.Lazy` of the model (unopened / opened / failed): the file is created by the first
  `Write` and by nothing else — handed an `os.Create` that FAULTS when called, a `Write` on an
  opened or failed opener still returns normally, and `Close` cannot reach it at all — a failed
  creation is remembered, and `Close` on an opener that never wrote closes nothing. That a refused
  decryption performs no `Write` before the header is accepted is a statement about `main` /
  `decrypt` (`Props.C15`, model `Cli`), tied by the correspondence through the real binaries.
-/
import Proofs.GoTieLazy
import Proofs.GoTieCliDecrypt
import Proofs.GoTieCliEncrypt
import Proofs.GoTieKeygen
import Proofs.GoTieKeygenMain
import Proofs.GoTieKeygenModel
import Proofs.GoTieCliModel
import Proofs.GoTieCliSegments
import Proofs.GoTieCliMain
import Proofs.GoTieCliCompose
namespace AgeModel
namespace Tie.C15
open Extracted

theorem lazy_write_unopened {τ φ : Type} (isNil : φ → Bool) (Create : Bytes → τ → Go.M (φ × Option Go.Err × τ))
    (FW : φ → Bytes → τ → Go.M (Int × Option Go.Err × τ)) (name : Bytes) (f : φ) (hf : isNil f = true) (p : Bytes) (t0 : τ) :
    main_lazyOpener_Write isNil Create FW ⟨name, f, none⟩ p t0 =
      (do let t ← Create name t0
          if (t.2.1 != none) = true then pure (0, t.2.1, ⟨name, t.1, t.2.1⟩, t.2.2)
          else do
            let r ← FW t.1 p t.2.2
            pure (r.1, r.2.1, ⟨name, t.1, t.2.1⟩, r.2.2)) :=
  GoTie.lazy_write_unopened isNil Create FW name f hf p t0

theorem lazy_write_opened {τ φ : Type} (isNil : φ → Bool) (FW : φ → Bytes → τ → Go.M (Int × Option Go.Err × τ))
    (name : Bytes) (f : φ) (hf : isNil f = false) (p : Bytes) (t0 : τ) :
    main_lazyOpener_Write isNil (fun _ _ => .error (.panic 99)) FW ⟨name, f, none⟩ p t0 =
      (do let r ← FW f p t0
          pure (r.1, r.2.1, ⟨name, f, none⟩, r.2.2)) :=
  GoTie.lazy_write_opened isNil FW name f hf p t0

theorem lazy_write_failed {τ φ : Type} (isNil : φ → Bool) (name : Bytes) (f : φ) (e : Go.Err) (p : Bytes) (t0 : τ) :
    main_lazyOpener_Write isNil (fun _ _ => .error (.panic 99)) (fun _ _ _ => .error (.panic 98)) ⟨name, f, some e⟩ p t0 =
      .ok (0, some e, ⟨name, f, some e⟩, t0) :=
  GoTie.lazy_write_failed isNil name f e p t0

theorem lazy_close {τ φ : Type} (isNil : φ → Bool) (FC : φ → τ → Go.M (Option Go.Err × τ)) (name : Bytes) (f : φ)
    (err : Option Go.Err) (t0 : τ) :
    main_lazyOpener_Close isNil FC ⟨name, f, err⟩ t0 = if isNil f = true then .ok (none, t0) else FC f t0 :=
  GoTie.lazy_close isNil FC name f err t0

/-- read in the model's world (`os.Create` = `Cli.create`, `(*os.File).Write` = `Proc.writeFile`), the translated
    `Write` IS the model's `Proc.write (.lazy name)`: same world, same opener state, same success -/
theorem lazy_write_refines (eC eW : Go.Err) (l : main_lazyOpener (Option Cli.Path)) (d : Bytes) (p : Cli.Proc)
    (hp : p.lz = GoTie.lzOf l) :
    ∃ n e l' w', main_lazyOpener_Write Option.isNone (GoTie.mCreate eC) (GoTie.mFileWrite eW) l d p.w = .ok (n, e, l', w') ∧
      ((Cli.Proc.write (.lazy l.name) p d).1.w = w' ∧ (Cli.Proc.write (.lazy l.name) p d).1.lz = GoTie.lzOf l' ∧
        (Cli.Proc.write (.lazy l.name) p d).2 = e.isNone) :=
  GoTie.lazy_write_refines eC eW l d p hp

/-! `decrypt` of cmd/age/age.go, translated on every run (`errorf` / `errorWithHint`, which end the
process with status 1, are exit sites — faults 1000 … 1003): the order of effects of `age -d`, and
in particular: a refused decryption exits WITHOUT ANY WRITE to the output. -/

theorem cli_decrypt_tie {δ ι : Type} (NR : Bytes → Go.M Bytes) (D : Bytes → List ι → Go.M (Bytes × Option Go.Err))
    (W : δ → Bytes → Go.M (Int × Option Go.Err × δ)) (Cp : δ → Bytes → Go.M (Int × Option Go.Err × δ))
    (ids : List ι) (inp : Bytes) (out : δ) :
    main_decrypt NR D W Cp ids inp out =
      if GoTie.mangled inp = true then .error (.panic 1000)
      else (do
        let in' ← (if GoTie.armored inp = true then NR inp else pure inp)
        let t ← D in' ids
        if (t.2 != none) = true then .error (.panic 1001)
        else do
          let w ← W out []
          if (w.2.1 != none) = true then .error (.panic 1002)
          else do
            let c ← Cp w.2.2 t.1
            if (c.2.1 != none) = true then .error (.panic 1003) else pure c.2.2) :=
  GoTie.cli_decrypt_tie NR D W Cp ids inp out

theorem cli_decrypt_refused {δ ι : Type} (NR : Bytes → Go.M Bytes) (D : Bytes → List ι → Go.M (Bytes × Option Go.Err))
    (ids : List ι) (inp : Bytes) (out : δ) (in' : Bytes)
    (hin : (if GoTie.armored inp = true then NR inp else pure inp) = .ok in')
    (r : Bytes) (e : Go.Err) (hD : D in' ids = .ok (r, some e)) :
    main_decrypt NR D (fun _ _ => .error (.panic 77)) (fun _ _ => .error (.panic 78)) ids inp out =
      .error (.panic (if GoTie.mangled inp = true then 1000 else 1001)) :=
  GoTie.cli_decrypt_refused NR D ids inp out in' hin r e hD

/-! `encrypt` of cmd/age/age.go, translated on every run with everything outside it as one explicit state
(output, armor writer and stream writer are handles into it) and `errorf` as an exit site. The armor
writer's `Close` — deferred in the source INSIDE `if withArmor` — runs at the end exactly when that branch was
taken. `encrypt` returns, and only then can `age -e` exit 0, exactly when `age.Encrypt`, the copy of the whole
input, the stream writer's `Close` and, last, the armor writer's `Close` all reported success; every failure is
an exit with status 1 after which nothing more is written. -/

theorem cli_encrypt_tie {ζ ρ τ : Type} (nilZ : ζ) (NW : ζ → τ → Go.M (ζ × τ))
    (Enc : ζ → List ρ → τ → Go.M (ζ × Option Go.Err × τ)) (Cp : ζ → Bytes → τ → Go.M (Int × Option Go.Err × τ))
    (Cl : ζ → τ → Go.M (Option Go.Err × τ)) (recs : List ρ) (inp : Bytes) (out : ζ) (armor : Bool) (t0 : τ) :
    main_encrypt nilZ NW Enc Cp Cl recs inp out armor t0 =
      if armor = true then (do
        let r ← NW out t0
        GoTie.encryptTail Enc Cp Cl recs inp r.1 (some r.1) r.2)
      else GoTie.encryptTail Enc Cp Cl recs inp out none t0 :=
  GoTie.cli_encrypt_tie nilZ NW Enc Cp Cl recs inp out armor t0

theorem cli_encrypt_returns_iff {ζ ρ τ : Type} (nilZ : ζ) (NW : ζ → τ → Go.M (ζ × τ))
    (Enc : ζ → List ρ → τ → Go.M (ζ × Option Go.Err × τ)) (Cp : ζ → Bytes → τ → Go.M (Int × Option Go.Err × τ))
    (Cl : ζ → τ → Go.M (Option Go.Err × τ)) (recs : List ρ) (inp : Bytes) (out : ζ) (armor : Bool) (t0 t' : τ) :
    main_encrypt nilZ NW Enc Cp Cl recs inp out armor t0 = .ok t' ↔
      ∃ dst t1, (if armor = true then NW out t0 = .ok (dst, t1) else dst = out ∧ t1 = t0) ∧
        ∃ w t2 n t3 t4, Enc dst recs t1 = .ok (w, none, t2) ∧ Cp w inp t2 = .ok (n, none, t3) ∧
          Cl w t3 = .ok (none, t4) ∧
          if armor = true then Cl dst t4 = .ok (none, t') else t' = t4 :=
  GoTie.cli_encrypt_returns_iff nilZ NW Enc Cp Cl recs inp out armor t0 t'

/-! `age-keygen` (cmd/age-keygen/keygen.go), translated on every run with everything outside as one
explicit state and `errorf` as an exit site: how the output and the input are opened (`main`, from
`out := os.Stdout` to the dispatch on `-y`), `convert` (`-y`) and `generate`. -/

/-- the `-o` file is opened first, by `os.OpenFile(name, O_WRONLY|O_CREATE|O_EXCL, 0600)`; failure ends the process -/
theorem keygen_open_tie {ζ τ : Type} (nilZ stdout stdin : ζ) (OF : Bytes → Int → UInt32 → τ → Go.M (ζ × Option Go.Err × τ))
    (Arg : Int → τ → Go.M (Bytes × τ)) (Op : Bytes → τ → Go.M (ζ × Option Go.Err × τ))
    (convertFlag : Bool) (outFlag : Bytes) (t0 : τ) :
    keygen_main nilZ stdout OF stdin Arg Op convertFlag outFlag t0 =
      if outFlag = [] then GoTie.keygenOpenIn stdin Arg Op stdout t0
      else (do
        let f ← OF outFlag 193 384 t0
        if (f.2.1 != none) = true then .error (.panic 1000)
        else GoTie.keygenOpenIn stdin Arg Op f.1 f.2.2) :=
  GoTie.keygen_open_tie nilZ stdout stdin OF Arg Op convertFlag outFlag t0

theorem keygen_flags : (193 : Int) = 1 + 64 + 128 ∧ (384 : UInt32) = 6 * 64 := GoTie.keygen_flags

/-- no other flags, no other mode, ever -/
theorem keygen_open_flags {ζ τ : Type} (nilZ stdout stdin : ζ) (OF OF' : Bytes → Int → UInt32 → τ → Go.M (ζ × Option Go.Err × τ))
    (Arg : Int → τ → Go.M (Bytes × τ)) (Op : Bytes → τ → Go.M (ζ × Option Go.Err × τ))
    (h : ∀ n t, OF n 193 384 t = OF' n 193 384 t) (convertFlag : Bool) (outFlag : Bytes) (t0 : τ) :
    keygen_main nilZ stdout OF stdin Arg Op convertFlag outFlag t0 =
      keygen_main nilZ stdout OF' stdin Arg Op convertFlag outFlag t0 :=
  GoTie.keygen_open_flags nilZ stdout stdin OF Arg Op OF' h convertFlag outFlag t0

/-- `age-keygen -y` returns exactly when the input parsed to at least one identity, all native, and every recipient line
    was written without error, one per identity, in order -/
theorem keygen_convert_returns_iff {ζ ι ρ τ : Type} (PI : Bytes → τ → Go.M (List ι × Option Go.Err × τ)) (isX : ι → Bool)
    (Rc : ι → τ → Go.M (ρ × τ)) (F : ζ → Bytes → ρ → τ → Go.M (Int × Option Go.Err × τ)) (inp : Bytes) (out : ζ) (t0 t' : τ) :
    keygen_convert PI isX Rc F inp out t0 = .ok t' ↔
      ∃ ids t1, PI inp t0 = .ok (ids, none, t1) ∧ ids ≠ [] ∧ (∀ id ∈ ids, isX id = true) ∧
        GoTie.KeygenWrites Rc F out ids t1 t' :=
  GoTie.keygen_convert_returns_iff PI isX Rc F inp out t0 t'

/-- … and otherwise ends the process at one of its four exit sites -/
theorem keygen_convert_exits {ζ ι ρ τ : Type} (PI : Bytes → τ → Go.M (List ι × Option Go.Err × τ)) (isX : ι → Bool)
    (Rc : ι → τ → Go.M (ρ × τ)) (F : ζ → Bytes → ρ → τ → Go.M (Int × Option Go.Err × τ)) (inp : Bytes) (out : ζ) (t0 : τ)
    (hPI : ∀ b t, ∃ r, PI b t = .ok r) (hRc : ∀ i t, ∃ r, Rc i t = .ok r) (hF : ∀ o f r t, ∃ x, F o f r t = .ok x) :
    (∃ t', keygen_convert PI isX Rc F inp out t0 = .ok t') ∨
      ∃ k, k < 4 ∧ keygen_convert PI isX Rc F inp out t0 = .error (.panic (1000 + k)) :=
  GoTie.keygen_convert_exits PI isX Rc F inp out t0 hPI hRc hF

/-- `generate`, as it stands in the source, IS this sequence (`GoTie.generateModel`): generate the key pair (exit site 0
    if that fails); look whether standard output is a terminal and, if it is not, print the public key to standard
    error (the result of that write is not looked at); take the time, format it, derive the recipient from THE
    generated key, and write the key file in ONE `Fprintf` to `out` with that timestamp, that recipient and that key,
    in the state those steps left (exit site 1 if that write reports an error) — for every behaviour of the callees -/
theorem keygen_generate_tie {ζ θ ι ρ τ : Type} (G : τ → Go.M (ι × Option Go.Err × τ)) (Fd : ζ → τ → Go.M (Int × τ))
    (IsT : Int → τ → Go.M (Bool × τ)) (stderr : ζ) (Rc : ι → τ → Go.M (ρ × τ))
    (F1 : ζ → Bytes → ρ → τ → Go.M (Int × Option Go.Err × τ)) (Fmt : θ → Bytes → τ → Go.M (Bytes × τ))
    (Now : τ → Go.M (θ × τ)) (F2 : ζ → Bytes → Bytes → ρ → ι → τ → Go.M (Int × Option Go.Err × τ)) (out : ζ) (t0 : τ) :
    keygen_generate G Fd IsT stderr Rc F1 Fmt Now F2 out t0 = GoTie.generateModel G Fd IsT stderr Rc F1 Fmt Now F2 out t0 :=
  GoTie.keygen_generate_tie G Fd IsT stderr Rc F1 Fmt Now F2 out t0

/-- a corollary (weaker than the equation above: its timestamp, recipient and state are existential): `generate` returns
    only if the key pair was generated and a write of the key file with that key reported success -/
theorem keygen_generate_returns {ζ θ ι ρ τ : Type} (G : τ → Go.M (ι × Option Go.Err × τ)) (Fd : ζ → τ → Go.M (Int × τ))
    (IsT : Int → τ → Go.M (Bool × τ)) (stderr : ζ) (Rc : ι → τ → Go.M (ρ × τ))
    (F1 : ζ → Bytes → ρ → τ → Go.M (Int × Option Go.Err × τ)) (Fmt : θ → Bytes → τ → Go.M (Bytes × τ))
    (Now : τ → Go.M (θ × τ)) (F2 : ζ → Bytes → Bytes → ρ → ι → τ → Go.M (Int × Option Go.Err × τ)) (out : ζ) (t0 t' : τ)
    (h : keygen_generate G Fd IsT stderr Rc F1 Fmt Now F2 out t0 = .ok t') :
    ∃ k t1, G t0 = .ok (k, none, t1) ∧
      ∃ (ts : Bytes) (rc : ρ) (t2 : τ) (n : Int), F2 out GoTie.fmtKeyFile ts rc k t2 = .ok (n, none, t') :=
  GoTie.keygen_generate_returns G Fd IsT stderr Rc F1 Fmt Now F2 out t0 t' h

/-! ## The translated code refines the command-line model of Props/C15

`Cli.execute` / `Cli.krun` (AgeModel/Cli.lean) — the model the theorems of Props/C15 are about — is
otherwise tied to the tools by the correspondence only. Here the TRANSLATED writing phases are shown
to be that model's: the outside state is read as the model's process state `Cli.Proc`, a write of
the source as the model's write to the model's destination. -/

/-- `decrypt`, outcome by outcome. `r1` is the first, empty write (the one that makes the lazy opener create the file), `r2`
    the copy of the bytes the payload releases, from the state `r1` leaves. The translated function returns only if both
    writes succeeded and the payload was whole, with exactly the state `r2.1`, and `execute` is `finish` of it. Otherwise
    the fault is one of two exit sites and nothing else: site 2 (after `out.Write(nil)`) exactly when the empty write
    failed — `execute` is then the state that write left, status 1; site 3 (after `io.Copy`) when the empty write
    succeeded and the copy failed or the payload is damaged after `n` bytes — `execute` is then the state after the copy
    (the released prefix, as far as the destination took it), status 1. -/
theorem cli_decrypt_refines {ι : Type} (eW : Go.Err) (dest : Cli.Dest) (pt : Bytes) (fa : Option Nat) (ids : List ι) (inp : Bytes)
    (w : Cli.World) (hm : GoTie.mangled inp = false) (ha : GoTie.armored inp = false) :
    let data : Bytes := match fa with | none => pt | some n => pt.take n
    let r1 := ({ w := w } : Cli.Proc).write dest []
    let r2 := r1.1.writeNE dest data
    match main_decrypt (fun b => pure b) (fun _ (_ : List ι) => .ok (pt, none)) (GoTie.mWrite eW dest)
        (GoTie.mCopy eW dest data fa.isSome) ids inp ({ w := w } : Cli.Proc) with
    | .ok p' => p' = r2.1 ∧ r1.2 = true ∧ r2.2 = true ∧ fa = none ∧ Cli.execute dest (.dec (.ok pt fa)) w = p'.finish dest
    | .error f =>
      (f = .panic 1002 ∧ r1.2 = false ∧ Cli.execute dest (.dec (.ok pt fa)) w = r1.1.result 1) ∨
      (f = .panic 1003 ∧ r1.2 = true ∧ (r2.2 = false ∨ fa.isSome = true) ∧
        Cli.execute dest (.dec (.ok pt fa)) w = r2.1.result 1) :=
  GoTie.cli_decrypt_refines eW dest pt fa ids inp w hm ha

theorem cli_decrypt_refused_refines {ι : Type} (dest : Cli.Dest) (e : Go.Err) (ids : List ι) (inp : Bytes) (w : Cli.World)
    (hm : GoTie.mangled inp = false) (ha : GoTie.armored inp = false) :
    main_decrypt (fun b => pure b) (fun _ (_ : List ι) => .ok ([], some e)) (fun (_ : Cli.Proc) _ => .error (.panic 77))
        (fun _ _ => .error (.panic 78)) ids inp ({ w := w } : Cli.Proc) = .error (.panic 1001) ∧
      Cli.execute dest (.dec .headerRefused) w = ⟨1, w, []⟩ :=
  GoTie.cli_decrypt_refused_refines dest e ids inp w hm ha

/-- `age-keygen -y`: the translated loop is `Cli.kwriteLines` over the recipient lines -/
theorem keygen_convert_refines {ι : Type} (eW : Go.Err) (rcOf : ι → Bytes) (ids : List ι) (hne : ids ≠ [])
    (inp : Bytes) (out : Cli.KDest) (p : Cli.Proc) :
    keygen_convert (fun _ t => .ok (ids, none, t)) (fun _ => true) (fun id t => .ok (rcOf id, t)) (GoTie.kFprintfLine eW) inp out p =
      match Cli.kwriteLines out p (ids.map fun id => rcOf id ++ [10]) with
      | (p', true) => .ok p'
      | (_, false) => .error (.panic 1003) :=
  GoTie.keygen_convert_refines eW rcOf ids hne inp out p

/-- `age-keygen`: the translated `generate` is `Cli.kwriteLines` of the one key-file text -/
theorem keygen_generate_refines {ι θ : Type} (eW : Go.Err) (text : Bytes) (k : ι) (fd : Int) (isTerm : Bool) (rc ts : Bytes)
    (now : θ) (e1 : Option Go.Err) (n1 : Int) (stderr out : Cli.KDest) (p : Cli.Proc) :
    keygen_generate (fun t => .ok (k, none, t)) (fun _ t => .ok (fd, t)) (fun _ t => .ok (isTerm, t)) stderr
        (fun _ t => .ok (rc, t)) (fun _ _ _ t => .ok (n1, e1, t)) (fun _ _ t => .ok (ts, t)) (fun t => .ok (now, t))
        (GoTie.kFprintfKey eW text) out p =
      match Cli.kwriteLines out p [text] with
      | (p', true) => .ok p'
      | (_, false) => .error (.panic 1001) :=
  GoTie.keygen_generate_refines eW text k fd isTerm rc ts now e1 n1 stderr out p

/-! ### "the copy loops are modelled as one write", proved — and `encrypt`

`io.Copy`, the STREAM writer and the armor writer issue many non-empty writes and stop at the first
error; `Cli.execute` hands the whole ciphertext to the destination at once. For EVERY destination of
the model (standard output, the buffer used when it is a terminal, the lazily opened file) writing
segment by segment leaves the process observably where the single write leaves it, with the same
success (`writeSegs_flatten`). With the four steps of the translated `encrypt` read as segment
writers, it returns exactly when `Cli.execute` reaches `finish`, observably in the model's final
state, and otherwise ends the process at the exit site of the first step whose write failed, the
model's result being observably the state that step stopped in, with status 1
(`cli_encrypt_refines`). -/

theorem writeSegs_flatten (dest : Cli.Dest) (segs : List Bytes) (p : Cli.Proc) (h : GoTie.SegInv p) :
    GoTie.ObsEq (GoTie.writeSegs dest p segs).1 (p.writeNE dest segs.flatten).1 ∧
      (GoTie.writeSegs dest p segs).2 = (p.writeNE dest segs.flatten).2 :=
  GoTie.writeSegs_flatten dest segs p h

/-- `encrypt`, outcome by outcome. `r1 … r4` are the segment writers of the four writing steps, each from the state the one
    before left: `age.Encrypt` (`s1`), `io.Copy` (`s2`), the stream writer's `Close` (`s3`), the armor writer's `Close`
    (`s4`, reached only with `-a`). The translated function returns only if every step that is run succeeded, with exactly
    the state the last of them left, and `execute` is observably `finish` of it. Otherwise the fault is one of the four
    exit sites and nothing else, and the site names the step: 0 — `s1` could not be written; 1 — `s1` was, `s2` could
    not; 2 — `s1`, `s2` were, `s3` could not; 3 (only with `-a`) — `s1`, `s2`, `s3` were, `s4` could not; `execute` is
    then observably the state in which that segment writer stopped, with status 1. (`armor.NewWriter` writes nothing and
    reports no error in the source; its model `mNW` cannot fail.) -/
theorem cli_encrypt_refines {ρ : Type} (eW : Go.Err) (dest : Cli.Dest) (s1 s2 s3 s4 : List Bytes) (recs : List ρ) (inp : Bytes)
    (armor : Bool) (w : Cli.World) :
    let ct := (s1 ++ s2 ++ s3 ++ (if armor then s4 else [])).flatten
    let r1 := GoTie.writeSegs dest ({ w := w } : Cli.Proc) s1
    let r2 := GoTie.writeSegs dest r1.1 s2
    let r3 := GoTie.writeSegs dest r2.1 s3
    let r4 := GoTie.writeSegs dest r3.1 s4
    match main_encrypt (0 : Nat) GoTie.mNW (GoTie.mEnc eW dest s1) (GoTie.mCp eW dest s2) (GoTie.mCl eW dest s3 s4) recs inp 0 armor
        ({ w := w } : Cli.Proc) with
    | .ok p' =>
      r1.2 = true ∧ r2.2 = true ∧ r3.2 = true ∧ (armor = true → r4.2 = true) ∧ p' = (if armor then r4.1 else r3.1) ∧
        GoTie.ResObsEq (Cli.execute dest (.enc ct) w) (p'.finish dest)
    | .error f =>
      (f = .panic 1000 ∧ r1.2 = false ∧ GoTie.ResObsEq (Cli.execute dest (.enc ct) w) (r1.1.result 1)) ∨
      (f = .panic 1001 ∧ r1.2 = true ∧ r2.2 = false ∧ GoTie.ResObsEq (Cli.execute dest (.enc ct) w) (r2.1.result 1)) ∨
      (f = .panic 1002 ∧ r1.2 = true ∧ r2.2 = true ∧ r3.2 = false ∧
        GoTie.ResObsEq (Cli.execute dest (.enc ct) w) (r3.1.result 1)) ∨
      (f = .panic 1003 ∧ armor = true ∧ r1.2 = true ∧ r2.2 = true ∧ r3.2 = true ∧ r4.2 = false ∧
        GoTie.ResObsEq (Cli.execute dest (.enc ct) w) (r4.1.result 1)) :=
  GoTie.cli_encrypt_refines eW dest s1 s2 s3 s4 recs inp armor w

/-! ### `main` of cmd/age, from the flag-conflict switch to its end

Translated on every run (flag parsing, `-version` and the "too many arguments" hints are outside the
fragment; the three `defer`s inside branches run at the end exactly when their branch was taken). It
IS the model's `Cli.flagCheck` / `Cli.prepare` where it matters for this property: -/

/-- every flag conflict the model names ends the process at its site — whatever the environment does, i.e. before anything
    is looked at, opened or started -/
theorem main_flagCheck {ζ τ : Type} (E : GoTie.MainEnv ζ τ) (a : Cli.Args) (err : Cli.ErrClass) (h : Cli.flagCheck a = some err) (t0 : τ) :
    E.run a.output a.decrypt a.encrypt a.passphrase a.armor a.recipients a.recipientsFiles (a.identities.map GoTie.main_toFlag) t0 =
      .error (.panic (1000 + GoTie.main_flagSite err)) :=
  GoTie.main_flagCheck E a err h t0

/-- an output whose absolute path is that of an `-i` file, an `-R` file or the input is refused (site 12) BEFORE the output is
    opened: the `newLazyOpener` handed in here faults when called, and is not reached -/
theorem main_sameFile {ζ τ : Type} (E : GoTie.MainEnv ζ τ) (ap : Bytes → Bytes) (a : Cli.Args) (hfc : Cli.flagCheck a = none)
    (inputName : Bytes) (hArg : ∀ t, E.Arg 0 t = .ok (inputName, t))
    (hOpen : ∀ n t, ∃ f t', E.Open n t = .ok (f, none, t'))
    (hSet : ∀ b t, ∃ t', E.SetStdin b t = .ok t') (hFd : ∀ z t, ∃ n t', E.Fd z t = .ok (n, t'))
    (hIsT : ∀ n t, ∃ t', E.IsT n t = .ok (false, t'))
    (hAP : E.AP = GoTie.main_pureAP ap) (hNL : E.NL = fun _ _ => .error (.panic 77))
    (hout : a.output ≠ [] ∧ a.output ≠ [45])
    (hin : ap a.output ∈ GoTie.main_inUse ap a.identities a.recipientsFiles inputName) (t0 : τ) :
    E.run a.output a.decrypt a.encrypt a.passphrase a.armor a.recipients a.recipientsFiles (a.identities.map GoTie.main_toFlag) t0 =
      .error (.panic 1012) :=
  GoTie.main_sameFile E ap a hfc inputName hArg hOpen hSet hFd hIsT hAP hNL hout hin t0

/-- `-o FILE` not in use: the output handed to the mode function IS the lazy opener for that name, exactly one mode function
    is called — the one the model's dispatch names —, and `main` returns only if the opener's `Close` reports success -/
theorem main_dispatch_file {ζ τ : Type} (E : GoTie.MainEnv ζ τ) (ap : Bytes → Bytes) (a : Cli.Args) (hfc : Cli.flagCheck a = none)
    (hArg : ∀ t, E.Arg 0 t = .ok ([], t)) (hSet : ∀ b t, E.SetStdin b t = .ok t) (hFd : ∀ z t, E.Fd z t = .ok (0, t))
    (hIsT : ∀ n t, E.IsT n t = .ok (false, t)) (hAP : E.AP = GoTie.main_pureAP ap)
    (hout : a.output ≠ [] ∧ a.output ≠ [45])
    (hnot : ap a.output ∉ GoTie.main_inUse ap a.identities a.recipientsFiles []) (t0 : τ) :
    E.run a.output a.decrypt a.encrypt a.passphrase a.armor a.recipients a.recipientsFiles (a.identities.map GoTie.main_toFlag) t0 =
      (do let o ← E.NL a.output t0
          let t2 ← E.mode a E.stdin o.1 o.2
          let c ← E.WCl o.1 t2
          if (c.1 != none) = true then .error (.panic 1014) else pure c.2) :=
  GoTie.main_dispatch_file E ap a hfc hArg hSet hFd hIsT hAP hout hnot t0

/-- binary output is not sent to a terminal (site 13), before any mode function is called -/
theorem main_binaryToTerminal {ζ τ : Type} (E : GoTie.MainEnv ζ τ) (ap : Bytes → Bytes) (a : Cli.Args) (hfc : Cli.flagCheck a = none)
    (hArg : ∀ t, E.Arg 0 t = .ok ([], t)) (hSet : ∀ b t, E.SetStdin b t = .ok t) (hFd : ∀ z t, E.Fd z t = .ok (0, t))
    (hIsT : ∀ n t, E.IsT n t = .ok (true, t)) (hAP : E.AP = GoTie.main_pureAP ap)
    (hout : a.output = []) (hd : a.decrypt = false) (harm : a.armor = false) (t0 : τ) :
    E.run a.output a.decrypt a.encrypt a.passphrase a.armor a.recipients a.recipientsFiles (a.identities.map GoTie.main_toFlag) t0 =
      .error (.panic 1013) :=
  GoTie.main_binaryToTerminal E ap a hfc hArg hSet hFd hIsT hAP hout hd harm t0

/-- an input file that cannot be opened ends the process (site 10) before the output is looked at -/
theorem main_openInput {ζ τ : Type} (E : GoTie.MainEnv ζ τ) (ap : Bytes → Bytes) (a : Cli.Args) (hfc : Cli.flagCheck a = none)
    (inputName : Bytes) (hname : inputName ≠ [] ∧ inputName ≠ [45]) (hArg : ∀ t, E.Arg 0 t = .ok (inputName, t))
    (f : ζ) (e : Go.Err) (hOpen : ∀ n t, E.Open n t = .ok (f, some e, t)) (hAP : E.AP = GoTie.main_pureAP ap)
    (hNL : E.NL = fun _ _ => .error (.panic 77)) (hFd : E.Fd = fun _ _ => .error (.panic 78)) (t0 : τ) :
    E.run a.output a.decrypt a.encrypt a.passphrase a.armor a.recipients a.recipientsFiles (a.identities.map GoTie.main_toFlag) t0 =
      .error (.panic 1010) :=
  GoTie.main_openInput E ap a hfc inputName hname hArg f e hOpen hAP hNL hFd t0

/-- no `-o`, nothing is a terminal: the mode function writes to standard output itself; nothing is closed or copied after it -/
theorem main_dispatch_stdout {ζ τ : Type} (E : GoTie.MainEnv ζ τ) (ap : Bytes → Bytes) (a : Cli.Args) (hfc : Cli.flagCheck a = none)
    (hArg : ∀ t, E.Arg 0 t = .ok ([], t)) (hSet : ∀ b t, E.SetStdin b t = .ok t) (hFd : ∀ z t, E.Fd z t = .ok (0, t))
    (hIsT : ∀ n t, E.IsT n t = .ok (false, t)) (hAP : E.AP = GoTie.main_pureAP ap)
    (hout : a.output = [] ∨ a.output = [45]) (t0 : τ) :
    E.run a.output a.decrypt a.encrypt a.passphrase a.armor a.recipients a.recipientsFiles (a.identities.map GoTie.main_toFlag) t0 =
      E.mode a E.stdin E.stdout t0 :=
  GoTie.main_dispatch_stdout E ap a hfc hArg hSet hFd hIsT hAP hout t0

/-- armored encryption from a terminal to a terminal: into a buffer that is copied to standard output when `main` returns,
    whatever that copy reports (the model's `Dest.buffered`) -/
theorem main_dispatch_buffered {ζ τ : Type} (E : GoTie.MainEnv ζ τ) (ap : Bytes → Bytes) (a : Cli.Args) (hfc : Cli.flagCheck a = none)
    (hArg : ∀ t, E.Arg 0 t = .ok ([], t)) (hSet : ∀ b t, E.SetStdin b t = .ok t) (hFd : ∀ z t, E.Fd z t = .ok (0, t))
    (hIsT : ∀ n t, E.IsT n t = .ok (true, t)) (hAP : E.AP = GoTie.main_pureAP ap) (hsame : E.same E.stdin E.stdin = true)
    (hout : a.output = []) (hd : a.decrypt = false) (harm : a.armor = true) (t0 : τ) :
    E.run a.output a.decrypt a.encrypt a.passphrase a.armor a.recipients a.recipientsFiles (a.identities.map GoTie.main_toFlag) t0 =
      (do let t2 ← E.mode a E.stdin E.bufV t0
          let c ← E.Cp E.stdout E.bufV t2
          pure c.2.2) :=
  GoTie.main_dispatch_buffered E ap a hfc hArg hSet hFd hIsT hAP hsame hout hd harm t0

/-! ### The pieces fit together

The abstract callee of one translated function, instantiated with the TRANSLATED definition of the
function it stands for: `decryptNotPass` with `decrypt`, `encryptPass` / `encryptNotPass` with
`encrypt`. No assumption about `decrypt` / `encrypt` is left — only about what they call. -/

theorem decryptNotPass_decrypt {ι τ υ ζ : Type} (reject : ι) (PIF : Bytes → τ → Go.M (List ι × Option Go.Err × τ)) (ui : υ)
    (NI : Bytes → υ → τ → Go.M (ι × Option Go.Err × τ))
    (NR : Bytes → Go.M Bytes) (Dec : Bytes → List ι → Go.M (Bytes × Option Go.Err))
    (W : τ → Bytes → Go.M (Int × Option Go.Err × τ)) (Cp : τ → Bytes → Go.M (Int × Option Go.Err × τ))
    (flags : List main_identityFlag) (inp : Bytes) (out : ζ) (t0 : τ) :
    main_decryptNotPass reject PIF ui NI (fun ids i (_ : ζ) t => main_decrypt NR Dec W Cp ids i t) flags inp out t0 =
      (do let r ← GoTie.collectIds PIF ui NI flags t0 [reject]
          if GoTie.mangled inp = true then .error (.panic 1000)
          else (do
            let in' ← (if GoTie.armored inp = true then NR inp else pure inp)
            let d ← Dec in' r.2
            if (d.2 != none) = true then .error (.panic 1001)
            else do
              let w ← W r.1 []
              if (w.2.1 != none) = true then .error (.panic 1002)
              else do
                let c ← Cp w.2.2 d.1
                if (c.2.1 != none) = true then .error (.panic 1003) else pure c.2.2)) :=
  GoTie.decryptNotPass_decrypt reject PIF ui NI NR Dec W Cp flags inp out t0

theorem encryptPass_encrypt {ζ ρ τ : Type} (Pr : τ → Go.M (Bytes × Option Go.Err × τ)) (NS : Bytes → τ → Go.M (ρ × Option Go.Err × τ))
    (Cfg : ρ → Go.M Unit) (nilZ : ζ) (NW : ζ → τ → Go.M (ζ × τ)) (Enc : ζ → List ρ → τ → Go.M (ζ × Option Go.Err × τ))
    (Cp : ζ → Bytes → τ → Go.M (Int × Option Go.Err × τ)) (Cl : ζ → τ → Go.M (Option Go.Err × τ))
    (inp : Bytes) (out : ζ) (armor : Bool) (t0 : τ) :
    main_encryptPass Pr NS Cfg (main_encrypt nilZ NW Enc Cp Cl) inp out armor t0 =
      (do let p ← Pr t0
          if (p.2.1 != none) = true then .error (.panic 1000)
          else do
            let r ← NS p.1 p.2.2
            if (r.2.1 != none) = true then .error (.panic 1001)
            else do
              Cfg r.1
              if armor = true then (do
                let a ← NW out r.2.2
                GoTie.encryptTail Enc Cp Cl [r.1] inp a.1 (some a.1) a.2)
              else GoTie.encryptTail Enc Cp Cl [r.1] inp out none r.2.2) :=
  GoTie.encryptPass_encrypt Pr NS Cfg nilZ NW Enc Cp Cl inp out armor t0

theorem encryptNotPass_encrypt {ζ ι ρ τ υ : Type} (PR : Bytes → τ → Go.M (ρ × Option Go.Err × τ))
    (PRF : Bytes → τ → Go.M (List ρ × Option Go.Err × τ)) (PIF : Bytes → τ → Go.M (List ι × Option Go.Err × τ))
    (I2R : List ι → τ → Go.M (List ρ × Option Go.Err × τ)) (ui : υ) (NI : Bytes → υ → τ → Go.M (ι × Option Go.Err × τ))
    (IR : ι → τ → Go.M (ρ × τ)) (nilZ : ζ) (NW : ζ → τ → Go.M (ζ × τ)) (Enc : ζ → List ρ → τ → Go.M (ζ × Option Go.Err × τ))
    (Cp : ζ → Bytes → τ → Go.M (Int × Option Go.Err × τ)) (Cl : ζ → τ → Go.M (Option Go.Err × τ))
    (recs files : List Bytes) (flags : List main_identityFlag) (inp : Bytes) (out : ζ) (armor : Bool) (t0 : τ) :
    main_encryptNotPass PR PRF PIF I2R ui NI IR (main_encrypt nilZ NW Enc Cp Cl) recs files flags inp out armor t0 =
      (do let a ← GoTie.collectR PR recs t0 []
          let b ← GoTie.collectRF PRF files a.1 a.2
          let c ← GoTie.collectIR PIF I2R ui NI IR flags b.1 b.2
          if armor = true then (do
            let w ← NW out c.1
            GoTie.encryptTail Enc Cp Cl c.2 inp w.1 (some w.1) w.2)
          else GoTie.encryptTail Enc Cp Cl c.2 inp out none c.1) :=
  GoTie.encryptNotPass_encrypt PR PRF PIF I2R ui NI IR nilZ NW Enc Cp Cl recs files flags inp out armor t0

end Tie.C15
end AgeModel
