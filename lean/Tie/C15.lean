/-
  Tie/C15 — "the -o file is opened on first write only", in the source.

  `(*lazyOpener).Write` and `.Close` of cmd/age/age.go are TRANSLATED from /repo on every run
  (`os.Create`, `(*os.File).Write`, `.Close` are parameters) and proved to be the three-state
  machine `Cli.Lazy` of the model (unopened / opened / failed): the file is created by the first
  `Write` and by nothing else — handed an `os.Create` that FAULTS when called, a `Write` on an
  opened or failed opener still returns normally, and `Close` cannot reach it at all — a failed
  creation is remembered, and `Close` on an opener that never wrote closes nothing. That a refused
  decryption performs no `Write` before the header is accepted is a statement about `main` /
  `decrypt` (`Props.C15`, model `Cli`), tied by the correspondence through the real binaries.
-/
import Proofs.GoTieLazy
namespace AgeModel
namespace Tie.C15
open Extracted

theorem lazy_write_unopened {φ : Type} (isNil : φ → Bool) (Create : Bytes → Go.M (φ × Option Go.Err))
    (FW : φ → Bytes → Go.M (Int × Option Go.Err)) (name : Bytes) (f : φ) (hf : isNil f = true) (p : Bytes) :
    main_lazyOpener_Write isNil Create FW ⟨name, f, none⟩ p =
      (do let t ← Create name
          if (t.2 != none) = true then pure (0, t.2, ⟨name, t.1, t.2⟩)
          else do
            let r ← FW t.1 p
            pure (r.1, r.2, ⟨name, t.1, t.2⟩)) :=
  GoTie.lazy_write_unopened isNil Create FW name f hf p

theorem lazy_write_opened {φ : Type} (isNil : φ → Bool) (FW : φ → Bytes → Go.M (Int × Option Go.Err))
    (name : Bytes) (f : φ) (hf : isNil f = false) (p : Bytes) :
    main_lazyOpener_Write isNil (fun _ => .error (.panic 99)) FW ⟨name, f, none⟩ p =
      (do let r ← FW f p
          pure (r.1, r.2, ⟨name, f, none⟩)) :=
  GoTie.lazy_write_opened isNil FW name f hf p

theorem lazy_write_failed {φ : Type} (isNil : φ → Bool) (name : Bytes) (f : φ) (e : Go.Err) (p : Bytes) :
    main_lazyOpener_Write isNil (fun _ => .error (.panic 99)) (fun _ _ => .error (.panic 98)) ⟨name, f, some e⟩ p =
      .ok (0, some e, ⟨name, f, some e⟩) :=
  GoTie.lazy_write_failed isNil name f e p

theorem lazy_close {φ : Type} (isNil : φ → Bool) (FC : φ → Go.M (Option Go.Err)) (name : Bytes) (f : φ) (err : Option Go.Err) :
    main_lazyOpener_Close isNil FC ⟨name, f, err⟩ = if isNil f = true then .ok none else FC f :=
  GoTie.lazy_close isNil FC name f err

end Tie.C15
end AgeModel
