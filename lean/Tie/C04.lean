/-
  Tie/C04 — the code itself (DESIGN.md §5.3). `age.multiUnwrap` (age.go), through which
  every native identity answers a header, is TRANSLATED from the source on every run:
  for EVERY per-stanza function and stanza list it answers what the model's `multiUnwrap`
  answers — stanzas answering "incorrect identity" are skipped, the FIRST other answer
  (a key or an error) decides, and when none is left the answer is exactly
  `ErrIncorrectIdentity` (the value `Decrypt` collects into NoIdentityMatchError).
  With it, and with `(*ScryptIdentity).Unwrap` (tied in Tie/C10, kept out of this file so that
  a rewrite of scrypt.go leaves this property's obligations alone), `Props.C04.no_match_structure`
  and `scrypt_no_stanza_incorrect` speak about the source text.

  Breaks when: multiUnwrap stops at the first non-matching stanza, swallows an error,
  or returns another value than the sentinel when nothing matched.
-/
import Proofs.GoTieUnwrap
namespace AgeModel
namespace Tie.C04

theorem multiUnwrap_tie (u : Extracted.age_Stanza → Go.M (Bytes × Option Go.Err)) (hU : ∀ s, ∃ r, u s = .ok r)
    (ss : List Format.Stanza) :
    ∃ r, Extracted.age_multiUnwrap GoTie.errorsIsEq u (ss.map GoTie.toGoStanza) = .ok r ∧
      GoTie.resClass r = multiUnwrap (fun s => GoTie.stanzaClass u (GoTie.toGoStanza s)) ss :=
  GoTie.multiUnwrap_tie u hU ss

end Tie.C04
end AgeModel
