/-
  Tie/C04 — the code itself (DESIGN.md §5.3). `age.multiUnwrap` (age.go), through which
  every native identity answers a header, is TRANSLATED from the source on every run:
  for EVERY per-stanza function and stanza list it answers what the model's `multiUnwrap`
  answers — stanzas answering "incorrect identity" are skipped, the FIRST other answer
  (a key or an error) decides, and when none is left the answer is exactly
  `ErrIncorrectIdentity` (the value `Decrypt` collects into NoIdentityMatchError).
  With it, and with `(*ScryptIdentity).Unwrap` (tied in Tie/C10, kept out of this file so that
  a rewrite of scrypt.go leaves this property's obligations alone), `Props.C04.no_match_structure`
  and `scrypt_no_stanza_incorrect` speak about the source text.

  Breaks when: multiUnwrap stops at the first non-matching stanza, swallows an error,
  or returns another value than the sentinel when nothing matched.
-/
import Proofs.GoTieUnwrap
import Proofs.GoTieDecrypt
import Proofs.GoTieAead
import Props.C04
import Proofs.GoTieWitnessA
namespace AgeModel
namespace Tie.C04

theorem multiUnwrap_tie (u : Extracted.age_Stanza → Go.M (Bytes × Option Go.Err)) (hU : ∀ s, ∃ r, u s = .ok r)
    (ss : List Format.Stanza) :
    ∃ r, Extracted.age_multiUnwrap GoTie.errorsIsEq u (ss.map GoTie.toGoStanza) = .ok r ∧
      GoTie.resClass r = multiUnwrap (fun s => GoTie.stanzaClass u (GoTie.toGoStanza s)) ss :=
  GoTie.multiUnwrap_tie u hU ss


/-! ## age.Decrypt itself (DESIGN.md §5.3): the identity loop and the no-match error. `age.Decrypt`,
    TRANSLATED from age.go on every run, returns what the model's `decryptInit` returns: when every
    identity answers "incorrect identity", `NoIdentityMatchError` with EXACTLY one collected cause per
    identity tried (`.noMatch n` ↦ the error value records `n`), and no reader
    (`Props.C04.no_match_structure`, `reader_requires_key` are about the source text).
    An observation the proof forced (`GoTie.DecryptEnv.hU`, fourth clause): `Decrypt` keeps the key an
    identity returns even together with `ErrIncorrectIdentity`; the theorem therefore assumes, as is
    true of every identity of the module, that "incorrect identity" comes with a nil key (DESIGN.md §9,
    observations). -/

theorem decrypt_tie (P : Prims) {ι : Type} (E : GoTie.DecryptEnv P ι) (file : Bytes) (ids : List ι) :
    ∃ res, Extracted.age_Decrypt E.D E.U GoTie.errorsIsEq E.mac E.newReader E.key file ids = .ok res ∧
      match (decryptInit P (ids.map E.idOf) file).1 with
      | .ok (k, payload) => res = (k ++ payload, none)
      | .error (.fatal idx) => ∃ hdr payload j r, Format.parse file = .ok (hdr, payload) ∧ ids[idx]? = some j ∧
          E.U j (hdr.stanzas.map GoTie.toGoStanza) = .ok r ∧ r.2 ≠ none ∧ r.2 ≠ Extracted.age_ErrIncorrectIdentity ∧
          res = ([], r.2)
      | .error e => res = ([], GoTie.decryptErr e none) :=
  GoTie.decrypt_tie P E file ids

/-! The innermost step: `aeadDecrypt` of package age and of agessh, translated with
ChaCha20-Poly1305 abstract. A stanza body that does not open under the derived key gives the AEAD's
authentication error and NO bytes (what the identities turn into "incorrect identity"); in package
age a body of the wrong length is refused before it is opened. -/

theorem aeadDecrypt_tie {α : Type} {P : Prims} (E : GoTie.WrapAeadEnv α P) (k ct : Bytes) (size : Nat)
    (hk : k.length = 32) :
    Extracted.age_aeadDecrypt E.New E.over E.open_ k size ct = .ok (match aeadDecryptSized P k size ct with
      | .key fk => (fk, none)
      | .fatal => ([], Extracted.age_errIncorrectCiphertextSize)
      | .incorrect => ([], some E.eAuth)) :=
  GoTie.aeadDecrypt_tie E k ct size hk

theorem ssh_aeadDecrypt_tie {α : Type} {P : Prims} (E : GoTie.WrapAeadEnv α P) (k ct : Bytes) (hk : k.length = 32) :
    Extracted.agessh_aeadDecrypt E.New E.open_ k ct = .ok (match P.wrapOpen k ct with
      | some fk => (fk, none)
      | none => ([], some E.eAuth)) :=
  GoTie.ssh_aeadDecrypt_tie E k ct hk

/-! ### The property, stated about the CODE

`decrypt_tie` composed with `Props.C04.no_match_structure`: for ALL files and ALL identity lists, if every
identity answers "incorrect identity" on the file's stanzas, the TRANSLATED `age.Decrypt` returns no reader
(no bytes at all) and exactly the no-match error carrying one cause per identity. -/

theorem code_decrypt_no_match (P : Prims) {ι : Type} (E : GoTie.DecryptEnv P ι) (file : Bytes) (ids : List ι) (hne : ids ≠ [])
    (hdr : Format.Header) (rest : Bytes) (hp : Format.parse file = .ok (hdr, rest))
    (hall : ∀ i ∈ ids.map E.idOf, i.unwrap P hdr.stanzas = .incorrect) :
    Extracted.age_Decrypt E.D E.U GoTie.errorsIsEq E.mac E.newReader E.key file ids =
      .ok ([], some ⟨"age.NoIdentityMatchError", 0, [Int.ofNat ids.length]⟩) := by
  obtain ⟨res, hrun, hres⟩ := decrypt_tie P E file ids
  have hne' : ids.map E.idOf ≠ [] := by
    intro h; exact hne (List.map_eq_nil_iff.mp h)
  have hm := Props.C04.no_match_structure P (ids.map E.idOf) hne' file hdr rest hp hall
  rw [hm] at hres
  simp only [List.length_map] at hres
  rw [hrun, hres]
  rfl

/-- **the assumption structures this file's theorems take are satisfiable** (for a lawful toy primitive suite
    with the 16-byte tag, where they mention primitives): none of the theorems above is vacuous. The instances are in
    `Proofs/GoTieWitnessA.lean` / `GoTieWitnessB.lean`. -/
theorem assumptions_satisfiable :
    Prims.toy16.Correct ∧ Prims.toy16.aead.NonceSep ∧ Prims.toy16.aead.T = 16 ∧
    Nonempty (GoTie.DecryptEnv Prims.toy16 Identity) ∧
    Nonempty (GoTie.WrapAeadEnv Bytes Prims.toy16) :=
  ⟨Prims.toy16_correct, AEAD.toy16_nonceSep, rfl, ⟨GoTie.DecryptEnv.witness⟩, ⟨GoTie.WrapAeadEnv.witness⟩⟩

end Tie.C04
end AgeModel
