/-
  Tie/C07 — the code itself (DESIGN.md §5.3). Two helpers of the header parser,
  TRANSLATED from internal/format/format.go on every run (`Extracted/Funcs.lean`),
  compute what the model's `validString` and `splitSp` compute, for every byte
  string — in particular `isValidString`, which ranges over RUNES, accepts exactly
  the non-empty strings all of whose BYTES are in 33..126.

  Breaks when: the character range, the emptiness test, the separator or the
  trimming of the line terminator change.
-/
import Proofs.GoTieMisc
namespace AgeModel
namespace Tie.C07

theorem isValidString_tie (s : Bytes) : Extracted.format_isValidString s = .ok (Format.validString s) :=
  GoTie.isValidString_tie s

/-- `splitArgs` on a line as `ReadBytes('\n')` returns it (terminator included) -/
theorem splitArgs_tie (l : Bytes) :
    Extracted.format_splitArgs (l ++ [Format.nl]) =
      .ok (match Format.splitSp l with
           | h :: t => (h, t)
           | [] => ([], [])) :=
  GoTie.splitArgs_tie l

end Tie.C07
end AgeModel
