/-
  Tie/C07 — the code itself (DESIGN.md §5.3). Two helpers of the header parser,
  TRANSLATED from internal/format/format.go on every run (`Extracted/Funcs.lean`),
  compute what the model's `validString` and `splitSp` compute, for every byte
  string — in particular `isValidString`, which ranges over RUNES, accepts exactly
  the non-empty strings all of whose BYTES are in 33..126.

  Breaks when: the character range, the emptiness test, the separator or the
  trimming of the line terminator change.
-/
import Proofs.GoTieFmtStr
import Proofs.GoTieFormat
import Proofs.GoTieMarshal
import Proofs.GoTieSmall
import Props.C07
import Proofs.GoTieWitnessB
namespace AgeModel
namespace Tie.C07

theorem isValidString_tie (s : Bytes) : Extracted.format_isValidString s = .ok (Format.validString s) :=
  GoTie.isValidString_tie s

/-- `splitArgs` on a line as `ReadBytes('\n')` returns it (terminator included) -/
theorem splitArgs_tie (l : Bytes) :
    Extracted.format_splitArgs (l ++ [Format.nl]) =
      .ok (match Format.splitSp l with
           | h :: t => (h, t)
           | [] => ([], [])) :=
  GoTie.splitArgs_tie l


/-! ## The header parser itself (DESIGN.md §5.3)

`format.Parse`, `(*StanzaReader).ReadStanza` and `NewStanzaReader` are TRANSLATED from
internal/format/format.go on every run — the intro line, the `Peek`/`ReadStanza` loop,
the sticky error with its `defer`, the body-line loop, the closing line with the MAC —
with `format.DecodeString` kept abstract and assumed to be the model's `decodeString`
(`GoTie.DecodeIsModel`; the strict base64 of the model is tied to Go's by this property's
correspondence). For EVERY input the translated parser returns what the model's
`Format.parse` returns: the same header (stanzas in order, MAC) and the same unread
remainder, or an error. `marshal_of_parse`, `parse_of_marshal`, `no_two_spellings`,
`parse_consumes_exactly` (Props/C07) are thereby theorems about the parser as it stands in
the source. (Translated up to the point where the Go code hands back the unread input;
the tail that unwinds bufio's read-ahead is outside the fragment, see Proofs/GoTieFormat.) -/

theorem parse_tie (D : Bytes → Go.M (Bytes × Option Go.Err)) (eD : Go.Err) (hD : GoTie.DecodeIsModel D eD)
    (input : Bytes) :
    ∃ res, Extracted.format_Parse D input = .ok res ∧
      match Format.parse input with
      | .ok (h, rest) => res = (GoTie.toGoHeader h, rest, none)
      | .error _ => res.2.2 ≠ none :=
  GoTie.parse_tie D eD hD input

theorem readStanza_tie (D : Bytes → Go.M (Bytes × Option Go.Err)) (eD : Go.Err) (hD : GoTie.DecodeIsModel D eD)
    (input : Bytes) :
    ∃ res, Extracted.format_StanzaReader_ReadStanza D ⟨input, none⟩ = .ok res ∧
      match Format.readStanza input with
      | .ok (st, rest) => res = (GoTie.toGoFStanza st, none, ⟨rest, none⟩)
      | .error _ => res.2.1 ≠ none ∧ res.2.2.err = res.2.1 :=
  GoTie.readStanza_tie D eD hD input

/-- read errors are unrecoverable -/
theorem readStanza_sticky (D : Bytes → Go.M (Bytes × Option Go.Err)) (rd : Bytes) (e : Go.Err) :
    Extracted.format_StanzaReader_ReadStanza D ⟨rd, some e⟩ =
      .ok (({ Type_ := [], Args := [], Body := [] } : Extracted.format_Stanza), some e, ⟨rd, some e⟩) :=
  GoTie.readStanza_sticky D rd e

/-! The header serialiser (internal/format/format.go: `Stanza.Marshal`, `Header.MarshalWithoutMAC`,
`Header.Marshal`), translated on every run with the destination and the wrapped base64 encoder as
abstract state (`GoTie.MarshalEnv`: the destination takes every write; a body written to the
encoder comes out as unpadded base64 in 64-column lines): what reaches the destination is the
model's `marshalStanza` / `marshalNoMAC` / `marshal`, byte for byte. -/

theorem stanza_marshal_tie {δ ε ω : Type} (E : GoTie.MarshalEnv δ ε ω) (s : Format.Stanza) (d : δ) :
    ∃ d', Extracted.format_Stanza_Marshal E.W E.b64 E.New E.Wr E.Cl (GoTie.toGoFStanza s) d = .ok (none, d') ∧
      E.absD d' = E.absD d ++ Format.marshalStanza s :=
  GoTie.stanza_marshal_tie E s d

theorem header_marshalNoMAC_tie {δ ε ω : Type} (E : GoTie.MarshalEnv δ ε ω) (h : Format.Header) (d : δ) :
    ∃ d', Extracted.format_Header_MarshalWithoutMAC E.W E.b64 E.New E.Wr E.Cl ⟨h.stanzas.map GoTie.toGoFStanza, h.mac⟩ d = .ok (none, d') ∧
      E.absD d' = E.absD d ++ Format.marshalNoMAC h :=
  GoTie.header_marshalNoMAC_tie E h d

theorem header_marshal_tie {δ ε ω : Type} (E : GoTie.MarshalEnv δ ε ω) (h : Format.Header) (d : δ) :
    ∃ d', Extracted.format_Header_Marshal E.W E.b64 E.New E.Wr E.Cl E.Enc ⟨h.stanzas.map GoTie.toGoFStanza, h.mac⟩ d = .ok (none, d') ∧
      E.absD d' = E.absD d ++ Format.marshal h :=
  GoTie.header_marshal_tie E h d

/-- `format.DecodeString`, translated: CR and LF are refused BEFORE the decoder is asked (the
    standard decoder skips them, which would give a second spelling of every header) -/
theorem decodeString_tie {ε : Type} (Dec : ε → Bytes → Go.M (Bytes × Option Go.Err)) (b64 : ε) (s : Bytes) :
    Extracted.format_DecodeString Dec b64 s =
      if s.any (fun c => c = Format.nl || c = Format.cr) = true then .ok ([], some ⟨"format.DecodeString", 0, []⟩)
      else Dec b64 s :=
  GoTie.decodeString_tie Dec b64 s

theorem decodeString_model {ε : Type} (Dec : ε → Bytes → Go.M (Bytes × Option Go.Err)) (b64 : ε) (eD : Go.Err)
    (hDec : ∀ s, Dec b64 s = .ok (match B64.decRaw s with | some b => (b, none) | none => ([], some eD))) (s : Bytes) :
    ∃ r, Extracted.format_DecodeString Dec b64 s = .ok r ∧
      match Format.decodeString s with
      | some b => r = (b, none)
      | none => r.1 = [] ∧ r.2 ≠ none :=
  GoTie.decodeString_model Dec b64 eD hDec s

/-! ### The round trip, stated about the CODE

`header_marshal_tie`, `Props.C07.parse_of_marshal` and `parse_tie` composed: for EVERY well-formed header and
whatever follows it, what the translated `Header.Marshal` writes is read back by the translated `Parse` as that
header, with exactly the rest left over. -/

theorem code_parse_of_marshal {δ ε ω : Type} (E : GoTie.MarshalEnv δ ε ω) (D : Bytes → Go.M (Bytes × Option Go.Err)) (eD : Go.Err)
    (hD : GoTie.DecodeIsModel D eD) (h : Format.Header) (hwf : h.WF) (rest : Bytes) (d : δ) :
    ∃ d', Extracted.format_Header_Marshal E.W E.b64 E.New E.Wr E.Cl E.Enc ⟨h.stanzas.map GoTie.toGoFStanza, h.mac⟩ d = .ok (none, d') ∧
      Extracted.format_Parse D ((E.absD d').drop (E.absD d).length ++ rest) = .ok (GoTie.toGoHeader h, rest, none) := by
  obtain ⟨d', hm, habs⟩ := header_marshal_tie E h d
  refine ⟨d', hm, ?_⟩
  rw [habs, List.drop_left]
  obtain ⟨res, hp, hres⟩ := parse_tie D eD hD (Format.marshal h ++ rest)
  rw [Props.C07.parse_of_marshal h hwf rest] at hres
  rw [hp, hres]

/-- **the assumption structures this file's theorems take are satisfiable** (for a lawful toy primitive suite
    with the 16-byte tag, where they mention primitives): none of the theorems above is vacuous. The instances are in
    `Proofs/GoTieWitnessA.lean` / `GoTieWitnessB.lean`. -/
theorem assumptions_satisfiable :
    Nonempty (GoTie.MarshalEnv Bytes Unit Bytes) :=
  ⟨GoTie.MarshalEnv.witness⟩

end Tie.C07
end AgeModel
