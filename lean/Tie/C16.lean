/-
  Tie/C16 — the plugin client's two conversations, as they stand in the source.

  `(*Recipient).WrapWithLabels` and `(*Identity).Unwrap` (plugin/client.go) are TRANSLATED from
  /repo on every run — phase 1, the phase-2 read loop with its `switch` on the stanza type, the
  labelled `break`, both `defer`s — with the process, the stanza reader on its output and the UI as
  abstract state (`GoTie.PluginEnv`: writing appends one stanza to the transcript, reading pops the
  next message of the plugin's script or reports how it ends, `ClientUI.handle` is the model's
  `UI.handle`). For EVERY script the translated client writes exactly the model's phase 1 followed
  by the model's replies, leaves the UI in the model's state and returns the model's result — so
  the theorems of `Props.C16` about `recipientClient` / `identityClient` (index 0 only, repeated
  file key or labels, error acknowledged then reported, unknown commands answered `unsupported`,
  zero stanzas, no file key = incorrect identity, a plugin that stops = an error) are about the
  state machines in the source. `(*ClientUI).handle` is translated too (`handle_tie`, for callbacks
  without hidden state); `readStanza`, the framing on the wire and the process itself stay tied by
  the correspondence (scripted plugin process).
-/
import Proofs.GoTiePluginR
import Proofs.GoTiePluginI
import Proofs.GoTieWriteStanza
import Proofs.GoTiePluginUI
import Props.C16
import Proofs.GoTieWitnessB
import Proofs.GoTiePluginFail
namespace AgeModel
namespace Tie.C16
open Extracted Plugin GoTie

theorem recipient_client_tie {S σ υ χ : Type} (E : PluginEnv S σ υ χ)
    (identityMode : Bool) (encoding grease : String) (fileKey : Bytes) :
    ∃ (res : List age_Stanza × Option (List Bytes) × Option Go.Err) (c : χ), plugin_Recipient_WrapWithLabels E.Open E.W E.Close (bs grease) E.WB E.New E.Rd E.Hd E.rem
        ⟨E.name, bs encoding, E.u, identityMode⟩ fileKey = .ok (res.1, res.2.1, res.2.2, some c) ∧
      let o := recipientClient E.ui E.dec E.st0 identityMode encoding fileKey grease E.script
      E.absC c = o.phase1 ++ o.replies ∧ E.uiOf c = o.ui ∧
      match o.result with
      | .ok (ss, ls) => res.1 = ss.map goAS ∧ res.2.1 = ls.map (·.map bs) ∧ res.2.2 = none
      | .error e => res.1 = [] ∧ res.2.1 = none ∧ rErrRel E e res.2.2 :=
  GoTie.recipient_client_tie E identityMode encoding grease fileKey

theorem identity_client_tie {S σ υ χ : Type} (E : PluginEnv S σ υ χ)
    (encoding grease : String) (stanzas : List Plugin.Stanza) :
    ∃ (res : Bytes × Option Go.Err) (c : χ), plugin_Identity_Unwrap E.Open E.W E.Close (bs grease) E.M E.New E.Rd E.Hd E.rem
        ⟨E.name, bs encoding, E.u⟩ (stanzas.map goAS) = .ok (res.1, res.2, some c) ∧
      let o := identityClient E.ui E.dec E.st0 encoding stanzas grease E.script
      E.absC c = o.phase1 ++ o.replies ∧ E.uiOf c = o.ui ∧
      match o.result with
      | .ok k => res.1 = k ∧ res.2 = none
      | .error e => res.1 = [] ∧ iErrRel E e res.2 :=
  GoTie.identity_client_tie E encoding grease stanzas

/-! What goes on the wire: `writeStanza` / `writeStanzaWithBody` (translated on top of the translated
`Stanza.Marshal`) write the canonical serialisation of the stanza they are given — the "writing
appends one stanza to the transcript" assumption of `PluginEnv`, at the level of bytes. -/

theorem writeStanza_tie {δ ε ω : Type} (E : GoTie.MarshalEnv δ ε ω) (t : Bytes) (args : List Bytes) (d : δ) :
    ∃ d', plugin_writeStanza E.W E.b64 E.New E.Wr E.Cl d t args = .ok (none, d') ∧
      E.absD d' = E.absD d ++ Format.marshalStanza ⟨t, args, []⟩ :=
  GoTie.writeStanza_tie E t args d

theorem writeStanzaWithBody_tie {δ ε ω : Type} (E : GoTie.MarshalEnv δ ε ω) (t body : Bytes) (d : δ) :
    ∃ d', plugin_writeStanzaWithBody E.W E.b64 E.New E.Wr E.Cl d t body = .ok (none, d') ∧
      E.absD d' = E.absD d ++ Format.marshalStanza ⟨t, [], body⟩ :=
  GoTie.writeStanzaWithBody_tie E t body d

/-! What a UI command gets for an answer: `(*ClientUI).handle`, translated with its three callbacks
as fields that may be nil. For callbacks given as pure functions it IS the model's `UI.handle`
(one reply appended to the transcript; a fatal error with nothing written; or "not a UI command"
with nothing written), so `Hd` of `PluginEnv` above is not an assumption about the shape of the
replies. -/

theorem handle_tie {χ : Type} (E : GoTie.UIEnv χ) (u : GoTie.PureUI) (eU : Go.Err) (name : Bytes) (conn : χ)
    (m : Plugin.Stanza) :
    ∃ out, plugin_ClientUI_handle E.W E.WB E.D (u.go eU) name conn (goFS m) = .ok out ∧
      match u.model.handle E.dec () m with
      | .reply _ r => out.1 = true ∧ out.2.1 = none ∧ E.absC out.2.2 = E.absC conn ++ [r]
      | .fatal => out.1 = true ∧ out.2.1 ≠ none ∧ E.absC out.2.2 = E.absC conn
      | .unknown => out.1 = false ∧ out.2.1 = none ∧ E.absC out.2.2 = E.absC conn :=
  GoTie.handle_tie E u eU name conn m

/-! ### Two clauses of the property, stated about the CODE

Through `recipient_client_tie`, theorems of `Props.C16` about the model's `recipientClient` become
statements about `(*Recipient).WrapWithLabels` as it stands in the source. -/

/-- a plugin whose output ends without `done` — cleanly, inside a stanza or with malformed framing — makes the translated
    `WrapWithLabels` return an ERROR and no stanzas, whatever it said before -/
theorem code_wrap_eof_is_error {S σ υ χ : Type} (E : PluginEnv S σ υ χ)
    (identityMode : Bool) (encoding grease : String) (fileKey : Bytes) (h : Props.C16.noDone E.script.msgs) :
    ∃ (res : List age_Stanza × Option (List Bytes) × Option Go.Err) (c : χ),
      plugin_Recipient_WrapWithLabels E.Open E.W E.Close (bs grease) E.WB E.New E.Rd E.Hd E.rem
        ⟨E.name, bs encoding, E.u, identityMode⟩ fileKey = .ok (res.1, res.2.1, res.2.2, some c) ∧
      res.1 = [] ∧ res.2.2 ≠ none := by
  obtain ⟨res, c, hrun, _, _, hres⟩ := GoTie.recipient_client_tie E identityMode encoding grease fileKey
  refine ⟨res, c, hrun, ?_⟩
  obtain ⟨err, herr, hhard⟩ := Props.C16.eof_is_error_recipient E.ui E.dec E.st0 identityMode encoding fileKey grease
    E.script.msgs E.script.fin h
  have hc : (⟨E.script.msgs, E.script.fin⟩ : Conv) = E.script := rfl
  rw [hc] at herr
  rw [herr] at hres
  obtain ⟨h1, _, h3⟩ := hres
  refine ⟨h1, ?_⟩
  cases err <;> simp only [rErrRel] at h3
  · rw [h3]; simp
  · rcases h3 with h3 | ⟨k, _, h3⟩ <;> rw [h3] <;> simp
  · rw [h3]; simp
  · rw [h3]; simp

/-- the translated `WrapWithLabels` never succeeds with zero stanzas: what it returns without error are exactly the stanzas
    of the plugin's `recipient-stanza` messages, in order, at least one -/
theorem code_wrap_never_empty {S σ υ χ : Type} (E : PluginEnv S σ υ χ)
    (identityMode : Bool) (encoding grease : String) (fileKey : Bytes)
    (res : List age_Stanza × Option (List Bytes) × Option Go.Err) (c : Option χ)
    (hrun : plugin_Recipient_WrapWithLabels E.Open E.W E.Close (bs grease) E.WB E.New E.Rd E.Hd E.rem
        ⟨E.name, bs encoding, E.u, identityMode⟩ fileKey = .ok (res.1, res.2.1, res.2.2, c))
    (hok : res.2.2 = none) :
    res.1 ≠ [] ∧ res.1 = (wrappedOf E.script.msgs).map goAS := by
  obtain ⟨res', c', hrun', _, _, hres⟩ := GoTie.recipient_client_tie E identityMode encoding grease fileKey
  rw [hrun'] at hrun
  simp only [Except.ok.injEq, Prod.mk.injEq] at hrun
  obtain ⟨e1, _, e3, _⟩ := hrun
  cases hr : (recipientClient E.ui E.dec E.st0 identityMode encoding fileKey grease E.script).result with
  | ok v =>
    obtain ⟨ws, l⟩ := v
    rw [hr] at hres
    obtain ⟨h1, _, _⟩ := hres
    have hspec := (Props.C16.no_stanza_wrap_fails E.ui E.dec E.st0 identityMode encoding fileKey grease E.script).1 ws l hr
    rw [← e1, h1]
    refine ⟨?_, by rw [hspec.2.1]⟩
    intro hnil
    exact hspec.1 (List.map_eq_nil_iff.mp hnil)
  | error err =>
    rw [hr] at hres
    obtain ⟨_, _, h3⟩ := hres
    rw [e3, hok] at h3
    cases err <;> simp [rErrRel] at h3

/-! ### When the plugin cannot be reached

The simulations above assume (`PluginEnv`) that the plugin starts and that every write to it
succeeds. The paths they leave out, for EVERY behaviour of the other callees: when
`openClientConnection` fails the two client methods return their own error at once — nothing is
written to the plugin, no UI callback runs, no stanza / file key is returned; when the FIRST write
(`add-recipient` / `add-identity`) fails, they close the connection and return that write's error
with nothing else. (A write that fails LATER in the conversation is still outside these theorems:
the correspondence's scripted-plugin cases with a plugin that closes its input cover it.) -/

section fail
variable {σ υ χ : Type} (Open : Bytes → Bytes → Go.M (χ × Option Go.Err))
  (W : χ → Bytes → List Bytes → Go.M (Option Go.Err × χ)) (Close : χ → Go.M (Option Go.Err)) (grease : Bytes)
  (WB : χ → Bytes → Bytes → Go.M (Option Go.Err × χ)) (M : Extracted.format_Stanza → χ → Go.M (Option Go.Err × χ))
  (New : χ → Go.M σ) (Rd : υ → Bytes → σ → Go.M (Extracted.format_Stanza × Option Go.Err × σ))
  (Hd : υ → Bytes → χ → Extracted.format_Stanza → Go.M (Bool × Option Go.Err × χ)) (rem : σ → Nat)

theorem recipient_open_fails (r : Extracted.plugin_Recipient υ) (fk : Bytes) (c : χ) (e : Go.Err)
    (hO : Open r.name "recipient-v1".toUTF8.toList = .ok (c, some e)) :
    Extracted.plugin_Recipient_WrapWithLabels Open W Close grease WB New Rd Hd rem r fk =
      .ok ([], none, some ⟨"plugin.(*Recipient).WrapWithLabels", 0, []⟩, some c) :=
  GoTie.recipient_open_fails Open W Close grease WB New Rd Hd rem r fk c e hO

theorem identity_open_fails (i : Extracted.plugin_Identity υ) (ss : List Extracted.age_Stanza) (c : χ) (e : Go.Err)
    (hO : Open i.name "identity-v1".toUTF8.toList = .ok (c, some e)) :
    Extracted.plugin_Identity_Unwrap Open W Close grease M New Rd Hd rem i ss =
      .ok ([], some ⟨"plugin.(*Identity).Unwrap", 0, []⟩, some c) :=
  GoTie.identity_open_fails Open W Close grease M New Rd Hd rem i ss c e hO

theorem recipient_first_write_fails (r : Extracted.plugin_Recipient υ) (fk : Bytes) (c c' : χ) (e : Go.Err) (ce : Option Go.Err)
    (hO : Open r.name "recipient-v1".toUTF8.toList = .ok (c, none))
    (hW : W c (if r.identity then "add-identity".toUTF8.toList else "add-recipient".toUTF8.toList) [r.encoding] = .ok (some e, c'))
    (hC : Close c' = .ok ce) :
    Extracted.plugin_Recipient_WrapWithLabels Open W Close grease WB New Rd Hd rem r fk = .ok ([], none, some e, some c') :=
  GoTie.recipient_first_write_fails Open W Close grease WB New Rd Hd rem r fk c c' e ce hO hW hC

theorem identity_first_write_fails (i : Extracted.plugin_Identity υ) (ss : List Extracted.age_Stanza) (c c' : χ) (e : Go.Err) (ce : Option Go.Err)
    (hO : Open i.name "identity-v1".toUTF8.toList = .ok (c, none))
    (hW : W c "add-identity".toUTF8.toList [i.encoding] = .ok (some e, c'))
    (hC : Close c' = .ok ce) :
    Extracted.plugin_Identity_Unwrap Open W Close grease M New Rd Hd rem i ss = .ok ([], some e, some c') :=
  GoTie.identity_first_write_fails Open W Close grease M New Rd Hd rem i ss c c' e ce hO hW hC
end fail

/-- **the assumption structures this file's theorems take are satisfiable** (for a lawful toy primitive suite
    with the 16-byte tag, where they mention primitives): none of the theorems above is vacuous. The instances are in
    `Proofs/GoTieWitnessA.lean` / `GoTieWitnessB.lean`. -/
theorem assumptions_satisfiable :
    Nonempty (GoTie.MarshalEnv Bytes Unit Bytes) ∧
    (∀ {S : Type} (ui : Plugin.UI S) (dec : String → Option Bytes) (script : Plugin.Conv) (st0 : S), ∃ E : GoTie.PluginEnv S (List Plugin.Stanza × Plugin.End) Unit (List Plugin.Stanza × S), E.ui = ui ∧ E.dec = dec ∧ E.script = script ∧ E.st0 = st0) ∧
    Nonempty (GoTie.UIEnv (List Plugin.Stanza)) :=
  ⟨⟨GoTie.MarshalEnv.witness⟩, (fun ui dec script st0 => ⟨GoTie.PluginEnv.witness ui dec script st0, GoTie.PluginEnv.witness_ui ui dec script st0⟩), ⟨GoTie.UIEnv.witness⟩⟩

end Tie.C16
end AgeModel
