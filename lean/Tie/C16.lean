/-
  Tie/C16 — the plugin client's two conversations, as they stand in the source.

  `(*Recipient).WrapWithLabels` and `(*Identity).Unwrap` (plugin/client.go) are TRANSLATED from
  /repo on every run — phase 1, the phase-2 read loop with its `switch` on the stanza type, the
  labelled `break`, both `defer`s — with the process, the stanza reader on its output and the UI as
  abstract state (`GoTie.PluginEnv`: writing appends one stanza to the transcript, reading pops the
  next message of the plugin's script or reports how it ends, `ClientUI.handle` is the model's
  `UI.handle`). For EVERY script the translated client writes exactly the model's phase 1 followed
  by the model's replies, leaves the UI in the model's state and returns the model's result — so
  the theorems of `Props.C16` about `recipientClient` / `identityClient` (index 0 only, repeated
  file key or labels, error acknowledged then reported, unknown commands answered `unsupported`,
  zero stanzas, no file key = incorrect identity, a plugin that stops = an error) are about the
  state machines in the source. `(*ClientUI).handle` is translated too (`handle_tie`, for callbacks
  without hidden state); `readStanza`, the framing on the wire and the process itself stay tied by
  the correspondence (scripted plugin process).
-/
import Proofs.GoTiePluginR
import Proofs.GoTiePluginI
import Proofs.GoTieWriteStanza
import Proofs.GoTiePluginUI
namespace AgeModel
namespace Tie.C16
open Extracted Plugin GoTie

theorem recipient_client_tie {S σ υ χ : Type} (E : PluginEnv S σ υ χ)
    (identityMode : Bool) (encoding grease : String) (fileKey : Bytes) :
    ∃ (res : List age_Stanza × Option (List Bytes) × Option Go.Err) (c : χ), plugin_Recipient_WrapWithLabels E.Open E.W E.Close (bs grease) E.WB E.New E.Rd E.Hd E.rem
        ⟨E.name, bs encoding, E.u, identityMode⟩ fileKey = .ok (res.1, res.2.1, res.2.2, some c) ∧
      let o := recipientClient E.ui E.dec E.st0 identityMode encoding fileKey grease E.script
      E.absC c = o.phase1 ++ o.replies ∧ E.uiOf c = o.ui ∧
      match o.result with
      | .ok (ss, ls) => res.1 = ss.map goAS ∧ res.2.1 = ls.map (·.map bs) ∧ res.2.2 = none
      | .error e => res.1 = [] ∧ res.2.1 = none ∧ rErrRel E e res.2.2 :=
  GoTie.recipient_client_tie E identityMode encoding grease fileKey

theorem identity_client_tie {S σ υ χ : Type} (E : PluginEnv S σ υ χ)
    (encoding grease : String) (stanzas : List Plugin.Stanza) :
    ∃ (res : Bytes × Option Go.Err) (c : χ), plugin_Identity_Unwrap E.Open E.W E.Close (bs grease) E.M E.New E.Rd E.Hd E.rem
        ⟨E.name, bs encoding, E.u⟩ (stanzas.map goAS) = .ok (res.1, res.2, some c) ∧
      let o := identityClient E.ui E.dec E.st0 encoding stanzas grease E.script
      E.absC c = o.phase1 ++ o.replies ∧ E.uiOf c = o.ui ∧
      match o.result with
      | .ok k => res.1 = k ∧ res.2 = none
      | .error e => res.1 = [] ∧ iErrRel E e res.2 :=
  GoTie.identity_client_tie E encoding grease stanzas

/-! What goes on the wire: `writeStanza` / `writeStanzaWithBody` (translated on top of the translated
`Stanza.Marshal`) write the canonical serialisation of the stanza they are given — the "writing
appends one stanza to the transcript" assumption of `PluginEnv`, at the level of bytes. -/

theorem writeStanza_tie {δ ε ω : Type} (E : GoTie.MarshalEnv δ ε ω) (t : Bytes) (args : List Bytes) (d : δ) :
    ∃ d', plugin_writeStanza E.W E.b64 E.New E.Wr E.Cl d t args = .ok (none, d') ∧
      E.absD d' = E.absD d ++ Format.marshalStanza ⟨t, args, []⟩ :=
  GoTie.writeStanza_tie E t args d

theorem writeStanzaWithBody_tie {δ ε ω : Type} (E : GoTie.MarshalEnv δ ε ω) (t body : Bytes) (d : δ) :
    ∃ d', plugin_writeStanzaWithBody E.W E.b64 E.New E.Wr E.Cl d t body = .ok (none, d') ∧
      E.absD d' = E.absD d ++ Format.marshalStanza ⟨t, [], body⟩ :=
  GoTie.writeStanzaWithBody_tie E t body d

/-! What a UI command gets for an answer: `(*ClientUI).handle`, translated with its three callbacks
as fields that may be nil. For callbacks given as pure functions it IS the model's `UI.handle`
(one reply appended to the transcript; a fatal error with nothing written; or "not a UI command"
with nothing written), so `Hd` of `PluginEnv` above is not an assumption about the shape of the
replies. -/

theorem handle_tie {χ : Type} (E : GoTie.UIEnv χ) (u : GoTie.PureUI) (eU : Go.Err) (name : Bytes) (conn : χ)
    (m : Plugin.Stanza) :
    ∃ out, plugin_ClientUI_handle E.W E.WB E.D (u.go eU) name conn (goFS m) = .ok out ∧
      match u.model.handle E.dec () m with
      | .reply _ r => out.1 = true ∧ out.2.1 = none ∧ E.absC out.2.2 = E.absC conn ++ [r]
      | .fatal => out.1 = true ∧ out.2.1 ≠ none ∧ E.absC out.2.2 = E.absC conn
      | .unknown => out.1 = false ∧ out.2.1 = none ∧ E.absC out.2.2 = E.absC conn :=
  GoTie.handle_tie E u eU name conn m

end Tie.C16
end AgeModel
