/-
  Tie/C14 — the explicit `panic(...)` sites of the library are exactly the ones
  the model carries as named, proved-unreachable outcomes; and the passphrase
  identity checks the work factor before it derives a key.

  Facts regenerated from /repo (`Extracted/Panics.lean`, `Extracted/CallOrder.lean`).
  A new panic, or one moved to another function, breaks `panic_sites`. The
  message texts are not pinned (rewording one is harmless); the number of sites
  per function is.
-/
import AgeModel.Extracted.Panics
import AgeModel.Extracted.CallOrder
import Proofs.GoTieScrypt
import Proofs.GoTieFormat
import Proofs.GoTieStreamW
import Proofs.GoTieArmorR
import Proofs.GoTieWitnessA
import Proofs.GoTieWitnessB
namespace AgeModel
namespace Tie.C14

/-- (file, function) of every panic call outside cmd/, sorted:
    format  — writeWrapped called with a non-empty line buffer
    stream  — readChunk with a dirty buffer; flushChunk with a partial chunk; chunk counter wrap
    age     — HKDF read failure in streamKey
    scrypt  — the two setters called with a work factor outside 1..30 (caller error, not input) -/
theorem panic_sites : Extracted.panicSites.map (fun s => (s.1, s.2.1)) = [
    ("internal/format/format.go", "(*WrappedBase64Encoder).writeWrapped"),
    ("internal/stream/stream.go", "(*Reader).readChunk"),
    ("internal/stream/stream.go", "(*Writer).flushChunk"),
    ("internal/stream/stream.go", "incNonce"),
    ("primitives.go", "streamKey"),
    ("scrypt.go", "(*ScryptIdentity).SetMaxWorkFactor"),
    ("scrypt.go", "(*ScryptRecipient).SetWorkFactor")] := by decide

/-- in the scrypt stanza unwrap: syntax check, Atoi and the comparison with the
    configured maximum all precede the only scrypt.Key call -/
theorem kdf_after_checks : Extracted.scryptChecksPrecedeKdf = true := by decide


/-! ## The code itself (DESIGN.md §5.3): the passphrase identity never performs key-derivation
    work its maximum does not allow — `(*ScryptIdentity).unwrap`, TRANSLATED from scrypt.go on every
    run, handed a `scrypt.Key` that faults when called, still returns normally whenever the model
    derives no key; and when it derives one the cost is `2^logN` with `logN ≤ maxWF`. -/

theorem scrypt_unwrap_no_kdf (P : Prims) (E : GoTie.ScryptEnv P) (pw : Bytes) (maxWF : Nat) (s : Format.Stanza)
    (h : (unwrapScrypt P pw maxWF s).2 = []) :
    ∃ r, Extracted.age_ScryptIdentity_unwrap E.D (fun _ _ _ _ _ _ => .error (.panic 99)) E.A ⟨pw, Int.ofNat maxWF⟩
        (GoTie.toGoStanza s) = .ok r ∧
      GoTie.resClass r = (unwrapScrypt P pw maxWF s).1 :=
  GoTie.scrypt_unwrap_no_kdf P E pw maxWF s h

/-- when the model derives a key with work factor `logN`: `logN ≤ maxWF` (a fact of the model), AND the translated
    `unwrap` looks at `scrypt.Key` only at cost `2^logN`, r = 8, p = 1, 32 bytes — replace the KDF by ANY function that
    agrees with it at those arguments and the translated code cannot tell (the part about the code; the first form
    of this theorem kept only the model half) -/
theorem scrypt_unwrap_kdf_bounded (P : Prims) (E : GoTie.ScryptEnv P) (pw : Bytes) (maxWF : Nat) (s : Format.Stanza)
    (logN : Nat) (h : (unwrapScrypt P pw maxWF s).2 = [logN]) :
    logN ≤ maxWF ∧
    ∀ K', (∀ salt, K' pw salt ((2 : Int) ^ logN) 8 1 32 = E.K pw salt ((2 : Int) ^ logN) 8 1 32) →
      Extracted.age_ScryptIdentity_unwrap E.D K' E.A ⟨pw, Int.ofNat maxWF⟩ (GoTie.toGoStanza s) =
      Extracted.age_ScryptIdentity_unwrap E.D E.K E.A ⟨pw, Int.ofNat maxWF⟩ (GoTie.toGoStanza s) :=
  GoTie.scrypt_unwrap_kdf_args P E pw maxWF s logN h


/-- The code itself (DESIGN.md §5.3): the header parser as TRANSLATED from the source returns
    (a header or an error) on EVERY input — no fault of the translated fragment (index or slice
    out of range, explicit panic, an unbounded loop: the fuel `len(input)+1` suffices) is reachable,
    provided `format.DecodeString` returns. -/
theorem header_parser_returns (D : Bytes → Go.M (Bytes × Option Go.Err)) (eD : Go.Err) (hD : GoTie.DecodeIsModel D eD)
    (input : Bytes) : ∃ res, Extracted.format_Parse D input = .ok res :=
  let ⟨res, h, _⟩ := GoTie.parse_tie D eD hD input
  ⟨res, h⟩


/-! ## The code itself: no panic, no fault in the STREAM code. The translated `Read`, `Write` and
    `Close` RETURN from every related state (for every buffer size, every source and destination
    behaviour, fewer than 2^88 chunks): none of the three explicit `panic`s of stream.go (dirty
    buffer, partial-chunk flush, counter wrap), no index or slice out of range, no append that
    would leave the array a view looks into (`Go.Fault.alias`), no exhausted loop fuel. -/

theorem stream_read_returns {α : Type} (A : AEAD) (k : Bytes) (E : GoTie.AeadEnv α A k)
    (r : Extracted.stream_Reader α) (m : AgeModel.Stream.Reader) (h : GoTie.RRel r m) (hctr : m.ctr + 1 < 2 ^ 88) (p : Bytes) :
    ∃ res, Extracted.stream_Reader_Read E.over E.open_ r p = .ok res :=
  let ⟨res, h1, _⟩ := GoTie.reader_read_tie A k E r m h hctr p
  ⟨res, h1⟩

theorem stream_write_returns {α δ : Type} {S : AgeModel.Stream.DstSpec} (A : AEAD) (k : Bytes) (E : GoTie.AeadEnv α A k)
    (D : GoTie.DstEnv δ S) (w : Extracted.stream_Writer α δ) (m : AgeModel.Stream.Writer S) (h : GoTie.WRel D w m) (p : Bytes)
    (hctr : m.ctr + p.length / 65536 + 2 < 2 ^ 88) :
    ∃ res, Extracted.stream_Writer_Write E.seal_ D.write w p = .ok res :=
  let ⟨res, h1, _⟩ := GoTie.writer_write_tie A k E D w m h p hctr
  ⟨res, h1⟩

theorem stream_close_returns {α δ : Type} {S : AgeModel.Stream.DstSpec} (A : AEAD) (k : Bytes) (E : GoTie.AeadEnv α A k)
    (D : GoTie.DstEnv δ S) (w : Extracted.stream_Writer α δ) (m : AgeModel.Stream.Writer S) (h : GoTie.WRel D w m)
    (hctr : m.ctr + 2 < 2 ^ 88) :
    ∃ res, Extracted.stream_Writer_Close E.seal_ D.write w = .ok res :=
  let ⟨res, h1, _⟩ := GoTie.writer_close_tie A k E D w m h hctr
  ⟨res, h1⟩

/-- the de-armoring reader, translated from armor/armor.go, returns from every state related to a
    state of the model's machine, whatever text is left and whatever the decoder answers: no index
    or slice fault, no exhausted fuel (the leading-whitespace loop needs at most one round per
    remaining byte), no panic -/
theorem armor_read_returns (E : GoTie.B64DecEnv) (g : Extracted.armor_armoredReader) (m : Armor.AReader)
    (h : GoTie.ARel g m) (p : Bytes) :
    ∃ res, Extracted.armor_armoredReader_Read E.Dec g p = .ok res :=
  GoTie.armor_read_returns E g m h p

/-- **the assumption structures this file's theorems take are satisfiable** (for a lawful toy primitive suite
    with the 16-byte tag, where they mention primitives): none of the theorems above is vacuous. The instances are in
    `Proofs/GoTieWitnessA.lean` / `GoTieWitnessB.lean`. -/
theorem assumptions_satisfiable :
    Prims.toy16.Correct ∧ Prims.toy16.aead.NonceSep ∧ Prims.toy16.aead.T = 16 ∧
    (∀ k : Bytes, Nonempty (GoTie.AeadEnv Unit AEAD.toy16 k)) ∧
    (∀ S : Stream.DstSpec, Nonempty (GoTie.DstEnv (Stream.Dst S) S)) ∧
    Nonempty (GoTie.ScryptEnv Prims.toy16) ∧
    Nonempty GoTie.B64DecEnv :=
  ⟨Prims.toy16_correct, AEAD.toy16_nonceSep, rfl, (fun k => ⟨GoTie.AeadEnv.witness k⟩), (fun S => ⟨GoTie.DstEnv.witness S⟩), ⟨GoTie.ScryptEnv.witness⟩, ⟨GoTie.B64DecEnv.witness⟩⟩

end Tie.C14
end AgeModel
