/-
  Tie/C14 — the explicit `panic(...)` sites of the library are exactly the ones
  the model carries as named, proved-unreachable outcomes; and the passphrase
  identity checks the work factor before it derives a key.

  Facts regenerated from /repo (`Extracted/Panics.lean`, `Extracted/CallOrder.lean`).
  A new panic, or one moved to another function, breaks `panic_sites`. The
  message texts are not pinned (rewording one is harmless); the number of sites
  per function is.
-/
import AgeModel.Extracted.Panics
import AgeModel.Extracted.CallOrder
namespace AgeModel
namespace Tie.C14

/-- (file, function) of every panic call outside cmd/, sorted:
    format  — writeWrapped called with a non-empty line buffer
    stream  — readChunk with a dirty buffer; flushChunk with a partial chunk; chunk counter wrap
    age     — HKDF read failure in streamKey
    scrypt  — the two setters called with a work factor outside 1..30 (caller error, not input) -/
theorem panic_sites : Extracted.panicSites.map (fun s => (s.1, s.2.1)) = [
    ("internal/format/format.go", "(*WrappedBase64Encoder).writeWrapped"),
    ("internal/stream/stream.go", "(*Reader).readChunk"),
    ("internal/stream/stream.go", "(*Writer).flushChunk"),
    ("internal/stream/stream.go", "incNonce"),
    ("primitives.go", "streamKey"),
    ("scrypt.go", "(*ScryptIdentity).SetMaxWorkFactor"),
    ("scrypt.go", "(*ScryptRecipient).SetWorkFactor")] := by decide

/-- in the scrypt stanza unwrap: syntax check, Atoi and the comparison with the
    configured maximum all precede the only scrypt.Key call -/
theorem kdf_after_checks : Extracted.scryptChecksPrecedeKdf = true := by decide

end Tie.C14
end AgeModel
