/-
  Tie/C12 — stream.Reader and stream.Writer themselves (DESIGN.md §5.3).

  `Read`/`readChunk` and `Write`/`Close`/`flushChunk` are TRANSLATED from
  internal/stream/stream.go on every run, with `unread`/`unwritten`/`in`/`freeBuf` as VIEWS into
  the struct's own `buf` (extract/funcs_views.go), the AEAD and the destination abstract. The
  theorems are SIMULATIONS between the translated code and the model's Reader/Writer machines
  (AgeModel/Stream.lean): related states, one call on each side ⇒ the same reported count, the
  same bytes, corresponding errors, related states. By induction over calls the machine-level
  theorems of Props/C12 — `writer_refines_spec`, `writer_holdback`, `reader_refines_spec`,
  `reader_chunking_irrelevant`, `reader_lookahead` — hold of the code in the source: the output
  does not depend on how the caller splits its writes and reads.

  Breaks when: the fill/flush loop of Write, the hold-back of a full buffer, the copy-out of
  Read, the probe after the final chunk or the order of the two `Open` attempts change.
-/
import Proofs.GoTieStreamW
import Proofs.GoTieStreamNew
import Proofs.GoTieWitnessA
import Proofs.GoTieStreamRT
namespace AgeModel
namespace Tie.C12

theorem reader_read_tie {α : Type} (A : AEAD) (k : Bytes) (E : GoTie.AeadEnv α A k)
    (r : Extracted.stream_Reader α) (m : AgeModel.Stream.Reader) (h : GoTie.RRel r m) (hctr : m.ctr + 1 < 2 ^ 88) (p : Bytes) :
    ∃ res, Extracted.stream_Reader_Read E.over E.open_ r p = .ok res ∧
      let mr := m.read A 65536 (2 ^ 88) k p.length
      res.1 = Int.ofNat mr.2.1.length ∧
      GoTie.rdErrRel res.2.1 mr.2.2 ∧
      GoTie.RRel res.2.2.1 mr.1 ∧
      res.2.2.2 = mr.2.1 ++ p.drop mr.2.1.length :=
  GoTie.reader_read_tie A k E r m h hctr p

theorem reader_new_rel {α : Type} (a : α) (data : Bytes) (fail : Bool) :
    GoTie.RRel (⟨a, ⟨data, fail⟩, 0, 0, List.replicate 65552 0, none, List.replicate 12 0⟩ : Extracted.stream_Reader α)
      (AgeModel.Stream.Reader.new ⟨data, fail⟩) :=
  GoTie.reader_new_rel a data fail

theorem writer_write_tie {α δ : Type} {S : AgeModel.Stream.DstSpec} (A : AEAD) (k : Bytes) (E : GoTie.AeadEnv α A k)
    (D : GoTie.DstEnv δ S) (w : Extracted.stream_Writer α δ) (m : AgeModel.Stream.Writer S) (h : GoTie.WRel D w m) (p : Bytes)
    (hctr : m.ctr + p.length / 65536 + 2 < 2 ^ 88) :
    ∃ res, Extracted.stream_Writer_Write E.seal_ D.write w p = .ok res ∧
      let mw := m.write A 65536 (2 ^ 88) k p
      res.1 = Int.ofNat mw.2.1 ∧ GoTie.wrErrRel res.2.1 D.eW mw.2.2 ∧ GoTie.WRel D res.2.2 mw.1 :=
  GoTie.writer_write_tie A k E D w m h p hctr

theorem writer_close_tie {α δ : Type} {S : AgeModel.Stream.DstSpec} (A : AEAD) (k : Bytes) (E : GoTie.AeadEnv α A k)
    (D : GoTie.DstEnv δ S) (w : Extracted.stream_Writer α δ) (m : AgeModel.Stream.Writer S) (h : GoTie.WRel D w m)
    (hctr : m.ctr + 2 < 2 ^ 88) :
    ∃ res, Extracted.stream_Writer_Close E.seal_ D.write w = .ok res ∧
      let mc := m.close A 65536 (2 ^ 88) k
      GoTie.wrErrRel res.1 D.eW mc.2 ∧ GoTie.WRel D res.2 mc.1 ∧
      (mc.2 = none → D.absD res.2.dst = mc.1.dst) ∧
      GoTie.wrErrRel res.2.err D.eW mc.1.err :=
  GoTie.writer_close_tie A k E D w m h hctr

/-! `stream.NewReader` / `NewWriter`, translated: with a key the AEAD accepts they build the initial
states the simulations start from (related to the model's `Reader.new` / `Writer.new`). -/

theorem newReader_rel {α : Type} (New : Bytes → Go.M (α × Option Go.Err)) (nilα a : α) (key : Bytes)
    (hNew : New key = .ok (a, none)) (data : Bytes) (fail : Bool) :
    ∃ g, Extracted.stream_NewReader New nilα key ⟨data, fail⟩ = .ok (g, none) ∧ GoTie.RRel g (Stream.Reader.new ⟨data, fail⟩) :=
  GoTie.newReader_rel New nilα a key hNew data fail

theorem newWriter_tie {α δ : Type} (New : Bytes → Go.M (α × Option Go.Err)) (nilα a : α) (nilδ : δ) (key : Bytes)
    (hNew : New key = .ok (a, none)) (dst : δ) :
    Extracted.stream_NewWriter New nilα nilδ key dst =
      .ok (⟨a, dst, 0, 0, List.replicate 65552 0, List.replicate 12 0, none⟩, none) :=
  GoTie.newWriter_tie New nilα a nilδ key hNew dst

theorem newWriter_rel {α δ : Type} {S : Stream.DstSpec} (D : GoTie.DstEnv δ S) (a : α) (dst : δ) :
    GoTie.WRel D (⟨a, dst, 0, 0, List.replicate 65552 0, List.replicate 12 0, none⟩ : Extracted.stream_Writer α δ) (Stream.Writer.new (D.absD dst)) :=
  GoTie.newWriter_rel D a dst

/-! The two translated ends composed. `GoTie.streamWrites` pushes a sequence of writes through the
translated `Write`; `GoTie.streamReads` calls the translated `Read` with buffers of the given sizes
and collects what each call copied until the first reported error. Driven call by call the
translated reader yields what the model's `Reader.drain` yields, for EVERY list of sizes
(`streamReads_tie`); and the property's round trip holds of the code (`code_stream_roundtrip`):
whatever goes through the translated `Write`s and `Close` into an empty destination that takes every
write comes back, followed by io.EOF, from the translated `Read` over the destination's bytes — for
every input below 2^64 bytes, every split into writes, every sequence of positive read sizes long
enough to reach the end. -/

theorem streamReads_tie {α : Type} (A : AEAD) (k : Bytes) (E : GoTie.AeadEnv α A k) (sizes : List Nat)
    (g : Extracted.stream_Reader α) (m : Stream.Reader) (h : GoTie.RRel g m) (hb : m.Bounded (2 ^ 88 - 1)) :
    ∃ g' ge, GoTie.streamReads E g sizes = .ok (g', (m.drain A 65536 (2 ^ 88) k sizes).2.1, ge) ∧
      GoTie.rdErrRel ge (m.drain A 65536 (2 ^ 88) k sizes).2.2 ∧ GoTie.RRel g' (m.drain A 65536 (2 ^ 88) k sizes).1 :=
  GoTie.streamReads_tie A k E sizes g m h hb

theorem code_stream_roundtrip {α δ : Type} (A : AEAD) (hA : A.Correct) (hN : A.NonceSep) (k : Bytes) (E : GoTie.AeadEnv α A k)
    (D : GoTie.DstEnv δ Stream.DstSpec.perfect) (a : α) (dst : δ) (hd : (D.absD dst).acc = []) (ps : List Bytes)
    (hlen : ps.flatten.length < 2 ^ 64) (sizes : List Nat) (hpos : ∀ s ∈ sizes, 0 < s)
    (hlong : ps.flatten.length + (Stream.encrypt A 65536 k ps.flatten).length + 1 < sizes.length) :
    ∃ w1 w2 r', GoTie.streamWrites E D ⟨a, dst, 0, 0, List.replicate 65552 0, List.replicate 12 0, none⟩ ps = .ok (none, w1) ∧
      Extracted.stream_Writer_Close E.seal_ D.write w1 = .ok (none, w2) ∧
      GoTie.streamReads E ⟨a, ⟨(D.absD w2.dst).acc, false⟩, 0, 0, List.replicate 65552 0, none, List.replicate 12 0⟩ sizes =
        .ok (r', ps.flatten, Go.io_EOF) :=
  GoTie.code_stream_roundtrip A hA hN k E D a dst hd ps hlen sizes hpos hlong

/-- non-vacuity of the round trip: the toy AEAD with the 16-byte tag, the destination that is the model's own, any
    key and any input below 2^64 bytes — the conclusion holds of one-byte reads -/
theorem code_stream_roundtrip_instance (k : Bytes) (ps : List Bytes) (hlen : ps.flatten.length < 2 ^ 64) :
    ∃ sizes w1 w2 r',
      GoTie.streamWrites (GoTie.AeadEnv.witness k) (GoTie.DstEnv.witness Stream.DstSpec.perfect)
          ⟨(), ⟨[], ()⟩, 0, 0, List.replicate 65552 0, List.replicate 12 0, none⟩ ps = .ok (none, w1) ∧
      Extracted.stream_Writer_Close (GoTie.AeadEnv.witness k).seal_ (GoTie.DstEnv.witness Stream.DstSpec.perfect).write w1 = .ok (none, w2) ∧
      GoTie.streamReads (GoTie.AeadEnv.witness k)
          ⟨(), ⟨((GoTie.DstEnv.witness Stream.DstSpec.perfect).absD w2.dst).acc, false⟩, 0, 0, List.replicate 65552 0, none, List.replicate 12 0⟩ sizes =
        .ok (r', ps.flatten, Go.io_EOF) := by
  let n := ps.flatten.length + (Stream.encrypt AEAD.toy16 65536 k ps.flatten).length + 2
  obtain ⟨w1, w2, r', h⟩ := code_stream_roundtrip AEAD.toy16 AEAD.toy16_correct AEAD.toy16_nonceSep k (GoTie.AeadEnv.witness k)
    (GoTie.DstEnv.witness Stream.DstSpec.perfect) () ⟨[], ()⟩ rfl ps hlen (List.replicate n 1)
    (by intro s hs; rw [List.mem_replicate] at hs; omega) (by rw [List.length_replicate]; omega)
  exact ⟨_, w1, w2, r', h⟩

/-- **the assumption structures this file's theorems take are satisfiable** (for a lawful toy primitive suite
    with the 16-byte tag, where they mention primitives): none of the theorems above is vacuous. The instances are in
    `Proofs/GoTieWitnessA.lean` / `GoTieWitnessB.lean`. -/
theorem assumptions_satisfiable :
    Prims.toy16.Correct ∧ Prims.toy16.aead.NonceSep ∧ Prims.toy16.aead.T = 16 ∧
    (∀ k : Bytes, Nonempty (GoTie.AeadEnv Unit AEAD.toy16 k)) ∧
    (∀ S : Stream.DstSpec, Nonempty (GoTie.DstEnv (Stream.Dst S) S)) :=
  ⟨Prims.toy16_correct, AEAD.toy16_nonceSep, rfl, (fun k => ⟨GoTie.AeadEnv.witness k⟩), (fun S => ⟨GoTie.DstEnv.witness S⟩)⟩

end Tie.C12
end AgeModel
