/-
  Tie/C12 — stream.Reader and stream.Writer themselves (DESIGN.md §5.3).

  `Read`/`readChunk` and `Write`/`Close`/`flushChunk` are TRANSLATED from
  internal/stream/stream.go on every run, with `unread`/`unwritten`/`in`/`freeBuf` as VIEWS into
  the struct's own `buf` (extract/funcs_views.go), the AEAD and the destination abstract. The
  theorems are SIMULATIONS between the translated code and the model's Reader/Writer machines
  (AgeModel/Stream.lean): related states, one call on each side ⇒ the same reported count, the
  same bytes, corresponding errors, related states. By induction over calls the machine-level
  theorems of Props/C12 — `writer_refines_spec`, `writer_holdback`, `reader_refines_spec`,
  `reader_chunking_irrelevant`, `reader_lookahead` — hold of the code in the source: the output
  does not depend on how the caller splits its writes and reads.

  Breaks when: the fill/flush loop of Write, the hold-back of a full buffer, the copy-out of
  Read, the probe after the final chunk or the order of the two `Open` attempts change.
-/
import Proofs.GoTieStreamW
import Proofs.GoTieStreamNew
namespace AgeModel
namespace Tie.C12

theorem reader_read_tie {α : Type} (A : AEAD) (k : Bytes) (E : GoTie.AeadEnv α A k)
    (r : Extracted.stream_Reader α) (m : AgeModel.Stream.Reader) (h : GoTie.RRel r m) (hctr : m.ctr + 1 < 2 ^ 88) (p : Bytes) :
    ∃ res, Extracted.stream_Reader_Read E.over E.open_ r p = .ok res ∧
      let mr := m.read A 65536 (2 ^ 88) k p.length
      res.1 = Int.ofNat mr.2.1.length ∧
      GoTie.rdErrRel res.2.1 mr.2.2 ∧
      GoTie.RRel res.2.2.1 mr.1 ∧
      res.2.2.2 = mr.2.1 ++ p.drop mr.2.1.length :=
  GoTie.reader_read_tie A k E r m h hctr p

theorem reader_new_rel {α : Type} (a : α) (data : Bytes) (fail : Bool) :
    GoTie.RRel (⟨a, ⟨data, fail⟩, 0, 0, List.replicate 65552 0, none, List.replicate 12 0⟩ : Extracted.stream_Reader α)
      (AgeModel.Stream.Reader.new ⟨data, fail⟩) :=
  GoTie.reader_new_rel a data fail

theorem writer_write_tie {α δ : Type} {S : AgeModel.Stream.DstSpec} (A : AEAD) (k : Bytes) (E : GoTie.AeadEnv α A k)
    (D : GoTie.DstEnv δ S) (w : Extracted.stream_Writer α δ) (m : AgeModel.Stream.Writer S) (h : GoTie.WRel D w m) (p : Bytes)
    (hctr : m.ctr + p.length / 65536 + 2 < 2 ^ 88) :
    ∃ res, Extracted.stream_Writer_Write E.seal_ D.write w p = .ok res ∧
      let mw := m.write A 65536 (2 ^ 88) k p
      res.1 = Int.ofNat mw.2.1 ∧ GoTie.wrErrRel res.2.1 D.eW mw.2.2 ∧ GoTie.WRel D res.2.2 mw.1 :=
  GoTie.writer_write_tie A k E D w m h p hctr

theorem writer_close_tie {α δ : Type} {S : AgeModel.Stream.DstSpec} (A : AEAD) (k : Bytes) (E : GoTie.AeadEnv α A k)
    (D : GoTie.DstEnv δ S) (w : Extracted.stream_Writer α δ) (m : AgeModel.Stream.Writer S) (h : GoTie.WRel D w m)
    (hctr : m.ctr + 2 < 2 ^ 88) :
    ∃ res, Extracted.stream_Writer_Close E.seal_ D.write w = .ok res ∧
      let mc := m.close A 65536 (2 ^ 88) k
      GoTie.wrErrRel res.1 D.eW mc.2 ∧
      (mc.2 = none → D.absD res.2.dst = mc.1.dst) ∧
      GoTie.wrErrRel res.2.err D.eW mc.1.err :=
  GoTie.writer_close_tie A k E D w m h hctr

/-! `stream.NewReader` / `NewWriter`, translated: with a key the AEAD accepts they build the initial
states the simulations start from (related to the model's `Reader.new` / `Writer.new`). -/

theorem newReader_rel {α : Type} (New : Bytes → Go.M (α × Option Go.Err)) (nilα a : α) (key : Bytes)
    (hNew : New key = .ok (a, none)) (data : Bytes) (fail : Bool) :
    ∃ g, Extracted.stream_NewReader New nilα key ⟨data, fail⟩ = .ok (g, none) ∧ GoTie.RRel g (Stream.Reader.new ⟨data, fail⟩) :=
  GoTie.newReader_rel New nilα a key hNew data fail

theorem newWriter_tie {α δ : Type} (New : Bytes → Go.M (α × Option Go.Err)) (nilα a : α) (nilδ : δ) (key : Bytes)
    (hNew : New key = .ok (a, none)) (dst : δ) :
    Extracted.stream_NewWriter New nilα nilδ key dst =
      .ok (⟨a, dst, 0, 0, List.replicate 65552 0, List.replicate 12 0, none⟩, none) :=
  GoTie.newWriter_tie New nilα a nilδ key hNew dst

theorem newWriter_rel {α δ : Type} {S : Stream.DstSpec} (D : GoTie.DstEnv δ S) (a : α) (dst : δ) :
    GoTie.WRel D (⟨a, dst, 0, 0, List.replicate 65552 0, List.replicate 12 0, none⟩ : Extracted.stream_Writer α δ) (Stream.Writer.new (D.absD dst)) :=
  GoTie.newWriter_rel D a dst

end Tie.C12
end AgeModel
