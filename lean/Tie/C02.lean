/-
  Tie/C02 — the code itself (DESIGN.md §5.3). The three nonce helpers of
  internal/stream/stream.go are TRANSLATED from the source on every run
  (`Extracted/Funcs.lean`); the theorems say that on the nonce of chunk `i` they
  do what the model's `Stream.nonce` arithmetic says, for every `i`:

    incNonce          chunk i ↦ chunk i+1, all eleven counter bytes carrying;
                      its `panic` is reached exactly when the 88-bit counter wraps
    setLastChunkFlag  sets the flag byte and nothing else
    nonceIsZero       true exactly for chunk 0 without the flag

  Breaks when: the carry loop, the flag position or the zero test change
  (the seeded `incNonce` changes of C02, C05 and C06 each break `incNonce_tie`).
-/
import Proofs.GoTieNonce
import Proofs.GoTieStreamR
import Proofs.GoTieWitnessA
import Proofs.GoTieStreamRT
namespace AgeModel
namespace Tie.C02

theorem incNonce_tie (i : Nat) (last : Bool) (h : i + 1 < 2 ^ 88) :
    Extracted.stream_incNonce (Stream.nonce i last) = .ok (Stream.nonce (i + 1) last) :=
  GoTie.incNonce_tie i last h

/-- the explicit panic of `incNonce` is exactly the wrap of the 88-bit counter -/
theorem incNonce_wrap (last : Bool) :
    Extracted.stream_incNonce (Stream.nonce (2 ^ 88 - 1) last) = .error (.panic 0) :=
  GoTie.incNonce_wrap last

theorem setLastChunkFlag_tie (i : Nat) (last : Bool) :
    Extracted.stream_setLastChunkFlag (Stream.nonce i last) = .ok (Stream.nonce i true) :=
  GoTie.setLastChunkFlag_tie i last

theorem nonceIsZero_tie (i : Nat) (last : Bool) (h : i < 2 ^ 88) :
    Extracted.stream_nonceIsZero (Stream.nonce i last) = .ok (decide (i = 0 ∧ last = false)) :=
  GoTie.nonceIsZero_tie i last h


/-! ## stream.Reader itself (DESIGN.md §5.3)

`(*Reader).Read` and `(*Reader).readChunk` are TRANSLATED from internal/stream/stream.go on every
run — `unread` and `in` as VIEWS into the struct's own `buf` (reads and writes go to the array,
re-slicing is bounds-checked), the source as bytes followed by a clean end or an error, the AEAD
abstract (`GoTie.AeadEnv`: it is the model's, tag 16). SIMULATION: from related states one
`Read(p)` of the translated code and one `Reader.read` of the model return the same count, the
same bytes in the caller's buffer, corresponding errors, and related states. A fresh reader is
related to `Reader.new` (`reader_new_rel`). By induction over calls, `tamper_prefix`,
`tampered_never_eof`, `reader_carries_over`, `accepts_only_own_chunking` (Props/C02) hold of the
reader in the source — the EOF probe, the second `Open` under the final flag, the empty-last-chunk
test, the sticky error included. (Fewer than 2^88 chunks.) -/

theorem reader_read_tie {α : Type} (A : AEAD) (k : Bytes) (E : GoTie.AeadEnv α A k)
    (r : Extracted.stream_Reader α) (m : AgeModel.Stream.Reader) (h : GoTie.RRel r m) (hctr : m.ctr + 1 < 2 ^ 88) (p : Bytes) :
    ∃ res, Extracted.stream_Reader_Read E.over E.open_ r p = .ok res ∧
      let mr := m.read A 65536 (2 ^ 88) k p.length
      res.1 = Int.ofNat mr.2.1.length ∧
      GoTie.rdErrRel res.2.1 mr.2.2 ∧
      GoTie.RRel res.2.2.1 mr.1 ∧
      res.2.2.2 = mr.2.1 ++ p.drop mr.2.1.length :=
  GoTie.reader_read_tie A k E r m h hctr p

theorem reader_new_rel {α : Type} (a : α) (data : Bytes) (fail : Bool) :
    GoTie.RRel (⟨a, ⟨data, fail⟩, 0, 0, List.replicate 65552 0, none, List.replicate 12 0⟩ : Extracted.stream_Reader α)
      (AgeModel.Stream.Reader.new ⟨data, fail⟩) :=
  GoTie.reader_new_rel a data fail

/-! ### The property, stated about the CODE

`streamReads` drives the translated `Read` call by call (`Tie/C12.streamReads_tie`: it yields what the model's
reader yields). Composed with `Props.C12.reader_refines_spec` and `Props.C02.accepts_only_own_chunking`:
whatever bytes are presented as the payload, if the translated reader has released `out` and then reports
io.EOF, the payload IS the canonical encryption of `out` under that key — re-split, re-flagged, reordered,
truncated, extended or otherwise altered payloads never end cleanly. -/

theorem code_accepts_only_own_chunking {α : Type} (A : AEAD) (hA : A.Correct) (k : Bytes) (E : GoTie.AeadEnv α A k) (a : α)
    (c : Bytes) (hc : c.length < 2 ^ 88 - 1) (sizes : List Nat) (hpos : ∀ s ∈ sizes, 0 < s)
    (hlong : (Stream.decrypt A 65536 k c).1.length + c.length + 1 < sizes.length) (g' : Extracted.stream_Reader α) (out : Bytes)
    (h : GoTie.streamReads E ⟨a, ⟨c, false⟩, 0, 0, List.replicate 65552 0, none, List.replicate 12 0⟩ sizes = .ok (g', out, Go.io_EOF)) :
    c = Stream.encrypt A 65536 k out :=
  GoTie.code_accepts_only_own_chunking A hA k E a c hc sizes hpos hlong g' out h

/-- non-vacuity of the main premise: runs of the translated reader that end with io.EOF exist, for every key and every
    input below 2^64 bytes, with one-byte reads (the run of `Tie/C12.code_stream_roundtrip` seen from the reader; the other
    premises are bounds on lengths) -/
theorem code_accepts_only_own_chunking_instance (k : Bytes) (ps : List Bytes) (hlen : ps.flatten.length < 2 ^ 64) :
    ∃ c sizes g', (∀ s ∈ sizes, 0 < s) ∧
      GoTie.streamReads (GoTie.AeadEnv.witness k) ⟨(), ⟨c, false⟩, 0, 0, List.replicate 65552 0, none, List.replicate 12 0⟩ sizes =
        .ok (g', ps.flatten, Go.io_EOF) := by
  obtain ⟨w1, w2, r', _, _, h3⟩ := GoTie.code_stream_roundtrip AEAD.toy16 AEAD.toy16_correct AEAD.toy16_nonceSep k (GoTie.AeadEnv.witness k)
    (GoTie.DstEnv.witness Stream.DstSpec.perfect) () ⟨[], ()⟩ rfl ps hlen
    (List.replicate (ps.flatten.length + (Stream.encrypt AEAD.toy16 65536 k ps.flatten).length + 2) 1)
    (by intro s hs; rw [List.mem_replicate] at hs; omega) (by rw [List.length_replicate]; omega)
  exact ⟨_, _, r', by intro s hs; rw [List.mem_replicate] at hs; omega, h3⟩

/-- **the assumption structures this file's theorems take are satisfiable** (for a lawful toy primitive suite
    with the 16-byte tag, where they mention primitives): none of the theorems above is vacuous. The instances are in
    `Proofs/GoTieWitnessA.lean` / `GoTieWitnessB.lean`. -/
theorem assumptions_satisfiable :
    Prims.toy16.Correct ∧ Prims.toy16.aead.NonceSep ∧ Prims.toy16.aead.T = 16 ∧
    (∀ k : Bytes, Nonempty (GoTie.AeadEnv Unit AEAD.toy16 k)) :=
  ⟨Prims.toy16_correct, AEAD.toy16_nonceSep, rfl, (fun k => ⟨GoTie.AeadEnv.witness k⟩)⟩

end Tie.C02
end AgeModel
