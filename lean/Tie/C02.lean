/-
  Tie/C02 — the code itself (DESIGN.md §5.3). The three nonce helpers of
  internal/stream/stream.go are TRANSLATED from the source on every run
  (`Extracted/Funcs.lean`); the theorems say that on the nonce of chunk `i` they
  do what the model's `Stream.nonce` arithmetic says, for every `i`:

    incNonce          chunk i ↦ chunk i+1, all eleven counter bytes carrying;
                      its `panic` is reached exactly when the 88-bit counter wraps
    setLastChunkFlag  sets the flag byte and nothing else
    nonceIsZero       true exactly for chunk 0 without the flag

  Breaks when: the carry loop, the flag position or the zero test change
  (the seeded `incNonce` changes of C02, C05 and C06 each break `incNonce_tie`).
-/
import Proofs.GoTieMisc
namespace AgeModel
namespace Tie.C02

theorem incNonce_tie (i : Nat) (last : Bool) (h : i + 1 < 2 ^ 88) :
    Extracted.stream_incNonce (Stream.nonce i last) = .ok (Stream.nonce (i + 1) last) :=
  GoTie.incNonce_tie i last h

/-- the explicit panic of `incNonce` is exactly the wrap of the 88-bit counter -/
theorem incNonce_wrap (last : Bool) :
    Extracted.stream_incNonce (Stream.nonce (2 ^ 88 - 1) last) = .error (.panic 0) :=
  GoTie.incNonce_wrap last

theorem setLastChunkFlag_tie (i : Nat) (last : Bool) :
    Extracted.stream_setLastChunkFlag (Stream.nonce i last) = .ok (Stream.nonce i true) :=
  GoTie.setLastChunkFlag_tie i last

theorem nonceIsZero_tie (i : Nat) (last : Bool) (h : i < 2 ^ 88) :
    Extracted.stream_nonceIsZero (Stream.nonce i last) = .ok (decide (i = 0 ∧ last = false)) :=
  GoTie.nonceIsZero_tie i last h

end Tie.C02
end AgeModel
