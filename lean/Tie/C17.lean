/-
  Tie/C17 — the only way the module starts a process is the plugin connection
  opener, with a path built from "age-plugin-" and the client's name; only the
  two client methods call it; client values come into being only in the three
  validating constructors and Identity.Recipient; the native packages cannot
  reach it. Facts regenerated from /repo (`Extracted/ExecSites.lean`,
  `Extracted/Consts.lean`).
-/
import AgeModel.Extracted.ExecSites
import AgeModel.Extracted.Consts
import AgeModel.SpecConsts
import Proofs.GoTiePlugName
import Proofs.GoTieCli
import Proofs.GoTieCtors
import Proofs.GoTieExec
import Proofs.GoTieCliModes
namespace AgeModel
namespace Tie.C17

/-- One process-creation site in the whole module (exec.Command*, os.StartProcess,
    syscall.Exec/ForkExec, an exec.Cmd literal): execabs.Command in plugin/client.go,
    whose path argument is `"age-plugin-" + <parameter 0>` (or, under the test-only
    variable, that joined to a directory). `$0` is the function's first parameter,
    `·` the variable itself. -/
theorem exec_sites : Extracted.execSites.map (fun s => (s.1, s.2.2.1, s.2.2.2.2)) = [
    ("plugin/client.go", "execabs.Command",
     "{\"age-plugin-\" + $0 | filepath.Join(testOnlyPluginPath, ·)}")] := by decide

theorem one_opener : Extracted.processOpeners.length = 1 := by decide

/-- the opener is referred to (called, or taken as a value) only by the two client methods … -/
theorem opener_callers : Extracted.openerCallers.map (fun c => (c.1, c.2.1)) = [
    ("plugin/client.go", "(*Identity).Unwrap"),
    ("plugin/client.go", "(*Recipient).WrapWithLabels")] := by decide

/-- … and each of them refers to that one opener -/
theorem opener_callers_target :
    Extracted.openerCallers.all (fun c => Extracted.processOpeners.contains c.2.2) = true := by decide

/-- client values are created (literal, new, zero value) only here -/
theorem client_constructions : Extracted.clientConstructions = [
    ("plugin/client.go", "(*Identity).Recipient", "Recipient", "literal"),
    ("plugin/client.go", "NewIdentity", "Identity", "literal"),
    ("plugin/client.go", "NewIdentityWithoutData", "Identity", "literal"),
    ("plugin/client.go", "NewRecipient", "Recipient", "literal")] := by decide

/-- age, agessh, armor and the internal packages import neither os/exec, execabs,
    syscall, x/sys/unix nor the plugin package -/
theorem native_packages_cannot_exec : Extracted.nativeForbiddenImports = [] := by decide

/-- … and that verdict is not the emptiness of an empty scan: the eleven non-test files of those packages WERE scanned,
    they import what one knows they import (positive controls: `crypto/rand`, `golang.org/x/crypto/ssh`, the internal
    packages), and the forbidden imports RECOMPUTED here from the per-import table the extractor emits are the list
    above -/
theorem native_imports_recomputed :
    (Extracted.nativeImportPairs.map (·.1)).eraseDups =
      ["age.go", "agessh/agessh.go", "agessh/encrypted_keys.go", "armor/armor.go", "internal/bech32/bech32.go",
       "internal/format/format.go", "internal/stream/stream.go", "parse.go", "primitives.go", "scrypt.go", "x25519.go"] ∧
    Extracted.nativeFileImports.map (·.1) = (Extracted.nativeImportPairs.map (·.1)).eraseDups ∧
    (("age.go", "crypto/rand") ∈ Extracted.nativeImportPairs ∧ ("agessh/encrypted_keys.go", "golang.org/x/crypto/ssh") ∈ Extracted.nativeImportPairs ∧
      ("age.go", "filippo.io/age/internal/stream") ∈ Extracted.nativeImportPairs ∧ ("scrypt.go", "golang.org/x/crypto/scrypt") ∈ Extracted.nativeImportPairs) ∧
    Extracted.nativeImportPairs.filter (fun r =>
      ["os/exec", "golang.org/x/sys/execabs", "syscall", "golang.org/x/sys/unix", "plugin", "filippo.io/age/plugin"].contains r.2) =
      Extracted.nativeForbiddenImports := by decide

/-- the name allow-list is the specified one … -/
theorem allowlist_tie : Extracted.pluginNameAllowedBytes = SpecConsts.pluginNameAllowedBytes := by decide

/-- … and contains no path separator ('/' = 47, '\' = 92), no NUL, no space -/
theorem allowlist_no_separator :
    Extracted.pluginNameAllowedBytes.all (fun b => b != 47 && b != 92 && b != 0 && b != 32) = true := by decide


/-! ## The code itself (DESIGN.md §5.3): `plugin.validPluginName`, the one test every construction
    of a plugin client goes through, TRANSLATED from the source on every run, computes the model's
    function for all byte strings (invalid UTF-8 included). (The parsers and encoders built on it
    and on Bech32 are tied in Tie/C09; they are kept out of this file so that a rewrite of the
    Bech32 code does not touch this property's obligations.) -/

theorem validPluginName_tie (n : Bytes) :
    Extracted.plugin_validPluginName n = .ok (Keys.validPluginName n) :=
  GoTie.validPluginName_tie n

/-! The command line's routing (cmd/age/parse.go), translated on every run: for every argument,
which constructor it is handed to. A plugin client is constructed exactly for `-r` arguments that
start with "age1" and contain a second "1", and for identity lines that start with "AGE-PLUGIN-";
handed a plugin constructor that FAULTS when called, `parseRecipient` still returns normally for
every other argument (`cli_native_no_plugin`). -/

theorem cli_parseRecipient_tie {ρ υ : Type} (NR : Bytes → υ → Go.M (ρ × Option Go.Err)) (ui : υ)
    (PX PS : Bytes → Go.M (ρ × Option Go.Err)) (nilρ : ρ) (arg : Bytes) :
    Extracted.main_parseRecipient NR ui PX PS nilρ arg =
      if (Keys.hasPrefix arg Keys.pfxAge1 && decide (Keys.countByte arg 0x31 > 1)) = true then NR arg ui
      else if Keys.hasPrefix arg Keys.pfxAge1 = true then PX arg
      else if Keys.hasPrefix arg Keys.pfxSsh = true then PS arg
      else if Keys.hasPrefix arg Keys.pfxGithub = true then .ok (nilρ, some ⟨"main.gitHubRecipientError", 0, []⟩)
      else .ok (nilρ, some ⟨"main.parseRecipient", 0, []⟩) :=
  GoTie.cli_parseRecipient_tie NR ui PX PS nilρ arg

theorem cli_parseIdentity_tie {ι υ : Type} (NI : Bytes → υ → Go.M (ι × Option Go.Err)) (ui : υ)
    (PX : Bytes → Go.M (ι × Option Go.Err)) (nilι : ι) (s : Bytes) :
    Extracted.main_parseIdentity NI ui PX nilι s =
      if Keys.hasPrefix s Keys.pfxPlugin = true then NI s ui
      else if Keys.hasPrefix s Keys.pfxSecret1 = true then PX s
      else .ok (nilι, some ⟨"main.parseIdentity", 0, []⟩) :=
  GoTie.cli_parseIdentity_tie NI ui PX nilι s

theorem cli_native_no_plugin {ρ υ : Type} (ui : υ) (PX PS : Bytes → Go.M (ρ × Option Go.Err)) (nilρ : ρ) (arg : Bytes)
    (h : (Keys.hasPrefix arg Keys.pfxAge1 && decide (Keys.countByte arg 0x31 > 1)) = false) :
    Extracted.main_parseRecipient (fun _ _ => .error (.panic 99)) ui PX PS nilρ arg =
      if Keys.hasPrefix arg Keys.pfxAge1 = true then PX arg
      else if Keys.hasPrefix arg Keys.pfxSsh = true then PS arg
      else if Keys.hasPrefix arg Keys.pfxGithub = true then .ok (nilρ, some ⟨"main.gitHubRecipientError", 0, []⟩)
      else .ok (nilρ, some ⟨"main.parseRecipient", 0, []⟩) :=
  GoTie.cli_native_no_plugin ui PX PS nilρ arg h

/-! Every construction of a plugin client (plugin/client.go), translated on every run: it goes
through `ParseRecipient` / `ParseIdentity` / `EncodeIdentity` — hence through the name check — and
keeps the string it was given; these are the model's `newRecipient`, `newIdentity`,
`newIdentityWithoutData` that `constructors_validate` / `constructors_no_separator` are about. -/

theorem newRecipient_tie {υ : Type} (nilυ ui : υ) (s : Bytes) :
    Extracted.plugin_NewRecipient nilυ s ui = .ok (match Keys.newRecipient s with
      | .ok c => (⟨c.name, c.encoding, ui, false⟩, none)
      | .error e => (⟨[], [], nilυ, false⟩, GoTie.parseRcErr e)) :=
  GoTie.newRecipient_tie nilυ ui s

theorem newIdentity_tie {υ : Type} (nilυ ui : υ) (s : Bytes) :
    Extracted.plugin_NewIdentity nilυ s ui = .ok (match Keys.newIdentity s with
      | .ok c => (⟨c.name, c.encoding, ui⟩, none)
      | .error e => (⟨[], [], nilυ⟩, GoTie.parseIdErr e)) :=
  GoTie.newIdentity_tie nilυ ui s

theorem newIdentityWithoutData_tie {υ : Type} (nilυ ui : υ) (name : Bytes) :
    Extracted.plugin_NewIdentityWithoutData nilυ name ui = .ok (match Keys.newIdentityWithoutData name with
      | .ok c => (⟨c.name, c.encoding, ui⟩, none)
      | .error _ => (⟨[], [], nilυ⟩, some ⟨"plugin.NewIdentityWithoutData", 0, []⟩)) :=
  GoTie.newIdentityWithoutData_tie nilυ ui name

/-! Which program is started (`openClientConnection`, plugin/client.go), translated up to the
`exec.Command` call: `age-plugin-NAME --age-plugin=PROTOCOL` for a name without '/', nothing at all
otherwise — the model's `openClientCommand`. -/

theorem exec_tie {κ χ : Type} (J : List Bytes → Go.M Bytes) (nilχ : χ) (Cmd : Bytes → List Bytes → Go.M χ)
    (SP : χ → Go.M (κ × Option Go.Err)) (name proto : Bytes) :
    Extracted.plugin_openClientConnection J nilχ Cmd SP name proto =
      match Keys.openClientCommand ⟨name, []⟩ with
      | .error _ => .ok (nilχ, some ⟨"plugin.openClientConnection", 0, []⟩)
      | .ok path => (do
          let cmd ← Cmd path [([45, 45, 97, 103, 101, 45, 112, 108, 117, 103, 105, 110, 61] : Bytes) ++ proto]
          let t ← SP cmd
          pure (cmd, t.2)) :=
  GoTie.exec_tie J nilχ Cmd SP name proto

theorem exec_refuses_separator_src {κ χ : Type} (J : List Bytes → Go.M Bytes) (nilχ : χ)
    (SP : χ → Go.M (κ × Option Go.Err)) (name proto : Bytes) (h : name.contains (0x2f : UInt8) = true) :
    Extracted.plugin_openClientConnection J nilχ (fun _ _ => .error (.panic 99)) SP name proto =
      .ok (nilχ, some ⟨"plugin.openClientConnection", 0, []⟩) :=
  GoTie.exec_refuses_separator J nilχ SP name proto h

/-! `age -d -i … -j …` (`decryptNotPass` of cmd/age/age.go, translated on every run): the ONLY thing done
with a `-j` value is `plugin.NewIdentityWithoutData(value, ui)` — whose name check is tied above — and a
failure to initialise it ends the process before `decrypt` (and with it any plugin) is started; the
identities reach `decrypt` in the order of the flags. -/

theorem decryptNotPass_tie {ζ ι τ υ : Type} (reject : ι) (PIF : Bytes → τ → Go.M (List ι × Option Go.Err × τ)) (ui : υ)
    (NI : Bytes → υ → τ → Go.M (ι × Option Go.Err × τ)) (D : List ι → Bytes → ζ → τ → Go.M τ)
    (flags : List Extracted.main_identityFlag) (inp : Bytes) (out : ζ) (t0 : τ) :
    Extracted.main_decryptNotPass reject PIF ui NI D flags inp out t0 =
      (do let r ← GoTie.collectIds PIF ui NI flags t0 [reject]
          D r.2 inp out r.1) :=
  GoTie.decryptNotPass_tie reject PIF ui NI D flags inp out t0

/-! `age -e -r … -R … -i … -j …` (`encryptNotPass`, translated on every run; the test of the error's concrete type
`gitHubRecipientError` is a test of the name such errors carry): again the ONLY thing done with a `-j` value is
`plugin.NewIdentityWithoutData(value, ui)`, followed by `.Recipient()`; the recipients reach `encrypt` in the order
`-r`, `-R`, `-i`/`-j`; any failure ends the process before `encrypt` (and any plugin) is started. -/

theorem encryptNotPass_tie {ζ ι ρ τ υ : Type} (PR : Bytes → τ → Go.M (ρ × Option Go.Err × τ))
    (PRF : Bytes → τ → Go.M (List ρ × Option Go.Err × τ)) (PIF : Bytes → τ → Go.M (List ι × Option Go.Err × τ))
    (I2R : List ι → τ → Go.M (List ρ × Option Go.Err × τ)) (ui : υ) (NI : Bytes → υ → τ → Go.M (ι × Option Go.Err × τ))
    (IR : ι → τ → Go.M (ρ × τ)) (E : List ρ → Bytes → ζ → Bool → τ → Go.M τ)
    (recs files : List Bytes) (flags : List Extracted.main_identityFlag) (inp : Bytes) (out : ζ) (armor : Bool) (t0 : τ) :
    Extracted.main_encryptNotPass PR PRF PIF I2R ui NI IR E recs files flags inp out armor t0 =
      (do let a ← GoTie.collectR PR recs t0 []
          let b ← GoTie.collectRF PRF files a.1 a.2
          let c ← GoTie.collectIR PIF I2R ui NI IR flags b.1 b.2
          E c.2 inp out armor c.1) :=
  GoTie.encryptNotPass_tie PR PRF PIF I2R ui NI IR E recs files flags inp out armor t0

end Tie.C17
end AgeModel
