/-
  Tie/C09 — the constants the Bech32 model has inlined (character set, the five
  generator constants of the checksum, in index order) are the ones in
  /repo/internal/bech32/bech32.go now (`Extracted/Consts.lean`, regenerated on
  every run).  The code-distance theorem `no_low_weight_codeword` is a statement
  about exactly these constants.
-/
import AgeModel.Bech32
import AgeModel.Extracted.Consts
namespace AgeModel
namespace Tie.C09
open Bech32

/-- the checksum step written over an explicit generator table, as the Go loop is -/
def polymodStepG (g : List Nat) (chk : Nat) (v : UInt8) : Nat :=
  let top := chk >>> 25
  let c0 := ((chk &&& 0x1ffffff) <<< 5) ^^^ v.toNat
  [0, 1, 2, 3, 4].foldl (fun c i => feed top i (g.getD i 0) c) c0

theorem charset_tie : charset.map UInt8.toNat = Extracted.bech32CharsetBytes := by decide

theorem generator_length : Extracted.bech32Generator.length = 5 := by decide

/-- the model's unrolled checksum step IS the loop over the extracted generator table -/
theorem generator_tie (chk : Nat) (v : UInt8) : polymodStep chk v = polymodStepG Extracted.bech32Generator chk v := by
  rfl

end Tie.C09
end AgeModel
