/-
  Tie/C09 — the constants the Bech32 model has inlined (character set, the five
  generator constants of the checksum, in index order) are the ones in
  /repo/internal/bech32/bech32.go now (`Extracted/Consts.lean`, regenerated on
  every run).  The code-distance theorem `no_low_weight_codeword` is a statement
  about exactly these constants.
-/
import AgeModel.Bech32
import AgeModel.Extracted.Consts
import Proofs.GoTieCodec
import Proofs.GoTiePluginCodec
import Proofs.GoTieKeys
import Props.C09
namespace AgeModel
namespace Tie.C09
open Bech32

/-- the checksum step written over an explicit generator table, as the Go loop is -/
def polymodStepG (g : List Nat) (chk : Nat) (v : UInt8) : Nat :=
  let top := chk >>> 25
  let c0 := ((chk &&& 0x1ffffff) <<< 5) ^^^ v.toNat
  [0, 1, 2, 3, 4].foldl (fun c i => feed top i (g.getD i 0) c) c0

theorem charset_tie : charset.map UInt8.toNat = Extracted.bech32CharsetBytes := by decide

theorem generator_length : Extracted.bech32Generator.length = 5 := by decide

/-- the model's unrolled checksum step IS the loop over the extracted generator table -/
theorem generator_tie (chk : Nat) (v : UInt8) : polymodStep chk v = polymodStepG Extracted.bech32Generator chk v := by
  rfl


/-! ## The code itself (DESIGN.md §5.3)

`Extracted/Funcs.lean` is a statement-by-statement TRANSLATION of
internal/bech32/bech32.go and plugin/encode.go, regenerated from /repo on every
run. The theorems below say that, for ALL inputs, what that code computes is
what the hand-written model computes — so every theorem of Props/C09 about
`Bech32.decode`, `Bech32.encode`, `Keys.parse*`, `Keys.encode*` is a theorem about
the functions as they stand in the source now. -/

open Extracted in
theorem polymod_tie (vs : Bytes) : bech32_polymod vs = .ok (UInt32.ofNat (Bech32.polymod vs)) :=
  GoTie.polymod_tie vs

open Extracted in
theorem createChecksum_tie (hrp data : Bytes) (h : Go.isAscii hrp = true) :
    bech32_createChecksum hrp data = .ok (Bech32.createChecksum hrp data) :=
  GoTie.createChecksum_tie hrp data h

open Extracted in
theorem verifyChecksum_tie (hrp data : Bytes) (h : Go.isAscii hrp = true) :
    bech32_verifyChecksum hrp data = .ok (Bech32.verifyChecksum hrp data) :=
  GoTie.verifyChecksum_tie hrp data h

open Extracted in
theorem convertBits_tie_8_5 (data : Bytes) :
    bech32_convertBits data 8 5 true = GoTie.cbRes (Bech32.convertBits data 8 5 true) :=
  GoTie.convertBits_tie_8_5 data

open Extracted in
theorem convertBits_tie_5_8 (data : Bytes) :
    bech32_convertBits data 5 8 false = GoTie.cbRes (Bech32.convertBits data 5 8 false) :=
  GoTie.convertBits_tie_5_8 data

/-- `bech32.Decode`, for EVERY byte string (non-ASCII and invalid UTF-8 included):
    the model's result, value or error class -/
theorem decode_tie (s : Bytes) :
    Extracted.bech32_Decode s = .ok (match Bech32.decode s with
      | .ok (h, d) => (h, d, none)
      | .error e => ([], [], GoTie.decErr e)) :=
  GoTie.decode_tie s

/-- `bech32.Encode`; in particular it never faults (the `charset[p]` index is always in range) -/
theorem encode_tie (hrp data : Bytes) :
    Extracted.bech32_Encode hrp data = .ok (match Bech32.encode hrp data with
      | .ok s => (s, none)
      | .error e => ([], GoTie.encErr e)) :=
  GoTie.encode_tie hrp data

theorem encodeIdentity_tie (name data : Bytes) :
    Extracted.plugin_EncodeIdentity name data = .ok (Keys.encodeIdentity name data) :=
  GoTie.encodeIdentity_tie name data

theorem encodeRecipient_tie (name data : Bytes) :
    Extracted.plugin_EncodeRecipient name data = .ok (Keys.encodeRecipient name data) :=
  GoTie.encodeRecipient_tie name data

theorem parseIdentity_tie (s : Bytes) :
    Extracted.plugin_ParseIdentity s = .ok (match Keys.parseIdentity s with
      | .ok (n, d) => (n, d, none)
      | .error e => ([], [], GoTie.parseIdErr e)) :=
  GoTie.parseIdentity_tie s

theorem parseRecipient_tie (s : Bytes) :
    Extracted.plugin_ParseRecipient s = .ok (match Keys.parseRecipient s with
      | .ok (n, d) => (n, d, none)
      | .error e => ([], [], GoTie.parseRcErr e)) :=
  GoTie.parseRecipient_tie s

/-! The native key strings themselves (x25519.go), translated on every run on top of the translated
`bech32.Decode` / `Encode`: for every byte string they compute the model's `Keys.parseX25519Recipient`,
`parseX25519Identity`, `recipientString`, `identityString` — the functions the round-trip,
canonicity and rejection theorems of `Props.C09` are about. -/

theorem parseX25519Recipient_tie (s : Bytes) :
    ∃ res, Extracted.age_ParseX25519Recipient s = .ok res ∧
      match Keys.parseX25519Recipient s with
      | .ok k => res = (⟨k⟩, none)
      | .error _ => res.1 = ⟨[]⟩ ∧ res.2 ≠ none :=
  GoTie.parseX25519Recipient_tie s

theorem recipientString_tie (k : Bytes) :
    Extracted.age_X25519Recipient_String ⟨k⟩ = .ok (Keys.recipientString k) :=
  GoTie.recipientString_tie k

theorem parseX25519Identity_tie (X : Bytes → Bytes → Go.M (Bytes × Option Go.Err)) (bp : Bytes)
    (hX : ∀ a b, ∃ r, X a b = .ok r) (s : Bytes) :
    ∃ res, Extracted.age_ParseX25519Identity X bp s = .ok res ∧
      match Keys.parseX25519Identity s with
      | .ok k => res.2 = none ∧ res.1.secretKey = k ∧ ∃ e, X k bp = .ok (res.1.ourPublicKey, e)
      | .error _ => res.1 = ⟨[], []⟩ ∧ res.2 ≠ none :=
  GoTie.parseX25519Identity_tie X bp hX s

theorem identityString_tie (k pub : Bytes) :
    Extracted.age_X25519Identity_String ⟨k, pub⟩ = .ok (Keys.identityString k) :=
  GoTie.identityString_tie k pub

/-! ### The round trip, stated about the CODE

The string ties composed with `Props.C09.x25519_recipient_roundtrip`: for EVERY 32-byte key, what the translated
`(*X25519Recipient).String` prints is parsed by the translated `ParseX25519Recipient` back to that key. -/

theorem code_recipient_roundtrip (k : Bytes) (hk : k.length = 32) :
    ∃ s, Extracted.age_X25519Recipient_String ⟨k⟩ = .ok s ∧ Extracted.age_ParseX25519Recipient s = .ok (⟨k⟩, none) := by
  refine ⟨Keys.recipientString k, recipientString_tie k, ?_⟩
  obtain ⟨res, hrun, hres⟩ := parseX25519Recipient_tie (Keys.recipientString k)
  rw [Props.C09.x25519_recipient_roundtrip k hk] at hres
  rw [hrun, hres]

end Tie.C09
end AgeModel
