/-
  Tie/C05 — the wire-format constants of the Go code are the constants of the
  age v1 specification as the model states them.

  `AgeModel/Extracted/Consts.lean` is regenerated from /repo by every ./check;
  the expectations below are written by hand. A label, a size, a stanza type
  name, an scrypt parameter, the chunk size or the nonce layout changed in the
  code — even consistently on the encrypting and the decrypting side — breaks
  one of these theorems.

  Limits that are not wire format (`maxWhitespace`, the key-file size limits,
  the default work factors) are model parameters and deliberately not pinned.
-/
import AgeModel.Extracted.Consts
import AgeModel.SpecConsts
import AgeModel.Concrete
import AgeModel.File
import Proofs.GoTieNative
import Proofs.GoTiePrims
import Proofs.GoTieSshRsa
import Proofs.GoTieScryptCtor
import Proofs.GoTieMarshal
import Proofs.GoTieSmall
import Proofs.GoTieAead
import Proofs.GoTieWitnessA
import Proofs.GoTieWitnessB
namespace AgeModel
namespace Tie.C05
open SpecConsts

/-! ### the specification constants: String form and byte form agree -/

theorem spec_bytes_consistent :
    codes intro = introBytes ∧ codes stanzaPrefix = stanzaPrefixBytes ∧ codes footerPrefix = footerPrefixBytes ∧
    codes hkdfInfoHeader = hkdfInfoHeaderBytes ∧ codes hkdfInfoPayload = hkdfInfoPayloadBytes ∧
    codes stanzaTypeX25519 = stanzaTypeX25519Bytes ∧ codes stanzaTypeScrypt = stanzaTypeScryptBytes ∧
    codes stanzaTypeSshRsa = stanzaTypeSshRsaBytes ∧ codes stanzaTypeSshEd25519 = stanzaTypeSshEd25519Bytes ∧
    codes SpecConsts.x25519Label = x25519LabelBytes ∧ codes SpecConsts.scryptLabel = scryptLabelBytes ∧
    codes sshRsaLabel = sshRsaLabelBytes ∧ codes sshEd25519Label = sshEd25519LabelBytes ∧
    codes workFactorSyntax = workFactorSyntaxBytes ∧
    codes armorHeader = armorHeaderBytes ∧ codes armorFooter = armorFooterBytes ∧
    codes bech32Charset = bech32CharsetBytes ∧ codes pluginNameAllowed = pluginNameAllowedBytes := by
  decide

/-- the same for the regenerated constants (a check on the extractor's byte rendering) -/
theorem extracted_bytes_consistent :
    codes Extracted.intro = Extracted.introBytes ∧ codes Extracted.stanzaPrefix = Extracted.stanzaPrefixBytes ∧
    codes Extracted.footerPrefix = Extracted.footerPrefixBytes ∧
    codes Extracted.x25519Label = Extracted.x25519LabelBytes ∧ codes Extracted.scryptLabel = Extracted.scryptLabelBytes ∧
    codes Extracted.oaepLabel = Extracted.oaepLabelBytes ∧ codes Extracted.ed25519Label = Extracted.ed25519LabelBytes ∧
    codes Extracted.hkdfInfoHeader = Extracted.hkdfInfoHeaderBytes ∧
    codes Extracted.hkdfInfoPayload = Extracted.hkdfInfoPayloadBytes := by
  decide

/-! ### the model's execution parameters are the specification's -/

theorem model_chunkSize : AgeModel.chunkSize = SpecConsts.chunkSize := by decide
theorem model_ctrLimit : AgeModel.ctrLimit = SpecConsts.ctrLimit := by decide
theorem model_tag : AgeModel.chacha.T = SpecConsts.tagSize := by decide

/-! ### payload (internal/stream) -/

theorem chunkSize_tie : Extracted.chunkSize = SpecConsts.chunkSize := by decide
theorem chunkSize_model_tie : Extracted.chunkSize = AgeModel.chunkSize := by decide
theorem encChunkSize_tie : Extracted.encChunkSize = SpecConsts.encChunkSize := by decide
theorem tagSize_tie : Extracted.encChunkOverhead = SpecConsts.tagSize := by decide
theorem nonceSize_tie : Extracted.nonceSize = SpecConsts.nonceSize := by decide
theorem lastChunkFlag_tie : Extracted.lastChunkFlag = SpecConsts.lastChunkFlag := by decide
/-- the counter occupies all nonce bytes but the flag byte, so it wraps at 2^(8·11) = 2^88 -/
theorem ctrLimit_tie : 2 ^ (8 * (Extracted.nonceSize - 1)) = AgeModel.ctrLimit := by decide
theorem streamNonceSize_tie : Extracted.streamNonceSize = SpecConsts.streamNonceSize := by decide
theorem fileKeySize_tie : Extracted.fileKeySize = SpecConsts.fileKeySize := by decide

/-! ### header (internal/format) -/

theorem intro_tie : Extracted.introBytes = SpecConsts.introBytes := by decide
theorem intro_string_tie : Extracted.intro = SpecConsts.intro := by decide
theorem stanzaPrefix_tie : Extracted.stanzaPrefixBytes = SpecConsts.stanzaPrefixBytes := by decide
theorem footerPrefix_tie : Extracted.footerPrefixBytes = SpecConsts.footerPrefixBytes := by decide
theorem columnsPerLine_tie : Extracted.columnsPerLine = SpecConsts.columnsPerLine := by decide
theorem bytesPerLine_tie : Extracted.bytesPerLine = SpecConsts.bytesPerLine := by decide
theorem hkdfInfoHeader_tie : Extracted.hkdfInfoHeaderBytes = SpecConsts.hkdfInfoHeaderBytes := by decide
theorem hkdfInfoPayload_tie : Extracted.hkdfInfoPayloadBytes = SpecConsts.hkdfInfoPayloadBytes := by decide

/-! ### recipient types -/

theorem x25519Label_tie : Extracted.x25519LabelBytes = SpecConsts.x25519LabelBytes := by decide
theorem scryptLabel_tie : Extracted.scryptLabelBytes = SpecConsts.scryptLabelBytes := by decide
theorem oaepLabel_tie : Extracted.oaepLabelBytes = SpecConsts.sshRsaLabelBytes := by decide
theorem ed25519Label_tie : Extracted.ed25519LabelBytes = SpecConsts.sshEd25519LabelBytes := by decide

/-- Every place the code turns an "age-encryption.org/…" label into bytes, on the
    wrapping AND on the unwrapping side, with the primitive it is handed to: per source
    file, which primitive receives which label (the enclosing function is not pinned, so
    moving a derivation into a helper of the same file is not a change). -/
def expectedLabelUses : List (String × String × String) := [
    ("agessh/agessh.go", "hkdf.New", SpecConsts.sshEd25519Label),
    ("agessh/agessh.go", "rsa.DecryptOAEP", SpecConsts.sshRsaLabel),
    ("agessh/agessh.go", "rsa.EncryptOAEP", SpecConsts.sshRsaLabel),
    ("scrypt.go", "append", SpecConsts.scryptLabel),
    ("x25519.go", "hkdf.New", SpecConsts.x25519Label)]

/-- as SETS: every use found in the source is an expected one, and every expected one occurs -/
theorem labelSites_tie :
    (Extracted.labelSites.map (fun s => (s.1, s.2.2.1, s.2.2.2))).all (fun u => expectedLabelUses.contains u) = true ∧
    expectedLabelUses.all (fun u => (Extracted.labelSites.map (fun s => (s.1, s.2.2.1, s.2.2.2))).contains u) = true := by decide

theorem stanzaTypes_tie :
    [Extracted.stanzaTypeX25519Bytes, Extracted.stanzaTypeScryptBytes, Extracted.stanzaTypeSshRsaBytes,
     Extracted.stanzaTypeSshEd25519Bytes] =
    [SpecConsts.stanzaTypeX25519Bytes, SpecConsts.stanzaTypeScryptBytes, SpecConsts.stanzaTypeSshRsaBytes,
     SpecConsts.stanzaTypeSshEd25519Bytes] := by decide

/-- the type names the identities test for are the ones the recipients write -/
theorem stanzaTypeChecks_tie : Extracted.stanzaTypeChecks = [
    ("age.(*ScryptIdentity).Unwrap", "==", SpecConsts.stanzaTypeScrypt),
    ("age.(*ScryptIdentity).unwrap", "!=", SpecConsts.stanzaTypeScrypt),
    ("age.(*X25519Identity).unwrap", "!=", SpecConsts.stanzaTypeX25519),
    ("agessh.(*Ed25519Identity).unwrap", "!=", SpecConsts.stanzaTypeSshEd25519),
    ("agessh.(*RSAIdentity).unwrap", "!=", SpecConsts.stanzaTypeSshRsa)] := by decide

theorem scryptSaltSize_tie : Extracted.scryptSaltSize = SpecConsts.scryptSaltSize := by decide

/-- both scrypt.Key calls: N = 1 << logN, r = 8, p = 1, 32-byte key -/
theorem scryptKeyCalls_tie : Extracted.scryptKeyCalls = [
    ("age.(*ScryptIdentity).unwrap", "1 << <var>", SpecConsts.scryptR, SpecConsts.scryptP, SpecConsts.scryptKeyLen),
    ("age.(*ScryptRecipient).Wrap", "1 << <var>", SpecConsts.scryptR, SpecConsts.scryptP, SpecConsts.scryptKeyLen)] := by
  decide

theorem workFactorSyntax_tie : Extracted.digitsReBytes = SpecConsts.workFactorSyntaxBytes := by decide

/-! ### armor, Bech32 -/

theorem armorHeader_tie : Extracted.armorHeaderBytes = SpecConsts.armorHeaderBytes := by decide
theorem armorFooter_tie : Extracted.armorFooterBytes = SpecConsts.armorFooterBytes := by decide
theorem bech32Charset_tie : Extracted.bech32CharsetBytes = SpecConsts.bech32CharsetBytes := by decide
theorem bech32Generator_tie : Extracted.bech32Generator = SpecConsts.bech32Generator := by decide

/-! ### the byte-list constants the model's definitions use are the specification's -/

/-- every format constant the Lean model (Format / Recipients / File) is written
    with equals the specification constant that the regenerated source constant
    was just tied to — so a theorem about the model is a theorem about these values -/
theorem model_constants :
    Format.intro.map UInt8.toNat = SpecConsts.introBytes ∧
    Format.stanzaPrefix.map UInt8.toNat = SpecConsts.stanzaPrefixBytes ∧
    Format.footerPrefix.map UInt8.toNat = SpecConsts.footerPrefixBytes ∧
    Format.columnsPerLine = SpecConsts.columnsPerLine ∧ Format.bytesPerLine = SpecConsts.bytesPerLine ∧
    AgeModel.x25519Label.map UInt8.toNat = SpecConsts.x25519LabelBytes ∧
    AgeModel.scryptLabel.map UInt8.toNat = SpecConsts.scryptLabelBytes ∧
    AgeModel.oaepLabel.map UInt8.toNat = SpecConsts.sshRsaLabelBytes ∧
    AgeModel.ed25519Label.map UInt8.toNat = SpecConsts.sshEd25519LabelBytes ∧
    AgeModel.tX25519.map UInt8.toNat = SpecConsts.stanzaTypeX25519Bytes ∧
    AgeModel.tScrypt.map UInt8.toNat = SpecConsts.stanzaTypeScryptBytes ∧
    AgeModel.tSshRsa.map UInt8.toNat = SpecConsts.stanzaTypeSshRsaBytes ∧
    AgeModel.tSshEd.map UInt8.toNat = SpecConsts.stanzaTypeSshEd25519Bytes ∧
    AgeModel.headerInfo.map UInt8.toNat = SpecConsts.hkdfInfoHeaderBytes ∧
    AgeModel.payloadInfo.map UInt8.toNat = SpecConsts.hkdfInfoPayloadBytes ∧
    AgeModel.fileKeySize = SpecConsts.fileKeySize ∧ AgeModel.streamNonceSize = SpecConsts.streamNonceSize ∧
    AgeModel.scryptSaltSize = SpecConsts.scryptSaltSize := by
  decide

/-! ## The code itself: the native stanzas (DESIGN.md §5.3)

`(*X25519Recipient).Wrap`, `(*ScryptRecipient).Wrap` and `.WrapWithLabels` are TRANSLATED from
x25519.go / scrypt.go on every run; the primitives (`curve25519.X25519`, HKDF-SHA256, `scrypt.Key`,
`aeadEncrypt`, base64, `crypto/rand` as a tape) are parameters, bundled with what is assumed of them
in `GoTie.NativeEnv`. The stanza the source writes — type, arguments, salt layout
`ephemeral share ‖ recipient`, info label, `label ‖ salt` and `N = 2^logN, r = 8, p = 1` for scrypt,
the work factor in decimal, what is drawn from the random source and in which order — is the
stanza of the model (`wrapOne`, `wrapX25519`, `wrapScrypt`), whose bytes `Props.C05` compares
with the specification. -/

theorem x25519_wrap_tie (P : Prims) {κ : Type} (E : GoTie.NativeEnv P κ) (pub fk tape : Bytes) :
    ∃ res, Extracted.age_X25519Recipient_Wrap (GoTie.tapeRead E.eRand) E.X P.basepoint E.Enc E.H E.R E.Seal ⟨pub⟩ fk tape = .ok res ∧
      match wrapOne P (.x25519 pub) fk tape with
      | .error () => res = ([], some E.eRand, tape)
      | .ok (some (ss, ls), t) => res = (ss.map GoTie.toGoStanza, none, t) ∧ ls = []
      | .ok (none, t) => res = ([], some E.eX, t) :=
  GoTie.x25519_wrap_tie P E pub fk tape

theorem scrypt_wrap_tie (P : Prims) {κ : Type} (E : GoTie.NativeEnv P κ) (pw : Bytes) (logN : Nat) (hN : logN < 63) (fk tape : Bytes) :
    ∃ res, Extracted.age_ScryptRecipient_Wrap (GoTie.tapeRead E.eRand) E.Enc E.K E.Seal ⟨pw, Int.ofNat logN⟩ fk tape = .ok res ∧
      match draw scryptSaltSize tape with
      | none => res = ([], some E.eRand, tape)
      | some (salt, t) => res = ([GoTie.toGoStanza (wrapScrypt P pw logN salt fk)], none, t) :=
  GoTie.scrypt_wrap_tie P E pw logN hN fk tape

theorem scrypt_wrapWithLabels_tie (P : Prims) {κ : Type} (E : GoTie.NativeEnv P κ) (pw : Bytes) (logN : Nat) (hN : logN < 63) (fk tape : Bytes) :
    ∃ res, Extracted.age_ScryptRecipient_WrapWithLabels (GoTie.tapeRead E.eRand) E.Enc E.K E.Seal ⟨pw, Int.ofNat logN⟩ fk tape = .ok res ∧
      match wrapOne P (.scrypt pw logN) fk tape with
      | .error () => res.1 = [] ∧ res.2.1 = [] ∧ res.2.2.1 = some E.eRand
      | .ok (some (ss, ls), t) => res = (ss.map GoTie.toGoStanza, ls, none, t)
      | .ok (none, _) => False :=
  GoTie.scrypt_wrapWithLabels_tie P E pw logN hN fk tape

/-! `age.headerMAC` and `age.streamKey` (primitives.go), translated on every run; HKDF, HMAC and
`MarshalWithoutMAC` are parameters (`GoTie.MacEnv`): the MAC key is HKDF(file key, no salt, "header"),
the MAC covers the header serialised without its MAC, the payload key is
HKDF(file key, salt = nonce, "payload") — the model's `headerMAC` and `streamKey`. -/

theorem headerMAC_tie (P : Prims) {κ η : Type} (E : GoTie.MacEnv P κ η) (fk : Bytes) (ss : List Format.Stanza) :
    Extracted.age_headerMAC E.H E.R E.N E.M E.S fk ⟨ss.map GoTie.toGoFStanza, []⟩ = .ok (headerMAC P fk ss, none) :=
  GoTie.headerMAC_model P E fk ss

theorem streamKey_tie (P : Prims) {κ η : Type} (E : GoTie.MacEnv P κ η) (fk nonce : Bytes) :
    Extracted.age_streamKey E.H E.R fk nonce = .ok (streamKey P fk nonce) :=
  GoTie.streamKey_tie P E fk nonce

/-! The SSH recipients (agessh/agessh.go), translated on every run: the ssh-ed25519 stanza — tag,
ephemeral share, tweak = HKDF(no secret, salt = the key's wire form, label), the tweaked shared
secret (error of the second scalar multiplication dropped, as in the source), HKDF salt = ephemeral
share ‖ recipient point — and the ssh-rsa stanza — the tag as the only argument, OAEP-SHA256 under
the label — are the model's `wrapSshEd` / `wrapSshRsa` (`GoTie.SshEnv`, `GoTie.RsaEnv` state what
is assumed of the primitives, of `ssh.PublicKey.Marshal` and of `sshFingerprint`). -/

theorem sshEd_wrap_tie (P : Prims) {κ π : Type} (E : GoTie.SshEnv P κ π) (key : π) (mont fk tape : Bytes) :
    ∃ res, Extracted.agessh_Ed25519Recipient_Wrap (GoTie.tapeRead E.eRand) E.X P.basepoint E.H E.Mar E.R E.Fp E.Enc E.Seal ⟨key, mont⟩ fk tape = .ok res ∧
      match wrapOne P (.sshEd (E.wire key) mont) fk tape with
      | .error () => res = ([], some E.eRand, tape)
      | .ok (some (ss, ls), t) => res = (ss.map GoTie.toGoStanza, none, t) ∧ ls = []
      | .ok (none, t) => res = ([], some E.eX, t) :=
  GoTie.sshEd_wrap_tie P E key mont fk tape

theorem sshRsa_wrap_tie (P : Prims) {π β γ : Type} (E : GoTie.RsaEnv P π β γ) (key : π) (pub : β) (fk tape : Bytes) :
    ∃ res, Extracted.agessh_RSARecipient_Wrap E.Fp E.EncO ⟨key, pub⟩ fk tape = .ok res ∧
      match wrapOne P (.sshRsa (E.wire key) (E.pubOf pub)) fk tape with
      | .error () => res = ([], some E.eRand, tape)
      | .ok (some (ss, ls), t) => res = (ss.map GoTie.toGoStanza, none, t) ∧ ls = []
      | .ok (none, t) => res = ([], some E.eEnc, t) :=
  GoTie.sshRsa_wrap_tie P E key pub fk tape

/-- the passphrase that reaches scrypt is the string the caller gave, byte for byte -/
theorem newScryptRecipient_tie (pw : Bytes) :
    Extracted.age_NewScryptRecipient pw =
      .ok (if pw = [] then (⟨[], 0⟩, some ⟨"age.NewScryptRecipient", 0, []⟩) else (⟨pw, 18⟩, none)) :=
  GoTie.newScryptRecipient_tie pw

theorem newScryptIdentity_tie (pw : Bytes) :
    Extracted.age_NewScryptIdentity pw =
      .ok (if pw = [] then (⟨[], 0⟩, some ⟨"age.NewScryptIdentity", 0, []⟩) else (⟨pw, 22⟩, none)) :=
  GoTie.newScryptIdentity_tie pw

/-! The header serialiser (internal/format/format.go: `Stanza.Marshal`, `Header.MarshalWithoutMAC`,
`Header.Marshal`), translated on every run with the destination and the wrapped base64 encoder as
abstract state (`GoTie.MarshalEnv`: the destination takes every write; a body written to the
encoder comes out as unpadded base64 in 64-column lines): what reaches the destination is the
model's `marshalStanza` / `marshalNoMAC` / `marshal`, byte for byte. -/

theorem stanza_marshal_tie {δ ε ω : Type} (E : GoTie.MarshalEnv δ ε ω) (s : Format.Stanza) (d : δ) :
    ∃ d', Extracted.format_Stanza_Marshal E.W E.b64 E.New E.Wr E.Cl (GoTie.toGoFStanza s) d = .ok (none, d') ∧
      E.absD d' = E.absD d ++ Format.marshalStanza s :=
  GoTie.stanza_marshal_tie E s d

theorem header_marshalNoMAC_tie {δ ε ω : Type} (E : GoTie.MarshalEnv δ ε ω) (h : Format.Header) (d : δ) :
    ∃ d', Extracted.format_Header_MarshalWithoutMAC E.W E.b64 E.New E.Wr E.Cl ⟨h.stanzas.map GoTie.toGoFStanza, h.mac⟩ d = .ok (none, d') ∧
      E.absD d' = E.absD d ++ Format.marshalNoMAC h :=
  GoTie.header_marshalNoMAC_tie E h d

theorem header_marshal_tie {δ ε ω : Type} (E : GoTie.MarshalEnv δ ε ω) (h : Format.Header) (d : δ) :
    ∃ d', Extracted.format_Header_Marshal E.W E.b64 E.New E.Wr E.Cl E.Enc ⟨h.stanzas.map GoTie.toGoFStanza, h.mac⟩ d = .ok (none, d') ∧
      E.absD d' = E.absD d ++ Format.marshal h :=
  GoTie.header_marshal_tie E h d

/-- `agessh.sshFingerprint`, translated: the tag written on (and compared with) SSH stanzas is the
    first four bytes of SHA-256 of the key's wire form in unpadded base64 — the model's `sshTag` -/
theorem sshFingerprint_tie {π : Type} (P : Prims) (wire : π → Bytes)
    (Sum : Bytes → Go.M Bytes) (hSum : ∀ b, Sum b = .ok (P.sha256 b)) (hLen : ∀ b, (P.sha256 b).length = 32)
    (Mar : π → Go.M Bytes) (hMar : ∀ k, Mar k = .ok (wire k))
    (Enc : Bytes → Go.M Bytes) (hEnc : ∀ b, Enc b = .ok (B64.encRaw b)) (k : π) :
    Extracted.agessh_sshFingerprint Sum Mar Enc k = .ok (sshTag P (wire k)) :=
  GoTie.sshFingerprint_tie P wire Sum hSum hLen Mar hMar Enc hEnc k

/-! The body of every native and SSH-Ed25519 stanza: `aeadEncrypt` (package age and agessh),
translated with ChaCha20-Poly1305 abstract — the file key sealed under the wrapping key with twelve
zero bytes as nonce and no additional data, as the format prescribes. -/

theorem aeadEncrypt_tie {α : Type} {P : Prims} (E : GoTie.WrapAeadEnv α P) (k pt : Bytes) (hk : k.length = 32) :
    Extracted.age_aeadEncrypt E.New E.seal_ k pt = .ok (P.wrapSeal k pt, none) :=
  GoTie.aeadEncrypt_tie E k pt hk

theorem ssh_aeadEncrypt_tie {α : Type} {P : Prims} (E : GoTie.WrapAeadEnv α P) (k pt : Bytes) (hk : k.length = 32) :
    Extracted.agessh_aeadEncrypt E.New E.seal_ k pt = .ok (P.wrapSeal k pt, none) :=
  GoTie.ssh_aeadEncrypt_tie E k pt hk

/-- **the assumption structures this file's theorems take are satisfiable** (for a lawful toy primitive suite
    with the 16-byte tag, where they mention primitives): none of the theorems above is vacuous. The instances are in
    `Proofs/GoTieWitnessA.lean` / `GoTieWitnessB.lean`. -/
theorem assumptions_satisfiable :
    Prims.toy16.Correct ∧ Prims.toy16.aead.NonceSep ∧ Prims.toy16.aead.T = 16 ∧
    Nonempty (GoTie.MacEnv Prims.toy16 Bytes (Bytes × Bytes)) ∧
    Nonempty (GoTie.NativeEnv Prims.toy16 Bytes) ∧
    Nonempty (GoTie.RsaEnv Prims.toy16 Bytes Bytes Bytes) ∧
    Nonempty (GoTie.SshEnv Prims.toy16 Bytes Bytes) ∧
    Nonempty (GoTie.WrapAeadEnv Bytes Prims.toy16) ∧
    Nonempty (GoTie.MarshalEnv Bytes Unit Bytes) :=
  ⟨Prims.toy16_correct, AEAD.toy16_nonceSep, rfl, ⟨GoTie.MacEnv.witness⟩, ⟨GoTie.NativeEnv.witness⟩, ⟨GoTie.RsaEnv.witness⟩, ⟨GoTie.SshEnv.witness⟩, ⟨GoTie.WrapAeadEnv.witness⟩, ⟨GoTie.MarshalEnv.witness⟩⟩

end Tie.C05
end AgeModel
