/-
  Tie/C18 — the size bound the key-file model runs with is the one in the source
  now (`Extracted/Consts.lean`, regenerated from /repo on every run): the library
  reads at most `privateKeySizeLimit` bytes of an identities file and the command
  line tool at most `recipientFileSizeLimit` bytes of a recipients file.
-/
import AgeModel.Exec.KeyFileExec
import AgeModel.Extracted.Consts
import Proofs.GoTieKeyFile
namespace AgeModel
namespace Tie.C18

theorem identities_limit_tie : Exec.KeyFile.limit = Extracted.privateKeySizeLimit := by decide
theorem recipients_limit_tie : Exec.KeyFile.limit = Extracted.recipientFileSizeLimit := by decide

/-! ## The code itself (DESIGN.md §5.3)

`age.ParseIdentities` and `age.ParseRecipients` (parse.go) are TRANSLATED from the
source on every run, with the single-line parser kept abstract (a parameter, as in
the model). For EVERY file content and EVERY single-line parser that returns, they
compute the file-level model of AgeModel/KeyFile.lean — the keys in file order, or
the error with the 1-based number of the FIRST offending line (an argument of the
error's fmt.Errorf call), or "scanner error" / "no keys". Every theorem of Props/C18
about `KeyFile.parseIdentities` / `parseRecipients` (keyfile_exact, keyfile_no_skip,
keyfile_first_error, …) is thereby a theorem about these two functions as they stand
in the source. A `continue` on a malformed line, a line counter that skips comments,
a swallowed scanner error each break these. -/

theorem parseIdentities_tie {κ : Type} (P : Bytes → Go.M (κ × Option Go.Err))
    (hP : ∀ l, ∃ r, P l = .ok r) (f : Bytes) :
    Extracted.age_ParseIdentities P f = .ok (match KeyFile.parseIdentities (GoTie.lineKey P) 65536 16777216 f with
      | .ok ks => (ks, none)
      | .error e => ([], GoTie.idFileErr e)) :=
  GoTie.parseIdentities_tie P hP f

theorem parseRecipients_tie {κ : Type} (P : Bytes → Go.M (κ × Option Go.Err))
    (hP : ∀ l, ∃ r, P l = .ok r) (f : Bytes) :
    Extracted.age_ParseRecipients P f = .ok (match KeyFile.parseRecipients (GoTie.lineKey P) 65536 16777216 f with
      | .ok ks => (ks, none)
      | .error e => ([], GoTie.rcFileErr e)) :=
  GoTie.parseRecipients_tie P hP f

/-- the model parameters used above are the ones the driver runs the model with -/
theorem model_parameters : Exec.KeyFile.limit = 16777216 ∧ Exec.KeyFile.maxTok = 65536 ∧ Go.maxScanTokenSize = 65536 := by decide

end Tie.C18
end AgeModel
