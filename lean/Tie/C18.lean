/-
  Tie/C18 — the size bound the key-file model runs with is the one in the source
  now (`Extracted/Consts.lean`, regenerated from /repo on every run): the library
  reads at most `privateKeySizeLimit` bytes of an identities file and the command
  line tool at most `recipientFileSizeLimit` bytes of a recipients file.
-/
import AgeModel.Exec.KeyFileExec
import AgeModel.Extracted.Consts
import Proofs.GoTieKeyFile
import Proofs.GoTieCliKeyFile
import Props.C18
import Proofs.GoTieWitnessB
namespace AgeModel
namespace Tie.C18

theorem identities_limit_tie : Exec.KeyFile.limit = Extracted.privateKeySizeLimit := by decide
theorem recipients_limit_tie : Exec.KeyFile.limit = Extracted.recipientFileSizeLimit := by decide

/-! ## The code itself (DESIGN.md §5.3)

`age.ParseIdentities` and `age.ParseRecipients` (parse.go) are TRANSLATED from the
source on every run, with the single-line parser kept abstract (a parameter, as in
the model). For EVERY file content and EVERY single-line parser that returns, they
compute the file-level model of AgeModel/KeyFile.lean — the keys in file order, or
the error with the 1-based number of the FIRST offending line (an argument of the
error's fmt.Errorf call), or "scanner error" / "no keys". Every theorem of Props/C18
about `KeyFile.parseIdentities` / `parseRecipients` (keyfile_exact, keyfile_no_skip,
keyfile_first_error, …) is thereby a theorem about these two functions as they stand
in the source. A `continue` on a malformed line, a line counter that skips comments,
a swallowed scanner error each break these. -/

theorem parseIdentities_tie {κ : Type} (P : Bytes → Go.M (κ × Option Go.Err))
    (hP : ∀ l, ∃ r, P l = .ok r) (f : Bytes) :
    Extracted.age_ParseIdentities P f = .ok (match KeyFile.parseIdentities (GoTie.lineKey P) 65536 16777216 f with
      | .ok ks => (ks, none)
      | .error e => ([], GoTie.idFileErr e)) :=
  GoTie.parseIdentities_tie P hP f

theorem parseRecipients_tie {κ : Type} (P : Bytes → Go.M (κ × Option Go.Err))
    (hP : ∀ l, ∃ r, P l = .ok r) (f : Bytes) :
    Extracted.age_ParseRecipients P f = .ok (match KeyFile.parseRecipients (GoTie.lineKey P) 65536 16777216 f with
      | .ok ks => (ks, none)
      | .error e => ([], GoTie.rcFileErr e)) :=
  GoTie.parseRecipients_tie P hP f

/-! ## The command line tool's own parsers (cmd/age/parse.go)

`parseIdentities` (identity files, plugin identities included) and the line loop of
`parseRecipientsFile` (`-R`) are translated too — the latter from the statement after the file has
been opened (the `-`/stdin bookkeeping, `os.Open` and the deferred `Close` are outside the
fragment), with `parseRecipient`, `sshKeyType`, `ssh.ParseAuthorizedKey` as parameters and
`warningf` appending to an explicit log. They compute `KeyFile.parseIdentities` and
`KeyFile.cliParseRecipientsFile`: the model's keys or the model's error (line number included), and
EXACTLY the model's warnings — a line that fails to parse is skipped only under `KeyFile.skipCond`
(an SSH key type age does not support, or a well-formed `ssh-rsa` key age refuses), each time with
one warning naming its line; a corrupted `ssh-rsa` / `ssh-ed25519` line rejects the file (the
repair of finding F9 is thereby pinned by a theorem about the source). -/

theorem cli_parseIdentities_tie {ι : Type} (P : Bytes → Go.M (ι × Option Go.Err))
    (hP : ∀ l, ∃ r, P l = .ok r) (f : Bytes) :
    Extracted.main_parseIdentities P f =
      .ok (GoTie.modelOut "main.parseIdentities" (KeyFile.parseIdentities (GoTie.lineKey P) 65536 16777216 f)) :=
  GoTie.cli_parseIdentities_tie P hP f

theorem cli_parseRecipientsFile_tie {ρ π τ : Type} (E : GoTie.RecFileEnv ρ π τ) (name f : Bytes) (t0 : τ) :
    ∃ (res : List ρ × Option Go.Err) (t' : τ),
      Extracted.main_parseRecipientsFile E.P E.K E.A E.W name f t0 = .ok (res.1, res.2, t') ∧
      let o := KeyFile.cliParseRecipientsFile (GoTie.lineKey E.P) E.sniff E.valid 8192 65536 16777216 f
      E.absT t' = E.absT t0 ++ o.skipped ∧
      res = match o.res with
            | .ok ks => (ks, none)
            | .error e => ([], GoTie.recFileErr e) :=
  GoTie.cli_parseRecipientsFile_tie E name f t0

/-! ### The property, stated about the CODE

`Props.C18.cli_keyfile_exact` and `cli_skipped_sound` are theorems about the model; through the tie
they become statements about `parseRecipientsFile` as it stands in the source (from the opened file
on): it succeeds with `ks` exactly when the scanner did not fail, every line that is neither empty nor
a comment is within the length limit and either parses or is an SSH key the skip rule covers, `ks`
are the keys of the parsing lines in file order, and there is at least one; and every warning it
logged names a line that failed to parse and is covered by the skip rule. -/

theorem code_recipientsFile_exact {ρ π τ : Type} (E : GoTie.RecFileEnv ρ π τ) (name f : Bytes) (t0 : τ) (ks : List ρ) :
    (∃ t', Extracted.main_parseRecipientsFile E.P E.K E.A E.W name f t0 = .ok (ks, none, t')) ↔
      KeyFile.scanFailed 65536 16777216 f = false ∧
      (∀ l ∈ KeyFile.linesOf 65536 16777216 f, KeyFile.content l = true →
        l.length ≤ 8192 ∧ (GoTie.lineKey E.P l = none → KeyFile.skipCond E.sniff E.valid l = true)) ∧
      ks = ((KeyFile.linesOf 65536 16777216 f).filter KeyFile.content).filterMap (GoTie.lineKey E.P) ∧
      ks ≠ [] := by
  rw [← Props.C18.cli_keyfile_exact (GoTie.lineKey E.P) E.sniff E.valid 8192 65536 16777216 f ks]
  obtain ⟨res, t', hrun, _, hres⟩ := GoTie.cli_parseRecipientsFile_tie E name f t0
  constructor
  · rintro ⟨t'', h⟩
    rw [hrun] at h
    simp only [Except.ok.injEq, Prod.mk.injEq] at h
    obtain ⟨h1, h2, _⟩ := h
    cases ho : (KeyFile.cliParseRecipientsFile (GoTie.lineKey E.P) E.sniff E.valid 8192 65536 16777216 f).res with
    | ok ks' =>
      rw [ho] at hres
      rw [hres] at h1
      simp only [] at h1
      rw [h1]
    | error e =>
      rw [ho] at hres
      rw [hres] at h2
      cases e <;> simp [GoTie.recFileErr] at h2
  · intro ho
    rw [ho] at hres
    exact ⟨t', by rw [hrun, hres]⟩

theorem code_recipientsFile_warnings {ρ π τ : Type} (E : GoTie.RecFileEnv ρ π τ) (name f : Bytes) (t0 : τ)
    (res : List ρ × Option Go.Err) (t' : τ)
    (hrun : Extracted.main_parseRecipientsFile E.P E.K E.A E.W name f t0 = .ok (res.1, res.2, t')) :
    ∃ skipped, E.absT t' = E.absT t0 ++ skipped ∧
      ∀ m ∈ skipped, ∃ i l, m = i + 1 ∧ (KeyFile.linesOf 65536 16777216 f)[i]? = some l ∧ KeyFile.content l = true ∧
        l.length ≤ 8192 ∧ GoTie.lineKey E.P l = none ∧
        ∃ t, E.sniff l = some t ∧ ((t ≠ KeyFile.sshRsa ∧ t ≠ KeyFile.sshEd25519) ∨ (t = KeyFile.sshRsa ∧ E.valid l = true)) := by
  obtain ⟨res', t'', hrun', hlog, _⟩ := GoTie.cli_parseRecipientsFile_tie E name f t0
  rw [hrun'] at hrun
  simp only [Except.ok.injEq, Prod.mk.injEq] at hrun
  obtain ⟨_, _, ht⟩ := hrun
  subst ht
  exact ⟨_, hlog, fun m hm => Props.C18.cli_skipped_sound (GoTie.lineKey E.P) E.sniff E.valid 8192 65536 16777216 f m hm⟩

/-- the model parameters used above are the ones the driver runs the model with -/
theorem model_parameters : Exec.KeyFile.limit = 16777216 ∧ Exec.KeyFile.maxTok = 65536 ∧ Go.maxScanTokenSize = 65536 := by decide

/-- **the assumption structures this file's theorems take are satisfiable** (for a lawful toy primitive suite
    with the 16-byte tag, where they mention primitives): none of the theorems above is vacuous. The instances are in
    `Proofs/GoTieWitnessA.lean` / `GoTieWitnessB.lean`. -/
theorem assumptions_satisfiable :
    (∀ (sniff : Bytes → Option Bytes) (valid : Bytes → Bool), ∃ E : GoTie.RecFileEnv Unit Unit (List Nat), E.sniff = sniff ∧ E.valid = valid) :=
  fun sniff valid => ⟨GoTie.RecFileEnv.witness sniff valid, GoTie.RecFileEnv.witness_fields sniff valid⟩

end Tie.C18
end AgeModel
