/-
  Tie/C18 — the size bound the key-file model runs with is the one in the source
  now (`Extracted/Consts.lean`, regenerated from /repo on every run): the library
  reads at most `privateKeySizeLimit` bytes of an identities file and the command
  line tool at most `recipientFileSizeLimit` bytes of a recipients file.
-/
import AgeModel.Exec.KeyFileExec
import AgeModel.Extracted.Consts
namespace AgeModel
namespace Tie.C18

theorem identities_limit_tie : Exec.KeyFile.limit = Extracted.privateKeySizeLimit := by decide
theorem recipients_limit_tie : Exec.KeyFile.limit = Extracted.recipientFileSizeLimit := by decide

end Tie.C18
end AgeModel
