/-
  Tie/C20 — the effect summary of the code, regenerated from /repo
  (`Extracted/Effects.lean`), has no store to a shared location: this is the
  hypothesis of `Props.C20.interleaving_equals_solo` / `no_conflict`.

  The summary (rules in harness/cmd/extract/effects.go): every store reachable
  in the module from Wrap / WrapWithLabels / Unwrap of the native recipient and
  identity types, from Encrypt and Decrypt, propagated to those roots; reported
  as shared when it lands on the root's receiver (the recipient / identity
  value that goroutines share), on a parameter carrying recipients or
  identities, or on a package-level variable.

  Documented exclusions, each pinned below:
   * `dispatchExcluded` — agessh.EncryptedSSHIdentity caches its decrypted key by
     design (property C19) and is not among the types C20 speaks of;
   * effects on a root's per-operation parameters (`perOperationStores`: the
     destination writer of Encrypt and whatever it wraps) — every operation has
     its own destination;
   * `configSetters` — SetWorkFactor / SetMaxWorkFactor, documented "must be called
     before Wrap / Unwrap", are not reachable from the roots.
  A cache field written in Wrap, a lazily initialised key, a package-level
  scratch buffer each add an entry to `sharedStores` or `mutatedGlobals`.
-/
import AgeModel.Extracted.Effects
namespace AgeModel
namespace Tie.C20

/-- no store reachable from the roots lands on a shared location -/
theorem no_shared_store : Extracted.sharedStores = [] := by decide

theorem no_shared_store_detail : Extracted.sharedStoresDetail = [] := by decide

/-- no package-level variable of the library is written outside its declaration / init -/
theorem no_mutated_global : Extracted.mutatedGlobals = [] := by decide

/-- the roots include every operation the property names -/
theorem roots_cover :
    ["age.(*X25519Recipient).Wrap", "age.(*X25519Identity).Unwrap",
     "age.(*ScryptRecipient).Wrap", "age.(*ScryptRecipient).WrapWithLabels", "age.(*ScryptIdentity).Unwrap",
     "agessh.(*RSARecipient).Wrap", "agessh.(*RSAIdentity).Unwrap",
     "agessh.(*Ed25519Recipient).Wrap", "agessh.(*Ed25519Identity).Unwrap",
     "age.Encrypt", "age.Decrypt"].all (fun r => Extracted.roots.contains r) = true := by decide

/-- the only type left out of interface dispatch -/
theorem exclusions : Extracted.dispatchExcluded = ["agessh.EncryptedSSHIdentity"] := by decide

/-- what a root does to a per-operation parameter concerns only Encrypt's destination
    (its first parameter, an io.Writer) -/
theorem per_operation_only_dst :
    Extracted.perOperationStores.all (fun s => s.1 == "age.Encrypt" && s.2.1 == "param #0 io.Writer") = true := by decide

/-- the methods that do write a recipient / identity are the two documented setters -/
theorem config_setters : Extracted.configSetters = [
    ("age.(*ScryptIdentity).SetMaxWorkFactor", "maxWorkFactor"),
    ("age.(*ScryptRecipient).SetWorkFactor", "workFactor")] := by decide

end Tie.C20
end AgeModel
