/-
  Tie/C20 — the effect summary of the code, regenerated from /repo
  (`Extracted/Effects.lean`), has no store to a shared location: this is the
  hypothesis of `Props.C20.interleaving_equals_solo` / `no_conflict`.

  The summary (rules in harness/cmd/extract/effects.go): every store reachable
  in the module from Wrap / WrapWithLabels / Unwrap of the native recipient and
  identity types, from Encrypt and Decrypt, propagated to those roots; reported
  as shared when it lands on the root's receiver (the recipient / identity
  value that goroutines share), on a parameter carrying recipients or
  identities, or on a package-level variable.

  Documented exclusions, each pinned below:
   * `dispatchExcluded` — agessh.EncryptedSSHIdentity caches its decrypted key by
     design (property C19) and is not among the types C20 speaks of;
   * effects on a root's per-operation parameters (`perOperationStores`: the
     destination writer of Encrypt and whatever it wraps) — every operation has
     its own destination;
   * `configSetters` — SetWorkFactor / SetMaxWorkFactor, documented "must be called
     before Wrap / Unwrap", are not reachable from the roots.
  A cache field written in Wrap, a lazily initialised key, a package-level
  scratch buffer each add an entry to `sharedStores` or `mutatedGlobals`.
-/
import AgeModel.Extracted.Effects
namespace AgeModel
namespace Tie.C20

/-- no store reachable from the roots lands on a shared location -/
theorem no_shared_store : Extracted.sharedStores = [] := by decide

theorem no_shared_store_detail : Extracted.sharedStoresDetail = [] := by decide

/-- no package-level variable of the library is written outside its declaration / init -/
theorem no_mutated_global : Extracted.mutatedGlobals = [] := by decide

/-- the roots include every operation the property names -/
theorem roots_cover :
    ["age.(*X25519Recipient).Wrap", "age.(*X25519Identity).Unwrap",
     "age.(*ScryptRecipient).Wrap", "age.(*ScryptRecipient).WrapWithLabels", "age.(*ScryptIdentity).Unwrap",
     "agessh.(*RSARecipient).Wrap", "agessh.(*RSAIdentity).Unwrap",
     "agessh.(*Ed25519Recipient).Wrap", "agessh.(*Ed25519Identity).Unwrap",
     "age.Encrypt", "age.Decrypt"].all (fun r => Extracted.roots.contains r) = true := by decide

/-- the only type left out of interface dispatch -/
theorem exclusions : Extracted.dispatchExcluded = ["agessh.EncryptedSSHIdentity"] := by decide

/-- what a root does to a per-operation parameter concerns only Encrypt's destination
    (its first parameter, an io.Writer) -/
theorem per_operation_only_dst :
    Extracted.perOperationStores.all (fun s => s.1 == "age.Encrypt" && s.2.1 == "param #0 io.Writer") = true := by decide

/-- the methods that do write a recipient / identity are the two documented setters -/
theorem config_setters : Extracted.configSetters = [
    ("age.(*ScryptIdentity).SetMaxWorkFactor", "maxWorkFactor"),
    ("age.(*ScryptRecipient).SetWorkFactor", "workFactor")] := by decide

/-- **positive controls**: the empty lists above are not the emptiness of a broken analysis. The call graph reaches
    from the roots the functions one knows they call (the per-stanza unwraps, `wrapWithLabels`, `multiUnwrap`, the
    stream writer); the store scan sees the stores one knows are there (`w.err` in `(*Writer).Write`, the nonce
    increment) and attributes them to `Encrypt`'s destination; the detail table projects onto the summary; and the
    global-write detection does fire where a global IS written (`stdinInUse` of cmd/age, informational) -/
theorem controls :
    Extracted.roots.all (fun r => Extracted.reachable.contains r) = true ∧
    ["age.(*X25519Identity).unwrap", "age.(*ScryptIdentity).unwrap", "agessh.(*RSAIdentity).unwrap",
     "agessh.(*Ed25519Identity).unwrap", "age.wrapWithLabels", "age.multiUnwrap", "stream.(*Writer).Write",
     "stream.incNonce"].all (fun f => Extracted.reachable.contains f) = true ∧
    Extracted.stores.contains ("stream.(*Writer).Write", "assign", "w.err", "recv") = true ∧
    Extracted.stores.contains ("stream.incNonce", "incdec", "nonce[i]", "param #0 *[12]byte") = true ∧
    Extracted.perOperationStores.contains ("age.Encrypt", "param #0 io.Writer", "stream.(*Writer).Write", "w.err") = true ∧
    Extracted.sharedStoresDetail.map (fun s => (s.2.2.1, s.2.2.2.1, s.2.2.2.2)) = Extracted.sharedStores ∧
    Extracted.mutatedGlobalsCmd.contains ("main.stdinInUse", "main.main", "stdinInUse") = true := by decide

end Tie.C20
end AgeModel
