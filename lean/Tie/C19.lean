/-
  Tie/C19 — when the passphrase-protected SSH identity asks for its passphrase, in the source.

  The first part of `(*EncryptedSSHIdentity).Unwrap` (agessh/encrypted_keys.go: cached-key
  shortcut, match loop, "no match" return, call of the passphrase callback) is TRANSLATED from
  /repo on every run and proved to behave as the model's `SshEnc.step` does up to that point:
  with a key cached the call is delegated and the callback is not touched; with nothing cached the
  callback is invoked exactly when `SshEnc.scanStanzas` answers `matched` — a callback that FAULTS
  when called is never reached otherwise. The rest of the function (parsing the key file, the type
  switch over `crypto` key types, the public-key comparison, the assignment of `i.decrypted`) is
  outside the translated fragment and stays tied by the correspondence (call histories against
  the real identity with real key files).
-/
import Proofs.GoTieSshEnc
namespace AgeModel
namespace Tie.C19
open Extracted

theorem encssh_prompt_tie {R π ρ ι : Type} (cfg : SshEnc.Config R) (key : π)
    (Ty : π → Go.M Bytes) (hTy : Ty key = .ok cfg.keyType)
    (Fp : π → Go.M Bytes) (hFp : Fp key = .ok cfg.tag)
    (isNil : ι → Bool) (U : ι → List age_Stanza → Go.M (Bytes × Option Go.Err))
    (cb : Go.M (Bytes × Option Go.Err)) (rcp : ρ) (pem : Bytes) (dec : ι) (stanzas : List SshEnc.Stanza) :
    agessh_EncryptedSSHIdentity_Unwrap isNil U Ty Fp ⟨key, rcp, pem, cb, dec⟩ (stanzas.map GoTie.toGoSshStanza) =
      if isNil dec = false then
        (U dec (stanzas.map GoTie.toGoSshStanza)).map (fun r => (r.1, r.2, ⟨key, rcp, pem, cb, dec⟩))
      else match SshEnc.scanStanzas cfg stanzas with
        | .malformed => .ok ([], some ⟨"agessh.(*EncryptedSSHIdentity).Unwrap", 0, []⟩, ⟨key, rcp, pem, cb, dec⟩)
        | .noMatch => .ok ([], age_ErrIncorrectIdentity, ⟨key, rcp, pem, cb, dec⟩)
        | .matched => cb.map (fun r => (r.1, r.2, ⟨key, rcp, pem, cb, dec⟩)) :=
  GoTie.encssh_prompt_tie cfg key Ty hTy Fp hFp isNil U cb rcp pem dec stanzas

theorem encssh_no_prompt {R π ρ ι : Type} (cfg : SshEnc.Config R) (key : π)
    (Ty : π → Go.M Bytes) (hTy : Ty key = .ok cfg.keyType)
    (Fp : π → Go.M Bytes) (hFp : Fp key = .ok cfg.tag)
    (isNil : ι → Bool) (U : ι → List age_Stanza → Go.M (Bytes × Option Go.Err))
    (rcp : ρ) (pem : Bytes) (dec : ι) (hdec : isNil dec = true) (stanzas : List SshEnc.Stanza)
    (h : SshEnc.scanStanzas cfg stanzas ≠ .matched) :
    ∃ res, agessh_EncryptedSSHIdentity_Unwrap isNil U Ty Fp ⟨key, rcp, pem, .error (.panic 99), dec⟩ (stanzas.map GoTie.toGoSshStanza) = .ok res ∧
      res.2.1 ≠ none :=
  GoTie.encssh_no_prompt cfg key Ty hTy Fp hFp isNil U rcp pem dec hdec stanzas h

end Tie.C19
end AgeModel
