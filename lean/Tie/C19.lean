/-
  Tie/C19 — when the passphrase-protected SSH identity asks for its passphrase, and what it keeps, in
  the source.

  `(*EncryptedSSHIdentity).Unwrap` (agessh/encrypted_keys.go) is TRANSLATED from /repo on every run:
  the cached-key shortcut, the match loop, the "no match" return, the call of the passphrase
  callback, and the END of the function — the assignment of `i.decrypted` and the delegated
  `Unwrap`. The middle (decrypting and parsing the key file, the type switch over `crypto` key types:
  lines the fragment cannot express) stands in the translation as ONE abstract step
  (`funcSpec.regions`), a function of what it reads that either hands on the decrypted identity and
  its public half or makes `Unwrap` return; the comparison of that public half with the DECLARED
  public key is translated again (`pubKey.Equal(exp)`, a method of an anonymous interface value); the translator checks that it assigns to
  nothing of the receiver. Proved, for EVERY behaviour of that step: with a key cached the call is
  delegated and the callback is not touched; with nothing cached the callback is invoked exactly
  when `SshEnc.scanStanzas` answers `matched` (a callback — and a key-file step — that FAULT when
  called are never reached otherwise); and NO HISTORY is kept unless the key was validated: whenever
  the identity handed back differs from the one handed in, the prompt succeeded, the step ended
  without an early return, its public half was found EQUAL to the declared public key, and the only
  change is the remembered identity, which is the one that answered the header (`encssh_no_history`; pins the repair F7: the key is cached only after it
  matched the declared public key). What the step itself does stays tied by the correspondence (call
  histories against the real identity with real key files).
-/
import Proofs.GoTieSshEnc
namespace AgeModel
namespace Tie.C19
open Extracted

theorem encssh_prompt_tie {R π ρ ι κ ξ : Type} (cfg : SshEnc.Config R) (key : π)
    (Ty : π → Go.M Bytes) (hTy : Ty key = .ok cfg.keyType)
    (Fp : π → Go.M Bytes) (hFp : Fp key = .ok cfg.tag)
    (isNil : ι → Bool) (U : ι → List age_Stanza → Go.M (Bytes × Option Go.Err))
    (Rg : agessh_EncryptedSSHIdentity π ρ ι → Option Go.Err → Bytes → Go.M (Go.Loop (ξ × ι) (Bytes × Option Go.Err)))
    (nilX : ξ) (nilI : ι) (CPK : π → Go.M κ) (impl : π → Bool) (Eq : ξ → κ → Go.M Bool)
    (cb : Go.M (Bytes × Option Go.Err)) (rcp : ρ) (pem : Bytes) (dec : ι) (stanzas : List SshEnc.Stanza) :
    agessh_EncryptedSSHIdentity_Unwrap isNil U Ty Fp Rg nilX nilI CPK impl Eq ⟨key, rcp, pem, cb, dec⟩ (stanzas.map GoTie.toGoSshStanza) =
      if isNil dec = false then
        (U dec (stanzas.map GoTie.toGoSshStanza)).map (fun r => (r.1, r.2, ⟨key, rcp, pem, cb, dec⟩))
      else match SshEnc.scanStanzas cfg stanzas with
        | .malformed => .ok ([], some ⟨"agessh.(*EncryptedSSHIdentity).Unwrap", 0, []⟩, ⟨key, rcp, pem, cb, dec⟩)
        | .noMatch => .ok ([], age_ErrIncorrectIdentity, ⟨key, rcp, pem, cb, dec⟩)
        | .matched => cb >>= GoTie.encsshAfterPrompt U Rg CPK impl Eq ⟨key, rcp, pem, cb, dec⟩ (stanzas.map GoTie.toGoSshStanza) :=
  GoTie.encssh_prompt_tie cfg key Ty hTy Fp hFp isNil U Rg nilX nilI CPK impl Eq cb rcp pem dec stanzas

theorem encssh_no_prompt {R π ρ ι κ ξ : Type} (cfg : SshEnc.Config R) (key : π)
    (Ty : π → Go.M Bytes) (hTy : Ty key = .ok cfg.keyType)
    (Fp : π → Go.M Bytes) (hFp : Fp key = .ok cfg.tag)
    (isNil : ι → Bool) (U : ι → List age_Stanza → Go.M (Bytes × Option Go.Err)) (nilX : ξ) (nilI : ι)
    (CPK : π → Go.M κ) (impl : π → Bool) (Eq : ξ → κ → Go.M Bool)
    (rcp : ρ) (pem : Bytes) (dec : ι) (hdec : isNil dec = true) (stanzas : List SshEnc.Stanza)
    (h : SshEnc.scanStanzas cfg stanzas ≠ .matched) :
    ∃ res, agessh_EncryptedSSHIdentity_Unwrap isNil U Ty Fp (fun _ _ _ => .error (.panic 98)) nilX nilI CPK impl Eq
        ⟨key, rcp, pem, .error (.panic 99), dec⟩ (stanzas.map GoTie.toGoSshStanza) = .ok res ∧
      res.2.1 ≠ none ∧ res.2.2 = ⟨key, rcp, pem, .error (.panic 99), dec⟩ :=
  GoTie.encssh_no_prompt cfg key Ty hTy Fp hFp isNil U nilX nilI CPK impl Eq rcp pem dec hdec stanzas h

theorem encssh_no_history {R π ρ ι κ ξ : Type} (cfg : SshEnc.Config R) (key : π)
    (Ty : π → Go.M Bytes) (hTy : Ty key = .ok cfg.keyType)
    (Fp : π → Go.M Bytes) (hFp : Fp key = .ok cfg.tag)
    (isNil : ι → Bool) (U : ι → List age_Stanza → Go.M (Bytes × Option Go.Err))
    (Rg : agessh_EncryptedSSHIdentity π ρ ι → Option Go.Err → Bytes → Go.M (Go.Loop (ξ × ι) (Bytes × Option Go.Err)))
    (nilX : ξ) (nilI : ι) (CPK : π → Go.M κ) (impl : π → Bool) (Eq : ξ → κ → Go.M Bool)
    (cb : Go.M (Bytes × Option Go.Err)) (rcp : ρ) (pem : Bytes) (dec : ι) (hdec : isNil dec = true) (stanzas : List SshEnc.Stanza)
    (res : Bytes × Option Go.Err × agessh_EncryptedSSHIdentity π ρ ι)
    (hres : agessh_EncryptedSSHIdentity_Unwrap isNil U Ty Fp Rg nilX nilI CPK impl Eq ⟨key, rcp, pem, cb, dec⟩ (stanzas.map GoTie.toGoSshStanza) = .ok res)
    (hchg : res.2.2 ≠ ⟨key, rcp, pem, cb, dec⟩) :
    ∃ pw pk d exp, cb = .ok (pw, none) ∧ Rg ⟨key, rcp, pem, cb, dec⟩ none pw = .ok (.next (pk, d)) ∧
      CPK key = .ok exp ∧ Eq pk exp = .ok true ∧
      res.2.2 = ⟨key, rcp, pem, cb, d⟩ ∧ U d (stanzas.map GoTie.toGoSshStanza) = .ok (res.1, res.2.1) :=
  GoTie.encssh_no_history cfg key Ty hTy Fp hFp isNil U Rg nilX nilI CPK impl Eq cb rcp pem dec hdec stanzas res hres hchg

end Tie.C19
end AgeModel
