/-
  Tie/C03 — in age.Decrypt the header MAC comparison guards an error return and
  precedes the creation of the payload reader. Fact regenerated from /repo
  (`Extracted/CallOrder.lean`); positional evidence supporting the dynamic oracle.
-/
import AgeModel.Extracted.CallOrder
import Proofs.GoTieFormat
namespace AgeModel
namespace Tie.C03

theorem mac_check_precedes_reader : Extracted.macCheckPrecedesReader = true := by decide

theorem decrypt_order : Extracted.decryptOrder.map (·.1) = ["hmac.Equal", "stream.NewReader"] := by decide


/-- The code itself (DESIGN.md §5.3): `format.Parse`, TRANSLATED from the source on every run,
    returns the model's header and unread remainder for every input (given that
    `format.DecodeString` is the model's `decodeString`) — so `mac_covers_received_bytes`
    (the MAC input is exactly the received header bytes) is about the parser in the source. -/
theorem parse_tie (D : Bytes → Go.M (Bytes × Option Go.Err)) (eD : Go.Err) (hD : GoTie.DecodeIsModel D eD)
    (input : Bytes) :
    ∃ res, Extracted.format_Parse D input = .ok res ∧
      match Format.parse input with
      | .ok (h, rest) => res = (GoTie.toGoHeader h, rest, none)
      | .error _ => res.2.2 ≠ none :=
  GoTie.parse_tie D eD hD input

end Tie.C03
end AgeModel
