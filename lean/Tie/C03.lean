/-
  Tie/C03 — in age.Decrypt the header MAC comparison guards an error return and
  precedes the creation of the payload reader. Fact regenerated from /repo
  (`Extracted/CallOrder.lean`); positional evidence supporting the dynamic oracle.
-/
import AgeModel.Extracted.CallOrder
import Proofs.GoTieDecrypt
import Proofs.GoTiePrims
import Props.C03
import Proofs.GoTieWitnessA
namespace AgeModel
namespace Tie.C03

/-- the extractor's own verdict (a constant it writes), AND the same fact recomputed here from the event table it
    emits: the MAC comparison and the reader's creation both occur, once each, the comparison on an earlier source line.
    (The semantic statement is `code_decrypt_mac_gate` below.) -/
theorem mac_check_precedes_reader :
    Extracted.macCheckPrecedesReader = true ∧
    (Extracted.decryptOrder.map (·.2)).Pairwise (· < ·) ∧
    (Extracted.decryptOrder.filter (·.1 == "hmac.Equal")).length = 1 ∧
    (Extracted.decryptOrder.filter (·.1 == "stream.NewReader")).length = 1 := by decide

theorem decrypt_order : Extracted.decryptOrder.map (·.1) = ["hmac.Equal", "stream.NewReader"] := by decide


/-! (That `format.Parse` as it stands in the source returns the model's header and remainder for every
    input — which makes `mac_covers_received_bytes` a statement about the source — is `Tie.C07.parse_tie`;
    it is not repeated here, so that a rewrite of the parser touches C07's obligations only.) -/


/-! ## age.Decrypt itself (DESIGN.md §5.3)

`age.Decrypt` is TRANSLATED from age.go on every run: `format.Parse` (translated too), the identity
loop, the nil-key test, THE HEADER MAC COMPARISON, the nonce, and only then `stream.NewReader`.
`Identity.Unwrap`, `headerMAC`, `streamKey`, `stream.NewReader`, `format.DecodeString` are abstract
and assumed to be the model's (`GoTie.DecryptEnv`). For every file and identity list the translated
`Decrypt` returns what the model's `decryptInit` returns — in particular a reader ONLY when the MAC
the file carries equals the MAC of the received header bytes under the unwrapped file key
(`Props.C03.mac_gate`, `wrong_mac_rejected`, `header_edit_reduction` are about the source text). -/

theorem decrypt_tie (P : Prims) {ι : Type} (E : GoTie.DecryptEnv P ι) (file : Bytes) (ids : List ι) :
    ∃ res, Extracted.age_Decrypt E.D E.U GoTie.errorsIsEq E.mac E.newReader E.key file ids = .ok res ∧
      match (decryptInit P (ids.map E.idOf) file).1 with
      | .ok (k, payload) => res = (k ++ payload, none)
      | .error (.fatal idx) => ∃ hdr payload j r, Format.parse file = .ok (hdr, payload) ∧ ids[idx]? = some j ∧
          E.U j (hdr.stanzas.map GoTie.toGoStanza) = .ok r ∧ r.2 ≠ none ∧ r.2 ≠ Extracted.age_ErrIncorrectIdentity ∧
          res = ([], r.2)
      | .error e => res = ([], GoTie.decryptErr e none) :=
  GoTie.decrypt_tie P E file ids

/-- what that MAC is, in the source: `age.headerMAC` translated from primitives.go — HMAC under
    HKDF(file key, no salt, "header") of the header as received, serialised without its MAC
    (HKDF, HMAC and `MarshalWithoutMAC` are parameters, `GoTie.MacEnv`) -/
theorem headerMAC_tie (P : Prims) {κ η : Type} (E : GoTie.MacEnv P κ η) (fk : Bytes) (hdr : Format.Header) :
    Extracted.age_headerMAC E.H E.R E.N E.M E.S fk ⟨hdr.stanzas.map GoTie.toGoFStanza, hdr.mac⟩ =
      .ok (P.hmac (P.hkdf fk [] headerInfo 32) (Format.marshalNoMAC hdr), none) :=
  GoTie.headerMAC_tie P E fk hdr

/-! ### The property, stated about the CODE

`decrypt_tie` composed with `Props.C03.mac_gate`: whenever the TRANSLATED `age.Decrypt` returns without an error —
i.e. hands out a reader — the file parsed as a header `hdr` followed by `rest`, some identity unwrapped a file key
`fk`, and the MAC the file carries IS HMAC(HKDF(fk, "header"), the header as received without its MAC); what is
handed on is the stream key derived from `fk` and the 16 bytes after the header, followed by the payload. -/

theorem code_decrypt_mac_gate (P : Prims) {ι : Type} (E : GoTie.DecryptEnv P ι) (file : Bytes) (ids : List ι)
    (out : Bytes) (hrun : Extracted.age_Decrypt E.D E.U GoTie.errorsIsEq E.mac E.newReader E.key file ids = .ok (out, none)) :
    ∃ hdr rest fk, Format.parse file = .ok (hdr, rest) ∧ (∃ i ∈ ids.map E.idOf, i.unwrap P hdr.stanzas = .key fk) ∧
      hdr.mac = P.hmac (P.hkdf fk [] headerInfo 32) (Format.marshalNoMAC hdr) ∧
      out = streamKey P fk (rest.take 16) ++ rest.drop 16 := by
  obtain ⟨res, hrun', hres⟩ := decrypt_tie P E file ids
  rw [hrun] at hrun'
  simp only [Except.ok.injEq] at hrun'
  subst hrun'
  cases hd : decryptInit P (ids.map E.idOf) file with
  | mk r c =>
    rw [hd] at hres
    cases r with
    | ok v =>
      obtain ⟨k, payload⟩ := v
      simp only [Prod.mk.injEq, and_true] at hres
      obtain ⟨hdr, rest, fk, hp, hi, hmac, hk, hpl⟩ := Props.C03.mac_gate P (ids.map E.idOf) file k payload c hd
      exact ⟨hdr, rest, fk, hp, hi, hmac, by rw [hres, hk, hpl]⟩
    | error e =>
      cases e <;> simp [GoTie.decryptErr] at hres
      obtain ⟨_, _, _, r, _, _, _, hne, _, _, he⟩ := hres
      exact absurd he.symm hne

/-- **the assumption structures this file's theorems take are satisfiable** (for a lawful toy primitive suite
    with the 16-byte tag, where they mention primitives): none of the theorems above is vacuous. The instances are in
    `Proofs/GoTieWitnessA.lean` / `GoTieWitnessB.lean`. -/
theorem assumptions_satisfiable :
    Prims.toy16.Correct ∧ Prims.toy16.aead.NonceSep ∧ Prims.toy16.aead.T = 16 ∧
    Nonempty (GoTie.DecryptEnv Prims.toy16 Identity) ∧
    Nonempty (GoTie.MacEnv Prims.toy16 Bytes (Bytes × Bytes)) :=
  ⟨Prims.toy16_correct, AEAD.toy16_nonceSep, rfl, ⟨GoTie.DecryptEnv.witness⟩, ⟨GoTie.MacEnv.witness⟩⟩

end Tie.C03
end AgeModel
