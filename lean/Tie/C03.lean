/-
  Tie/C03 — in age.Decrypt the header MAC comparison guards an error return and
  precedes the creation of the payload reader. Fact regenerated from /repo
  (`Extracted/CallOrder.lean`); positional evidence supporting the dynamic oracle.
-/
import AgeModel.Extracted.CallOrder
namespace AgeModel
namespace Tie.C03

theorem mac_check_precedes_reader : Extracted.macCheckPrecedesReader = true := by decide

theorem decrypt_order : Extracted.decryptOrder.map (·.1) = ["hmac.Equal", "stream.NewReader"] := by decide

end Tie.C03
end AgeModel
