/-
  Tie/C03 — in age.Decrypt the header MAC comparison guards an error return and
  precedes the creation of the payload reader. Fact regenerated from /repo
  (`Extracted/CallOrder.lean`); positional evidence supporting the dynamic oracle.
-/
import AgeModel.Extracted.CallOrder
namespace AgeModel
namespace Tie.C03

theorem mac_check_precedes_reader : Extracted.macCheckPrecedesReader = true := by decide

theorem decrypt_order : Extracted.decryptOrder.map (·.1) = ["hmac.Equal", "stream.NewReader"] := by decide


/-! (That `format.Parse` as it stands in the source returns the model's header and remainder for every
    input — which makes `mac_covers_received_bytes` a statement about the source — is `Tie.C07.parse_tie`;
    it is not repeated here, so that a rewrite of the parser touches C07's obligations only.) -/

end Tie.C03
end AgeModel
