/-
  Tie/C06 — every secret comes from crypto/rand; math/rand is confined to
  protocol grease. Facts regenerated from /repo (`Extracted/RandUse.lean`),
  expectations written by hand.

  Breaks when: a file of the library starts importing math/rand (or any other
  package called `rand`), a crypto/rand call is added to or removed from a
  function, or math/rand output flows anywhere but the "grease-%x" stanza type.
-/
import AgeModel.Extracted.RandUse
import Proofs.GoTieNonce
import Proofs.GoTieEncrypt
import Proofs.GoTieGenerate
import Proofs.GoTieCliPass
import Proofs.GoTieWitnessA
namespace AgeModel
namespace Tie.C06

def startsWith (p s : String) : Bool := p.toList.isPrefixOf s.toList

/-- Which files import a package called `rand`, and which one. In particular
    age.go, x25519.go, scrypt.go, agessh/agessh.go and cmd/age/wordlist.go use
    crypto/rand; internal/stream, internal/format, armor, bech32 import none. -/
theorem rand_imports : Extracted.randImports = [
    ("age.go", "rand", "crypto/rand"),
    ("agessh/agessh.go", "rand", "crypto/rand"),
    ("cmd/age/wordlist.go", "rand", "crypto/rand"),
    ("plugin/client.go", "rand", "math/rand"),
    ("scrypt.go", "rand", "crypto/rand"),
    ("x25519.go", "rand", "crypto/rand")] := by decide

/-- math/rand (or anything that is not crypto/rand) is imported only by plugin/client.go -/
theorem only_plugin_imports_math_rand :
    (Extracted.randImports.filter (fun i => i.2.2 != "crypto/rand")).map (·.1) = ["plugin/client.go"] := by decide

/-- every use of it is `rand.Int()` as the argument of the "grease-%x" Sprintf -/
theorem math_rand_only_grease :
    Extracted.otherRandUses.all (fun u =>
      u.1 == "plugin/client.go" && u.2.2.1 == "math/rand" && u.2.2.2.1 == "Int" &&
      startsWith "arg 1 of fmt.Sprintf \"grease-%x\"" u.2.2.2.2) = true := by decide

/-- The crypto/rand call sites are exactly: Encrypt (file key, payload nonce),
    one ephemeral secret or salt per Wrap, the scrypt label, rand.Reader handed to
    RSA-OAEP, key generation, and the CLI's random word. -/
theorem crypto_rand_sites : Extracted.cryptoRandSites = [
    ("age.go", "Encrypt", "Read"),
    ("age.go", "Encrypt", "Read"),
    ("agessh/agessh.go", "(*Ed25519Recipient).Wrap", "Read"),
    ("agessh/agessh.go", "(*RSAIdentity).unwrap", "Reader"),
    ("agessh/agessh.go", "(*RSARecipient).Wrap", "Reader"),
    ("cmd/age/wordlist.go", "randomWord", "Read"),
    ("scrypt.go", "(*ScryptRecipient).Wrap", "Read"),
    ("scrypt.go", "(*ScryptRecipient).WrapWithLabels", "Read"),
    ("x25519.go", "(*X25519Recipient).Wrap", "Read"),
    ("x25519.go", "GenerateX25519Identity", "Read")] := by decide

/-- every use of any `rand` package is accounted for by the two lists above: the `crypto/rand` rows of the primary
    table `randUses` (file, function, package, member, sink), projected, ARE `cryptoRandSites`, and its other rows ARE
    `otherRandUses` — a partition recomputed here from the primary table, not a count (an equation between lengths,
    as this theorem used to be, cannot fail for lists the extractor emits side by side) -/
theorem all_uses_accounted :
    (Extracted.randUses.filter (fun u => u.2.2.1 == "crypto/rand")).map (fun u => (u.1, u.2.1, u.2.2.2.1)) = Extracted.cryptoRandSites ∧
    Extracted.randUses.filter (fun u => u.2.2.1 != "crypto/rand") = Extracted.otherRandUses := by decide


/-! ## The code itself (DESIGN.md §5.3): the chunk nonce arithmetic of internal/stream,
    TRANSLATED from the source on every run. The nonce of chunk `i` is the 88-bit
    big-endian counter `i` followed by the flag byte; `incNonce` steps the counter by one
    (carrying through all eleven bytes) and leaves the flag alone, so — with
    `Props.C06.chunk_nonces_distinct` — no two chunks of a payload share a nonce. -/

theorem incNonce_tie (i : Nat) (last : Bool) (h : i + 1 < 2 ^ 88) :
    Extracted.stream_incNonce (Stream.nonce i last) = .ok (Stream.nonce (i + 1) last) :=
  GoTie.incNonce_tie i last h

theorem setLastChunkFlag_tie (i : Nat) (last : Bool) :
    Extracted.stream_setLastChunkFlag (Stream.nonce i last) = .ok (Stream.nonce i true) :=
  GoTie.setLastChunkFlag_tie i last


/-! ## age.Encrypt itself (DESIGN.md §5.3): the order of the random draws

`age.Encrypt` is TRANSLATED from age.go on every run with `crypto/rand` as an EXPLICIT TAPE
(`rand.Read(buf)` takes the next `len(buf)` bytes; the tape left over is handed back) and the
recipients' wraps abstract but tape-threaded (`GoTie.EncryptEnv.hW`: each draws what the model's
`wrapOne` draws). The translated `Encrypt` leaves the SAME tape as the model's `encryptInit`: 16
bytes of file key first, every recipient's draws in list order, 16 bytes of payload nonce last,
nothing else — `Props.C06.tape_linear`, `two_files_disjoint`, `x25519_secret_is_slice` are about the
source text. -/

theorem encrypt_tie (P : Prims) {S : AgeModel.Stream.DstSpec} {ρ δ ω : Type} (E : GoTie.EncryptEnv P S ρ δ ω)
    (d : δ) (rs : List ρ) (tape : Bytes) :
    ∃ res, Extracted.age_Encrypt E.nilW (GoTie.tapeRead E.eRand) E.W E.mac E.marshalF E.write E.newWriter E.key d rs tape = .ok res ∧
      match encryptInit P tape (rs.map E.recOf) E.hdrSegs (E.absD d) with
      | (.ok (w, k, t'), d2) =>
          res.1 = E.mkW k res.2.2.1 ∧ res.2.1 = none ∧ E.absD res.2.2.1 = d2 ∧ res.2.2.2 = t' ∧ w = AgeModel.Stream.Writer.new d2
      | (.error e, d2) => res.1 = E.nilW ∧ GoTie.encErrRel E.eRand e res.2.1 ∧ E.absD res.2.2.1 = d2 :=
  GoTie.encrypt_tie P E d rs tape

/-- `age.GenerateX25519Identity`, translated with crypto/rand as a tape: the secret key is exactly
    the next 32 bytes of the random source and nothing else is drawn -/
theorem generate_tie (eRand : Go.Err) (X : Bytes → Bytes → Go.M (Bytes × Option Go.Err)) (bp tape : Bytes) :
    Extracted.age_GenerateX25519Identity (GoTie.tapeRead eRand) X bp tape =
      match draw 32 tape with
      | none => .ok (⟨[], []⟩, some ⟨"age.GenerateX25519Identity", 0, []⟩, tape)
      | some (sk, t) =>
        match X sk bp with
        | .ok r => .ok (⟨sk, r.1⟩, none, t)
        | .error e => .error e :=
  GoTie.generate_tie eRand X bp tape

/-! The passphrase the command line tool suggests (`age -p`, nothing typed): `randomWord` and
`passphrasePromptForEncryption` of cmd/age, translated with crypto/rand as a tape and the terminal
as abstract state. Each word is selected by the next TWO bytes of the tape (big end first, modulo
2048); the suggestion is ten such words joined by `-`, i.e. a function of exactly the next 20
bytes of the random source; an exhausted source is a panic, never a shorter or weaker passphrase;
the suggestion is shown before it is returned; a typed passphrase is returned only when its
confirmation equals it. And nothing is lost on the way to text: for a table without `-` in its
words the suggestion determines the ten selected words (`autogen_injective`). -/

theorem randomWord_tie (eRand : Go.Err) (W : List Bytes) (hW : W.length = 2048) (tape : Bytes) :
    Extracted.main_randomWord (GoTie.tapeRead eRand) W tape =
      match draw 2 tape with
      | none => .error (Go.Fault.panic 0)
      | some (b, t) => .ok ((GoTie.wordsOf W b).headD [], t) :=
  GoTie.randomWord_tie eRand W hW tape

theorem prompt_tie {σ : Type} (eRand : Go.Err) (S : Bytes → σ → Go.M (Bytes × Option Go.Err × σ))
    (Pr : Bytes → Bytes → σ → Go.M (Option Go.Err × σ)) (W : List Bytes) (hW : W.length = 2048)
    (tape : Bytes) (s0 : σ) :
    Extracted.main_passphrasePromptForEncryption (GoTie.liftSecret S) (GoTie.liftRead eRand) W (GoTie.liftPrint Pr) (tape, s0) =
      GoTie.promptModel S Pr W tape s0 :=
  GoTie.prompt_tie eRand S Pr W hW tape s0

theorem autogen_injective (W : List Bytes) (hW : W.length = 2048) (hnd : W.Nodup) (hdash : ∀ w ∈ W, (45 : UInt8) ∉ w)
    (r1 r2 : Bytes) (h1 : r1.length = 20) (h2 : r2.length = 20) (h : GoTie.autogen W r1 = GoTie.autogen W r2) :
    GoTie.wordsOf W r1 = GoTie.wordsOf W r2 :=
  GoTie.autogen_injective W hW hnd hdash r1 r2 h1 h2 h

/-- **the assumption structures this file's theorems take are satisfiable** (for a lawful toy primitive suite
    with the 16-byte tag, where they mention primitives): none of the theorems above is vacuous. The instances are in
    `Proofs/GoTieWitnessA.lean` / `GoTieWitnessB.lean`. -/
theorem assumptions_satisfiable :
    Prims.toy16.Correct ∧ Prims.toy16.aead.NonceSep ∧ Prims.toy16.aead.T = 16 ∧
    (∀ S : Stream.DstSpec, Nonempty (GoTie.EncryptEnv Prims.toy16 S Recipient (Stream.Dst S) (Option (Bytes × Stream.Dst S)))) :=
  ⟨Prims.toy16_correct, AEAD.toy16_nonceSep, rfl, (fun S => ⟨GoTie.EncryptEnv.witness S⟩)⟩

end Tie.C06
end AgeModel
