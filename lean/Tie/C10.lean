/-
  Tie/C10 — in the scrypt stanza unwrap the work factor is validated (canonical
  decimal, Atoi, not above the identity's maximum) before scrypt.Key is called;
  the configurable bounds are 1..30. Facts regenerated from /repo
  (`Extracted/CallOrder.lean`, `Extracted/Consts.lean`). Positional evidence:
  the work-budget oracle of the correspondence decides the property on its own.
-/
import AgeModel.Extracted.CallOrder
import AgeModel.Extracted.Consts
import Proofs.GoTieScrypt
import Proofs.GoTieScryptCtor
import Proofs.GoTieCliLazy
import Proofs.GoTieCliEncId
import Proofs.GoTieCliModes
import Proofs.GoTieNative
import Props.C01
import Proofs.GoTieWitnessA
namespace AgeModel
namespace Tie.C10

/-- the extractor's own verdict (a constant it writes), AND the same fact recomputed here from the event table it
    emits: the source lines of the four events are strictly increasing and `scrypt.Key` occurs once, last -/
theorem checks_precede_kdf :
    Extracted.scryptChecksPrecedeKdf = true ∧
    (Extracted.scryptUnwrapOrder.map (·.2)).Pairwise (· < ·) ∧
    (Extracted.scryptUnwrapOrder.filter (·.1 == "scrypt.Key")).length = 1 ∧
    (Extracted.scryptUnwrapOrder.getLast?.map (·.1)) = some "scrypt.Key" := by decide

/-- the order itself: regexp, Atoi, comparison with the receiver's field, scrypt.Key -/
theorem unwrap_order : Extracted.scryptUnwrapOrder.map (·.1) =
    ["regexp.MatchString", "strconv.Atoi", "compare work factor with receiver field", "scrypt.Key"] := by decide

/-- both setters accept exactly 1..30 -/
theorem setter_bounds : Extracted.scryptSetterBounds.map (·.2) = [(1, 30), (1, 30)] := by decide

/-- the defaults lie inside the legal range, and what a fresh recipient writes a fresh identity accepts -/
theorem defaults_in_range :
    1 ≤ Extracted.scryptDefaultWorkFactor ∧
    Extracted.scryptDefaultWorkFactor ≤ Extracted.scryptDefaultMaxWorkFactor ∧
    Extracted.scryptDefaultMaxWorkFactor ≤ 30 := by decide


/-! ## The code itself (DESIGN.md §5.3)

`(*ScryptIdentity).unwrap`, `(*ScryptIdentity).Unwrap` and `multiUnwrap` are TRANSLATED
from scrypt.go / age.go on every run; `format.DecodeString`, `scrypt.Key`, `aeadDecrypt`
stay abstract (parameters, bundled with what is assumed of them in `GoTie.ScryptEnv`).
What the translated code answers is what the model answers (so `Props.C10`'s
`scrypt_identity_alone`, `workfactor_guard`, `workfactor_canonical`, `kdf_cost_bounded`
are about the source text), and — the clause about WORK — whenever the model's
key-derivation log is empty the code returns WITHOUT CALLING `scrypt.Key`: it is handed
one that faults when called and still returns normally. -/

theorem scrypt_unwrap_tie (P : Prims) (E : GoTie.ScryptEnv P) (pw : Bytes) (maxWF : Nat) (s : Format.Stanza) :
    ∃ r, Extracted.age_ScryptIdentity_unwrap E.D E.K E.A ⟨pw, Int.ofNat maxWF⟩ (GoTie.toGoStanza s) = .ok r ∧
      GoTie.resClass r = (unwrapScrypt P pw maxWF s).1 :=
  GoTie.scrypt_unwrap_tie P E pw maxWF s

/-- no key derivation unless the model logs one -/
theorem scrypt_unwrap_no_kdf (P : Prims) (E : GoTie.ScryptEnv P) (pw : Bytes) (maxWF : Nat) (s : Format.Stanza)
    (h : (unwrapScrypt P pw maxWF s).2 = []) :
    ∃ r, Extracted.age_ScryptIdentity_unwrap E.D (fun _ _ _ _ _ _ => .error (.panic 99)) E.A ⟨pw, Int.ofNat maxWF⟩
        (GoTie.toGoStanza s) = .ok r ∧
      GoTie.resClass r = (unwrapScrypt P pw maxWF s).1 :=
  GoTie.scrypt_unwrap_no_kdf P E pw maxWF s h

/-- when one is derived, its cost parameter is `2^logN` for the logged `logN ≤ maxWF`, and that is the only call -/
theorem scrypt_unwrap_kdf_args (P : Prims) (E : GoTie.ScryptEnv P) (pw : Bytes) (maxWF : Nat) (s : Format.Stanza)
    (logN : Nat) (h : (unwrapScrypt P pw maxWF s).2 = [logN]) :
    logN ≤ maxWF ∧
    ∀ K', (∀ salt, K' pw salt ((2 : Int) ^ logN) 8 1 32 = E.K pw salt ((2 : Int) ^ logN) 8 1 32) →
      Extracted.age_ScryptIdentity_unwrap E.D K' E.A ⟨pw, Int.ofNat maxWF⟩ (GoTie.toGoStanza s) =
      Extracted.age_ScryptIdentity_unwrap E.D E.K E.A ⟨pw, Int.ofNat maxWF⟩ (GoTie.toGoStanza s) :=
  GoTie.scrypt_unwrap_kdf_args P E pw maxWF s logN h

theorem scrypt_Unwrap_tie (P : Prims) (E : GoTie.ScryptEnv P) (pw : Bytes) (maxWF : Nat) (ss : List Format.Stanza) :
    ∃ r, Extracted.age_ScryptIdentity_Unwrap GoTie.errorsIsEq E.D E.K E.A ⟨pw, Int.ofNat maxWF⟩ (ss.map GoTie.toGoStanza) = .ok r ∧
      GoTie.resClass r = (Identity.unwrapLog P (.scrypt pw maxWF) ss).1 :=
  GoTie.scrypt_Unwrap_tie P E pw maxWF ss

/-- a passphrase stanza that is not alone: refused before anything is decoded, derived or opened
    (all three callees fault when called) -/
theorem scrypt_Unwrap_alone (pw : Bytes) (maxWF : Int) (ss : List Format.Stanza)
    (h : ss.any (fun s => s.type = tScrypt) = true) (hn : ss.length ≠ 1) :
    Extracted.age_ScryptIdentity_Unwrap GoTie.errorsIsEq (fun _ => .error (.panic 97)) (fun _ _ _ _ _ _ => .error (.panic 98))
      (fun _ _ _ => .error (.panic 99)) ⟨pw, maxWF⟩ (ss.map GoTie.toGoStanza) =
      .ok ([], some ⟨"age.(*ScryptIdentity).Unwrap", 0, []⟩) :=
  GoTie.scrypt_Unwrap_alone pw maxWF ss h hn

/-! The constructors and setters of scrypt.go, translated on every run: the passphrase is stored
byte for byte (the empty one is the only one refused), the defaults are 18 and 22, the setters
accept exactly 1 … 30. -/

theorem newScryptRecipient_tie (pw : Bytes) :
    Extracted.age_NewScryptRecipient pw =
      .ok (if pw = [] then (⟨[], 0⟩, some ⟨"age.NewScryptRecipient", 0, []⟩) else (⟨pw, 18⟩, none)) :=
  GoTie.newScryptRecipient_tie pw

theorem newScryptIdentity_tie (pw : Bytes) :
    Extracted.age_NewScryptIdentity pw =
      .ok (if pw = [] then (⟨[], 0⟩, some ⟨"age.NewScryptIdentity", 0, []⟩) else (⟨pw, 22⟩, none)) :=
  GoTie.newScryptIdentity_tie pw

theorem setWorkFactor_tie (r : Extracted.age_ScryptRecipient) (logN : Int) :
    Extracted.age_ScryptRecipient_SetWorkFactor r logN =
      if 1 ≤ logN ∧ logN ≤ 30 then .ok { r with workFactor := logN } else .error (.panic 0) :=
  GoTie.setWorkFactor_tie r logN

theorem setMaxWorkFactor_tie (i : Extracted.age_ScryptIdentity) (logN : Int) :
    Extracted.age_ScryptIdentity_SetMaxWorkFactor i logN =
      if 1 ≤ logN ∧ logN ≤ 30 then .ok { i with maxWorkFactor := logN } else .error (.panic 0) :=
  GoTie.setMaxWorkFactor_tie i logN

/-! cmd/age's own passphrase identity, `(*LazyScryptIdentity).Unwrap` (cmd/age/encrypted_keys.go),
translated down through `NewScryptIdentity` and `(*ScryptIdentity).Unwrap`: it is the model's
`CliIdent.lazyUnwrap` with the default maximum 22 — the passphrase is asked for EXACTLY when the
header is one passphrase stanza (a callback that FAULTS when called is not reached otherwise), a
passphrase stanza that is not alone is refused at once, a wrong passphrase is fatal. -/

theorem lazy_unwrap_tie (P : Prims) (E : GoTie.ScryptEnv P) (eCb : Go.Err) (ask : Option Bytes) (ss : List Format.Stanza) :
    ∃ r, Extracted.main_LazyScryptIdentity_Unwrap GoTie.errorsIsEq E.D E.K E.A ⟨GoTie.cbOf eCb ask⟩ (ss.map GoTie.toGoStanza) = .ok r ∧
      GoTie.resClass r = (CliIdent.lazyUnwrap P ask 22 ss).1 :=
  GoTie.lazy_unwrap_tie P E eCb ask ss

theorem lazy_unwrap_no_prompt (P : Prims) (E : GoTie.ScryptEnv P) (ss : List Format.Stanza)
    (h : (CliIdent.lazyUnwrap P none 22 ss).2 = false) :
    ∃ r, Extracted.main_LazyScryptIdentity_Unwrap GoTie.errorsIsEq E.D E.K E.A ⟨.error (.panic 99)⟩ (ss.map GoTie.toGoStanza) = .ok r ∧
      GoTie.resClass r = (CliIdent.lazyUnwrap P none 22 ss).1 :=
  GoTie.lazy_unwrap_no_prompt P E ss h

/-! cmd/age's passphrase-protected identity file, `(*EncryptedIdentity).Unwrap`, translated (its
`decrypt` and the identities inside are parameters; `identities` is a field whose being nil differs
from being empty): once the identities are cached `decrypt` is not called again — it may fault when
called — so the passphrase is asked for at most once per identity value; a failed `decrypt` is
returned as it is and the inner identities are not consulted; the cached identities are tried in
order (`CliIdent.tryAll`), and the "no match" warning is given exactly when all answer "incorrect
identity". -/

theorem encid_cached_tie (P : Prims) {ι : Type} (idOf : ι → Identity) (U : ι → List Extracted.age_Stanza → Go.M (Bytes × Option Go.Err))
    (hU : GoTie.IdsAre P idOf U) (c : Bytes) (pp : Go.M (Bytes × Option Go.Err)) (ids : List ι) (ss : List Format.Stanza) :
    ∃ r, Extracted.main_EncryptedIdentity_Unwrap (fun _ => .error (.panic 97)) U GoTie.errorsIsEq ⟨c, pp, .ok (), some ids⟩ (ss.map GoTie.toGoStanza) =
        .ok (r.1, r.2, ⟨c, pp, .ok (), some ids⟩) ∧
      GoTie.resClass r = CliIdent.tryAll P ss (ids.map idOf) :=
  GoTie.encid_cached_tie P idOf U hU c pp ids ss

theorem encid_cached_warning (P : Prims) {ι : Type} (idOf : ι → Identity) (U : ι → List Extracted.age_Stanza → Go.M (Bytes × Option Go.Err))
    (hU : GoTie.IdsAre P idOf U) (c : Bytes) (pp : Go.M (Bytes × Option Go.Err)) (ids : List ι) (ss : List Format.Stanza)
    (h : CliIdent.tryAll P ss (ids.map idOf) = .incorrect) :
    Extracted.main_EncryptedIdentity_Unwrap (fun _ => .error (.panic 97)) U GoTie.errorsIsEq ⟨c, pp, .error (.panic 98), some ids⟩ (ss.map GoTie.toGoStanza) =
      .error (.panic 98) :=
  GoTie.encid_cached_warning P idOf U hU c pp ids ss h

theorem encid_cached_no_warning (P : Prims) {ι : Type} (idOf : ι → Identity) (U : ι → List Extracted.age_Stanza → Go.M (Bytes × Option Go.Err))
    (hU : GoTie.IdsAre P idOf U) (c : Bytes) (pp : Go.M (Bytes × Option Go.Err)) (ids : List ι) (ss : List Format.Stanza)
    (h : CliIdent.tryAll P ss (ids.map idOf) ≠ .incorrect) :
    ∃ r, Extracted.main_EncryptedIdentity_Unwrap (fun _ => .error (.panic 97)) U GoTie.errorsIsEq ⟨c, pp, .error (.panic 98), some ids⟩ (ss.map GoTie.toGoStanza) =
        .ok (r.1, r.2, ⟨c, pp, .error (.panic 98), some ids⟩) ∧
      GoTie.resClass r = CliIdent.tryAll P ss (ids.map idOf) :=
  GoTie.encid_cached_no_warning P idOf U hU c pp ids ss h

theorem encid_fresh_ok {ι : Type} (U : ι → List Extracted.age_Stanza → Go.M (Bytes × Option Go.Err))
    (Dc : Extracted.main_EncryptedIdentity ι → Go.M (Option Go.Err × Extracted.main_EncryptedIdentity ι))
    (i i' : Extracted.main_EncryptedIdentity ι) (hi : i.identities = none) (hD : Dc i = .ok (none, i'))
    (ids : List ι) (hi' : i'.identities = some ids) (ss : List Extracted.age_Stanza) :
    Extracted.main_EncryptedIdentity_Unwrap Dc U GoTie.errorsIsEq i ss =
      Extracted.main_EncryptedIdentity_Unwrap (fun _ => .error (.panic 97)) U GoTie.errorsIsEq i' ss :=
  GoTie.encid_fresh_ok U Dc i i' hi hD ids hi' ss

theorem encid_fresh_fail {ι : Type}
    (Dc : Extracted.main_EncryptedIdentity ι → Go.M (Option Go.Err × Extracted.main_EncryptedIdentity ι))
    (i i' : Extracted.main_EncryptedIdentity ι) (hi : i.identities = none) (e : Go.Err) (hD : Dc i = .ok (some e, i'))
    (ss : List Extracted.age_Stanza) :
    Extracted.main_EncryptedIdentity_Unwrap Dc (fun _ _ => .error (.panic 96)) GoTie.errorsIsEq i ss = .ok ([], some e, i') :=
  GoTie.encid_fresh_fail Dc i i' hi e hD ss

/-! The command line tool's side (cmd/age/age.go, translated on every run): with `-i` / `-j` the first
identity handed to `decrypt` is ALWAYS `rejectScryptIdentity{}`, which answers a header that is exactly
one passphrase stanza by ending the process (and every other header with "incorrect identity"), so a
passphrase file is never decrypted by, nor silently skipped in favour of, identity files; with `-p`
the passphrase the prompt returned becomes the ONE recipient `encrypt` is given. -/

theorem rejectScrypt_unwrap_tie (stanzas : List Extracted.age_Stanza) :
    Extracted.main_rejectScryptIdentity_Unwrap ⟨⟩ stanzas =
      match stanzas with
      | [s] => if s.Type_ = "scrypt".toUTF8.toList then .error (.panic 1000) else .ok ([], Extracted.age_ErrIncorrectIdentity)
      | _ => .ok ([], Extracted.age_ErrIncorrectIdentity) :=
  GoTie.rejectScrypt_unwrap_tie stanzas

theorem decryptNotPass_reject_first {ι τ υ : Type} (reject : ι) (PIF : Bytes → τ → Go.M (List ι × Option Go.Err × τ)) (ui : υ)
    (NI : Bytes → υ → τ → Go.M (ι × Option Go.Err × τ)) (flags : List Extracted.main_identityFlag) (t0 : τ) (r : τ × List ι)
    (h : GoTie.collectIds PIF ui NI flags t0 [reject] = .ok r) : ∃ more, r.2 = reject :: more :=
  GoTie.decryptNotPass_reject_first reject PIF ui NI flags t0 r h

/-- … stated about the translated function itself (`decryptNotPass_tie` composed with the lemma above): let `decrypt`
    behave ARBITRARILY on identity lists that do not begin with `rejectScryptIdentity{}` — `decryptNotPass` cannot tell,
    because it never calls it on one -/
theorem code_reject_first {ζ ι τ υ : Type} (reject : ι) (PIF : Bytes → τ → Go.M (List ι × Option Go.Err × τ)) (ui : υ)
    (NI : Bytes → υ → τ → Go.M (ι × Option Go.Err × τ)) (D D' : List ι → Bytes → ζ → τ → Go.M τ)
    (hD : ∀ more i o t, D (reject :: more) i o t = D' (reject :: more) i o t)
    (flags : List Extracted.main_identityFlag) (inp : Bytes) (out : ζ) (t0 : τ) :
    Extracted.main_decryptNotPass reject PIF ui NI D flags inp out t0 =
      Extracted.main_decryptNotPass reject PIF ui NI D' flags inp out t0 := by
  rw [GoTie.decryptNotPass_tie, GoTie.decryptNotPass_tie]
  cases h : GoTie.collectIds PIF ui NI flags t0 [reject] with
  | error e => rfl
  | ok r =>
    obtain ⟨more, hm⟩ := decryptNotPass_reject_first reject PIF ui NI flags t0 r h
    simp only [bind, Except.bind, hm, hD]

theorem encryptPass_tie {ζ ρ τ : Type} (Pr : τ → Go.M (Bytes × Option Go.Err × τ)) (NS : Bytes → τ → Go.M (ρ × Option Go.Err × τ))
    (Cfg : ρ → Go.M Unit) (E : List ρ → Bytes → ζ → Bool → τ → Go.M τ) (inp : Bytes) (out : ζ) (armor : Bool) (t0 : τ) :
    Extracted.main_encryptPass Pr NS Cfg E inp out armor t0 =
      (do let p ← Pr t0
          if (p.2.1 != none) = true then .error (.panic 1000)
          else do
            let r ← NS p.1 p.2.2
            if (r.2.1 != none) = true then .error (.panic 1001)
            else do
              Cfg r.1
              E [r.1] inp out armor r.2.2) :=
  GoTie.encryptPass_tie Pr NS Cfg E inp out armor t0

/-! ### The passphrase recipient end to end, stated about the CODE

The translated `(*ScryptRecipient).Wrap` followed by the translated `(*ScryptIdentity).unwrap`: for EVERY passphrase,
every work factor the identity's bound admits (1 ≤ logN ≤ 30, logN ≤ maxWF), every 16-byte file key and every tape that
holds a salt, the stanza the source's `Wrap` produces is opened by the source's `unwrap` under the same passphrase to
exactly that file key (the two ties composed with `Props.C01.scrypt_wrap_unwrap`). -/

theorem code_scrypt_wrap_unwrap (P : Prims) (hP : P.Correct) {κ : Type} (E : GoTie.NativeEnv P κ)
    (pw fk tape : Bytes) (logN maxWF : Nat) (h1 : 1 ≤ logN) (h30 : logN ≤ 30) (hmax : logN ≤ maxWF) (hfk : fk.length = 16)
    (salt t : Bytes) (hd : draw scryptSaltSize tape = some (salt, t)) :
    Extracted.age_ScryptRecipient_Wrap (GoTie.tapeRead E.eRand) E.Enc E.K E.Seal ⟨pw, Int.ofNat logN⟩ fk tape =
        .ok ([GoTie.toGoStanza (wrapScrypt P pw logN salt fk)], none, t) ∧
      ∃ r, Extracted.age_ScryptIdentity_unwrap E.D E.K E.A ⟨pw, Int.ofNat maxWF⟩ (GoTie.toGoStanza (wrapScrypt P pw logN salt fk)) = .ok r ∧
        GoTie.resClass r = .key fk := by
  have hsalt : salt.length = 16 := by
    have := GoTie.draw_length hd
    simpa [scryptSaltSize] using this
  constructor
  · obtain ⟨res, hrun, hres⟩ := GoTie.scrypt_wrap_tie P E pw logN (by omega) fk tape
    rw [hd] at hres
    rw [hrun, hres]
  · obtain ⟨r, hrun, hcls⟩ := scrypt_unwrap_tie P E.toScryptEnv pw maxWF (wrapScrypt P pw logN salt fk)
    exact ⟨r, hrun, by rw [hcls, Props.C01.scrypt_wrap_unwrap P hP pw salt fk logN maxWF h1 h30 hmax hsalt hfk]⟩

/-- **the assumption structures this file's theorems take are satisfiable** (for a lawful toy primitive suite
    with the 16-byte tag, where they mention primitives): none of the theorems above is vacuous. The instances are in
    `Proofs/GoTieWitnessA.lean` / `GoTieWitnessB.lean`. -/
theorem assumptions_satisfiable :
    Prims.toy16.Correct ∧ Prims.toy16.aead.NonceSep ∧ Prims.toy16.aead.T = 16 ∧
    Nonempty (GoTie.NativeEnv Prims.toy16 Bytes) ∧
    Nonempty (GoTie.ScryptEnv Prims.toy16) :=
  ⟨Prims.toy16_correct, AEAD.toy16_nonceSep, rfl, ⟨GoTie.NativeEnv.witness⟩, ⟨GoTie.ScryptEnv.witness⟩⟩

end Tie.C10
end AgeModel
