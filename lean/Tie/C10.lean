/-
  Tie/C10 — in the scrypt stanza unwrap the work factor is validated (canonical
  decimal, Atoi, not above the identity's maximum) before scrypt.Key is called;
  the configurable bounds are 1..30. Facts regenerated from /repo
  (`Extracted/CallOrder.lean`, `Extracted/Consts.lean`). Positional evidence:
  the work-budget oracle of the correspondence decides the property on its own.
-/
import AgeModel.Extracted.CallOrder
import AgeModel.Extracted.Consts
namespace AgeModel
namespace Tie.C10

theorem checks_precede_kdf : Extracted.scryptChecksPrecedeKdf = true := by decide

/-- the order itself: regexp, Atoi, comparison with the receiver's field, scrypt.Key -/
theorem unwrap_order : Extracted.scryptUnwrapOrder.map (·.1) =
    ["regexp.MatchString", "strconv.Atoi", "compare work factor with receiver field", "scrypt.Key"] := by decide

/-- both setters accept exactly 1..30 -/
theorem setter_bounds : Extracted.scryptSetterBounds.map (·.2) = [(1, 30), (1, 30)] := by decide

/-- the defaults lie inside the legal range, and what a fresh recipient writes a fresh identity accepts -/
theorem defaults_in_range :
    1 ≤ Extracted.scryptDefaultWorkFactor ∧
    Extracted.scryptDefaultWorkFactor ≤ Extracted.scryptDefaultMaxWorkFactor ∧
    Extracted.scryptDefaultMaxWorkFactor ≤ 30 := by decide

end Tie.C10
end AgeModel
