/-
  Tie/C01 — age.Decrypt itself (DESIGN.md §5.3): identities are consulted in the order given and
  none after the first that opens the file (or fails). `age.Decrypt` is TRANSLATED from age.go on
  every run with `Identity.Unwrap` abstract; `decrypt_consults_prefix`: whatever the identities
  AFTER the first one that does not answer "incorrect identity" would do — faulting included —
  is never asked for: the result is that of the list cut after that identity. With `decrypt_tie`
  (the translated `Decrypt` returns what the model's `decryptInit` returns) the consultation clause
  of `Props.C01.decrypt_encrypt` is about the source text.
-/
import Proofs.GoTieDecrypt
import Proofs.GoTieNative
import Proofs.GoTieSshRsa
import Props.C01
import Proofs.GoTieSsh
import Proofs.GoTieWitnessA
import Proofs.GoTieFileRT
import Proofs.GoTiePipeline
namespace AgeModel
namespace Tie.C01

theorem decrypt_consults_prefix (P : Prims) {ι : Type} (E : GoTie.DecryptEnv P ι) (file : Bytes)
    (pre : List ι) (i : ι) (post : List ι) (hdr : Format.Header) (rest : Bytes)
    (hp : Format.parse file = .ok (hdr, rest))
    (hi : (E.idOf i).unwrap P hdr.stanzas ≠ .incorrect)
    (U' : ι → List Extracted.age_Stanza → Go.M (Bytes × Option Go.Err))
    (hU' : ∀ j, j ∈ pre ++ [i] → U' j = E.U j) :
    Extracted.age_Decrypt E.D U' GoTie.errorsIsEq E.mac E.newReader E.key file (pre ++ i :: post) =
    Extracted.age_Decrypt E.D E.U GoTie.errorsIsEq E.mac E.newReader E.key file (pre ++ [i]) :=
  GoTie.decrypt_consults_prefix P E file pre i post hdr rest hp hi U' hU'

/-- the translated `age.Decrypt` returns what the model's `decryptInit` returns, for EVERY file and identity list:
    the reader made from the model's stream key and payload; or, when the model says identity number `idx` failed
    (`.fatal idx`), no reader and the very error that identity's `Unwrap` (`E.U`) returned on the header's stanzas —
    neither nil nor `ErrIncorrectIdentity`; or no reader and the error value of the model's error class.
    `DecryptEnv.hU` requires an identity that succeeds to return a NON-EMPTY key (the translation identifies nil and
    empty slices), so this covers identity lists none of whose members answers with an empty key; the module's SSH
    identities do on hand-built stanzas — that corner is the model's `endsNonNil`, tied by the correspondence cases
    `fksize/*`. -/
theorem decrypt_tie (P : Prims) {ι : Type} (E : GoTie.DecryptEnv P ι) (file : Bytes) (ids : List ι) :
    ∃ res, Extracted.age_Decrypt E.D E.U GoTie.errorsIsEq E.mac E.newReader E.key file ids = .ok res ∧
      match (decryptInit P (ids.map E.idOf) file).1 with
      | .ok (k, payload) => res = (k ++ payload, none)
      | .error (.fatal idx) => ∃ hdr payload j r, Format.parse file = .ok (hdr, payload) ∧ ids[idx]? = some j ∧
          E.U j (hdr.stanzas.map GoTie.toGoStanza) = .ok r ∧ r.2 ≠ none ∧ r.2 ≠ Extracted.age_ErrIncorrectIdentity ∧
          res = ([], r.2)
      | .error e => res = ([], GoTie.decryptErr e none) :=
  GoTie.decrypt_tie P E file ids

/-! The native identity under that abstract `Identity.Unwrap`: `(*X25519Identity).unwrap` and `.Unwrap`
are TRANSLATED from x25519.go; with the primitives as parameters (`GoTie.NativeEnv`) they answer, for
every stanza list, what the model's X25519 identity answers. -/

theorem x25519_unwrap_tie (P : Prims) {κ : Type} (E : GoTie.NativeEnv P κ) (sk : Bytes) (s : Format.Stanza) :
    ∃ r, Extracted.age_X25519Identity_unwrap E.D E.X E.H E.R E.A ⟨sk, (P.x25519 sk P.basepoint).getD []⟩ (GoTie.toGoStanza s) = .ok r ∧
      GoTie.resClass r = unwrapX25519 P sk s :=
  GoTie.x25519_unwrap_tie P E sk s

theorem x25519_Unwrap_tie (P : Prims) {κ : Type} (E : GoTie.NativeEnv P κ) (sk : Bytes) (ss : List Format.Stanza) :
    ∃ r, Extracted.age_X25519Identity_Unwrap GoTie.errorsIsEq E.D E.X E.H E.R E.A ⟨sk, (P.x25519 sk P.basepoint).getD []⟩ (ss.map GoTie.toGoStanza) = .ok r ∧
      GoTie.resClass r = (Identity.unwrapLog P (.x25519 sk) ss).1 :=
  GoTie.x25519_Unwrap_tie P E sk ss

/-! The SSH identities (agessh/agessh.go), translated on every run: for every stanza list they
answer what the model's identities answer (ssh-ed25519: a malformed argument is reported before the
tag is compared, a failed decryption under the right tag is fatal; ssh-rsa likewise). -/

theorem sshEd_Unwrap_tie (P : Prims) {κ π : Type} (E : GoTie.SshEnv P κ π) (key : π) (sk : Bytes) (ss : List Format.Stanza) :
    ∃ r, Extracted.agessh_Ed25519Identity_Unwrap GoTie.errorsIsEq E.D E.Fp E.X E.H E.Mar E.R E.OpenS ⟨sk, (P.x25519 sk P.basepoint).getD [], key⟩ (ss.map GoTie.toGoStanza) = .ok r ∧
      GoTie.resClass r = (Identity.unwrapLog P (.sshEd (E.wire key) sk) ss).1 :=
  GoTie.sshEd_Unwrap_tie P E key sk ss

theorem sshRsa_Unwrap_tie (P : Prims) {π β γ : Type} (E : GoTie.RsaEnv P π β γ) (key : π) (priv : γ) (ss : List Format.Stanza) :
    ∃ r, Extracted.agessh_RSAIdentity_Unwrap GoTie.errorsIsEq E.Fp E.DecO ⟨priv, key⟩ (ss.map GoTie.toGoStanza) = .ok r ∧
      GoTie.resClass r = (Identity.unwrapLog P (.sshRsa (E.wire key) (E.privOf priv)) ss).1 :=
  GoTie.sshRsa_Unwrap_tie P E key priv ss

/-! ### One recipient type end to end, stated about the CODE

The translated `(*X25519Recipient).Wrap` followed by the translated `(*X25519Identity).unwrap`: for EVERY key pair,
every 16-byte file key and every random tape that holds an ephemeral secret, the stanza the source's `Wrap` produces is
opened by the source's `unwrap` to exactly that file key (the two ties composed with `Props.C01.x25519_wrap_unwrap`;
the primitives are parameters with the functional laws `Prims.Correct`). -/

theorem code_x25519_wrap_unwrap (P : Prims) (hP : P.Correct) {κ : Type} (E : GoTie.NativeEnv P κ)
    (sk pk fk tape : Bytes) (hpk : P.x25519 sk P.basepoint = some pk) (hfk : fk.length = 16)
    (eph t : Bytes) (hd : draw 32 tape = some (eph, t)) (st : Format.Stanza) (hw : wrapX25519 P pk eph fk = some st) :
    Extracted.age_X25519Recipient_Wrap (GoTie.tapeRead E.eRand) E.X P.basepoint E.Enc E.H E.R E.Seal ⟨pk⟩ fk tape =
        .ok ([GoTie.toGoStanza st], none, t) ∧
      ∃ r, Extracted.age_X25519Identity_unwrap E.D E.X E.H E.R E.A ⟨sk, (P.x25519 sk P.basepoint).getD []⟩ (GoTie.toGoStanza st) = .ok r ∧
        GoTie.resClass r = .key fk := by
  constructor
  · obtain ⟨res, hrun, hres⟩ := GoTie.x25519_wrap_tie P E pk fk tape
    simp only [wrapOne, hd, hw, Option.map_some] at hres
    rw [hrun, hres.1]
    rfl
  · obtain ⟨r, hrun, hcls⟩ := x25519_unwrap_tie P E sk st
    exact ⟨r, hrun, by rw [hcls, Props.C01.x25519_wrap_unwrap P hP sk pk eph fk st hpk hfk hw]⟩

/-- the same for `ssh-ed25519`: the stanza the translated `(*Ed25519Recipient).Wrap` produces for the Montgomery form `pk`
    of an SSH key is opened by the translated `(*Ed25519Identity).unwrap` holding the matching scalar to the file key -/
theorem code_sshEd_wrap_unwrap (P : Prims) (hP : P.Correct) {κ π : Type} (E : GoTie.SshEnv P κ π) (key : π)
    (sk pk fk tape : Bytes) (hpk : P.x25519 sk P.basepoint = some pk)
    (eph t : Bytes) (hd : draw 32 tape = some (eph, t)) (st : Format.Stanza) (hw : wrapSshEd P (E.wire key) pk eph fk = some st) :
    Extracted.agessh_Ed25519Recipient_Wrap (GoTie.tapeRead E.eRand) E.X P.basepoint E.H E.Mar E.R E.Fp E.Enc E.Seal ⟨key, pk⟩ fk tape =
        .ok ([GoTie.toGoStanza st], none, t) ∧
      ∃ r, Extracted.agessh_Ed25519Identity_unwrap E.D E.Fp E.X E.H E.Mar E.R E.OpenS ⟨sk, (P.x25519 sk P.basepoint).getD [], key⟩
          (GoTie.toGoStanza st) = .ok r ∧ GoTie.resClass r = .key fk := by
  constructor
  · obtain ⟨res, hrun, hres⟩ := GoTie.sshEd_wrap_tie P E key pk fk tape
    simp only [wrapOne, hd, hw, Option.map_some] at hres
    rw [hrun, hres.1]
    rfl
  · obtain ⟨r, hrun, hcls⟩ := GoTie.sshEd_unwrap_tie P E key sk st
    exact ⟨r, hrun, by rw [hcls, Props.C01.sshed_wrap_unwrap P hP (E.wire key) sk pk eph fk st hpk hw]⟩

/-- and for `ssh-rsa`: what the translated `(*RSARecipient).Wrap` produces under a public key is opened by the translated
    `(*RSAIdentity).unwrap` holding the matching private key (`P.rsaPair`) to the file key -/
theorem code_sshRsa_wrap_unwrap (P : Prims) (hP : P.Correct) {π β γ : Type} (E : GoTie.RsaEnv P π β γ) (key : π) (pub : β) (priv : γ)
    (fk tape : Bytes) (hpair : P.rsaPair (E.pubOf pub) (E.privOf priv))
    (seed t : Bytes) (hd : draw 32 tape = some (seed, t)) (st : Format.Stanza)
    (hw : wrapSshRsa P (E.wire key) (E.pubOf pub) seed fk = some st) :
    Extracted.agessh_RSARecipient_Wrap E.Fp E.EncO ⟨key, pub⟩ fk tape = .ok ([GoTie.toGoStanza st], none, t) ∧
      ∃ r, Extracted.agessh_RSAIdentity_unwrap E.Fp E.DecO ⟨priv, key⟩ (GoTie.toGoStanza st) = .ok r ∧
        GoTie.resClass r = .key fk := by
  constructor
  · obtain ⟨res, hrun, hres⟩ := GoTie.sshRsa_wrap_tie P E key pub fk tape
    simp only [wrapOne, hd, hw, Option.map_some] at hres
    rw [hrun, hres.1]
    rfl
  · obtain ⟨r, hrun, hcls⟩ := GoTie.sshRsa_unwrap_tie P E key priv st
    exact ⟨r, hrun, by rw [hcls, Props.C01.sshrsa_wrap_unwrap P hP (E.wire key) (E.pubOf pub) (E.privOf priv) seed fk st hpair hw]⟩

/-! Encrypt then Decrypt, about the two translated functions (`code_file_roundtrip`): when the translated
`age.Encrypt` has run on an empty destination that takes every write, the destination holds
header ‖ nonce and the returned writer seals under the stream key K derived from the file key and
that nonce; for EVERY byte string `c` written after it, the translated `age.Decrypt` over the
destination's bytes followed by `c` — any identity list in which the first identity that does not
answer "incorrect identity" opens the file key — returns a reader under the SAME K over exactly
`c`. With `Tie/C12.code_stream_roundtrip` (translated stream writer and reader under one key) this is
the property's pipeline at the level of the source text. -/

theorem code_file_roundtrip (P : Prims) (hP : P.Correct) {ρ δ ω ι : Type}
    (EE : GoTie.EncryptEnv P Stream.DstSpec.perfect ρ δ ω) (DE : GoTie.DecryptEnv P ι)
    (d : δ) (hd : (EE.absD d).acc = []) (rs : List ρ) (tape : Bytes)
    (hrs : ∀ r ∈ rs.map EE.recOf, r.ProducesWF P)
    (fk : Bytes) (stanzas : List Format.Stanza) (t nonce t' : Bytes)
    (hh : encryptHeader P tape (rs.map EE.recOf) = .ok (fk, stanzas, t))
    (hn : draw streamNonceSize t = some (nonce, t'))
    (pre post : List ι) (id : ι)
    (hpre : ∀ i ∈ pre, (DE.idOf i).unwrap P stanzas = .incorrect) (hid : (DE.idOf id).unwrap P stanzas = .key fk) :
    ∃ res, Extracted.age_Encrypt EE.nilW (GoTie.tapeRead EE.eRand) EE.W EE.mac EE.marshalF EE.write EE.newWriter EE.key d rs tape = .ok res ∧
      res.2.1 = none ∧ res.1 = EE.mkW (streamKey P fk nonce) res.2.2.1 ∧ res.2.2.2 = t' ∧
      (EE.absD res.2.2.1).acc = headerBytes P fk stanzas ++ nonce ∧
      ∀ c : Bytes, Extracted.age_Decrypt DE.D DE.U GoTie.errorsIsEq DE.mac DE.newReader DE.key ((EE.absD res.2.2.1).acc ++ c) (pre ++ id :: post) =
        .ok (streamKey P fk nonce ++ c, none) :=
  GoTie.code_file_roundtrip P hP EE DE d hd rs tape hrs fk stanzas t nonce t' hh hn pre post id hpre hid

/-- non-vacuity: with the toy primitive suite, one X25519 recipient, a 64-byte tape and the identity whose public key
    the toy X25519 makes of any secret, the premises hold — so the conclusion does, for every `c` -/
theorem code_file_roundtrip_instance :
    let EE := GoTie.EncryptEnv.witness Stream.DstSpec.perfect
    let DE := GoTie.DecryptEnv.witness
    ∃ res K, Extracted.age_Encrypt EE.nilW (GoTie.tapeRead EE.eRand) EE.W EE.mac EE.marshalF EE.write EE.newWriter EE.key
          ⟨[], ()⟩ [Recipient.x25519 (List.replicate 32 0)] (List.replicate 64 7) = .ok res ∧ res.2.1 = none ∧
      ∀ c : Bytes, Extracted.age_Decrypt DE.D DE.U GoTie.errorsIsEq DE.mac DE.newReader DE.key ((EE.absD res.2.2.1).acc ++ c)
          [Identity.x25519 [1]] = .ok (K ++ c, none) := by
  intro EE DE
  have hP := Prims.toy16_correct
  obtain ⟨fk, st, t, hh, hid, ht⟩ : ∃ fk st t, encryptHeader Prims.toy16 (List.replicate 64 7) [Recipient.x25519 (List.replicate 32 0)] = .ok (fk, st, t) ∧
      (Identity.x25519 [1]).unwrap Prims.toy16 st = .key fk ∧ t = List.replicate 16 7 :=
    ⟨_, _, _, rfl, by decide, by decide⟩
  have hn : draw streamNonceSize t = some (List.replicate 16 7, []) := by subst ht; decide
  have hid' : (DE.idOf (Identity.x25519 [1])).unwrap Prims.toy16 st = .key fk := by
    have hne : (Identity.x25519 [1]).unwrap Prims.toy16 st ≠ .key [] := by
      rw [hid]; intro e
      have hfk := (encryptHeader_fk hh).1
      simp only [UnwrapResult.key.injEq] at e
      rw [e] at hfk; simp [fileKeySize] at hfk
    show (GoTie.sanitize Prims.toy16 (Identity.x25519 [1])).unwrap Prims.toy16 st = .key fk
    rw [GoTie.sanitize_unwrap Prims.toy16 _ st hne, hid]
  obtain ⟨res, h1, h2, _, _, _, h6⟩ := code_file_roundtrip Prims.toy16 hP EE DE ⟨[], ()⟩ rfl [Recipient.x25519 (List.replicate 32 0)]
    (List.replicate 64 7) (by intro r hr; simp only [List.map_cons, List.map_nil, List.mem_singleton] at hr; subst hr; exact producesWF_x25519 _ hP _)
    fk st t _ _ hh hn [] [] (Identity.x25519 [1]) (by intro i hi; cases hi) hid'
  exact ⟨res, _, h1, h2, h6⟩

/-! **The whole pipeline in one statement** (`code_pipeline`): the translated `age.Encrypt` on an empty destination
that takes every write; the writer it returns is the translated stream writer over that destination; ANY input in
ANY split into writes goes through the translated `Write`, then `Close`; the destination then holds
header ‖ nonce ‖ payload; the translated `age.Decrypt` over those bytes — any identity list whose first identity
not answering "incorrect identity" opens the file key — returns a reader under the SAME stream key over the payload;
and the translated stream reader over that payload under that key, called with any sequence of positive buffer sizes
long enough to reach the end, returns exactly the input followed by io.EOF. What joins the halves is stated as
hypotheses: the handle `Encrypt` returns IS the stream writer's initial state over the destination (`hmk`: what
`stream.NewWriter` builds, `Tie/C12.newWriter_tie`) and the two views of the destination coincide (`hD`). -/

theorem code_pipeline (P : Prims) (hP : P.Correct) (hN : P.aead.NonceSep) {ρ δ α ι : Type}
    (EE : GoTie.EncryptEnv P Stream.DstSpec.perfect ρ δ (Extracted.stream_Writer α δ)) (DE : GoTie.DecryptEnv P ι)
    (d : δ) (hd : (EE.absD d).acc = []) (rs : List ρ) (tape : Bytes)
    (hrs : ∀ r ∈ rs.map EE.recOf, r.ProducesWF P)
    (fk : Bytes) (stanzas : List Format.Stanza) (t nonce t' : Bytes)
    (hh : encryptHeader P tape (rs.map EE.recOf) = .ok (fk, stanzas, t))
    (hn : draw streamNonceSize t = some (nonce, t'))
    (pre post : List ι) (id : ι)
    (hpre : ∀ i ∈ pre, (DE.idOf i).unwrap P stanzas = .incorrect) (hid : (DE.idOf id).unwrap P stanzas = .key fk)
    (a : α)
    (hmk : ∀ d', EE.mkW (streamKey P fk nonce) d' = ⟨a, d', 0, 0, List.replicate 65552 0, List.replicate 12 0, none⟩)
    (SE : GoTie.AeadEnv α P.aead (streamKey P fk nonce)) (D : GoTie.DstEnv δ Stream.DstSpec.perfect) (hD : D.absD = EE.absD)
    (ps : List Bytes) (hlen : ps.flatten.length < 2 ^ 64) (sizes : List Nat) (hpos : ∀ s ∈ sizes, 0 < s)
    (hlong : ps.flatten.length + (Stream.encrypt P.aead 65536 (streamKey P fk nonce) ps.flatten).length + 1 < sizes.length) :
    ∃ res w1 w2 r',
      Extracted.age_Encrypt EE.nilW (GoTie.tapeRead EE.eRand) EE.W EE.mac EE.marshalF EE.write EE.newWriter EE.key d rs tape = .ok res ∧
      res.2.1 = none ∧
      GoTie.streamWrites SE D res.1 ps = .ok (none, w1) ∧
      Extracted.stream_Writer_Close SE.seal_ D.write w1 = .ok (none, w2) ∧
      (EE.absD w2.dst).acc = headerBytes P fk stanzas ++ nonce ++ Stream.encrypt P.aead 65536 (streamKey P fk nonce) ps.flatten ∧
      Extracted.age_Decrypt DE.D DE.U GoTie.errorsIsEq DE.mac DE.newReader DE.key (EE.absD w2.dst).acc (pre ++ id :: post) =
        .ok (streamKey P fk nonce ++ Stream.encrypt P.aead 65536 (streamKey P fk nonce) ps.flatten, none) ∧
      GoTie.streamReads SE ⟨a, ⟨Stream.encrypt P.aead 65536 (streamKey P fk nonce) ps.flatten, false⟩, 0, 0, List.replicate 65552 0, none,
          List.replicate 12 0⟩ sizes = .ok (r', ps.flatten, Go.io_EOF) :=
  GoTie.code_pipeline P hP hN EE DE d hd rs tape hrs fk stanzas t nonce t' hh hn pre post id hpre hid a hmk SE D hD ps hlen sizes hpos hlong

/-- non-vacuity of the pipeline: toy primitives, one X25519 recipient, a 64-byte tape, the writer handle being the
    stream writer's initial state, ANY input below 2^64 bytes in any split, one-byte reads — every premise holds, so
    the run exists and ends with the input followed by io.EOF -/
theorem code_pipeline_instance (ps : List Bytes) (hlen : ps.flatten.length < 2 ^ 64) :
    ∃ (K payload : Bytes) (sizes : List Nat) (r' : Extracted.stream_Reader Unit),
      (∀ s ∈ sizes, 0 < s) ∧
      GoTie.streamReads (GoTie.AeadEnv.witness K) ⟨(), ⟨payload, false⟩, 0, 0, List.replicate 65552 0, none, List.replicate 12 0⟩ sizes =
        .ok (r', ps.flatten, Go.io_EOF) ∧
      ∃ file : Bytes, Extracted.age_Decrypt GoTie.DecryptEnv.witness.D GoTie.DecryptEnv.witness.U GoTie.errorsIsEq GoTie.DecryptEnv.witness.mac
          GoTie.DecryptEnv.witness.newReader GoTie.DecryptEnv.witness.key file [Identity.x25519 [1]] = .ok (K ++ payload, none) := by
  let mkW : Bytes → Stream.Dst Stream.DstSpec.perfect → Extracted.stream_Writer Unit (Stream.Dst Stream.DstSpec.perfect) :=
    fun _ d => ⟨(), d, 0, 0, List.replicate 65552 0, List.replicate 12 0, none⟩
  let EE := GoTie.EncryptEnv.witnessW Stream.DstSpec.perfect (mkW [] ⟨[], ()⟩) mkW
  let DE := GoTie.DecryptEnv.witness
  have hP := Prims.toy16_correct
  obtain ⟨fk, st, t, hh, hid, ht⟩ : ∃ fk st t, encryptHeader Prims.toy16 (List.replicate 64 7) [Recipient.x25519 (List.replicate 32 0)] = .ok (fk, st, t) ∧
      (Identity.x25519 [1]).unwrap Prims.toy16 st = .key fk ∧ t = List.replicate 16 7 :=
    ⟨_, _, _, rfl, by decide, by decide⟩
  have hn : draw streamNonceSize t = some (List.replicate 16 7, []) := by subst ht; decide
  have hid' : (DE.idOf (Identity.x25519 [1])).unwrap Prims.toy16 st = .key fk := by
    have hne : (Identity.x25519 [1]).unwrap Prims.toy16 st ≠ .key [] := by
      rw [hid]; intro e
      have hfk := (encryptHeader_fk hh).1
      simp only [UnwrapResult.key.injEq] at e
      rw [e] at hfk; simp [fileKeySize] at hfk
    show (GoTie.sanitize Prims.toy16 (Identity.x25519 [1])).unwrap Prims.toy16 st = .key fk
    rw [GoTie.sanitize_unwrap Prims.toy16 _ st hne, hid]
  let n := ps.flatten.length + (Stream.encrypt Prims.toy16.aead 65536 (streamKey Prims.toy16 fk (List.replicate 16 7)) ps.flatten).length + 2
  obtain ⟨res, w1, w2, r', _, _, _, _, _, hdec, hrd⟩ := code_pipeline Prims.toy16 hP AEAD.toy16_nonceSep EE DE ⟨[], ()⟩ rfl
    [Recipient.x25519 (List.replicate 32 0)] (List.replicate 64 7)
    (by intro r hr; simp only [List.map_cons, List.map_nil, List.mem_singleton] at hr; subst hr; exact producesWF_x25519 _ hP _)
    fk st t _ _ hh hn [] [] (Identity.x25519 [1]) (by intro i hi; cases hi) hid' () (fun _ => rfl)
    (GoTie.AeadEnv.witness (streamKey Prims.toy16 fk (List.replicate 16 7))) (GoTie.DstEnv.witness Stream.DstSpec.perfect) rfl ps hlen (List.replicate n 1)
    (by intro s hs; rw [List.mem_replicate] at hs; omega) (by rw [List.length_replicate]; omega)
  exact ⟨streamKey Prims.toy16 fk (List.replicate 16 7), _, _, r', by intro s hs; rw [List.mem_replicate] at hs; omega, hrd, _, hdec⟩

/-- **the assumption structures this file's theorems take are satisfiable** (for a lawful toy primitive suite
    with the 16-byte tag, where they mention primitives): none of the theorems above is vacuous. The instances are in
    `Proofs/GoTieWitnessA.lean` / `GoTieWitnessB.lean`. -/
theorem assumptions_satisfiable :
    Prims.toy16.Correct ∧ Prims.toy16.aead.NonceSep ∧ Prims.toy16.aead.T = 16 ∧
    Nonempty (GoTie.DecryptEnv Prims.toy16 Identity) ∧
    Nonempty (GoTie.NativeEnv Prims.toy16 Bytes) ∧
    Nonempty (GoTie.RsaEnv Prims.toy16 Bytes Bytes Bytes) ∧
    Nonempty (GoTie.SshEnv Prims.toy16 Bytes Bytes) :=
  ⟨Prims.toy16_correct, AEAD.toy16_nonceSep, rfl, ⟨GoTie.DecryptEnv.witness⟩, ⟨GoTie.NativeEnv.witness⟩, ⟨GoTie.RsaEnv.witness⟩, ⟨GoTie.SshEnv.witness⟩⟩

end Tie.C01
end AgeModel
