/-
  Tie/C08 — the de-armoring reader and the line wrapper, as they stand in the source.

  `(*armoredReader).Read` (armor/armor.go; its closures `getLine`, `drainTrailing` and `setErr`
  included) is TRANSLATED from /repo on every run and proved to SIMULATE the model's reader machine
  `Armor.AReader.read1` with W = 1024 on a source that ends cleanly (`armor_read_tie`): from related
  states, one `Read(p)` on each side copies the same bytes, reports corresponding errors (nil /
  io.EOF / *armor.Error) and leaves related states. `Props.C08`'s reader theorems
  (`armor_reader_refines_spec`, `armor_canonical`, `armor_errors_typed`, `armor_reader_sticky`,
  `armor_error_leaves_no_data`) are statements about that machine, hence about the source text.
  `base64.StdEncoding.Strict().Decode` is a parameter (`GoTie.B64DecEnv`: it is the model's strict
  `B64.decStd`); `len(bytes.TrimSpace(b)) == 0` is proved to be the model's `allSpace`.
  `(*WrappedBase64Encoder).writeWrapped` (internal/format/format.go), the 64-column wrapper under
  the armor writer and under header bodies, is translated too and proved to emit `wrapCols`
  (= `Format.wrap` on a fresh line) in one destination write. The armor WRITER's glue around it
  (encoding/base64's streaming encoder calling back) stays tied by the correspondence.
-/
import Proofs.GoTieArmorR
import Proofs.GoTieWrap
import Proofs.GoTieArmorW
import Proofs.GoTieArmorRT
import Proofs.GoTieWitnessB
namespace AgeModel
namespace Tie.C08
open Extracted Armor

theorem allSpace_eq (b : Bytes) : Go.bytes_allSpace b = Armor.allSpace b := GoTie.allSpace_eq b

theorem armor_new_rel (t : Bytes) :
    GoTie.ARel ⟨t, false, 0, 0, List.replicate 48 0, none⟩ (AReader.new t) := GoTie.armor_new_rel t

theorem armor_read_tie (E : GoTie.B64DecEnv) (g : armor_armoredReader) (m : AReader) (h : GoTie.ARel g m) (p : Bytes) :
    ∃ res, armor_armoredReader_Read E.Dec g p = .ok res ∧
      res.1 = Int.ofNat (m.read1 1024 false p.length).2.1.length ∧
      res.2.2.2 = (m.read1 1024 false p.length).2.1 ++ p.drop (m.read1 1024 false p.length).2.1.length ∧
      GoTie.aErrRel (m.read1 1024 false p.length).2.2 res.2.1 ∧
      GoTie.ARel res.2.2.1 (m.read1 1024 false p.length).1 :=
  GoTie.armor_read_tie E g m h p

theorem writeWrapped_tie {δ ω : Type} (write : δ → Bytes → Go.M (Int × Option Go.Err × δ))
    (w : format_WrappedBase64Encoder ω δ) (p : Bytes) (hbuf : w.buf = []) (hw : 0 ≤ w.written) :
    format_WrappedBase64Encoder_writeWrapped write w p = (do
      let t ← Go.buffer_WriteTo write (Armor.wrapCols w.written.toNat p).1 w.dst
      pure (0, t.2.1, { w with written := w.written + Int.ofNat p.length, buf := t.2.2.1, dst := t.2.2.2 })) :=
  GoTie.writeWrapped_tie write w p hbuf hw

theorem lastLineIsEmpty_tie {δ ω : Type} (w : format_WrappedBase64Encoder ω δ) (hw : 0 ≤ w.written) :
    format_WrappedBase64Encoder_LastLineIsEmpty w = .ok (decide (w.written.toNat % 64 = 0)) :=
  GoTie.lastLineIsEmpty_tie w hw

/-! The armoring writer (`(*armoredWriter).Write` / `.Close`, armor/armor.go), translated on every
run with the destination and the wrapped base64 encoder as abstract state (`GoTie.ArmorWEnv`): for
EVERY sequence of writes — none at all included — followed by `Close`, on a destination that takes
every write, what has reached the destination is `Armor.armor` of the concatenated input, and a
second `Close` is refused without touching it. What is assumed of the encoder holds while it is open
(`isOpen`; nothing is assumed of a closed base64 encoder), and the assumptions are satisfiable:
`GoTie.ArmorWEnv.canonical`. -/

theorem armor_writer_tie {δ ω : Type} (E : GoTie.ArmorWEnv δ ω) (ww0 : ω) (d0 : δ)
    (h0 : E.absI ww0 = [] ∧ E.absO ww0 = [] ∧ E.isOpen ww0) (ps : List Bytes) :
    ∃ a1 a2, GoTie.armorWrites E ⟨false, false, ww0, d0⟩ ps = .ok (none, a1) ∧
      Extracted.armor_armoredWriter_Close E.W E.Cl E.LE a1 = .ok (none, a2) ∧
      E.absD a2.dst = E.absD d0 ++ Armor.armor ps.flatten ∧
      Extracted.armor_armoredWriter_Close E.W E.Cl E.LE a2 = .ok (some ⟨"armor.(*armoredWriter).Close", 0, []⟩, a2) :=
  GoTie.armor_writer_tie E ww0 d0 h0 ps

/-! The two translated ends composed. `GoTie.codeDrain` calls the translated `Read` with buffers of the
given sizes and collects what each call copied until the first reported error (what `io.ReadAll` or
any other consumer does); it yields what the model's `AReader.drain` yields, for EVERY list of sizes.
`code_armor_roundtrip` is then C08's round trip stated about the code: whatever goes through the
translated `Write`s and `Close` into an empty destination comes back, followed by io.EOF, from the
translated `Read` over the destination's bytes — for every input, every split into writes and every
sequence of positive read sizes long enough to reach the end. -/

theorem codeDrain_tie (E : GoTie.B64DecEnv) (sizes : List Nat) (g : armor_armoredReader) (m : AReader) (h : GoTie.ARel g m) :
    ∃ g' ge, GoTie.codeDrain E g sizes = .ok (g', (m.drain 1024 false sizes).2.1, ge) ∧
      GoTie.aErrRel (m.drain 1024 false sizes).2.2 ge ∧ GoTie.ARel g' (m.drain 1024 false sizes).1 :=
  GoTie.codeDrain_tie E sizes g m h

theorem code_armor_roundtrip {δ ω : Type} (W : GoTie.ArmorWEnv δ ω) (D : GoTie.B64DecEnv) (ww0 : ω) (d0 : δ)
    (h0 : W.absI ww0 = [] ∧ W.absO ww0 = [] ∧ W.isOpen ww0) (hd0 : W.absD d0 = []) (ps : List Bytes)
    (sizes : List Nat) (hpos : ∀ s ∈ sizes, 0 < s)
    (hlong : ps.flatten.length + (armor ps.flatten).length + 2 < sizes.length) :
    ∃ a1 a2 g', GoTie.armorWrites W ⟨false, false, ww0, d0⟩ ps = .ok (none, a1) ∧
      Extracted.armor_armoredWriter_Close W.W W.Cl W.LE a1 = .ok (none, a2) ∧
      GoTie.codeDrain D ⟨W.absD a2.dst, false, 0, 0, List.replicate 48 0, none⟩ sizes = .ok (g', ps.flatten, Go.io_EOF) :=
  GoTie.code_armor_roundtrip W D ww0 d0 h0 hd0 ps sizes hpos hlong

/-- "armor failures carry the armor error class", about the code (`Props.C08.armor_errors_typed` holds of the model by
    the type of its outcomes alone): from related states the translated `Read` returns, and what it reports is nil,
    io.EOF or `*armor.Error` — nothing else, whatever the text and the buffer -/
theorem code_armor_errors_typed (E : GoTie.B64DecEnv) (g : armor_armoredReader) (m : AReader) (h : GoTie.ARel g m) (p : Bytes) :
    ∃ res, armor_armoredReader_Read E.Dec g p = .ok res ∧
      (res.2.1 = none ∨ res.2.1 = Go.io_EOF ∨ res.2.1 = some ⟨"armor.Error", 0, []⟩) := by
  obtain ⟨res, hres, _, _, herr, _⟩ := armor_read_tie E g m h p
  refine ⟨res, hres, ?_⟩
  generalize (m.read1 1024 false p.length).2.2 = o at herr
  cases o with
  | none => exact Or.inl herr
  | some e => cases e with
    | eof => exact Or.inr (Or.inl herr)
    | err => exact Or.inr (Or.inr herr)

/-- non-vacuity of the round trip: the canonical writer environment, the model's strict decoder, any input — the
    conclusion holds of one-byte reads -/
theorem code_armor_roundtrip_instance (ps : List Bytes) :
    ∃ sizes a1 a2 g', GoTie.armorWrites GoTie.ArmorWEnv.canonical ⟨false, false, ([], false), []⟩ ps = .ok (none, a1) ∧
      Extracted.armor_armoredWriter_Close GoTie.ArmorWEnv.canonical.W GoTie.ArmorWEnv.canonical.Cl GoTie.ArmorWEnv.canonical.LE a1 = .ok (none, a2) ∧
      GoTie.codeDrain GoTie.B64DecEnv.witness ⟨GoTie.ArmorWEnv.canonical.absD a2.dst, false, 0, 0, List.replicate 48 0, none⟩ sizes =
        .ok (g', ps.flatten, Go.io_EOF) := by
  obtain ⟨h0, hd0, sizes, hpos, hlong⟩ := GoTie.code_armor_roundtrip_premises ps
  obtain ⟨a1, a2, g', h⟩ := code_armor_roundtrip GoTie.ArmorWEnv.canonical GoTie.B64DecEnv.witness ([], false) [] h0 hd0 ps sizes hpos hlong
  exact ⟨sizes, a1, a2, g', h⟩

/-- **the assumption structures this file's theorems take are satisfiable** (for a lawful toy primitive suite
    with the 16-byte tag, where they mention primitives): none of the theorems above is vacuous. The instances are in
    `Proofs/GoTieWitnessA.lean` / `GoTieWitnessB.lean`. -/
theorem assumptions_satisfiable :
    (∃ E : GoTie.ArmorWEnv Bytes (Bytes × Bool), ∃ ww0, E.absI ww0 = [] ∧ E.absO ww0 = [] ∧ E.isOpen ww0) ∧
    Nonempty GoTie.B64DecEnv :=
  ⟨⟨GoTie.ArmorWEnv.canonical, ([], false), GoTie.ArmorWEnv.canonical_fresh⟩, ⟨GoTie.B64DecEnv.witness⟩⟩

end Tie.C08
end AgeModel
