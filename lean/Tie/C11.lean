/-
  Tie/C11 — in age.Encrypt every recipient is wrapped and its label set compared
  inside the recipients loop, and that loop ends before the destination is
  first used. Fact regenerated from /repo (`Extracted/CallOrder.lean`);
  positional evidence supporting the dynamic oracle (bytes at dst after refusal).
-/
import AgeModel.Extracted.CallOrder
import Proofs.GoTieMisc
namespace AgeModel
namespace Tie.C11

theorem label_check_precedes_first_write : Extracted.labelCheckPrecedesFirstWrite = true := by decide

/-- nothing touches dst before the wraps and the comparison -/
theorem encrypt_order_prefix : (Extracted.encryptOrder.map (·.1)).take 3 =
    ["wrap recipient (with labels)", "compare label sets", "use of dst"] := by decide


/-- The code itself (DESIGN.md §5.3): `slicesEqual`, with which Encrypt compares the sorted
    label lists, TRANSLATED from the source on every run, is list equality. -/
theorem slicesEqual_tie (a b : List Bytes) : Extracted.age_slicesEqual a b = .ok (decide (a = b)) :=
  GoTie.slicesEqual_tie a b

end Tie.C11
end AgeModel
