/-
  Tie/C11 — in age.Encrypt every recipient is wrapped and its label set compared
  inside the recipients loop, and that loop ends before the destination is
  first used. Fact regenerated from /repo (`Extracted/CallOrder.lean`);
  positional evidence supporting the dynamic oracle (bytes at dst after refusal).
-/
import AgeModel.Extracted.CallOrder
import Proofs.GoTieSlicesEq
import Proofs.GoTieEncrypt
import Proofs.GoTieWrapLabels
import Props.C11
import Proofs.GoTieWitnessA
namespace AgeModel
namespace Tie.C11

theorem label_check_precedes_first_write : Extracted.labelCheckPrecedesFirstWrite = true := by decide

/-- nothing touches dst before the wraps and the comparison -/
theorem encrypt_order_prefix : (Extracted.encryptOrder.map (·.1)).take 3 =
    ["wrap recipient (with labels)", "compare label sets", "use of dst"] := by decide


/-- The code itself (DESIGN.md §5.3): `slicesEqual`, with which Encrypt compares the sorted
    label lists, TRANSLATED from the source on every run, is list equality. -/
theorem slicesEqual_tie (a b : List Bytes) : Extracted.age_slicesEqual a b = .ok (decide (a = b)) :=
  GoTie.slicesEqual_tie a b


/-! ## age.Encrypt itself (DESIGN.md §5.3): the label rule and "a refusal writes nothing"

`age.Encrypt`, TRANSLATED from age.go on every run (recipient loop: `wrapWithLabels`,
`sort.Strings`, the first recipient's list as the reference, `slicesEqual`, the failing wrap with its
index; then `headerMAC`, `Header.Marshal(dst)`, the nonce, `dst.Write`), with the destination an
explicit state, does what the model's `encryptInit` does: it refuses exactly the lists the model
refuses, with the destination in the SAME state (untouched when the refusal comes from the labels or
a wrap) — `Props.C11.encrypt_ok_iff_labels_equal`, `refusal_writes_nothing`, `write_implies_compatible`
are about the source text. -/

theorem encrypt_tie (P : Prims) {S : AgeModel.Stream.DstSpec} {ρ δ ω : Type} (E : GoTie.EncryptEnv P S ρ δ ω)
    (d : δ) (rs : List ρ) (tape : Bytes) :
    ∃ res, Extracted.age_Encrypt E.nilW (GoTie.tapeRead E.eRand) E.W E.mac E.marshalF E.write E.newWriter E.key d rs tape = .ok res ∧
      match encryptInit P tape (rs.map E.recOf) E.hdrSegs (E.absD d) with
      | (.ok (w, k, t'), d2) =>
          res.1 = E.mkW k res.2.2.1 ∧ res.2.1 = none ∧ E.absD res.2.2.1 = d2 ∧ res.2.2.2 = t' ∧ w = AgeModel.Stream.Writer.new d2
      | (.error e, d2) => res.1 = E.nilW ∧ GoTie.encErrRel E.eRand e res.2.1 ∧ E.absD res.2.2.1 = d2 :=
  GoTie.encrypt_tie P E d rs tape

/-- `age.wrapWithLabels`, translated: a recipient that does not implement `RecipientWithLabels`
    counts as having NO labels -/
theorem wrapWithLabels_tie {ρ : Type} (impl : ρ → Bool)
    (WL : ρ → Bytes → Go.M (List Extracted.age_Stanza × List Bytes × Option Go.Err))
    (W : ρ → Bytes → Go.M (List Extracted.age_Stanza × Option Go.Err)) (r : ρ) (fk : Bytes) :
    Extracted.age_wrapWithLabels impl WL W r fk =
      if impl r = true then WL r fk
      else (W r fk).map (fun t => (t.1, [], t.2)) :=
  GoTie.wrapWithLabels_tie impl WL W r fk

/-! ### The property, stated about the CODE

`encrypt_tie` composed with `Props.C11.refusal_writes_nothing`: whenever the header cannot be built — no recipients, a
random source that fails, a recipient that fails to wrap, recipients whose label sets differ — the TRANSLATED
`age.Encrypt` reports an error, returns the NIL writer (nothing the caller could go on writing with) and hands the
destination back in the state it was given: not a byte was written. -/

theorem code_encrypt_refusal_writes_nothing (P : Prims) {S : AgeModel.Stream.DstSpec} {ρ δ ω : Type}
    (E : GoTie.EncryptEnv P S ρ δ ω) (d : δ) (rs : List ρ) (tape : Bytes) (e : EncErr)
    (h : encryptHeader P tape (rs.map E.recOf) = .error e) :
    ∃ res, Extracted.age_Encrypt E.nilW (GoTie.tapeRead E.eRand) E.W E.mac E.marshalF E.write E.newWriter E.key d rs tape = .ok res ∧
      res.1 = E.nilW ∧ GoTie.encErrRel E.eRand e res.2.1 ∧ E.absD res.2.2.1 = E.absD d := by
  obtain ⟨res, hrun, hres⟩ := encrypt_tie P E d rs tape
  rw [Props.C11.refusal_writes_nothing P tape (rs.map E.recOf) E.hdrSegs (E.absD d) e h] at hres
  exact ⟨res, hrun, hres⟩

/-- … in particular for recipients whose labels differ: error site 2 of `Encrypt`, nothing written -/
theorem code_encrypt_incompatible (P : Prims) {S : AgeModel.Stream.DstSpec} {ρ δ ω : Type}
    (E : GoTie.EncryptEnv P S ρ δ ω) (d : δ) (rs : List ρ) (tape : Bytes)
    (h : encryptHeader P tape (rs.map E.recOf) = .error .incompatible) :
    ∃ res, Extracted.age_Encrypt E.nilW (GoTie.tapeRead E.eRand) E.W E.mac E.marshalF E.write E.newWriter E.key d rs tape = .ok res ∧
      res.1 = E.nilW ∧ res.2.1 = some ⟨"age.Encrypt", 2, []⟩ ∧ E.absD res.2.2.1 = E.absD d := by
  obtain ⟨res, hrun, hnil, herr, habs⟩ := code_encrypt_refusal_writes_nothing P E d rs tape .incompatible h
  exact ⟨res, hrun, hnil, herr, habs⟩

/-- **the assumption structures this file's theorems take are satisfiable** (for a lawful toy primitive suite
    with the 16-byte tag, where they mention primitives): none of the theorems above is vacuous. The instances are in
    `Proofs/GoTieWitnessA.lean` / `GoTieWitnessB.lean`. -/
theorem assumptions_satisfiable :
    Prims.toy16.Correct ∧ Prims.toy16.aead.NonceSep ∧ Prims.toy16.aead.T = 16 ∧
    (∀ S : Stream.DstSpec, Nonempty (GoTie.EncryptEnv Prims.toy16 S Recipient (Stream.Dst S) (Option (Bytes × Stream.Dst S)))) :=
  ⟨Prims.toy16_correct, AEAD.toy16_nonceSep, rfl, (fun S => ⟨GoTie.EncryptEnv.witness S⟩)⟩

end Tie.C11
end AgeModel
