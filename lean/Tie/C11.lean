/-
  Tie/C11 — in age.Encrypt every recipient is wrapped and its label set compared
  inside the recipients loop, and that loop ends before the destination is
  first used. Fact regenerated from /repo (`Extracted/CallOrder.lean`);
  positional evidence supporting the dynamic oracle (bytes at dst after refusal).
-/
import AgeModel.Extracted.CallOrder
namespace AgeModel
namespace Tie.C11

theorem label_check_precedes_first_write : Extracted.labelCheckPrecedesFirstWrite = true := by decide

/-- nothing touches dst before the wraps and the comparison -/
theorem encrypt_order_prefix : (Extracted.encryptOrder.map (·.1)).take 3 =
    ["wrap recipient (with labels)", "compare label sets", "use of dst"] := by decide

end Tie.C11
end AgeModel
