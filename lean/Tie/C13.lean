/-
  Tie/C13 — stream.Writer and stream.Reader themselves (DESIGN.md §5.3): every destination
  failure surfaces. `Write`/`Close`/`flushChunk` are TRANSLATED from the source on every run;
  the destination is abstract and may fail at any call (`GoTie.DstEnv`: it is the model's
  `Dst S` for an arbitrary behaviour `S`). SIMULATION with the model's Writer machine: the
  error `Write`/`Close` report, the sticky `w.err`, and the bytes the destination holds are the
  model's — so `no_silent_loss`, `writer_sticky`, `write_error_recorded` (Props/C13) are about the
  source text. For the reading side (`src_fault_surfaces`, `reader_sticky`): `reader_read_tie`
  with a source that ends in an error.
-/
import Proofs.GoTieStreamW
import Proofs.GoTieWitnessA
import Proofs.GoTieEncrypt
namespace AgeModel
namespace Tie.C13

theorem writer_write_tie {α δ : Type} {S : AgeModel.Stream.DstSpec} (A : AEAD) (k : Bytes) (E : GoTie.AeadEnv α A k)
    (D : GoTie.DstEnv δ S) (w : Extracted.stream_Writer α δ) (m : AgeModel.Stream.Writer S) (h : GoTie.WRel D w m) (p : Bytes)
    (hctr : m.ctr + p.length / 65536 + 2 < 2 ^ 88) :
    ∃ res, Extracted.stream_Writer_Write E.seal_ D.write w p = .ok res ∧
      let mw := m.write A 65536 (2 ^ 88) k p
      res.1 = Int.ofNat mw.2.1 ∧ GoTie.wrErrRel res.2.1 D.eW mw.2.2 ∧ GoTie.WRel D res.2.2 mw.1 :=
  GoTie.writer_write_tie A k E D w m h p hctr

theorem writer_close_tie {α δ : Type} {S : AgeModel.Stream.DstSpec} (A : AEAD) (k : Bytes) (E : GoTie.AeadEnv α A k)
    (D : GoTie.DstEnv δ S) (w : Extracted.stream_Writer α δ) (m : AgeModel.Stream.Writer S) (h : GoTie.WRel D w m)
    (hctr : m.ctr + 2 < 2 ^ 88) :
    ∃ res, Extracted.stream_Writer_Close E.seal_ D.write w = .ok res ∧
      let mc := m.close A 65536 (2 ^ 88) k
      GoTie.wrErrRel res.1 D.eW mc.2 ∧ GoTie.WRel D res.2 mc.1 ∧
      (mc.2 = none → D.absD res.2.dst = mc.1.dst) ∧
      GoTie.wrErrRel res.2.err D.eW mc.1.err :=
  GoTie.writer_close_tie A k E D w m h hctr

theorem reader_read_tie {α : Type} (A : AEAD) (k : Bytes) (E : GoTie.AeadEnv α A k)
    (r : Extracted.stream_Reader α) (m : AgeModel.Stream.Reader) (h : GoTie.RRel r m) (hctr : m.ctr + 1 < 2 ^ 88) (p : Bytes) :
    ∃ res, Extracted.stream_Reader_Read E.over E.open_ r p = .ok res ∧
      let mr := m.read A 65536 (2 ^ 88) k p.length
      res.1 = Int.ofNat mr.2.1.length ∧
      GoTie.rdErrRel res.2.1 mr.2.2 ∧
      GoTie.RRel res.2.2.1 mr.1 ∧
      res.2.2.2 = mr.2.1 ++ p.drop mr.2.1.length :=
  GoTie.reader_read_tie A k E r m h hctr p

theorem reader_new_rel {α : Type} (a : α) (data : Bytes) (fail : Bool) :
    GoTie.RRel (⟨a, ⟨data, fail⟩, 0, 0, List.replicate 65552 0, none, List.replicate 12 0⟩ : Extracted.stream_Reader α)
      (AgeModel.Stream.Reader.new ⟨data, fail⟩) :=
  GoTie.reader_new_rel a data fail

/-- after `Close` — successful or not — every further `Write` and `Close` of the TRANSLATED writer is
    refused and touches nothing (count 0, the stored non-nil error, the unchanged struct), exactly as the
    model's (`Props.C13.writer_sticky`). `writer_close_tie` re-establishes `WRel` after `Close`, and the
    model's state after any `Close` has `err = some _` (`writer_close_err_some`), so this applies to the
    states `Close` leaves — whether it succeeded or failed. -/
theorem writer_after_close_stuck {α δ : Type} {S : AgeModel.Stream.DstSpec} (A : AEAD) (k : Bytes) (E : GoTie.AeadEnv α A k)
    (D : GoTie.DstEnv δ S) (w : Extracted.stream_Writer α δ) (m : AgeModel.Stream.Writer S) (h : GoTie.WRel D w m)
    (e : AgeModel.Stream.Outcome) (hme : m.err = some e) :
    w.err ≠ none ∧ GoTie.wrErrRel w.err D.eW (some e) ∧
    (∀ p, Extracted.stream_Writer_Write E.seal_ D.write w p = .ok (0, w.err, w) ∧
          m.write A 65536 (2 ^ 88) k p = (m, 0, some e)) ∧
    Extracted.stream_Writer_Close E.seal_ D.write w = .ok (w.err, w) ∧
    m.close A 65536 (2 ^ 88) k = (m, some e) :=
  GoTie.writer_after_close_stuck A k E D w m h e hme

/-- the model's writer carries a sticky error after ANY `Close` (`.closed` after a successful one), so
    `writer_after_close_stuck` applies to the related pair of states `writer_close_tie` returns -/
theorem writer_close_err_some {S : AgeModel.Stream.DstSpec} (A : AEAD) (C L : Nat) (k : Bytes) (m : AgeModel.Stream.Writer S) :
    ∃ e, (m.close A C L k).1.err = some e :=
  GoTie.writer_close_err_some A C L k m

/-- "a failed Encrypt returns no writer", about the code (`Props.C13.encrypt_failure_no_writer` holds of the model by
    the type of its result alone): whenever the translated `age.Encrypt` reports an error — whatever the recipients,
    the random source and the destination do — the writer it returns is the nil writer, so the caller has nothing to
    go on writing with; and when it reports none, the writer is a stream writer over the destination -/
theorem code_encrypt_failure_nil_writer (P : Prims) {S : AgeModel.Stream.DstSpec} {ρ δ ω : Type}
    (E : GoTie.EncryptEnv P S ρ δ ω) (d : δ) (rs : List ρ) (tape : Bytes) :
    ∃ res, Extracted.age_Encrypt E.nilW (GoTie.tapeRead E.eRand) E.W E.mac E.marshalF E.write E.newWriter E.key d rs tape = .ok res ∧
      (res.2.1 ≠ none → res.1 = E.nilW) ∧ (res.2.1 = none → ∃ k, res.1 = E.mkW k res.2.2.1) := by
  obtain ⟨res, hrun, hres⟩ := GoTie.encrypt_tie P E d rs tape
  refine ⟨res, hrun, ?_⟩
  generalize encryptInit P tape (rs.map E.recOf) E.hdrSegs (E.absD d) = r at hres
  obtain ⟨r1, d2⟩ := r
  cases r1 with
  | ok v =>
    obtain ⟨w, k, t'⟩ := v
    exact ⟨fun hne => absurd hres.2.1 hne, fun _ => ⟨k, hres.1⟩⟩
  | error e =>
    refine ⟨fun _ => hres.1, fun hnone => ?_⟩
    have := hres.2.1
    rw [hnone] at this
    cases e <;> simp [GoTie.encErrRel] at this

/-- **the assumption structures this file's theorems take are satisfiable** (for a lawful toy primitive suite
    with the 16-byte tag, where they mention primitives): none of the theorems above is vacuous. The instances are in
    `Proofs/GoTieWitnessA.lean` / `GoTieWitnessB.lean`. -/
theorem assumptions_satisfiable :
    Prims.toy16.Correct ∧ Prims.toy16.aead.NonceSep ∧ Prims.toy16.aead.T = 16 ∧
    (∀ k : Bytes, Nonempty (GoTie.AeadEnv Unit AEAD.toy16 k)) ∧
    (∀ S : Stream.DstSpec, Nonempty (GoTie.DstEnv (Stream.Dst S) S)) :=
  ⟨Prims.toy16_correct, AEAD.toy16_nonceSep, rfl, (fun k => ⟨GoTie.AeadEnv.witness k⟩), (fun S => ⟨GoTie.DstEnv.witness S⟩)⟩

end Tie.C13
end AgeModel
