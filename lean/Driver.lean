/-
  agemodel — line-protocol driver. One request per line on stdin:
  `<op> <arg> <arg> ...` (bytes in hex, `-` = empty); one reply line per request.
  Runs the same definitions the theorems are about, instantiated with the
  concrete primitives of AgeModel.Crypto. Each model area owns one
  AgeModel/Exec/<Area>Exec.lean with a `handle` function.
-/
import AgeModel.Exec.StreamExec
import AgeModel.Exec.FormatExec
import AgeModel.Exec.FileExec
import AgeModel.Exec.ArmorExec
import AgeModel.Exec.Bech32Exec
import AgeModel.Exec.PluginExec
import AgeModel.Exec.CliExec
import AgeModel.Exec.KeyFileExec
import AgeModel.Exec.SshEncExec
import AgeModel.Exec.GoSemExec
open AgeModel

def handlers : List (String → List String → Option String) :=
  [Exec.Stream.handle, Exec.Format.handle, Exec.File.handle, Exec.Armor.handle, Exec.Bech32.handle,
   Exec.Plugin.handle, Exec.Cli.handle, Exec.KeyFile.handle, Exec.SshEnc.handle, Exec.GoSem.handle]

def dispatch (line : String) : String :=
  match Wire.splitOn line.trimAscii.toString ' ' with
  | [] => "bad-op"
  | op :: args =>
    if op = "ping" then "pong"
    else (handlers.findSome? fun h => h op args).getD "bad-op"

partial def loop (hin hout : IO.FS.Stream) : IO Unit := do
  let line ← hin.getLine
  if line.isEmpty then return ()
  hout.putStrLn (dispatch line)
  hout.flush
  loop hin hout

def main : IO Unit := do
  loop (← IO.getStdin) (← IO.getStdout)
