/-
  agemodel — line-protocol driver. One request per line on stdin:
  `<op> <arg> <arg> ...` (bytes in hex, `-` = empty); one reply line per request.
  Runs the same definitions the theorems are about, instantiated with the
  concrete primitives of AgeModel.Crypto.
-/
import AgeModel.Exec.StreamExec
open AgeModel

def dispatch (line : String) : String :=
  match Wire.splitOn line.trimAscii.toString ' ' with
  | [] => "bad-op"
  | op :: args =>
    match op with
    | "ping" => "pong"
    | "sw" => Exec.sw args
    | "sr" => Exec.sr args
    | "senc" => Exec.senc args
    | "sdec" => Exec.sdec args
    | _ => "bad-op"

partial def loop (hin hout : IO.FS.Stream) : IO Unit := do
  let line ← hin.getLine
  if line.isEmpty then return ()
  hout.putStrLn (dispatch line)
  hout.flush
  loop hin hout

def main : IO Unit := do
  loop (← IO.getStdin) (← IO.getStdout)
