import AgeModel
def main : IO Unit := IO.println "agemodel"
