/-
  C08 — armor decodes what it encodes and accepts only canonical armor.
  (Model of armor/armor.go as repaired by the fix: commits F1–F3 and F10.)
-/
import Proofs.ArmorWriteTop
import Proofs.ArmorLines
namespace AgeModel
namespace Props.C08
open Armor Stream

/-- **dearmor ∘ armor = id** for every byte string (any whitespace budget W > 0). -/
theorem dearmor_armor (W : Nat) (hW : 0 < W) (b : Bytes) : read W false (armor b) = (b, .eof) :=
  read_armor W hW b

/-- **The writer machine produces the canonical armor** under every sequence of
    writes — including none at all, empty writes, and whatever way each call's
    output is split into destination writes — for every destination behaviour:
    if every call reported success the destination holds exactly `armor` of the
    concatenation (hence it de-armors to exactly those bytes, by `dearmor_armor`). -/
theorem armor_writer_refines_spec {S : DstSpec} (d : Dst S) (segs : List (Bytes × List Nat))
    (hall : ∀ r ∈ ((AWriter.new d).run (aopsOf segs)).2, r = none) :
    ((AWriter.new d).run (aopsOf segs)).1.dst.acc = d.acc ++ armor (segs.map (·.1)).flatten := by
  have := arun_ok d.acc segs (AWriter.new d) [] (AInv_new d) hall
  simpa using this

/-- with a destination that never fails no call reports an error -/
theorem armor_writer_never_fails {S : DstSpec} (hS : S.NeverFails) (d : Dst S) (segs : List (Bytes × List Nat)) :
    ∀ r ∈ ((AWriter.new d).run (aopsOf segs)).2, r = none :=
  arun_neverFails hS d.acc segs (AWriter.new d) [] (AInv_new d)

/-- the empty write sequence: `NewWriter` + `Close` gives the armor of the empty string, which de-armors -/
example : ((AWriter.new ({ acc := [], st := () } : Dst DstSpec.perfect)).run (aopsOf [])).1.dst.acc = armor [] ∧
    read 1024 false (armor []) = ([], .eof) := by
  refine ⟨?_, dearmor_armor 1024 (by decide) []⟩
  have := armor_writer_refines_spec ({ acc := [], st := () } : Dst DstSpec.perfect) []
    (armor_writer_never_fails DstSpec.perfect_neverFails _ [])
  simpa using this

/-- **Only canonical armor is accepted.** If the reader accepts a text through to a
    clean end, yielding `b`, then line by line (a line = up to LF, minus ONE
    trailing CR; a final line without LF counts) the text is: whitespace-only lines,
    then exactly the lines of `armor b` — the BEGIN line, the canonical 64-column
    base64 lines of `b`, the END line — then fewer than `W` bytes of white space.
    These are precisely the documented tolerances (CRLF line ends, whitespace
    before the header and after the footer). Short, long or empty body lines,
    non-canonical base64, PEM headers, foreign leading or trailing data are
    therefore rejected. -/
theorem armor_canonical (W : Nat) (t b : Bytes) (h : read W false t = (b, .eof)) :
    ∃ pre rest, (∀ l ∈ pre, allSpace l = true) ∧ rest.length < W ∧ allSpace rest = true ∧
      lines t = pre ++ (lines (armor b)).dropLast ++ footer :: lines rest := by
  obtain ⟨pre, rest, hpre, htr, hl⟩ := read_canon W t b h
  refine ⟨pre, rest, hpre, htr.1, htr.2, ?_⟩
  rw [hl, lines_armor]
  have : (header :: (bodyLines b ++ [footer])).dropLast = header :: bodyLines b := by
    rw [show header :: (bodyLines b ++ [footer]) = (header :: bodyLines b) ++ [footer] by simp, List.dropLast_concat]
  rw [this]; simp

/-- every failure of the reader is the armor error class: by the type of the
    outcome (`eof` or `err`; Go: every non-EOF error is wrapped in `*armor.Error`). -/
theorem armor_errors_typed (W : Nat) (fail : Bool) (t : Bytes) :
    (read W fail t).2 = .eof ∨ (read W fail t).2 = .err := by
  cases (read W fail t).2 <;> simp

/-- **The per-call reader machine equals `read`** for every sequence of positive
    `Read` sizes long enough to reach the end (valid or damaged text, failing source or not). -/
theorem armor_reader_refines_spec (W : Nat) (fail : Bool) (t : Bytes) (sizes : List Nat) (hpos : ∀ s ∈ sizes, 0 < s)
    (hlong : (read W fail t).1.length + t.length + 2 < sizes.length) :
    ∃ r', (AReader.new t).drain W fail sizes = (r', (read W fail t).1, some (read W fail t).2) := by
  have hd := adrain_spec W fail sizes (AReader.new t) hpos
  rw [denote_new] at hd
  generalize hdr : (AReader.new t).drain W fail sizes = res at hd
  obtain ⟨r', out, e⟩ := res
  cases e with
  | some e => simp only at hd; exact ⟨r', by rw [hd.1]⟩
  | none =>
    exfalso
    simp only at hd
    have h2 := hd.2
    unfold AReader.nu at h2
    rw [denote_new] at h2
    simp only [AReader.new, if_true, Bool.false_eq_true, if_false] at h2
    omega

/-- a failed reader keeps failing and releases nothing more (after fix F10) -/
theorem armor_reader_sticky (W : Nat) (fail : Bool) (r : AReader) (e : AOut) (he : r.err = some e) (hu : r.unread = []) (n : Nat) :
    r.read1 W fail n = (r, [], some e) := read1_sticky W fail r e he hu n

/-- and whenever `Read` reports an error its buffer is empty, so the premise of
    `armor_reader_sticky` holds from then on -/
theorem armor_error_leaves_no_data (W : Nat) (fail : Bool) (r : AReader) (n : Nat) (hn : 0 < n) (r' : AReader) (out : Bytes) (e : AOut)
    (h : r.read1 W fail n = (r', out, some e)) : out = [] ∧ r'.err = some e ∧ r'.unread = [] := by
  have := read1_spec W fail r n hn
  rw [h] at this
  exact ⟨this.1, this.2.2.1, this.2.2.2⟩

/-- a failing source never yields a clean end of the armored stream, wherever it fails -/
theorem armor_src_fault_no_eof (W : Nat) (t : Bytes) : (read W true t).2 = .err := by
  have hdrain : ∀ rest, drainOK W true rest = false := by
    intro rest
    unfold drainOK
    by_cases h : rest.length < W
    · simp [h]
    · have : (rest.take W).length = W := by rw [List.length_take]; omega
      simp [h, this]
  have hbody : ∀ (fuel : Nat) (t : Bytes), (readBody W true fuel t).2 = .err := by
    intro fuel
    induction fuel with
    | zero => intro t; rfl
    | succ fuel ih =>
      intro t
      unfold readBody
      cases getLine true t with
      | none => rfl
      | some p =>
        obtain ⟨line, rest⟩ := p
        simp only
        cases classifyLine line with
        | bad => rfl
        | footer => simp [hdrain]
        | data b =>
          simp only
          split
          · cases getLine true rest with
            | none => rfl
            | some p2 =>
              obtain ⟨l2, rest2⟩ := p2
              simp only
              split
              · simp [hdrain]
              · rfl
          · exact ih rest
  unfold Armor.read
  cases readLeading W true (t.length + 1) t 0 with
  | none => rfl
  | some rest => exact hbody _ rest

/-! ## non-vacuity witnesses -/

/-- non-vacuity of `dearmor_armor`: the whitespace budget of the code -/
theorem dearmor_armor_nonvacuous : 0 < 1024 := by decide

/-- non-vacuity of `armor_writer_never_fails`: the destination that accepts everything -/
theorem armor_writer_never_fails_nonvacuous : DstSpec.perfect.NeverFails := DstSpec.perfect_neverFails

/-- non-vacuity of `armor_writer_refines_spec`: a never-failing destination already holding one byte; writes of 2, 0 and 3
    bytes (each with its own split into destination writes) and Close: no call reports an error -/
theorem armor_writer_refines_spec_nonvacuous :
    ∀ r ∈ ((AWriter.new ({ acc := [9], st := () } : Dst DstSpec.perfect)).run
      (aopsOf [([1, 2], [3]), ([], []), ([3, 4, 5], [1, 1])])).2, r = none :=
  armor_writer_never_fails DstSpec.perfect_neverFails _ _

/-- its conclusion there: the destination holds the old byte and the armor of the five bytes -/
example : ((AWriter.new ({ acc := [9], st := () } : Dst DstSpec.perfect)).run
      (aopsOf [([1, 2], [3]), ([], []), ([3, 4, 5], [1, 1])])).1.dst.acc = [9] ++ armor [1, 2, 3, 4, 5] :=
  armor_writer_refines_spec _ _ armor_writer_refines_spec_nonvacuous

/-- non-vacuity of `armor_canonical`: a text that is NOT `armor b` but within the tolerances is accepted: a whitespace-only
    first line, CRLF line ends, the body line `AQIDBAU=`, and white space after the END line; it yields the bytes 1..5 -/
theorem armor_canonical_nonvacuous :
    read 1024 false ([32, 9, 13, 10] ++ header ++ [13, 10] ++ [65, 81, 73, 68, 66, 65, 85, 61] ++ [13, 10] ++
      footer ++ [13, 10, 32, 10]) = ([1, 2, 3, 4, 5], .eof) := by rfl

/-- non-vacuity of `armor_reader_refines_spec`: that same 86-byte text read in 100 calls of 3 bytes -/
theorem armor_reader_refines_spec_nonvacuous :
    (∀ s ∈ List.replicate 100 3, 0 < s) ∧
    (read 1024 false ([32, 9, 13, 10] ++ header ++ [13, 10] ++ [65, 81, 73, 68, 66, 65, 85, 61] ++ [13, 10] ++
      footer ++ [13, 10, 32, 10])).1.length +
      ([32, 9, 13, 10] ++ header ++ [13, 10] ++ [65, 81, 73, 68, 66, 65, 85, 61] ++ [13, 10] ++
        footer ++ [13, 10, 32, 10]).length + 2 < (List.replicate 100 3).length := by
  refine ⟨fun s hs => by rw [List.eq_of_mem_replicate hs]; decide, ?_⟩
  rw [armor_canonical_nonvacuous]
  decide

/-- non-vacuity of `armor_error_leaves_no_data`: a first `Read` of 5 bytes on the text `x\n` (no BEGIN line) reports an error -/
theorem armor_error_leaves_no_data_nonvacuous :
    0 < 5 ∧ (AReader.new [120, 10]).read1 1024 false 5 =
      ({ started := false, unread := [], err := some .err, rest := [120, 10], removed := 0 }, [], some .err) :=
  ⟨by decide, by rfl⟩

/-- non-vacuity of `armor_reader_sticky`: the state that failed `Read` left behind (previous witness) has the error set and
    nothing buffered. (So has the state after a clean end: see the `example` below.) -/
theorem armor_reader_sticky_nonvacuous :
    ({ started := false, unread := [], err := some .err, rest := [120, 10], removed := 0 } : AReader).err = some .err ∧
    ({ started := false, unread := [], err := some .err, rest := [120, 10], removed := 0 } : AReader).unread = [] := ⟨rfl, rfl⟩

/-- the tolerant text read in calls of 3: bytes `1,2,3`, then `4,5`, then the clean end, which is sticky -/
example : ∃ r1 r2 r3,
    (AReader.new ([32, 9, 13, 10] ++ header ++ [13, 10] ++ [65, 81, 73, 68, 66, 65, 85, 61] ++ [13, 10] ++
      footer ++ [13, 10, 32, 10])).read1 1024 false 3 = (r1, [1, 2, 3], none) ∧
    r1.read1 1024 false 3 = (r2, [4, 5], none) ∧ r2.read1 1024 false 3 = (r3, [], some .eof) ∧
    r3.read1 1024 false 3 = (r3, [], some .eof) := ⟨_, _, _, by rfl, by rfl, by rfl, by rfl⟩

end Props.C08
end AgeModel
