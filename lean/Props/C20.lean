/-
  C20 — shared recipients and identities are safe under concurrency.
  Property theorems only (helper lemmas live in Proofs/Conc.lean).

  Statement of the property: "A single recipient or identity value (X25519,
  passphrase, SSH Ed25519, SSH RSA) may be used by any number of goroutines
  encrypting and decrypting at the same time: there is no data race, and every
  operation yields the result it would yield alone." — for all interleavings.

  What is proved here, in the interleaving semantics of AgeModel/Conc.lean: if
  no operation ever writes a shared location (`NoSharedWrite`) and operations
  touch, besides shared locations, only what they allocated themselves
  (`WellScoped`), then for ANY number of threads and ANY schedule
    * every thread has read exactly the values it reads when run alone, is at
      the same point of its program, and its private memory is the same — hence
      any result computed from them is the same (`interleaving_equals_solo`,
      `result_equals_solo`, `completed_equals_solo`);
    * no two steps of different threads conflict (`no_conflict`): there is no
      write/write or read/write pair on one location, i.e. no data race.
  That the Go code satisfies `NoSharedWrite` is the tie `Tie/C20.lean`
  (`no_shared_store`, `no_mutated_global` over the effect summary regenerated
  from the source) — partial in the respects stated in DESIGN.md §8 C20: the Go
  memory model and out-of-module callees are outside the summary; the race
  harness (harness/cmd/racer under -race) supports that part.
-/
import Proofs.Conc
namespace AgeModel
namespace Props.C20
open Conc

/-- For any number of threads and any schedule: after the schedule, thread `i`
    has the read history, the remaining program and the private memory it has
    after running alone for as many steps as the schedule gave it; and the
    shared memory is what it was at the start. -/
theorem interleaving_equals_solo (P : Nat → Thread) (s : Store)
    (hW : NoSharedWrite P) (hS : WellScoped P) (σ : List Nat) (i : Nat) :
    let inter := runInterleaved P s σ
    let solo := runSolo P s i (σ.count i)
    inter.hist i = solo.hist i ∧ inter.rest i = solo.rest i ∧
    (∀ n, inter.store (.priv i n) = solo.store (.priv i n)) ∧
    (∀ n, inter.store (.shared n) = s (.shared n)) := by
  have hg : Good (init P s) := ⟨fun j l f hm n => hW j l f hm n, fun j st hm k n hl => hS j st hm k n hl⟩
  have h := run_sim i σ (init P s) (init P s) hg (Sim.refl i _)
  exact ⟨h.2.1, h.1, h.2.2.2, fun n => run_shared σ (init P s) hg n⟩

/-- Hence any result an operation computes from what it has read is the result
    it computes alone. -/
theorem result_equals_solo {α : Type} (result : List Nat → α) (P : Nat → Thread) (s : Store)
    (hW : NoSharedWrite P) (hS : WellScoped P) (σ : List Nat) (i : Nat) :
    result ((runInterleaved P s σ).hist i) = result ((runSolo P s i (σ.count i)).hist i) := by
  rw [(interleaving_equals_solo P s hW hS σ i).1]

/-- In particular an operation that has run to completion inside the schedule
    has run to completion alone, with the same reads. -/
theorem completed_equals_solo (P : Nat → Thread) (s : Store)
    (hW : NoSharedWrite P) (hS : WellScoped P) (σ : List Nat) (i : Nat)
    (hdone : (runInterleaved P s σ).rest i = []) :
    (runSolo P s i (σ.count i)).rest i = [] ∧
    (runInterleaved P s σ).hist i = (runSolo P s i (σ.count i)).hist i := by
  have h := interleaving_equals_solo P s hW hS σ i
  exact ⟨h.2.1 ▸ hdone, h.1⟩

/-- No data race: under the same hypotheses no step of one thread conflicts with
    a step of another (same location, at least one a write). -/
theorem no_conflict (P : Nat → Thread) (hW : NoSharedWrite P) (hS : WellScoped P)
    (i j : Nat) (a b : Step) (ha : a ∈ P i) (hb : b ∈ P j) : ¬ conflict i a j b := by
  rintro ⟨hne, l, hla, hlb, hw⟩
  -- the written location is private to the writer, so the other thread cannot name it
  have key : ∀ (x y : Nat) (p q : Step), p ∈ P x → q ∈ P y → p.loc? = some l → q.loc? = some l →
      p.isWrite = true → x = y := by
    intro x y p q hp hq hpl hql hpw
    cases p with
    | read _ => simp [Step.isWrite] at hpw
    | tau => simp [Step.isWrite] at hpw
    | write l' f =>
      have hl' : l' = l := by simpa [Step.loc?] using hpl
      subst hl'
      cases l' with
      | shared n => exact absurd rfl (hW x _ f hp n)
      | priv k n =>
        have h1 : k = x := hS x _ hp k n hpl
        have h2 : k = y := hS y _ hq k n hql
        exact h1.symm.trans h2
  cases hw with
  | inl h => exact hne (key i j a b ha hb hla hlb h)
  | inr h => exact hne (key j i b a hb ha hlb hla h).symm

/-! ### the hypotheses are satisfiable by a non-trivial system, and needed -/

/-- Two operations sharing one key (shared locations 0 and 1): each reads the key,
    computes into its own memory, reads that back. -/
def demo : Nat → Thread
  | 0 => [.read (.shared 0), .write (.priv 0 0) (fun h => h.sum + 1), .tau, .read (.shared 1), .read (.priv 0 0)]
  | 1 => [.read (.shared 1), .read (.shared 0), .write (.priv 1 5) (fun h => 2 * h.sum), .read (.priv 1 5)]
  | _ => []

def demoStore : Store
  | .shared 0 => 7
  | .shared 1 => 9
  | _ => 0

example : NoSharedWrite demo := by
  intro i l f hm n
  match i with
  | 0 => simp [demo] at hm; obtain ⟨rfl, _⟩ := hm; simp
  | 1 => simp [demo] at hm; obtain ⟨rfl, _⟩ := hm; simp
  | _+2 => simp [demo] at hm

example : WellScoped demo := by
  intro i st hm j n hl
  match i with
  | 0 => simp [demo] at hm; rcases hm with rfl | rfl | rfl | rfl | rfl <;> simp [Step.loc?] at hl <;> omega
  | 1 => simp [demo] at hm; rcases hm with rfl | rfl | rfl | rfl <;> simp [Step.loc?] at hl <;> omega
  | _+2 => simp [demo] at hm

/-- a concrete interleaving: both run to completion and have read what they read alone -/
example : (runInterleaved demo demoStore [1, 0, 0, 1, 1, 0, 0, 1, 0]).hist 0 = [7, 9, 8] ∧
    (runSolo demo demoStore 0 5).hist 0 = [7, 9, 8] ∧
    (runInterleaved demo demoStore [1, 0, 0, 1, 1, 0, 0, 1, 0]).hist 1 = [9, 7, 32] ∧
    (runSolo demo demoStore 1 4).hist 1 = [9, 7, 32] := by decide

/-- The hypothesis is needed: a memo written to a shared location. Thread 0 caches
    a value in shared location 0; thread 1 reads it. Alone thread 1 reads 0, after
    thread 0 it reads 1 — its result depends on the schedule — and the two steps
    conflict. -/
def racy : Nat → Thread
  | 0 => [.write (.shared 0) (fun _ => 1)]
  | 1 => [.read (.shared 0)]
  | _ => []

example : (runInterleaved racy (fun _ => 0) [0, 1]).hist 1 = [1] ∧
    (runSolo racy (fun _ => 0) 1 ([0, 1].count 1)).hist 1 = [0] ∧
    (runInterleaved racy (fun _ => 0) [1, 0]).hist 1 = [0] := by decide

example : conflict 0 (.write (.shared 0) (fun _ => 1)) 1 (.read (.shared 0)) :=
  ⟨by decide, .shared 0, rfl, rfl, Or.inl rfl⟩

example : ¬ NoSharedWrite racy := fun h => h 0 (.shared 0) (fun _ => 1) (by simp [racy]) 0 rfl

/-! ### non-vacuity, by name -/

/-- non-vacuity of `interleaving_equals_solo` (and of `result_equals_solo`, which has the same
    hypotheses): the two-thread system `demo`, whose threads read both shared locations and
    write, then read back, memory of their own -/
theorem interleaving_equals_solo_nonvacuous : NoSharedWrite demo ∧ WellScoped demo := by
  constructor
  · intro i l f hm n
    match i with
    | 0 => simp [demo] at hm; obtain ⟨rfl, _⟩ := hm; simp
    | 1 => simp [demo] at hm; obtain ⟨rfl, _⟩ := hm; simp
    | _+2 => simp [demo] at hm
  · intro i st hm j n hl
    match i with
    | 0 => simp [demo] at hm; rcases hm with rfl | rfl | rfl | rfl | rfl <;> simp [Step.loc?] at hl <;> omega
    | 1 => simp [demo] at hm; rcases hm with rfl | rfl | rfl | rfl <;> simp [Step.loc?] at hl <;> omega
    | _+2 => simp [demo] at hm

/-- non-vacuity of `result_equals_solo`: same witness -/
theorem result_equals_solo_nonvacuous : NoSharedWrite demo ∧ WellScoped demo :=
  interleaving_equals_solo_nonvacuous

/-- the theorem applied: in the schedule below thread 1 has read, after 4 of its steps, what it
    reads alone — [9, 7, 32], computed from both shared values -/
example : (runInterleaved demo demoStore [1, 0, 0, 1, 1, 0, 0, 1, 0]).hist 1 = [9, 7, 32] :=
  (interleaving_equals_solo demo demoStore interleaving_equals_solo_nonvacuous.1
    interleaving_equals_solo_nonvacuous.2 [1, 0, 0, 1, 1, 0, 0, 1, 0] 1).1.trans (by decide)

/-- non-vacuity of `completed_equals_solo`: `demo` again; under this schedule (9 steps, 5 of
    thread 0 and 4 of thread 1, interleaved) both threads have run to completion -/
theorem completed_equals_solo_nonvacuous :
    NoSharedWrite demo ∧ WellScoped demo ∧
    (runInterleaved demo demoStore [1, 0, 0, 1, 1, 0, 0, 1, 0]).rest 0 = [] ∧
    (runInterleaved demo demoStore [1, 0, 0, 1, 1, 0, 0, 1, 0]).rest 1 = [] ∧
    (demo 0).length = 5 ∧ (demo 1).length = 4 :=
  ⟨interleaving_equals_solo_nonvacuous.1, interleaving_equals_solo_nonvacuous.2, rfl, rfl, rfl, rfl⟩

/-- non-vacuity of `no_conflict`: two steps of different threads of `demo` on the same location —
    both read shared location 0, which is all that keeps them from conflicting; and a write of
    thread 0 next to a read of thread 1 -/
theorem no_conflict_nonvacuous :
    NoSharedWrite demo ∧ WellScoped demo ∧
    Step.read (.shared 0) ∈ demo 0 ∧ Step.read (.shared 0) ∈ demo 1 ∧
    (Step.read (.shared 0)).loc? = (Step.read (.shared 0)).loc? ∧ (0 : Nat) ≠ 1 ∧
    Step.write (.priv 0 0) (fun h => h.sum + 1) ∈ demo 0 ∧ Step.read (.priv 1 5) ∈ demo 1 :=
  ⟨interleaving_equals_solo_nonvacuous.1, interleaving_equals_solo_nonvacuous.2,
   by simp [demo], by simp [demo], rfl, by decide, by simp [demo], by simp [demo]⟩

end Props.C20
end AgeModel
