/-
  C15 — CLI: exit status 0 if and only if the whole result was delivered.

  Property theorems only; the helper lemmas live in Proofs/Cli*.lean, the model
  and the vocabulary (`Holds`, `OutputFails`, `KHolds`) in AgeModel/Cli.lean.

  The theorems quantify over every argument record `a`, every world `w` and
  every oracle `o` (what the cryptographic library does with the inputs).
  `run a w o` is the model of `age`, `krun a w o` that of `age-keygen`; both
  return the exit status, the world after the run and the bytes standard
  output accepted.

  `-version` prints the version line through `printVersion`, which exits 1 when
  the write fails (repaired in /repo: it used to be an unchecked `fmt.Println`,
  so `age -version > /dev/full` exited 0).  The version line is therefore a
  result like any other in `exit0_iff_delivered` / `keygen_exit0_iff`; the
  theorems about decryption, encryption and the same-file refusal keep the
  hypothesis `a.version = false` simply because `-version` ends the run before
  any of that is looked at.  The operating system is modelled as far as `World`
  goes: no links, no permissions, no other process.

  Observations, outside the property text (real behaviour, reproduced by the
  harness, consistent with the model; on record, not claimed as defects):
  * an encryption whose INPUT cannot be read leaves an incomplete output behind:
    `age -r KEY -o out somedir` exits 1 and `out` holds the header only; likewise
    `age-keygen -y -o new bad-input` exits 1 and leaves an empty `new` (mode 0600),
    because age-keygen opens its output before it reads its input;
  * identities are tried in command-line order and the first hard error ends
    `age.Decrypt`: `age -d -j nonesuch -i key f` fails (the plugin cannot be
    started) while `age -d -i key -j nonesuch f` succeeds;
  * the same-file check is lexical while the kernel resolves paths: `-o
    missing/../x` with input `x` is refused as the same file although the kernel
    could not even open that spelling, and `-o missing/../out` passes the check
    and then fails in `os.Create` (both exit non-zero, nothing is touched).
-/
import Proofs.CliMain
import Proofs.CliKeygen
set_option linter.unusedSimpArgs false
namespace AgeModel
namespace Props.C15
open Cli

/-! ## age -/

/-- Exit status 0 exactly when the complete result is what the output now
    holds.  With `-version` the result is the version line and the output is
    standard output.  Otherwise: the flags are valid and nothing names a file in
    use (`prepare` yields an output destination), the operation is one that
    succeeds (`operation` yields a plan with a complete result: every key file
    parses, `age.Decrypt` returns a reader that reaches the end, or encryption
    gets going and the input can be read), and that complete result is what the
    output now holds: the `-o` file (closed without error) has exactly that
    content, or standard output took exactly those bytes. -/
theorem exit0_iff_delivered (a : Args) (w : World) (o : Oracle) (ho : o.WF) :
    (run a w o).exit = 0 ↔
      a.noArgs = false ∧
      ((a.version = true ∧ Holds .stdout w (run a w o) o.versionLine) ∨
       (a.version = false ∧ ∃ dest plan result,
          prepare a w = .ok dest ∧ operation a w o = .ok plan ∧ plan.complete = some result ∧
          Holds dest w (run a w o) result)) := by
  unfold run
  cases hn : a.noArgs with
  | true => simp
  | false =>
    cases hv : a.version with
    | true =>
      simp only [Bool.false_eq_true, if_false, if_true, true_and, false_and, or_false, Bool.true_eq_false]
      exact (printVersion_spec w o.versionLine).2.1
    | false =>
      simp only [Bool.false_eq_true, if_false, true_and, false_and, false_or]
      cases hp : prepare a w with
      | error e => simp
      | ok dest =>
        cases hop : operation a w o with
        | error e => simp
        | ok plan =>
          simp only
          rw [execute_exit0_iff dest plan w (fun h => prepare_buffered a w (h ▸ hp))
            (operation_enc_ne a w o ho plan hop)]
          constructor
          · intro ⟨result, hc, hh⟩
            exact ⟨dest, plan, result, rfl, rfl, hc, hh⟩
          · intro ⟨dest', plan', result, hd, hpl, hc, hh⟩
            simp only [Except.ok.injEq] at hd hpl
            subst hd; subst hpl
            exact ⟨result, hc, hh⟩

/-- `-version` to an output that rejects or cannot take the whole line (/dev/full,
    a pipe closing early, RLIMIT_FSIZE): the exit status is not 0; the world is
    untouched and what did get out is a prefix of the line. -/
theorem version_output_failure_nonzero (a : Args) (w : World) (o : Oracle) (hn : a.noArgs = false)
    (hv : a.version = true) :
    (OutputFails w o.versionLine .stdout → (run a w o).exit ≠ 0) ∧
    (run a w o).world = w ∧ (run a w o).stdout <+: o.versionLine := by
  have hrun : run a w o = printVersion w o.versionLine := by simp [run, hn, hv]
  rw [hrun]
  obtain ⟨hw, hiff, hpre⟩ := printVersion_spec w o.versionLine
  refine ⟨?_, hw, hpre⟩
  intro hf h0
  have hh := hiff.1 h0
  simp only [Holds] at hh
  cases hf with
  | stdoutFull hso => exact hh.2 hso
  | stdoutCap c hso hlt =>
    have : (printVersion w o.versionLine).stdout = (accept (some c) 0 o.versionLine).1 := by
      simp [printVersion, Proc.writeStdout, Proc.result, hso]
    rw [this, accept_zero_some] at hh
    have hnle : ¬ o.versionLine.length ≤ c := by omega
    simp only [hnle, if_false] at hh
    have := congrArg List.length hh.1
    simp only [List.length_take] at this
    omega

/-- in particular an exit status of 0 means the flags passed main's switch -/
theorem exit0_flags_valid (a : Args) (w : World) (o : Oracle) (hv : a.version = false) (ho : o.WF)
    (h : (run a w o).exit = 0) :
    a.noArgs = false ∧ a.positional.length ≤ 1 ∧ flagCheck a = none := by
  obtain ⟨hn, hcase⟩ := (exit0_iff_delivered a w o ho).1 h
  rcases hcase with ⟨hv', _⟩ | ⟨_, dest, _, _, hp, _⟩
  · rw [hv] at hv'; exact Bool.noConfusion hv'
  have := prepare_ok_valid a w dest hp
  exact ⟨hn, this.1, this.2.1⟩

/-- Decryption refused before a reader exists (a key file that does not parse,
    `age.Decrypt` returning an error: no matching identity, wrong passphrase,
    malformed or altered header, unreadable input): exit status 1 and the world
    is exactly what it was — the `-o` path is neither created nor modified — and
    nothing is written to standard output. -/
theorem header_refusal_no_touch (a : Args) (w : World) (o : Oracle) (hv : a.version = false)
    (hd : a.decrypt = true) (href : ∀ pt fa, operation a w o ≠ .ok (.dec (.ok pt fa))) :
    (run a w o).exit = 1 ∧ (run a w o).world = w ∧ (run a w o).stdout = [] ∧
      ∀ t, (run a w o).world.get t = w.get t := by
  have key : run a w o = ⟨1, w, []⟩ := by
    unfold run
    cases hn : a.noArgs with
    | true => simp
    | false =>
      simp only [hv, Bool.false_eq_true, if_false]
      cases hp : prepare a w with
      | error e => rfl
      | ok dest =>
        cases hop : operation a w o with
        | error e => rfl
        | ok plan =>
          rcases operation_plan a w o plan hop with ⟨_, oc, hpl⟩ | ⟨hdf, _⟩
          · subst hpl
            cases oc with
            | headerRefused => simp [execute, Proc.result]
            | ok pt fa => exact absurd hop (href pt fa)
          · rw [hd] at hdf; exact Bool.noConfusion hdf
  rw [key]
  exact ⟨rfl, rfl, rfl, fun _ => rfl⟩

/-- The payload fails after `n` bytes of plaintext: the exit status is not 0,
    standard output received a prefix of the `n` bytes of true plaintext released
    before the failure (nothing past them, nothing else), and every path either is
    what it was or is a regular file holding a prefix of those `n` bytes. -/
theorem payload_failure_prefix (a : Args) (w : World) (o : Oracle) (pt : Bytes) (n : Nat)
    (hv : a.version = false) (hop : operation a w o = .ok (.dec (.ok pt (some n)))) :
    (run a w o).exit ≠ 0 ∧ (run a w o).stdout <+: pt.take n ∧
      ∀ u, (run a w o).world.get u = w.get u ∨
        ∃ c m, (run a w o).world.get u = .file c m ∧ c <+: pt.take n := by
  unfold run
  cases hn : a.noArgs with
  | true => exact ⟨by simp, List.nil_prefix, fun _ => Or.inl rfl⟩
  | false =>
    simp only [hv, Bool.false_eq_true, if_false]
    cases hp : prepare a w with
    | error e => exact ⟨by simp, List.nil_prefix, fun _ => Or.inl rfl⟩
    | ok dest =>
      simp only [hop]
      obtain ⟨h1, h2, h3⟩ := execute_payload dest w pt n (fun h => prepare_buffered a w (h ▸ hp))
      exact ⟨by rw [h1]; simp, h2, h3⟩

/-- An output that cannot be created (missing or non-directory parent, a
    directory), that rejects writes (/dev/full), that takes fewer bytes than the
    complete result (a closing pipe, RLIMIT_FSIZE, a full disk), or whose close
    fails: the exit status is not 0, even though the operation itself would
    have succeeded. -/
theorem output_failure_nonzero (a : Args) (w : World) (o : Oracle) (dest : Dest) (plan : Plan) (result : Bytes)
    (hv : a.version = false) (ho : o.WF) (hp : prepare a w = .ok dest) (hop : operation a w o = .ok plan)
    (hc : plan.complete = some result) (hf : OutputFails w result dest) : (run a w o).exit ≠ 0 := by
  unfold run
  cases hn : a.noArgs with
  | true => simp
  | false =>
    simp only [hv, Bool.false_eq_true, if_false, hp, hop]
    exact execute_output_fails dest plan w result (operation_enc_ne a w o ho plan hop) hc hf

/-- The output names — under any spelling `p` with the same cleaned absolute
    path as a spelling `q` — the input, an `-i` identity file or an `-R`
    recipients file: exit status 1, the world is untouched, nothing is written. -/
theorem same_file_refused (a : Args) (w : World) (o : Oracle) (q : Bytes) (hv : a.version = false)
    (hout : isFileName a.output = true) (hq : q ∈ inUseNames a)
    (heq : absPath w.cwd a.output = absPath w.cwd q) :
    (run a w o).exit = 1 ∧ (run a w o).world = w ∧ (run a w o).stdout = [] := by
  obtain ⟨e, he⟩ := prepare_same_file a w q hout hq heq
  unfold run
  cases hn : a.noArgs with
  | true => exact ⟨rfl, rfl, rfl⟩
  | false =>
    simp only [hv, Bool.false_eq_true, if_false, he]
    exact ⟨trivial, trivial, trivial⟩

/-- Go compares the strings `filepath.Abs` returns; for a valid working
    directory that is the comparison of cleaned component lists the model makes. -/
theorem same_file_refused_strings (a : Args) (w : World) (o : Oracle) (q : Bytes) (hv : a.version = false)
    (hcwd : ValidPath w.cwd) (hout : isFileName a.output = true) (hq : q ∈ inUseNames a)
    (heq : render (absPath w.cwd a.output) = render (absPath w.cwd q)) :
    (run a w o).exit = 1 ∧ (run a w o).world = w ∧ (run a w o).stdout = [] :=
  same_file_refused a w o q hv hout hq ((abs_string_eq_iff w.cwd a.output q hcwd).1 heq)

/-- Whatever happens, only the path `-o` resolves to can change: the input, the
    identity and recipients files and everything else are left alone. -/
theorem only_output_changes (a : Args) (w : World) (o : Oracle) (u : Path)
    (hu : isFileName a.output = false ∨ resolve w a.output ≠ some u) :
    (run a w o).world.get u = w.get u := by
  unfold run
  cases hn : a.noArgs with
  | true => rfl
  | false =>
    simp only [Bool.false_eq_true, if_false]
    cases hver : a.version with
    | true =>
      simp only [if_true]
      rw [(printVersion_spec w o.versionLine).1]
    | false =>
      simp only [Bool.false_eq_true, if_false]
      cases hp : prepare a w with
      | error e => rfl
      | ok dest =>
        cases hop : operation a w o with
        | error e => rfl
        | ok plan =>
          simp only
          cases dest with
          | stdout => rw [execute_world_of_not_lazy .stdout plan w (by simp) (by simp)]
          | buffered =>
            rw [execute_world_of_not_lazy .buffered plan w (by simp) (fun _ => prepare_buffered a w hp)]
          | lazy name =>
            obtain ⟨hname, hfile, _⟩ := prepare_lazy a w name hp
            subst hname
            rcases hu with h | h
            · rw [hfile] at h; exact Bool.noConfusion h
            · exact (execute_lazy_frame a.output plan w).2 u h

/-! ### spellings of one path -/

theorem clean_idempotent (p : Bytes) : clean (clean p) = clean p := Cli.clean_idempotent p

/-- `filepath.Abs` sends all of these spellings of a relative path `p` below the
    working directory to the same cleaned path: `./p`, `p/.`, `p/`, `d/../p`,
    a doubled slash anywhere, and the absolute spelling `cwd/p`. -/
theorem abs_spelling (cwd : Path) (p : Bytes) (hcwd : ValidPath cwd) (hp : p ≠ []) (hrel : rooted p = false) :
    absPath cwd (dotB ++ slash :: p) = absPath cwd p ∧
    absPath cwd (p ++ slash :: dotB) = absPath cwd p ∧
    absPath cwd (p ++ [slash]) = absPath cwd p ∧
    (∀ d, NormalComp d → absPath cwd (d ++ slash :: (dotdot ++ slash :: p)) = absPath cwd p) ∧
    (∀ x y, p = x ++ slash :: y → absPath cwd (x ++ slash :: slash :: y) = absPath cwd p) ∧
    absPath cwd (render cwd ++ slash :: p) = absPath cwd p ∧
    absPath cwd (render (absPath cwd p)) = absPath cwd p :=
  ⟨abs_dot_slash cwd p hrel, abs_slash_dot cwd p hp, abs_trailing_slash cwd p hp,
   fun d hd => abs_down_up cwd d p hd hrel,
   fun x y h => by rw [h]; exact abs_double_slash cwd x y,
   abs_absolute cwd p hcwd hrel, absPath_idempotent cwd p hcwd⟩

/-- when the kernel resolves a path at all, it resolves it to what `filepath.Abs` computes (no links) -/
theorem resolve_is_abs (w : World) (p : Bytes) (t : Path) (h : resolve w p = some t) : t = absPath w.cwd p :=
  resolve_eq_abs w p t h

/-! ## age-keygen -/

/-- `-o` names something that exists (a file, a directory, a device): exit
    status 1, nothing is changed, nothing is printed. -/
theorem keygen_no_overwrite (a : KArgs) (w : World) (o : KOracle) (t : Path) (hv : a.version = false)
    (hout : a.output ≠ []) (hr : resolve w a.output = some t) (hg : w.get t ≠ .absent) :
    (krun a w o).exit = 1 ∧ (krun a w o).world = w ∧ (krun a w o).stdout = [] := by
  rw [krun_uncreatable a w o hv hout (createExcl_exists w a.output t hr hg)]
  exact ⟨rfl, rfl, rfl⟩

/-- Exit status 0 exactly when the arguments are valid and the complete result
    is what the output holds. With `-version`: standard output took the whole
    version line. Otherwise the input (in `-y` mode) opens and parses, and
    standard output took exactly the result, or the `-o` path did not exist and
    is now a regular file with mode `0600 &^ umask` holding exactly it. -/
theorem keygen_exit0_iff (a : KArgs) (w : World) (o : KOracle) (ho : o.WF) :
    (krun a w o).exit = 0 ↔
      kargsValid a = true ∧
      ((a.version = true ∧ Holds .stdout w (krun a w o) o.versionLine) ∨
       (a.version = false ∧ ∃ segs, koperation a (kworld1 a w) o = some segs ∧
          KHolds a w (krun a w o) segs.flatten)) := by
  cases hargs : kargsValid a with
  | false => simp [krun_invalid a w o hargs]
  | true =>
    simp only [true_and]
    cases hv : a.version with
    | true =>
      have hrun : krun a w o = printVersion w o.versionLine := by simp [krun, hargs, hv]
      simp only [or_false, true_and, Bool.true_eq_false, false_and]
      rw [hrun]
      exact (printVersion_spec w o.versionLine).2.1
    | false =>
    simp only [Bool.false_eq_true, false_and, false_or, true_and]
    by_cases hout : a.output = []
    · -- standard output
      obtain ⟨_, h⟩ := krun_stdout a w o hv hargs hout
      simp only [kworld1, hout, if_true, KHolds]
      cases hop : koperation a w o with
      | none => rw [hop] at h; simp [h.1]
      | some segs =>
        rw [hop] at h
        simp only [Option.some.injEq, exists_eq_left']
        have hne := koperation_ne a w o ho segs hop
        cases hso : w.stdout with
        | terminal => rw [hso] at h; simp [h.1, h.2]
        | devFull =>
          rw [hso] at h
          have : segs.isEmpty = false := by cases segs <;> simp_all
          simp [h.2, this]
        | limited cap =>
          rw [hso] at h
          rw [h.1, h.2]
          cases hok : (accept cap 0 segs.flatten).2 with
          | true => simp [accept_ok cap 0 _ hok]
          | false =>
            have := accept_fail_ne cap 0 segs.flatten (fun _ _ => Nat.zero_le _) hok
            simp [this]
    · -- the -o file
      simp only [KHolds, hout, if_false]
      cases hcr : createExcl w a.output with
      | none =>
        rw [krun_uncreatable a w o hv hout hcr]
        simp only [Nat.succ_ne_zero, false_iff, not_exists, not_and]
        intro segs _ _ t hr hg _
        rw [createExcl_of_absent w a.output t hr hg] at hcr
        simp at hcr
      | some x =>
        obtain ⟨w1, t⟩ := x
        obtain ⟨hr, hg, hw1⟩ := createExcl_some w w1 a.output t hcr
        subst hw1
        obtain ⟨_, _, h⟩ := krun_file a w o hv hargs hout t hr hg
        simp only [kworld1, hout, if_false, hcr]
        cases hop : koperation a (w.set t (.file [] (applyUmask 0o600 w.umask))) o with
        | none => rw [hop] at h; simp [h.1]
        | some segs =>
          rw [hop] at h
          simp only [Option.some.injEq, exists_eq_left']
          rw [h.2]
          constructor
          · intro h0
            have h1 : (accept w.fsize 0 segs.flatten).2 = true ∧ w.closeFails = false := by
              cases h2 : (accept w.fsize 0 segs.flatten).2 <;> cases h3 : w.closeFails <;> simp_all
            refine ⟨h1.2, t, hr, hg, ?_⟩
            rw [h.1, accept_ok _ _ _ h1.1]
          · intro ⟨hcf, t', hr', _, hg'⟩
            rw [← resolve_unique hr hr', h.1] at hg'
            have hacc : (accept w.fsize 0 segs.flatten).1 = segs.flatten := by
              simpa using congrArg (fun n => match n with | .file c _ => c | _ => []) hg'
            have hok : (accept w.fsize 0 segs.flatten).2 = true := by
              cases h2 : (accept w.fsize 0 segs.flatten).2 with
              | true => rfl
              | false => exact absurd hacc (accept_fail_ne _ 0 _ (fun _ _ => Nat.zero_le _) h2)
            simp [hok, hcf]

/-- Whenever age-keygen creates its `-o` file — whether or not the run then
    succeeds — the file's mode is `0600 &^ umask`: never readable, writable or
    executable by group or others, and exactly 0600 under any umask that leaves
    the owner's read and write bits alone; no other path changes. -/
theorem keygen_mode_0600 (a : KArgs) (w : World) (o : KOracle) (t : Path) (hv : a.version = false)
    (hargs : kargsValid a = true) (hout : a.output ≠ []) (hr : resolve w a.output = some t)
    (hg : w.get t = .absent) :
    (∃ c, (krun a w o).world.get t = .file c (applyUmask 0o600 w.umask)) ∧
    applyUmask 0o600 w.umask &&& 0o077 = 0 ∧
    (w.umask &&& 0o600 = 0 → applyUmask 0o600 w.umask = 0o600) ∧
    (∀ u, u ≠ t → (krun a w o).world.get u = w.get u) := by
  obtain ⟨_, hfr, h⟩ := krun_file a w o hv hargs hout t hr hg
  refine ⟨?_, applyUmask_600_private w.umask, applyUmask_600_exact w.umask, hfr⟩
  cases hop : koperation a (w.set t (.file [] (applyUmask 0o600 w.umask))) o with
  | none => rw [hop] at h; exact ⟨_, h.2⟩
  | some segs => rw [hop] at h; exact ⟨_, h.1⟩

/-! ## The copy loops are modelled as one write

`io.Copy`, the STREAM writer, the armor writer and age-keygen's `-y` loop issue
many non-empty writes and stop at the first error; the model of `age` hands the
whole byte string to the destination at once.  For the destinations of the
model that makes no difference to the final content, the bytes standard output
accepted, or success: -/

/-- writing segment by segment to an open file = writing the concatenation at once -/
theorem segmentation_irrelevant_file (t : Path) (m : Nat) (segs : List Bytes) (p : Proc) (c0 : Bytes)
    (hg : p.w.get t = .file c0 m) (hcap : ∀ L, p.w.fsize = some L → c0.length ≤ L) :
    (kwriteLines (.file t) p segs).1.w.get t = (p.writeFile t segs.flatten).1.w.get t ∧
    (kwriteLines (.file t) p segs).2 = (p.writeFile t segs.flatten).2 := by
  obtain ⟨h1, h2, _⟩ := kwriteLines_file t m segs p c0 hg hcap
  simp [Proc.writeFile, hg, h1, h2]

/-- ... and to standard output (a device that rejects everything rejects the first
    segment just as it rejects the whole; with no segment at all nothing is written) -/
theorem segmentation_irrelevant_stdout (segs : List Bytes) (p : Proc) (hne : segs ≠ [])
    (hinv : ∀ c, p.w.stdout = .limited (some c) → p.emitted.length ≤ c) :
    (kwriteLines .stdout p segs).1.emitted = (p.writeStdout segs.flatten).1.emitted ∧
    (kwriteLines .stdout p segs).2 = (p.writeStdout segs.flatten).2 := by
  obtain ⟨_, h⟩ := kwriteLines_stdout segs p hinv
  cases hso : p.w.stdout with
  | terminal => rw [hso] at h; simp [Proc.writeStdout, hso, h.1, h.2]
  | devFull =>
    rw [hso] at h
    have : segs.isEmpty = false := by cases segs <;> simp_all
    simp [Proc.writeStdout, hso, h.1, h.2, this]
  | limited cap => rw [hso] at h; simp [Proc.writeStdout, hso, h.1, h.2]

/-! ## Non-vacuity: concrete worlds -/

section Examples

-- names and paths as bytes (string literals do not reduce under `decide`)
abbrev nT : Bytes := [116]                                        -- "t"
abbrev nIn : Bytes := [105, 110]                                  -- "in"
abbrev nKey : Bytes := [107, 101, 121]                            -- "key"
abbrev nOld : Bytes := [111, 108, 100]                            -- "old"
abbrev nSub : Bytes := [115, 117, 98]                             -- "sub"
abbrev nOut : Bytes := [111, 117, 116]                            -- "out"
abbrev nNew : Bytes := [110, 101, 119]                            -- "new"
abbrev pNodirOut : Bytes := [110, 111, 100, 105, 114, 47, 111, 117, 116]   -- "nodir/out"
abbrev pSubUpIn : Bytes := [115, 117, 98, 47, 46, 46, 47, 105, 110]        -- "sub/../in"
abbrev pAbsKey : Bytes := [47, 116, 47, 47, 107, 101, 121]                 -- "/t//key"
abbrev devel : Bytes := [40, 100, 101, 118, 101, 108, 41, 10]              -- "(devel)\n"

/-- /t is the working directory; it holds an input, a key file, an old output and a directory -/
def w0 : World :=
  { cwd := [nT],
    nodes := [([nT], .dir), ([nT, nIn], .file [1, 2, 3] 0o644), ([nT, nKey], .file [7] 0o600),
              ([nT, nOld], .file [9, 9] 0o600), ([nT, nSub], .dir)] }

def o0 : Oracle :=
  { recipientOK := fun _ => true, recipientsFileOK := fun _ => true, identityFileOK := fun _ => true,
    pluginOK := fun _ => true, passphraseOK := false, wrapOK := true,
    dec := .ok [10, 20, 30] none, ct := [5, 6, 7, 8], flushed := [5, 6], versionLine := devel }

/-- the oracle hypotheses are satisfiable -/
theorem o0_wf : o0.WF := ⟨by decide, ⟨[7, 8], rfl⟩⟩

/-- `age -d -i key -o <out> in` -/
def decArgs (out : Bytes) : Args :=
  { decrypt := true, identities := [(.i, nKey)], positional := [nIn], output := out }

/-- a successful decryption to a new file: exit 0 and the file holds the plaintext, mode 0644 -/
example : (run (decArgs nOut) w0 o0).exit = 0 ∧
    (run (decArgs nOut) w0 o0).world.get [nT, nOut] = .file [10, 20, 30] 0o644 := by decide

/-- ... and over an existing file: content replaced, mode kept -/
example : (run (decArgs nOld) w0 o0).world.get [nT, nOld] = .file [10, 20, 30] 0o600 := by decide

/-- a refused header leaves the existing file alone (the hypotheses of `header_refusal_no_touch` are satisfiable) -/
example : (run (decArgs nOld) w0 { o0 with dec := .headerRefused }).exit = 1 ∧
    (run (decArgs nOld) w0 { o0 with dec := .headerRefused }).world.get [nT, nOld] = .file [9, 9] 0o600 := by
  decide

/-- a payload failure after 2 bytes leaves a 2-byte prefix and a non-zero status -/
example : (run (decArgs nOut) w0 { o0 with dec := .ok [10, 20, 30] (some 2) }).exit = 1 ∧
    (run (decArgs nOut) w0 { o0 with dec := .ok [10, 20, 30] (some 2) }).world.get [nT, nOut] =
      .file [10, 20] 0o644 := by decide

/-- an output in a directory that does not exist: non-zero -/
example : (run (decArgs pNodirOut) w0 o0).exit = 1 := by decide

/-- RLIMIT_FSIZE = 2: two bytes are left behind, non-zero -/
example : (run (decArgs nOut) { w0 with fsize := some 2 } o0).exit = 1 ∧
    (run (decArgs nOut) { w0 with fsize := some 2 } o0).world.get [nT, nOut] = .file [10, 20] 0o644 := by
  decide

/-- standard output that closes after one byte -/
example : (run (decArgs []) { w0 with stdout := .limited (some 1) } o0).exit = 1 ∧
    (run (decArgs []) { w0 with stdout := .limited (some 1) } o0).stdout = [10] := by decide

/-- the output spelled `sub/../in` is the input: refused, nothing touched -/
example : (run (decArgs pSubUpIn) w0 o0).exit = 1 ∧
    (run (decArgs pSubUpIn) w0 o0).world.get [nT, nIn] = .file [1, 2, 3] 0o644 := by decide

/-- ... and so is the key file spelled `/t//key` -/
example : (run (decArgs pAbsKey) w0 o0).exit = 1 := by decide

/-- an encryption (`age -r … -o out in`): the ciphertext ends up in the file -/
example : (run { recipients := [[97, 103, 101, 49]], positional := [nIn], output := nOut } w0 o0).world.get
    [nT, nOut] = .file [5, 6, 7, 8] 0o644 := by decide

/-- `-version` to /dev/full exits non-zero (it used to exit 0: the defect repaired in /repo) -/
theorem version_to_devfull_nonzero : (run { version := true } { w0 with stdout := .devFull } o0).exit = 1 ∧
    (run { version := true } { w0 with stdout := .devFull } o0).stdout = [] := by decide

/-- ... to a pipe that closes after 3 bytes as well, and to a pipe it exits 0 with the whole line -/
example : (run { version := true } { w0 with stdout := .limited (some 3) } o0).exit = 1 ∧
    (run { version := true } w0 o0).exit = 0 ∧ (run { version := true } w0 o0).stdout = devel := by decide

abbrev line1 : Bytes := [97, 103, 101, 49, 97, 10]    -- "age1a\n"
abbrev line2 : Bytes := [97, 103, 101, 49, 98, 10]    -- "age1b\n"

def k0 : KOracle := { keyFile := [35, 32, 107, 101, 121, 10], converted := some [line1, line2], versionLine := devel }

theorem k0_wf : k0.WF :=
  ⟨by decide, by
    intro ls h
    have : ls = [line1, line2] := by simpa [k0] using h.symm
    subst this
    decide⟩

/-- age-keygen -o new: created with mode 0600 under umask 022, holding the whole key file -/
example : (krun { output := nNew } w0 k0).exit = 0 ∧
    (krun { output := nNew } w0 k0).world.get [nT, nNew] = .file k0.keyFile 0o600 := by decide

/-- age-keygen -o old: refused, untouched -/
example : (krun { output := nOld } w0 k0).exit = 1 ∧
    (krun { output := nOld } w0 k0).world.get [nT, nOld] = .file [9, 9] 0o600 := by decide

/-- age-keygen -y key to a pipe that closes after 8 bytes: non-zero, eight bytes got out -/
example : (krun { convert := true, positional := [nKey] } { w0 with stdout := .limited (some 8) } k0).exit = 1 ∧
    (krun { convert := true, positional := [nKey] } { w0 with stdout := .limited (some 8) } k0).stdout =
      [97, 103, 101, 49, 97, 10, 97, 103] := by decide

/-- age-keygen -version to /dev/full: non-zero -/
example : (krun { version := true } { w0 with stdout := .devFull } k0).exit = 1 ∧
    (krun { version := true } w0 k0).exit = 0 := by decide

end Examples

/-! ## Non-vacuity: the hypotheses of every theorem above, at the concrete worlds -/

/-- `w0` with a device that rejects every write at /t/full -/
def w0Full : World := { w0 with nodes := ([nT, [102, 117, 108, 108]], .devFull) :: w0.nodes }

/-- non-vacuity of `exit0_iff_delivered`: the oracle `o0`; both sides of the equivalence hold for
    `age -d -i key -o out in` in `w0` (the three plaintext bytes end up in /t/out) and both fail
    when RLIMIT_FSIZE is 2 -/
theorem exit0_iff_delivered_nonvacuous :
    o0.WF ∧ (run (decArgs nOut) w0 o0).exit = 0 ∧
    (decArgs nOut).noArgs = false ∧ (decArgs nOut).version = false ∧
    prepare (decArgs nOut) w0 = .ok (.lazy nOut) ∧
    operation (decArgs nOut) w0 o0 = .ok (.dec (.ok [10, 20, 30] none)) ∧
    (Plan.dec (.ok [10, 20, 30] none)).complete = some [10, 20, 30] ∧
    Holds (.lazy nOut) w0 (run (decArgs nOut) w0 o0) [10, 20, 30] ∧
    (run (decArgs nOut) { w0 with fsize := some 2 } o0).exit ≠ 0 :=
  ⟨o0_wf, by decide, rfl, rfl, by rfl, by rfl, rfl,
   ⟨rfl, [nT, nOut], 0o644, by decide, by decide⟩, by decide⟩

example : (run (decArgs nOut) w0 o0).exit = 0 :=
  (exit0_iff_delivered _ _ _ o0_wf).2
    ⟨rfl, Or.inr ⟨rfl, _, _, _, exit0_iff_delivered_nonvacuous.2.2.2.2.1,
      exit0_iff_delivered_nonvacuous.2.2.2.2.2.1, rfl, exit0_iff_delivered_nonvacuous.2.2.2.2.2.2.2.1⟩⟩

/-- non-vacuity of `version_output_failure_nonzero`: `age -version` with standard output on
    /dev/full, and on a pipe that closes after 3 of the 8 bytes: the premise `OutputFails` of the
    inner implication holds in both -/
theorem version_output_failure_nonzero_nonvacuous :
    ({ version := true } : Args).noArgs = false ∧ ({ version := true } : Args).version = true ∧
    OutputFails { w0 with stdout := .devFull } o0.versionLine .stdout ∧
    OutputFails { w0 with stdout := .limited (some 3) } o0.versionLine .stdout :=
  ⟨rfl, rfl, .stdoutFull rfl, .stdoutCap 3 rfl (by decide)⟩

example : (run { version := true } { w0 with stdout := .limited (some 3) } o0).exit ≠ 0 :=
  (version_output_failure_nonzero _ _ o0 rfl rfl).1 version_output_failure_nonzero_nonvacuous.2.2.2

/-- non-vacuity of `exit0_flags_valid`: the successful decryption to /t/out -/
theorem exit0_flags_valid_nonvacuous :
    (decArgs nOut).version = false ∧ o0.WF ∧ (run (decArgs nOut) w0 o0).exit = 0 :=
  ⟨rfl, o0_wf, by decide⟩

/-- non-vacuity of `header_refusal_no_touch`: `age -d -i key -o old in` when `age.Decrypt` refuses
    the header; every check before it passes (the operation gets as far as the refusal) and the
    existing /t/old is at stake -/
theorem header_refusal_no_touch_nonvacuous :
    (decArgs nOld).version = false ∧ (decArgs nOld).decrypt = true ∧
    (∀ pt fa, operation (decArgs nOld) w0 { o0 with dec := .headerRefused } ≠ .ok (.dec (.ok pt fa))) ∧
    prepare (decArgs nOld) w0 = .ok (.lazy nOld) ∧
    operation (decArgs nOld) w0 { o0 with dec := .headerRefused } = .ok (.dec .headerRefused) := by
  have h : operation (decArgs nOld) w0 { o0 with dec := .headerRefused } = .ok (.dec .headerRefused) := by
    rfl
  refine ⟨rfl, rfl, ?_, by rfl, h⟩
  intro pt fa h'
  rw [h] at h'
  cases h'

/-- non-vacuity of `payload_failure_prefix`: the reader yields 2 of the 3 plaintext bytes, then fails -/
theorem payload_failure_prefix_nonvacuous :
    (decArgs nOut).version = false ∧
    operation (decArgs nOut) w0 { o0 with dec := .ok [10, 20, 30] (some 2) } =
      .ok (.dec (.ok [10, 20, 30] (some 2))) :=
  ⟨rfl, by rfl⟩

/-- non-vacuity of `output_failure_nonzero`: the decryption of 3 bytes that would succeed, with
    RLIMIT_FSIZE = 2 (`OutputFails.fileCap`); the other five ways an output fails follow -/
theorem output_failure_nonzero_nonvacuous :
    (decArgs nOut).version = false ∧ o0.WF ∧
    prepare (decArgs nOut) { w0 with fsize := some 2 } = .ok (.lazy nOut) ∧
    operation (decArgs nOut) { w0 with fsize := some 2 } o0 = .ok (.dec (.ok [10, 20, 30] none)) ∧
    (Plan.dec (.ok [10, 20, 30] none)).complete = some [10, 20, 30] ∧
    OutputFails { w0 with fsize := some 2 } [10, 20, 30] (.lazy nOut) :=
  ⟨rfl, o0_wf, by rfl, by rfl, rfl, .fileCap nOut 2 rfl (by decide)⟩

/-- ... the parent directory is missing (`create`) -/
example : prepare (decArgs pNodirOut) w0 = .ok (.lazy pNodirOut) ∧
    operation (decArgs pNodirOut) w0 o0 = .ok (.dec (.ok [10, 20, 30] none)) ∧
    OutputFails w0 [10, 20, 30] (.lazy pNodirOut) :=
  ⟨by rfl, by rfl, .create _ (by decide)⟩

/-- ... the output is a device that rejects every write (`fileFull`) -/
example : prepare (decArgs [102, 117, 108, 108]) w0Full = .ok (.lazy [102, 117, 108, 108]) ∧
    operation (decArgs [102, 117, 108, 108]) w0Full o0 = .ok (.dec (.ok [10, 20, 30] none)) ∧
    OutputFails w0Full [10, 20, 30] (.lazy [102, 117, 108, 108]) ∧
    (run (decArgs [102, 117, 108, 108]) w0Full o0).exit = 1 :=
  ⟨by rfl, by rfl, .fileFull _ [nT, [102, 117, 108, 108]] (by decide) (by decide), by decide⟩

/-- ... close(2) reports an error (`close`): the file holds everything and the status is 1 -/
example : prepare (decArgs nOut) { w0 with closeFails := true } = .ok (.lazy nOut) ∧
    operation (decArgs nOut) { w0 with closeFails := true } o0 = .ok (.dec (.ok [10, 20, 30] none)) ∧
    OutputFails { w0 with closeFails := true } [10, 20, 30] (.lazy nOut) ∧
    (run (decArgs nOut) { w0 with closeFails := true } o0).exit = 1 ∧
    (run (decArgs nOut) { w0 with closeFails := true } o0).world.get [nT, nOut] = .file [10, 20, 30] 0o644 :=
  ⟨by rfl, by rfl, .close _ rfl, by decide, by decide⟩

/-- ... standard output rejects every write, or closes after one byte (`stdoutFull`, `stdoutCap`) -/
example : prepare (decArgs []) { w0 with stdout := .devFull } = .ok .stdout ∧
    operation (decArgs []) { w0 with stdout := .devFull } o0 = .ok (.dec (.ok [10, 20, 30] none)) ∧
    OutputFails { w0 with stdout := .devFull } [10, 20, 30] .stdout ∧
    prepare (decArgs []) { w0 with stdout := .limited (some 1) } = .ok .stdout ∧
    OutputFails { w0 with stdout := .limited (some 1) } [10, 20, 30] .stdout :=
  ⟨by rfl, by rfl, .stdoutFull rfl, by rfl, .stdoutCap 1 rfl (by decide)⟩

/-- non-vacuity of `same_file_refused`: the output spelled `sub/../in` and the input `in`; it is
    this check that ends the run (`prepare` answers `sameFile`) -/
theorem same_file_refused_nonvacuous :
    (decArgs pSubUpIn).version = false ∧ isFileName (decArgs pSubUpIn).output = true ∧
    nIn ∈ inUseNames (decArgs pSubUpIn) ∧
    absPath w0.cwd (decArgs pSubUpIn).output = absPath w0.cwd nIn ∧
    prepare (decArgs pSubUpIn) w0 = .error .sameFile :=
  ⟨rfl, by decide, by decide, by decide, by rfl⟩

/-- non-vacuity of `same_file_refused_strings`: the output spelled `/t//key` and the `-i` file `key`;
    the two `filepath.Abs` strings are both `/t/key` -/
theorem same_file_refused_strings_nonvacuous :
    (decArgs pAbsKey).version = false ∧ ValidPath w0.cwd ∧ isFileName (decArgs pAbsKey).output = true ∧
    nKey ∈ inUseNames (decArgs pAbsKey) ∧
    render (absPath w0.cwd (decArgs pAbsKey).output) = render (absPath w0.cwd nKey) ∧
    render (absPath w0.cwd nKey) = [47, 116, 47, 107, 101, 121] ∧
    prepare (decArgs pAbsKey) w0 = .error .sameFile := by
  refine ⟨rfl, ?_, by decide, by decide, by decide, by decide, by rfl⟩
  intro c hc
  have : c = nT := by simpa [w0] using hc
  subst this
  exact ⟨by decide, by decide, by decide, by decide⟩

/-- non-vacuity of `only_output_changes`: the successful decryption to /t/out, seen from the input
    /t/in (the run does change the world: /t/out appears) -/
theorem only_output_changes_nonvacuous :
    (isFileName (decArgs nOut).output = false ∨ resolve w0 (decArgs nOut).output ≠ some [nT, nIn]) ∧
    (run (decArgs nOut) w0 o0).world.get [nT, nOut] ≠ w0.get [nT, nOut] :=
  ⟨Or.inr (by decide), by decide⟩

/-- non-vacuity of `abs_spelling`: working directory /t and the relative path `a/b`, which has a
    slash to double; `sub` is a component `d` for `d/../p` -/
theorem abs_spelling_nonvacuous :
    ValidPath [nT] ∧ ([97, 47, 98] : Bytes) ≠ [] ∧ rooted [97, 47, 98] = false ∧
    NormalComp nSub ∧ ([97, 47, 98] : Bytes) = [97] ++ slash :: [98] := by
  refine ⟨?_, by decide, rfl, ⟨by decide, by decide, by decide, by decide⟩, rfl⟩
  intro c hc
  have : c = nT := by simpa using hc
  subst this
  exact ⟨by decide, by decide, by decide, by decide⟩

example : absPath [nT] [115, 117, 98, 47, 46, 46, 47, 97, 47, 98] = [nT, [97], [98]] ∧
    absPath [nT] [97, 47, 47, 98] = [nT, [97], [98]] := by
  obtain ⟨hc, hp, hr, hd, hs⟩ := abs_spelling_nonvacuous
  obtain ⟨_, _, _, h4, h5, _⟩ := abs_spelling [nT] [97, 47, 98] hc hp hr
  exact ⟨(h4 nSub hd).trans (by decide), (h5 [97] [98] hs).trans (by decide)⟩

/-- non-vacuity of `resolve_is_abs`: `in` resolves to /t/in in `w0` -/
theorem resolve_is_abs_nonvacuous : resolve w0 nIn = some [nT, nIn] := by decide

/-- non-vacuity of `keygen_no_overwrite`: `age-keygen -o old` where /t/old is a file -/
theorem keygen_no_overwrite_nonvacuous :
    ({ output := nOld } : KArgs).version = false ∧ ({ output := nOld } : KArgs).output ≠ [] ∧
    resolve w0 ({ output := nOld } : KArgs).output = some [nT, nOld] ∧ w0.get [nT, nOld] ≠ .absent :=
  ⟨rfl, by decide, by decide, by decide⟩

/-- non-vacuity of `keygen_exit0_iff`: the oracle `k0`; both sides hold for `age-keygen -o new`
    in `w0`, and both fail for `age-keygen -y key` to a pipe that closes after 8 of the 12 bytes -/
theorem keygen_exit0_iff_nonvacuous :
    k0.WF ∧ (krun { output := nNew } w0 k0).exit = 0 ∧
    kargsValid { output := nNew } = true ∧ ({ output := nNew } : KArgs).version = false ∧
    koperation { output := nNew } (kworld1 { output := nNew } w0) k0 = some [k0.keyFile] ∧
    KHolds { output := nNew } w0 (krun { output := nNew } w0 k0) [k0.keyFile].flatten ∧
    (krun { convert := true, positional := [nKey] } { w0 with stdout := .limited (some 8) } k0).exit ≠ 0 ∧
    koperation { convert := true, positional := [nKey] }
      (kworld1 { convert := true, positional := [nKey] } { w0 with stdout := .limited (some 8) }) k0 =
        some [line1, line2] := by
  refine ⟨k0_wf, by decide, rfl, rfl, by decide, ?_, by decide, by decide⟩
  show _ ∧ _
  exact ⟨rfl, [nT, nNew], by decide, by decide, by decide⟩

/-- non-vacuity of `keygen_mode_0600`: `age-keygen -o new` in `w0` (umask 022, which leaves the
    owner's bits alone: the premise of the third conjunct holds) -/
theorem keygen_mode_0600_nonvacuous :
    ({ output := nNew } : KArgs).version = false ∧ kargsValid { output := nNew } = true ∧
    ({ output := nNew } : KArgs).output ≠ [] ∧
    resolve w0 ({ output := nNew } : KArgs).output = some [nT, nNew] ∧ w0.get [nT, nNew] = .absent ∧
    w0.umask &&& 0o600 = 0 :=
  ⟨rfl, rfl, by decide, by decide, by decide, by decide⟩

/-- non-vacuity of `segmentation_irrelevant_file`: two 6-byte lines appended to the 2-byte /t/old
    under RLIMIT_FSIZE = 5, so that the limit is hit inside the first segment -/
theorem segmentation_irrelevant_file_nonvacuous :
    (({ w := { w0 with fsize := some 5 } } : Proc).w.get [nT, nOld] = .file [9, 9] 0o600) ∧
    (∀ L, ({ w := { w0 with fsize := some 5 } } : Proc).w.fsize = some L → ([9, 9] : Bytes).length ≤ L) ∧
    (kwriteLines (.file [nT, nOld]) { w := { w0 with fsize := some 5 } } [line1, line2]).1.w.get [nT, nOld] =
      .file [9, 9, 97, 103, 101] 0o600 := by
  refine ⟨by decide, ?_, by decide⟩
  intro L h
  have : L = 5 := by simpa using h.symm
  subst this
  decide

/-- non-vacuity of `segmentation_irrelevant_stdout`: the same two lines to a pipe that closes
    after 8 bytes, i.e. inside the second segment -/
theorem segmentation_irrelevant_stdout_nonvacuous :
    ([line1, line2] : List Bytes) ≠ [] ∧
    (∀ c, ({ w := { w0 with stdout := .limited (some 8) } } : Proc).w.stdout = .limited (some c) →
      ({ w := { w0 with stdout := .limited (some 8) } } : Proc).emitted.length ≤ c) ∧
    (kwriteLines .stdout { w := { w0 with stdout := .limited (some 8) } } [line1, line2]).1.emitted =
      [97, 103, 101, 49, 97, 10, 97, 103] :=
  ⟨by decide, fun c _ => Nat.zero_le c, by decide⟩

end Props.C15
end AgeModel
