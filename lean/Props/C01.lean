/-
  C01 — every listed recipient decrypts to the exact plaintext.
  Property theorems only (helpers: Proofs/StreamSpec, Recipients, File, FileEncrypt).
-/
import Proofs.FileEncrypt
import Proofs.ToyPrims
import Proofs.ArmorRead
namespace AgeModel
namespace Props.C01
open Format Stream

/-- STREAM: decrypting the encryption of any plaintext gives it back followed by a
    clean end of stream (any chunk size C > 0; in particular lengths 0, 1 and every
    length around multiples of C). `NonceSep` is forced: see DESIGN.md §4. -/
theorem stream_roundtrip (A : AEAD) (hA : A.Correct) (hN : A.NonceSep) (C : Nat) (hC : 0 < C) (k p : Bytes) :
    decrypt A C k (encrypt A C k p) = (p, .eof) :=
  Stream.stream_roundtrip A hA hN C hC k p

/-- X25519: the identity unwraps what its recipient wrapped, for every ephemeral secret. -/
theorem x25519_wrap_unwrap (P : Prims) (hP : P.Correct) (sk pk eph fk : Bytes) (st : Stanza)
    (hpk : P.x25519 sk P.basepoint = some pk) (hfk : fk.length = 16)
    (hw : wrapX25519 P pk eph fk = some st) : unwrapX25519 P sk st = .key fk :=
  AgeModel.x25519_wrap_unwrap P hP sk pk eph fk st hpk hfk hw

/-- passphrase: same, whenever the identity's maximum work factor admits the
    recipient's (`logN ≤ maxWF`; defaults 18 ≤ 22). -/
theorem scrypt_wrap_unwrap (P : Prims) (hP : P.Correct) (pw salt fk : Bytes) (logN maxWF : Nat)
    (h1 : 1 ≤ logN) (h30 : logN ≤ 30) (hmax : logN ≤ maxWF) (hsalt : salt.length = 16) (hfk : fk.length = 16) :
    (unwrapScrypt P pw maxWF (wrapScrypt P pw logN salt fk)).1 = .key fk := by
  rw [AgeModel.scrypt_wrap_unwrap P hP pw salt fk logN maxWF h1 h30 hmax hsalt hfk]

example : (1 : Nat) ≤ 18 ∧ 18 ≤ 30 ∧ 18 ≤ 22 := by decide

theorem sshed_wrap_unwrap (P : Prims) (hP : P.Correct) (wire sk pk eph fk : Bytes) (st : Stanza)
    (hpk : P.x25519 sk P.basepoint = some pk) (hw : wrapSshEd P wire pk eph fk = some st) :
    unwrapSshEd P wire sk st = .key fk :=
  AgeModel.sshEd_wrap_unwrap P hP wire sk pk eph fk st hpk hw

theorem sshrsa_wrap_unwrap (P : Prims) (hP : P.Correct) (wire pub priv seed fk : Bytes) (st : Stanza)
    (hpair : P.rsaPair pub priv) (hw : wrapSshRsa P wire pub seed fk = some st) :
    unwrapSshRsa P wire priv st = .key fk :=
  AgeModel.sshRsa_wrap_unwrap P hP wire pub priv seed fk st hpair hw

/-- stanzas of another type are answered "incorrect" without any cryptography -/
theorem other_type_incorrect (P : Prims) (s : Stanza) :
    (∀ sk, s.type ≠ tX25519 → unwrapX25519 P sk s = .incorrect) ∧
    (∀ pw m, s.type ≠ tScrypt → (unwrapScrypt P pw m s).1 = .incorrect) ∧
    (∀ w sk, s.type ≠ tSshEd → unwrapSshEd P w sk s = .incorrect) ∧
    (∀ w k, s.type ≠ tSshRsa → unwrapSshRsa P w k s = .incorrect) :=
  ⟨fun sk h => x25519_other_type P sk s h, fun pw m h => by rw [scrypt_other_type P pw m s h],
   fun w sk h => sshEd_other_type P w sk s h, fun w k h => sshRsa_other_type P w k s h⟩

/-- **Main theorem.** For every random tape, every recipient list `rs` that Encrypt
    accepts (any types, counts, orders, duplicates, custom recipients contributing
    arbitrary well-formed stanzas), every plaintext, and every identity list
    `pre ++ id :: post` in which `id` opens the file key from the header and every
    identity in `pre` answers "incorrect identity": decryption yields exactly the
    plaintext followed by a clean end of stream, having consulted `pre.length + 1`
    identities (none of `post`). -/
theorem decrypt_encrypt (P : Prims) (hP : P.Correct) (hN : P.aead.NonceSep) (C : Nat) (hC : 0 < C)
    (tape : Bytes) (rs : List Recipient) (pt file : Bytes)
    (hrs : ∀ r ∈ rs, r.ProducesWF P)
    (henc : encryptFile P C tape rs pt = .ok file) :
    ∃ fk stanzas t, encryptHeader P tape rs = .ok (fk, stanzas, t) ∧
      ∀ (pre post : List Identity) (id : Identity),
        (∀ i ∈ pre, i.unwrap P stanzas = .incorrect) → id.unwrap P stanzas = .key fk →
        decryptFile P C (pre ++ id :: post) file = .ok (pt, .eof) ∧
        (decryptInit P (pre ++ id :: post) file).2 = pre.length + 1 := by
  unfold encryptFile at henc
  cases hh : encryptHeader P tape rs with
  | error e => simp [hh] at henc
  | ok v =>
    obtain ⟨fk, stanzas, t⟩ := v
    simp only [hh] at henc
    cases hd : draw streamNonceSize t with
    | none => simp [hd] at henc
    | some w =>
      obtain ⟨nonce, t2⟩ := w
      simp only [hd, Except.ok.injEq] at henc
      subst henc
      refine ⟨fk, stanzas, t, rfl, ?_⟩
      intro pre post id hpre hid
      obtain ⟨hfk, t0, hd0, hw⟩ := encryptHeader_fk hh
      have hwf : ∀ s ∈ stanzas, s.WF := wrapAll_wf P fk hfk rs 0 t0 [] none stanzas t hrs (by simp) hw
      have hfk' : fk ≠ [] := by intro e; rw [e] at hfk; simp [fileKeySize] at hfk
      have hn := (draw_spec hd).1
      exact ⟨decryptFile_specFile P hP hN C hC fk nonce pt stanzas hwf hfk' hn pre post id hpre hid,
        by rw [decryptInit_specFile P hP C fk nonce pt stanzas hwf hfk' hn pre post id hpre hid]⟩

/-- The hypothesis "`id` opens the file key" discharged for a native X25519
    recipient at ANY position of the list: its identity opens the file provided it
    answers "incorrect" to the stanzas of the recipients listed before it (which
    holds without any assumption for recipients of other types, see
    `other_type_incorrect`; for another X25519 key it is the key-separation
    idealisation discussed in DESIGN.md). -/
theorem x25519_identity_opens (P : Prims) (hP : P.Correct) (tape : Bytes)
    (rs1 rs2 : List Recipient) (sk pk fk : Bytes) (stanzas : List Stanza) (t : Bytes)
    (hpk : P.x25519 sk P.basepoint = some pk)
    (hh : encryptHeader P tape (rs1 ++ Recipient.x25519 pk :: rs2) = .ok (fk, stanzas, t))
    (hsep : ∀ r ∈ rs1, ∀ tp ss l t', wrapOne P r fk tp = .ok (some (ss, l), t') → ∀ s ∈ ss, unwrapX25519 P sk s = .incorrect) :
    (Identity.x25519 sk).unwrap P stanzas = .key fk := by
  obtain ⟨hfk, t0, _, hw⟩ := encryptHeader_fk hh
  obtain ⟨before, after, ss, l, tR, tR', hst, hwr, hb⟩ := wrapAll_split P fk rs1 _ rs2 0 t0 [] none stanzas t hw
  -- the recipient's own wrap
  unfold wrapOne at hwr
  simp only at hwr
  split at hwr
  · simp at hwr
  · rename_i eph t1 hd
    simp only [Except.ok.injEq, Prod.mk.injEq] at hwr
    obtain ⟨h1, _⟩ := hwr
    cases hws : wrapX25519 P pk eph fk with
    | none => simp [hws] at h1
    | some st =>
      simp only [hws, Option.map_some, Option.some.injEq, Prod.mk.injEq] at h1
      obtain ⟨rfl, _⟩ := h1
      have hown := AgeModel.x25519_wrap_unwrap P hP sk pk eph fk st hpk hfk hws
      unfold Identity.unwrap Identity.unwrapLog
      simp only
      rw [hst]
      simp only [List.nil_append, List.append_assoc, List.singleton_append]
      apply multiUnwrap_skip _ before after st fk _ hown
      intro s hs
      obtain ⟨r', hr', tp, ss', l', t', hw', hs'⟩ := hb s hs
      exact hsep r' hr' tp ss' l' t' hw' s hs'

/-- recipients of the other three native types never produce a stanza an X25519
    identity reacts to — so `hsep` above is free for them -/
theorem hsep_other_types (P : Prims) (sk fk tp : Bytes) (r : Recipient) (ss : List Stanza) (l : List Bytes) (t' : Bytes)
    (hr : (∃ pw n, r = .scrypt pw n) ∨ (∃ w m, r = .sshEd w m) ∨ (∃ w p, r = .sshRsa w p))
    (hw : wrapOne P r fk tp = .ok (some (ss, l), t')) : ∀ s ∈ ss, unwrapX25519 P sk s = .incorrect := by
  intro s hs
  apply x25519_other_type
  rcases hr with ⟨pw, n, rfl⟩ | ⟨w, m, rfl⟩ | ⟨w, p, rfl⟩
  · unfold wrapOne at hw
    simp only at hw
    split at hw
    · simp at hw
    · split at hw
      · simp at hw
      · simp only [Except.ok.injEq, Prod.mk.injEq, Option.some.injEq] at hw
        obtain ⟨⟨rfl, _⟩, _⟩ := hw
        simp only [List.mem_singleton] at hs; subst hs
        simp only [wrapScrypt]; decide
  · unfold wrapOne at hw
    simp only at hw
    split at hw
    · simp at hw
    · rename_i eph t1 hd
      simp only [Except.ok.injEq, Prod.mk.injEq] at hw
      obtain ⟨h1, _⟩ := hw
      cases hws : wrapSshEd P w m eph fk with
      | none => simp [hws] at h1
      | some st =>
        simp only [hws, Option.map_some, Option.some.injEq, Prod.mk.injEq] at h1
        obtain ⟨rfl, _⟩ := h1
        simp only [List.mem_singleton] at hs; subst hs
        unfold wrapSshEd at hws
        cases ho : P.x25519 eph P.basepoint with
        | none => simp [ho] at hws
        | some ourPub =>
        cases hsh : P.x25519 eph m with
        | none => simp [ho, hsh] at hws
        | some shared =>
          simp only [ho, hsh, Option.bind_eq_bind, Option.bind_some, Option.pure_def, Option.some.injEq] at hws
          subst hws; simp only; decide
  · unfold wrapOne at hw
    simp only at hw
    split at hw
    · simp at hw
    · rename_i seed t1 hd
      simp only [Except.ok.injEq, Prod.mk.injEq] at hw
      obtain ⟨h1, _⟩ := hw
      cases hws : wrapSshRsa P w p seed fk with
      | none => simp [hws] at h1
      | some st =>
        simp only [hws, Option.map_some, Option.some.injEq, Prod.mk.injEq] at h1
        obtain ⟨rfl, _⟩ := h1
        simp only [List.mem_singleton] at hs; subst hs
        unfold wrapSshRsa at hws
        cases hc : P.oaepEnc p seed fk oaepLabel with
        | none => simp [hc] at hws
        | some c =>
          simp only [hc, Option.bind_eq_bind, Option.bind_some, Option.pure_def, Option.some.injEq] at hws
          subst hws; simp only; decide

/-- non-vacuity: the hypotheses on the primitives are satisfiable (together) -/
example : Prims.toy.Correct ∧ Prims.toy.aead.NonceSep := ⟨Prims.toy_correct, AEAD.toy_nonceSep⟩

/-- **End-to-end non-vacuity.** With the (lawful) toy primitives: a 100-byte tape, one
    X25519 recipient, a 5-byte plaintext in chunks of 4: Encrypt produces a file, and the
    recipient's identity decrypts it to the plaintext with a clean end — so the hypotheses
    of `decrypt_encrypt` (and with them those of C03 `mac_gate`, C04 `reader_requires_key`,
    C05 `file_layout`) are met by a concrete run. -/
theorem nonvacuous_roundtrip :
    ∃ file k payload, encryptFile Prims.toy 4 (List.replicate 100 7) [Recipient.x25519 (List.replicate 32 0)] [1, 2, 3, 4, 5] = .ok file ∧
      decryptFile Prims.toy 4 [Identity.x25519 (List.replicate 32 2)] file = .ok ([1, 2, 3, 4, 5], .eof) ∧
      decryptInit Prims.toy [Identity.x25519 (List.replicate 32 2)] file = (.ok (k, payload), 1) := by
  have hok : (encryptFile Prims.toy 4 (List.replicate 100 7) [Recipient.x25519 (List.replicate 32 0)] [1, 2, 3, 4, 5]).isOk = true := by decide
  cases henc : encryptFile Prims.toy 4 (List.replicate 100 7) [Recipient.x25519 (List.replicate 32 0)] [1, 2, 3, 4, 5] with
  | error e => rw [henc] at hok; simp [Except.isOk, Except.toBool] at hok
  | ok file =>
    obtain ⟨fk, stanzas, t, hh, hdec⟩ := decrypt_encrypt Prims.toy Prims.toy_correct AEAD.toy_nonceSep 4 (by decide)
      (List.replicate 100 7) [Recipient.x25519 (List.replicate 32 0)] [1, 2, 3, 4, 5] file
      (by intro r hr; simp only [List.mem_singleton] at hr; subst hr; exact producesWF_x25519 _ Prims.toy_correct _) henc
    have hid := x25519_identity_opens Prims.toy Prims.toy_correct (List.replicate 100 7) [] [] (List.replicate 32 2)
      (List.replicate 32 0) fk stanzas t rfl hh (by intro r hr; simp at hr)
    obtain ⟨h1, h2⟩ := hdec [] [] _ (by intro i hi; simp at hi) hid
    simp only [List.nil_append, List.length_nil, Nat.zero_add] at h1 h2
    unfold decryptFile at h1
    cases hdi : decryptInit Prims.toy [Identity.x25519 (List.replicate 32 2)] file with
    | mk r c =>
      rw [hdi] at h1 h2
      simp only at h2
      subst h2
      cases r with
      | error e => simp at h1
      | ok v => exact ⟨file, v.1, v.2, rfl, by unfold decryptFile; rw [hdi]; exact h1, by rw [hdi]⟩

end Props.C01
end AgeModel

namespace AgeModel
namespace Props.C01
open Format Stream

/-- **Armor is transparent.** Armoring the file and de-armoring it (any whitespace
    budget W > 0) gives the file back with a clean end, so every statement above
    holds equally when the file travels through the ASCII armor:
    `decrypt (dearmor (armor (encrypt …)))` is `decrypt (encrypt …)`. -/
theorem armor_transparent (P : Prims) (C W : Nat) (hW : 0 < W) (ids : List Identity) (file : Bytes) :
    (Armor.read W false (Armor.armor file)).2 = .eof ∧
    decryptFile P C ids (Armor.read W false (Armor.armor file)).1 = decryptFile P C ids file := by
  rw [Armor.read_armor W hW file]
  exact ⟨rfl, rfl⟩

/-! ## Non-vacuity: for every theorem above, concrete values meeting all of its hypotheses at once -/

/-- witness values shared by the non-vacuity statements below -/
def wFk : Bytes := [1, 2, 3, 4, 5, 6, 7, 8, 9, 10, 11, 12, 13, 14, 15, 16]
def wPt : Bytes := [1, 2, 3, 4, 5, 6, 7, 8, 9]

/-- non-vacuity of `stream_roundtrip`: the toy AEAD, chunks of 4, a 9-byte plaintext (three chunks) -/
theorem stream_roundtrip_nonvacuous :
    AEAD.toy.Correct ∧ AEAD.toy.NonceSep ∧ 0 < 4 ∧
    encrypt AEAD.toy 4 [7] wPt ≠ [] ∧ decrypt AEAD.toy 4 [7] (encrypt AEAD.toy 4 [7] wPt) = (wPt, .eof) :=
  ⟨AEAD.toy_correct, AEAD.toy_nonceSep, by decide, by decide,
    stream_roundtrip AEAD.toy AEAD.toy_correct AEAD.toy_nonceSep 4 (by decide) [7] wPt⟩

/-- non-vacuity of `x25519_wrap_unwrap`: toy primitives, a 16-byte file key, the stanza the wrap returns -/
theorem x25519_wrap_unwrap_nonvacuous :
    ∃ st, Prims.toy.Correct ∧
      Prims.toy.x25519 (List.replicate 32 2) Prims.toy.basepoint = some (List.replicate 32 0) ∧
      wFk.length = 16 ∧
      wrapX25519 Prims.toy (List.replicate 32 0) (List.replicate 32 5) wFk = some st ∧
      st.body.length = 28 :=
  ⟨_, Prims.toy_correct, rfl, rfl, rfl, by decide⟩

example : ∃ st, unwrapX25519 Prims.toy (List.replicate 32 2) st = .key wFk :=
  let ⟨st, hP, hpk, hfk, hw, _⟩ := x25519_wrap_unwrap_nonvacuous
  ⟨st, x25519_wrap_unwrap Prims.toy hP _ _ _ _ st hpk hfk hw⟩

/-- non-vacuity of `scrypt_wrap_unwrap`: toy primitives, work factor 18 against a maximum of 22, 16-byte salt and file key -/
theorem scrypt_wrap_unwrap_nonvacuous :
    Prims.toy.Correct ∧ 1 ≤ 18 ∧ 18 ≤ 30 ∧ 18 ≤ 22 ∧ (List.replicate 16 (3 : UInt8)).length = 16 ∧ wFk.length = 16 :=
  ⟨Prims.toy_correct, by decide, by decide, by decide, rfl, rfl⟩

example : (unwrapScrypt Prims.toy [112, 119] 22 (wrapScrypt Prims.toy [112, 119] 18 (List.replicate 16 3) wFk)).1 = .key wFk :=
  let ⟨hP, h1, h30, hmax, hsalt, hfk⟩ := scrypt_wrap_unwrap_nonvacuous
  scrypt_wrap_unwrap Prims.toy hP _ _ _ 18 22 h1 h30 hmax hsalt hfk

/-- non-vacuity of `sshed_wrap_unwrap`: toy primitives; the wrap returns a stanza -/
theorem sshed_wrap_unwrap_nonvacuous :
    ∃ st, Prims.toy.Correct ∧
      Prims.toy.x25519 (List.replicate 32 2) Prims.toy.basepoint = some (List.replicate 32 0) ∧
      wrapSshEd Prims.toy [1, 2, 3] (List.replicate 32 0) (List.replicate 32 5) wFk = some st :=
  ⟨_, Prims.toy_correct, rfl, rfl⟩

/-- non-vacuity of `sshrsa_wrap_unwrap`: toy primitives (every pair is a key pair); the wrap returns a stanza -/
theorem sshrsa_wrap_unwrap_nonvacuous :
    ∃ st, Prims.toy.Correct ∧ Prims.toy.rsaPair [4, 5] [6, 7] ∧
      wrapSshRsa Prims.toy [1, 2, 3] [4, 5] (List.replicate 32 6) wFk = some st :=
  ⟨_, Prims.toy_correct, trivial, rfl⟩

/-- non-vacuity of the four implications in `other_type_incorrect`: a grease stanza (type "g") is of none of the native types -/
theorem other_type_incorrect_nonvacuous :
    let s : Stanza := { type := [103], args := [[120]], body := [1, 2, 3] }
    s.type ≠ tX25519 ∧ s.type ≠ tScrypt ∧ s.type ≠ tSshEd ∧ s.type ≠ tSshRsa := by decide

/-- a 120-byte random tape 0, 1, 2, … -/
def wTape : Bytes := (List.range 120).map Nat.toUInt8
/-- an ssh-rsa recipient followed by an X25519 recipient -/
def wRs : List Recipient := [Recipient.sshRsa [1, 2, 3] [4, 5], Recipient.x25519 (List.replicate 32 0)]

/-- (helper for the witnesses below) both recipients produce well-formed stanzas -/
theorem wRs_producesWF : ∀ r ∈ wRs, r.ProducesWF Prims.toy := by
  intro r hr
  simp only [wRs, List.mem_cons, List.mem_nil_iff, or_false] at hr
  rcases hr with rfl | rfl
  · exact producesWF_sshRsa _ Prims.toy_correct _ _
  · exact producesWF_x25519 _ Prims.toy_correct _

set_option maxRecDepth 8192 in
/-- non-vacuity of `decrypt_encrypt`: toy primitives, chunks of 4, a 9-byte plaintext, two recipients (ssh-rsa, then
    X25519) giving a two-stanza header; identity list: a passphrase and an ssh-ed25519 identity that answer
    "incorrect", then the X25519 identity that opens the file key (second stanza), then one more -/
theorem decrypt_encrypt_nonvacuous :
    ∃ file fk stanzas t,
      Prims.toy.Correct ∧ Prims.toy.aead.NonceSep ∧ 0 < 4 ∧ (∀ r ∈ wRs, r.ProducesWF Prims.toy) ∧
      encryptFile Prims.toy 4 wTape wRs wPt = .ok file ∧
      encryptHeader Prims.toy wTape wRs = .ok (fk, stanzas, t) ∧ stanzas.length = 2 ∧
      (∀ i ∈ [Identity.scrypt [112] 22, Identity.sshEd [1] [2]], i.unwrap Prims.toy stanzas = .incorrect) ∧
      (Identity.x25519 (List.replicate 32 2)).unwrap Prims.toy stanzas = .key fk := by
  refine ⟨_, _, _, _, Prims.toy_correct, AEAD.toy_nonceSep, by decide, wRs_producesWF, rfl, rfl, ?_, ?_, ?_⟩
  · decide
  · decide
  · decide

/-- … and `decrypt_encrypt` then gives the plaintext back, having consulted three identities -/
example : ∃ file,
    decryptFile Prims.toy 4 ([Identity.scrypt [112] 22, Identity.sshEd [1] [2]] ++
      Identity.x25519 (List.replicate 32 2) :: [Identity.custom fun _ => .fatal]) file = .ok (wPt, .eof) ∧
    (decryptInit Prims.toy ([Identity.scrypt [112] 22, Identity.sshEd [1] [2]] ++
      Identity.x25519 (List.replicate 32 2) :: [Identity.custom fun _ => .fatal]) file).2 = 3 := by
  obtain ⟨file, fk, stanzas, t, hP, hN, hC, hrs, henc, hh, _, hpre, hid⟩ := decrypt_encrypt_nonvacuous
  obtain ⟨fk', stanzas', t', hh', h⟩ := decrypt_encrypt Prims.toy hP hN 4 hC wTape wRs wPt file hrs henc
  rw [hh] at hh'
  simp only [Except.ok.injEq, Prod.mk.injEq] at hh'
  obtain ⟨rfl, rfl, rfl⟩ := hh'
  exact ⟨file, h _ _ _ hpre hid⟩

/-- non-vacuity of `hsep_other_types`: an ssh-rsa recipient, toy primitives, a 40-byte tape: `wrapOne` returns one stanza -/
theorem hsep_other_types_nonvacuous :
    ∃ ss l t',
      ((∃ pw n, Recipient.sshRsa [1, 2, 3] [4, 5] = .scrypt pw n) ∨ (∃ w m, Recipient.sshRsa [1, 2, 3] [4, 5] = .sshEd w m) ∨
        (∃ w p, Recipient.sshRsa [1, 2, 3] [4, 5] = .sshRsa w p)) ∧
      wrapOne Prims.toy (Recipient.sshRsa [1, 2, 3] [4, 5]) wFk (List.replicate 40 6) = .ok (some (ss, l), t') ∧
      ss.length = 1 :=
  ⟨_, _, _, Or.inr (Or.inr ⟨_, _, rfl⟩), rfl, rfl⟩

set_option maxRecDepth 8192 in
/-- non-vacuity of `x25519_identity_opens`: toy primitives; the X25519 recipient stands between an ssh-rsa recipient
    (`rs1`, so `hsep` has something to say) and an ssh-ed25519 recipient (`rs2`); Encrypt's header has three stanzas -/
theorem x25519_identity_opens_nonvacuous :
    ∃ fk stanzas t,
      Prims.toy.Correct ∧
      Prims.toy.x25519 (List.replicate 32 2) Prims.toy.basepoint = some (List.replicate 32 0) ∧
      encryptHeader Prims.toy wTape ([Recipient.sshRsa [1, 2, 3] [4, 5]] ++ Recipient.x25519 (List.replicate 32 0) ::
        [Recipient.sshEd [9] (List.replicate 32 0)]) = .ok (fk, stanzas, t) ∧ stanzas.length = 3 ∧
      (∀ r ∈ [Recipient.sshRsa [1, 2, 3] [4, 5]], ∀ tp ss l t', wrapOne Prims.toy r fk tp = .ok (some (ss, l), t') →
        ∀ s ∈ ss, unwrapX25519 Prims.toy (List.replicate 32 2) s = .incorrect) := by
  refine ⟨_, _, _, Prims.toy_correct, rfl, rfl, by decide, ?_⟩
  intro r hr tp ss l t' hw
  simp only [List.mem_singleton] at hr
  subst hr
  exact hsep_other_types Prims.toy _ _ tp _ ss l t' (Or.inr (Or.inr ⟨_, _, rfl⟩)) hw

/-- … and `x25519_identity_opens` then says the identity opens that header -/
example : ∃ fk stanzas, stanzas.length = 3 ∧
    (Identity.x25519 (List.replicate 32 2)).unwrap Prims.toy stanzas = .key fk :=
  let ⟨fk, stanzas, t, hP, hpk, hh, hl, hsep⟩ := x25519_identity_opens_nonvacuous
  ⟨fk, stanzas, hl, x25519_identity_opens Prims.toy hP wTape _ _ _ _ fk stanzas t hpk hh hsep⟩

/-- non-vacuity of `armor_transparent`: a whitespace budget of 1024 -/
theorem armor_transparent_nonvacuous : 0 < 1024 := by decide

end Props.C01
end AgeModel
