/-
  C01 — every listed recipient decrypts to the exact plaintext.
  Property theorems only (helpers: Proofs/StreamSpec, Recipients, File, FileEncrypt).
-/
import Proofs.FileEncrypt
import Proofs.ToyPrims
import Proofs.ArmorRead
namespace AgeModel
namespace Props.C01
open Format Stream

/-- STREAM: decrypting the encryption of any plaintext gives it back followed by a
    clean end of stream (any chunk size C > 0; in particular lengths 0, 1 and every
    length around multiples of C). `NonceSep` is forced: see DESIGN.md §4. -/
theorem stream_roundtrip (A : AEAD) (hA : A.Correct) (hN : A.NonceSep) (C : Nat) (hC : 0 < C) (k p : Bytes) :
    decrypt A C k (encrypt A C k p) = (p, .eof) :=
  Stream.stream_roundtrip A hA hN C hC k p

/-- X25519: the identity unwraps what its recipient wrapped, for every ephemeral secret. -/
theorem x25519_wrap_unwrap (P : Prims) (hP : P.Correct) (sk pk eph fk : Bytes) (st : Stanza)
    (hpk : P.x25519 sk P.basepoint = some pk) (hfk : fk.length = 16)
    (hw : wrapX25519 P pk eph fk = some st) : unwrapX25519 P sk st = .key fk :=
  AgeModel.x25519_wrap_unwrap P hP sk pk eph fk st hpk hfk hw

/-- passphrase: same, whenever the identity's maximum work factor admits the
    recipient's (`logN ≤ maxWF`; defaults 18 ≤ 22). -/
theorem scrypt_wrap_unwrap (P : Prims) (hP : P.Correct) (pw salt fk : Bytes) (logN maxWF : Nat)
    (h1 : 1 ≤ logN) (h30 : logN ≤ 30) (hmax : logN ≤ maxWF) (hsalt : salt.length = 16) (hfk : fk.length = 16) :
    (unwrapScrypt P pw maxWF (wrapScrypt P pw logN salt fk)).1 = .key fk := by
  rw [AgeModel.scrypt_wrap_unwrap P hP pw salt fk logN maxWF h1 h30 hmax hsalt hfk]

example : (1 : Nat) ≤ 18 ∧ 18 ≤ 30 ∧ 18 ≤ 22 := by decide

theorem sshed_wrap_unwrap (P : Prims) (hP : P.Correct) (wire sk pk eph fk : Bytes) (st : Stanza)
    (hpk : P.x25519 sk P.basepoint = some pk) (hw : wrapSshEd P wire pk eph fk = some st) :
    unwrapSshEd P wire sk st = .key fk :=
  AgeModel.sshEd_wrap_unwrap P hP wire sk pk eph fk st hpk hw

theorem sshrsa_wrap_unwrap (P : Prims) (hP : P.Correct) (wire pub priv seed fk : Bytes) (st : Stanza)
    (hpair : P.rsaPair pub priv) (hw : wrapSshRsa P wire pub seed fk = some st) :
    unwrapSshRsa P wire priv st = .key fk :=
  AgeModel.sshRsa_wrap_unwrap P hP wire pub priv seed fk st hpair hw

/-- stanzas of another type are answered "incorrect" without any cryptography -/
theorem other_type_incorrect (P : Prims) (s : Stanza) :
    (∀ sk, s.type ≠ tX25519 → unwrapX25519 P sk s = .incorrect) ∧
    (∀ pw m, s.type ≠ tScrypt → (unwrapScrypt P pw m s).1 = .incorrect) ∧
    (∀ w sk, s.type ≠ tSshEd → unwrapSshEd P w sk s = .incorrect) ∧
    (∀ w k, s.type ≠ tSshRsa → unwrapSshRsa P w k s = .incorrect) :=
  ⟨fun sk h => x25519_other_type P sk s h, fun pw m h => by rw [scrypt_other_type P pw m s h],
   fun w sk h => sshEd_other_type P w sk s h, fun w k h => sshRsa_other_type P w k s h⟩

/-- **Main theorem.** For every random tape, every recipient list `rs` that Encrypt
    accepts (any types, counts, orders, duplicates, custom recipients contributing
    arbitrary well-formed stanzas), every plaintext, and every identity list
    `pre ++ id :: post` in which `id` opens the file key from the header and every
    identity in `pre` answers "incorrect identity": decryption yields exactly the
    plaintext followed by a clean end of stream, having consulted `pre.length + 1`
    identities (none of `post`). -/
theorem decrypt_encrypt (P : Prims) (hP : P.Correct) (hN : P.aead.NonceSep) (C : Nat) (hC : 0 < C)
    (tape : Bytes) (rs : List Recipient) (pt file : Bytes)
    (hrs : ∀ r ∈ rs, r.ProducesWF P)
    (henc : encryptFile P C tape rs pt = .ok file) :
    ∃ fk stanzas t, encryptHeader P tape rs = .ok (fk, stanzas, t) ∧
      ∀ (pre post : List Identity) (id : Identity),
        (∀ i ∈ pre, i.unwrap P stanzas = .incorrect) → id.unwrap P stanzas = .key fk →
        decryptFile P C (pre ++ id :: post) file = .ok (pt, .eof) ∧
        (decryptInit P (pre ++ id :: post) file).2 = pre.length + 1 := by
  unfold encryptFile at henc
  cases hh : encryptHeader P tape rs with
  | error e => simp [hh] at henc
  | ok v =>
    obtain ⟨fk, stanzas, t⟩ := v
    simp only [hh] at henc
    cases hd : draw streamNonceSize t with
    | none => simp [hd] at henc
    | some w =>
      obtain ⟨nonce, t2⟩ := w
      simp only [hd, Except.ok.injEq] at henc
      subst henc
      refine ⟨fk, stanzas, t, rfl, ?_⟩
      intro pre post id hpre hid
      obtain ⟨hfk, t0, hd0, hw⟩ := encryptHeader_fk hh
      have hwf : ∀ s ∈ stanzas, s.WF := wrapAll_wf P fk hfk rs 0 t0 [] none stanzas t hrs (by simp) hw
      have hfk' : fk ≠ [] := by intro e; rw [e] at hfk; simp [fileKeySize] at hfk
      have hn := (draw_spec hd).1
      exact ⟨decryptFile_specFile P hP hN C hC fk nonce pt stanzas hwf hfk' hn pre post id hpre hid,
        by rw [decryptInit_specFile P hP C fk nonce pt stanzas hwf hfk' hn pre post id hpre hid]⟩

/-- The hypothesis "`id` opens the file key" discharged for a native X25519
    recipient at ANY position of the list: its identity opens the file provided it
    answers "incorrect" to the stanzas of the recipients listed before it (which
    holds without any assumption for recipients of other types, see
    `other_type_incorrect`; for another X25519 key it is the key-separation
    idealisation discussed in DESIGN.md). -/
theorem x25519_identity_opens (P : Prims) (hP : P.Correct) (tape : Bytes)
    (rs1 rs2 : List Recipient) (sk pk fk : Bytes) (stanzas : List Stanza) (t : Bytes)
    (hpk : P.x25519 sk P.basepoint = some pk)
    (hh : encryptHeader P tape (rs1 ++ Recipient.x25519 pk :: rs2) = .ok (fk, stanzas, t))
    (hsep : ∀ r ∈ rs1, ∀ tp ss l t', wrapOne P r fk tp = .ok (some (ss, l), t') → ∀ s ∈ ss, unwrapX25519 P sk s = .incorrect) :
    (Identity.x25519 sk).unwrap P stanzas = .key fk := by
  obtain ⟨hfk, t0, _, hw⟩ := encryptHeader_fk hh
  obtain ⟨before, after, ss, l, tR, tR', hst, hwr, hb⟩ := wrapAll_split P fk rs1 _ rs2 0 t0 [] none stanzas t hw
  -- the recipient's own wrap
  unfold wrapOne at hwr
  simp only at hwr
  split at hwr
  · simp at hwr
  · rename_i eph t1 hd
    simp only [Except.ok.injEq, Prod.mk.injEq] at hwr
    obtain ⟨h1, _⟩ := hwr
    cases hws : wrapX25519 P pk eph fk with
    | none => simp [hws] at h1
    | some st =>
      simp only [hws, Option.map_some, Option.some.injEq, Prod.mk.injEq] at h1
      obtain ⟨rfl, _⟩ := h1
      have hown := AgeModel.x25519_wrap_unwrap P hP sk pk eph fk st hpk hfk hws
      unfold Identity.unwrap Identity.unwrapLog
      simp only
      rw [hst]
      simp only [List.nil_append, List.append_assoc, List.singleton_append]
      apply multiUnwrap_skip _ before after st fk _ hown
      intro s hs
      obtain ⟨r', hr', tp, ss', l', t', hw', hs'⟩ := hb s hs
      exact hsep r' hr' tp ss' l' t' hw' s hs'

/-- recipients of the other three native types never produce a stanza an X25519
    identity reacts to — so `hsep` above is free for them -/
theorem hsep_other_types (P : Prims) (sk fk tp : Bytes) (r : Recipient) (ss : List Stanza) (l : List Bytes) (t' : Bytes)
    (hr : (∃ pw n, r = .scrypt pw n) ∨ (∃ w m, r = .sshEd w m) ∨ (∃ w p, r = .sshRsa w p))
    (hw : wrapOne P r fk tp = .ok (some (ss, l), t')) : ∀ s ∈ ss, unwrapX25519 P sk s = .incorrect := by
  intro s hs
  apply x25519_other_type
  rcases hr with ⟨pw, n, rfl⟩ | ⟨w, m, rfl⟩ | ⟨w, p, rfl⟩
  · unfold wrapOne at hw
    simp only at hw
    split at hw
    · simp at hw
    · split at hw
      · simp at hw
      · simp only [Except.ok.injEq, Prod.mk.injEq, Option.some.injEq] at hw
        obtain ⟨⟨rfl, _⟩, _⟩ := hw
        simp only [List.mem_singleton] at hs; subst hs
        simp only [wrapScrypt]; decide
  · unfold wrapOne at hw
    simp only at hw
    split at hw
    · simp at hw
    · rename_i eph t1 hd
      simp only [Except.ok.injEq, Prod.mk.injEq] at hw
      obtain ⟨h1, _⟩ := hw
      cases hws : wrapSshEd P w m eph fk with
      | none => simp [hws] at h1
      | some st =>
        simp only [hws, Option.map_some, Option.some.injEq, Prod.mk.injEq] at h1
        obtain ⟨rfl, _⟩ := h1
        simp only [List.mem_singleton] at hs; subst hs
        unfold wrapSshEd at hws
        cases ho : P.x25519 eph P.basepoint with
        | none => simp [ho] at hws
        | some ourPub =>
        cases hsh : P.x25519 eph m with
        | none => simp [ho, hsh] at hws
        | some shared =>
          simp only [ho, hsh, Option.bind_eq_bind, Option.bind_some, Option.pure_def, Option.some.injEq] at hws
          subst hws; simp only; decide
  · unfold wrapOne at hw
    simp only at hw
    split at hw
    · simp at hw
    · rename_i seed t1 hd
      simp only [Except.ok.injEq, Prod.mk.injEq] at hw
      obtain ⟨h1, _⟩ := hw
      cases hws : wrapSshRsa P w p seed fk with
      | none => simp [hws] at h1
      | some st =>
        simp only [hws, Option.map_some, Option.some.injEq, Prod.mk.injEq] at h1
        obtain ⟨rfl, _⟩ := h1
        simp only [List.mem_singleton] at hs; subst hs
        unfold wrapSshRsa at hws
        cases hc : P.oaepEnc p seed fk oaepLabel with
        | none => simp [hc] at hws
        | some c =>
          simp only [hc, Option.bind_eq_bind, Option.bind_some, Option.pure_def, Option.some.injEq] at hws
          subst hws; simp only; decide

/-- non-vacuity: the hypotheses on the primitives are satisfiable (together) -/
example : Prims.toy.Correct ∧ Prims.toy.aead.NonceSep := ⟨Prims.toy_correct, AEAD.toy_nonceSep⟩

/-- **End-to-end non-vacuity.** With the (lawful) toy primitives: a 100-byte tape, one
    X25519 recipient, a 5-byte plaintext in chunks of 4: Encrypt produces a file, and the
    recipient's identity decrypts it to the plaintext with a clean end — so the hypotheses
    of `decrypt_encrypt` (and with them those of C03 `mac_gate`, C04 `reader_requires_key`,
    C05 `file_layout`) are met by a concrete run. -/
theorem nonvacuous_roundtrip :
    ∃ file k payload, encryptFile Prims.toy 4 (List.replicate 100 7) [Recipient.x25519 (List.replicate 32 0)] [1, 2, 3, 4, 5] = .ok file ∧
      decryptFile Prims.toy 4 [Identity.x25519 (List.replicate 32 2)] file = .ok ([1, 2, 3, 4, 5], .eof) ∧
      decryptInit Prims.toy [Identity.x25519 (List.replicate 32 2)] file = (.ok (k, payload), 1) := by
  have hok : (encryptFile Prims.toy 4 (List.replicate 100 7) [Recipient.x25519 (List.replicate 32 0)] [1, 2, 3, 4, 5]).isOk = true := by decide
  cases henc : encryptFile Prims.toy 4 (List.replicate 100 7) [Recipient.x25519 (List.replicate 32 0)] [1, 2, 3, 4, 5] with
  | error e => rw [henc] at hok; simp [Except.isOk, Except.toBool] at hok
  | ok file =>
    obtain ⟨fk, stanzas, t, hh, hdec⟩ := decrypt_encrypt Prims.toy Prims.toy_correct AEAD.toy_nonceSep 4 (by decide)
      (List.replicate 100 7) [Recipient.x25519 (List.replicate 32 0)] [1, 2, 3, 4, 5] file
      (by intro r hr; simp only [List.mem_singleton] at hr; subst hr; exact producesWF_x25519 _ Prims.toy_correct _) henc
    have hid := x25519_identity_opens Prims.toy Prims.toy_correct (List.replicate 100 7) [] [] (List.replicate 32 2)
      (List.replicate 32 0) fk stanzas t rfl hh (by intro r hr; simp at hr)
    obtain ⟨h1, h2⟩ := hdec [] [] _ (by intro i hi; simp at hi) hid
    simp only [List.nil_append, List.length_nil, Nat.zero_add] at h1 h2
    unfold decryptFile at h1
    cases hdi : decryptInit Prims.toy [Identity.x25519 (List.replicate 32 2)] file with
    | mk r c =>
      rw [hdi] at h1 h2
      simp only at h2
      subst h2
      cases r with
      | error e => simp at h1
      | ok v => exact ⟨file, v.1, v.2, rfl, by unfold decryptFile; rw [hdi]; exact h1, by rw [hdi]⟩

end Props.C01
end AgeModel

namespace AgeModel
namespace Props.C01
open Format Stream

/-- **Armor is transparent.** Armoring the file and de-armoring it (any whitespace
    budget W > 0) gives the file back with a clean end, so every statement above
    holds equally when the file travels through the ASCII armor:
    `decrypt (dearmor (armor (encrypt …)))` is `decrypt (encrypt …)`. -/
theorem armor_transparent (P : Prims) (C W : Nat) (hW : 0 < W) (ids : List Identity) (file : Bytes) :
    (Armor.read W false (Armor.armor file)).2 = .eof ∧
    decryptFile P C ids (Armor.read W false (Armor.armor file)).1 = decryptFile P C ids file := by
  rw [Armor.read_armor W hW file]
  exact ⟨rfl, rfl⟩

end Props.C01
end AgeModel
