/-
  C13 — I/O failures surface; nothing is lost silently.
-/
import Proofs.FileWrite
import Proofs.StreamFault
import Proofs.ArmorCompose
namespace AgeModel
namespace Props.C13
open Format Stream

/-- **No silent loss (binary files).** For EVERY destination behaviour (failing
    at any write call or byte offset, once or permanently, accepting a prefix or
    nothing), every tape, recipients, split of the header into write calls and
    write segmentation: if Encrypt, every Write and Close report success, then
    the bytes the destination accepted are exactly what it held before followed
    by the complete file `specFile …` for the concatenated plaintext.
    Contrapositive: any failing write makes some call return an error. -/
theorem no_silent_loss {S : DstSpec} (P : Prims) (C L : Nat) (hC : 0 < C)
    (tape : Bytes) (rs : List Recipient) (hdrSegs : List Nat) (d d2 : Dst S) (segs : List Bytes)
    (w : Stream.Writer S) (k t' : Bytes)
    (hinit : encryptInit P tape rs hdrSegs d = (.ok (w, k, t'), d2))
    (hall : ∀ r ∈ (w.run P.aead C L k (Props.C12.opsOf segs)).2, r.2 = none) :
    ∃ fk stanzas nonce,
      (w.run P.aead C L k (Props.C12.opsOf segs)).1.dst.acc = d.acc ++ specFile P C fk stanzas nonce segs.flatten := by
  obtain ⟨fk, stanzas, t, nonce, _, _, hacc, hk, hw⟩ := encryptInit_ok P tape rs hdrSegs d d2 w k t' hinit
  subst hw hk
  have := Props.C12.writer_refines_spec P.aead C L hC (streamKey P fk nonce) d2 segs hall
  exact ⟨fk, stanzas, nonce, by rw [this.1, hacc]; simp [specFile]⟩

/-- **No silent loss (armored files).** `Encrypt` into an armor writer over ANY
    destination (failing at any call or offset, accepting any prefix), the armor
    writer's output split into destination writes in any way (`segF`), any tape,
    recipients, header split and write segmentation: if Encrypt, every Write, the
    payload writer's Close AND the armor writer's Close all report success, then
    the destination holds exactly what it held before followed by the complete
    armor of the complete file for the concatenated plaintext. -/
theorem no_silent_loss_armored {S' : DstSpec} (segF : Armor.AWriter S' → Bytes → List Nat)
    (P : Prims) (C L : Nat) (hC : 0 < C)
    (tape : Bytes) (rs : List Recipient) (hdrSegs : List Nat) (d' : Dst S') (segs : List Bytes)
    (d2 : Dst (armorDst S' segF)) (w : Stream.Writer (armorDst S' segF)) (k t' : Bytes)
    (hinit : encryptInit P tape rs hdrSegs (armorDst.fresh (segF := segF) d') = (.ok (w, k, t'), d2))
    (hall : ∀ r ∈ (w.run P.aead C L k (Props.C12.opsOf segs)).2, r.2 = none)
    (a' : Armor.AWriter S')
    (hclose : (w.run P.aead C L k (Props.C12.opsOf segs)).1.dst.st.close = (a', none)) :
    ∃ fk stanzas nonce, a'.dst.acc = d'.acc ++ Armor.armor (specFile P C fk stanzas nonce segs.flatten) := by
  obtain ⟨fk, stanzas, nonce, hacc⟩ := no_silent_loss P C L hC tape rs hdrSegs _ d2 segs w k t' hinit hall
  have hw : w = Stream.Writer.new d2 := by
    obtain ⟨_, _, _, _, _, _, _, _, hw⟩ := encryptInit_ok P tape rs hdrSegs _ d2 w k t' hinit
    exact hw
  have hr1 := encryptInit_reach P tape rs hdrSegs _ d2 w k t' hinit
  have hr2 := run_reach P.aead C L k (Props.C12.opsOf segs) w hall
  have hwd : w.dst = d2 := by rw [hw]; rfl
  rw [hwd] at hr2
  have hI := Reach.transfer (I := ArmorDstInv d'.acc)
    (fun d b d1 h1 h2 => armorDstInv_write d'.acc d d1 b h1 h2) (hr1.trans hr2) (armorDstInv_fresh d')
  unfold ArmorDstInv at hI
  rw [hacc] at hI
  have := Armor.aclose_ok d'.acc _ a' _ hI hclose
  exact ⟨fk, stanzas, nonce, by rw [this]; simp [armorDst.fresh]⟩

/-- non-vacuity: an armor writer over a perfect destination accepts a write as a
    destination, and over a destination that fails at offset 10 it reports the failure -/
example : ((armorDst.fresh (S' := DstSpec.perfect) (segF := fun _ _ => []) { acc := [], st := () }).write [1, 2, 3]).2 = true := by decide
example : ((armorDst.fresh (S' := DstSpec.atOffset 10 true false) (segF := fun _ _ => []) { acc := [], st := false }).write [1, 2, 3]).2 = false := by decide

/-- a failed Encrypt returns no writer: the caller cannot go on writing -/
theorem encrypt_failure_no_writer {S : DstSpec} (P : Prims) (tape : Bytes) (rs : List Recipient) (segs : List Nat) (d : Dst S) :
    (∃ e d', encryptInit P tape rs segs d = (.error e, d')) ∨
    (∃ w k t' d', encryptInit P tape rs segs d = (.ok (w, k, t'), d')) := by
  cases h : encryptInit P tape rs segs d with
  | mk r d' =>
    cases r with
    | error e => exact Or.inl ⟨e, d', rfl⟩
    | ok v => exact Or.inr ⟨v.1, v.2.1, v.2.2, d', rfl⟩

/-- a writer that has reported an error (or was closed) keeps failing and writes nothing more -/
theorem writer_sticky {S : DstSpec} (A : AEAD) (C L : Nat) (k : Bytes) (w : Stream.Writer S) (e : Outcome)
    (he : w.err = some e) (ops : List WOp) :
    w.run A C L k ops = (w, ops.map fun _ => (0, some e)) :=
  run_sticky A C L k w e he ops

/-- every error a Write/Close can report is the destination's failure (or the
    counter limit after ≥ (L-1)·C bytes); in both cases the error is recorded -/
theorem write_error_recorded {S : DstSpec} (A : AEAD) (C L : Nat) (hC : 0 < C) (k acc0 : Bytes) (w w' : Stream.Writer S)
    (pt p : Bytes) (n : Nat) (e : Outcome) (hinv : WInv A C k acc0 w pt) (h : w.write A C L k p = (w', n, some e)) :
    w'.err = some e ∧ n = 0 :=
  let r := write_err A C L hC k acc0 w w' pt p n e hinv h
  ⟨r.1, r.2.1⟩

/-- **Source faults.** If the source fails (non-EOF error) after delivering any
    prefix `c.take L` of a ciphertext `c` — inside the first chunk, on a chunk
    boundary, in the last chunk, at the EOF probe — then reading to the end reports
    an error other than clean EOF, and the plaintext released is a prefix of what
    the complete `c` yields; and by `reader_sticky` the stream keeps failing. -/
theorem src_fault_surfaces (A : AEAD) (C Lim : Nat) (hE : 0 < C + A.T) (k c : Bytes) (L : Nat)
    (hL : c.length < Lim) (sizes : List Nat) (hpos : ∀ s ∈ sizes, 0 < s)
    (hlong : (dec A C k true 0 (c.take L)).1.length + (c.take L).length + 1 < sizes.length) :
    ∃ r' out e, (Reader.new ⟨c.take L, true⟩).drain A C Lim k sizes = (r', out, some e) ∧
      e ≠ .eof ∧ out <+: (decrypt A C k c).1 := by
  have hlt : (c.take L).length < Lim := by rw [List.length_take]; omega
  obtain ⟨r', hr⟩ := Props.C12.reader_refines_spec A C Lim hE k (c.take L) true hlt sizes hpos hlong
  exact ⟨r', _, _, hr, dec_fail_ne_eof A C k 0 _, dec_fail_prefix A C hE k 0 c L⟩

theorem reader_sticky (A : AEAD) (C L : Nat) (k : Bytes) (r : Reader) (e : Outcome)
    (he : r.err = some e) (hu : r.unread = []) (n : Nat) : r.read A C L k n = (r, [], some e) :=
  read_sticky A C L k r e he hu n

/-- non-vacuity: destinations that do fail exist in the model (fail at byte offset 20, keep a prefix) -/
example : ((({ acc := [], st := false } : Dst (DstSpec.atOffset 20 true false)).write (List.replicate 30 1)).2 = false) := by decide

end Props.C13
end AgeModel
