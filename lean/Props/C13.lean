/-
  C13 — I/O failures surface; nothing is lost silently.
-/
import Proofs.FileWrite
import Proofs.StreamFault
import Proofs.ArmorCompose
import Proofs.ToyPrims
namespace AgeModel
namespace Props.C13
open Format Stream

/-- **No silent loss (binary files).** For EVERY destination behaviour (failing
    at any write call or byte offset, once or permanently, accepting a prefix or
    nothing), every tape, recipients, split of the header into write calls and
    write segmentation: if Encrypt, every Write and Close report success, then
    the bytes the destination accepted are exactly what it held before followed
    by the complete file `specFile …` for the concatenated plaintext.
    Contrapositive: any failing write makes some call return an error. -/
theorem no_silent_loss {S : DstSpec} (P : Prims) (C L : Nat) (hC : 0 < C)
    (tape : Bytes) (rs : List Recipient) (hdrSegs : List Nat) (d d2 : Dst S) (segs : List Bytes)
    (w : Stream.Writer S) (k t' : Bytes)
    (hinit : encryptInit P tape rs hdrSegs d = (.ok (w, k, t'), d2))
    (hall : ∀ r ∈ (w.run P.aead C L k (Props.C12.opsOf segs)).2, r.2 = none) :
    ∃ fk stanzas nonce,
      (w.run P.aead C L k (Props.C12.opsOf segs)).1.dst.acc = d.acc ++ specFile P C fk stanzas nonce segs.flatten := by
  obtain ⟨fk, stanzas, t, nonce, _, _, hacc, hk, hw⟩ := encryptInit_ok P tape rs hdrSegs d d2 w k t' hinit
  subst hw hk
  have := Props.C12.writer_refines_spec P.aead C L hC (streamKey P fk nonce) d2 segs hall
  exact ⟨fk, stanzas, nonce, by rw [this.1, hacc]; simp [specFile]⟩

/-- **No silent loss (armored files).** `Encrypt` into an armor writer over ANY
    destination (failing at any call or offset, accepting any prefix), the armor
    writer's output split into destination writes in any way (`segF`), any tape,
    recipients, header split and write segmentation: if Encrypt, every Write, the
    payload writer's Close AND the armor writer's Close all report success, then
    the destination holds exactly what it held before followed by the complete
    armor of the complete file for the concatenated plaintext. -/
theorem no_silent_loss_armored {S' : DstSpec} (segF : Armor.AWriter S' → Bytes → List Nat)
    (P : Prims) (C L : Nat) (hC : 0 < C)
    (tape : Bytes) (rs : List Recipient) (hdrSegs : List Nat) (d' : Dst S') (segs : List Bytes)
    (d2 : Dst (armorDst S' segF)) (w : Stream.Writer (armorDst S' segF)) (k t' : Bytes)
    (hinit : encryptInit P tape rs hdrSegs (armorDst.fresh (segF := segF) d') = (.ok (w, k, t'), d2))
    (hall : ∀ r ∈ (w.run P.aead C L k (Props.C12.opsOf segs)).2, r.2 = none)
    (a' : Armor.AWriter S')
    (hclose : (w.run P.aead C L k (Props.C12.opsOf segs)).1.dst.st.close = (a', none)) :
    ∃ fk stanzas nonce, a'.dst.acc = d'.acc ++ Armor.armor (specFile P C fk stanzas nonce segs.flatten) := by
  obtain ⟨fk, stanzas, nonce, hacc⟩ := no_silent_loss P C L hC tape rs hdrSegs _ d2 segs w k t' hinit hall
  have hw : w = Stream.Writer.new d2 := by
    obtain ⟨_, _, _, _, _, _, _, _, hw⟩ := encryptInit_ok P tape rs hdrSegs _ d2 w k t' hinit
    exact hw
  have hr1 := encryptInit_reach P tape rs hdrSegs _ d2 w k t' hinit
  have hr2 := run_reach P.aead C L k (Props.C12.opsOf segs) w hall
  have hwd : w.dst = d2 := by rw [hw]; rfl
  rw [hwd] at hr2
  have hI := Reach.transfer (I := ArmorDstInv d'.acc)
    (fun d b d1 h1 h2 => armorDstInv_write d'.acc d d1 b h1 h2) (hr1.trans hr2) (armorDstInv_fresh d')
  unfold ArmorDstInv at hI
  rw [hacc] at hI
  have := Armor.aclose_ok d'.acc _ a' _ hI hclose
  exact ⟨fk, stanzas, nonce, by rw [this]; simp [armorDst.fresh]⟩

/-- non-vacuity: an armor writer over a perfect destination accepts a write as a
    destination, and over a destination that fails at offset 10 it reports the failure -/
example : ((armorDst.fresh (S' := DstSpec.perfect) (segF := fun _ _ => []) { acc := [], st := () }).write [1, 2, 3]).2 = true := by decide
example : ((armorDst.fresh (S' := DstSpec.atOffset 10 true false) (segF := fun _ _ => []) { acc := [], st := false }).write [1, 2, 3]).2 = false := by decide

/-- a failed Encrypt returns no writer: the caller cannot go on writing -/
theorem encrypt_failure_no_writer {S : DstSpec} (P : Prims) (tape : Bytes) (rs : List Recipient) (segs : List Nat) (d : Dst S) :
    (∃ e d', encryptInit P tape rs segs d = (.error e, d')) ∨
    (∃ w k t' d', encryptInit P tape rs segs d = (.ok (w, k, t'), d')) := by
  cases h : encryptInit P tape rs segs d with
  | mk r d' =>
    cases r with
    | error e => exact Or.inl ⟨e, d', rfl⟩
    | ok v => exact Or.inr ⟨v.1, v.2.1, v.2.2, d', rfl⟩

/-- a writer that has reported an error (or was closed) keeps failing and writes nothing more -/
theorem writer_sticky {S : DstSpec} (A : AEAD) (C L : Nat) (k : Bytes) (w : Stream.Writer S) (e : Outcome)
    (he : w.err = some e) (ops : List WOp) :
    w.run A C L k ops = (w, ops.map fun _ => (0, some e)) :=
  run_sticky A C L k w e he ops

/-- every error a Write/Close can report is the destination's failure (or the
    counter limit after ≥ (L-1)·C bytes); in both cases the error is recorded -/
theorem write_error_recorded {S : DstSpec} (A : AEAD) (C L : Nat) (hC : 0 < C) (k acc0 : Bytes) (w w' : Stream.Writer S)
    (pt p : Bytes) (n : Nat) (e : Outcome) (hinv : WInv A C k acc0 w pt) (h : w.write A C L k p = (w', n, some e)) :
    w'.err = some e ∧ n = 0 :=
  let r := write_err A C L hC k acc0 w w' pt p n e hinv h
  ⟨r.1, r.2.1⟩

/-- **Source faults.** If the source fails (non-EOF error) after delivering any
    prefix `c.take L` of a ciphertext `c` — inside the first chunk, on a chunk
    boundary, in the last chunk, at the EOF probe — then reading to the end reports
    an error other than clean EOF, and the plaintext released is a prefix of what
    the complete `c` yields; and by `reader_sticky` the stream keeps failing. -/
theorem src_fault_surfaces (A : AEAD) (C Lim : Nat) (hE : 0 < C + A.T) (k c : Bytes) (L : Nat)
    (hL : c.length < Lim) (sizes : List Nat) (hpos : ∀ s ∈ sizes, 0 < s)
    (hlong : (dec A C k true 0 (c.take L)).1.length + (c.take L).length + 1 < sizes.length) :
    ∃ r' out e, (Reader.new ⟨c.take L, true⟩).drain A C Lim k sizes = (r', out, some e) ∧
      e ≠ .eof ∧ out <+: (decrypt A C k c).1 := by
  have hlt : (c.take L).length < Lim := by rw [List.length_take]; omega
  obtain ⟨r', hr⟩ := Props.C12.reader_refines_spec A C Lim hE k (c.take L) true hlt sizes hpos hlong
  exact ⟨r', _, _, hr, dec_fail_ne_eof A C k 0 _, dec_fail_prefix A C hE k 0 c L⟩

theorem reader_sticky (A : AEAD) (C L : Nat) (k : Bytes) (r : Reader) (e : Outcome)
    (he : r.err = some e) (hu : r.unread = []) (n : Nat) : r.read A C L k n = (r, [], some e) :=
  read_sticky A C L k r e he hu n

/-- non-vacuity: destinations that do fail exist in the model (fail at byte offset 20, keep a prefix) -/
example : ((({ acc := [], st := false } : Dst (DstSpec.atOffset 20 true false)).write (List.replicate 30 1)).2 = false) := by decide

/-! ## Non-vacuity witnesses

  Toy primitive suite (`Prims.toy`, 12-byte tag), chunk size 4, counter limit 2^88; a 100-byte random tape, one X25519
  recipient, the header split into writes of 3, 0, 10 bytes and the rest; nine plaintext bytes written as `[1,2,3]`,
  an empty write and `[4..9]`, then Close. -/

/-- evaluation helpers: a pair / triple is its first component and the (decidable) rest -/
theorem nv_pair {α β : Type} (x : α × β) (b : β) (h : x.2 = b) : x = (x.1, b) := by
  cases x; cases h; rfl
theorem nv_triple {α β γ : Type} (x : α × β × γ) (b : β) (c : γ) (h1 : x.2.1 = b) (h2 : x.2.2 = c) : x = (x.1, b, c) := by
  obtain ⟨a, b', c'⟩ := x; cases h1; cases h2; rfl

def nvTape : Bytes := (List.range 100).map Nat.toUInt8
def nvRs : List Recipient := [.x25519 (List.replicate 32 5)]
def nvSegs : List Bytes := [[1, 2, 3], [], [4, 5, 6, 7, 8, 9]]
/-- the one stanza `Encrypt` produces for `nvRs` on `nvTape` -/
def nvStanza : Stanza :=
  { type := tX25519, args := [B64.encRaw (List.replicate 32 0)], body := nvTape.take 16 ++ List.replicate 12 0 }
/-- the marshalled header, spelled without `Format.wrap` (well-founded recursion) so that it evaluates -/
def nvHdr : Bytes :=
  Format.intro ++ (stanzaPrefix ++ spaced [tX25519, B64.encRaw (List.replicate 32 0)] ++ [nl] ++ B64.encRaw nvStanza.body ++ [nl])
    ++ footerPrefix ++ [sp] ++ B64.encRaw (List.replicate 32 0) ++ [nl]
def nvNonce : Bytes := (nvTape.drop 48).take 16

theorem nv_header : encryptHeader Prims.toy nvTape nvRs = .ok (nvTape.take 16, [nvStanza], nvTape.drop 48) := by
  rfl

theorem nv_marshal : marshal { stanzas := [nvStanza], mac := headerMAC Prims.toy (nvTape.take 16) [nvStanza] } = nvHdr := by
  have hw : wrap (B64.encRaw nvStanza.body) = B64.encRaw nvStanza.body := wrap_short (by decide)
  simp only [marshal, marshalNoMAC, marshalStanzas, marshalStanza, hw, List.append_nil]
  rfl

/-- a destination that fails the write crossing byte offset 1000 and already holds one byte -/
def nvD : Dst (DstSpec.atOffset 1000 true false) := { acc := [0xAA], st := false }
/-- … after the header (163 bytes) and the 16-byte nonce -/
def nvD2 : Dst (DstSpec.atOffset 1000 true false) := { acc := [0xAA] ++ nvHdr ++ nvNonce, st := false }

set_option maxRecDepth 20000 in
/-- non-vacuity of `no_silent_loss`: `Encrypt` on the witness above succeeds, and so do the three Writes and the Close -/
theorem no_silent_loss_nonvacuous :
    0 < 4 ∧
    encryptInit Prims.toy nvTape nvRs [3, 0, 10] nvD = (.ok (Writer.new nvD2, List.replicate 32 0, nvTape.drop 64), nvD2) ∧
    (∀ r ∈ ((Writer.new nvD2).run Prims.toy.aead 4 (2^88) (List.replicate 32 0) (Props.C12.opsOf nvSegs)).2, r.2 = none) := by
  refine ⟨by decide, ?_, by decide⟩
  unfold encryptInit
  rw [nv_header]
  simp only
  rw [nv_marshal]
  rfl

/-- the conclusion of `no_silent_loss` at that witness: the destination holds its byte and a complete file -/
example : ∃ fk stanzas nonce,
    ((Writer.new nvD2).run Prims.toy.aead 4 (2^88) (List.replicate 32 0) (Props.C12.opsOf nvSegs)).1.dst.acc
      = [0xAA] ++ specFile Prims.toy 4 fk stanzas nonce [1, 2, 3, 4, 5, 6, 7, 8, 9] :=
  no_silent_loss Prims.toy 4 (2^88) (by decide) nvTape nvRs [3, 0, 10] nvD nvD2 nvSegs _ _ _
    no_silent_loss_nonvacuous.2.1 no_silent_loss_nonvacuous.2.2

/-- how the armor writer's output is split into destination writes in the witness: 5 bytes, an empty split, 7, the rest -/
def nvSegF : Armor.AWriter (DstSpec.atOffset 1000 true false) → Bytes → List Nat := fun _ _ => [5, 0, 7]
/-- the armor writer over `nvD`, as a destination, after the header and the nonce -/
def nvAD2 : Dst (armorDst (DstSpec.atOffset 1000 true false) nvSegF) :=
  ((writeAll (armorDst.fresh (segF := nvSegF) nvD) (segmentBy [3, 0, 10] nvHdr)).1.write nvNonce).1

set_option maxRecDepth 20000 in
/-- non-vacuity of `no_silent_loss_armored`: the same `Encrypt` into an armor writer over `nvD`; Encrypt, the Writes,
    the payload Close and the armor Close all succeed -/
theorem no_silent_loss_armored_nonvacuous :
    ∃ a' : Armor.AWriter (DstSpec.atOffset 1000 true false),
    0 < 4 ∧
    encryptInit Prims.toy nvTape nvRs [3, 0, 10] (armorDst.fresh (segF := nvSegF) nvD)
      = (.ok (Writer.new nvAD2, List.replicate 32 0, nvTape.drop 64), nvAD2) ∧
    (∀ r ∈ ((Writer.new nvAD2).run Prims.toy.aead 4 (2^88) (List.replicate 32 0) (Props.C12.opsOf nvSegs)).2, r.2 = none) ∧
    ((Writer.new nvAD2).run Prims.toy.aead 4 (2^88) (List.replicate 32 0) (Props.C12.opsOf nvSegs)).1.dst.st.close = (a', none) ∧
    a'.dst.acc.length = 374 := by
  refine ⟨(((Writer.new nvAD2).run Prims.toy.aead 4 (2^88) (List.replicate 32 0) (Props.C12.opsOf nvSegs)).1.dst.st.close).1,
    by decide, ?_, by decide, nv_pair _ _ (by decide), by decide⟩
  unfold encryptInit
  rw [nv_header]
  simp only
  rw [nv_marshal]
  rfl


/-- non-vacuity of `writer_sticky`: a writer whose destination failed at byte offset 20 during the second chunk of a
    9-byte Write has recorded `dstErr`; a closed writer has recorded `closed` -/
theorem writer_sticky_nonvacuous :
    let d : Dst (DstSpec.atOffset 20 true false) := { acc := [], st := false }
    let w := ((Writer.new d).write AEAD.toy 4 (2^88) [7, 7] [1, 2, 3, 4, 5, 6, 7, 8, 9]).1
    let w' := ((Writer.new d).close AEAD.toy 4 (2^88) [7, 7]).1
    w.err = some .dstErr ∧ w.dst.acc.length = 20 ∧ w'.err = some .closed := by
  decide

/-- non-vacuity of `write_error_recorded`: a writer over a destination failing at byte offset 20 that has accepted
    `[1,2,3]` (so `WInv … [1,2,3]` holds, by `write_ok`) reports `dstErr` on the next Write, of six bytes -/
theorem write_error_recorded_nonvacuous :
    let d : Dst (DstSpec.atOffset 20 true false) := { acc := [0xAA], st := false }
    let w := ((Writer.new d).write AEAD.toy 4 (2^88) [7, 7] [1, 2, 3]).1
    ∃ w', 0 < 4 ∧ WInv AEAD.toy 4 [7, 7] d.acc w [1, 2, 3] ∧
      w.write AEAD.toy 4 (2^88) [7, 7] [4, 5, 6, 7, 8, 9] = (w', 0, some .dstErr) := by
  intro d w
  refine ⟨(w.write AEAD.toy 4 (2^88) [7, 7] [4, 5, 6, 7, 8, 9]).1, by decide, ?_, nv_triple _ _ _ (by decide) (by decide)⟩
  exact (write_ok AEAD.toy 4 (2^88) (by decide) [7, 7] d.acc (Writer.new d) w [] [1, 2, 3] 3
    (WInv_new AEAD.toy 4 [7, 7] d) (nv_triple _ _ _ (by decide) (by decide))).1

/-- non-vacuity of `src_fault_surfaces`: the source fails after 20 of the 45 bytes of a three-chunk payload (inside
    the second chunk); 30 reads of 2 bytes -/
theorem src_fault_surfaces_nonvacuous :
    let c := encrypt AEAD.toy 4 [7, 7] [1, 2, 3, 4, 5, 6, 7, 8, 9]
    let sizes := List.replicate 30 2
    0 < 4 + AEAD.toy.T ∧ c.length < 2^88 ∧ (∀ s ∈ sizes, 0 < s) ∧
    (dec AEAD.toy 4 [7, 7] true 0 (c.take 20)).1.length + (c.take 20).length + 1 < sizes.length ∧
    c.take 20 ≠ c ∧ dec AEAD.toy 4 [7, 7] true 0 (c.take 20) = ([1, 2, 3, 4], .srcErr) := by
  decide

/-- non-vacuity of `reader_sticky`: the reader of that failing source after it has been read to the error, and a
    reader that hit a damaged chunk, have a recorded error and nothing unread -/
theorem reader_sticky_nonvacuous :
    let c := encrypt AEAD.toy 4 [7, 7] [1, 2, 3, 4, 5, 6, 7, 8, 9]
    let r := ((Reader.new ⟨c.take 20, true⟩).drain AEAD.toy 4 (2^88) [7, 7] (List.replicate 30 2)).1
    let r' := ((Reader.new ⟨c.set 30 0xFF, false⟩).drain AEAD.toy 4 (2^88) [7, 7] [4, 4]).1
    r.err = some .srcErr ∧ r.unread = [] ∧ r'.err = some .authFail ∧ r'.unread = [] := by
  decide

/-- the conclusion of `no_silent_loss_armored` at its witness: the destination holds its byte and the complete armor
    of a complete file -/
example : ∃ (a' : Armor.AWriter (DstSpec.atOffset 1000 true false)) (fk : Bytes) (stanzas : List Stanza) (nonce : Bytes),
    a'.dst.acc = [0xAA] ++ Armor.armor (specFile Prims.toy 4 fk stanzas nonce [1, 2, 3, 4, 5, 6, 7, 8, 9]) := by
  obtain ⟨a', hC, hinit, hall, hclose, _⟩ := no_silent_loss_armored_nonvacuous
  obtain ⟨fk, stanzas, nonce, h⟩ := no_silent_loss_armored nvSegF Prims.toy 4 (2^88) hC nvTape nvRs [3, 0, 10] nvD nvSegs
    nvAD2 _ _ _ hinit hall a' hclose
  exact ⟨a', fk, stanzas, nonce, h⟩

end Props.C13
end AgeModel
