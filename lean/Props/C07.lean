/-
  C07 — header encoding is canonical: parsing and marshalling are inverse.
  Property theorems only (helper lemmas live in Proofs/Format*.lean, Proofs/B64.lean).
-/
import Proofs.FormatTop
namespace AgeModel
namespace Props.C07
open Format

/-- Every byte string the header parser accepts re-serialises to exactly the
    same bytes, followed by exactly the unread remainder (the payload). -/
theorem marshal_of_parse (b rest : Bytes) (h : Header) (hp : parse b = .ok (h, rest)) :
    b = marshal h ++ rest :=
  (parse_canon hp).1

/-- …and the header it yields is well formed (non-empty printable-ASCII type and
    arguments, 32-byte MAC). -/
theorem parse_wellformed (b rest : Bytes) (h : Header) (hp : parse b = .ok (h, rest)) : h.WF :=
  (parse_canon hp).2

/-- No two different byte strings denote the same header with the same payload. -/
theorem no_two_spellings (b₁ b₂ rest : Bytes) (h : Header)
    (h₁ : parse b₁ = .ok (h, rest)) (h₂ : parse b₂ = .ok (h, rest)) : b₁ = b₂ := by
  rw [marshal_of_parse b₁ rest h h₁, marshal_of_parse b₂ rest h h₂]

/-- Every well-formed header (non-empty printable-ASCII type and arguments, any
    body, 32-byte MAC, any number of stanzas including none) serialises to bytes
    that parse back to an equal header, with whatever follows as the payload. -/
theorem parse_of_marshal (h : Header) (hwf : h.WF) (rest : Bytes) :
    parse (marshal h ++ rest) = .ok (h, rest) :=
  parse_marshal h hwf rest

/-- `marshal` is injective on well-formed headers. -/
theorem marshal_injective (h₁ h₂ : Header) (w₁ : h₁.WF) (w₂ : h₂.WF) (e : marshal h₁ = marshal h₂) : h₁ = h₂ := by
  have a := parse_of_marshal h₁ w₁ []
  have b := parse_of_marshal h₂ w₂ []
  rw [e, b] at a
  simp only [Except.ok.injEq, Prod.mk.injEq, and_true] at a
  exact a.symm

/-- The parser reads exactly the header: the payload it hands on is a suffix of
    the input and the header occupies exactly the bytes before it. -/
theorem parse_consumes_exactly (b rest : Bytes) (h : Header) (hp : parse b = .ok (h, rest)) :
    b.drop (marshal h).length = rest ∧ b.take (marshal h).length = marshal h := by
  have := marshal_of_parse b rest h hp
  subst this
  simp

/-- Input the parser rejects yields neither a header nor a payload: by the type
    of `parse` (an `Except`), an error carries nothing else. Stated as: the
    result is either an error or a pair, never both. -/
theorem parse_error_total (b : Bytes) :
    (∃ e, parse b = .error e) ∨ (∃ h rest, parse b = .ok (h, rest) ∧ b = marshal h ++ rest) := by
  cases hp : parse b with
  | error e => exact Or.inl ⟨e, rfl⟩
  | ok p => exact Or.inr ⟨p.1, p.2, rfl, marshal_of_parse b p.2 p.1 hp⟩

/-- strict base64 as used in the header: every accepted encoding is the canonical one -/
theorem base64_canonical (s b : Bytes) (h : decodeString s = some b) : s = B64.encRaw b :=
  decodeString_canon h

theorem base64_roundtrip (b : Bytes) : decodeString (B64.encRaw b) = some b := decodeString_enc b

/-! non-vacuity: a concrete well-formed header with two stanzas (one with an
    empty body, one with a 48-byte body — the empty-last-line case) -/
def sample : Header :=
  { stanzas := [{ type := [88], args := [[97, 98], [126]], body := [] },
                { type := [33], args := [], body := List.replicate 48 7 }],
    mac := List.replicate 32 0 }

example : sample.WF := by
  refine ⟨?_, by decide⟩
  intro s hs
  simp only [sample, List.mem_cons, List.not_mem_nil, or_false] at hs
  rcases hs with rfl | rfl
  · exact ⟨by decide, by decide⟩
  · exact ⟨by decide, by decide⟩

/-! ## non-vacuity witnesses -/

set_option maxRecDepth 4000 in
/-- non-vacuity of `marshal_of_parse` (and of `parse_wellformed`, `parse_consumes_exactly`, which have the same
    hypothesis): the parser accepts the literal text
    `age-encryption.org/v1\n-> X ab ~\n\n-> !\nBwcH…(64 columns)\n\n--- AAA…(43)\n` followed by the payload `[1,2,3]`,
    yielding the two-stanza header `sample` (an empty body; a 48-byte body with its empty last line) -/
theorem marshal_of_parse_nonvacuous :
    parse (Format.intro ++ [45, 62, 32, 88, 32, 97, 98, 32, 126, 10, 10] ++ [45, 62, 32, 33, 10] ++
        (List.replicate 16 [66, 119, 99, 72]).flatten ++ [10, 10] ++
        [45, 45, 45, 32] ++ List.replicate 43 65 ++ [10] ++ [1, 2, 3]) = .ok (sample, [1, 2, 3]) := by rfl

/-- non-vacuity of `no_two_spellings`: the same literal text twice (the conclusion says there is no other choice) -/
theorem no_two_spellings_nonvacuous :
    ∃ b₁ b₂, parse b₁ = .ok (sample, [1, 2, 3]) ∧ parse b₂ = .ok (sample, [1, 2, 3]) :=
  ⟨_, _, marshal_of_parse_nonvacuous, marshal_of_parse_nonvacuous⟩

/-- non-vacuity of `parse_of_marshal`: the two-stanza header `sample` is well formed -/
theorem parse_of_marshal_nonvacuous : sample.WF := by
  refine ⟨?_, by decide⟩
  intro s hs
  simp only [sample, List.mem_cons, List.not_mem_nil, or_false] at hs
  rcases hs with rfl | rfl
  · exact ⟨by decide, by decide⟩
  · exact ⟨by decide, by decide⟩

/-- non-vacuity of `marshal_injective`: `sample` twice (the conclusion says there is no other choice) -/
theorem marshal_injective_nonvacuous : sample.WF ∧ sample.WF ∧ marshal sample = marshal sample :=
  ⟨parse_of_marshal_nonvacuous, parse_of_marshal_nonvacuous, rfl⟩

/-- non-vacuity of `base64_canonical`: `AQIDBAU` decodes to the five bytes 1..5 -/
theorem base64_canonical_nonvacuous : decodeString [65, 81, 73, 68, 66, 65, 85] = some [1, 2, 3, 4, 5] := by decide

/-- the conclusions of `marshal_of_parse` and `parse_of_marshal` at those witnesses: the literal text is `marshal sample ++ [1,2,3]`,
    and that parses back -/
example : Format.intro ++ [45, 62, 32, 88, 32, 97, 98, 32, 126, 10, 10] ++ [45, 62, 32, 33, 10] ++
      (List.replicate 16 [66, 119, 99, 72]).flatten ++ [10, 10] ++
      [45, 45, 45, 32] ++ List.replicate 43 65 ++ [10] ++ [1, 2, 3] = marshal sample ++ [1, 2, 3] :=
  marshal_of_parse _ _ _ marshal_of_parse_nonvacuous
example : parse (marshal sample ++ [1, 2, 3]) = .ok (sample, [1, 2, 3]) := parse_of_marshal sample parse_of_marshal_nonvacuous _

end Props.C07
end AgeModel
