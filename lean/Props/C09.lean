/-
  C09 — key strings round-trip, are canonical, and typos are rejected.
  Property theorems only (helper lemmas live in Proofs/Bech32*.lean).

  Strings are byte lists; AgeModel/Bech32.lean explains why that is exact for
  the code as it is now (the rune loop at the top of `bech32.Decode`).
-/
import Proofs.Bech32Keys
import Proofs.Bech32Distance
namespace AgeModel
namespace Props.C09
open Bech32 Keys

/-! ## round trips: what the library prints parses back to the same key -/

theorem x25519_recipient_roundtrip (k : Bytes) (hk : k.length = 32) :
    parseX25519Recipient (recipientString k) = .ok k := by
  obtain ⟨s, _, h2, h3⟩ := decode_recipientString k
  rw [h2]
  simp only [parseX25519Recipient, h3, ne_eq, not_true_eq_false, if_false, hk]

example : parseX25519Recipient (recipientString (List.replicate 32 0x42)) = .ok (List.replicate 32 0x42) :=
  x25519_recipient_roundtrip _ (by decide)

theorem x25519_identity_roundtrip (k : Bytes) (hk : k.length = 32) :
    parseX25519Identity (identityString k) = .ok k := by
  obtain ⟨s, _, h2, h3⟩ := decode_identityString k
  rw [h2]
  simp only [parseX25519Identity, h3, ne_eq, not_true_eq_false, if_false, hk]

/-- every valid name, every payload; the name comes back lower-cased -/
theorem plugin_recipient_roundtrip (name data : Bytes) (hv : validPluginName name = true) :
    parseRecipient (encodeRecipient name data) = .ok (toLower name, data) := by
  have hvl := valid_toLower hv
  have hne : pfxAge1 ++ toLower name ≠ [] := by simp [pfxAge1]
  have hb : hasBadByte (pfxAge1 ++ toLower name) = false := by
    rw [hasBadByte_append, pfxAge1_ok.1, valid_noBad hvl]; rfl
  have hl : toLower (pfxAge1 ++ toLower name) = pfxAge1 ++ toLower name := by
    rw [toLower_append, pfxAge1_ok.2, toLower_idem]
  obtain ⟨_, _, _, _, _, _, _, _, _, h⟩ := encode_of_valid (pfxAge1 ++ toLower name) data hne hb (Or.inr hl)
  have hd := decode_encode h
  simp only [encodeRecipient, hv, Bool.not_true, Bool.false_eq_true, if_false, encodeOrEmpty_of_ok h]
  simp only [parseRecipient, hd, (hasPrefix_iff _ _).mpr ⟨toLower name, rfl⟩, trimPrefix_append, hvl,
    Bool.not_true, Bool.false_eq_true, if_false]

theorem plugin_identity_roundtrip (name data : Bytes) (hv : validPluginName name = true) :
    parseIdentity (encodeIdentity name data) = .ok (toLower name, data) := by
  have hvu := valid_toUpper hv
  have hvl := valid_toLower hv
  have hne : pfxPlugin ++ toUpper name ++ dash ≠ [] := by simp [dash]
  have hb : hasBadByte (pfxPlugin ++ toUpper name ++ dash) = false := by
    rw [hasBadByte_append, hasBadByte_append, pfxPlugin_ok.1, valid_noBad hvu]; rfl
  have hu : toUpper (pfxPlugin ++ toUpper name ++ dash) = pfxPlugin ++ toUpper name ++ dash := by
    rw [toUpper_append, toUpper_append, pfxPlugin_ok.2.1, toUpper_idem]; rfl
  obtain ⟨_, _, _, _, _, _, _, _, _, h⟩ := encode_of_valid (pfxPlugin ++ toUpper name ++ dash) data hne hb (Or.inl hu)
  have hd := decode_encode h
  simp only [encodeIdentity, hv, Bool.not_true, Bool.false_eq_true, if_false, encodeOrEmpty_of_ok h]
  have hp : hasPrefix (pfxPlugin ++ toUpper name ++ dash) pfxPlugin = true :=
    (hasPrefix_iff _ _).mpr ⟨toUpper name ++ dash, by rw [List.append_assoc]⟩
  have hs : hasSuffix (pfxPlugin ++ toUpper name ++ dash) dash = true := (hasSuffix_iff _ _).mpr ⟨_, rfl⟩
  have ht : trimSuffix (trimPrefix (pfxPlugin ++ toUpper name ++ dash) pfxPlugin) dash = toUpper name := by
    rw [List.append_assoc, trimPrefix_append, trimSuffix_append]
  simp only [parseIdentity, hd, hp, hs, ht, toLower_toUpper, hvl, Bool.not_true, Bool.or_self, Bool.false_eq_true,
    if_false]

/-! ## canonicity: whatever parses re-encodes to itself -/

theorem parse_canonical (s : Bytes) :
    (∀ k, parseX25519Recipient s = .ok k → recipientString k = s) ∧
    (∀ k, parseX25519Identity s = .ok k → identityString k = s) ∧
    (∀ name data, parseRecipient s = .ok (name, data) → encodeRecipient name data = s) ∧
    (∀ name data, parseIdentity s = .ok (name, data) → encodeIdentity name data = s) := by
  refine ⟨?_, ?_, ?_, ?_⟩
  · intro k h
    obtain ⟨hd, _⟩ := parseX25519Recipient_ok h
    have hl : toLower s = s := decoded_lower hd (c := 0x61) (by decide) (by decide)
    have := encode_decode hd (fun _ => hl)
    exact encodeOrEmpty_of_ok this
  · intro k h
    obtain ⟨hd, _⟩ := parseX25519Identity_ok h
    have hu : toUpper s = s := decoded_upper hd (c := 0x41) (by decide) (by decide)
    have := encode_decode hd (fun hl => absurd hl hrpSecret_ok.2.2.2)
    unfold identityString
    rw [encodeOrEmpty_of_ok this, hu]
  · intro name data h
    obtain ⟨hd, hv⟩ := parseRecipient_ok h
    have hl : toLower s = s := decoded_lower hd (c := 0x61) (by simp [pfxAge1]) (by decide)
    have hn : toLower name = name := by
      obtain ⟨D, _, d1, _⟩ := decode_ok hd
      rw [d1] at hl
      exact lower_right (lower_left hl)
    have := encode_decode hd (fun _ => hl)
    simp only [encodeRecipient, hv, Bool.not_true, Bool.false_eq_true, if_false, hn]
    exact encodeOrEmpty_of_ok this
  · intro name data h
    obtain ⟨X, hd, hn, hv⟩ := parseIdentity_ok h
    have hu : toUpper s = s := decoded_upper hd (c := 0x41) (by simp [pfxPlugin]) (by decide)
    have hX : toUpper X = X := by
      obtain ⟨D, _, d1, _⟩ := decode_ok hd
      rw [d1] at hu
      exact upper_right (upper_left (upper_left hu))
    have hnl : toLower (pfxPlugin ++ X ++ dash) ≠ pfxPlugin ++ X ++ dash := by
      intro hl
      exact pfxPlugin_ok.2.2 (lower_left (lower_left hl))
    have := encode_decode hd (fun hl => absurd hl hnl)
    subst hn
    simp only [encodeIdentity, hv, Bool.not_true, Bool.false_eq_true, if_false, toUpper_toLower, hX]
    exact encodeOrEmpty_of_ok this

/-- so every key (and every plugin name/payload pair) has exactly one accepted spelling -/
theorem unique_spelling (s s' : Bytes) :
    (∀ k, parseX25519Recipient s = .ok k → parseX25519Recipient s' = .ok k → s = s') ∧
    (∀ k, parseX25519Identity s = .ok k → parseX25519Identity s' = .ok k → s = s') ∧
    (∀ r, parseRecipient s = .ok r → parseRecipient s' = .ok r → s = s') ∧
    (∀ r, parseIdentity s = .ok r → parseIdentity s' = .ok r → s = s') := by
  obtain ⟨a1, a2, a3, a4⟩ := parse_canonical s
  obtain ⟨b1, b2, b3, b4⟩ := parse_canonical s'
  refine ⟨fun k h h' => ?_, fun k h h' => ?_, fun r h h' => ?_, fun r h h' => ?_⟩
  · rw [← a1 k h, ← b1 k h']
  · rw [← a2 k h, ← b2 k h']
  · rw [← a3 r.1 r.2 h, ← b3 r.1 r.2 h']
  · rw [← a4 r.1 r.2 h, ← b4 r.1 r.2 h']

/-- Remark (not a violation): canonicity is a property of the *key formats*, whose prefixes contain
    letters and so fix the case of the whole string.  `bech32.Decode`/`Encode` alone are not canonical for
    an HRP without letters: "2142KK52" and "2142kk52" both decode to ("2", "") — `Decode` cannot tell
    from the HRP which case the string had, `Encode` always answers in lower case.
    (`encode_decode` in Proofs/Bech32Codec.lean carries exactly this side condition.) -/
example : decode [50, 49, 52, 50, 75, 75, 53, 50] = .ok ([50], []) ∧ decode [50, 49, 52, 50, 107, 107, 53, 50] = .ok ([50], []) ∧
    encode [50] [] = .ok [50, 49, 52, 50, 107, 107, 53, 50] := by decide +kernel

/-! ## rejections

  `RejectedWith s P` (Proofs/Bech32Keys.lean): all four parsers and the two string
  constructors of plugin/client.go reject `s` with one Bech32 error class `e` satisfying `P e`.
  `Assembled H d5 cs`: `cs` is the data part (characters) for the symbols `d5` followed by
  their valid checksum under the lower-case, well-formed HRP `H`. -/

/-- any byte outside printable ASCII (hence any non-ASCII rune, any invalid
    UTF-8, any control character or space) anywhere in the string -/
theorem reject_non_ascii (s : Bytes) (h : ∃ c ∈ s, c < 33 ∨ c > 126) : RejectedWith s (· = .badChar) := by
  apply rejected_of_decode
  obtain ⟨c, hc, hr⟩ := h
  have : hasBadByte s = true := by
    simp only [hasBadByte, List.any_eq_true]
    exact ⟨c, hc, by simp only [badByte, Bool.or_eq_true, decide_eq_true_eq]; exact hr⟩
  simp only [decode, this, if_true]

example : RejectedWith [0x61, 0x67, 0x65, 0x31, 0xe2, 0x84, 0xaa] (· = .badChar) :=
  reject_non_ascii _ ⟨0xe2, by decide, by decide⟩

/-- an upper-case and a lower-case letter in the same string -/
theorem reject_mixed_case (s : Bytes) (hU : ∃ c ∈ s, 0x41 ≤ c ∧ c ≤ 0x5a) (hL : ∃ c ∈ s, 0x61 ≤ c ∧ c ≤ 0x7a) :
    RejectedWith s (fun e => e = .badChar ∨ e = .mixedCase) := by
  obtain ⟨cu, hcu, hu⟩ := hU
  obtain ⟨cl, hcl, hl⟩ := hL
  have h1 : toLower s ≠ s := by
    intro h
    have := map_eq_self h cu hcu
    simp only [lowerByte, hu, and_self, if_true] at this
    have hlt : cu.toNat ≤ 90 := UInt8.le_iff_toNat_le.mp hu.2
    have := congrArg UInt8.toNat this
    simp only [UInt8.toNat_add] at this
    have h32 : (32 : UInt8).toNat = 32 := rfl
    rw [h32] at this
    omega
  have h2 : toUpper s ≠ s := by
    intro h
    have := map_eq_self h cl hcl
    simp only [upperByte, hl, and_self, if_true] at this
    have hge : 97 ≤ cl.toNat := UInt8.le_iff_toNat_le.mp hl.1
    have := congrArg UInt8.toNat this
    rw [UInt8.toNat_sub_of_le _ _ (by
      apply UInt8.le_iff_toNat_le.mpr
      have h32 : (32 : UInt8).toNat = 32 := rfl
      rw [h32]; omega)] at this
    have h32 : (32 : UInt8).toNat = 32 := rfl
    rw [h32] at this
    omega
  by_cases hb : hasBadByte s = true
  · obtain ⟨e, he, r⟩ := rejected_of_decode (s := s) (e := .badChar) (by simp only [decode, hb, if_true])
    exact ⟨e, Or.inl he, r⟩
  · obtain ⟨e, he, r⟩ := rejected_of_decode (s := s) (e := .mixedCase) (by
      simp only [decode, hb, Bool.false_eq_true, if_false]
      rw [if_pos ⟨h1, h2⟩])
    exact ⟨e, Or.inr he, r⟩

example : RejectedWith [0x61, 0x67, 0x65, 0x31, 0x51] (fun e => e = .badChar ∨ e = .mixedCase) :=
  reject_mixed_case _ ⟨0x51, by decide, by decide⟩ ⟨0x61, by decide, by decide⟩

/-- a string that does not start with the exact prefix of its kind is rejected -/
theorem reject_wrong_prefix (s : Bytes) :
    (hasPrefix s pfxAge1 = false → ∃ e, parseX25519Recipient s = .error e) ∧
    (hasPrefix s pfxSecret1 = false → ∃ e, parseX25519Identity s = .error e) ∧
    (hasPrefix s pfxAge1 = false → ∃ e, parseRecipient s = .error e) ∧
    (hasPrefix s pfxPlugin = false → ∃ e, parseIdentity s = .error e) := by
  refine ⟨fun hp => ?_, fun hp => ?_, fun hp => ?_, fun hp => ?_⟩
  · apply error_of_not_ok
    intro k h
    obtain ⟨hd, _⟩ := parseX25519Recipient_ok h
    obtain ⟨D, _, d1, _⟩ := decode_ok hd
    have : hasPrefix s pfxAge1 = true := (hasPrefix_iff _ _).mpr ⟨D, by rw [d1]; rfl⟩
    rw [this] at hp; cases hp
  · apply error_of_not_ok
    intro k h
    obtain ⟨hd, _⟩ := parseX25519Identity_ok h
    obtain ⟨D, _, d1, _⟩ := decode_ok hd
    have : hasPrefix s pfxSecret1 = true := (hasPrefix_iff _ _).mpr ⟨D, by rw [d1]; simp [pfxSecret1]⟩
    rw [this] at hp; cases hp
  · apply error_of_not_ok
    intro r h
    obtain ⟨hd, _⟩ := parseRecipient_ok (name := r.1) (data := r.2) h
    obtain ⟨D, _, d1, _⟩ := decode_ok hd
    have : hasPrefix s pfxAge1 = true := (hasPrefix_iff _ _).mpr ⟨r.1 ++ 0x31 :: D, by rw [d1]; simp⟩
    rw [this] at hp; cases hp
  · apply error_of_not_ok
    intro r h
    obtain ⟨X, hd, _⟩ := parseIdentity_ok (name := r.1) (data := r.2) h
    obtain ⟨D, _, d1, _⟩ := decode_ok hd
    have : hasPrefix s pfxPlugin = true := (hasPrefix_iff _ _).mpr ⟨X ++ dash ++ 0x31 :: D, by rw [d1]; simp⟩
    rw [this] at hp; cases hp

/-- a native string is accepted only at its one length (62 / 74 characters), and only
    if the payload is 32 bytes -/
theorem reject_wrong_length (s : Bytes) :
    (s.length ≠ 62 → ∃ e, parseX25519Recipient s = .error e) ∧
    (s.length ≠ 74 → ∃ e, parseX25519Identity s = .error e) ∧
    (∀ data, decode s = .ok (hrpAge, data) → data.length ≠ 32 → parseX25519Recipient s = .error .badLength) ∧
    (∀ data, decode s = .ok (hrpSecret, data) → data.length ≠ 32 → parseX25519Identity s = .error .badLength) := by
  refine ⟨fun hl => ?_, fun hl => ?_, fun data hd hl => ?_, fun data hd hl => ?_⟩
  · apply error_of_not_ok
    intro k h
    obtain ⟨hd, hk⟩ := parseX25519Recipient_ok h
    have := decoded_length_32 hd hk
    simp only [hrpAge, List.length_cons, List.length_nil] at this
    omega
  · apply error_of_not_ok
    intro k h
    obtain ⟨hd, hk⟩ := parseX25519Identity_ok h
    have := decoded_length_32 hd hk
    simp only [hrpSecret, List.length_cons, List.length_nil] at this
    omega
  · simp only [parseX25519Recipient, hd, ne_eq, not_true_eq_false, if_false, hl, not_false_eq_true, if_true]
  · simp only [parseX25519Identity, hd, ne_eq, not_true_eq_false, if_false, hl, not_false_eq_true, if_true]

/-- whenever a string is accepted, the bits of its data symbols are the payload
    bytes followed by fewer than five bits, all zero -/
theorem accepted_padding (s hrp data : Bytes) (h : decode s = .ok (hrp, data)) :
    ∃ D d5 k, s = hrp ++ 0x31 :: D ∧ mapOpt charsetIdx (toLower D) = some (d5 ++ createChecksum hrp d5) ∧
      k < 5 ∧ flatBits 5 d5 = flatBits 8 data ++ List.replicate k false := by
  obtain ⟨D, d5, d1, _, _, _, _, _, d7, d8⟩ := decode_ok h
  obtain ⟨_, k, hk, hb⟩ := (convertBits_5_8_iff d5 data).mp d8
  exact ⟨D, d5, k, d1, d7, hk, hb⟩

/-- non-zero padding: a data part whose symbol count leaves `r < 5` surplus
    bits, not all zero, is rejected even though its checksum is valid -/
theorem reject_nonzero_padding (H d5 cs : Bytes) (h : Assembled H d5 cs) (hr : 5 * d5.length % 8 < 5)
    (hnz : (flatBits 5 d5).drop (5 * d5.length - 5 * d5.length % 8) ≠ List.replicate (5 * d5.length % 8) false) :
    RejectedWith (H ++ 0x31 :: cs) (· = .badPaddingNonZero) := by
  apply rejected_of_decode
  rw [decode_of_assembled h, (convertBits_5_8_cases d5 h.2.2.2.1).2 hr hnz]

/-- the hypotheses of `reject_nonzero_padding` are satisfiable: HRP "age", 51 zero symbols and a final
    symbol 1 (52 symbols = 32 bytes + 4 padding bits `0001`) -/
example : ∃ cs, Assembled hrpAge (List.replicate 51 0 ++ [1]) cs ∧ 5 * (List.replicate 51 (0 : UInt8) ++ [1]).length % 8 < 5 ∧
    (flatBits 5 (List.replicate 51 0 ++ [1])).drop (5 * (List.replicate 51 (0 : UInt8) ++ [1]).length -
      5 * (List.replicate 51 (0 : UInt8) ++ [1]).length % 8) ≠
      List.replicate (5 * (List.replicate 51 (0 : UInt8) ++ [1]).length % 8) false := by
  have hall : ∀ x ∈ (List.replicate 51 (0 : UInt8) ++ [1]) ++ createChecksum hrpAge (List.replicate 51 0 ++ [1]),
      x.toNat < 32 := by
    intro x hx
    rcases List.mem_append.mp hx with hx | hx
    · revert x; decide +kernel
    · exact createChecksum_lt _ _ x hx
  obtain ⟨cs, c1, _⟩ := chars_of_syms _ hall
  exact ⟨cs, ⟨hrpAge_ok.1, hrpAge_ok.2.1, hrpAge_ok.2.2, fun x hx => hall x (List.mem_append_left _ hx), c1⟩,
    by decide, by decide +kernel⟩

/-- surplus padding: five or more left-over bits (a whole unnecessary symbol) -/
theorem reject_surplus_padding (H d5 cs : Bytes) (h : Assembled H d5 cs) (hr : 5 * d5.length % 8 ≥ 5) :
    RejectedWith (H ++ 0x31 :: cs) (· = .badPaddingIllegal) := by
  apply rejected_of_decode
  rw [decode_of_assembled h, (convertBits_5_8_cases d5 h.2.2.2.1).1 hr]

/-! ## convertBits -/

theorem convertBits_inverse :
    (∀ data out, convertBits data 8 5 true = .ok out → convertBits out 5 8 false = .ok data) ∧
    (∀ d5 bytes, convertBits d5 5 8 false = .ok bytes → convertBits bytes 8 5 true = .ok d5) ∧
    (∀ data, ∃ out, convertBits data 8 5 true = .ok out) := by
  refine ⟨convertBits_8_5_8, convertBits_5_8_5, fun data => ?_⟩
  obtain ⟨out, _, h, _⟩ := convertBits_8_5 data
  exact ⟨out, h⟩

/-! ## the checksum -/

/-- `polymod` is XOR-linear: running the update loop from state `a ^^^ b` over the
    symbol-wise XOR of two equally long strings gives the XOR of the two runs -/
theorem polymod_xor_linear (x y : Bytes) (a b : Nat) (hl : x.length = y.length) (ha : a < 2 ^ 30) (hb : b < 2 ^ 30) :
    (xorBytes x y).foldl polymodStep (a ^^^ b) = x.foldl polymodStep a ^^^ y.foldl polymodStep b :=
  foldl_polymodStep_lin x y a b hl ha hb

/-! ## typos

  `hamming a b` counts the positions at which two strings differ; a string with
  "up to W characters replaced" is one of the same length with `1 ≤ hamming ≤ W`
  (for equal lengths `hamming = 0` iff the strings are equal).
  `NoLowWeight W` (Proofs/Bech32Typo.lean): no non-zero error pattern of weight
  ≤ W over 5-bit symbols within the 58 data characters of a native string has
  zero syndrome.  Substitutions that touch the prefix or the separator are
  rejected by the exact-HRP test and need no coding theory: the proof of
  `decode_distance` only ever compares two strings that both decoded with the
  same HRP. -/

/-- the Bech32 code fact for the length of native age strings: no non-zero error pattern of
    weight ≤ 4 within 58 symbols has zero syndrome.  Entirely by kernel computation
    (`decide +kernel`, no `native_decide`): Proofs/Bech32Tables.lean (weights 2, 3),
    Proofs/Bech32Pairs0..3.lean with the GF(32)-linearity of Proofs/Bech32Scalar.lean (weight 4). -/
theorem no_low_weight_codeword : NoLowWeight 4 := noLowWeight4

/-- a native recipient or identity string in which up to four characters have been
    replaced is never accepted (for every 32-byte key, every such string) -/
theorem typo_rejected (k s' : Bytes) (hk : k.length = 32) :
    (s'.length = (recipientString k).length → s' ≠ recipientString k → hamming (recipientString k) s' ≤ 4 →
      ∃ e, parseX25519Recipient s' = .error e) ∧
    (s'.length = (identityString k).length → s' ≠ identityString k → hamming (identityString k) s' ≤ 4 →
      ∃ e, parseX25519Identity s' = .error e) :=
  ⟨fun hl hne hd => recipient_typo 4 no_low_weight_codeword k s' hk hl hne hd,
   fun hl hne hd => identity_typo 4 no_low_weight_codeword k s' hk hl hne hd⟩

/-- the hypotheses are satisfiable: "age1gfpyysjz…pqxkm8f4" (the key 0x42…42) with characters 10, 20, 30
    and 40 replaced by `q` -/
example : ∃ s', s'.length = (recipientString (List.replicate 32 0x42)).length ∧
    s' ≠ recipientString (List.replicate 32 0x42) ∧ hamming (recipientString (List.replicate 32 0x42)) s' = 4 :=
  ⟨[97, 103, 101, 49, 103, 102, 112, 121, 121, 115, 113, 122, 103, 102, 112, 121, 121, 115, 106, 122, 113, 102, 112,
    121, 121, 115, 106, 122, 103, 102, 113, 121, 121, 115, 106, 122, 103, 102, 112, 121, 113, 115, 106, 122, 103, 102,
    112, 121, 121, 115, 106, 122, 103, 102, 112, 113, 120, 107, 109, 56, 102, 52], by decide +kernel⟩

/-! ## non-vacuity

  For every theorem above that has hypotheses — or whose conjuncts are implications — concrete values
  that meet all of them at once (the two whose hypotheses an `example` above already instantiates
  completely, `reject_non_ascii` and `reject_mixed_case`, and `reject_nonzero_padding`, are not
  repeated).  The key is 0x42…42 (32 bytes), whose strings are
  "age1gfpyysjz…gfpqxkm8f4" (62 characters) and "AGE-SECRET-KEY-1GFPYYSJZ…GFPQ4EGAEX" (74 characters);
  the plugin name is "Yubi" (mixed case, so that the lower-casing of the round trip is visible). -/

/-- non-vacuity of `x25519_identity_roundtrip` (and once more of `x25519_recipient_roundtrip`): the key
    0x42…42 has 32 bytes; its identity string is the 74 characters spelled out here -/
theorem x25519_identity_roundtrip_nonvacuous :
    (List.replicate 32 (0x42 : UInt8)).length = 32 ∧
    identityString (List.replicate 32 0x42) =
      [65, 71, 69, 45, 83, 69, 67, 82, 69, 84, 45, 75, 69, 89, 45, 49, 71, 70, 80, 89, 89, 83, 74, 90, 71, 70, 80, 89,
       89, 83, 74, 90, 71, 70, 80, 89, 89, 83, 74, 90, 71, 70, 80, 89, 89, 83, 74, 90, 71, 70, 80, 89, 89, 83, 74, 90,
       71, 70, 80, 89, 89, 83, 74, 90, 71, 70, 80, 81, 52, 69, 71, 65, 69, 88] := by decide +kernel

example : parseX25519Identity (identityString (List.replicate 32 0x42)) = .ok (List.replicate 32 0x42) :=
  x25519_identity_roundtrip _ x25519_identity_roundtrip_nonvacuous.1

/-- non-vacuity of `plugin_recipient_roundtrip` and `plugin_identity_roundtrip` (same hypothesis): the name
    "Yubi" is valid, and with the payload 01 02 03 neither encoder falls back to the empty string:
    "age1yubi1qypqxy5utrs" and "AGE-PLUGIN-YUBI-1QYPQXPQSYGH" -/
theorem plugin_recipient_roundtrip_nonvacuous :
    validPluginName [0x59, 0x75, 0x62, 0x69] = true ∧
    encodeRecipient [0x59, 0x75, 0x62, 0x69] [1, 2, 3] =
      [97, 103, 101, 49, 121, 117, 98, 105, 49, 113, 121, 112, 113, 120, 121, 53, 117, 116, 114, 115] ∧
    encodeIdentity [0x59, 0x75, 0x62, 0x69] [1, 2, 3] =
      [65, 71, 69, 45, 80, 76, 85, 71, 73, 78, 45, 89, 85, 66, 73, 45, 49, 81, 89, 80, 81, 88, 80, 81, 83, 89, 71,
       72] := by decide +kernel

/-- non-vacuity of `plugin_identity_roundtrip`: the witness of `plugin_recipient_roundtrip_nonvacuous` -/
theorem plugin_identity_roundtrip_nonvacuous : validPluginName [0x59, 0x75, 0x62, 0x69] = true :=
  plugin_recipient_roundtrip_nonvacuous.1

/-- both round trips at the witness: the name comes back as "yubi" -/
example :
    parseRecipient [97, 103, 101, 49, 121, 117, 98, 105, 49, 113, 121, 112, 113, 120, 121, 53, 117, 116, 114, 115] =
      .ok ([0x79, 0x75, 0x62, 0x69], [1, 2, 3]) ∧
    parseIdentity [65, 71, 69, 45, 80, 76, 85, 71, 73, 78, 45, 89, 85, 66, 73, 45, 49, 81, 89, 80, 81, 88, 80, 81, 83,
      89, 71, 72] = .ok ([0x79, 0x75, 0x62, 0x69], [1, 2, 3]) := by
  have h1 := plugin_recipient_roundtrip _ [1, 2, 3] plugin_recipient_roundtrip_nonvacuous.1
  have h2 := plugin_identity_roundtrip _ [1, 2, 3] plugin_identity_roundtrip_nonvacuous
  rw [plugin_recipient_roundtrip_nonvacuous.2.1] at h1
  rw [plugin_recipient_roundtrip_nonvacuous.2.2] at h2
  exact ⟨h1, h2⟩

/-- non-vacuity of `parse_canonical`: each of its four premises holds for some string (necessarily four
    different strings: the prefixes exclude one another) — the two native strings of 0x42…42 and the two
    plugin strings of "yubi" / 01 02 03 -/
theorem parse_canonical_nonvacuous :
    parseX25519Recipient (recipientString (List.replicate 32 0x42)) = .ok (List.replicate 32 0x42) ∧
    parseX25519Identity (identityString (List.replicate 32 0x42)) = .ok (List.replicate 32 0x42) ∧
    parseRecipient [97, 103, 101, 49, 121, 117, 98, 105, 49, 113, 121, 112, 113, 120, 121, 53, 117, 116, 114, 115] =
      .ok ([0x79, 0x75, 0x62, 0x69], [1, 2, 3]) ∧
    parseIdentity [65, 71, 69, 45, 80, 76, 85, 71, 73, 78, 45, 89, 85, 66, 73, 45, 49, 81, 89, 80, 81, 88, 80, 81, 83,
      89, 71, 72] = .ok ([0x79, 0x75, 0x62, 0x69], [1, 2, 3]) :=
  ⟨x25519_recipient_roundtrip _ (by decide), x25519_identity_roundtrip _ (by decide), by decide +kernel,
   by decide +kernel⟩

/-- and its conclusion there: re-encoding the parsed name and payload gives the string back -/
example : encodeIdentity [0x79, 0x75, 0x62, 0x69] [1, 2, 3] =
    [65, 71, 69, 45, 80, 76, 85, 71, 73, 78, 45, 89, 85, 66, 73, 45, 49, 81, 89, 80, 81, 88, 80, 81, 83, 89, 71, 72] :=
  (parse_canonical _).2.2.2 _ _ parse_canonical_nonvacuous.2.2.2

/-- non-vacuity of `unique_spelling`: the premises of each conjunct hold with `s' = s` at the strings of
    `parse_canonical_nonvacuous` — and, by the theorem itself, only with `s' = s` -/
theorem unique_spelling_nonvacuous :
    (∃ s s' k, parseX25519Recipient s = .ok k ∧ parseX25519Recipient s' = .ok k) ∧
    (∃ s s' k, parseX25519Identity s = .ok k ∧ parseX25519Identity s' = .ok k) ∧
    (∃ s s' r, parseRecipient s = .ok r ∧ parseRecipient s' = .ok r) ∧
    (∃ s s' r, parseIdentity s = .ok r ∧ parseIdentity s' = .ok r) :=
  ⟨⟨_, _, _, parse_canonical_nonvacuous.1, parse_canonical_nonvacuous.1⟩,
   ⟨_, _, _, parse_canonical_nonvacuous.2.1, parse_canonical_nonvacuous.2.1⟩,
   ⟨_, _, _, parse_canonical_nonvacuous.2.2.1, parse_canonical_nonvacuous.2.2.1⟩,
   ⟨_, _, _, parse_canonical_nonvacuous.2.2.2, parse_canonical_nonvacuous.2.2.2⟩⟩

/-- non-vacuity of `reject_wrong_prefix`: "bge1gfpyysjz…pq9wvy62", a *valid* Bech32 string (HRP "bge", payload
    0x42…42) that starts with none of the three prefixes — so all four parsers refuse it for its prefix alone -/
theorem reject_wrong_prefix_nonvacuous :
    ∃ s, hasPrefix s pfxAge1 = false ∧ hasPrefix s pfxSecret1 = false ∧ hasPrefix s pfxPlugin = false ∧
      decode s = .ok ([0x62, 0x67, 0x65], List.replicate 32 0x42) :=
  ⟨[98, 103, 101, 49, 103, 102, 112, 121, 121, 115, 106, 122, 103, 102, 112, 121, 121, 115, 106, 122, 103, 102, 112,
    121, 121, 115, 106, 122, 103, 102, 112, 121, 121, 115, 106, 122, 103, 102, 112, 121, 121, 115, 106, 122, 103, 102,
    112, 121, 121, 115, 106, 122, 103, 102, 112, 113, 57, 119, 118, 121, 54, 50], by decide +kernel⟩

/-- non-vacuity of `reject_wrong_length`: the strings of the 31-byte payload 0x42…42 under the two native HRPs
    ("age1gfpyysjz…gg7enat4", 60 characters, and "AGE-SECRET-KEY-1GFPYYSJZ…GGEGVYQK", 72) decode, with the
    right HRP, to 31 bytes — all four premises, the rejection being for the length alone -/
theorem reject_wrong_length_nonvacuous :
    ∃ s t, s.length ≠ 62 ∧ t.length ≠ 74 ∧
      decode s = .ok (hrpAge, List.replicate 31 0x42) ∧ decode t = .ok (hrpSecret, List.replicate 31 0x42) ∧
      (List.replicate 31 (0x42 : UInt8)).length ≠ 32 :=
  ⟨[97, 103, 101, 49, 103, 102, 112, 121, 121, 115, 106, 122, 103, 102, 112, 121, 121, 115, 106, 122, 103, 102, 112,
    121, 121, 115, 106, 122, 103, 102, 112, 121, 121, 115, 106, 122, 103, 102, 112, 121, 121, 115, 106, 122, 103, 102,
    112, 121, 121, 115, 106, 122, 103, 103, 55, 101, 110, 97, 116, 52],
   [65, 71, 69, 45, 83, 69, 67, 82, 69, 84, 45, 75, 69, 89, 45, 49, 71, 70, 80, 89, 89, 83, 74, 90, 71, 70, 80, 89, 89,
    83, 74, 90, 71, 70, 80, 89, 89, 83, 74, 90, 71, 70, 80, 89, 89, 83, 74, 90, 71, 70, 80, 89, 89, 83, 74, 90, 71, 70,
    80, 89, 89, 83, 74, 90, 71, 71, 69, 71, 86, 89, 81, 75], by decide +kernel⟩

/-- non-vacuity of `accepted_padding`: the recipient string of 0x42…42 decodes (52 data symbols = 32 bytes and
    four zero bits) -/
theorem accepted_padding_nonvacuous :
    decode (recipientString (List.replicate 32 0x42)) = .ok (hrpAge, List.replicate 32 0x42) := by
  obtain ⟨s, _, h2, h3⟩ := decode_recipientString (List.replicate 32 0x42)
  rw [h2]; exact h3

/-- non-vacuity of `reject_surplus_padding`: HRP "age" and 54 zero symbols (270 bits = 33 bytes and six
    surplus bits) with their checksum "y6p66v" -/
theorem reject_surplus_padding_nonvacuous :
    Assembled hrpAge (List.replicate 54 0) (List.replicate 54 0x71 ++ [121, 54, 112, 54, 54, 118]) ∧
    5 * (List.replicate 54 (0 : UInt8)).length % 8 ≥ 5 := by
  unfold Assembled
  decide +kernel

example : RejectedWith (hrpAge ++ 0x31 :: (List.replicate 54 0x71 ++ [121, 54, 112, 54, 54, 118]))
    (· = .badPaddingIllegal) :=
  reject_surplus_padding _ _ _ reject_surplus_padding_nonvacuous.1 reject_surplus_padding_nonvacuous.2

/-- non-vacuity of `convertBits_inverse`: the premises of its first two conjuncts, at the bytes ff 01 80 and the
    symbols 31 28 0 24 0 (three bytes = four symbols and four bits of a fifth) -/
theorem convertBits_inverse_nonvacuous :
    convertBits [0xff, 0x01, 0x80] 8 5 true = .ok [31, 28, 0, 24, 0] ∧
    convertBits [31, 28, 0, 24, 0] 5 8 false = .ok [0xff, 0x01, 0x80] := by decide +kernel

/-- non-vacuity of `polymod_xor_linear`: two three-symbol strings, the states 1 (the initial one) and
    0x3b6a57b2 (the first generator constant) -/
theorem polymod_xor_linear_nonvacuous :
    ([1, 2, 3] : Bytes).length = ([4, 5, 6] : Bytes).length ∧ 1 < 2 ^ 30 ∧ 0x3b6a57b2 < 2 ^ 30 := by decide

example : (xorBytes [1, 2, 3] [4, 5, 6]).foldl polymodStep (1 ^^^ 0x3b6a57b2) =
    ([1, 2, 3] : Bytes).foldl polymodStep 1 ^^^ ([4, 5, 6] : Bytes).foldl polymodStep 0x3b6a57b2 :=
  polymod_xor_linear _ _ _ _ polymod_xor_linear_nonvacuous.1 polymod_xor_linear_nonvacuous.2.1
    polymod_xor_linear_nonvacuous.2.2

/-- non-vacuity of `no_low_weight_codeword` (`NoLowWeight 4` is a chain of implications): an error pattern of
    full length 58 and weight exactly 4 meets every premise; its syndrome is 266911701 -/
theorem no_low_weight_codeword_nonvacuous :
    ([1, 0, 2] ++ List.replicate 50 0 ++ [3, 0, 0, 0, 4] : Bytes).length ≤ 58 ∧
    (∀ v ∈ ([1, 0, 2] ++ List.replicate 50 0 ++ [3, 0, 0, 0, 4] : Bytes), v.toNat < 32) ∧
    weight ([1, 0, 2] ++ List.replicate 50 0 ++ [3, 0, 0, 0, 4]) ≤ 4 ∧
    (∃ v ∈ ([1, 0, 2] ++ List.replicate 50 0 ++ [3, 0, 0, 0, 4] : Bytes), v ≠ 0) ∧
    weight ([1, 0, 2] ++ List.replicate 50 0 ++ [3, 0, 0, 0, 4]) = 4 ∧
    synSum ([1, 0, 2] ++ List.replicate 50 0 ++ [3, 0, 0, 0, 4]) = 266911701 := by decide +kernel

/-- non-vacuity of `typo_rejected`, identity half (the recipient half is the `example` above): the identity
    string of 0x42…42 with characters 20, 30, 40 and 50 replaced by `Q` -/
theorem typo_rejected_nonvacuous :
    (List.replicate 32 (0x42 : UInt8)).length = 32 ∧
    ∃ s', s'.length = (identityString (List.replicate 32 0x42)).length ∧
      s' ≠ identityString (List.replicate 32 0x42) ∧ hamming (identityString (List.replicate 32 0x42)) s' ≤ 4 ∧
      hamming (identityString (List.replicate 32 0x42)) s' = 4 :=
  ⟨by decide,
   [65, 71, 69, 45, 83, 69, 67, 82, 69, 84, 45, 75, 69, 89, 45, 49, 71, 70, 80, 89, 81, 83, 74, 90, 71, 70, 80, 89, 89,
    83, 81, 90, 71, 70, 80, 89, 89, 83, 74, 90, 81, 70, 80, 89, 89, 83, 74, 90, 71, 70, 81, 89, 89, 83, 74, 90, 71, 70,
    80, 89, 89, 83, 74, 90, 71, 70, 80, 81, 52, 69, 71, 65, 69, 88], by decide +kernel⟩

end Props.C09
end AgeModel
