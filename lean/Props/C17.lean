/-
  C17 — only validly named plugins on PATH are ever executed.
  Property theorems only (helper lemmas live in Proofs/Bech32*.lean).

  What is proved here is the part of the property that lives in the model of
  plugin/encode.go, plugin/client.go and cmd/age/parse.go: which strings can
  construct a client value, what its name can be, and which command that value
  passes to `exec.Command`.  That the command is then looked up on PATH is
  `execabs`/`os/exec` behaviour (a command without a path separator is searched
  in PATH): modelled, exercised by the sentinel-PATH runs of the harness, not
  proved.  That nothing else in the module creates a process, and that native
  decryption has no call path to `openClientConnection`, is checked on the real
  code by the harness (decrypting headers with unknown stanza types under the
  sentinel PATH).
-/
import Proofs.Bech32Keys
namespace AgeModel
namespace Props.C17
open Bech32 Keys

/-- the allow-list as a predicate on one byte: letters, digits, `+ - . _` -/
def NameByte (c : UInt8) : Prop :=
  (0x61 ≤ c ∧ c ≤ 0x7a) ∨ (0x41 ≤ c ∧ c ≤ 0x5a) ∨ (0x30 ≤ c ∧ c ≤ 0x39) ∨ c = 0x2b ∨ c = 0x2d ∨ c = 0x2e ∨ c = 0x5f

/-- `validPluginName` accepts exactly the non-empty strings over the allow-list -/
theorem valid_name_charset (n : Bytes) : validPluginName n = true ↔ n ≠ [] ∧ ∀ c ∈ n, NameByte c := by
  rw [validPluginName_iff]
  constructor
  · rintro ⟨h1, h2⟩; exact ⟨h1, fun c hc => (allowed_iff c).mp (h2 c hc)⟩
  · rintro ⟨h1, h2⟩; exact ⟨h1, fun c hc => (allowed_iff c).mpr (h2 c hc)⟩

example : validPluginName [0x79, 0x75, 0x62, 0x69, 0x6b, 0x65, 0x79] = true := by decide   -- "yubikey"
example : validPluginName [0x2e, 0x2e] = true := by decide                                 -- ".." (a file name, not a path)
example : validPluginName [0x2e, 0x2e, 0x2f, 0x78] = false := by decide                    -- "../x"
example : validPluginName [0x78, 0x5c, 0x79] = false := by decide                          -- "x\y"
example : validPluginName [] = false := by decide

/-- a valid name contains neither `/` nor `\` (nor any byte outside printable ASCII) -/
theorem valid_name_no_separator (n : Bytes) (h : validPluginName n = true) :
    (0x2f : UInt8) ∉ n ∧ (0x5c : UInt8) ∉ n ∧ hasBadByte n = false :=
  ⟨(valid_noSep h).1, (valid_noSep h).2, valid_noBad h⟩

/-- each of the three constructors returns a client value only with a valid
    name; the value keeps the string it was made from -/
theorem constructors_validate :
    (∀ s c, newRecipient s = .ok c → validPluginName c.name = true ∧ c.encoding = s) ∧
    (∀ s c, newIdentity s = .ok c → validPluginName c.name = true ∧ c.encoding = s) ∧
    (∀ n c, newIdentityWithoutData n = .ok c → validPluginName c.name = true ∧ c.name = n ∧
      c.encoding = encodeIdentity n []) := by
  refine ⟨fun s c h => ?_, fun s c h => ?_, fun n c h => ?_⟩
  · unfold newRecipient at h
    cases hp : parseRecipient s with
    | error e => rw [hp] at h; cases h
    | ok r =>
      obtain ⟨name, data⟩ := r
      rw [hp] at h
      cases h
      exact ⟨(parseRecipient_ok hp).2, rfl⟩
  · unfold newIdentity at h
    cases hp : parseIdentity s with
    | error e => rw [hp] at h; cases h
    | ok r =>
      obtain ⟨name, data⟩ := r
      rw [hp] at h
      cases h
      obtain ⟨_, _, _, hv⟩ := parseIdentity_ok hp
      exact ⟨hv, rfl⟩
  · unfold newIdentityWithoutData at h
    simp only [] at h
    by_cases he : encodeIdentity n [] = []
    · rw [if_pos he] at h; cases h
    · rw [if_neg he] at h
      cases h
      refine ⟨?_, rfl, rfl⟩
      by_cases hv : validPluginName n = true
      · exact hv
      · exfalso; apply he
        simp only [encodeIdentity, hv, Bool.not_false, if_true]

/-- in particular no constructed value has a name containing a path separator -/
theorem constructors_no_separator :
    (∀ s c, newRecipient s = .ok c → (0x2f : UInt8) ∉ c.name ∧ (0x5c : UInt8) ∉ c.name) ∧
    (∀ s c, newIdentity s = .ok c → (0x2f : UInt8) ∉ c.name ∧ (0x5c : UInt8) ∉ c.name) ∧
    (∀ n c, newIdentityWithoutData n = .ok c → (0x2f : UInt8) ∉ c.name ∧ (0x5c : UInt8) ∉ c.name) :=
  ⟨fun s c h => valid_noSep (constructors_validate.1 s c h).1,
   fun s c h => valid_noSep (constructors_validate.2.1 s c h).1,
   fun n c h => valid_noSep (constructors_validate.2.2 n c h).1⟩

/-- conversely the bare-name constructor accepts every valid name (so the
    theorems above are not vacuous), and keeps it unchanged -/
theorem bare_name_accepts (n : Bytes) (hv : validPluginName n = true) :
    ∃ enc, enc ≠ [] ∧ newIdentityWithoutData n = .ok { name := n, encoding := enc } := by
  have hvu := valid_toUpper hv
  have hne : pfxPlugin ++ toUpper n ++ dash ≠ [] := by simp [dash]
  have hb : hasBadByte (pfxPlugin ++ toUpper n ++ dash) = false := by
    rw [hasBadByte_append, hasBadByte_append, pfxPlugin_ok.1, valid_noBad hvu]; rfl
  have hu : toUpper (pfxPlugin ++ toUpper n ++ dash) = pfxPlugin ++ toUpper n ++ dash := by
    rw [toUpper_append, toUpper_append, pfxPlugin_ok.2.1, toUpper_idem]; rfl
  obtain ⟨_, _, _, _, _, _, _, _, _, h'⟩ := encode_of_valid (pfxPlugin ++ toUpper n ++ dash) [] hne hb (Or.inl hu)
  obtain ⟨enc, h⟩ : ∃ enc, encode (pfxPlugin ++ toUpper n ++ dash) [] = .ok enc := ⟨_, h'⟩
  have hnn := encode_ne_nil h
  refine ⟨enc, hnn, ?_⟩
  have he : encodeIdentity n [] = enc := by
    simp only [encodeIdentity, hv, Bool.not_true, Bool.false_eq_true, if_false, encodeOrEmpty_of_ok h]
  simp only [newIdentityWithoutData, he]
  rw [if_neg hnn]

/-- what a client value runs: always `"age-plugin-" ++ name`, a file name with
    no path separator — so the program is found by searching PATH, never by
    path — and `openClientConnection` never refuses a constructed value -/
theorem exec_path (c : Client) (hv : validPluginName c.name = true) :
    openClientCommand c = .ok (execPath c.name) ∧ execPath c.name = pfxExec ++ c.name ∧
      (0x2f : UInt8) ∉ execPath c.name ∧ (0x5c : UInt8) ∉ execPath c.name := by
  obtain ⟨h1, h2⟩ := valid_noSep hv
  refine ⟨?_, rfl, ?_, ?_⟩
  · unfold openClientCommand
    have : c.name.contains 0x2f = false := by
      apply Bool.eq_false_iff.mpr
      intro hc
      exact h1 (List.contains_iff_mem.mp hc)
    rw [this]
    rfl
  · simp only [execPath, List.mem_append, not_or]
    exact ⟨by decide, h1⟩
  · simp only [execPath, List.mem_append, not_or]
    exact ⟨by decide, h2⟩

/-- the only error of `openClientCommand` is for a name with a separator; then no command is produced -/
theorem exec_refuses_separator (c : Client) (h : (0x2f : UInt8) ∈ c.name) :
    openClientCommand c = .error .pathSeparator := by
  unfold openClientCommand
  rw [List.contains_iff_mem.mpr h]
  rfl

/-- which command-line shapes can construct a plugin value at all: a `-r`/`-R`
    argument that starts with `age1` and has a second `1`, a `-i` file line that
    starts with `AGE-PLUGIN-`, or a `-j` name; always through one of the three
    validating constructors -/
theorem cli_routes :
    (∀ arg c, cliParseRecipient arg = .ok (.plugin c) →
      hasPrefix arg pfxAge1 = true ∧ countByte arg 0x31 > 1 ∧ newRecipient arg = .ok c ∧ validPluginName c.name = true) ∧
    (∀ s c, cliParseIdentity s = .ok (.plugin c) →
      hasPrefix s pfxPlugin = true ∧ newIdentity s = .ok c ∧ validPluginName c.name = true) ∧
    (∀ n v, cliPluginFlag n = .ok v → ∃ c, v = .plugin c ∧ newIdentityWithoutData n = .ok c ∧ c.name = n ∧
      validPluginName n = true) := by
  refine ⟨fun arg c h => ?_, fun s c h => ?_, fun n v h => ?_⟩
  · unfold cliParseRecipient at h
    by_cases h1 : (hasPrefix arg pfxAge1 && decide (countByte arg 0x31 > 1)) = true
    · rw [if_pos h1] at h
      simp only [Bool.and_eq_true, decide_eq_true_eq] at h1
      cases hn : newRecipient arg with
      | error e => rw [hn] at h; cases h
      | ok c' =>
        rw [hn] at h
        cases h
        exact ⟨h1.1, h1.2, rfl, (constructors_validate.1 arg _ hn).1⟩
    · rw [if_neg h1] at h
      by_cases h2 : hasPrefix arg pfxAge1 = true
      · rw [if_pos h2] at h
        cases hx : parseX25519Recipient arg with
        | error e => rw [hx] at h; cases h
        | ok k => rw [hx] at h; cases h
      · rw [if_neg h2] at h
        by_cases h3 : hasPrefix arg pfxSsh = true
        · rw [if_pos h3] at h; cases h
        · rw [if_neg h3] at h
          by_cases h4 : hasPrefix arg pfxGithub = true
          · rw [if_pos h4] at h; cases h
          · rw [if_neg h4] at h; cases h
  · unfold cliParseIdentity at h
    by_cases h1 : hasPrefix s pfxPlugin = true
    · rw [if_pos h1] at h
      cases hn : newIdentity s with
      | error e => rw [hn] at h; cases h
      | ok c' =>
        rw [hn] at h
        cases h
        exact ⟨h1, rfl, (constructors_validate.2.1 s _ hn).1⟩
    · rw [if_neg h1] at h
      by_cases h2 : hasPrefix s pfxSecret1 = true
      · rw [if_pos h2] at h
        cases hx : parseX25519Identity s with
        | error e => rw [hx] at h; cases h
        | ok k => rw [hx] at h; cases h
      · rw [if_neg h2] at h; cases h
  · unfold cliPluginFlag at h
    cases hn : newIdentityWithoutData n with
    | error e => rw [hn] at h; cases h
    | ok c =>
      rw [hn] at h
      cases h
      obtain ⟨hv, hname, _⟩ := constructors_validate.2.2 n c hn
      exact ⟨c, rfl, rfl, hname, by rw [← hname]; exact hv⟩

/-- the CLI hands native strings to the native parsers: an accepted native
    recipient or identity never becomes a plugin value -/
theorem cli_native_not_plugin (s k : Bytes) :
    (parseX25519Recipient s = .ok k → cliParseRecipient s = .ok (.x25519Recipient k)) ∧
    (parseX25519Identity s = .ok k → cliParseIdentity s = .ok (.x25519Identity k)) := by
  constructor
  · intro h
    obtain ⟨hd, _⟩ := parseX25519Recipient_ok h
    obtain ⟨D, _, d1, _, _, _, d5, _⟩ := decode_ok hd
    have hp : hasPrefix s pfxAge1 = true := (hasPrefix_iff _ _).mpr ⟨D, by rw [d1]; rfl⟩
    have hc : countByte s 0x31 = 1 := by
      rw [d1]
      simp only [countByte, List.count_append, List.count_cons, beq_self_eq_true, if_true, List.count_eq_zero.mpr d5]
      decide
    unfold cliParseRecipient
    rw [hp, hc, h]
    rfl
  · intro h
    obtain ⟨hd, _⟩ := parseX25519Identity_ok h
    obtain ⟨D, _, d1, _⟩ := decode_ok hd
    have hp : hasPrefix s pfxSecret1 = true := (hasPrefix_iff _ _).mpr ⟨D, by rw [d1]; simp [pfxSecret1]⟩
    have hnp : hasPrefix s pfxPlugin = false := by
      apply Bool.eq_false_iff.mpr
      intro hpp
      obtain ⟨t, ht⟩ := (hasPrefix_iff _ _).mp hpp
      rw [d1] at ht
      revert ht
      simp [hrpSecret, pfxPlugin]
    unfold cliParseIdentity
    rw [hnp, hp, h]
    rfl

/-! ## non-vacuity

  Concrete values meeting the hypotheses of every theorem above (those of `valid_name_no_separator` and
  `bare_name_accepts` are instantiated by the `"yubikey"` example above).  The plugin strings are those
  of the name "yubi" with the payload 01 02 03: "age1yubi1qypqxy5utrs" and "AGE-PLUGIN-YUBI-1QYPQXPQSYGH";
  the bare name is "Yubi", which `-j` keeps as it is (it runs "age-plugin-Yubi"). -/

/-- non-vacuity of `constructors_validate` and `constructors_no_separator` (same premises): each of the three
    constructors does return a value for some input -/
theorem constructors_validate_nonvacuous :
    newRecipient [97, 103, 101, 49, 121, 117, 98, 105, 49, 113, 121, 112, 113, 120, 121, 53, 117, 116, 114, 115] =
      .ok { name := [0x79, 0x75, 0x62, 0x69],
            encoding := [97, 103, 101, 49, 121, 117, 98, 105, 49, 113, 121, 112, 113, 120, 121, 53, 117, 116, 114,
              115] } ∧
    newIdentity [65, 71, 69, 45, 80, 76, 85, 71, 73, 78, 45, 89, 85, 66, 73, 45, 49, 81, 89, 80, 81, 88, 80, 81, 83, 89,
        71, 72] =
      .ok { name := [0x79, 0x75, 0x62, 0x69],
            encoding := [65, 71, 69, 45, 80, 76, 85, 71, 73, 78, 45, 89, 85, 66, 73, 45, 49, 81, 89, 80, 81, 88, 80, 81,
              83, 89, 71, 72] } ∧
    newIdentityWithoutData [0x59, 0x75, 0x62, 0x69] =
      .ok { name := [0x59, 0x75, 0x62, 0x69],
            encoding := [65, 71, 69, 45, 80, 76, 85, 71, 73, 78, 45, 89, 85, 66, 73, 45, 49, 67, 55, 67, 68, 57,
              78] } := by decide +kernel

/-- non-vacuity of `constructors_no_separator`: the witness of `constructors_validate_nonvacuous` -/
theorem constructors_no_separator_nonvacuous :
    (∃ s c, newRecipient s = .ok c) ∧ (∃ s c, newIdentity s = .ok c) ∧ (∃ n c, newIdentityWithoutData n = .ok c) :=
  ⟨⟨_, _, constructors_validate_nonvacuous.1⟩, ⟨_, _, constructors_validate_nonvacuous.2.1⟩,
   ⟨_, _, constructors_validate_nonvacuous.2.2⟩⟩

/-- non-vacuity of `exec_path`: the value `-j Yubi` constructs has a valid name; it runs "age-plugin-Yubi" -/
theorem exec_path_nonvacuous :
    validPluginName (Client.mk [0x59, 0x75, 0x62, 0x69]
      [65, 71, 69, 45, 80, 76, 85, 71, 73, 78, 45, 89, 85, 66, 73, 45, 49, 67, 55, 67, 68, 57, 78]).name = true := by
  decide

example : openClientCommand (Client.mk [0x59, 0x75, 0x62, 0x69]
      [65, 71, 69, 45, 80, 76, 85, 71, 73, 78, 45, 89, 85, 66, 73, 45, 49, 67, 55, 67, 68, 57, 78]) =
    .ok [0x61, 0x67, 0x65, 0x2d, 0x70, 0x6c, 0x75, 0x67, 0x69, 0x6e, 0x2d, 0x59, 0x75, 0x62, 0x69] :=
  (exec_path _ exec_path_nonvacuous).1

/-- non-vacuity of `exec_refuses_separator`: a value named "../x" (no constructor returns one — see
    `constructors_no_separator` — so this is the defence in depth of `openClientConnection`) -/
theorem exec_refuses_separator_nonvacuous :
    (0x2f : UInt8) ∈ (Client.mk [0x2e, 0x2e, 0x2f, 0x78] []).name := by decide

/-- the other half of the docstring of `exec_refuses_separator` ("the only error"): whenever
    `openClientCommand` fails, the error is `pathSeparator` and the name contains `/` -/
theorem exec_error_only_separator (c : Client) (e : Keys.Err) (h : openClientCommand c = .error e) :
    e = .pathSeparator ∧ (0x2f : UInt8) ∈ c.name := by
  unfold openClientCommand at h
  by_cases hc : c.name.contains 0x2f = true
  · rw [if_pos hc] at h
    cases h
    exact ⟨rfl, List.contains_iff_mem.mp hc⟩
  · rw [if_neg hc] at h; cases h

/-- non-vacuity of `cli_routes`: each of the three routes does produce a plugin value — `-r age1yubi1qypqxy5utrs`,
    an identity-file line `AGE-PLUGIN-YUBI-1QYPQXPQSYGH`, and `-j Yubi` -/
theorem cli_routes_nonvacuous :
    cliParseRecipient [97, 103, 101, 49, 121, 117, 98, 105, 49, 113, 121, 112, 113, 120, 121, 53, 117, 116, 114,
        115] =
      .ok (.plugin { name := [0x79, 0x75, 0x62, 0x69],
                     encoding := [97, 103, 101, 49, 121, 117, 98, 105, 49, 113, 121, 112, 113, 120, 121, 53, 117, 116,
                       114, 115] }) ∧
    cliParseIdentity [65, 71, 69, 45, 80, 76, 85, 71, 73, 78, 45, 89, 85, 66, 73, 45, 49, 81, 89, 80, 81, 88, 80, 81, 83,
        89, 71, 72] =
      .ok (.plugin { name := [0x79, 0x75, 0x62, 0x69],
                     encoding := [65, 71, 69, 45, 80, 76, 85, 71, 73, 78, 45, 89, 85, 66, 73, 45, 49, 81, 89, 80, 81, 88,
                       80, 81, 83, 89, 71, 72] }) ∧
    cliPluginFlag [0x59, 0x75, 0x62, 0x69] =
      .ok (.plugin { name := [0x59, 0x75, 0x62, 0x69],
                     encoding := [65, 71, 69, 45, 80, 76, 85, 71, 73, 78, 45, 89, 85, 66, 73, 45, 49, 67, 55, 67, 68, 57,
                       78] }) := by decide +kernel

/-- non-vacuity of `cli_native_not_plugin`: the native strings of the key 0x42…42
    ("age1gfpyysjz…gfpqxkm8f4", "AGE-SECRET-KEY-1GFPYYSJZ…GFPQ4EGAEX") are accepted by the native parsers -/
theorem cli_native_not_plugin_nonvacuous :
    parseX25519Recipient
      [97, 103, 101, 49, 103, 102, 112, 121, 121, 115, 106, 122, 103, 102, 112, 121, 121, 115, 106, 122, 103, 102, 112,
       121, 121, 115, 106, 122, 103, 102, 112, 121, 121, 115, 106, 122, 103, 102, 112, 121, 121, 115, 106, 122, 103,
       102, 112, 121, 121, 115, 106, 122, 103, 102, 112, 113, 120, 107, 109, 56, 102, 52] =
      .ok (List.replicate 32 0x42) ∧
    parseX25519Identity
      [65, 71, 69, 45, 83, 69, 67, 82, 69, 84, 45, 75, 69, 89, 45, 49, 71, 70, 80, 89, 89, 83, 74, 90, 71, 70, 80, 89,
       89, 83, 74, 90, 71, 70, 80, 89, 89, 83, 74, 90, 71, 70, 80, 89, 89, 83, 74, 90, 71, 70, 80, 89, 89, 83, 74, 90,
       71, 70, 80, 89, 89, 83, 74, 90, 71, 70, 80, 81, 52, 69, 71, 65, 69, 88] =
      .ok (List.replicate 32 0x42) := by decide +kernel

end Props.C17
end AgeModel
