/-
  C12 — results do not depend on I/O chunking; processing is streaming.
  Property theorems only (helper lemmas live in Proofs/).
-/
import Proofs.StreamWriterTop
import Proofs.IO
import Proofs.StreamReaderTop
namespace AgeModel
namespace Props.C12
open Stream

/-- every write is an op, followed by one close -/
def opsOf (segs : List Bytes) : List WOp := segs.map WOp.write ++ [WOp.close]

/-- Whatever the segmentation of the plaintext into `Write` calls (empty writes,
    writes larger than a chunk, writes ending on chunk boundaries), and whatever
    the destination does: if no call reported an error then every `Write`
    reported the full count and the destination holds exactly
    `Spec.encrypt key (concatenation)` after what it held before. -/
theorem writer_refines_spec {S : DstSpec} (A : AEAD) (C L : Nat) (hC : 0 < C) (k : Bytes)
    (d : Dst S) (segs : List Bytes) :
    let res := (Writer.new d).run A C L k (opsOf segs)
    (∀ r ∈ res.2, r.2 = none) →
      res.1.dst.acc = d.acc ++ encrypt A C k segs.flatten ∧
      res.2 = segs.map (fun p => (p.length, none)) ++ [(0, none)] := by
  intro res hall
  -- generalise over the invariant
  suffices h : ∀ (segs : List Bytes) (w : Writer S) (pt : Bytes), WInv A C k d.acc w pt →
      (∀ r ∈ (w.run A C L k (opsOf segs)).2, r.2 = none) →
      (w.run A C L k (opsOf segs)).1.dst.acc = d.acc ++ encrypt A C k (pt ++ segs.flatten) ∧
      (w.run A C L k (opsOf segs)).2 = segs.map (fun p => (p.length, none)) ++ [(0, none)] by
    have := h segs (Writer.new d) [] (WInv_new A C k d) hall
    simpa using this
  intro segs
  induction segs with
  | nil =>
    intro w pt hinv hall
    simp only [opsOf, List.map_nil, List.nil_append, Writer.run, Writer.step] at hall ⊢
    generalize hc : w.close A C L k = rc at hall
    obtain ⟨w', e⟩ := rc
    simp only [List.mem_singleton, forall_eq] at hall
    subst hall
    have := close_ok A C L k d.acc w w' pt hinv hc
    simp [this.1]
  | cons p segs ih =>
    intro w pt hinv hall
    simp only [opsOf, List.map_cons, List.cons_append, Writer.run, Writer.step] at hall ⊢
    generalize hwr : w.write A C L k p = rw at hall
    obtain ⟨w1, n, e⟩ := rw
    simp only [List.mem_cons, forall_eq_or_imp] at hall
    obtain ⟨he, hrest⟩ := hall
    subst he
    obtain ⟨hinv1, hn⟩ := write_ok A C L hC k d.acc w w1 pt p n hinv hwr
    have := ih w1 (pt ++ p) hinv1 hrest
    simp only [opsOf] at this
    refine ⟨by rw [this.1]; simp, by rw [this.2, hn]⟩

/-- With a destination that never fails and a plaintext shorter than
    (L-1)·C bytes (L = 2^88 in age) no call reports an error at all. -/
theorem writer_never_fails {S : DstSpec} (hS : S.NeverFails) (A : AEAD) (C L : Nat) (hC : 0 < C) (k : Bytes)
    (d : Dst S) (segs : List Bytes) (hlen : segs.flatten.length < (L - 1) * C) :
    ∀ r ∈ ((Writer.new d).run A C L k (opsOf segs)).2, r.2 = none := by
  suffices h : ∀ (segs : List Bytes) (w : Writer S) (pt : Bytes), WInv A C k d.acc w pt →
      pt.length + segs.flatten.length < (L - 1) * C →
      ∀ r ∈ (w.run A C L k (opsOf segs)).2, r.2 = none by
    exact h segs (Writer.new d) [] (WInv_new A C k d) (by simpa using hlen)
  intro segs
  induction segs with
  | nil =>
    intro w pt hinv hlen r hr
    simp only [opsOf, List.map_nil, List.nil_append, Writer.run, Writer.step] at hr
    generalize hc : w.close A C L k = rc at hr
    obtain ⟨w', e⟩ := rc
    simp only [List.mem_singleton] at hr
    subst hr
    cases e with
    | none => rfl
    | some e =>
      exfalso
      cases (close_err A C L k d.acc w w' pt e hinv hc).2 with
      | inl h =>
        subst h
        unfold Writer.close at hc
        rw [hinv.1] at hc
        simp only at hc
        split at hc
        · rename_i w2 e2 hfl
          simp only [Prod.mk.injEq, Option.some.injEq] at hc
          obtain ⟨_, he2⟩ := hc
          subst he2
          exact flush_no_dstErr hS A C L k _ _ _ hfl
        · simp at hc
      | inr h => simp at hlen; omega
  | cons p segs ih =>
    intro w pt hinv hlen r hr
    simp only [opsOf, List.map_cons, List.cons_append, Writer.run, Writer.step] at hr
    generalize hwr : w.write A C L k p = rw at hr
    obtain ⟨w1, n, e⟩ := rw
    simp only [List.flatten_cons, List.length_append] at hlen
    cases e with
    | none =>
      simp only [List.mem_cons] at hr
      cases hr with
      | inl h => subst h; rfl
      | inr h =>
        obtain ⟨hinv1, _⟩ := write_ok A C L hC k d.acc w w1 pt p n hinv hwr
        exact ih w1 (pt ++ p) hinv1 (by rw [List.length_append]; omega) r (by simpa [opsOf] using h)
    | some e =>
      exfalso
      cases (write_err A C L hC k d.acc w w1 pt p n e hinv hwr).2.2 with
      | inl h =>
        subst h
        unfold Writer.write at hwr
        rw [hinv.1] at hwr
        simp only at hwr
        split at hwr
        · simp at hwr
        · split at hwr
          · rename_i w2 e2 hfill
            simp only [Prod.mk.injEq, Option.some.injEq] at hwr
            obtain ⟨_, _, he2⟩ := hwr
            subst he2
            exact fill_no_dstErr hS A C L k _ _ _ _ hfill
          · simp at hwr
      | inr h => omega

/-- For every ciphertext (valid or damaged), every source ending (EOF or a
    failure) and every sequence of positive `Read` sizes that is long enough to
    reach the end, the bytes released and the terminal error are those of the
    Spec, independent of the sizes. -/
theorem reader_refines_spec (A : AEAD) (C L : Nat) (hE : 0 < C + A.T) (k c : Bytes) (srcFail : Bool)
    (hL : c.length < L) (sizes : List Nat) (hpos : ∀ s ∈ sizes, 0 < s)
    (hlong : (dec A C k srcFail 0 c).1.length + c.length + 1 < sizes.length) :
    ∃ r', (Reader.new ⟨c, srcFail⟩).drain A C L k sizes
        = (r', (dec A C k srcFail 0 c).1, some (dec A C k srcFail 0 c).2) := by
  have hb : (Reader.new ⟨c, srcFail⟩).Bounded L := by simp [Reader.Bounded, Reader.new]; exact hL
  have hd := drain_spec A C L hE k sizes (Reader.new ⟨c, srcFail⟩) hpos hb
  have hden : (Reader.new ⟨c, srcFail⟩).denote A C k = dec A C k srcFail 0 c := by
    simp [Reader.denote, Reader.new]
  generalize hdr : (Reader.new ⟨c, srcFail⟩).drain A C L k sizes = res at hd
  obtain ⟨r', out, e⟩ := res
  cases e with
  | some e =>
    simp only at hd
    rw [hden] at hd
    exact ⟨r', by rw [hd.1]⟩
  | none =>
    exfalso
    simp only at hd
    have h2 := hd.2
    unfold Reader.nu at h2
    rw [hden] at h2
    simp only [Reader.new, if_true] at h2
    omega

/-- specialisation to a well-behaved source: the `Read` sizes do not matter and
    the result is `Spec.decrypt` -/
theorem reader_chunking_irrelevant (A : AEAD) (C L : Nat) (hE : 0 < C + A.T) (k c : Bytes)
    (hL : c.length < L) (sizes₁ sizes₂ : List Nat)
    (h₁ : ∀ s ∈ sizes₁, 0 < s) (h₂ : ∀ s ∈ sizes₂, 0 < s)
    (l₁ : (decrypt A C k c).1.length + c.length + 1 < sizes₁.length)
    (l₂ : (decrypt A C k c).1.length + c.length + 1 < sizes₂.length) :
    ((Reader.new ⟨c, false⟩).drain A C L k sizes₁).2 = ((decrypt A C k c).1, some (decrypt A C k c).2) ∧
    ((Reader.new ⟨c, false⟩).drain A C L k sizes₂).2 = ((decrypt A C k c).1, some (decrypt A C k c).2) := by
  obtain ⟨r1, e1⟩ := reader_refines_spec A C L hE k c false hL sizes₁ h₁ l₁
  obtain ⟨r2, e2⟩ := reader_refines_spec A C L hE k c false hL sizes₂ h₂ l₂
  rw [e1, e2]
  exact ⟨rfl, rfl⟩

/-- streaming, encryption side: between calls the writer holds back at most one
    chunk: `buf.length ≤ C`, everything else (whole chunks) is already at the
    destination, and closing now would complete the file. -/
theorem writer_holdback {S : DstSpec} (A : AEAD) (C L : Nat) (hC : 0 < C) (k : Bytes)
    (d : Dst S) (segs : List Bytes) :
    let res := (Writer.new d).run A C L k (segs.map WOp.write)
    (∀ r ∈ res.2, r.2 = none) →
      res.1.buf.length ≤ C ∧ res.1.ctr * C + res.1.buf.length = segs.flatten.length ∧
      res.1.dst.acc ++ A.sealF k (nonce res.1.ctr true) res.1.buf = d.acc ++ encrypt A C k segs.flatten := by
  intro res hall
  suffices h : ∀ (segs : List Bytes) (w : Writer S) (pt : Bytes), WInv A C k d.acc w pt →
      (∀ r ∈ (w.run A C L k (segs.map WOp.write)).2, r.2 = none) →
      WInv A C k d.acc (w.run A C L k (segs.map WOp.write)).1 (pt ++ segs.flatten) by
    have hw := h segs (Writer.new d) [] (WInv_new A C k d) hall
    simp only [List.nil_append] at hw
    obtain ⟨_, h2, h3, h4⟩ := hw
    refine ⟨h2, h3, ?_⟩
    have := h4 []
    simp only [List.append_nil] at this
    rw [← enc_short A C k _ _ h2, this, encrypt_eq_enc]
  intro segs
  induction segs with
  | nil => intro w pt hinv _; simpa [Writer.run] using hinv
  | cons p segs ih =>
    intro w pt hinv hall
    simp only [List.map_cons, Writer.run, Writer.step] at hall ⊢
    generalize hwr : w.write A C L k p = rw at hall
    obtain ⟨w1, n, e⟩ := rw
    simp only [List.mem_cons, forall_eq_or_imp] at hall
    obtain ⟨he, hrest⟩ := hall
    subst he
    obtain ⟨hinv1, _⟩ := write_ok A C L hC k d.acc w w1 pt p n hinv hwr
    have := ih w1 (pt ++ p) hinv1 hrest
    simpa using this

/-- streaming, decryption side: a reader state reached by any reads has asked
    its source for at most one chunk (plus the one-byte EOF probe) beyond the
    chunks whose plaintext it has produced. -/
def Lookahead (A : AEAD) (C : Nat) (r : Reader) : Prop :=
  (r.err = none → r.taken = r.ctr * (C + A.T)) ∧ r.taken ≤ r.ctr * (C + A.T) + (C + A.T) + 1

theorem reader_lookahead (A : AEAD) (C L : Nat) (k : Bytes) (r : Reader) (n : Nat)
    (h : Lookahead A C r) : Lookahead A C (r.read A C L k n).1 := by
  obtain ⟨h1, h2⟩ := h
  unfold Reader.read
  split
  · exact ⟨h1, h2⟩
  · cases he : r.err with
    | some e => simp only; exact ⟨h1, h2⟩
    | none =>
      simp only
      split
      · exact ⟨h1, h2⟩
      · have ht := h1 he
        generalize hrc : r.readChunk A C L k = res
        obtain ⟨r1, x⟩ := res
        -- facts about readChunk's bookkeeping
        have hfacts : r1.taken = r.taken + (C + A.T) ∧ r1.err = r.err ∧
            (∀ last, x = .ok last → r1.ctr = r.ctr + 1) ∧ (∀ e, x = .error e → r1.ctr = r.ctr) := by
          unfold Reader.readChunk at hrc
          split at hrc
          · simp only [Prod.mk.injEq] at hrc; obtain ⟨a, b⟩ := hrc; subst a b
            -- dirty buffer: taken unchanged is not what we claim; but this branch is impossible to reach
            -- with unread = [] which holds here
            rename_i hdirty
            rename_i hun _
            exact absurd (by omega : r.unread.length = 0) hdirty
          · simp only at hrc
            split at hrc
            · simp only [Prod.mk.injEq] at hrc; obtain ⟨a, b⟩ := hrc; subst a b; simp
            · split at hrc
              · simp only [Prod.mk.injEq] at hrc; obtain ⟨a, b⟩ := hrc; subst a b; simp
              · split at hrc
                · simp only [Prod.mk.injEq] at hrc; obtain ⟨a, b⟩ := hrc; subst a b; simp
                · split at hrc
                  · simp only [Prod.mk.injEq] at hrc; obtain ⟨a, b⟩ := hrc; subst a b; simp
                  · split at hrc
                    · simp only [Prod.mk.injEq] at hrc; obtain ⟨a, b⟩ := hrc; subst a b; simp
                    · simp only [Prod.mk.injEq] at hrc; obtain ⟨a, b⟩ := hrc; subst a b; simp
        obtain ⟨f1, f2, f3, f4⟩ := hfacts
        cases x with
        | error e =>
          simp only
          have := f4 e rfl
          refine ⟨by simp, ?_⟩
          simp only; rw [f1, this, ht]; omega
        | ok last =>
          simp only
          have hc := f3 last rfl
          cases last with
          | false =>
            simp only [Bool.false_eq_true, if_false]
            refine ⟨fun _ => by simp only; rw [f1, hc, ht, Nat.add_mul]; omega, by simp only; rw [f1, hc, ht, Nat.add_mul]; omega⟩
          | true =>
            simp only [if_true]
            unfold Reader.probe
            simp only
            split
            · refine ⟨by simp, ?_⟩
              simp only; rw [f1, hc, ht, Nat.add_mul]; omega
            · refine ⟨by simp, ?_⟩
              simp only; rw [f1, hc, ht, Nat.add_mul]; omega

theorem lookahead_new (A : AEAD) (C : Nat) (s : Src) : Lookahead A C (Reader.new s) := by
  simp [Lookahead, Reader.new]

/-- non-vacuity: the hypotheses of the theorems above are met by a concrete run -/
example : (0 : Nat) < 4 ∧ ([1,2,3,4,5,6,7,8,9] : Bytes).length < (2^88 - 1) * 4 := by decide

/-- **The delivery schedule of the source is irrelevant.** `io.ReadFull` (transcribed in
    `AgeModel.IO`) over ANY schedule — pieces of any sizes, empty reads, data delivered
    together with the end condition — returns what depends only on the concatenation of the
    pieces and the kind of end, and leaves a source with the same property. This is what
    justifies describing a source as `Src` (bytes + end condition) everywhere else. -/
theorem readfull_schedule_irrelevant (n : Nat) (s t : IO.Sched) (hd : s.flat = t.flat) (hf : s.fail = t.fail) :
    let r := IO.readFull n s.fail [] s.pieces s.last
    let q := IO.readFull n t.fail [] t.pieces t.last
    r.1 = q.1 ∧ r.2.1 = q.2.1 ∧ r.2.2.flat = q.2.2.flat ∧ r.2.2.fail = q.2.2.fail :=
  IO.readFull_schedule_irrelevant n s t hd hf

/-- … and that common value is the obvious one -/
theorem readfull_is_spec (n : Nat) (s : IO.Sched) :
    let r := IO.readFull n s.fail [] s.pieces s.last
    (r.1, r.2.1) = IO.readFullSpec n s.flat s.fail ∧ r.2.2.flat = s.flat.drop n ∧ r.2.2.fail = s.fail :=
  IO.readFull_spec n s

/-- non-vacuity: five bytes delivered one at a time with an empty read in between, and the same five
    delivered in one piece together with EOF, are the same source to a 3-byte and then a 4-byte ReadFull -/
example :
    let s : IO.Sched := ⟨[[1], [], [2], [3], [4]], [5], false⟩
    let t : IO.Sched := ⟨[], [1, 2, 3, 4, 5], false⟩
    s.flat = t.flat ∧ (IO.readFull 3 false [] s.pieces s.last).1 = [1, 2, 3] ∧ (IO.readFull 3 false [] t.pieces t.last).1 = [1, 2, 3] ∧
    (IO.readFull 4 false [] (IO.readFull 3 false [] t.pieces t.last).2.2.pieces (IO.readFull 3 false [] t.pieces t.last).2.2.last).2.1 = .unexpectedEOF := by decide

/-! ## Non-vacuity witnesses (toy AEAD with a 12-byte tag, chunk size 4, counter limit 2^88) -/

/-- non-vacuity of `writer_refines_spec`: nine bytes written as `[1,2,3]`, an empty write and `[4..9]` (crossing two
    chunk boundaries) to a destination that WOULD fail at byte offset 100 and already holds one byte; no call reports
    an error -/
theorem writer_refines_spec_nonvacuous :
    let d : Dst (DstSpec.atOffset 100 true false) := { acc := [0xAA], st := false }
    let segs : List Bytes := [[1, 2, 3], [], [4, 5, 6, 7, 8, 9]]
    let res := (Writer.new d).run AEAD.toy 4 (2^88) [7, 7] (opsOf segs)
    0 < 4 ∧ (∀ r ∈ res.2, r.2 = none) := by
  decide

/-- the conclusion of `writer_refines_spec` at that witness: 1 + 45 bytes at the destination -/
example :
    let d : Dst (DstSpec.atOffset 100 true false) := { acc := [0xAA], st := false }
    let res := (Writer.new d).run AEAD.toy 4 (2^88) [7, 7] (opsOf [[1, 2, 3], [], [4, 5, 6, 7, 8, 9]])
    res.1.dst.acc = [0xAA] ++ encrypt AEAD.toy 4 [7, 7] [1, 2, 3, 4, 5, 6, 7, 8, 9] ∧
    res.2 = [(3, none), (0, none), (6, none), (0, none)] ∧ res.1.dst.acc.length = 46 :=
  have h := writer_refines_spec AEAD.toy 4 (2^88) (by decide) [7, 7]
    ({ acc := [0xAA], st := false } : Dst (DstSpec.atOffset 100 true false)) [[1, 2, 3], [], [4, 5, 6, 7, 8, 9]]
    writer_refines_spec_nonvacuous.2
  ⟨h.1, h.2, by decide⟩

/-- non-vacuity of `writer_never_fails`: the perfect destination never fails, and nine bytes are fewer than
    (2^88 - 1)·4 -/
theorem writer_never_fails_nonvacuous :
    DstSpec.perfect.NeverFails ∧ 0 < 4 ∧
    ([[1, 2, 3], [], [4, 5, 6, 7, 8, 9]] : List Bytes).flatten.length < (2^88 - 1) * 4 :=
  ⟨DstSpec.perfect_neverFails, by decide, by decide⟩

/-- non-vacuity of `reader_refines_spec`: the 45-byte payload of a 9-byte plaintext (three chunks), a source ending in
    EOF, 60 reads of sizes 1, 5 and 2 -/
theorem reader_refines_spec_nonvacuous :
    let c := encrypt AEAD.toy 4 [7, 7] [1, 2, 3, 4, 5, 6, 7, 8, 9]
    let sizes := List.replicate 20 1 ++ List.replicate 20 5 ++ List.replicate 20 2
    0 < 4 + AEAD.toy.T ∧ c.length < 2^88 ∧ (∀ s ∈ sizes, 0 < s) ∧
    (dec AEAD.toy 4 [7, 7] false 0 c).1.length + c.length + 1 < sizes.length := by
  decide

/-- … and with a DAMAGED payload (a byte of the second chunk's tag flipped) on a source that ends in an error -/
theorem reader_refines_spec_nonvacuous_damaged :
    let c := (encrypt AEAD.toy 4 [7, 7] [1, 2, 3, 4, 5, 6, 7, 8, 9]).set 30 0xFF
    let sizes := List.replicate 60 3
    0 < 4 + AEAD.toy.T ∧ c.length < 2^88 ∧ (∀ s ∈ sizes, 0 < s) ∧
    (dec AEAD.toy 4 [7, 7] true 0 c).1.length + c.length + 1 < sizes.length ∧
    dec AEAD.toy 4 [7, 7] true 0 c = ([1, 2, 3, 4], .authFail) := by
  decide

/-- non-vacuity of `reader_chunking_irrelevant`: the same payload read one byte at a time and in reads of 7 -/
theorem reader_chunking_irrelevant_nonvacuous :
    let c := encrypt AEAD.toy 4 [7, 7] [1, 2, 3, 4, 5, 6, 7, 8, 9]
    let sizes₁ := List.replicate 60 1
    let sizes₂ := List.replicate 56 7
    0 < 4 + AEAD.toy.T ∧ c.length < 2^88 ∧ (∀ s ∈ sizes₁, 0 < s) ∧ (∀ s ∈ sizes₂, 0 < s) ∧
    (decrypt AEAD.toy 4 [7, 7] c).1.length + c.length + 1 < sizes₁.length ∧
    (decrypt AEAD.toy 4 [7, 7] c).1.length + c.length + 1 < sizes₂.length ∧
    decrypt AEAD.toy 4 [7, 7] c = ([1, 2, 3, 4, 5, 6, 7, 8, 9], .eof) := by
  decide

/-- non-vacuity of `writer_holdback`: after the writes `[1,2,3]`, `[]`, `[4..9]` (no close) no call has reported an
    error; (the writer then holds back one byte: `ctr = 2`, `buf = [9]`) -/
theorem writer_holdback_nonvacuous :
    let d : Dst (DstSpec.atOffset 100 true false) := { acc := [0xAA], st := false }
    let segs : List Bytes := [[1, 2, 3], [], [4, 5, 6, 7, 8, 9]]
    let res := (Writer.new d).run AEAD.toy 4 (2^88) [7, 7] (segs.map WOp.write)
    0 < 4 ∧ (∀ r ∈ res.2, r.2 = none) ∧ res.1.ctr = 2 ∧ res.1.buf = [9] := by
  decide

/-- non-vacuity of `reader_lookahead`: the reader that has read 2 bytes of the first chunk of a three-chunk payload
    (two bytes still unread, one chunk consumed) satisfies `Lookahead`; so does the reader that has hit a damaged
    second chunk and recorded the error -/
theorem reader_lookahead_nonvacuous :
    let c := encrypt AEAD.toy 4 [7, 7] [1, 2, 3, 4, 5, 6, 7, 8, 9]
    let r := ((Reader.new ⟨c, false⟩).read AEAD.toy 4 (2^88) [7, 7] 2).1
    let r' := ((Reader.new ⟨c.set 30 0xFF, false⟩).drain AEAD.toy 4 (2^88) [7, 7] [4, 4]).1
    Lookahead AEAD.toy 4 r ∧ r.unread = [3, 4] ∧ r.ctr = 1 ∧ r.taken = 16 ∧
    Lookahead AEAD.toy 4 r' ∧ r'.err = some .authFail ∧ r'.taken = 32 := by
  unfold Lookahead
  decide

/-- non-vacuity of `readfull_schedule_irrelevant`: five bytes delivered one at a time with an empty read in between and
    the last one together with EOF, and the same five in one piece together with EOF -/
theorem readfull_schedule_irrelevant_nonvacuous :
    let s : IO.Sched := ⟨[[1], [], [2], [3], [4]], [5], false⟩
    let t : IO.Sched := ⟨[], [1, 2, 3, 4, 5], false⟩
    s.flat = t.flat ∧ s.fail = t.fail ∧ s.pieces ≠ t.pieces := by
  decide

end Props.C12
end AgeModel
