/-
  C11 — recipients with different label sets cannot share a file.
-/
import Proofs.FileLabels
import Proofs.TapeLayout
import Proofs.Labels
import Proofs.ToyPrims
namespace AgeModel
namespace Props.C11
open Format Stream

/-- When Encrypt refuses a recipient list — no recipients, a failing random
    source, a recipient that fails to wrap (at any position), incompatible
    labels — not a single byte has been written to the destination: it is
    returned exactly as it was (same accepted bytes, same internal state). -/
theorem refusal_writes_nothing {S : DstSpec} (P : Prims) (tape : Bytes) (rs : List Recipient) (segs : List Nat)
    (d : Dst S) (e : EncErr) (h : encryptHeader P tape rs = .error e) :
    encryptInit P tape rs segs d = (.error e, d) := by
  unfold encryptInit; rw [h]

/-- the label check precedes the first write: if Encrypt wrote anything at all,
    every recipient had wrapped successfully and all label lists (sorted) were equal -/
theorem write_implies_compatible {S : DstSpec} (P : Prims) (tape : Bytes) (rs : List Recipient) (segs : List Nat) (d : Dst S)
    (h : (encryptInit P tape rs segs d).2.acc ≠ d.acc) :
    ∃ fk st t, encryptHeader P tape rs = .ok (fk, st, t) := by
  cases hh : encryptHeader P tape rs with
  | error e => rw [refusal_writes_nothing P tape rs segs d e hh] at h; exact absurd rfl h
  | ok v => exact ⟨v.1, v.2.1, v.2.2, rfl⟩

/-- Encrypt succeeds ⇒ every recipient — taken at its own place `rs = pre ++ r :: post` of the list — wrapped
    successfully when run at its own place of the REAL tape (after the 16 bytes of the file key and after the
    `drawSize` bytes of each recipient standing before it), and all the label lists, sorted, are one and the same
    list `l0` (a recipient that declares none counting as the empty list). The tapes are not chosen: a passphrase
    recipient's label IS a draw from the tape, and it is the draw at that recipient's own offset that is compared. -/
theorem encrypt_ok_labels_equal (P : Prims) (tape : Bytes) (rs : List Recipient) (fk : Bytes) (st : List Stanza) (t : Bytes)
    (h : encryptHeader P tape rs = .ok (fk, st, t)) :
    ∃ l0 : List Bytes, ∀ (pre : List Recipient) (r : Recipient) (post : List Recipient), rs = pre ++ r :: post →
      ∃ ss l t1, wrapOne P r fk (tape.drop (16 + (pre.map drawSize).sum)) = .ok (some (ss, l), t1) ∧ sortLabels l = l0 :=
  encryptHeader_located P tape rs fk st t h

/-- custom recipients, full characterisation: the loop succeeds iff every wrap
    succeeds and all sorted label lists are equal -/
def customOK (fk : Bytes) (l0 : List Bytes) : List Recipient → Prop
  | [] => True
  | .custom w lbl :: rs => (w fk).isSome ∧ sortLabels (lbl.getD []) = l0 ∧ customOK fk l0 rs
  | _ :: _ => False

theorem custom_loop_iff (P : Prims) (fk : Bytes) (l0 : List Bytes) :
    ∀ (rs : List Recipient), (∀ r ∈ rs, ∃ w lbl, r = .custom w lbl) → ∀ (i : Nat) (tape : Bytes) (acc : List Stanza),
      (∃ st t, wrapAll P fk rs i tape acc (some l0) = .ok (st, t)) ↔ customOK fk l0 rs := by
  intro rs
  induction rs with
  | nil => intro _ i tape acc; simp [wrapAll, customOK]
  | cons r rs ih =>
    intro hc i tape acc
    obtain ⟨w, lbl, rfl⟩ := hc r (by simp)
    have hc' : ∀ r ∈ rs, ∃ w lbl, r = Recipient.custom w lbl := fun r hr => hc r (by simp [hr])
    unfold wrapAll wrapOne
    simp only [customOK]
    cases hw : w fk with
    | none => simp
    | some ss =>
      simp only [Option.map_some, Option.isSome_some, true_and]
      by_cases hl : l0 = sortLabels (lbl.getD [])
      · simp only [hl, if_true, true_and]
        rw [← hl]
        exact ih hc' (i+1) tape (acc ++ ss)
      · simp only [hl, if_false]
        constructor
        · intro ⟨_, _, h⟩; simp at h
        · intro ⟨h, _⟩; exact absurd h.symm hl

/-- **Encryption succeeds exactly when every recipient declares the same labels.**
    For every list of custom recipients (any count ≥ 1), every tape holding at
    least the 16 bytes of the file key: Encrypt produces a header iff every
    recipient wraps successfully and every recipient's sorted label list equals
    the first one's. -/
theorem encrypt_ok_iff_labels_equal (P : Prims) (tape : Bytes) (w0 : Bytes → Option (List Stanza)) (lbl0 : Option (List Bytes))
    (rs : List Recipient) (hc : ∀ r ∈ rs, ∃ w lbl, r = .custom w lbl) (htape : 16 ≤ tape.length) :
    (∃ fk st t, encryptHeader P tape (.custom w0 lbl0 :: rs) = .ok (fk, st, t)) ↔
      ((w0 (tape.take 16)).isSome ∧ customOK (tape.take 16) (sortLabels (lbl0.getD [])) rs) := by
  unfold encryptHeader
  have hd : draw fileKeySize tape = some (tape.take 16, tape.drop 16) := by
    unfold draw; simp [fileKeySize, htape]
  simp only [List.isEmpty_cons, Bool.false_eq_true, if_false, hd]
  unfold wrapAll wrapOne
  simp only
  cases hw : w0 (tape.take 16) with
  | none => simp
  | some ss =>
    simp only [Option.map_some, Option.isSome_some, true_and]
    have := custom_loop_iff P (tape.take 16) (sortLabels (lbl0.getD [])) rs hc 1 (tape.drop 16) ([] ++ ss)
    rw [← this]
    constructor
    · intro ⟨fk, st, t, h⟩
      split at h
      · simp at h
      · rename_i st' t' hh
        exact ⟨st', t', hh⟩
    · intro ⟨st, t, h⟩
      exact ⟨tape.take 16, st, t, by rw [h]⟩

/-- **The order of labels is irrelevant.** `sort.Strings` gives the same list for
    every ordering of the same labels, so two recipients are compatible exactly
    when their label lists are permutations of each other — for duplicate-free
    lists: equal as sets. -/
theorem label_order_irrelevant (l₁ l₂ : List Bytes) : sortLabels l₁ = sortLabels l₂ ↔ l₁.Perm l₂ :=
  sortLabels_eq_iff_perm l₁ l₂

/-- the order of the RECIPIENTS is irrelevant to compatibility: `customOK` for a
    permuted recipient list against the same reference labels -/
theorem recipient_order_irrelevant (fk : Bytes) (l0 : List Bytes) (rs₁ rs₂ : List Recipient) (hp : rs₁.Perm rs₂) :
    customOK fk l0 rs₁ ↔ customOK fk l0 rs₂ := by
  induction hp with
  | nil => exact Iff.rfl
  | cons x _ ih =>
    cases x with
    | custom w l => simp only [customOK]; rw [ih]
    | x25519 _ => simp [customOK]
    | scrypt _ _ => simp [customOK]
    | sshEd _ _ => simp [customOK]
    | sshRsa _ _ => simp [customOK]
  | swap x y l =>
    cases x <;> cases y <;> simp only [customOK] <;> constructor <;> intro h <;> simp_all
  | trans _ _ ih₁ ih₂ => exact ih₁.trans ih₂

/-- "absent" and "empty" are the same label set -/
example : sortLabels ((none : Option (List Bytes)).getD []) = sortLabels ((some []).getD []) := rfl

/-! ## non-vacuity witnesses (toy primitives of Proofs/ToyPrims; custom recipient A has labels `a, b`, B has `b, a`) -/

/-- non-vacuity of `refusal_writes_nothing`: a passphrase recipient followed by an X25519 one, on a tape long enough for
    every draw: refused as incompatible -/
theorem refusal_writes_nothing_nonvacuous :
    encryptHeader Prims.toy (List.replicate 100 7)
      [Recipient.scrypt [112] 10, Recipient.x25519 (List.replicate 32 0)] = .error .incompatible := by rfl

/-- non-vacuity of `write_implies_compatible`: a destination that fails at byte offset 10 (after a partial write), the header
    written in pieces of 3, 1 and 50 bytes: Encrypt wrote ten bytes before failing -/
theorem write_implies_compatible_nonvacuous :
    (encryptInit Prims.toy (List.replicate 100 7) [Recipient.x25519 (List.replicate 32 0)] [3, 1, 50]
      ({ acc := [], st := false } : Dst (DstSpec.atOffset 10 true true))).2.acc ≠
    ({ acc := [], st := false } : Dst (DstSpec.atOffset 10 true true)).acc := by
  have h : (encryptInit Prims.toy (List.replicate 100 7) [Recipient.x25519 (List.replicate 32 0)] [3, 1, 50]
      ({ acc := [], st := false } : Dst (DstSpec.atOffset 10 true true))).2.acc =
      [97, 103, 101, 45, 101, 110, 99, 114, 121, 112] := by rfl
  rw [h]; decide

/-- non-vacuity of `encrypt_ok_labels_equal`: recipients A and B (the same labels in a different order) are accepted together -/
theorem encrypt_ok_labels_equal_nonvacuous :
    ∃ st, encryptHeader Prims.toy (List.replicate 100 7)
      [Recipient.custom (fun fk => some [{ type := [88], args := [], body := fk }]) (some [[97], [98]]),
       Recipient.custom (fun fk => some [{ type := [89], args := [[90]], body := fk ++ fk }]) (some [[98], [97]])] =
      .ok (List.replicate 16 7, st, List.replicate 84 7) := ⟨_, rfl⟩

/-- … and with recipients that DO draw from the tape: two passphrase recipients on the constant tape 7,7,7,… are accepted
    (the first runs on the tape from byte 16, the second from byte 16 + 32; both label draws are sixteen 7s) … -/
example : ∃ st, encryptHeader Prims.toy (List.replicate 100 7) [Recipient.scrypt [112] 10, Recipient.scrypt [113] 12] =
    .ok (List.replicate 16 7, st, List.replicate 20 7) := ⟨_, rfl⟩

/-- … the conclusion there, for the second recipient (`pre` = the first one, 32 bytes): it wrapped on the tape from byte 48 -/
example : ∃ l0 ss l t1, wrapOne Prims.toy (Recipient.scrypt [113] 12) (List.replicate 16 7)
    ((List.replicate 100 7 : Bytes).drop (16 + 32)) = .ok (some (ss, l), t1) ∧ sortLabels l = l0 := by
  obtain ⟨l0, h⟩ := encrypt_ok_labels_equal Prims.toy (List.replicate 100 7)
    [Recipient.scrypt [112] 10, Recipient.scrypt [113] 12] _ _ _ rfl
  obtain ⟨ss, l, t1, hw, hl⟩ := h [Recipient.scrypt [112] 10] (Recipient.scrypt [113] 12) [] rfl
  exact ⟨l0, ss, l, t1, hw, hl⟩

/-- non-vacuity of `custom_loop_iff`: the list B, A consists of custom recipients (and both sides of the equivalence hold
    for it against the sorted labels `a, b`: second conjunct) -/
theorem custom_loop_iff_nonvacuous :
    (∀ r ∈ [Recipient.custom (fun fk => some [{ type := [89], args := [[90]], body := fk ++ fk }]) (some [[98], [97]]),
            Recipient.custom (fun fk => some [{ type := [88], args := [], body := fk }]) (some [[97], [98]])],
        ∃ w lbl, r = Recipient.custom w lbl) ∧
    customOK (List.replicate 16 7) [[97], [98]]
      [Recipient.custom (fun fk => some [{ type := [89], args := [[90]], body := fk ++ fk }]) (some [[98], [97]]),
       Recipient.custom (fun fk => some [{ type := [88], args := [], body := fk }]) (some [[97], [98]])] := by
  refine ⟨?_, ⟨rfl, rfl, rfl, rfl, trivial⟩⟩
  intro r hr
  simp only [List.mem_cons, List.not_mem_nil, or_false] at hr
  rcases hr with rfl | rfl <;> exact ⟨_, _, rfl⟩

/-- non-vacuity of `encrypt_ok_iff_labels_equal`: first recipient A, then the list B, A; a 100-byte tape -/
theorem encrypt_ok_iff_labels_equal_nonvacuous :
    (∀ r ∈ [Recipient.custom (fun fk => some [{ type := [89], args := [[90]], body := fk ++ fk }]) (some [[98], [97]]),
            Recipient.custom (fun fk => some [{ type := [88], args := [], body := fk }]) (some [[97], [98]])],
        ∃ w lbl, r = Recipient.custom w lbl) ∧
    16 ≤ (List.replicate 100 7 : Bytes).length :=
  ⟨custom_loop_iff_nonvacuous.1, by decide⟩

/-- … where both sides of the equivalence hold; with a label-less recipient in the list instead, both fail -/
example : ∃ fk st t, encryptHeader Prims.toy (List.replicate 100 7)
    (Recipient.custom (fun fk => some [{ type := [88], args := [], body := fk }]) (some [[97], [98]]) ::
      [Recipient.custom (fun fk => some [{ type := [89], args := [[90]], body := fk ++ fk }]) (some [[98], [97]]),
       Recipient.custom (fun fk => some [{ type := [88], args := [], body := fk }]) (some [[97], [98]])]) = .ok (fk, st, t) :=
  (encrypt_ok_iff_labels_equal Prims.toy _ _ _ _ encrypt_ok_iff_labels_equal_nonvacuous.1 encrypt_ok_iff_labels_equal_nonvacuous.2).mpr
    ⟨rfl, custom_loop_iff_nonvacuous.2⟩
example : encryptHeader Prims.toy (List.replicate 100 7)
    [Recipient.custom (fun fk => some [{ type := [88], args := [], body := fk }]) (some [[97], [98]]),
     Recipient.custom (fun _ => some []) none] = .error .incompatible := by rfl

/-- non-vacuity of `recipient_order_irrelevant`: A, B and B, A -/
theorem recipient_order_irrelevant_nonvacuous :
    [Recipient.custom (fun fk => some [{ type := [88], args := [], body := fk }]) (some [[97], [98]]),
     Recipient.custom (fun fk => some [{ type := [89], args := [[90]], body := fk ++ fk }]) (some [[98], [97]])].Perm
    [Recipient.custom (fun fk => some [{ type := [89], args := [[90]], body := fk ++ fk }]) (some [[98], [97]]),
     Recipient.custom (fun fk => some [{ type := [88], args := [], body := fk }]) (some [[97], [98]])] := List.Perm.swap _ _ _

end Props.C11
end AgeModel
