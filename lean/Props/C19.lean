/-
  C19 — an encrypted SSH identity prompts only on a match and keeps no history.
  Property theorems only (helper lemmas live in Proofs/SshEnc.lean).

  Vocabulary (AgeModel/SshEnc.lean): `step cfg st stanzas ans` is one
  `Unwrap(stanzas)` call in state `st` with `ans` the answer the passphrase
  callback would give (`none` = it fails); `run` a history of calls on one
  identity value; `fresh` the state of a new identity; `isMatch cfg s`: stanza
  `s` carries the declared key type and the declared public key's tag;
  `passedOver cfg s`: `s` has another type, or the declared type, at least one
  argument, and another tag.
-/
import Proofs.SshEnc
namespace AgeModel
namespace Props.C19
open SshEnc

variable {R : Type}

/-- Locked identity: the callback is invoked iff some stanza carries the declared
    type and tag and every stanza before the first such one is passed over — in
    particular no EARLIER stanza of the declared type has zero arguments (the
    code returns "invalid recipient block" at such a stanza without prompting;
    a zero-argument stanza AFTER the first match is never looked at). -/
theorem prompt_iff_match (cfg : Config R) (st : State) (ss : List Stanza) (a : Option Passphrase)
    (hlocked : st.cached = none) :
    (step cfg st ss a).2.prompted = true ↔
      ∃ pre s post, ss = pre ++ s :: post ∧ (∀ s' ∈ pre, passedOver cfg s') ∧ isMatch cfg s := by
  rw [← scan_matched_iff]
  unfold step
  rw [hlocked]
  simp only
  cases hs : scanStanzas cfg ss with
  | malformed => simp
  | noMatch => simp
  | matched =>
    refine iff_of_true ?_ (by first | rfl | trivial)
    cases a with
    | none => rfl
    | some p =>
      simp only
      cases cfg.openFile p with
      | none => rfl
      | some o =>
        cases o with
        | otherType => rfl
        | invalidKey => rfl
        | key k =>
          simp only
          split <;> rfl

/-- … and without a prompt the locked identity answers "incorrect identity", or
    "invalid recipient block" exactly when the first stanza that is not passed
    over has the declared type and no argument; the state is untouched. -/
theorem no_prompt_outcomes (cfg : Config R) (st : State) (ss : List Stanza) (a : Option Passphrase)
    (hlocked : st.cached = none) (hnp : (step cfg st ss a).2.prompted = false) :
    (step cfg st ss a).1 = st ∧
    (((step cfg st ss a).2.result = .errMalformed ∧
        ∃ pre s post, ss = pre ++ s :: post ∧ (∀ s' ∈ pre, passedOver cfg s') ∧
          s.type = cfg.keyType ∧ s.args = []) ∨
     ((step cfg st ss a).2.result = .incorrectIdentity ∧ scanStanzas cfg ss = .noMatch)) := by
  have hm : scanStanzas cfg ss ≠ .matched := by
    intro h
    have := (prompt_iff_match cfg st ss a hlocked).mpr ((scan_matched_iff cfg ss).mp h)
    rw [hnp] at this; cases this
  revert hnp
  unfold step
  rw [hlocked]
  simp only
  cases hs : scanStanzas cfg ss with
  | malformed =>
    intro _
    exact ⟨rfl, Or.inl ⟨rfl, (scan_malformed_iff cfg ss).mp hs⟩⟩
  | noMatch => intro _; exact ⟨rfl, Or.inr ⟨rfl, rfl⟩⟩
  | matched => exact absurd hs hm

/-- A file addressed to the declared key — it has a stanza with the declared type
    and tag — whose stanzas of that type all have at least one argument (as every
    stanza written by an ssh-rsa / ssh-ed25519 recipient has) always makes a
    locked identity ask for the passphrase. -/
theorem prompt_for_own_file (cfg : Config R) (st : State) (ss : List Stanza) (a : Option Passphrase)
    (hlocked : st.cached = none)
    (hown : ∃ s ∈ ss, isMatch cfg s)
    (hwf : ∀ s ∈ ss, s.type = cfg.keyType → s.args ≠ []) :
    (step cfg st ss a).2.prompted = true := by
  rw [prompt_iff_match cfg st ss a hlocked, ← scan_matched_iff]
  clear hlocked
  induction ss with
  | nil => obtain ⟨s, hs, _⟩ := hown; cases hs
  | cons x xs ih =>
    by_cases ht : x.type = cfg.keyType
    · cases ha : x.args with
      | nil => exact absurd ha (hwf x (by simp) ht)
      | cons b bs =>
        by_cases hb : b = cfg.tag
        · simp [scanStanzas, ht, ha, hb]
        · simp only [scanStanzas, ht, ne_eq, not_true_eq_false, if_false, ha, hb, not_false_eq_true,
            if_true]
          apply ih
          · obtain ⟨s, hs, hm⟩ := hown
            rcases List.mem_cons.mp hs with h | h
            · subst h
              have := hm.2
              rw [ha] at this
              simp only [List.head?_cons, Option.some.injEq] at this
              exact absurd this hb
            · exact ⟨s, h, hm⟩
          · exact fun s hs => hwf s (by simp [hs])
    · simp only [scanStanzas, ne_eq, ht, not_false_eq_true, if_true]
      apply ih
      · obtain ⟨s, hs, hm⟩ := hown
        rcases List.mem_cons.mp hs with h | h
        · subst h; exact absurd hm.1 ht
        · exact ⟨s, h, hm⟩
      · exact fun s hs => hwf s (by simp [hs])

/-- A call changes the state only by unlocking: it was locked, the callback was
    asked, the passphrase it gave opens the key file to the DECLARED key pair, and
    the call returns what the plain identity returns. Hence a failing callback, a
    wrong passphrase, a key of another type and a private key that does not belong
    to the declared public key all leave the state exactly as it was. -/
theorem no_trace_after_failure (cfg : Config R) (st : State) (ss : List Stanza) (a : Option Passphrase) :
    ((step cfg st ss a).1 ≠ st →
      st.cached = none ∧ (step cfg st ss a).1 = ⟨some cfg.declared⟩ ∧
      (step cfg st ss a).2.prompted = true ∧
      (∃ p, a = some p ∧ cfg.openFile p = some (.key cfg.declared)) ∧
      (step cfg st ss a).2.result = .delegated (cfg.innerUnwrap cfg.declared ss)) ∧
    (∀ r, (step cfg st ss a).2.result = r →
      (r = .errCallback ∨ r = .errDecryptKey ∨ r = .errMismatch ∨ r = .errUnexpectedType ∨
       r = .errInvalidKey ∨ r = .errMalformed ∨ r = .incorrectIdentity) →
      (step cfg st ss a).1 = st) := by
  constructor
  · intro hne
    rcases step_state cfg st ss a with h | ⟨h1, _, h3, h4, h5, h6⟩
    · exact absurd h hne
    · exact ⟨h1, h4, h5, h3, h6⟩
  · intro r hr hcls
    rcases step_state cfg st ss a with h | ⟨_, _, _, _, _, h6⟩
    · exact h
    · rw [h6] at hr
      subst hr
      rcases hcls with h | h | h | h | h | h | h <;> cases h

/-- Whatever the history, the state is locked or holds the declared key pair; and
    it holds it only if some call of the history was prompted for, and given, a
    passphrase that opens the key file to the declared key pair: the history
    splits at a call `c` (the first that unlocks) such that the identity was still
    LOCKED when `c` arrived, `c`'s stanzas end the scan in a match — so, by
    `prompt_iff_match`, the callback was invoked in that very call, and the
    output of `c` in the trace says so —, the answer the callback gave opens the
    key file to the declared key pair, and the state right after `c` holds it. -/
theorem only_validated_cached (cfg : Config R) (h : List Call) (k : KeyId)
    (hk : (run cfg fresh h).1.cached = some k) :
    k = cfg.declared ∧
    ∃ h1 c h2, h = h1 ++ c :: h2 ∧ (run cfg fresh h1).1 = fresh ∧
      scanStanzas cfg c.1 = .matched ∧
      (∃ p, c.2 = some p ∧ cfg.openFile p = some (.key cfg.declared)) ∧
      (∃ o, (run cfg fresh h).2[h1.length]? = some o ∧ o.prompted = true ∧
        o.result = .delegated (cfg.innerUnwrap cfg.declared c.1)) ∧
      (run cfg fresh (h1 ++ [c])).1 = ⟨some cfg.declared⟩ := by
  rcases run_cached_source cfg k h fresh hk with h0 | ⟨hkd, _, hrest⟩
  · cases h0
  · exact ⟨hkd, hrest⟩

/-- History independence. After ANY history `h` on a fresh identity, a call `c`
    * either runs in the locked state and does exactly — prompt, result, new
      state — what it does on a fresh identity with the same callback answer,
    * or the identity was unlocked by a validated passphrase, and the call
      returns what the plain identity of the declared key returns, without
      prompting.
    Nothing else of the history (mismatches, wrong passphrases, failed
    callbacks, files for other keys) has any influence. -/
theorem history_independent (cfg : Config R) (h : List Call) (c : Call) :
    ((run cfg fresh h).1 = fresh ∧
      step cfg (run cfg fresh h).1 c.1 c.2 = step cfg fresh c.1 c.2) ∨
    ((run cfg fresh h).1 = ⟨some cfg.declared⟩ ∧
      step cfg (run cfg fresh h).1 c.1 c.2 =
        (⟨some cfg.declared⟩, ⟨false, .delegated (cfg.innerUnwrap cfg.declared c.1)⟩)) := by
  cases hc : (run cfg fresh h).1.cached with
  | none =>
    have : (run cfg fresh h).1 = fresh := by
      cases hs : (run cfg fresh h).1 with
      | mk cached => rw [hs] at hc; simp only at hc; subst hc; rfl
    exact Or.inl ⟨this, by rw [this]⟩
  | some k =>
    have hk := (only_validated_cached cfg h k hc).1
    subst hk
    have : (run cfg fresh h).1 = ⟨some cfg.declared⟩ := by
      cases hs : (run cfg fresh h).1 with
      | mk cached => rw [hs] at hc; simp only at hc; subst hc; rfl
    exact Or.inr ⟨this, by rw [this]; rfl⟩

/-- … and the unlocked identity agrees with a fresh one that is given the right
    passphrase on every file that makes the fresh one prompt. -/
theorem unlocked_agrees_with_fresh (cfg : Config R) (ss : List Stanza) (a : Option Passphrase) (p : Passphrase)
    (hp : cfg.openFile p = some (.key cfg.declared)) (hm : scanStanzas cfg ss = .matched) :
    (step cfg fresh ss (some p)).2.result = (step cfg ⟨some cfg.declared⟩ ss a).2.result ∧
    (step cfg fresh ss (some p)).1 = ⟨some cfg.declared⟩ := by
  simp [step, fresh, hm, hp]

/-- the whole output trace: two histories with the same calls give the same
    outputs from the same state (the model has no hidden state) — and a history
    run after another one differs from a fresh run only through `cached` -/
theorem run_append (cfg : Config R) (st : State) (h₁ h₂ : List Call) :
    run cfg st (h₁ ++ h₂) =
      ((run cfg (run cfg st h₁).1 h₂).1, (run cfg st h₁).2 ++ (run cfg (run cfg st h₁).1 h₂).2) := by
  induction h₁ generalizing st with
  | nil => simp [run]
  | cons c cs ih => simp [run, ih]

/-! ## non-vacuity -/

section examples
/-- toy plain identity: "ok" iff some stanza carries the key's number as its tag -/
def toyInner (k : KeyId) (ss : List Stanza) : Bool := ss.any fun s => s.args.head? = some [k.toUInt8]

/-- declared key 1 of type [7]; the key file holds key `stored` under passphrase [1] -/
def toyCfg (stored : KeyId) : Config Bool :=
  { keyType := [7], tag := [1], declared := 1,
    openFile := fun p => if p = [1] then some (.key stored) else none,
    innerUnwrap := toyInner }

def toDeclared : List Stanza := [⟨[9], [], []⟩, ⟨[7], [[2]], []⟩, ⟨[7], [[1]], []⟩]
def toOther : List Stanza := [⟨[7], [[2]], []⟩]
def zeroArgFirst : List Stanza := [⟨[7], [], []⟩, ⟨[7], [[1]], []⟩]

def outs (r : State × List (Out Bool)) : Option KeyId × List (Bool × Result Bool) :=
  (r.1.cached, r.2.map fun o => (o.prompted, o.result))

-- matching key file: wrong passphrase, callback failure, then the right passphrase; afterwards no prompt
example : outs (run (toyCfg 1) fresh
    [(toDeclared, some [2]), (toDeclared, none), (toOther, some [1]), (toDeclared, some [1]), (toDeclared, none),
     (toOther, none)]) =
  (some 1, [(true, .errDecryptKey), (true, .errCallback), (false, .incorrectIdentity),
            (true, .delegated true), (false, .delegated true), (false, .delegated false)]) := by decide
-- key file holding another key than declared: a mismatch every time, never cached
example : outs (run (toyCfg 2) fresh [(toDeclared, some [1]), (toDeclared, some [1]), (toOther, some [1])]) =
  (none, [(true, .errMismatch), (true, .errMismatch), (false, .incorrectIdentity)]) := by decide
-- a zero-argument stanza of the declared type before the match: error, no prompt
example : outs (run (toyCfg 1) fresh [(zeroArgFirst, some [1])]) = (none, [(false, .errMalformed)]) := by decide
example : ∃ s ∈ toDeclared, isMatch (toyCfg 1) s := ⟨⟨[7], [[1]], []⟩, by decide, by decide, by decide⟩
end examples

/-! ## non-vacuity, theorem by theorem: the hypotheses of each theorem at concrete values

  `history_independent` and `run_append` have no hypotheses. -/

/-- non-vacuity of `prompt_iff_match`: a fresh identity is locked (the `example`s
    below show both sides of the equivalence true on `toDeclared`, false on `toOther`) -/
theorem prompt_iff_match_nonvacuous : (fresh : State).cached = none := rfl

example : ∃ pre s post, toDeclared = pre ++ s :: post ∧ (∀ s' ∈ pre, passedOver (toyCfg 1) s') ∧
    isMatch (toyCfg 1) s :=
  (prompt_iff_match (toyCfg 1) fresh toDeclared (some [1]) prompt_iff_match_nonvacuous).mp (by decide)
example : ¬ ∃ pre s post, toOther = pre ++ s :: post ∧ (∀ s' ∈ pre, passedOver (toyCfg 1) s') ∧
    isMatch (toyCfg 1) s :=
  fun h => absurd ((prompt_iff_match (toyCfg 1) fresh toOther (some [1]) prompt_iff_match_nonvacuous).mpr h)
    (by decide)

/-- non-vacuity of `no_prompt_outcomes`: a fresh identity and a file for another
    key (→ "incorrect identity"); the `example` below: a zero-argument stanza of
    the declared type before the match (→ "invalid recipient block") -/
theorem no_prompt_outcomes_nonvacuous :
    (fresh : State).cached = none ∧
    (step (toyCfg 1) fresh toOther (some [1])).2.prompted = false := by decide

example : (fresh : State).cached = none ∧
    (step (toyCfg 1) fresh zeroArgFirst (some [1])).2.prompted = false := by decide
example : (step (toyCfg 1) fresh toOther (some [1])).2.result = .incorrectIdentity ∧
    (step (toyCfg 1) fresh zeroArgFirst (some [1])).2.result = .errMalformed := by decide

example : (step (toyCfg 1) fresh toOther (some [1])).1 = fresh :=
  (no_prompt_outcomes (toyCfg 1) fresh toOther (some [1]) no_prompt_outcomes_nonvacuous.1
    no_prompt_outcomes_nonvacuous.2).1

/-- non-vacuity of `prompt_for_own_file`: a fresh identity and a three-stanza
    header (another type, the declared type with another tag, the match) -/
theorem prompt_for_own_file_nonvacuous :
    (fresh : State).cached = none ∧
    (∃ s ∈ toDeclared, isMatch (toyCfg 1) s) ∧
    (∀ s ∈ toDeclared, s.type = (toyCfg 1).keyType → s.args ≠ []) :=
  ⟨rfl, ⟨⟨[7], [[1]], []⟩, by decide, by decide, by decide⟩, by decide⟩

example : (step (toyCfg 1) fresh toDeclared none).2.prompted = true :=
  prompt_for_own_file (toyCfg 1) fresh toDeclared none prompt_for_own_file_nonvacuous.1
    prompt_for_own_file_nonvacuous.2.1 prompt_for_own_file_nonvacuous.2.2

/-- non-vacuity of `no_trace_after_failure` (no outer hypotheses; the premises of
    its two parts): the right passphrase changes the state of a fresh identity; a
    key file holding another key ends in the failure class "mismatch" -/
theorem no_trace_after_failure_nonvacuous :
    (step (toyCfg 1) fresh toDeclared (some [1])).1 ≠ fresh ∧
    ((step (toyCfg 2) fresh toDeclared (some [1])).2.result = .errMismatch ∧
     ((Result.errMismatch : Result Bool) = .errCallback ∨ (Result.errMismatch : Result Bool) = .errDecryptKey ∨
      (Result.errMismatch : Result Bool) = .errMismatch ∨ (Result.errMismatch : Result Bool) = .errUnexpectedType ∨
      (Result.errMismatch : Result Bool) = .errInvalidKey ∨ (Result.errMismatch : Result Bool) = .errMalformed ∨
      (Result.errMismatch : Result Bool) = .incorrectIdentity)) := by decide

example : (step (toyCfg 1) fresh toDeclared (some [1])).1 = ⟨some (toyCfg 1).declared⟩ :=
  ((no_trace_after_failure (toyCfg 1) fresh toDeclared (some [1])).1 no_trace_after_failure_nonvacuous.1).2.1
example : (step (toyCfg 2) fresh toDeclared (some [1])).1 = fresh :=
  (no_trace_after_failure (toyCfg 2) fresh toDeclared (some [1])).2 .errMismatch
    no_trace_after_failure_nonvacuous.2.1 no_trace_after_failure_nonvacuous.2.2

/-- non-vacuity of `only_validated_cached`: a wrong passphrase, then the right one -/
theorem only_validated_cached_nonvacuous :
    (run (toyCfg 1) fresh [(toDeclared, some [2]), (toDeclared, some [1])]).1.cached = some 1 := by decide

example : ∃ h1 c h2, [(toDeclared, some [2]), (toDeclared, some ([1] : Passphrase))] = h1 ++ c :: h2 ∧
    (run (toyCfg 1) fresh h1).1 = fresh ∧ scanStanzas (toyCfg 1) c.1 = .matched ∧
    (∃ p, c.2 = some p ∧ (toyCfg 1).openFile p = some (.key (toyCfg 1).declared)) ∧
    (∃ o, (run (toyCfg 1) fresh [(toDeclared, some [2]), (toDeclared, some [1])]).2[h1.length]? = some o ∧
      o.prompted = true ∧ o.result = .delegated ((toyCfg 1).innerUnwrap (toyCfg 1).declared c.1)) ∧
    (run (toyCfg 1) fresh (h1 ++ [c])).1 = ⟨some (toyCfg 1).declared⟩ :=
  (only_validated_cached (toyCfg 1) _ 1 only_validated_cached_nonvacuous).2
/-- the split the theorem speaks of, at these values: still locked after the wrong
    passphrase, unlocked by the second call, whose output says "prompted" -/
example : (run (toyCfg 1) fresh [(toDeclared, some [2])]).1 = fresh ∧
    outs (run (toyCfg 1) fresh [(toDeclared, some [2]), (toDeclared, some [1])]) =
      (some 1, [(true, .errDecryptKey), (true, .delegated true)]) := by decide

/-- both alternatives of `history_independent` (which has no hypotheses) occur -/
example : (run (toyCfg 1) fresh [(toDeclared, some [2]), (toOther, none)]).1 = fresh ∧
    (run (toyCfg 1) fresh [(toDeclared, some [2]), (toDeclared, some [1])]).1 = ⟨some (toyCfg 1).declared⟩ := by
  decide

/-- non-vacuity of `unlocked_agrees_with_fresh`: passphrase `[1]` opens the toy key
    file to the declared key and `toDeclared` makes the scan end in a match -/
theorem unlocked_agrees_with_fresh_nonvacuous :
    (toyCfg 1).openFile [1] = some (.key (toyCfg 1).declared) ∧
    scanStanzas (toyCfg 1) toDeclared = .matched := by decide

example : (step (toyCfg 1) fresh toDeclared (some [1])).2.result = .delegated true :=
  ((unlocked_agrees_with_fresh (toyCfg 1) toDeclared none [1] unlocked_agrees_with_fresh_nonvacuous.1
    unlocked_agrees_with_fresh_nonvacuous.2).1).trans (by decide)

end Props.C19
end AgeModel
