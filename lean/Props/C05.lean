/-
  C05 — files are byte-exact age v1.
  What is proved here: the Impl layer (order of draws, header marshalling in
  arbitrary write pieces, nonce, Writer machine under any write segmentation)
  produces exactly the Spec-layer byte string `specFile`; `specFile` decrypts
  (C01). That `specFile` is the age v1 standard, and that the Go code is the Impl
  layer, is decided by the byte-for-byte correspondence run (translation
  validation) and the constant ties in Tie/C05.
-/
import Proofs.FileWrite
import Props.C01
namespace AgeModel
namespace Props.C05
open Format Stream

/-- **Impl ≡ Spec.** For every tape, recipient list, split of the header into
    write calls, write segmentation of the plaintext and destination that does not
    fail: after Encrypt, the Writes and Close, the destination holds exactly what
    it held before followed by `encryptFile` = `specFile` of the drawn values. -/
theorem impl_encrypt_eq_spec {S : DstSpec} (hS : S.NeverFails) (P : Prims) (C L : Nat) (hC : 0 < C)
    (tape : Bytes) (rs : List Recipient) (hdrSegs : List Nat) (d : Dst S) (segs : List Bytes) (file : Bytes)
    (hlen : segs.flatten.length < (L - 1) * C)
    (henc : encryptFile P C tape rs segs.flatten = .ok file) :
    ∃ w k t' d2, encryptInit P tape rs hdrSegs d = (.ok (w, k, t'), d2) ∧
      (w.run P.aead C L k (Props.C12.opsOf segs)).1.dst.acc = d.acc ++ file ∧
      (∀ r ∈ (w.run P.aead C L k (Props.C12.opsOf segs)).2, r.2 = none) := by
  unfold encryptFile at henc
  cases hh : encryptHeader P tape rs with
  | error e => simp [hh] at henc
  | ok v =>
    obtain ⟨fk, stanzas, t⟩ := v
    simp only [hh] at henc
    cases hd : draw streamNonceSize t with
    | none => simp [hd] at henc
    | some x =>
      obtain ⟨nonce, t'⟩ := x
      simp only [hd, Except.ok.injEq] at henc
      subst henc
      obtain ⟨w, d2, hinit⟩ := encryptInit_neverFails hS P tape rs hdrSegs d fk stanzas t nonce t' hh hd
      obtain ⟨fk', st', t0, nonce', hh', hd', hacc, hk, hw⟩ := encryptInit_ok P tape rs hdrSegs d d2 w _ t' hinit
      rw [hh] at hh'
      simp only [Except.ok.injEq, Prod.mk.injEq] at hh'
      obtain ⟨rfl, rfl, rfl⟩ := hh'
      rw [hd] at hd'
      simp only [Option.some.injEq, Prod.mk.injEq, and_true] at hd'
      subst hd'
      subst hw
      have hall := Props.C12.writer_never_fails hS P.aead C L hC (streamKey P fk nonce) d2 segs hlen
      have href := Props.C12.writer_refines_spec P.aead C L hC (streamKey P fk nonce) d2 segs hall
      refine ⟨_, _, _, _, hinit, ?_, hall⟩
      rw [href.1, hacc]
      simp [specFile]

/-- the four stanza constructions, spelled out (each is the definition unfolded;
    listed here so that a reader can compare them with the age specification) -/
theorem x25519_stanza_spec (P : Prims) (recipientPub eph fk ourPub shared : Bytes)
    (h1 : P.x25519 eph P.basepoint = some ourPub) (h2 : P.x25519 eph recipientPub = some shared) :
    wrapX25519 P recipientPub eph fk = some
      { type := tX25519, args := [B64.encRaw ourPub],
        body := P.aead.sealF (P.hkdf shared (ourPub ++ recipientPub) x25519Label 32) zeroNonce fk } := by
  simp [wrapX25519, h1, h2, Prims.wrapSeal]

theorem scrypt_stanza_spec (P : Prims) (pw salt fk : Bytes) (logN : Nat) :
    wrapScrypt P pw logN salt fk =
      { type := tScrypt, args := [B64.encRaw salt, natToDec logN],
        body := P.aead.sealF (P.scrypt pw (scryptLabel ++ salt) logN) zeroNonce fk } := rfl

theorem sshrsa_stanza_spec (P : Prims) (wire pub seed fk c : Bytes) (h : P.oaepEnc pub seed fk oaepLabel = some c) :
    wrapSshRsa P wire pub seed fk = some
      { type := tSshRsa, args := [B64.encRaw ((P.sha256 wire).take 4)], body := c } := by
  simp [wrapSshRsa, h, sshTag]

theorem sshed_stanza_spec (P : Prims) (wire recipientMont eph fk ourPub shared : Bytes)
    (h1 : P.x25519 eph P.basepoint = some ourPub) (h2 : P.x25519 eph recipientMont = some shared) :
    wrapSshEd P wire recipientMont eph fk = some
      { type := tSshEd, args := [B64.encRaw ((P.sha256 wire).take 4), B64.encRaw ourPub],
        body := P.aead.sealF
          (P.hkdf ((P.x25519 (P.hkdf [] wire ed25519Label 32) shared).getD []) (ourPub ++ recipientMont) ed25519Label 32)
          zeroNonce fk } := by
  simp [wrapSshEd, h1, h2, Prims.wrapSeal, sshTag]

/-- the file layout: header (intro, stanzas, `--- ` MAC line) ++ 16-byte nonce ++ STREAM payload
    under HKDF(file key, nonce, "payload"), MAC = HMAC(HKDF(file key, "", "header"), header up to `---`) -/
theorem file_layout (P : Prims) (C : Nat) (fk : Bytes) (stanzas : List Stanza) (nonce pt : Bytes) :
    specFile P C fk stanzas nonce pt =
      Format.intro ++ marshalStanzas stanzas ++ footerPrefix ++ [sp] ++
        B64.encRaw (P.hmac (P.hkdf fk [] headerInfo 32) (Format.intro ++ marshalStanzas stanzas ++ footerPrefix)) ++ [nl] ++
        nonce ++ Stream.encrypt P.aead C (P.hkdf fk nonce payloadInfo 32) pt := by
  simp [specFile, marshal, marshalNoMAC, headerMAC, streamKey]

/-- non-vacuity of `impl_encrypt_eq_spec`: Encrypt accepts a concrete input (toy primitives, chunk size 4) -/
example : ∃ file, encryptFile Prims.toy 4 (List.replicate 100 7) [Recipient.x25519 (List.replicate 32 0)] [[1, 2], [3, 4, 5]].flatten = .ok file :=
  let ⟨f, _, _, h, _, _⟩ := Props.C01.nonvacuous_roundtrip
  ⟨f, h⟩

/-! ## non-vacuity witnesses (toy primitives of Proofs/ToyPrims) -/

/-- non-vacuity of `impl_encrypt_eq_spec`: the never-failing destination, chunk size 4, counter limit 2^88, a 100-byte tape,
    one X25519 recipient and the 5-byte plaintext `[1,2] ++ [3,4,5]` written in two calls (two chunks) -/
theorem impl_encrypt_eq_spec_nonvacuous :
    DstSpec.perfect.NeverFails ∧ 0 < 4 ∧
    ([[1, 2], [3, 4, 5]] : List Bytes).flatten.length < (2 ^ 88 - 1) * 4 ∧
    ∃ file, encryptFile Prims.toy 4 (List.replicate 100 7) [Recipient.x25519 (List.replicate 32 0)]
      ([[1, 2], [3, 4, 5]] : List Bytes).flatten = .ok file :=
  ⟨DstSpec.perfect_neverFails, by decide, by decide,
   let ⟨f, _, _, h, _, _⟩ := Props.C01.nonvacuous_roundtrip; ⟨f, h⟩⟩

/-- `impl_encrypt_eq_spec` applied to that witness (header written in pieces of 3, 1 and 50 bytes): its conclusion specialises -/
example : ∃ file w k t' d2,
    encryptInit Prims.toy (List.replicate 100 7) [Recipient.x25519 (List.replicate 32 0)] [3, 1, 50]
      ({ acc := [9], st := () } : Dst DstSpec.perfect) = (.ok (w, k, t'), d2) ∧
    (w.run Prims.toy.aead 4 (2 ^ 88) k (Props.C12.opsOf [[1, 2], [3, 4, 5]])).1.dst.acc = [9] ++ file := by
  obtain ⟨hS, hC, hlen, file, henc⟩ := impl_encrypt_eq_spec_nonvacuous
  obtain ⟨w, k, t', d2, h1, h2, _⟩ := impl_encrypt_eq_spec hS Prims.toy 4 (2 ^ 88) hC (List.replicate 100 7)
    [Recipient.x25519 (List.replicate 32 0)] [3, 1, 50] ({ acc := [9], st := () } : Dst DstSpec.perfect) [[1, 2], [3, 4, 5]] file hlen henc
  exact ⟨file, w, k, t', d2, h1, h2⟩

/-- non-vacuity of `x25519_stanza_spec`: ephemeral secret 7…7, recipient key 5…5; both scalar multiplications succeed -/
theorem x25519_stanza_spec_nonvacuous :
    Prims.toy.x25519 (List.replicate 32 7) Prims.toy.basepoint = some (List.replicate 32 0) ∧
    Prims.toy.x25519 (List.replicate 32 7) (List.replicate 32 5) = some (List.replicate 32 0) := ⟨rfl, rfl⟩

/-- non-vacuity of `sshrsa_stanza_spec`: the toy OAEP encrypts a 16-byte file key -/
theorem sshrsa_stanza_spec_nonvacuous :
    Prims.toy.oaepEnc [1, 2, 3] (List.replicate 32 7) (List.replicate 16 4) oaepLabel = some (List.replicate 16 4) := rfl

/-- non-vacuity of `sshed_stanza_spec`: same values as `x25519_stanza_spec_nonvacuous` (the hypotheses are the same two equations) -/
theorem sshed_stanza_spec_nonvacuous :
    Prims.toy.x25519 (List.replicate 32 7) Prims.toy.basepoint = some (List.replicate 32 0) ∧
    Prims.toy.x25519 (List.replicate 32 7) (List.replicate 32 5) = some (List.replicate 32 0) := ⟨rfl, rfl⟩


end Props.C05
end AgeModel
