/-
  C16 — the plugin client follows the protocol for every plugin behaviour.
  Property theorems only (helper lemmas live in Proofs/Plugin*.lean).

  Every theorem quantifies over ALL conversations (any length), all three UI
  callbacks in every combination (absent / answering / failing, with an
  arbitrary UI state `σ` so that a callback may answer differently each time),
  every base64 decoder `dec`, and both state machines:

    R c = Recipient.WrapWithLabels   I c = Identity.Unwrap      on conversation c

  "The client is listening after `pre`" (`Listening (R ⟨pre, e₀⟩) e₀`) says that
  the client read all of `pre` and asked for more: its run over `pre` alone
  ends with the read error. It is how "the message `m` is reached" is expressed
  without mentioning the model's internal state.

  client_total: `recipientClient` and `identityClient` are total functions,
  defined by structural recursion on the list of plugin messages (`Plugin.run`),
  so the loop terminates on every finite plugin output — by construction; a
  live plugin that neither writes nor exits is a hang of the plugin and is out
  of scope. `eof_is_error_*` below is the content: the stream ending at any
  point is an error result, never a success and never "incorrect identity".
-/
import Proofs.PluginSpec
namespace AgeModel
namespace Props.C16
open Plugin
set_option linter.unusedSimpArgs false

/-- the client consumed the whole conversation and is waiting for the next stanza -/
def Listening {σ α : Type} (o : Outcome σ α) (e : End) : Prop := o.result = .error (.ended e)

def noDone (l : List Stanza) : Prop := ∀ m ∈ l, m.type ≠ "done"

/-- the first argument (if any) is not something `strconv.Atoi` maps to 0 -/
def badIndex (m : Stanza) : Prop := ∀ idx rest, m.args = idx :: rest → atoi idx ≠ some 0

/-- a string `ReadStanza` accepts as type or argument -/
def validString (s : String) : Prop := s ≠ "" ∧ ∀ c ∈ s.toList, 33 ≤ c.toNat ∧ c.toNat ≤ 126

def validStrings (s : Stanza) : Prop := validString s.type ∧ ∀ a ∈ s.args, validString a

section
variable {σ : Type} (ui : UI σ) (dec : String → Option Bytes) (st : σ)
variable (idm : Bool) (enc : String) (fk : Bytes) (sts : List Stanza) (g : String)

local notation "R" => recipientClient ui dec st idm enc fk g
local notation "I" => identityClient ui dec st enc sts g

/-! ## what the client sends first -/

/-- recipient: add-recipient (add-identity when built from an identity) with the
    encoding, one grease stanza, wrap-file-key whose body is the file key,
    extension-labels, done — whatever the plugin goes on to do -/
theorem phase1_wellformed_recipient (c : Conv) :
    (R c).phase1 =
      [⟨if idm then "add-identity" else "add-recipient", [enc], []⟩, ⟨g, [], []⟩,
       ⟨"wrap-file-key", [], fk⟩, ⟨"extension-labels", [], []⟩, ⟨"done", [], []⟩] := rfl

/-- identity: add-identity with the encoding, one grease stanza, one
    `recipient-stanza 0 <type> <args…>` with the same body per stanza, in order, done -/
theorem phase1_wellformed_identity (c : Conv) :
    (I c).phase1 =
      [⟨"add-identity", [enc], []⟩, ⟨g, [], []⟩] ++
      sts.map (fun s => ⟨"recipient-stanza", "0" :: s.type :: s.args, s.body⟩) ++
      [⟨"done", [], []⟩] := by
  simp [identityClient, identityPhase1, doneS]

/-- every type and argument written in phase 1 is a string the stanza grammar
    allows, provided the caller's strings are -/
theorem phase1_strings_valid (c : Conv) (henc : validString enc) (hg : validString g)
    (hsts : ∀ s ∈ sts, validStrings s) :
    (∀ p ∈ (R c).phase1, validStrings p) ∧ (∀ p ∈ (I c).phase1, validStrings p) := by
  have lit : ∀ t : String, t ∈ ["add-identity", "add-recipient", "wrap-file-key", "extension-labels",
      "done", "recipient-stanza", "0"] → validString t := by
    intro t ht
    simp only [List.mem_cons, List.not_mem_nil, or_false] at ht
    rcases ht with h | h | h | h | h | h | h <;> (subst h; exact ⟨by decide, by decide⟩)
  constructor
  · intro p hp
    simp only [recipientClient, recipientPhase1, doneS, List.mem_cons, List.not_mem_nil, or_false] at hp
    rcases hp with h | h | h | h | h <;> subst h
    · refine ⟨?_, by simpa using henc⟩
      cases idm <;> simp <;> apply lit <;> simp
    · exact ⟨hg, by simp⟩
    · exact ⟨lit _ (by simp), by simp⟩
    · exact ⟨lit _ (by simp), by simp⟩
    · exact ⟨lit _ (by simp), by simp⟩
  · intro p hp
    simp only [identityClient, identityPhase1, doneS, List.mem_cons, List.mem_append, List.mem_map,
      List.not_mem_nil, or_false] at hp
    rcases hp with h | h | ⟨s, hs, h⟩ | h <;> subst h
    · exact ⟨lit _ (by simp), by simpa using henc⟩
    · exact ⟨hg, by simp⟩
    · refine ⟨lit _ (by simp), ?_⟩
      intro a ha
      simp only [List.mem_cons] at ha
      rcases ha with h | h | h
      · subst h; exact lit _ (by simp)
      · subst h; exact (hsts s hs).1
      · exact (hsts s hs).2 a h
    · exact ⟨lit _ (by simp), by simp⟩

/-! ## only file index 0 is accepted -/

/-- A `recipient-stanza` whose index argument is missing or is not a decimal
    numeral of value 0 (`strconv.Atoi`): after any messages that do not include
    `done` the wrap fails hard; and if the client was listening when it arrived,
    the result is a protocol error and the message is not acknowledged. -/
theorem index_must_be_zero_recipient (pre : List Stanza) (m : Stanza) (post : List Stanza) (e : End)
    (hm : m.type = "recipient-stanza") (hi : badIndex m) :
    (noDone pre → Hard (R ⟨pre ++ m :: post, e⟩).result) ∧
    (∀ e₀, Listening (R ⟨pre, e₀⟩) e₀ →
      (R ⟨pre ++ m :: post, e⟩).result = .error .protocol ∧
      (R ⟨pre ++ m :: post, e⟩).replies = (R ⟨pre, e₀⟩).replies) := by
  have h := run_fatal_message (recipientStep_noEndHalt ui dec) (fun _ => True) (fun _ _ _ _ _ _ => trivial)
    (fun m => m.type ≠ "done") (fun s m rs res hq hs => recipientStep_hardHalt ui dec s m rs res hq hs)
    ⟨st, [], none⟩ trivial pre m post e [] (.error .protocol) hard_protocol
    (fun sx _ => recipientStep_badIndex ui dec sx m hm hi)
  refine ⟨h.1, fun e₀ hl => ?_⟩
  have h2 := h.2 e₀ hl
  simp only [recipientClient, h2, List.append_nil, and_self]

/-- the same for `file-key`; in particular such a message never makes the
    client report "incorrect identity" -/
theorem index_must_be_zero_identity (pre : List Stanza) (m : Stanza) (post : List Stanza) (e : End)
    (hm : m.type = "file-key") (hi : badIndex m) :
    (noDone pre → Hard (I ⟨pre ++ m :: post, e⟩).result) ∧
    (∀ e₀, Listening (I ⟨pre, e₀⟩) e₀ →
      (I ⟨pre ++ m :: post, e⟩).result = .error .protocol ∧
      (I ⟨pre ++ m :: post, e⟩).replies = (I ⟨pre, e₀⟩).replies) := by
  have h := run_fatal_message (identityStep_noEndHalt ui dec) (fun _ => True) (fun _ _ _ _ _ _ => trivial)
    (fun m => m.type ≠ "done") (fun s m rs res hq hs => identityStep_hardHalt ui dec s m rs res hq hs)
    ⟨st, false, []⟩ trivial pre m post e [] (.error .protocol) hard_protocol
    (fun sx _ => identityStep_badIndex ui dec sx m hm hi)
  refine ⟨h.1, fun e₀ hl => ?_⟩
  have h2 := h.2 e₀ hl
  simp only [identityClient, h2, List.append_nil, and_self]

/-- index 0 in all its spellings is accepted: the message is acknowledged with
    `ok` and the client goes on listening -/
theorem index_zero_accepted (pre : List Stanza) (m : Stanza) (e₀ e : End) (idx : String)
    (hi : atoi idx = some 0) :
    (∀ ty as, m.type = "recipient-stanza" → m.args = idx :: ty :: as → Listening (R ⟨pre, e₀⟩) e₀ →
      Listening (R ⟨pre ++ [m], e⟩) e ∧ (R ⟨pre ++ [m], e⟩).replies = (R ⟨pre, e₀⟩).replies ++ [okS]) ∧
    (m.type = "file-key" → m.args = [idx] → Listening (I ⟨pre, e₀⟩) e₀ → (∀ x ∈ pre, x.type ≠ "file-key") →
      Listening (I ⟨pre ++ [m], e⟩) e ∧ (I ⟨pre ++ [m], e⟩).replies = (I ⟨pre, e₀⟩).replies ++ [okS]) := by
  constructor
  · intro ty as hm ha hl
    have := run_next_when_listening (recipientStep_noEndHalt ui dec) ⟨st, [], none⟩ pre e₀ hl m e _ _
      (recipientStep_accept ui dec _ m hm idx ty as ha hi)
    simp only [Listening, recipientClient, this, and_self]
  · intro hm ha hl hnone
    have hgot : (run (identityStep ui dec) ⟨st, false, []⟩ pre e₀).state.got = false := by
      refine run_state_inv (fun s : IState σ => s.got = false) (fun x => x.type ≠ "file-key") ?_ _ rfl pre ?_ e₀
      · intro s x s' r hx hs h
        rw [(identityStep_key_other ui dec s s' x r hx h).1]; exact hs
      · exact hnone
    have := run_next_when_listening (identityStep_noEndHalt ui dec) ⟨st, false, []⟩ pre e₀ hl m e _ _
      (identityStep_accept ui dec _ m hm idx ha hi hgot)
    simp only [Listening, identityClient, this, and_self]

/-! ## a repeated file key or labels message is an error -/

/-- Two `file-key` messages — whatever their arguments and bodies, in
    particular also when the first one had an empty body: with no `done` before
    the second, the unwrap fails hard (never "incorrect identity"); if the client
    was listening when the second arrived, it is a protocol error and the second
    is not acknowledged. -/
theorem duplicate_filekey_error (pre : List Stanza) (m1 : Stanza) (mid : List Stanza) (m2 : Stanza)
    (post : List Stanza) (e : End) (h1 : m1.type = "file-key") (h2 : m2.type = "file-key") :
    (noDone pre → noDone mid → Hard (I ⟨pre ++ m1 :: (mid ++ m2 :: post), e⟩).result) ∧
    (∀ e₀, Listening (I ⟨pre ++ m1 :: mid, e₀⟩) e₀ →
      (I ⟨pre ++ m1 :: (mid ++ m2 :: post), e⟩).result = .error .protocol ∧
      (I ⟨pre ++ m1 :: (mid ++ m2 :: post), e⟩).replies = (I ⟨pre ++ m1 :: mid, e₀⟩).replies) := by
  have h := run_second_message (identityStep_noEndHalt ui dec) (fun s : IState σ => s.got = true)
    (fun s m s' r hg hs => identityStep_got_inv ui dec s s' m r hg hs)
    (fun m => m.type ≠ "done") (fun s m rs res hq hs => identityStep_hardHalt ui dec s m rs res hq hs)
    ⟨st, false, []⟩ pre m1 mid m2 post e
    (fun sx s' r hs => (identityStep_filekey_next ui dec sx s' m1 r h1 hs).2.1)
    (by rw [h1]; decide) [] (.error .protocol) hard_protocol
    (fun sx hg => identityStep_dup ui dec sx m2 h2 hg)
  refine ⟨h.1, fun e₀ hl => ?_⟩
  have h2 := h.2 e₀ hl
  simp only [identityClient, h2, List.append_nil, and_self]

/-- Two `labels` messages, also when the first one had no arguments. -/
theorem duplicate_labels_error (pre : List Stanza) (m1 : Stanza) (mid : List Stanza) (m2 : Stanza)
    (post : List Stanza) (e : End) (h1 : m1.type = "labels") (h2 : m2.type = "labels") :
    (noDone pre → noDone mid → Hard (R ⟨pre ++ m1 :: (mid ++ m2 :: post), e⟩).result) ∧
    (∀ e₀, Listening (R ⟨pre ++ m1 :: mid, e₀⟩) e₀ →
      (R ⟨pre ++ m1 :: (mid ++ m2 :: post), e⟩).result = .error .protocol ∧
      (R ⟨pre ++ m1 :: (mid ++ m2 :: post), e⟩).replies = (R ⟨pre ++ m1 :: mid, e₀⟩).replies) := by
  have h := run_second_message (recipientStep_noEndHalt ui dec) (fun s : RState σ => s.labels ≠ none)
    (fun s m s' r hg hs => recipientStep_labels_inv ui dec s s' m r hg hs)
    (fun m => m.type ≠ "done") (fun s m rs res hq hs => recipientStep_hardHalt ui dec s m rs res hq hs)
    ⟨st, [], none⟩ pre m1 mid m2 post e
    (fun sx s' r hs => by rw [(recipientStep_labels_next ui dec sx s' m1 r h1 hs).2.1]; simp)
    (by rw [h1]; decide) [] (.error .protocol) hard_protocol
    (fun sx hg => recipientStep_labels_dup ui dec sx m2 h2 hg)
  refine ⟨h.1, fun e₀ hl => ?_⟩
  have h2 := h.2 e₀ hl
  simp only [recipientClient, h2, List.append_nil, and_self]

/-! ## an error message aborts with the plugin's text after being acknowledged -/

theorem error_acked_then_abort_recipient (pre : List Stanza) (m : Stanza) (post : List Stanza) (e₀ e : End)
    (hm : m.type = "error") (hl : Listening (R ⟨pre, e₀⟩) e₀) :
    (R ⟨pre ++ m :: post, e⟩).replies = (R ⟨pre, e₀⟩).replies ++ [okS] ∧
    (R ⟨pre ++ m :: post, e⟩).result = .error (.pluginError m.body) := by
  have := run_halt_when_listening (recipientStep_noEndHalt ui dec) ⟨st, [], none⟩ pre e₀ hl m post e _ _
    (recipientStep_error ui dec _ m hm)
  simp only [recipientClient, this, and_self]

theorem error_acked_then_abort_identity (pre : List Stanza) (m : Stanza) (post : List Stanza) (e₀ e : End)
    (hm : m.type = "error") (hl : Listening (I ⟨pre, e₀⟩) e₀) :
    (I ⟨pre ++ m :: post, e⟩).replies = (I ⟨pre, e₀⟩).replies ++ [okS] ∧
    (I ⟨pre ++ m :: post, e⟩).result = .error (.pluginError m.body) := by
  have := run_halt_when_listening (identityStep_noEndHalt ui dec) ⟨st, false, []⟩ pre e₀ hl m post e _ _
    (identityStep_error ui dec _ m hm)
  simp only [identityClient, this, and_self]

/-- conversely, the plugin's text is returned only because an `error` message
    with that body was received, and the last thing the client wrote is `ok`:
    the conversation splits at an `error` message with body `t` that the client
    reached while still listening (so not a later, unread one), and what the
    client wrote is what it had written before that message, then `ok` -/
theorem plugin_error_only_from_error (c : Conv) (t : Bytes) :
    ((R c).result = .error (.pluginError t) →
      ∃ pre m post, c.msgs = pre ++ m :: post ∧ m.type = "error" ∧ m.body = t ∧
        ∀ e₀, Listening (R ⟨pre, e₀⟩) e₀ ∧ (R c).replies = (R ⟨pre, e₀⟩).replies ++ [okS]) ∧
    ((I c).result = .error (.pluginError t) →
      ∃ pre m post, c.msgs = pre ++ m :: post ∧ m.type = "error" ∧ m.body = t ∧
        ∀ e₀, Listening (I ⟨pre, e₀⟩) e₀ ∧ (I c).replies = (I ⟨pre, e₀⟩).replies ++ [okS]) := by
  constructor
  · exact run_pluginError (fun s m rs res h => by
      rcases recipientStep_halt_replies ui dec s m rs res h with ⟨_, h⟩ | h
      · exact Or.inl h
      · exact Or.inr h) _ c.msgs c.fin t
  · exact run_pluginError (fun s m rs res h => by
      rcases identityStep_halt_replies ui dec s m rs res h with ⟨_, h⟩ | h
      · exact Or.inl h
      · exact Or.inr h) _ c.msgs c.fin t

/-! ## unknown commands are answered `unsupported` and otherwise ignored -/

/-- Deleting every message whose type the recipient machine does not know
    deletes exactly the `unsupported` replies: all other replies, the result and
    the UI state are unchanged. -/
theorem unknown_unsupported_and_ignored_recipient (msgs : List Stanza) (e : End) :
    let known := msgs.filter (fun m => decide (m.type ∈ recipientCommands))
    (R ⟨known, e⟩).replies = (R ⟨msgs, e⟩).replies.filter (fun r => decide (r ≠ unsupportedS)) ∧
    (R ⟨known, e⟩).result = (R ⟨msgs, e⟩).result ∧
    (R ⟨known, e⟩).ui = (R ⟨msgs, e⟩).ui := by
  have h := run_filter (step := recipientStep ui dec) (fun m => decide (m.type ∈ recipientCommands)) unsupportedS
    (fun s m hk => recipientStep_unknown ui dec s m (by simpa using hk))
    (fun s m s' r hk hs => recipientStep_known_reply ui dec s s' m r (by simpa using hk) hs)
    (fun s m rs res hs => recipientStep_halt_no_unsupported ui dec s m rs res hs)
    ⟨st, [], none⟩ msgs e
  exact ⟨h.1, h.2.1, by simp only [recipientClient, h.2.2]⟩

theorem unknown_unsupported_and_ignored_identity (msgs : List Stanza) (e : End) :
    let known := msgs.filter (fun m => decide (m.type ∈ identityCommands))
    (I ⟨known, e⟩).replies = (I ⟨msgs, e⟩).replies.filter (fun r => decide (r ≠ unsupportedS)) ∧
    (I ⟨known, e⟩).result = (I ⟨msgs, e⟩).result ∧
    (I ⟨known, e⟩).ui = (I ⟨msgs, e⟩).ui := by
  have h := run_filter (step := identityStep ui dec) (fun m => decide (m.type ∈ identityCommands)) unsupportedS
    (fun s m hk => identityStep_unknown ui dec s m (by simpa using hk))
    (fun s m s' r hk hs => identityStep_known_reply ui dec s s' m r (by simpa using hk) hs)
    (fun s m rs res hs => identityStep_halt_no_unsupported ui dec s m rs res hs)
    ⟨st, false, []⟩ msgs e
  exact ⟨h.1, h.2.1, by simp only [identityClient, h.2.2]⟩

/-- an unknown command that reaches a listening client is answered with exactly
    `unsupported`; the client goes on listening and no callback is invoked -/
theorem unknown_answered_unsupported (pre : List Stanza) (m : Stanza) (e₀ e : End) :
    (m.type ∉ recipientCommands → Listening (R ⟨pre, e₀⟩) e₀ →
      Listening (R ⟨pre ++ [m], e⟩) e ∧
      (R ⟨pre ++ [m], e⟩).replies = (R ⟨pre, e₀⟩).replies ++ [unsupportedS] ∧
      (R ⟨pre ++ [m], e⟩).ui = (R ⟨pre, e₀⟩).ui) ∧
    (m.type ∉ identityCommands → Listening (I ⟨pre, e₀⟩) e₀ →
      Listening (I ⟨pre ++ [m], e⟩) e ∧
      (I ⟨pre ++ [m], e⟩).replies = (I ⟨pre, e₀⟩).replies ++ [unsupportedS] ∧
      (I ⟨pre ++ [m], e⟩).ui = (I ⟨pre, e₀⟩).ui) := by
  constructor
  · intro hm hl
    have := run_next_when_listening (recipientStep_noEndHalt ui dec) ⟨st, [], none⟩ pre e₀ hl m e _ _
      (recipientStep_unknown ui dec _ m hm)
    simp only [Listening, recipientClient, this, and_self]
  · intro hm hl
    have := run_next_when_listening (identityStep_noEndHalt ui dec) ⟨st, false, []⟩ pre e₀ hl m e _ _
      (identityStep_unknown ui dec _ m hm)
    simp only [Listening, identityClient, this, and_self]

/-! ## answers to prompts -/

/-- `msg` × DisplayMessage absent / succeeds / fails → `fail` / `ok` / `fail`;
    the callback receives the body; the client goes on listening -/
theorem ui_dispatch_msg_recipient (pre : List Stanza) (m : Stanza) (e₀ e : End)
    (hm : m.type = "msg") (hl : Listening (R ⟨pre, e₀⟩) e₀) :
    Listening (R ⟨pre ++ [m], e⟩) e ∧
    match ui.display with
    | none =>
      (R ⟨pre ++ [m], e⟩).replies = (R ⟨pre, e₀⟩).replies ++ [failS] ∧
      (R ⟨pre ++ [m], e⟩).ui = (R ⟨pre, e₀⟩).ui
    | some f =>
      (R ⟨pre ++ [m], e⟩).replies =
        (R ⟨pre, e₀⟩).replies ++ [if (f (R ⟨pre, e₀⟩).ui m.body).2 then okS else failS] ∧
      (R ⟨pre ++ [m], e⟩).ui = (f (R ⟨pre, e₀⟩).ui m.body).1 := by
  have hs := recipientStep_ui ui dec (run (recipientStep ui dec) ⟨st, [], none⟩ pre e₀).state m (by rw [hm]; decide)
  rw [handle_msg ui dec _ m hm] at hs
  cases hd : ui.display with
  | none =>
    rw [hd] at hs
    have := run_next_when_listening (recipientStep_noEndHalt ui dec) ⟨st, [], none⟩ pre e₀ hl m e _ _ hs
    simp only [Listening, recipientClient, this, and_self, true_and, and_true]
    all_goals rfl
  | some f =>
    rw [hd] at hs
    have := run_next_when_listening (recipientStep_noEndHalt ui dec) ⟨st, [], none⟩ pre e₀ hl m e _ _ hs
    simp only [Listening, recipientClient, this, and_self, true_and, and_true]
    all_goals rfl

/-- `request-secret` / `request-public` × RequestValue absent / answers `v` /
    fails → `fail` / `ok` with body `v` / `fail`; the callback receives the body
    as prompt and `secret = true` exactly for `request-secret` -/
theorem ui_dispatch_request_recipient (pre : List Stanza) (m : Stanza) (e₀ e : End)
    (hm : m.type = "request-secret" ∨ m.type = "request-public") (hl : Listening (R ⟨pre, e₀⟩) e₀) :
    Listening (R ⟨pre ++ [m], e⟩) e ∧
    match ui.request with
    | none =>
      (R ⟨pre ++ [m], e⟩).replies = (R ⟨pre, e₀⟩).replies ++ [failS] ∧
      (R ⟨pre ++ [m], e⟩).ui = (R ⟨pre, e₀⟩).ui
    | some f =>
      (R ⟨pre ++ [m], e⟩).replies =
        (R ⟨pre, e₀⟩).replies ++
          [match (f (R ⟨pre, e₀⟩).ui m.body (decide (m.type = "request-secret"))).2 with
           | none => failS
           | some v => okBody v] ∧
      (R ⟨pre ++ [m], e⟩).ui = (f (R ⟨pre, e₀⟩).ui m.body (decide (m.type = "request-secret"))).1 := by
  have hs := recipientStep_ui ui dec (run (recipientStep ui dec) ⟨st, [], none⟩ pre e₀).state m
    (by rcases hm with h | h <;> (rw [h]; decide))
  rw [handle_request ui dec _ m hm] at hs
  cases hd : ui.request with
  | none =>
    rw [hd] at hs
    have := run_next_when_listening (recipientStep_noEndHalt ui dec) ⟨st, [], none⟩ pre e₀ hl m e _ _ hs
    simp only [Listening, recipientClient, this, and_self, true_and, and_true]
    all_goals rfl
  | some f =>
    rw [hd] at hs
    simp only at hs
    cases ha : (f (run (recipientStep ui dec) ⟨st, [], none⟩ pre e₀).state.ui m.body (decide (m.type = "request-secret"))).2 with
    | none =>
      rw [ha] at hs
      have := run_next_when_listening (recipientStep_noEndHalt ui dec) ⟨st, [], none⟩ pre e₀ hl m e _ _ hs
      simp only [Listening, recipientClient, this, ha, and_self, true_and, and_true]
      all_goals rfl
    | some v =>
      rw [ha] at hs
      have := run_next_when_listening (recipientStep_noEndHalt ui dec) ⟨st, [], none⟩ pre e₀ hl m e _ _ hs
      simp only [Listening, recipientClient, this, ha, and_self, true_and, and_true]
      all_goals rfl

/-- `confirm` with one or two arguments that decode × Confirm absent / chooses /
    fails → `fail` / `ok yes` or `ok no` / `fail`; the callback receives the body
    as prompt and the decoded options (`no` empty when there is one argument).
    Without a Confirm callback the arguments are not even decoded. -/
theorem ui_dispatch_confirm_recipient (pre : List Stanza) (m : Stanza) (e₀ e : End)
    (hm : m.type = "confirm") (hl : Listening (R ⟨pre, e₀⟩) e₀) (y : String) (yes no : Bytes)
    (hargs : (m.args = [y] ∧ no = []) ∨ (∃ n, m.args = [y, n] ∧ (ui.confirm ≠ none → dec n = some no)))
    (hy : ui.confirm ≠ none → dec y = some yes) :
    Listening (R ⟨pre ++ [m], e⟩) e ∧
    match ui.confirm with
    | none =>
      (R ⟨pre ++ [m], e⟩).replies = (R ⟨pre, e₀⟩).replies ++ [failS] ∧
      (R ⟨pre ++ [m], e⟩).ui = (R ⟨pre, e₀⟩).ui
    | some f =>
      (R ⟨pre ++ [m], e⟩).replies =
        (R ⟨pre, e₀⟩).replies ++
          [match (f (R ⟨pre, e₀⟩).ui m.body yes no).2 with
           | none => failS
           | some c => okChoice c] ∧
      (R ⟨pre ++ [m], e⟩).ui = (f (R ⟨pre, e₀⟩).ui m.body yes no).1 := by
  have hs := recipientStep_ui ui dec (run (recipientStep ui dec) ⟨st, [], none⟩ pre e₀).state m (by rw [hm]; decide)
  cases hd : ui.confirm with
  | none =>
    have hn : m.args.length = 1 ∨ m.args.length = 2 := by
      rcases hargs with ⟨h, _⟩ | ⟨n, h, _⟩ <;> simp [h]
    rw [handle_confirm_absent ui dec _ m hm hn hd] at hs
    have := run_next_when_listening (recipientStep_noEndHalt ui dec) ⟨st, [], none⟩ pre e₀ hl m e _ _ hs
    simp only [Listening, recipientClient, this, and_self, true_and, and_true]
    all_goals rfl
  | some f =>
    have hy' := hy (by rw [hd]; simp)
    have hh : ui.handle dec (run (recipientStep ui dec) ⟨st, [], none⟩ pre e₀).state.ui m =
        match (f (run (recipientStep ui dec) ⟨st, [], none⟩ pre e₀).state.ui m.body yes no).2 with
        | none => .reply (f (run (recipientStep ui dec) ⟨st, [], none⟩ pre e₀).state.ui m.body yes no).1 failS
        | some c => .reply (f (run (recipientStep ui dec) ⟨st, [], none⟩ pre e₀).state.ui m.body yes no).1 (okChoice c) := by
      rcases hargs with ⟨h, hno⟩ | ⟨n, h, hn⟩
      · rw [handle_confirm1 ui dec _ m hm y h f hd, hy', hno]
        rfl
      · rw [handle_confirm2 ui dec _ m hm y n h f hd, hy', hn (by rw [hd]; simp)]
        rfl
    rw [hh] at hs
    cases ha : (f (run (recipientStep ui dec) ⟨st, [], none⟩ pre e₀).state.ui m.body yes no).2 with
    | none =>
      rw [ha] at hs
      have := run_next_when_listening (recipientStep_noEndHalt ui dec) ⟨st, [], none⟩ pre e₀ hl m e _ _ hs
      simp only [Listening, recipientClient, this, ha, and_self, true_and, and_true]
      all_goals rfl
    | some c =>
      rw [ha] at hs
      have := run_next_when_listening (recipientStep_noEndHalt ui dec) ⟨st, [], none⟩ pre e₀ hl m e _ _ hs
      simp only [Listening, recipientClient, this, ha, and_self, true_and, and_true]
      all_goals rfl

/-- A `confirm` with no or more than two arguments, or (when there is a Confirm
    callback) with an argument that is not valid base64, is fatal: protocol
    error, no reply, the callback is not invoked. -/
theorem confirm_malformed_fatal_recipient (pre : List Stanza) (m : Stanza) (post : List Stanza) (e₀ e : End)
    (hm : m.type = "confirm") (hl : Listening (R ⟨pre, e₀⟩) e₀)
    (hbad : (m.args.length ≠ 1 ∧ m.args.length ≠ 2) ∨
            (ui.confirm ≠ none ∧ (m.args.length = 1 ∨ m.args.length = 2) ∧ ∃ a ∈ m.args, dec a = none)) :
    (R ⟨pre ++ m :: post, e⟩).result = .error .protocol ∧
    (R ⟨pre ++ m :: post, e⟩).replies = (R ⟨pre, e₀⟩).replies ∧
    (R ⟨pre ++ m :: post, e⟩).ui = (R ⟨pre, e₀⟩).ui := by
  have hs := recipientStep_ui ui dec (run (recipientStep ui dec) ⟨st, [], none⟩ pre e₀).state m (by rw [hm]; decide)
  have hf : ui.handle dec (run (recipientStep ui dec) ⟨st, [], none⟩ pre e₀).state.ui m = .fatal := by
    rcases hbad with hn | ⟨hc, hn, ha⟩
    · exact handle_confirm_argcount ui dec _ m hm hn
    · cases hd : ui.confirm with
      | none => exact absurd hd hc
      | some f => exact handle_confirm_undecodable ui dec _ m hm hn f hd ha
  rw [hf] at hs
  have := run_halt_when_listening (recipientStep_noEndHalt ui dec) ⟨st, [], none⟩ pre e₀ hl m post e _ _ hs
  simp only [recipientClient, this, List.append_nil, and_self]

/-- `msg` × DisplayMessage absent / succeeds / fails → `fail` / `ok` / `fail`;
    the callback receives the body; the client goes on listening -/
theorem ui_dispatch_msg_identity (pre : List Stanza) (m : Stanza) (e₀ e : End)
    (hm : m.type = "msg") (hl : Listening (I ⟨pre, e₀⟩) e₀) :
    Listening (I ⟨pre ++ [m], e⟩) e ∧
    match ui.display with
    | none =>
      (I ⟨pre ++ [m], e⟩).replies = (I ⟨pre, e₀⟩).replies ++ [failS] ∧
      (I ⟨pre ++ [m], e⟩).ui = (I ⟨pre, e₀⟩).ui
    | some f =>
      (I ⟨pre ++ [m], e⟩).replies =
        (I ⟨pre, e₀⟩).replies ++ [if (f (I ⟨pre, e₀⟩).ui m.body).2 then okS else failS] ∧
      (I ⟨pre ++ [m], e⟩).ui = (f (I ⟨pre, e₀⟩).ui m.body).1 := by
  have hs := identityStep_ui ui dec (run (identityStep ui dec) ⟨st, false, []⟩ pre e₀).state m (by rw [hm]; decide)
  rw [handle_msg ui dec _ m hm] at hs
  cases hd : ui.display with
  | none =>
    rw [hd] at hs
    have := run_next_when_listening (identityStep_noEndHalt ui dec) ⟨st, false, []⟩ pre e₀ hl m e _ _ hs
    simp only [Listening, identityClient, this, and_self, true_and, and_true]
    all_goals rfl
  | some f =>
    rw [hd] at hs
    have := run_next_when_listening (identityStep_noEndHalt ui dec) ⟨st, false, []⟩ pre e₀ hl m e _ _ hs
    simp only [Listening, identityClient, this, and_self, true_and, and_true]
    all_goals rfl

/-- `request-secret` / `request-public` × RequestValue absent / answers `v` /
    fails → `fail` / `ok` with body `v` / `fail`; the callback receives the body
    as prompt and `secret = true` exactly for `request-secret` -/
theorem ui_dispatch_request_identity (pre : List Stanza) (m : Stanza) (e₀ e : End)
    (hm : m.type = "request-secret" ∨ m.type = "request-public") (hl : Listening (I ⟨pre, e₀⟩) e₀) :
    Listening (I ⟨pre ++ [m], e⟩) e ∧
    match ui.request with
    | none =>
      (I ⟨pre ++ [m], e⟩).replies = (I ⟨pre, e₀⟩).replies ++ [failS] ∧
      (I ⟨pre ++ [m], e⟩).ui = (I ⟨pre, e₀⟩).ui
    | some f =>
      (I ⟨pre ++ [m], e⟩).replies =
        (I ⟨pre, e₀⟩).replies ++
          [match (f (I ⟨pre, e₀⟩).ui m.body (decide (m.type = "request-secret"))).2 with
           | none => failS
           | some v => okBody v] ∧
      (I ⟨pre ++ [m], e⟩).ui = (f (I ⟨pre, e₀⟩).ui m.body (decide (m.type = "request-secret"))).1 := by
  have hs := identityStep_ui ui dec (run (identityStep ui dec) ⟨st, false, []⟩ pre e₀).state m
    (by rcases hm with h | h <;> (rw [h]; decide))
  rw [handle_request ui dec _ m hm] at hs
  cases hd : ui.request with
  | none =>
    rw [hd] at hs
    have := run_next_when_listening (identityStep_noEndHalt ui dec) ⟨st, false, []⟩ pre e₀ hl m e _ _ hs
    simp only [Listening, identityClient, this, and_self, true_and, and_true]
    all_goals rfl
  | some f =>
    rw [hd] at hs
    simp only at hs
    cases ha : (f (run (identityStep ui dec) ⟨st, false, []⟩ pre e₀).state.ui m.body (decide (m.type = "request-secret"))).2 with
    | none =>
      rw [ha] at hs
      have := run_next_when_listening (identityStep_noEndHalt ui dec) ⟨st, false, []⟩ pre e₀ hl m e _ _ hs
      simp only [Listening, identityClient, this, ha, and_self, true_and, and_true]
      all_goals rfl
    | some v =>
      rw [ha] at hs
      have := run_next_when_listening (identityStep_noEndHalt ui dec) ⟨st, false, []⟩ pre e₀ hl m e _ _ hs
      simp only [Listening, identityClient, this, ha, and_self, true_and, and_true]
      all_goals rfl

/-- `confirm` with one or two arguments that decode × Confirm absent / chooses /
    fails → `fail` / `ok yes` or `ok no` / `fail`; the callback receives the body
    as prompt and the decoded options (`no` empty when there is one argument).
    Without a Confirm callback the arguments are not even decoded. -/
theorem ui_dispatch_confirm_identity (pre : List Stanza) (m : Stanza) (e₀ e : End)
    (hm : m.type = "confirm") (hl : Listening (I ⟨pre, e₀⟩) e₀) (y : String) (yes no : Bytes)
    (hargs : (m.args = [y] ∧ no = []) ∨ (∃ n, m.args = [y, n] ∧ (ui.confirm ≠ none → dec n = some no)))
    (hy : ui.confirm ≠ none → dec y = some yes) :
    Listening (I ⟨pre ++ [m], e⟩) e ∧
    match ui.confirm with
    | none =>
      (I ⟨pre ++ [m], e⟩).replies = (I ⟨pre, e₀⟩).replies ++ [failS] ∧
      (I ⟨pre ++ [m], e⟩).ui = (I ⟨pre, e₀⟩).ui
    | some f =>
      (I ⟨pre ++ [m], e⟩).replies =
        (I ⟨pre, e₀⟩).replies ++
          [match (f (I ⟨pre, e₀⟩).ui m.body yes no).2 with
           | none => failS
           | some c => okChoice c] ∧
      (I ⟨pre ++ [m], e⟩).ui = (f (I ⟨pre, e₀⟩).ui m.body yes no).1 := by
  have hs := identityStep_ui ui dec (run (identityStep ui dec) ⟨st, false, []⟩ pre e₀).state m (by rw [hm]; decide)
  cases hd : ui.confirm with
  | none =>
    have hn : m.args.length = 1 ∨ m.args.length = 2 := by
      rcases hargs with ⟨h, _⟩ | ⟨n, h, _⟩ <;> simp [h]
    rw [handle_confirm_absent ui dec _ m hm hn hd] at hs
    have := run_next_when_listening (identityStep_noEndHalt ui dec) ⟨st, false, []⟩ pre e₀ hl m e _ _ hs
    simp only [Listening, identityClient, this, and_self, true_and, and_true]
    all_goals rfl
  | some f =>
    have hy' := hy (by rw [hd]; simp)
    have hh : ui.handle dec (run (identityStep ui dec) ⟨st, false, []⟩ pre e₀).state.ui m =
        match (f (run (identityStep ui dec) ⟨st, false, []⟩ pre e₀).state.ui m.body yes no).2 with
        | none => .reply (f (run (identityStep ui dec) ⟨st, false, []⟩ pre e₀).state.ui m.body yes no).1 failS
        | some c => .reply (f (run (identityStep ui dec) ⟨st, false, []⟩ pre e₀).state.ui m.body yes no).1 (okChoice c) := by
      rcases hargs with ⟨h, hno⟩ | ⟨n, h, hn⟩
      · rw [handle_confirm1 ui dec _ m hm y h f hd, hy', hno]
        rfl
      · rw [handle_confirm2 ui dec _ m hm y n h f hd, hy', hn (by rw [hd]; simp)]
        rfl
    rw [hh] at hs
    cases ha : (f (run (identityStep ui dec) ⟨st, false, []⟩ pre e₀).state.ui m.body yes no).2 with
    | none =>
      rw [ha] at hs
      have := run_next_when_listening (identityStep_noEndHalt ui dec) ⟨st, false, []⟩ pre e₀ hl m e _ _ hs
      simp only [Listening, identityClient, this, ha, and_self, true_and, and_true]
      all_goals rfl
    | some c =>
      rw [ha] at hs
      have := run_next_when_listening (identityStep_noEndHalt ui dec) ⟨st, false, []⟩ pre e₀ hl m e _ _ hs
      simp only [Listening, identityClient, this, ha, and_self, true_and, and_true]
      all_goals rfl

/-- A `confirm` with no or more than two arguments, or (when there is a Confirm
    callback) with an argument that is not valid base64, is fatal: protocol
    error, no reply, the callback is not invoked. -/
theorem confirm_malformed_fatal_identity (pre : List Stanza) (m : Stanza) (post : List Stanza) (e₀ e : End)
    (hm : m.type = "confirm") (hl : Listening (I ⟨pre, e₀⟩) e₀)
    (hbad : (m.args.length ≠ 1 ∧ m.args.length ≠ 2) ∨
            (ui.confirm ≠ none ∧ (m.args.length = 1 ∨ m.args.length = 2) ∧ ∃ a ∈ m.args, dec a = none)) :
    (I ⟨pre ++ m :: post, e⟩).result = .error .protocol ∧
    (I ⟨pre ++ m :: post, e⟩).replies = (I ⟨pre, e₀⟩).replies ∧
    (I ⟨pre ++ m :: post, e⟩).ui = (I ⟨pre, e₀⟩).ui := by
  have hs := identityStep_ui ui dec (run (identityStep ui dec) ⟨st, false, []⟩ pre e₀).state m (by rw [hm]; decide)
  have hf : ui.handle dec (run (identityStep ui dec) ⟨st, false, []⟩ pre e₀).state.ui m = .fatal := by
    rcases hbad with hn | ⟨hc, hn, ha⟩
    · exact handle_confirm_argcount ui dec _ m hm hn
    · cases hd : ui.confirm with
      | none => exact absurd hd hc
      | some f => exact handle_confirm_undecodable ui dec _ m hm hn f hd ha
  rw [hf] at hs
  have := run_halt_when_listening (identityStep_noEndHalt ui dec) ⟨st, false, []⟩ pre e₀ hl m post e _ _ hs
  simp only [identityClient, this, List.append_nil, and_self]

/-! ## the final result -/

/-- A wrap never succeeds with zero stanzas: a successful result carries exactly
    the stanzas of the `recipient-stanza` messages received before `done`, in
    order — at least one — and the arguments of the `labels` message (`none`
    when there was none). And a clean `done` that reaches a listening client
    which has received no `recipient-stanza` is the error "no stanzas". -/
theorem no_stanza_wrap_fails (c : Conv) :
    (∀ ws l, (R c).result = .ok (ws, l) → ws ≠ [] ∧ ws = wrappedOf c.msgs ∧ l = labelsOf c.msgs) ∧
    (∀ pre m post e₀, c.msgs = pre ++ m :: post → Listening (R ⟨pre, e₀⟩) e₀ →
      (∀ x ∈ pre, x.type ≠ "recipient-stanza") → m.type = "done" →
      (R c).result = .error .noStanzas ∧ (R c).replies = (R ⟨pre, e₀⟩).replies) := by
  constructor
  · intro ws l h
    have := recipient_ok_spec ui dec ⟨st, [], none⟩ c.msgs c.fin ws l h
    simpa using this
  · intro pre m post e₀ hc hl hpre hm
    have hst : (run (recipientStep ui dec) ⟨st, [], none⟩ pre e₀).state.stanzas = [] :=
      run_state_inv (fun s : RState σ => s.stanzas = []) (fun x => x.type ≠ "recipient-stanza")
        (fun s x s' r hx hs h => by rw [recipientStep_stanzas_other ui dec s s' x r hx h]; exact hs)
        _ rfl pre hpre e₀
    have hd := recipientStep_done ui dec (run (recipientStep ui dec) ⟨st, [], none⟩ pre e₀).state m hm
    rw [hst] at hd
    have := run_halt_when_listening (recipientStep_noEndHalt ui dec) ⟨st, [], none⟩ pre e₀ hl m post c.fin _ _ hd
    simp only [recipientClient, hc, this, List.append_nil, if_true, and_self]

/-- An unwrap succeeds only with the non-empty body of the `file-key` message
    received before `done`. A clean `done` reaching a listening client that has
    received no file key (no `file-key` message, or only one with an empty body)
    yields "incorrect identity" — the error after which `age.Decrypt` tries the
    next identity — not a hard error. -/
theorem no_filekey_incorrect_identity (c : Conv) :
    (∀ k, (I c).result = .ok k → k ≠ [] ∧ fileKeyOf c.msgs = some k) ∧
    (∀ pre m post e₀, c.msgs = pre ++ m :: post → Listening (I ⟨pre, e₀⟩) e₀ →
      (∀ x ∈ pre, x.type = "file-key" → x.body = []) → m.type = "done" →
      (I c).result = .error .incorrectIdentity ∧ (I c).replies = (I ⟨pre, e₀⟩).replies) := by
  constructor
  · intro k h
    have := identity_ok_spec ui dec ⟨st, false, []⟩ c.msgs c.fin k (fun _ => rfl) h
    simpa using this
  · intro pre m post e₀ hc hl hpre hm
    have hst : (run (identityStep ui dec) ⟨st, false, []⟩ pre e₀).state.fileKey = [] := by
      refine run_state_inv (fun s : IState σ => s.fileKey = []) (fun x => x.type = "file-key" → x.body = [])
        ?_ _ rfl pre hpre e₀
      intro s x s' r hx hs h
      by_cases hf : x.type = "file-key"
      · rw [(identityStep_filekey_next ui dec s s' x r hf h).2.2.1]; exact hx hf
      · rw [(identityStep_key_other ui dec s s' x r hf h).2]; exact hs
    have hd := identityStep_done ui dec (run (identityStep ui dec) ⟨st, false, []⟩ pre e₀).state m hm
    rw [hst] at hd
    have := run_halt_when_listening (identityStep_noEndHalt ui dec) ⟨st, false, []⟩ pre e₀ hl m post c.fin _ _ hd
    simp only [identityClient, hc, this, List.append_nil, if_true, and_self]

/-! ## a plugin that stops mid-conversation is an error -/

/-- If the plugin's output ends (cleanly, inside a stanza, or with malformed
    framing) without a `done`, the wrap fails with a hard error whatever came
    before: never a success. -/
theorem eof_is_error_recipient (msgs : List Stanza) (e : End) (h : noDone msgs) :
    Hard (R ⟨msgs, e⟩).result :=
  run_hard (fun m => m.type ≠ "done")
    (fun s m rs res hq hs => recipientStep_hardHalt ui dec s m rs res hq hs) _ msgs e h

/-- the same for unwrap: never a success and never "incorrect identity" -/
theorem eof_is_error_identity (msgs : List Stanza) (e : End) (h : noDone msgs) :
    Hard (I ⟨msgs, e⟩).result :=
  run_hard (fun m => m.type ≠ "done")
    (fun s m rs res hq hs => identityStep_hardHalt ui dec s m rs res hq hs) _ msgs e h

/-- what `Hard` excludes -/
theorem hard_excludes {α : Type} (res : Except ClientErr α) (h : Hard res) :
    (∀ v, res ≠ .ok v) ∧ res ≠ .error .incorrectIdentity ∧ res ≠ .error .noStanzas :=
  ⟨h.not_ok, h.not_incorrect, h.not_noStanzas⟩

/-- Precisely: a conversation of any length made only of prompts for a message
    or a value and of commands unknown to both machines is answered message by
    message, and when the stream then ends the result is the read error. -/
theorem eof_after_harmless_messages (msgs : List Stanza) (e : End) (h : ∀ m ∈ msgs, harmless m.type) :
    (Listening (R ⟨msgs, e⟩) e ∧ (R ⟨msgs, e⟩).replies.length = msgs.length) ∧
    (Listening (I ⟨msgs, e⟩) e ∧ (I ⟨msgs, e⟩).replies.length = msgs.length) :=
  ⟨run_all_next (fun m => harmless m.type) (fun s m hm => recipientStep_harmless ui dec s m hm) _ msgs h e,
   run_all_next (fun m => harmless m.type) (fun s m hm => identityStep_harmless ui dec s m hm) _ msgs h e⟩

end
/-! ## non-vacuity: concrete conversations evaluated by the kernel -/

section Examples

/-- a UI whose state counts the callback invocations; every callback answers -/
def uiAll : UI Nat :=
  { display := some fun n _ => (n + 1, true)
    request := some fun n _ secret => (n + 1, some (if secret then [115] else [112]))
    confirm := some fun n prompt _ _ => (n + 1, some (prompt != [110])) }

/-- a UI without any callback -/
def uiNone : UI Nat := { display := none, request := none, confirm := none }

/-- a toy decoder: knows the base64 of "yes" and "no" -/
def dec0 (s : String) : Option Bytes :=
  if s = "eWVz" then some [121, 101, 115] else if s = "bm8" then some [110, 111] else none

def rs0 : Stanza := ⟨"recipient-stanza", ["0", "X25519", "abc"], [1, 2]⟩
def rsPlus0 : Stanza := ⟨"recipient-stanza", ["+0", "scrypt"], []⟩
def rs1 : Stanza := ⟨"recipient-stanza", ["1", "X25519", "abc"], [1, 2]⟩
def fk0 : Stanza := ⟨"file-key", ["0"], [9, 9]⟩
def fk0e : Stanza := ⟨"file-key", ["-0"], []⟩
def labels0 : Stanza := ⟨"labels", [], []⟩
def msg1 : Stanza := ⟨"msg", [], [104, 105]⟩
def confirm1 : Stanza := ⟨"confirm", ["eWVz", "bm8"], [113]⟩
def confirmBad : Stanza := ⟨"confirm", ["e"], [113]⟩
def unknown1 : Stanza := ⟨"frobnicate", ["a"], [0]⟩
def error1 : Stanza := ⟨"error", [], [98, 111, 111, 109]⟩

/-- a complete successful wrap: every message answered, unknown → unsupported,
    stanzas in order, labels present but empty, three callbacks invoked -/
example :
    let o := recipientClient uiAll dec0 0 false "age1verif1q" [7] "grease-1"
      ⟨[rs0, labels0, msg1, confirm1, unknown1, ⟨"request-public", [], []⟩, rsPlus0, doneS, rs1], .eof⟩
    o.replies = [okS, okS, okS, okChoice true, unsupportedS, okBody [112], okS] ∧
    o.result = .ok ([⟨"X25519", ["abc"], [1, 2]⟩, ⟨"scrypt", [], []⟩], some []) ∧ o.ui = 3 := by
  decide

/-- the hypotheses "listening after `pre`" are satisfiable, with and without callbacks -/
example : Listening (recipientClient uiNone dec0 0 true "x" [] "g" ⟨[msg1, confirm1, rs0], .eof⟩) .eof := by
  unfold Listening; decide
example : Listening (identityClient uiAll dec0 0 "x" [rs0] "g" ⟨[msg1, fk0, unknown1], .malformed⟩) .malformed := by
  unfold Listening; decide

/-- without callbacks every prompt is answered `fail` — even an undecodable confirm -/
example : (identityClient uiNone dec0 0 "x" [] "g" ⟨[msg1, confirm1, confirmBad, ⟨"request-secret", [], []⟩], .eof⟩).replies
    = [failS, failS, failS, failS] := by decide

/-- with a Confirm callback the undecodable confirm is fatal and unanswered -/
example :
    let o := identityClient uiAll dec0 0 "x" [] "g" ⟨[msg1, confirmBad, doneS], .eof⟩
    o.replies = [okS] ∧ o.result = .error .protocol ∧ o.ui = 1 := by decide

/-- index 1 is refused; `labels` twice is refused even when the first had no arguments -/
example : (recipientClient uiAll dec0 0 false "x" [] "g" ⟨[rs0, rs1, doneS], .eof⟩).result = .error .protocol := by decide
example :
    let o := recipientClient uiAll dec0 0 false "x" [] "g" ⟨[labels0, rs0, labels0, doneS], .eof⟩
    o.replies = [okS, okS] ∧ o.result = .error .protocol := by decide

/-- a second `file-key` is refused although the first had an empty body; an
    empty file key alone is "incorrect identity"; a real one is returned -/
example : (identityClient uiAll dec0 0 "x" [] "g" ⟨[fk0e, fk0, doneS], .eof⟩).result = .error .protocol := by decide
example : (identityClient uiAll dec0 0 "x" [] "g" ⟨[fk0e, doneS], .eof⟩).result = .error .incorrectIdentity := by decide
example : (identityClient uiAll dec0 0 "x" [] "g" ⟨[unknown1, doneS], .eof⟩).result = .error .incorrectIdentity := by decide
example : (identityClient uiAll dec0 0 "x" [] "g" ⟨[rs0, fk0, doneS, fk0], .eof⟩).result = .ok [9, 9] := by decide

/-- `error` is acknowledged, then aborts with the text; no stanza → no success; EOF → error -/
example :
    let o := recipientClient uiAll dec0 0 false "x" [] "g" ⟨[rs0, error1, doneS], .eof⟩
    o.replies = [okS, okS] ∧ o.result = .error (.pluginError [98, 111, 111, 109]) := by decide
example : (recipientClient uiAll dec0 0 false "x" [] "g" ⟨[labels0, doneS], .eof⟩).result = .error .noStanzas := by decide
example : (recipientClient uiAll dec0 0 false "x" [] "g" ⟨[rs0, labels0], .eof⟩).result = .error (.ended .eof) := by decide

/-- strconv.Atoi on the index argument -/
example : atoi "0" = some 0 ∧ atoi "+0" = some 0 ∧ atoi "-0" = some 0 ∧ atoi "00" = some 0 ∧
    atoi "0000000000000000000000" = some 0 ∧ atoi "1" = some 1 ∧ atoi "-1" = some (-1) ∧
    atoi "0x0" = none ∧ atoi "" = none ∧ atoi " 0" = none ∧ atoi "+" = none ∧ atoi "0_0" = none ∧
    atoi "9223372036854775807" = some 9223372036854775807 ∧ atoi "9223372036854775808" = none ∧
    atoi "-9223372036854775808" = some (-9223372036854775808) ∧ atoi "-9223372036854775809" = none := by
  decide

/-- `badIndex` and `harmless` are satisfiable / refutable -/
example : badIndex rs1 ∧ ¬ badIndex rs0 ∧ badIndex ⟨"file-key", [], []⟩ := by
  refine ⟨?_, ?_, ?_⟩
  · intro idx rest h; cases h; decide
  · intro h; exact h "0" _ rfl (by decide)
  · intro idx rest h; cases h
example : harmless "msg" ∧ harmless "frobnicate" ∧ ¬ harmless "done" := by
  unfold harmless; decide

/-- phase 1 of an unwrap of two stanzas -/
example : (identityClient uiNone dec0 0 "AGE-PLUGIN-VERIF-1Q" [⟨"X25519", ["abc"], [1]⟩, ⟨"verif", [], []⟩] "grease-7"
      ⟨[], .eof⟩).phase1 =
    [⟨"add-identity", ["AGE-PLUGIN-VERIF-1Q"], []⟩, ⟨"grease-7", [], []⟩,
     ⟨"recipient-stanza", ["0", "X25519", "abc"], [1]⟩, ⟨"recipient-stanza", ["0", "verif"], []⟩,
     ⟨"done", [], []⟩] := by decide

end Examples

/-! ## non-vacuity, theorem by theorem: the hypotheses of each theorem at concrete values

  No hypotheses: `phase1_wellformed_recipient`, `phase1_wellformed_identity`,
  `unknown_unsupported_and_ignored_recipient`, `unknown_unsupported_and_ignored_identity`.
  For the theorems whose hypotheses sit inside the conclusion (`index_zero_accepted`,
  `plugin_error_only_from_error`, `unknown_answered_unsupported`, `no_stanza_wrap_fails`,
  `no_filekey_incorrect_identity`, the second halves of `index_must_be_zero_*` and
  `duplicate_*_error`) the witness instantiates those inner premises.

  Throughout: every callback present and answering (`uiAll`, state = number of
  invocations so far), decoder `dec0`, and

    R₀ c = recipientClient uiAll dec0 0 false "age1verif1q" [7] "grease-1" c
    I₀ c = identityClient uiAll dec0 0 "AGE-PLUGIN-VERIF-1Q" [⟨"X25519", ["abc"], [1]⟩] "grease-1" c -/

section Nonvacuous

local notation "R₀" => recipientClient uiAll dec0 (0 : Nat) false "age1verif1q" [7] "grease-1"
local notation "I₀" => identityClient uiAll dec0 (0 : Nat) "AGE-PLUGIN-VERIF-1Q" [⟨"X25519", ["abc"], [1]⟩] "grease-1"

local macro "nv" : tactic =>
  `(tactic| first | decide | (unfold Listening; decide) | (unfold noDone; decide) | (unfold harmless; decide))

def fk1 : Stanza := ⟨"file-key", ["1"], [9, 9]⟩
def labelsA : Stanza := ⟨"labels", ["postquantum"], []⟩
def reqSecret : Stanza := ⟨"request-secret", [], [80, 73, 78, 63]⟩
def confirmOne : Stanza := ⟨"confirm", ["eWVz"], [113]⟩
def confirmNoArgs : Stanza := ⟨"confirm", [], [113]⟩

/-- the Confirm callback of `uiAll` is present: the premises `ui.confirm ≠ none → …` below are real -/
theorem uiAll_confirm : uiAll.confirm ≠ none := by simp [uiAll]

/-- non-vacuity of `phase1_strings_valid`: a recipient encoding, a grease type and
    two header stanzas (one with an argument, one without) -/
theorem phase1_strings_valid_nonvacuous :
    validString "age1verif1q" ∧ validString "grease-1" ∧
    ∀ s ∈ ([⟨"X25519", ["abc"], [1]⟩, ⟨"verif", [], []⟩] : List Stanza), validStrings s := by
  unfold validStrings validString; decide

example := phase1_strings_valid uiAll dec0 (0 : Nat) false "age1verif1q" [7]
  [⟨"X25519", ["abc"], [1]⟩, ⟨"verif", [], []⟩] "grease-1" ⟨[], .eof⟩
  phase1_strings_valid_nonvacuous.1 phase1_strings_valid_nonvacuous.2.1 phase1_strings_valid_nonvacuous.2.2

/-- non-vacuity of `index_must_be_zero_recipient`: after `labels` and a `msg` (both
    answered, the client listening) comes `recipient-stanza 1 X25519 abc` -/
theorem index_must_be_zero_recipient_nonvacuous :
    rs1.type = "recipient-stanza" ∧ badIndex rs1 ∧
    noDone [labels0, msg1] ∧ Listening (R₀ ⟨[labels0, msg1], .eof⟩) .eof :=
  ⟨by nv, by intro idx rest h; cases h; decide, by nv, by nv⟩

example : (R₀ ⟨[labels0, msg1] ++ rs1 :: [doneS], .malformed⟩).result = .error .protocol ∧
    (R₀ ⟨[labels0, msg1] ++ rs1 :: [doneS], .malformed⟩).replies = (R₀ ⟨[labels0, msg1], .eof⟩).replies :=
  have h := index_must_be_zero_recipient_nonvacuous
  (index_must_be_zero_recipient uiAll dec0 0 false "age1verif1q" [7] "grease-1" [labels0, msg1] rs1 [doneS]
    .malformed h.1 h.2.1).2 .eof h.2.2.2

/-- non-vacuity of `index_must_be_zero_identity`: after a `msg` and an unknown
    command comes `file-key 1` -/
theorem index_must_be_zero_identity_nonvacuous :
    fk1.type = "file-key" ∧ badIndex fk1 ∧
    noDone [msg1, unknown1] ∧ Listening (I₀ ⟨[msg1, unknown1], .eof⟩) .eof :=
  ⟨by nv, by intro idx rest h; cases h; decide, by nv, by nv⟩

example : Hard (I₀ ⟨[msg1, unknown1] ++ fk1 :: [doneS], .eof⟩).result :=
  have h := index_must_be_zero_identity_nonvacuous
  (index_must_be_zero_identity uiAll dec0 0 "AGE-PLUGIN-VERIF-1Q" [⟨"X25519", ["abc"], [1]⟩] "grease-1"
    [msg1, unknown1] fk1 [doneS] .eof h.1 h.2.1).1 h.2.2.1

/-- non-vacuity of `index_zero_accepted`: index `0`; for the wrap `rs0` after
    `labels`, `msg`; for the unwrap `fk0` after `msg` and an unknown command
    (the `example` below: the spellings `+0` and `-0`) -/
theorem index_zero_accepted_nonvacuous :
    atoi "0" = some 0 ∧
    (rs0.type = "recipient-stanza" ∧ rs0.args = "0" :: "X25519" :: ["abc"] ∧
      Listening (R₀ ⟨[labels0, msg1], .eof⟩) .eof) ∧
    (fk0.type = "file-key" ∧ fk0.args = ["0"] ∧ Listening (I₀ ⟨[msg1, unknown1], .eof⟩) .eof ∧
      ∀ x ∈ [msg1, unknown1], x.type ≠ "file-key") :=
  ⟨by nv, ⟨by nv, by nv, by nv⟩, by nv, by nv, by nv, by nv⟩

example : atoi "+0" = some 0 ∧ rsPlus0.type = "recipient-stanza" ∧ rsPlus0.args = "+0" :: "scrypt" :: [] ∧
    atoi "-0" = some 0 ∧ fk0e.type = "file-key" ∧ fk0e.args = ["-0"] := by decide

example : Listening (I₀ ⟨[msg1, unknown1] ++ [fk0], .malformed⟩) .malformed ∧
    (I₀ ⟨[msg1, unknown1] ++ [fk0], .malformed⟩).replies = (I₀ ⟨[msg1, unknown1], .eof⟩).replies ++ [okS] :=
  have h := index_zero_accepted_nonvacuous
  (index_zero_accepted uiAll dec0 0 false "age1verif1q" [7] [⟨"X25519", ["abc"], [1]⟩] "grease-1"
    [msg1, unknown1] fk0 .eof .malformed "0" h.1).2 h.2.2.1 h.2.2.2.1 h.2.2.2.2.1 h.2.2.2.2.2

example : Listening (R₀ ⟨[labels0, msg1] ++ [rs0], .malformed⟩) .malformed :=
  have h := index_zero_accepted_nonvacuous
  ((index_zero_accepted uiAll dec0 0 false "age1verif1q" [7] [⟨"X25519", ["abc"], [1]⟩] "grease-1"
    [labels0, msg1] rs0 .eof .malformed "0" h.1).1 "X25519" ["abc"] h.2.1.1 h.2.1.2.1 h.2.1.2.2).1

/-- non-vacuity of `duplicate_filekey_error`: `msg`, `file-key -0` with an empty
    body, an unknown command, then `file-key 0` with a body -/
theorem duplicate_filekey_error_nonvacuous :
    fk0e.type = "file-key" ∧ fk0.type = "file-key" ∧ noDone [msg1] ∧ noDone [unknown1] ∧
    Listening (I₀ ⟨[msg1] ++ fk0e :: [unknown1], .eof⟩) .eof :=
  ⟨by nv, by nv, by nv, by nv, by nv⟩

example : (I₀ ⟨[msg1] ++ fk0e :: ([unknown1] ++ fk0 :: [doneS]), .eof⟩).result = .error .protocol :=
  have h := duplicate_filekey_error_nonvacuous
  ((duplicate_filekey_error uiAll dec0 0 "AGE-PLUGIN-VERIF-1Q" [⟨"X25519", ["abc"], [1]⟩] "grease-1"
    [msg1] fk0e [unknown1] fk0 [doneS] .eof h.1 h.2.1).2 .eof h.2.2.2.2).1

/-- non-vacuity of `duplicate_labels_error`: a stanza, `labels` without arguments,
    a `msg`, then `labels postquantum` -/
theorem duplicate_labels_error_nonvacuous :
    labels0.type = "labels" ∧ labelsA.type = "labels" ∧ noDone [rs0] ∧ noDone [msg1] ∧
    Listening (R₀ ⟨[rs0] ++ labels0 :: [msg1], .eof⟩) .eof :=
  ⟨by nv, by nv, by nv, by nv, by nv⟩

example : (R₀ ⟨[rs0] ++ labels0 :: ([msg1] ++ labelsA :: [doneS]), .eof⟩).result = .error .protocol :=
  have h := duplicate_labels_error_nonvacuous
  ((duplicate_labels_error uiAll dec0 0 false "age1verif1q" [7] "grease-1"
    [rs0] labels0 [msg1] labelsA [doneS] .eof h.1 h.2.1).2 .eof h.2.2.2.2).1

/-- non-vacuity of `error_acked_then_abort_recipient`: `error` with body "boom"
    reaches a client that has acknowledged a stanza and a `msg` -/
theorem error_acked_then_abort_recipient_nonvacuous :
    error1.type = "error" ∧ Listening (R₀ ⟨[rs0, msg1], .eof⟩) .eof := ⟨by nv, by nv⟩

example : (R₀ ⟨[rs0, msg1] ++ error1 :: [doneS], .eof⟩).result = .error (.pluginError [98, 111, 111, 109]) :=
  (error_acked_then_abort_recipient uiAll dec0 0 false "age1verif1q" [7] "grease-1" [rs0, msg1] error1 [doneS]
    .eof .eof error_acked_then_abort_recipient_nonvacuous.1 error_acked_then_abort_recipient_nonvacuous.2).2

/-- non-vacuity of `error_acked_then_abort_identity`: the same after a file key and a `msg` -/
theorem error_acked_then_abort_identity_nonvacuous :
    error1.type = "error" ∧ Listening (I₀ ⟨[fk0, msg1], .malformed⟩) .malformed := ⟨by nv, by nv⟩

example : (I₀ ⟨[fk0, msg1] ++ error1 :: [doneS], .eof⟩).replies = (I₀ ⟨[fk0, msg1], .malformed⟩).replies ++ [okS] :=
  (error_acked_then_abort_identity uiAll dec0 0 "AGE-PLUGIN-VERIF-1Q" [⟨"X25519", ["abc"], [1]⟩] "grease-1"
    [fk0, msg1] error1 [doneS] .malformed .eof error_acked_then_abort_identity_nonvacuous.1
    error_acked_then_abort_identity_nonvacuous.2).1

/-- non-vacuity of `plugin_error_only_from_error` (no outer hypotheses; the premises
    of its two parts): conversations that do end with the plugin's text "boom" -/
theorem plugin_error_only_from_error_nonvacuous :
    (R₀ ⟨[rs0, msg1, error1, doneS], .eof⟩).result = .error (.pluginError [98, 111, 111, 109]) ∧
    (I₀ ⟨[fk0, msg1, error1, doneS], .eof⟩).result = .error (.pluginError [98, 111, 111, 109]) := by decide

example : ∃ pre m post, [rs0, msg1, error1, doneS] = pre ++ m :: post ∧ m.type = "error" ∧
    m.body = [98, 111, 111, 109] ∧ ∀ e₀, Listening (R₀ ⟨pre, e₀⟩) e₀ ∧
      (R₀ ⟨[rs0, msg1, error1, doneS], .eof⟩).replies = (R₀ ⟨pre, e₀⟩).replies ++ [okS] :=
  (plugin_error_only_from_error uiAll dec0 0 false "age1verif1q" [7] [⟨"X25519", ["abc"], [1]⟩] "grease-1"
    ⟨[rs0, msg1, error1, doneS], .eof⟩ [98, 111, 111, 109]).1 plugin_error_only_from_error_nonvacuous.1
example : ∃ pre m post, [fk0, msg1, error1, doneS] = pre ++ m :: post ∧ m.type = "error" ∧
    m.body = [98, 111, 111, 109] ∧ ∀ e₀, Listening (I₀ ⟨pre, e₀⟩) e₀ ∧
      (I₀ ⟨[fk0, msg1, error1, doneS], .eof⟩).replies = (I₀ ⟨pre, e₀⟩).replies ++ [okS] :=
  (plugin_error_only_from_error uiAll dec0 0 false "age1verif1q" [7] [⟨"X25519", ["abc"], [1]⟩] "grease-1"
    ⟨[fk0, msg1, error1, doneS], .eof⟩ [98, 111, 111, 109]).2 plugin_error_only_from_error_nonvacuous.2
/-- the split the theorem speaks of, at these values: the client was listening after
    `[rs0, msg1]`, and `error1` is what it reached -/
example : Listening (R₀ ⟨[rs0, msg1], .eof⟩) .eof ∧
    (R₀ ⟨[rs0, msg1, error1, doneS], .eof⟩).replies = (R₀ ⟨[rs0, msg1], .eof⟩).replies ++ [okS] :=
  ⟨by nv, by nv⟩

/-- non-vacuity of `unknown_answered_unsupported`: `frobnicate a` reaches a
    listening wrap / unwrap (the `example` below: `file-key` is unknown to the wrap,
    `recipient-stanza` and `labels` to the unwrap) -/
theorem unknown_answered_unsupported_nonvacuous :
    (unknown1.type ∉ recipientCommands ∧ Listening (R₀ ⟨[rs0, msg1], .eof⟩) .eof) ∧
    (unknown1.type ∉ identityCommands ∧ Listening (I₀ ⟨[fk0, msg1], .eof⟩) .eof) :=
  ⟨⟨by nv, by nv⟩, by nv, by nv⟩

example : fk0.type ∉ recipientCommands ∧ rs0.type ∉ identityCommands ∧ labels0.type ∉ identityCommands := by
  decide

example : (R₀ ⟨[rs0, msg1] ++ [unknown1], .eof⟩).replies = (R₀ ⟨[rs0, msg1], .eof⟩).replies ++ [unsupportedS] :=
  have h := unknown_answered_unsupported_nonvacuous
  ((unknown_answered_unsupported uiAll dec0 0 false "age1verif1q" [7] [⟨"X25519", ["abc"], [1]⟩] "grease-1"
    [rs0, msg1] unknown1 .eof .eof).1 h.1.1 h.1.2).2.1

/-- non-vacuity of `ui_dispatch_msg_recipient`: a `msg` with body "hi" after a stanza -/
theorem ui_dispatch_msg_recipient_nonvacuous :
    msg1.type = "msg" ∧ Listening (R₀ ⟨[rs0], .eof⟩) .eof := ⟨by nv, by nv⟩

example := ui_dispatch_msg_recipient uiAll dec0 0 false "age1verif1q" [7] "grease-1" [rs0] msg1 .eof .eof
  ui_dispatch_msg_recipient_nonvacuous.1 ui_dispatch_msg_recipient_nonvacuous.2

/-- non-vacuity of `ui_dispatch_request_recipient`: `request-secret` with prompt "PIN?"
    after a stanza and a `msg` (the `example`: `request-public`) -/
theorem ui_dispatch_request_recipient_nonvacuous :
    (reqSecret.type = "request-secret" ∨ reqSecret.type = "request-public") ∧
    Listening (R₀ ⟨[rs0, msg1], .eof⟩) .eof := ⟨by nv, by nv⟩

example : ((⟨"request-public", [], []⟩ : Stanza).type = "request-secret" ∨
    (⟨"request-public", [], []⟩ : Stanza).type = "request-public") := by decide

example := ui_dispatch_request_recipient uiAll dec0 0 false "age1verif1q" [7] "grease-1" [rs0, msg1] reqSecret
  .eof .eof ui_dispatch_request_recipient_nonvacuous.1 ui_dispatch_request_recipient_nonvacuous.2

/-- non-vacuity of `ui_dispatch_confirm_recipient`: `confirm eWVz bm8` ("yes", "no")
    with the Confirm callback present (`uiAll_confirm`), so that both decoding
    premises are used; the `example` below: the one-argument form -/
theorem ui_dispatch_confirm_recipient_nonvacuous :
    confirm1.type = "confirm" ∧ Listening (R₀ ⟨[rs0], .eof⟩) .eof ∧
    ((confirm1.args = ["eWVz"] ∧ ([110, 111] : Bytes) = []) ∨
      (∃ n, confirm1.args = ["eWVz", n] ∧ (uiAll.confirm ≠ none → dec0 n = some [110, 111]))) ∧
    (uiAll.confirm ≠ none → dec0 "eWVz" = some [121, 101, 115]) :=
  ⟨by nv, by nv, Or.inr ⟨"bm8", by decide, fun _ => by decide⟩, fun _ => by decide⟩

example : confirmOne.type = "confirm" ∧
    ((confirmOne.args = ["eWVz"] ∧ ([] : Bytes) = []) ∨
      (∃ n, confirmOne.args = ["eWVz", n] ∧ (uiAll.confirm ≠ none → dec0 n = some []))) :=
  ⟨by decide, Or.inl ⟨by decide, rfl⟩⟩

example := 
  have h := ui_dispatch_confirm_recipient_nonvacuous
  ui_dispatch_confirm_recipient uiAll dec0 0 false "age1verif1q" [7] "grease-1" [rs0] confirm1 .eof .eof
    h.1 h.2.1 "eWVz" [121, 101, 115] [110, 111] h.2.2.1 h.2.2.2

/-- non-vacuity of `confirm_malformed_fatal_recipient`: with the Confirm callback
    present, `confirm e` whose argument `dec0` does not decode (second
    alternative); the `example` below: `confirm` without arguments (first alternative) -/
theorem confirm_malformed_fatal_recipient_nonvacuous :
    confirmBad.type = "confirm" ∧ Listening (R₀ ⟨[rs0], .eof⟩) .eof ∧
    ((confirmBad.args.length ≠ 1 ∧ confirmBad.args.length ≠ 2) ∨
     (uiAll.confirm ≠ none ∧ (confirmBad.args.length = 1 ∨ confirmBad.args.length = 2) ∧
       ∃ a ∈ confirmBad.args, dec0 a = none)) :=
  ⟨by nv, by nv, Or.inr ⟨uiAll_confirm, by decide, by decide⟩⟩

example : confirmNoArgs.type = "confirm" ∧
    (confirmNoArgs.args.length ≠ 1 ∧ confirmNoArgs.args.length ≠ 2) := by decide

example : (R₀ ⟨[rs0] ++ confirmBad :: [doneS], .eof⟩).result = .error .protocol :=
  have h := confirm_malformed_fatal_recipient_nonvacuous
  (confirm_malformed_fatal_recipient uiAll dec0 0 false "age1verif1q" [7] "grease-1" [rs0] confirmBad [doneS]
    .eof .eof h.1 h.2.1 h.2.2).1

/-- non-vacuity of `ui_dispatch_msg_identity`: a `msg` after a file key -/
theorem ui_dispatch_msg_identity_nonvacuous :
    msg1.type = "msg" ∧ Listening (I₀ ⟨[fk0], .eof⟩) .eof := ⟨by nv, by nv⟩

example := ui_dispatch_msg_identity uiAll dec0 0 "AGE-PLUGIN-VERIF-1Q" [⟨"X25519", ["abc"], [1]⟩] "grease-1"
  [fk0] msg1 .eof .eof ui_dispatch_msg_identity_nonvacuous.1 ui_dispatch_msg_identity_nonvacuous.2

/-- non-vacuity of `ui_dispatch_request_identity`: `request-secret` "PIN?" before any file key -/
theorem ui_dispatch_request_identity_nonvacuous :
    (reqSecret.type = "request-secret" ∨ reqSecret.type = "request-public") ∧
    Listening (I₀ ⟨[msg1], .eof⟩) .eof := ⟨by nv, by nv⟩

example := ui_dispatch_request_identity uiAll dec0 0 "AGE-PLUGIN-VERIF-1Q" [⟨"X25519", ["abc"], [1]⟩] "grease-1"
  [msg1] reqSecret .eof .eof ui_dispatch_request_identity_nonvacuous.1 ui_dispatch_request_identity_nonvacuous.2

/-- non-vacuity of `ui_dispatch_confirm_identity`: `confirm eWVz bm8`, Confirm callback present -/
theorem ui_dispatch_confirm_identity_nonvacuous :
    confirm1.type = "confirm" ∧ Listening (I₀ ⟨[msg1], .eof⟩) .eof ∧
    ((confirm1.args = ["eWVz"] ∧ ([110, 111] : Bytes) = []) ∨
      (∃ n, confirm1.args = ["eWVz", n] ∧ (uiAll.confirm ≠ none → dec0 n = some [110, 111]))) ∧
    (uiAll.confirm ≠ none → dec0 "eWVz" = some [121, 101, 115]) :=
  ⟨by nv, by nv, Or.inr ⟨"bm8", by decide, fun _ => by decide⟩, fun _ => by decide⟩

example :=
  have h := ui_dispatch_confirm_identity_nonvacuous
  ui_dispatch_confirm_identity uiAll dec0 0 "AGE-PLUGIN-VERIF-1Q" [⟨"X25519", ["abc"], [1]⟩] "grease-1"
    [msg1] confirm1 .eof .eof h.1 h.2.1 "eWVz" [121, 101, 115] [110, 111] h.2.2.1 h.2.2.2

/-- non-vacuity of `confirm_malformed_fatal_identity`: `confirm` without arguments
    (first alternative; the second one is witnessed for the wrap above and by
    the `example` below) -/
theorem confirm_malformed_fatal_identity_nonvacuous :
    confirmNoArgs.type = "confirm" ∧ Listening (I₀ ⟨[msg1], .eof⟩) .eof ∧
    ((confirmNoArgs.args.length ≠ 1 ∧ confirmNoArgs.args.length ≠ 2) ∨
     (uiAll.confirm ≠ none ∧ (confirmNoArgs.args.length = 1 ∨ confirmNoArgs.args.length = 2) ∧
       ∃ a ∈ confirmNoArgs.args, dec0 a = none)) :=
  ⟨by nv, by nv, Or.inl (by decide)⟩

example : uiAll.confirm ≠ none ∧ (confirm1.args.length = 1 ∨ confirm1.args.length = 2) ∧
    ∃ a ∈ (⟨"confirm", ["eWVz", "b"], []⟩ : Stanza).args, dec0 a = none := ⟨uiAll_confirm, by decide, by decide⟩

example : (I₀ ⟨[msg1] ++ confirmNoArgs :: [doneS], .eof⟩).result = .error .protocol :=
  have h := confirm_malformed_fatal_identity_nonvacuous
  (confirm_malformed_fatal_identity uiAll dec0 0 "AGE-PLUGIN-VERIF-1Q" [⟨"X25519", ["abc"], [1]⟩] "grease-1"
    [msg1] confirmNoArgs [doneS] .eof .eof h.1 h.2.1 h.2.2).1

/-- non-vacuity of `no_stanza_wrap_fails` (no outer hypotheses; the premises of its
    two parts): a wrap that succeeds with two stanzas and empty labels; and a
    `done` reaching a client that has only seen `labels` and a `msg` -/
theorem no_stanza_wrap_fails_nonvacuous :
    (R₀ ⟨[rs0, labels0, msg1, rsPlus0, doneS, rs1], .eof⟩).result =
      .ok ([⟨"X25519", ["abc"], [1, 2]⟩, ⟨"scrypt", [], []⟩], some []) ∧
    ((⟨[labels0, msg1, doneS, rs0], .eof⟩ : Conv).msgs = [labels0, msg1] ++ doneS :: [rs0] ∧
      Listening (R₀ ⟨[labels0, msg1], .malformed⟩) .malformed ∧
      (∀ x ∈ [labels0, msg1], x.type ≠ "recipient-stanza") ∧ doneS.type = "done") :=
  ⟨by decide, rfl, by nv, by nv, by nv⟩

example : (R₀ ⟨[labels0, msg1, doneS, rs0], .eof⟩).result = .error .noStanzas :=
  have h := no_stanza_wrap_fails_nonvacuous.2
  ((no_stanza_wrap_fails uiAll dec0 0 false "age1verif1q" [7] "grease-1" ⟨[labels0, msg1, doneS, rs0], .eof⟩).2
    [labels0, msg1] doneS [rs0] .malformed h.1 h.2.1 h.2.2.1 h.2.2.2).1

/-- non-vacuity of `no_filekey_incorrect_identity` (no outer hypotheses; the
    premises of its two parts): an unwrap that succeeds with the key `[9, 9]`; and
    a `done` reaching a client that has only seen a `file-key` with an empty body
    and a `msg` -/
theorem no_filekey_incorrect_identity_nonvacuous :
    (I₀ ⟨[msg1, fk0, unknown1, doneS, fk0], .eof⟩).result = .ok [9, 9] ∧
    ((⟨[fk0e, msg1, doneS, fk0], .eof⟩ : Conv).msgs = [fk0e, msg1] ++ doneS :: [fk0] ∧
      Listening (I₀ ⟨[fk0e, msg1], .eof⟩) .eof ∧
      (∀ x ∈ [fk0e, msg1], x.type = "file-key" → x.body = []) ∧ doneS.type = "done") :=
  ⟨by decide, rfl, by nv, by nv, by nv⟩

example : (I₀ ⟨[fk0e, msg1, doneS, fk0], .eof⟩).result = .error .incorrectIdentity :=
  have h := no_filekey_incorrect_identity_nonvacuous.2
  ((no_filekey_incorrect_identity uiAll dec0 0 "AGE-PLUGIN-VERIF-1Q" [⟨"X25519", ["abc"], [1]⟩] "grease-1"
    ⟨[fk0e, msg1, doneS, fk0], .eof⟩).2 [fk0e, msg1] doneS [fk0] .eof h.1 h.2.1 h.2.2.1 h.2.2.2).1

/-- non-vacuity of `eof_is_error_recipient`: a stanza, `labels`, a `msg`, then the stream ends -/
theorem eof_is_error_recipient_nonvacuous : noDone [rs0, labels0, msg1] := by nv

example : Hard (R₀ ⟨[rs0, labels0, msg1], .eof⟩).result :=
  eof_is_error_recipient uiAll dec0 0 false "age1verif1q" [7] "grease-1" _ .eof eof_is_error_recipient_nonvacuous

/-- non-vacuity of `eof_is_error_identity`: a file key and a `confirm`, then malformed framing -/
theorem eof_is_error_identity_nonvacuous : noDone [fk0, confirm1] := by nv

example : Hard (I₀ ⟨[fk0, confirm1], .malformed⟩).result :=
  eof_is_error_identity uiAll dec0 0 "AGE-PLUGIN-VERIF-1Q" [⟨"X25519", ["abc"], [1]⟩] "grease-1" _ .malformed
    eof_is_error_identity_nonvacuous

/-- non-vacuity of `hard_excludes`: the result of a wrap whose second stanza has index 1 -/
theorem hard_excludes_nonvacuous : Hard (R₀ ⟨[rs0, rs1, doneS], .eof⟩).result :=
  ⟨.protocol, by decide, trivial⟩

example : (R₀ ⟨[rs0, rs1, doneS], .eof⟩).result ≠ .error .noStanzas :=
  (hard_excludes _ hard_excludes_nonvacuous).2.2

/-- non-vacuity of `eof_after_harmless_messages`: a `msg`, an unknown command, `request-public` -/
theorem eof_after_harmless_messages_nonvacuous :
    ∀ m ∈ [msg1, unknown1, (⟨"request-public", [], []⟩ : Stanza)], harmless m.type := by nv

example := eof_after_harmless_messages uiAll dec0 0 false "age1verif1q" [7] [⟨"X25519", ["abc"], [1]⟩] "grease-1"
  _ .eof eof_after_harmless_messages_nonvacuous

end Nonvacuous

end Props.C16
end AgeModel
