/-
  C04 — identities that match no recipient never obtain plaintext.
-/
import Proofs.FileDecrypt
import Props.C01
import Proofs.ScryptEquiv
import Proofs.ScryptNul
import AgeModel.Exec.FileExec
namespace AgeModel
namespace Props.C04
open Format Stream

/-- If every identity answers "incorrect identity" on the file's stanzas, Decrypt
    returns the dedicated no-match error with exactly one cause per identity, and
    no reader (hence not a single plaintext byte): for ALL files, ALL identity lists. -/
theorem no_match_structure (P : Prims) (ids : List Identity) (hne : ids ≠ []) (file : Bytes) (hdr : Header) (rest : Bytes)
    (hp : parse file = .ok (hdr, rest))
    (hall : ∀ i ∈ ids, i.unwrap P hdr.stanzas = .incorrect) :
    decryptInit P ids file = (.error (.noMatch ids.length), ids.length) := by
  unfold decryptInit
  have : ids.isEmpty = false := by cases ids with | nil => exact absurd rfl hne | cons _ _ => rfl
  simp only [this, Bool.false_eq_true, if_false, hp]
  have := identityLoop_all_incorrect P hdr.stanzas ids hall 0 0
  rw [this.1, this.2]
  simp

/-- Decrypt hands out a payload reader only if some identity returned a file key that verifies the header MAC:
    without a key there is no reader. The key is non-empty unless the identity that ended the loop is an ssh-rsa
    identity (`endsNonNil`): `rsa.DecryptOAEP` hands back an empty message as an empty NON-nil slice, which
    `Decrypt`'s `fileKey == nil` does not take for "no key" — a hand-built file around an empty file key addressed to
    an ssh-rsa key decrypts (correspondence cases `fksize/ssh-rsa/0/*`); no other identity type does this. -/
theorem reader_requires_key (P : Prims) (ids : List Identity) (file : Bytes) (k payload : Bytes) (c : Nat)
    (h : decryptInit P ids file = (.ok (k, payload), c)) :
    ∃ hdr rest fk, parse file = .ok (hdr, rest) ∧ (∃ i ∈ ids, i.unwrap P hdr.stanzas = .key fk) ∧
      (fk ≠ [] ∨ endsNonNil P hdr.stanzas ids = true) ∧ headerMAC P fk hdr.stanzas = hdr.mac := by
  obtain ⟨hdr, rest, fk, h1, h2, h3, h4, _⟩ := decryptInit_ok P ids file k payload c h
  exact ⟨hdr, rest, fk, h1, h2, h3, h4⟩

/-- identities of a type the header has no stanza for, and SSH identities whose
    public-key tag differs, answer "incorrect identity" — no cryptography involved -/
theorem other_type_incorrect (P : Prims) (ss : List Stanza) :
    (∀ sk, (∀ s ∈ ss, s.type ≠ tX25519) → (Identity.x25519 sk).unwrap P ss = .incorrect) ∧
    (∀ w sk, (∀ s ∈ ss, s.type ≠ tSshEd) → (Identity.sshEd w sk).unwrap P ss = .incorrect) ∧
    (∀ w k, (∀ s ∈ ss, s.type ≠ tSshRsa) → (Identity.sshRsa w k).unwrap P ss = .incorrect) := by
  refine ⟨?_, ?_, ?_⟩
  · intro sk h
    exact multiUnwrap_all_incorrect _ ss (fun s hs => x25519_other_type P sk s (h s hs))
  · intro w sk h
    exact multiUnwrap_all_incorrect _ ss (fun s hs => sshEd_other_type P w sk s (h s hs))
  · intro w k h
    exact multiUnwrap_all_incorrect _ ss (fun s hs => sshRsa_other_type P w k s (h s hs))

/-- passphrase identity and a header without a passphrase stanza -/
theorem scrypt_no_stanza_incorrect (P : Prims) (pw : Bytes) (m : Nat) (ss : List Stanza)
    (h : ∀ s ∈ ss, s.type ≠ tScrypt) : (Identity.scrypt pw m).unwrap P ss = .incorrect := by
  unfold Identity.unwrap Identity.unwrapLog
  have hany : ss.any (fun s => s.type = tScrypt) = false := by
    rw [List.any_eq_false]; intro s hs; simp [h s hs]
  simp only [hany, Bool.false_eq_true, false_and, if_false]
  induction ss with
  | nil => rfl
  | cons s ss ih =>
    unfold multiUnwrapLog
    rw [scrypt_other_type P pw m s (h s (by simp))]
    simp only
    have := ih (fun x hx => h x (by simp [hx])) (by
      rw [List.any_eq_false]; intro x hx; simp [h x (by simp [hx])])
    generalize multiUnwrapLog (unwrapScrypt P pw m) ss = r at this ⊢
    obtain ⟨a, b⟩ := r
    simp only at this ⊢
    exact this

/-- **Reduction form for a wrong key of the right type.** An X25519 identity run on
    a stanza answers with a key ONLY IF the AEAD opened the stanza body under the
    wrapping key this identity derives. So for an honest stanza wrapped to another
    key pair, anything but "incorrect identity" / an X25519 error is an AEAD opening
    under a key the body was not sealed with (the code's own comment on non-robust
    AEADs explains why this cannot be unconditional). -/
theorem wrong_key_reduction (P : Prims) (sk : Bytes) (s : Stanza) (k : Bytes)
    (h : unwrapX25519 P sk s = .key k) :
    ∃ pk shared, s.args = [B64.encRaw pk] ∧ P.x25519 sk pk = some shared ∧
      P.wrapOpen (P.hkdf shared (pk ++ (P.x25519 sk P.basepoint).getD []) x25519Label 32) s.body = some k := by
  unfold unwrapX25519 at h
  split at h
  · simp at h
  · split at h
    · rename_i a hargs
      split at h
      · simp at h
      · rename_i pk hd
        split at h
        · simp at h
        · split at h
          · simp at h
          · rename_i shared hs
            unfold aeadDecryptSized at h
            split at h
            · simp at h
            · simp only at h
              split at h
              · rename_i k' ho
                simp only [UnwrapResult.key.injEq] at h
                subst h
                exact ⟨pk, shared, by rw [hargs, decodeString_canon hd], hs, ho⟩
              · simp at h
    · simp at h

/-- under the idealisation "the honest body does not open under the key the wrong
    identity derives FROM THIS STANZA'S ephemeral share" (one key, not a family), the wrong identity
    answers "incorrect identity" or a fatal error — never a key -/
theorem wrong_key_incorrect (P : Prims) (sk : Bytes) (s : Stanza)
    (hideal : ∀ pk shared, s.args = [B64.encRaw pk] → P.x25519 sk pk = some shared →
      P.wrapOpen (P.hkdf shared (pk ++ (P.x25519 sk P.basepoint).getD []) x25519Label 32) s.body = none) :
    ∀ k, unwrapX25519 P sk s ≠ .key k := by
  intro k h
  obtain ⟨pk, shared, ha, hs, ho⟩ := wrong_key_reduction P sk s k h
  rw [hideal pk shared ha hs] at ho
  simp at ho

/-- **Reduction form for a wrong passphrase.** A passphrase identity answers a stanza
    with a key ONLY IF the AEAD opened the body under the key scrypt derives from
    THIS passphrase and the stanza's salt and work factor. -/
theorem wrong_passphrase_reduction (P : Prims) (pw : Bytes) (m : Nat) (s : Stanza) (k : Bytes)
    (h : (unwrapScrypt P pw m s).1 = .key k) :
    ∃ a w salt logN, s.args = [a, w] ∧ decodeString a = some salt ∧ parseWorkFactor w = some logN ∧
      logN ≤ m ∧ salt.length = scryptSaltSize ∧
      P.wrapOpen (P.scrypt pw (scryptLabel ++ salt) logN) s.body = some k := by
  unfold unwrapScrypt at h
  split at h
  · simp at h
  · split at h
    · rename_i a w hargs
      split at h
      · simp at h
      · rename_i salt hd
        split at h
        · simp at h
        · rename_i hsl
          split at h
          · simp at h
          · rename_i logN hw
            split at h
            · simp at h
            · rename_i hle
              simp only at h
              unfold aeadDecryptSized at h
              split at h
              · simp at h
              · split at h
                · rename_i k' ho
                  simp only [UnwrapResult.key.injEq] at h
                  subst h
                  exact ⟨a, w, salt, logN, hargs, hd, hw, by omega, by simpa using hsl, ho⟩
                · simp at h
    · simp at h

/-- under the idealisation "the honest body does not open under the key this other
    passphrase derives with THIS STANZA'S salt and work factor" (one key, not a family), the wrong
    passphrase never yields a key -/
theorem wrong_passphrase_incorrect (P : Prims) (pw : Bytes) (m : Nat) (s : Stanza)
    (hideal : ∀ a w salt logN, s.args = [a, w] → decodeString a = some salt → parseWorkFactor w = some logN →
      P.wrapOpen (P.scrypt pw (scryptLabel ++ salt) logN) s.body = none) :
    ∀ k, (unwrapScrypt P pw m s).1 ≠ .key k := by
  intro k h
  obtain ⟨a, w, salt, logN, ha, hd, hw, _, _, ho⟩ := wrong_passphrase_reduction P pw m s k h
  rw [hideal a w salt logN ha hd hw] at ho
  simp at ho

/-! ## Known finding K1 — the idealisation above is FALSE for one family of
    "other passphrases": scrypt takes the passphrase only as an HMAC-SHA-256 key
    (PBKDF2), and HMAC pads a key shorter than its 64-byte block with zero bytes.
    A passphrase and the same passphrase followed by NUL bytes are therefore the
    same identity: whatever file one opens, the other opens.  Proved here for the
    concrete key derivation the reference implementation runs (tested against
    x/crypto/scrypt on every setup); replayed against age.Decrypt by the C04 suite
    (kind `passphrase-nul-suffix`), listed in known_findings.json. -/

theorem finding_K1_same_kdf (pw : Bytes) (h : pw.length < 64) :
    ∀ salt n, Exec.File.concrete.scrypt (pw ++ [0]) salt n = Exec.File.concrete.scrypt pw salt n := by
  intro salt n
  exact Crypto.scrypt_nul_suffix pw salt n 8 1 32 h

/-- for every file and every position in every identity list, the NUL-suffixed
    passphrase behaves exactly as the passphrase itself: same reader, same plaintext,
    same error, same number of identities consulted -/
theorem finding_K1_nul_suffix_passphrase (pw : Bytes) (h : pw.length < 64) (m : Nat)
    (pre post : List Identity) (file : Bytes) :
    decryptInit Exec.File.concrete (pre ++ Identity.scrypt (pw ++ [0]) m :: post) file =
      decryptInit Exec.File.concrete (pre ++ Identity.scrypt pw m :: post) file := by
  apply decryptInit_congr
  have hrefl : ∀ l : List Identity, SameIds Exec.File.concrete l l := by
    intro l
    induction l with
    | nil => exact .nil
    | cons i is ih => exact .cons ⟨fun _ => rfl, rfl⟩ ih
  induction pre with
  | nil => exact .cons (scryptIdentity_same _ pw (pw ++ [0]) m (finding_K1_same_kdf pw h)) (hrefl post)
  | cons i is ih => exact .cons ⟨fun _ => rfl, rfl⟩ ih

/-! ## Known finding K2 — same root cause: HMAC replaces a key longer than its
    64-byte block by the key's SHA-256 digest, so for a passphrase longer than 64
    bytes the 32 digest bytes, used as a passphrase, are the same identity. -/

theorem finding_K2_same_kdf (pw : Bytes) (h : pw.length > 64) :
    ∀ salt n, Exec.File.concrete.scrypt (Crypto.sha256 pw) salt n = Exec.File.concrete.scrypt pw salt n := by
  intro salt n
  exact (Crypto.scrypt_long_passphrase pw salt n 8 1 32 h).symm

theorem finding_K2_digest_passphrase (pw : Bytes) (h : pw.length > 64) (m : Nat)
    (pre post : List Identity) (file : Bytes) :
    decryptInit Exec.File.concrete (pre ++ Identity.scrypt (Crypto.sha256 pw) m :: post) file =
      decryptInit Exec.File.concrete (pre ++ Identity.scrypt pw m :: post) file := by
  apply decryptInit_congr
  have hrefl : ∀ l : List Identity, SameIds Exec.File.concrete l l := by
    intro l
    induction l with
    | nil => exact .nil
    | cons i is ih => exact .cons ⟨fun _ => rfl, rfl⟩ ih
  induction pre with
  | nil => exact .cons (scryptIdentity_same _ pw (Crypto.sha256 pw) m (finding_K2_same_kdf pw h)) (hrefl post)
  | cons i is ih => exact .cons ⟨fun _ => rfl, rfl⟩ ih

/-- an SSH identity whose tag differs from the stanza's answers "incorrect identity" -/
theorem ssh_other_tag_incorrect (P : Prims) (w k : Bytes) (s : Stanza) (tag : Bytes)
    (ht : s.type = tSshRsa) (hargs : s.args = [tag]) (hne : tag ≠ sshTag P w) :
    unwrapSshRsa P w k s = .incorrect := sshRsa_other_tag P w k s tag ht hargs hne

/-- non-vacuity: a header with one grease stanza and an X25519 identity -/
example : ∀ s ∈ [({ type := [103], args := [], body := [] } : Stanza)], s.type ≠ tX25519 := by decide

/-- non-vacuity of `reader_requires_key`: a concrete run in which a reader IS obtained (toy primitives) -/
example : ∃ ids file k payload c, decryptInit Prims.toy ids file = (.ok (k, payload), c) :=
  let ⟨f, k, p, _, _, h⟩ := Props.C01.nonvacuous_roundtrip
  ⟨_, f, k, p, 1, h⟩

/-! ## Non-vacuity: for every theorem above, concrete values meeting all of its hypotheses at once -/

/-- witness values: a 16-byte file key; the two stanzas an ssh-rsa and an X25519 recipient wrap it in under the toy
    primitives; a passphrase and an ssh-ed25519 identity (both answer "incorrect" on these stanzas) and the X25519
    identity that opens the second stanza; a 16-byte payload nonce; a 9-byte plaintext; the honest file (chunks of 4) -/
def wFk : Bytes := [1, 2, 3, 4, 5, 6, 7, 8, 9, 10, 11, 12, 13, 14, 15, 16]
def wX : Stanza := { type := tX25519, args := [B64.encRaw (List.replicate 32 0)], body := wFk ++ List.replicate 12 0 }
def wStanzas : List Stanza := [{ type := tSshRsa, args := [sshTag Prims.toy [1, 2, 3]], body := wFk }, wX]
def wPre : List Identity := [Identity.scrypt [112] 22, Identity.sshEd [1] [2]]
def wId : Identity := Identity.x25519 (List.replicate 32 2)
def wNonce : Bytes := List.replicate 16 8
def wPt : Bytes := [1, 2, 3, 4, 5, 6, 7, 8, 9]
def wFile : Bytes := specFile Prims.toy 4 wFk wStanzas wNonce wPt

/-- (helper for the witnesses below) -/
theorem wStanzas_wf : ∀ s ∈ wStanzas, s.WF := by
  intro s hs
  simp only [wStanzas, wX, List.mem_cons, List.mem_nil_iff, or_false] at hs
  rcases hs with rfl | rfl <;> exact ⟨by decide, by decide⟩

/-- non-vacuity of `no_match_structure`: toy primitives; the honest two-stanza file and the two identities (passphrase,
    ssh-ed25519) that answer "incorrect" -/
theorem no_match_structure_nonvacuous :
    wPre ≠ [] ∧
    parse wFile = .ok ({ stanzas := wStanzas, mac := headerMAC Prims.toy wFk wStanzas },
      wNonce ++ Stream.encrypt Prims.toy.aead 4 (streamKey Prims.toy wFk wNonce) wPt) ∧
    (∀ i ∈ wPre, i.unwrap Prims.toy wStanzas = .incorrect) :=
  ⟨by simp [wPre], specFile_parse Prims.toy Prims.toy_correct 4 wFk wNonce wPt wStanzas wStanzas_wf, by decide⟩

example : decryptInit Prims.toy wPre wFile = (.error (.noMatch 2), 2) :=
  let ⟨hne, hp, hall⟩ := no_match_structure_nonvacuous
  no_match_structure Prims.toy wPre hne wFile _ _ hp hall

/-- non-vacuity of `reader_requires_key`: the same file is accepted once the X25519 identity follows those two -/
theorem reader_requires_key_nonvacuous :
    decryptInit Prims.toy (wPre ++ wId :: []) wFile =
      (.ok (streamKey Prims.toy wFk wNonce, Stream.encrypt Prims.toy.aead 4 (streamKey Prims.toy wFk wNonce) wPt), 3) :=
  decryptInit_specFile Prims.toy Prims.toy_correct 4 wFk wNonce wPt wStanzas wStanzas_wf (by decide) (by decide)
    wPre [] wId (by decide) (by decide)

/-- an ssh-rsa stanza with an EMPTY body (the toy OAEP hands the body back as the key) -/
def wR0 : Stanza := { type := tSshRsa, args := [sshTag Prims.toy [1, 2, 3]], body := [] }

/-- the second disjunct of `reader_requires_key`'s conclusion is reachable too: toy primitives, the header `[wR0]` with
    its MAC under the empty file key: the ssh-rsa identity is handed the empty key, `endsNonNil` holds, and Decrypt
    returns a reader -/
theorem reader_requires_key_nonvacuous_empty_key :
    decryptInit Prims.toy [Identity.sshRsa [1, 2, 3] [9]] (specFile Prims.toy 4 [] [wR0] wNonce wPt) =
      (.ok (streamKey Prims.toy [] wNonce, Stream.encrypt Prims.toy.aead 4 (streamKey Prims.toy [] wNonce) wPt), 1) ∧
    (Identity.sshRsa [1, 2, 3] [9]).unwrap Prims.toy [wR0] = .key [] ∧
    endsNonNil Prims.toy [wR0] [Identity.sshRsa [1, 2, 3] [9]] = true := by
  refine ⟨?_, by decide, by decide⟩
  unfold decryptInit
  rw [specFile_parse Prims.toy Prims.toy_correct 4 [] wNonce wPt [wR0]
    (by intro s hs; simp only [List.mem_singleton] at hs; subst hs; exact ⟨by decide, by decide⟩)]
  rfl

/-- non-vacuity of the three implications in `other_type_incorrect`: a header with a passphrase stanza and a grease
    stanza has no stanza of type X25519, ssh-ed25519 or ssh-rsa -/
theorem other_type_incorrect_nonvacuous :
    let ss : List Stanza := [wrapScrypt Prims.toy [112] 18 (List.replicate 16 3) wFk, { type := [103], args := [], body := [] }]
    (∀ s ∈ ss, s.type ≠ tX25519) ∧ (∀ s ∈ ss, s.type ≠ tSshEd) ∧ (∀ s ∈ ss, s.type ≠ tSshRsa) := by
  decide

/-- non-vacuity of `scrypt_no_stanza_incorrect`: the two-stanza header (ssh-rsa, X25519) has no passphrase stanza -/
theorem scrypt_no_stanza_incorrect_nonvacuous : ∀ s ∈ wStanzas, s.type ≠ tScrypt := by decide

/-- non-vacuity of `wrong_key_reduction`: toy primitives; the X25519 identity gets the file key out of the X25519 stanza -/
theorem wrong_key_reduction_nonvacuous : unwrapX25519 Prims.toy (List.replicate 32 2) wX = .key wFk := by decide

/-- non-vacuity of `wrong_passphrase_reduction`: toy primitives; a passphrase identity (maximum work factor 22) gets the
    file key out of the stanza wrapped with work factor 18 -/
theorem wrong_passphrase_reduction_nonvacuous :
    (unwrapScrypt Prims.toy [112] 22 (wrapScrypt Prims.toy [112] 18 (List.replicate 16 3) wFk)).1 = .key wFk := by decide

/-- non-vacuity of `finding_K1_same_kdf` and `finding_K1_nul_suffix_passphrase` (same hypothesis): the passphrase "pw" -/
theorem finding_K1_same_kdf_nonvacuous : ([112, 119] : Bytes).length < 64 := by decide
theorem finding_K1_nul_suffix_passphrase_nonvacuous : ([112, 119] : Bytes).length < 64 := by decide

/-- non-vacuity of `finding_K2_same_kdf` and `finding_K2_digest_passphrase` (same hypothesis): 65 times "a" -/
theorem finding_K2_same_kdf_nonvacuous : (List.replicate 65 (97 : UInt8)).length > 64 := by decide
theorem finding_K2_digest_passphrase_nonvacuous : (List.replicate 65 (97 : UInt8)).length > 64 := by decide

/-- non-vacuity of `ssh_other_tag_incorrect`: toy primitives (every ssh tag is "AAAAAA"); an ssh-rsa stanza tagged "BBBBBB" -/
theorem ssh_other_tag_incorrect_nonvacuous :
    let s : Stanza := { type := tSshRsa, args := [[66, 66, 66, 66, 66, 66]], body := wFk }
    s.type = tSshRsa ∧ s.args = [[66, 66, 66, 66, 66, 66]] ∧ ([66, 66, 66, 66, 66, 66] : Bytes) ≠ sshTag Prims.toy [1, 2, 3] := by
  decide

/-- A toy suite in which keys MATTER (the plain toy AEAD ignores its key, so there every body opens under every key):
    the AEAD tag is the toy tag followed by the first key byte; HKDF and scrypt hand on the first byte of their secret
    input; X25519 multiplies the first bytes (base point 1), a commutative "Diffie–Hellman". -/
def wKeyed : Prims :=
  { Prims.toy with
    aead :=
      { T := 13
        sealF := fun k n p => p ++ toyTag n ++ [k.headD 0]
        openF := fun k n c =>
          if 13 ≤ c.length ∧ c.drop (c.length - 13) = toyTag n ++ [k.headD 0] then some (c.take (c.length - 13)) else none }
    hkdf := fun ikm _ _ n => List.replicate n (ikm.headD 0)
    scrypt := fun pw _ _ => List.replicate 32 (pw.headD 0)
    x25519 := fun a b => some (List.replicate 32 (a.headD 0 * b.headD 0))
    basepoint := List.replicate 32 1 }

/-- the stanza an X25519 recipient with secret key 3… (public key 3…) gets under `wKeyed`, ephemeral secret 5… -/
def wXk : Stanza :=
  { type := tX25519, args := [B64.encRaw (List.replicate 32 5)], body := wFk ++ List.replicate 12 0 ++ [15] }

theorem two_mul_ne_15 (x : UInt8) : 2 * x ≠ 15 := by
  intro h
  have := congrArg UInt8.toNat h
  simp [UInt8.toNat_mul] at this
  omega

/-- non-vacuity of `wrong_key_incorrect`: key-sensitive primitives `wKeyed`; `wXk` is the honest stanza for the key pair
    (3…, 3…) and its own identity opens it; the other identity, secret key 2…, derives only wrapping keys with an even
    first byte whatever the peer share, and the body (sealed under a key starting with 15) opens under none of them -/
theorem wrong_key_incorrect_nonvacuous :
    wrapX25519 wKeyed (List.replicate 32 3) (List.replicate 32 5) wFk = some wXk ∧
    unwrapX25519 wKeyed (List.replicate 32 3) wXk = .key wFk ∧
    (∀ pk shared, wXk.args = [B64.encRaw pk] → wKeyed.x25519 (List.replicate 32 2) pk = some shared →
      wKeyed.wrapOpen (wKeyed.hkdf shared (pk ++ (wKeyed.x25519 (List.replicate 32 2) wKeyed.basepoint).getD []) x25519Label 32)
        wXk.body = none) := by
  refine ⟨by decide, by decide, ?_⟩
  intro pk shared _ h
  simp only [wKeyed, Option.some.injEq] at h
  subst h
  have : ∀ x : UInt8, wKeyed.wrapOpen (List.replicate 32 (2 * x)) wXk.body = none := by
    intro x
    simp [Prims.wrapOpen, wKeyed, wXk, wFk, zeroNonce, toyTag]
    exact fun h => two_mul_ne_15 x h.symm
  exact this (pk.headD 0)

example : ∀ k, unwrapX25519 wKeyed (List.replicate 32 2) wXk ≠ .key k :=
  wrong_key_incorrect wKeyed _ wXk wrong_key_incorrect_nonvacuous.2.2

/-- non-vacuity of `wrong_passphrase_incorrect`: `wKeyed` again; the stanza is the honest one for passphrase [1] (which
    opens it); every key the other passphrase [2] derives starts with 2, and the body does not open under it -/
theorem wrong_passphrase_incorrect_nonvacuous :
    (unwrapScrypt wKeyed [1] 22 (wrapScrypt wKeyed [1] 18 (List.replicate 16 3) wFk)).1 = .key wFk ∧
    (∀ a w salt logN, (wrapScrypt wKeyed [1] 18 (List.replicate 16 3) wFk).args = [a, w] → decodeString a = some salt →
      parseWorkFactor w = some logN → wKeyed.wrapOpen (wKeyed.scrypt [2] (scryptLabel ++ salt) logN)
      (wrapScrypt wKeyed [1] 18 (List.replicate 16 3) wFk).body = none) :=
  ⟨by decide, fun _ _ _ _ _ _ _ =>
    (by decide : wKeyed.wrapOpen (List.replicate 32 2) (wrapScrypt wKeyed [1] 18 (List.replicate 16 3) wFk).body = none)⟩

example : ∀ k, (unwrapScrypt wKeyed [2] 22 (wrapScrypt wKeyed [1] 18 (List.replicate 16 3) wFk)).1 ≠ .key k :=
  wrong_passphrase_incorrect wKeyed [2] 22 _ wrong_passphrase_incorrect_nonvacuous.2

end Props.C04
end AgeModel
