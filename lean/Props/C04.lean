/-
  C04 — identities that match no recipient never obtain plaintext.
-/
import Proofs.FileDecrypt
import Props.C01
import Proofs.ScryptEquiv
import Proofs.ScryptNul
import AgeModel.Exec.FileExec
namespace AgeModel
namespace Props.C04
open Format Stream

/-- If every identity answers "incorrect identity" on the file's stanzas, Decrypt
    returns the dedicated no-match error with exactly one cause per identity, and
    no reader (hence not a single plaintext byte): for ALL files, ALL identity lists. -/
theorem no_match_structure (P : Prims) (ids : List Identity) (hne : ids ≠ []) (file : Bytes) (hdr : Header) (rest : Bytes)
    (hp : parse file = .ok (hdr, rest))
    (hall : ∀ i ∈ ids, i.unwrap P hdr.stanzas = .incorrect) :
    decryptInit P ids file = (.error (.noMatch ids.length), ids.length) := by
  unfold decryptInit
  have : ids.isEmpty = false := by cases ids with | nil => exact absurd rfl hne | cons _ _ => rfl
  simp only [this, Bool.false_eq_true, if_false, hp]
  have := identityLoop_all_incorrect P hdr.stanzas ids hall 0 0
  rw [this.1, this.2]
  simp

/-- Decrypt hands out a payload reader only if some identity returned a file key that verifies the header MAC:
    without a key there is no reader. The key is non-empty unless the identity that ended the loop is an ssh-rsa
    identity (`endsNonNil`): `rsa.DecryptOAEP` hands back an empty message as an empty NON-nil slice, which
    `Decrypt`'s `fileKey == nil` does not take for "no key" — a hand-built file around an empty file key addressed to
    an ssh-rsa key decrypts (correspondence cases `fksize/ssh-rsa/0/*`); no other identity type does this. -/
theorem reader_requires_key (P : Prims) (ids : List Identity) (file : Bytes) (k payload : Bytes) (c : Nat)
    (h : decryptInit P ids file = (.ok (k, payload), c)) :
    ∃ hdr rest fk, parse file = .ok (hdr, rest) ∧ (∃ i ∈ ids, i.unwrap P hdr.stanzas = .key fk) ∧
      (fk ≠ [] ∨ endsNonNil P hdr.stanzas ids = true) ∧ headerMAC P fk hdr.stanzas = hdr.mac := by
  obtain ⟨hdr, rest, fk, h1, h2, h3, h4, _⟩ := decryptInit_ok P ids file k payload c h
  exact ⟨hdr, rest, fk, h1, h2, h3, h4⟩

/-- identities of a type the header has no stanza for, and SSH identities whose
    public-key tag differs, answer "incorrect identity" — no cryptography involved -/
theorem other_type_incorrect (P : Prims) (ss : List Stanza) :
    (∀ sk, (∀ s ∈ ss, s.type ≠ tX25519) → (Identity.x25519 sk).unwrap P ss = .incorrect) ∧
    (∀ w sk, (∀ s ∈ ss, s.type ≠ tSshEd) → (Identity.sshEd w sk).unwrap P ss = .incorrect) ∧
    (∀ w k, (∀ s ∈ ss, s.type ≠ tSshRsa) → (Identity.sshRsa w k).unwrap P ss = .incorrect) := by
  refine ⟨?_, ?_, ?_⟩
  · intro sk h
    exact multiUnwrap_all_incorrect _ ss (fun s hs => x25519_other_type P sk s (h s hs))
  · intro w sk h
    exact multiUnwrap_all_incorrect _ ss (fun s hs => sshEd_other_type P w sk s (h s hs))
  · intro w k h
    exact multiUnwrap_all_incorrect _ ss (fun s hs => sshRsa_other_type P w k s (h s hs))

/-- passphrase identity and a header without a passphrase stanza -/
theorem scrypt_no_stanza_incorrect (P : Prims) (pw : Bytes) (m : Nat) (ss : List Stanza)
    (h : ∀ s ∈ ss, s.type ≠ tScrypt) : (Identity.scrypt pw m).unwrap P ss = .incorrect := by
  unfold Identity.unwrap Identity.unwrapLog
  have hany : ss.any (fun s => s.type = tScrypt) = false := by
    rw [List.any_eq_false]; intro s hs; simp [h s hs]
  simp only [hany, Bool.false_eq_true, false_and, if_false]
  induction ss with
  | nil => rfl
  | cons s ss ih =>
    unfold multiUnwrapLog
    rw [scrypt_other_type P pw m s (h s (by simp))]
    simp only
    have := ih (fun x hx => h x (by simp [hx])) (by
      rw [List.any_eq_false]; intro x hx; simp [h x (by simp [hx])])
    generalize multiUnwrapLog (unwrapScrypt P pw m) ss = r at this ⊢
    obtain ⟨a, b⟩ := r
    simp only at this ⊢
    exact this

/-- **Reduction form for a wrong key of the right type.** An X25519 identity run on
    a stanza answers with a key ONLY IF the AEAD opened the stanza body under the
    wrapping key this identity derives. So for an honest stanza wrapped to another
    key pair, anything but "incorrect identity" / an X25519 error is an AEAD opening
    under a key the body was not sealed with (the code's own comment on non-robust
    AEADs explains why this cannot be unconditional). -/
theorem wrong_key_reduction (P : Prims) (sk : Bytes) (s : Stanza) (k : Bytes)
    (h : unwrapX25519 P sk s = .key k) :
    ∃ pk shared, s.args = [B64.encRaw pk] ∧ P.x25519 sk pk = some shared ∧
      P.wrapOpen (P.hkdf shared (pk ++ (P.x25519 sk P.basepoint).getD []) x25519Label 32) s.body = some k := by
  unfold unwrapX25519 at h
  split at h
  · simp at h
  · split at h
    · rename_i a hargs
      split at h
      · simp at h
      · rename_i pk hd
        split at h
        · simp at h
        · split at h
          · simp at h
          · rename_i shared hs
            unfold aeadDecryptSized at h
            split at h
            · simp at h
            · simp only at h
              split at h
              · rename_i k' ho
                simp only [UnwrapResult.key.injEq] at h
                subst h
                exact ⟨pk, shared, by rw [hargs, decodeString_canon hd], hs, ho⟩
              · simp at h
    · simp at h

/-- under the idealisation "the honest body does not open under the key the wrong
    identity derives", the wrong identity answers "incorrect identity" or a fatal
    error — never a key -/
theorem wrong_key_incorrect (P : Prims) (sk : Bytes) (s : Stanza)
    (hideal : ∀ pk shared, P.x25519 sk pk = some shared →
      P.wrapOpen (P.hkdf shared (pk ++ (P.x25519 sk P.basepoint).getD []) x25519Label 32) s.body = none) :
    ∀ k, unwrapX25519 P sk s ≠ .key k := by
  intro k h
  obtain ⟨pk, shared, _, hs, ho⟩ := wrong_key_reduction P sk s k h
  rw [hideal pk shared hs] at ho
  simp at ho

/-- **Reduction form for a wrong passphrase.** A passphrase identity answers a stanza
    with a key ONLY IF the AEAD opened the body under the key scrypt derives from
    THIS passphrase and the stanza's salt and work factor. -/
theorem wrong_passphrase_reduction (P : Prims) (pw : Bytes) (m : Nat) (s : Stanza) (k : Bytes)
    (h : (unwrapScrypt P pw m s).1 = .key k) :
    ∃ salt logN, s.args.length = 2 ∧ logN ≤ m ∧ salt.length = scryptSaltSize ∧
      P.wrapOpen (P.scrypt pw (scryptLabel ++ salt) logN) s.body = some k := by
  unfold unwrapScrypt at h
  split at h
  · simp at h
  · split at h
    · rename_i a w hargs
      split at h
      · simp at h
      · rename_i salt hd
        split at h
        · simp at h
        · rename_i hsl
          split at h
          · simp at h
          · rename_i logN hw
            split at h
            · simp at h
            · rename_i hle
              simp only at h
              unfold aeadDecryptSized at h
              split at h
              · simp at h
              · split at h
                · rename_i k' ho
                  simp only [UnwrapResult.key.injEq] at h
                  subst h
                  exact ⟨salt, logN, by rw [hargs]; rfl, by omega, by simpa using hsl, ho⟩
                · simp at h
    · simp at h

/-- under the idealisation "the honest body does not open under any key this other
    passphrase derives", the wrong passphrase never yields a key -/
theorem wrong_passphrase_incorrect (P : Prims) (pw : Bytes) (m : Nat) (s : Stanza)
    (hideal : ∀ salt logN, P.wrapOpen (P.scrypt pw (scryptLabel ++ salt) logN) s.body = none) :
    ∀ k, (unwrapScrypt P pw m s).1 ≠ .key k := by
  intro k h
  obtain ⟨salt, logN, _, _, _, ho⟩ := wrong_passphrase_reduction P pw m s k h
  rw [hideal salt logN] at ho
  simp at ho

/-! ## Known finding K1 — the idealisation above is FALSE for one family of
    "other passphrases": scrypt takes the passphrase only as an HMAC-SHA-256 key
    (PBKDF2), and HMAC pads a key shorter than its 64-byte block with zero bytes.
    A passphrase and the same passphrase followed by NUL bytes are therefore the
    same identity: whatever file one opens, the other opens.  Proved here for the
    concrete key derivation the reference implementation runs (tested against
    x/crypto/scrypt on every setup); replayed against age.Decrypt by the C04 suite
    (kind `passphrase-nul-suffix`), listed in known_findings.json. -/

theorem finding_K1_same_kdf (pw : Bytes) (h : pw.length < 64) :
    ∀ salt n, Exec.File.concrete.scrypt (pw ++ [0]) salt n = Exec.File.concrete.scrypt pw salt n := by
  intro salt n
  exact Crypto.scrypt_nul_suffix pw salt n 8 1 32 h

/-- for every file and every position in every identity list, the NUL-suffixed
    passphrase behaves exactly as the passphrase itself: same reader, same plaintext,
    same error, same number of identities consulted -/
theorem finding_K1_nul_suffix_passphrase (pw : Bytes) (h : pw.length < 64) (m : Nat)
    (pre post : List Identity) (file : Bytes) :
    decryptInit Exec.File.concrete (pre ++ Identity.scrypt (pw ++ [0]) m :: post) file =
      decryptInit Exec.File.concrete (pre ++ Identity.scrypt pw m :: post) file := by
  apply decryptInit_congr
  have hrefl : ∀ l : List Identity, SameIds Exec.File.concrete l l := by
    intro l
    induction l with
    | nil => exact .nil
    | cons i is ih => exact .cons ⟨fun _ => rfl, rfl⟩ ih
  induction pre with
  | nil => exact .cons (scryptIdentity_same _ pw (pw ++ [0]) m (finding_K1_same_kdf pw h)) (hrefl post)
  | cons i is ih => exact .cons ⟨fun _ => rfl, rfl⟩ ih

/-! ## Known finding K2 — same root cause: HMAC replaces a key longer than its
    64-byte block by the key's SHA-256 digest, so for a passphrase longer than 64
    bytes the 32 digest bytes, used as a passphrase, are the same identity. -/

theorem finding_K2_same_kdf (pw : Bytes) (h : pw.length > 64) :
    ∀ salt n, Exec.File.concrete.scrypt (Crypto.sha256 pw) salt n = Exec.File.concrete.scrypt pw salt n := by
  intro salt n
  exact (Crypto.scrypt_long_passphrase pw salt n 8 1 32 h).symm

theorem finding_K2_digest_passphrase (pw : Bytes) (h : pw.length > 64) (m : Nat)
    (pre post : List Identity) (file : Bytes) :
    decryptInit Exec.File.concrete (pre ++ Identity.scrypt (Crypto.sha256 pw) m :: post) file =
      decryptInit Exec.File.concrete (pre ++ Identity.scrypt pw m :: post) file := by
  apply decryptInit_congr
  have hrefl : ∀ l : List Identity, SameIds Exec.File.concrete l l := by
    intro l
    induction l with
    | nil => exact .nil
    | cons i is ih => exact .cons ⟨fun _ => rfl, rfl⟩ ih
  induction pre with
  | nil => exact .cons (scryptIdentity_same _ pw (Crypto.sha256 pw) m (finding_K2_same_kdf pw h)) (hrefl post)
  | cons i is ih => exact .cons ⟨fun _ => rfl, rfl⟩ ih

/-- an SSH identity whose tag differs from the stanza's answers "incorrect identity" -/
theorem ssh_other_tag_incorrect (P : Prims) (w k : Bytes) (s : Stanza) (tag : Bytes)
    (ht : s.type = tSshRsa) (hargs : s.args = [tag]) (hne : tag ≠ sshTag P w) :
    unwrapSshRsa P w k s = .incorrect := sshRsa_other_tag P w k s tag ht hargs hne

/-- non-vacuity: a header with one grease stanza and an X25519 identity -/
example : ∀ s ∈ [({ type := [103], args := [], body := [] } : Stanza)], s.type ≠ tX25519 := by decide

/-- non-vacuity of `reader_requires_key`: a concrete run in which a reader IS obtained (toy primitives) -/
example : ∃ ids file k payload c, decryptInit Prims.toy ids file = (.ok (k, payload), c) :=
  let ⟨f, k, p, _, _, h⟩ := Props.C01.nonvacuous_roundtrip
  ⟨_, f, k, p, 1, h⟩

end Props.C04
end AgeModel
