/-
  C18 — key files: every line counts or the whole file is rejected.
  Property theorems only (helper lemmas live in Proofs/KeyFile*.lean).

  Vocabulary (AgeModel/KeyFile.lean): `linesOf maxTok limit b` are the lines
  `bufio.Scanner` delivers for file contents `b` (read through
  `io.LimitReader(limit)`), `scanFailed …` says `scanner.Err() != nil`
  afterwards, `content l` = the line is neither empty nor a `#` comment,
  `p : Bytes → Option Key` is the single-line parser (a parameter: another
  model area), `parseLib p` the loop shared by `age.ParseIdentities`,
  `age.ParseRecipients` and the CLI's `parseIdentities`.
-/
import Proofs.KeyFileLib
namespace AgeModel
namespace Props.C18
open KeyFile

variable {Key : Type}

/-- the three entry points without a skip branch are one loop with different line parsers -/
theorem entry_points (p pp px : Bytes → Option Key) :
    parseIdentities p = parseLib p ∧ parseRecipients p = parseLib p ∧
    cliParseIdentities pp px = parseLib (cliIdentityLine pp px) :=
  ⟨rfl, rfl, rfl⟩

/-! ## the library parsers and the CLI identities parser -/

/-- The parse succeeds with `ks` iff the scanner did not fail, the parse results
    of the lines that are neither empty nor comments are exactly `some k` for
    the keys `k` of `ks` — one per line, in file order, none failing — and
    there is at least one. -/
theorem keyfile_exact (p : Bytes → Option Key) (maxTok limit : Nat) (b : Bytes) (ks : List Key) :
    parseLib p maxTok limit b = .ok ks ↔
      scanFailed maxTok limit b = false ∧
      ((linesOf maxTok limit b).filter content).map p = ks.map some ∧
      ks ≠ [] := by
  unfold parseLib parseFile
  rw [loop_ok_iff]
  simp only [List.nil_append]
  rw [← lib_keys_iff]
  constructor
  · rintro ⟨h1, h2, h3, h4⟩; exact ⟨h1, ⟨h2, h3⟩, h4⟩
  · rintro ⟨h1, ⟨h2, h3⟩, h4⟩; exact ⟨h1, h2, h3, h4⟩

/-- … in particular exactly one key per such line, and every such line parses -/
theorem keyfile_exact_count (p : Bytes → Option Key) (maxTok limit : Nat) (b : Bytes) (ks : List Key)
    (h : parseLib p maxTok limit b = .ok ks) :
    ks.length = ((linesOf maxTok limit b).filter content).length ∧
    ∀ l ∈ linesOf maxTok limit b, content l = true → (p l).isSome = true := by
  obtain ⟨_, hm, _⟩ := (keyfile_exact p maxTok limit b ks).mp h
  refine ⟨?_, ?_⟩
  · have := congrArg List.length hm
    simpa using this.symm
  · exact (lib_allfine_iff p _).mp ((lib_keys_iff p _ ks).mpr hm).1

/-- Every failure is one of: "at line n" where n is the 1-based number of the
    FIRST line that is neither empty nor a comment and does not parse (all
    earlier ones parse); the scanner's error, when all delivered lines were
    fine; "no keys", when the file has only empty lines and comments. The
    CLI-only "line too long" error never occurs here. -/
theorem keyfile_first_error (p : Bytes → Option Key) (maxTok limit : Nat) (b : Bytes) (e : KeyFileErr) :
    parseLib p maxTok limit b = .error e ↔
      (∃ pre l post, linesOf maxTok limit b = pre ++ l :: post ∧
        (∀ l' ∈ pre, content l' = true → (p l').isSome = true) ∧
        content l = true ∧ p l = none ∧ e = .atLine (pre.length + 1)) ∨
      ((∀ l ∈ linesOf maxTok limit b, content l = true → (p l).isSome = true) ∧
        scanFailed maxTok limit b = true ∧ e = .scanErr) ∨
      ((∀ l ∈ linesOf maxTok limit b, content l = false) ∧
        scanFailed maxTok limit b = false ∧ e = .noKeys) := by
  unfold parseLib parseFile
  rw [loop_err_iff]
  simp only [List.nil_append, Nat.zero_add]
  constructor
  · rintro (⟨pre, l, post, hls, hpre, hx⟩ | ⟨hall, hfin⟩)
    · rcases hx with ⟨hb, he⟩ | ⟨hb, _⟩
      · obtain ⟨hc, hp⟩ := (libLine_bad_iff p l).mp hb
        exact Or.inl ⟨pre, l, post, hls, (lib_allfine_iff p pre).mp hpre, hc, hp, he⟩
      · exact absurd hb (libLine_ne_tooLong p l)
    · rcases (finish_err_iff _ _ _).mp hfin with ⟨hse, he⟩ | ⟨hse, hnil, he⟩
      · exact Or.inr (Or.inl ⟨(lib_allfine_iff p _).mp hall, hse, he⟩)
      · exact Or.inr (Or.inr ⟨(lib_nokeys_iff p _ hall).mp hnil, hse, he⟩)
  · rintro (⟨pre, l, post, hls, hpre, hc, hp, he⟩ | ⟨hall, hse, he⟩ | ⟨hall, hse, he⟩)
    · exact Or.inl ⟨pre, l, post, hls, (lib_allfine_iff p pre).mpr hpre,
        Or.inl ⟨(libLine_bad_iff p l).mpr ⟨hc, hp⟩, he⟩⟩
    · exact Or.inr ⟨(lib_allfine_iff p _).mpr hall, (finish_err_iff _ _ _).mpr (Or.inl ⟨hse, he⟩)⟩
    · have hfine : ∀ l ∈ linesOf maxTok limit b, fatal (libLine p l) = false :=
        (lib_allfine_iff p _).mpr (fun l hl hc => by rw [hall l hl] at hc; cases hc)
      exact Or.inr ⟨hfine, (finish_err_iff _ _ _).mpr
        (Or.inr ⟨hse, (lib_nokeys_iff p _ hfine).mpr hall, he⟩)⟩

/-- No line is skipped: a delivered line (number `i + 1`) that is neither empty
    nor a comment either makes the whole parse fail or contributes exactly its
    own key, at the position given by the number of such lines before it. -/
theorem keyfile_no_skip (p : Bytes → Option Key) (maxTok limit : Nat) (b : Bytes) (i : Nat) (l : Bytes)
    (hl : (linesOf maxTok limit b)[i]? = some l) (hc : content l = true) :
    (∃ e, parseLib p maxTok limit b = .error e) ∨
    (∃ ks k, parseLib p maxTok limit b = .ok ks ∧ p l = some k ∧
      ks[(((linesOf maxTok limit b).take i).filter content).length]? = some k) := by
  cases hres : parseLib p maxTok limit b with
  | error e => exact Or.inl ⟨e, rfl⟩
  | ok ks =>
    refine Or.inr ⟨ks, ?_⟩
    obtain ⟨_, hm, _⟩ := (keyfile_exact p maxTok limit b ks).mp hres
    generalize linesOf maxTok limit b = ls at hl hm
    have hsplit : ls = ls.take i ++ l :: ls.drop (i + 1) := by
      have hi : i < ls.length := by
        rcases Nat.lt_or_ge i ls.length with h | h
        · exact h
        · rw [List.getElem?_eq_none h] at hl; cases hl
      have hget : ls[i] = l := by
        rw [List.getElem?_eq_getElem hi] at hl; exact Option.some.inj hl
      rw [← hget, List.getElem_cons_drop hi, List.take_append_drop]
    have hf : ls.filter content =
        (ls.take i).filter content ++ l :: (ls.drop (i + 1)).filter content := by
      conv => lhs; rw [hsplit]
      simp [List.filter_append, hc]
    rw [hf] at hm
    simp only [List.map_append, List.map_cons] at hm
    have hidx := congrArg (fun xs => xs[((ls.take i).filter content).length]?) hm
    simp only [List.getElem?_map] at hidx
    rw [List.getElem?_append_right (by simp)] at hidx
    simp only [List.length_map, Nat.sub_self, List.getElem?_cons_zero] at hidx
    cases hk : ks[((ls.take i).filter content).length]? with
    | none => rw [hk] at hidx; cases hidx
    | some k =>
      rw [hk] at hidx
      simp only [Option.map_some, Option.some.injEq] at hidx
      exact ⟨k, rfl, hidx, rfl⟩

/-! ## the CLI recipients file (`-R`), with its logged skip branch -/

section cli
variable (p : Bytes → Option Key) (sn : Bytes → Option Bytes) (sv : Bytes → Bool) (lim maxTok limit : Nat)

/-- Success iff the scanner did not fail, every line that is neither empty nor a
    comment is within the 8 KiB limit and either parses or satisfies the coded
    skip condition, the result is the keys of the parsing lines in order, and
    there is at least one. -/
theorem cli_keyfile_exact (b : Bytes) (ks : List Key) :
    (cliParseRecipientsFile p sn sv lim maxTok limit b).res = .ok ks ↔
      scanFailed maxTok limit b = false ∧
      (∀ l ∈ linesOf maxTok limit b, content l = true →
        l.length ≤ lim ∧ (p l = none → skipCond sn sv l = true)) ∧
      ks = ((linesOf maxTok limit b).filter content).filterMap p ∧
      ks ≠ [] := by
  unfold cliParseRecipientsFile parseFile
  rw [loop_ok_iff]
  simp only [List.nil_append]
  have hiff : (∀ l ∈ linesOf maxTok limit b, fatal (cliRecipientLine p sn sv lim l) = false) ↔
      (∀ l ∈ linesOf maxTok limit b, content l = true →
        l.length ≤ lim ∧ (p l = none → skipCond sn sv l = true)) := by
    constructor
    · intro h l hl; exact (cli_fatal_false_iff p sn sv lim l).mp (h l hl)
    · intro h l hl; exact (cli_fatal_false_iff p sn sv lim l).mpr (h l hl)
  constructor
  · rintro ⟨h1, h2, h3, h4⟩
    exact ⟨h1, hiff.mp h2, by rw [h3, cli_keys p sn sv lim _ h2], h4⟩
  · rintro ⟨h1, h2, h3, h4⟩
    exact ⟨h1, hiff.mpr h2, by rw [h3, cli_keys p sn sv lim _ (hiff.mpr h2)], h4⟩

/-- Failures: the FIRST line that is too long ("line n is too long") or neither
    parses nor satisfies the skip condition ("malformed recipient at line n"),
    whichever comes first; else the scanner's error; else "no recipients". -/
theorem cli_keyfile_first_error (b : Bytes) (e : KeyFileErr) :
    (cliParseRecipientsFile p sn sv lim maxTok limit b).res = .error e ↔
      (∃ pre l post, linesOf maxTok limit b = pre ++ l :: post ∧
        (∀ l' ∈ pre, content l' = true → l'.length ≤ lim ∧ (p l' = none → skipCond sn sv l' = true)) ∧
        content l = true ∧
        ((l.length ≤ lim ∧ p l = none ∧ skipCond sn sv l = false ∧ e = .atLine (pre.length + 1)) ∨
         (lim < l.length ∧ e = .lineTooLong (pre.length + 1)))) ∨
      ((∀ l ∈ linesOf maxTok limit b, content l = true →
          l.length ≤ lim ∧ (p l = none → skipCond sn sv l = true)) ∧
        ((scanFailed maxTok limit b = true ∧ e = .scanErr) ∨
         (scanFailed maxTok limit b = false ∧
           ((linesOf maxTok limit b).filter content).filterMap p = [] ∧ e = .noKeys))) := by
  unfold cliParseRecipientsFile parseFile
  rw [loop_err_iff]
  simp only [List.nil_append, Nat.zero_add]
  have hiff : ∀ ls : List Bytes, (∀ l ∈ ls, fatal (cliRecipientLine p sn sv lim l) = false) ↔
      (∀ l ∈ ls, content l = true → l.length ≤ lim ∧ (p l = none → skipCond sn sv l = true)) := by
    intro ls
    constructor
    · intro h l hl; exact (cli_fatal_false_iff p sn sv lim l).mp (h l hl)
    · intro h l hl; exact (cli_fatal_false_iff p sn sv lim l).mpr (h l hl)
  constructor
  · rintro (⟨pre, l, post, hls, hpre, hx⟩ | ⟨hall, hfin⟩)
    · refine Or.inl ⟨pre, l, post, hls, (hiff pre).mp hpre, ?_⟩
      rcases hx with ⟨hb, he⟩ | ⟨hb, he⟩
      · obtain ⟨hc, h1, h2, h3⟩ := (cli_bad_iff p sn sv lim l).mp hb
        exact ⟨hc, Or.inl ⟨h1, h2, h3, he⟩⟩
      · obtain ⟨hc, h1⟩ := (cli_tooLong_iff p sn sv lim l).mp hb
        exact ⟨hc, Or.inr ⟨h1, he⟩⟩
    · refine Or.inr ⟨(hiff _).mp hall, ?_⟩
      rw [cli_keys p sn sv lim _ hall] at hfin
      rcases (finish_err_iff _ _ _).mp hfin with ⟨hse, he⟩ | ⟨hse, hnil, he⟩
      · exact Or.inl ⟨hse, he⟩
      · exact Or.inr ⟨hse, hnil, he⟩
  · rintro (⟨pre, l, post, hls, hpre, hc, hx⟩ | ⟨hall, hx⟩)
    · refine Or.inl ⟨pre, l, post, hls, (hiff pre).mpr hpre, ?_⟩
      rcases hx with ⟨h1, h2, h3, he⟩ | ⟨h1, he⟩
      · exact Or.inl ⟨(cli_bad_iff p sn sv lim l).mpr ⟨hc, h1, h2, h3⟩, he⟩
      · exact Or.inr ⟨(cli_tooLong_iff p sn sv lim l).mpr ⟨hc, h1⟩, he⟩
    · refine Or.inr ⟨(hiff _).mpr hall, ?_⟩
      rw [cli_keys p sn sv lim _ ((hiff _).mpr hall)]
      rcases hx with ⟨hse, he⟩ | ⟨hse, hnil, he⟩
      · exact (finish_err_iff _ _ _).mpr (Or.inl ⟨hse, he⟩)
      · exact (finish_err_iff _ _ _).mpr (Or.inr ⟨hse, hnil, he⟩)

/-- Whatever the result: a line number is in the warning log only if that line
    is neither empty nor a comment, failed to parse, and satisfies the skip
    condition exactly as coded (`sshKeyType` recognises it, and its type is not
    `ssh-rsa`/`ssh-ed25519`, or it is `ssh-rsa` and `ssh.ParseAuthorizedKey`
    accepts it). -/
theorem cli_skipped_sound (b : Bytes) (m : Nat)
    (hm : m ∈ (cliParseRecipientsFile p sn sv lim maxTok limit b).skipped) :
    ∃ i l, m = i + 1 ∧ (linesOf maxTok limit b)[i]? = some l ∧ content l = true ∧ l.length ≤ lim ∧
      p l = none ∧
      ∃ t, sn l = some t ∧ ((t ≠ sshRsa ∧ t ≠ sshEd25519) ∨ (t = sshRsa ∧ sv l = true)) := by
  unfold cliParseRecipientsFile parseFile at hm
  rw [loop_skipped] at hm
  simp only [List.nil_append] at hm
  obtain ⟨i, l, hget, hcls, hmi⟩ := (mem_ignoredNums _ _ _ _).mp hm
  have hget' : (linesOf maxTok limit b)[i]? = some l := by
    have hpre := List.takeWhile_prefix (fun l => !fatal (cliRecipientLine p sn sv lim l))
      (l := linesOf maxTok limit b)
    obtain ⟨t, ht⟩ := hpre
    rw [← ht]
    have hi : i < (List.takeWhile (fun l => !fatal (cliRecipientLine p sn sv lim l))
        (linesOf maxTok limit b)).length := by
      rcases Nat.lt_or_ge i (List.takeWhile (fun l => !fatal (cliRecipientLine p sn sv lim l))
        (linesOf maxTok limit b)).length with h | h
      · exact h
      · rw [List.getElem?_eq_none h] at hget; cases hget
    rw [List.getElem?_append_left hi]; exact hget
  obtain ⟨hc, hlen, hp, hs⟩ := (cli_ignored_iff p sn sv lim l).mp hcls
  refine ⟨i, l, by omega, hget', hc, hlen, hp, ?_⟩
  unfold skipCond at hs
  cases hsn : sn l with
  | none => rw [hsn] at hs; cases hs
  | some t =>
    rw [hsn] at hs
    refine ⟨t, rfl, ?_⟩
    simp only [Bool.or_eq_true, Bool.and_eq_true, bne_iff_ne, ne_eq, beq_iff_eq] at hs
    exact hs

/-- A failing line that `sshKeyType` recognises as `ssh-ed25519` is never skipped:
    if it is delivered (as line `i + 1`), is neither empty nor a comment and does
    not parse, the parse fails at that line or earlier. Precisely: the result is
    the error of the FIRST line `l'` (number `pre.length + 1 ≤ i + 1`; all lines
    before it are fine) that is neither empty nor a comment and is too long
    ("line n is too long") or neither parses nor satisfies the skip condition
    ("malformed recipient at line n") — so never the scanner's error and never
    "no recipients"; and when every line before line `i + 1` is fine, it is the
    error of line `i + 1` itself. -/
theorem cli_ed25519_never_skipped (b : Bytes) (i : Nat) (l : Bytes)
    (hl : (linesOf maxTok limit b)[i]? = some l) (hc : content l = true)
    (hp : p l = none) (hsn : sn l = some sshEd25519) :
    (∃ pre l' post, linesOf maxTok limit b = pre ++ l' :: post ∧ pre.length ≤ i ∧
      (∀ l'' ∈ pre, content l'' = true → l''.length ≤ lim ∧ (p l'' = none → skipCond sn sv l'' = true)) ∧
      content l' = true ∧
      ((l'.length ≤ lim ∧ p l' = none ∧ skipCond sn sv l' = false ∧
          (cliParseRecipientsFile p sn sv lim maxTok limit b).res = .error (.atLine (pre.length + 1))) ∨
       (lim < l'.length ∧
          (cliParseRecipientsFile p sn sv lim maxTok limit b).res = .error (.lineTooLong (pre.length + 1))))) ∧
    ((∀ l' ∈ (linesOf maxTok limit b).take i, content l' = true →
        l'.length ≤ lim ∧ (p l' = none → skipCond sn sv l' = true)) →
      (cliParseRecipientsFile p sn sv lim maxTok limit b).res =
        .error (if l.length ≤ lim then .atLine (i + 1) else .lineTooLong (i + 1))) := by
  have hsk : skipCond sn sv l = false := by
    unfold skipCond
    rw [hsn]
    have h2 : (sshEd25519 == sshRsa) = false := by decide
    simp [h2]
  have hnotfine : ¬ (l.length ≤ lim ∧ (p l = none → skipCond sn sv l = true)) := by
    rintro ⟨_, h⟩
    rw [hsk] at h
    exact absurd (h hp) (by decide)
  have hi : i < (linesOf maxTok limit b).length := by
    rcases Nat.lt_or_ge i (linesOf maxTok limit b).length with h | h
    · exact h
    · rw [List.getElem?_eq_none h] at hl; cases hl
  have hget : (linesOf maxTok limit b)[i] = l := by
    rw [List.getElem?_eq_getElem hi] at hl; exact Option.some.inj hl
  have hsplit : linesOf maxTok limit b =
      (linesOf maxTok limit b).take i ++ l :: (linesOf maxTok limit b).drop (i + 1) := by
    rw [← hget, List.getElem_cons_drop hi, List.take_append_drop]
  constructor
  · cases hres : (cliParseRecipientsFile p sn sv lim maxTok limit b).res with
    | ok ks =>
      exfalso
      obtain ⟨_, hfine, _, _⟩ := (cli_keyfile_exact p sn sv lim maxTok limit b ks).mp hres
      exact hnotfine (hfine l (List.mem_of_getElem? hl) hc)
    | error e =>
      rcases (cli_keyfile_first_error p sn sv lim maxTok limit b e).mp hres with
        ⟨pre, l', post, hls, hpre, hc', hx⟩ | ⟨hall, _⟩
      · refine ⟨pre, l', post, hls, ?_, hpre, hc', ?_⟩
        · rcases Nat.lt_or_ge i pre.length with h | h
          · exfalso
            have hmem : l ∈ pre := by
              have h2 : (pre ++ l' :: post)[i]? = some l := hls ▸ hl
              rw [List.getElem?_append_left h] at h2
              exact List.mem_of_getElem? h2
            exact hnotfine (hpre l hmem hc)
          · exact h
        · rcases hx with ⟨h1, h2, h3, he⟩ | ⟨h1, he⟩
          · exact Or.inl ⟨h1, h2, h3, by rw [he]⟩
          · exact Or.inr ⟨h1, by rw [he]⟩
      · exact absurd (hall l (List.mem_of_getElem? hl) hc) hnotfine
  · intro hbefore
    have hlen : ((linesOf maxTok limit b).take i).length = i := by
      rw [List.length_take]; omega
    apply (cli_keyfile_first_error p sn sv lim maxTok limit b _).mpr
    refine Or.inl ⟨_, l, _, hsplit, hbefore, hc, ?_⟩
    rw [hlen]
    by_cases hle : l.length ≤ lim
    · exact Or.inl ⟨hle, hp, hsk, by rw [if_pos hle]⟩
    · exact Or.inr ⟨by omega, by rw [if_neg hle]⟩

/-- No line is skipped silently: a delivered line that is neither empty nor a
    comment makes the parse fail, or contributes exactly its own key (at the
    position given by the parsing lines before it), or is in the warning log. -/
theorem cli_keyfile_no_skip (b : Bytes) (i : Nat) (l : Bytes)
    (hl : (linesOf maxTok limit b)[i]? = some l) (hc : content l = true) :
    (∃ e, (cliParseRecipientsFile p sn sv lim maxTok limit b).res = .error e) ∨
    (∃ ks k, (cliParseRecipientsFile p sn sv lim maxTok limit b).res = .ok ks ∧ p l = some k ∧
      ks[((((linesOf maxTok limit b).take i).filter content).filterMap p).length]? = some k) ∨
    (p l = none ∧ (i + 1) ∈ (cliParseRecipientsFile p sn sv lim maxTok limit b).skipped) := by
  cases hres : (cliParseRecipientsFile p sn sv lim maxTok limit b).res with
  | error e => exact Or.inl ⟨e, rfl⟩
  | ok ks =>
    refine Or.inr ?_
    obtain ⟨_, hfine, hks, _⟩ := (cli_keyfile_exact p sn sv lim maxTok limit b ks).mp hres
    have hi : i < (linesOf maxTok limit b).length := by
      rcases Nat.lt_or_ge i (linesOf maxTok limit b).length with h | h
      · exact h
      · rw [List.getElem?_eq_none h] at hl; cases hl
    have hmem : l ∈ linesOf maxTok limit b := List.mem_of_getElem? hl
    cases hp : p l with
    | some k =>
      refine Or.inl ⟨ks, k, rfl, rfl, ?_⟩
      have hget : (linesOf maxTok limit b)[i] = l := by
        rw [List.getElem?_eq_getElem hi] at hl; exact Option.some.inj hl
      have hsplit : linesOf maxTok limit b =
          (linesOf maxTok limit b).take i ++ l :: (linesOf maxTok limit b).drop (i + 1) := by
        rw [← hget, List.getElem_cons_drop hi, List.take_append_drop]
      have hf : ((linesOf maxTok limit b).filter content).filterMap p =
          (((linesOf maxTok limit b).take i).filter content).filterMap p ++
            k :: (((linesOf maxTok limit b).drop (i + 1)).filter content).filterMap p := by
        conv => lhs; rw [hsplit]
        simp [List.filter_append, hc, List.filterMap_append, hp]
      rw [hks, hf, List.getElem?_append_right (by simp)]
      simp
    | none =>
      refine Or.inr ⟨rfl, ?_⟩
      unfold cliParseRecipientsFile parseFile
      rw [loop_skipped]
      simp only [List.nil_append]
      have hall : ∀ l ∈ linesOf maxTok limit b,
          (fun l => !fatal (cliRecipientLine p sn sv lim l)) l = true := by
        intro l' hl'
        simp only [Bool.not_eq_true']
        exact (cli_fatal_false_iff p sn sv lim l').mpr (hfine l' hl')
      rw [takeWhile_all _ _ hall]
      refine (mem_ignoredNums _ _ _ _).mpr ⟨i, l, hl, ?_, by omega⟩
      obtain ⟨hlen, hsk⟩ := hfine l hmem hc
      exact (cli_ignored_iff p sn sv lim l).mpr ⟨hc, hlen, hp, hsk hp⟩

/-- the three entry points without the skip branch never log a skip -/
theorem lib_never_skips (b : Bytes) : (parseFile (libLine p) maxTok limit b).skipped = [] := by
  unfold parseFile
  rw [loop_skipped]
  simp only [List.nil_append]
  cases h : ignoredNums (libLine p) 0
      (List.takeWhile (fun l => !fatal (libLine p l)) (linesOf maxTok limit b)) with
  | nil => rfl
  | cons m ms =>
    have : m ∈ ignoredNums (libLine p) 0
        (List.takeWhile (fun l => !fatal (libLine p l)) (linesOf maxTok limit b)) := by
      rw [h]; simp
    obtain ⟨_, l, _, hcls, _⟩ := (mem_ignoredNums _ _ _ _).mp this
    exact absurd hcls (libLine_ne_ignored p l)

end cli

/-! ## the scanner model -/

/-- lines without `\n`, not ending in `\r`, shorter than the token limit, each
    terminated by `\n`: the scanner gives them back (empty lines included) -/
theorem lines_roundtrip_lf (maxTok : Nat) (ls : List Bytes)
    (h : ∀ l ∈ ls, 10 ∉ l ∧ l.getLast? ≠ some 13 ∧ l.length < maxTok) :
    scan maxTok (joinLF ls) = ⟨ls, false⟩ := by
  unfold scan
  have := rawLines_joinLF ls [] (fun l hl => (h l hl).1)
  simp only [List.append_nil] at this
  rw [this]
  have hr : rawLines [] = [] := rfl
  rw [hr, List.append_nil, scanFrom_short maxTok ls (fun l hl => (h l hl).2.2),
    map_dropCR_id ls (fun l hl => (h l hl).2.1)]

/-- a missing final newline: the last, non-empty, line is still a line -/
theorem lines_roundtrip_nofinal (maxTok : Nat) (ls : List Bytes) (last : Bytes)
    (h : ∀ l ∈ ls ++ [last], 10 ∉ l ∧ l.getLast? ≠ some 13 ∧ l.length < maxTok) (hne : last ≠ []) :
    scan maxTok (joinLF ls ++ last) = ⟨ls ++ [last], false⟩ := by
  unfold scan
  rw [rawLines_joinLF ls last (fun l hl => (h l (by simp [hl])).1),
    rawLines_noNL last (h last (by simp)).1]
  simp only [hne, if_false]
  rw [scanFrom_short maxTok _ (fun l hl => (h l hl).2.2), map_dropCR_id _ (fun l hl => (h l hl).2.1)]

/-- CR LF endings: the lines come back without the `\r` (even lines that
    themselves end in `\r`: only one is dropped) -/
theorem lines_roundtrip_crlf (maxTok : Nat) (ls : List Bytes)
    (h : ∀ l ∈ ls, 10 ∉ l ∧ l.length + 1 < maxTok) :
    scan maxTok (joinCRLF ls) = ⟨ls, false⟩ := by
  unfold scan
  have := rawLines_joinCRLF ls [] (fun l hl => (h l hl).1)
  simp only [List.append_nil] at this
  rw [this]
  have hr : rawLines [] = [] := rfl
  rw [hr, List.append_nil, scanFrom_short maxTok _ ?_, map_dropCR_snoc]
  intro r hr
  obtain ⟨l, hl, rfl⟩ := List.mem_map.mp hr
  have := (h l hl).2
  simp only [List.length_append, List.length_cons, List.length_nil]
  omega

/-- a line of `maxTok` bytes or more (terminated or not) stops the scanner with
    an error after the lines before it; nothing after it is delivered -/
theorem scan_token_too_long (maxTok : Nat) (ls : List Bytes) (long rest : Bytes)
    (h : ∀ l ∈ ls, 10 ∉ l ∧ l.getLast? ≠ some 13 ∧ l.length < maxTok)
    (hl : 10 ∉ long) (hlong : maxTok ≤ long.length) (hpos : 0 < maxTok) :
    scan maxTok (joinLF ls ++ long) = ⟨ls, true⟩ ∧
    scan maxTok (joinLF ls ++ (long ++ 10 :: rest)) = ⟨ls, true⟩ := by
  unfold scan
  have hne : long ≠ [] := by
    intro h0; rw [h0] at hlong; simp at hlong; omega
  constructor
  · rw [rawLines_joinLF ls long (fun l hl => (h l hl).1), rawLines_noNL long hl]
    simp only [hne, if_false]
    rw [scanFrom_long maxTok ls long [] (fun l hl => (h l hl).2.2) hlong,
      map_dropCR_id ls (fun l hl => (h l hl).2.1)]
  · rw [rawLines_joinLF ls _ (fun l hl => (h l hl).1), rawLines_line long rest hl]
    rw [scanFrom_long maxTok ls long _ (fun l hl => (h l hl).2.2) hlong,
      map_dropCR_id ls (fun l hl => (h l hl).2.1)]

/-- the `io.LimitReader`: nothing beyond `limit` bytes is seen; files within the
    limit are seen whole -/
theorem limit_reader (maxTok limit : Nat) (b : Bytes) :
    linesOf maxTok limit b = linesOf maxTok limit (b.take limit) ∧
    (b.length ≤ limit → linesOf maxTok limit b = (scan maxTok b).lines ∧
      scanFailed maxTok limit b = (scan maxTok b).err) := by
  refine ⟨by simp [linesOf, List.take_take], fun h => ?_⟩
  simp [linesOf, scanFailed, List.take_of_length_le h]

/-! ## what an error can say

  ### Model level
  `KeyFileErr` carries a line number and nothing else, so the error VALUE is a
  function of the position of the first offending line; the two theorems below
  say so without reference to the type: changing the offending line's content
  (and anything after it) leaves the whole outcome unchanged.

  ### The Go error TEXTS (analysis of /repo as it is now)
  * `age.ParseRecipients`: `"malformed recipient at line %d"` — the parser's own
    error is dropped. CLI `parseRecipientsFile`: `"%q: malformed recipient at line
    %d"`, `"%q: line %d is too long"`, warning `"recipients file %q: ignoring
    unsupported SSH key of type %q at line %d"`: file name, line number, and — in
    the warning — the key-type word (first field, equal to the type string inside
    the blob; not a supported type, or `ssh-rsa` on a well-formed public key
    line). No other part of a line is formatted.
  * `age.ParseIdentities` / CLI `parseIdentities`: `"error at line %d: %v"` with
    the error of `ParseX25519Identity`, `"malformed secret key: " +` one of
      - `invalid character: s[%d]=%d`            position, ONE code point (first rune outside 33..126)
      - `mixed case`
      - `separator '1' at invalid position: pos=%d, len=%d`   a position and the length
      - `invalid character data part: s[%d]=%v`  position, ONE code point (a rune printed as a number)
      - `invalid checksum`, `illegal zero padding`, `non-zero padding`
      - `invalid X25519 secret key`              (decoded length ≠ 32)
      - `unknown type %q`                        the HRP = everything before the LAST `1`
    (`invalid character human-readable part` and `invalid data range` are
    unreachable: the whole string was range-checked first and data values are
    charset indices < 32.) The CLI adds `unknown identity type` (no data) and, for
    `AGE-PLUGIN-` lines, the same bech32 messages under `invalid identity
    encoding:` plus `invalid plugin name: %q` (a part of the HRP).
    So the text embeds positions, lengths, one code point — and the HRP, only in
    `unknown type %q`/`invalid plugin name %q`, which are reached only AFTER the
    bech32 checksum verified for that HRP. In a genuine `AGE-SECRET-KEY-1…` line the
    last `1` is the separator (the bech32 charset has no `1`), so the HRP is the
    public prefix. Secret characters can only become part of an HRP if an edit puts
    a `1` into the data part AND the remainder is a valid bech32 string for the
    longer HRP (chance 2⁻³⁰ per edit for random edits). That residual case is not
    a statement about the loop and is not provable in this model (the line
    parser is a parameter); the harness oracle "no 8-character window of any secret
    key's data part occurs in the error text" covers it on the real strings.
-/

/-- Recipients file: two files whose delivered lines agree up to an offending
    line — whatever the content of that line in either file, and whatever
    follows — give the same result; it is an error naming that line or an
    earlier one. -/
theorem recipient_error_content_free (p : Bytes → Option Key) (maxTok limit : Nat) (b b' : Bytes)
    (pre post post' : List Bytes) (l l' : Bytes)
    (hb : linesOf maxTok limit b = pre ++ l :: post) (hb' : linesOf maxTok limit b' = pre ++ l' :: post')
    (hc : content l = true) (hp : p l = none) (hc' : content l' = true) (hp' : p l' = none) :
    parseRecipients p maxTok limit b = parseRecipients p maxTok limit b' ∧
    ∃ n, n ≤ pre.length + 1 ∧ parseRecipients p maxTok limit b = .error (.atLine n) := by
  have hbad : libLine p l = .bad := (libLine_bad_iff p l).mpr ⟨hc, hp⟩
  have hbad' : libLine p l' = .bad := (libLine_bad_iff p l').mpr ⟨hc', hp'⟩
  have heq : parseRecipients p maxTok limit b = parseRecipients p maxTok limit b' := by
    unfold parseRecipients parseLib parseFile
    rw [hb, hb']
    rw [loop_swap_fatal (libLine p) _ (scanFailed maxTok limit b') l l' post post'
      (by rw [hbad, hbad']) (by rw [hbad]; rfl)]
  refine ⟨heq, ?_⟩
  -- the first content line of `pre ++ [l]` that does not parse
  have hex : ∃ e, parseLib p maxTok limit b = .error e := by
    cases hres : parseLib p maxTok limit b with
    | error e => exact ⟨e, rfl⟩
    | ok ks =>
      have := (keyfile_exact_count p maxTok limit b ks hres).2 l (by rw [hb]; simp) hc
      rw [hp] at this; cases this
  obtain ⟨e, he⟩ := hex
  rcases (keyfile_first_error p maxTok limit b e).mp he with
    ⟨pre2, l2, post2, hls, hpre2, _, _, hen⟩ | ⟨hall, _, _⟩ | ⟨hall, _, _⟩
  · refine ⟨pre2.length + 1, ?_, by rw [← hen]; exact he⟩
    -- pre2 cannot be longer than pre: line l would be a non-parsing content line inside pre2
    rcases Nat.lt_or_ge pre.length pre2.length with hlt | hge
    · exfalso
      have hmem : l ∈ pre2 := by
        have h1 : (pre ++ l :: post)[pre.length]? = some l := by simp
        rw [← hb, hls, List.getElem?_append_left hlt] at h1
        exact List.mem_of_getElem? h1
      have := hpre2 l hmem hc
      rw [hp] at this; cases this
    · omega
  · have := hall l (by rw [hb]; simp) hc
    rw [hp] at this; cases this
  · have := hall l (by rw [hb]; simp)
    rw [hc] at this; cases this

/-- Identities file (library and CLI loop). FULL STATEMENT (DESIGN.md §8 C18, not
    provable in this model, whose errors are classes and whose line parser is a
    parameter): "the error TEXT for an identity line embeds at most positions,
    lengths, one code point and — only when a bech32 string with a valid checksum
    has a `1` after the prefix — the part before the last `1`; so no substring of
    the secret data part longer than one character appears". PROVED HERE: the
    part the model carries — the error VALUE depends on the position of the
    offending line only, never on its (secret) content. The text-level part is the
    code-reading analysis above plus the harness oracle on the real messages. -/
theorem identity_error_no_secret_partial (p : Bytes → Option Key) (maxTok limit : Nat) (b b' : Bytes)
    (pre post post' : List Bytes) (l l' : Bytes)
    (hb : linesOf maxTok limit b = pre ++ l :: post) (hb' : linesOf maxTok limit b' = pre ++ l' :: post')
    (hc : content l = true) (hp : p l = none) (hc' : content l' = true) (hp' : p l' = none) :
    parseIdentities p maxTok limit b = parseIdentities p maxTok limit b' ∧
    ∃ n, n ≤ pre.length + 1 ∧ parseIdentities p maxTok limit b = .error (.atLine n) :=
  recipient_error_content_free p maxTok limit b b' pre post post' l l' hb hb' hc hp hc' hp'

/-- byte-level instance: `pre` good lines, then an offending line `l` resp. `l'`
    (same position, different content), then the same rest -/
theorem error_content_free_bytes (p : Bytes → Option Key) (maxTok limit : Nat)
    (pre : List Bytes) (l l' rest : Bytes)
    (hpre : ∀ x ∈ pre, 10 ∉ x ∧ x.length < maxTok)
    (hl : 10 ∉ l ∧ l.length < maxTok) (hl' : 10 ∉ l' ∧ l'.length < maxTok)
    (hc : content (dropCR l) = true) (hp : p (dropCR l) = none)
    (hc' : content (dropCR l') = true) (hp' : p (dropCR l') = none)
    (hlen : (joinLF pre ++ (l ++ 10 :: rest)).length ≤ limit)
    (hlen' : (joinLF pre ++ (l' ++ 10 :: rest)).length ≤ limit) :
    parseLib p maxTok limit (joinLF pre ++ (l ++ 10 :: rest)) =
      parseLib p maxTok limit (joinLF pre ++ (l' ++ 10 :: rest)) := by
  have key : ∀ x : Bytes, 10 ∉ x → x.length < maxTok → (joinLF pre ++ (x ++ 10 :: rest)).length ≤ limit →
      linesOf maxTok limit (joinLF pre ++ (x ++ 10 :: rest)) =
        pre.map dropCR ++ dropCR x :: (scanFrom maxTok (rawLines rest)).lines := by
    intro x hx1 hx2 hx3
    unfold linesOf scan
    rw [List.take_of_length_le hx3, rawLines_joinLF pre _ (fun y hy => (hpre y hy).1),
      rawLines_line x rest hx1, scanFrom_append maxTok pre _ (fun y hy => (hpre y hy).2)]
    have : ¬ maxTok ≤ x.length := by omega
    simp [scanFrom, this]
  exact (recipient_error_content_free p maxTok limit _ _ (pre.map dropCR) _ _ (dropCR l) (dropCR l')
    (key l hl.1 hl.2 hlen) (key l' hl'.1 hl'.2 hlen') hc hp hc' hp').1

/-! ## non-vacuity -/

section examples
/-- toy line parser: a line `k<byte>` is the key `<byte>` -/
def toyParse : Bytes → Option Nat
  | [107, x] => some x.toNat
  | _ => none

/-- "# c\r\nk1\n\nk2\r\nk3" -/
def toyFile : Bytes := [35, 32, 99, 13, 10, 107, 49, 10, 10, 107, 50, 13, 10, 107, 51]

example : linesOf 65536 (2^24) toyFile = [[35, 32, 99], [107, 49], [], [107, 50], [107, 51]] := by decide
example : parseIdentities toyParse 65536 (2^24) toyFile = .ok [49, 50, 51] := by rfl
-- "k1\n k2\nzz\n": the line with a leading blank is not skipped
example : parseRecipients toyParse 65536 (2^24) [107, 49, 10, 32, 107, 50, 10, 122, 122, 10] = .error (.atLine 2) := by rfl
-- "#k1\n\n\r\n"
example : parseRecipients toyParse 65536 (2^24) [35, 107, 49, 10, 10, 13, 10] = .error .noKeys := by rfl
-- "k1\nk234\nk5\n" with a token limit of 4
example : parseRecipients toyParse 4 (2^24) [107, 49, 10, 107, 50, 51, 52, 10, 107, 53, 10] = .error .scanErr := by rfl
-- "zz\nk234\nk5\n": the bad line before the over-long one wins
example : parseRecipients toyParse 4 (2^24) [122, 122, 10, 107, 50, 51, 52, 10, 107, 53, 10] = .error (.atLine 1) := by rfl
-- "k1\nk2\nk3\n" through a LimitReader of 5 bytes: "k1\nk2"
example : parseRecipients toyParse 65536 5 [107, 49, 10, 107, 50, 10, 107, 51, 10] = .ok [49, 50] := by rfl

/-- toy sniffers: a line starting with `s` sniffs as type `ssh-rsa`, with `e` as
    an unsupported type; it is a valid authorized key iff it ends in `v` -/
def toySniff : Bytes → Option Bytes
  | 115 :: _ => some sshRsa
  | 101 :: _ => some [101, 99]
  | _ => none
def toyValid (l : Bytes) : Bool := l.getLast? = some 118

/-- "k1\nsv\ne\nk2\n" -/
def toyR1 : Bytes := [107, 49, 10, 115, 118, 10, 101, 10, 107, 50, 10]
/-- "k1\nsv\ns\nk2\n" -/
def toyR2 : Bytes := [107, 49, 10, 115, 118, 10, 115, 10, 107, 50, 10]

example : (cliParseRecipientsFile toyParse toySniff toyValid 8 65536 (2^24) toyR1).res = .ok [49, 50] := by rfl
example : (cliParseRecipientsFile toyParse toySniff toyValid 8 65536 (2^24) toyR1).skipped = [2, 3] := by decide
example : (cliParseRecipientsFile toyParse toySniff toyValid 8 65536 (2^24) toyR2).res = .error (.atLine 3) := by rfl
example : (cliParseRecipientsFile toyParse toySniff toyValid 8 65536 (2^24) toyR2).skipped = [2] := by decide
-- "k1\n#23456789\ne23456789\n": a long comment is fine, a long skippable line is not
example : (cliParseRecipientsFile toyParse toySniff toyValid 8 65536 (2^24)
    [107, 49, 10, 35, 50, 51, 52, 53, 54, 55, 56, 57, 10, 101, 50, 51, 52, 53, 54, 55, 56, 57, 10]).res
    = .error (.lineTooLong 3) := by rfl
-- "sv\ne\n": only skipped lines
example : (cliParseRecipientsFile toyParse toySniff toyValid 8 65536 (2^24) [115, 118, 10, 101, 10]).res
    = .error .noKeys := by rfl
end examples

/-! ## non-vacuity, theorem by theorem: the hypotheses of each theorem at concrete values

  No hypotheses (equations / equivalences, both sides of which are reached by
  the `example`s above): `entry_points`, `keyfile_exact`, `keyfile_first_error`,
  `cli_keyfile_exact`, `cli_keyfile_first_error`, `lib_never_skips`. -/

section nonvacuous

/-- non-vacuity of `keyfile_exact_count`: the five-line `toyFile` (comment, CR LF
    and LF endings, an empty line, no final newline) parses to three keys -/
theorem keyfile_exact_count_nonvacuous :
    parseLib toyParse 65536 (2^24) toyFile = .ok [49, 50, 51] := by rfl

example : ([49, 50, 51] : List Nat).length = ((linesOf 65536 (2^24) toyFile).filter content).length :=
  (keyfile_exact_count toyParse 65536 (2^24) toyFile _ keyfile_exact_count_nonvacuous).1

/-- non-vacuity of `keyfile_no_skip`: line 4 of `toyFile` (`k2`, after a comment,
    a key and an empty line) is delivered and is neither empty nor a comment -/
theorem keyfile_no_skip_nonvacuous :
    (linesOf 65536 (2^24) toyFile)[3]? = some [107, 50] ∧ content [107, 50] = true := by decide

/-- non-vacuity of `cli_skipped_sound`: line 2 (`sv`) of `toyR1` is in the warning log -/
theorem cli_skipped_sound_nonvacuous :
    2 ∈ (cliParseRecipientsFile toyParse toySniff toyValid 8 65536 (2^24) toyR1).skipped := by decide

/-- a sniffer that recognises lines starting with `d` as `ssh-ed25519` -/
def toySniffEd : Bytes → Option Bytes
  | 100 :: _ => some sshEd25519
  | l => toySniff l

/-- non-vacuity of `cli_ed25519_never_skipped`: "k1\nd9\nk2\n", whose second line does
    not parse and sniffs as `ssh-ed25519` -/
theorem cli_ed25519_never_skipped_nonvacuous :
    (linesOf 65536 (2^24) [107, 49, 10, 100, 57, 10, 107, 50, 10])[1]? = some [100, 57] ∧
    content [100, 57] = true ∧ toyParse [100, 57] = none ∧ toySniffEd [100, 57] = some sshEd25519 := by
  decide

/-- … and the theorem's second part at these values: line 1 (`k1`) parses, so the
    result is the error of line 2 itself -/
example : (cliParseRecipientsFile toyParse toySniffEd toyValid 8 65536 (2^24)
    [107, 49, 10, 100, 57, 10, 107, 50, 10]).res = .error (.atLine 2) :=
  have h := cli_ed25519_never_skipped_nonvacuous
  (cli_ed25519_never_skipped toyParse toySniffEd toyValid 8 65536 (2^24) _ 1 _ h.1 h.2.1 h.2.2.1 h.2.2.2).2
    (by decide)

/-- non-vacuity of `cli_keyfile_no_skip`: line 2 (`sv`, logged) of `toyR1`; the
    `example` below: line 4 (`k2`, the second key) -/
theorem cli_keyfile_no_skip_nonvacuous :
    (linesOf 65536 (2^24) toyR1)[1]? = some [115, 118] ∧ content [115, 118] = true := by decide

example : (linesOf 65536 (2^24) toyR1)[3]? = some [107, 50] ∧ content [107, 50] = true := by decide

/-- non-vacuity of `lines_roundtrip_lf`: a key line, an empty line, a line with an
    inner `\r` -/
theorem lines_roundtrip_lf_nonvacuous :
    ∀ l ∈ ([[107, 49], [], [35, 13, 32]] : List Bytes), 10 ∉ l ∧ l.getLast? ≠ some 13 ∧ l.length < 65536 := by decide

example : scan 65536 [107, 49, 10, 10, 35, 13, 32, 10] = ⟨[[107, 49], [], [35, 13, 32]], false⟩ :=
  lines_roundtrip_lf 65536 _ lines_roundtrip_lf_nonvacuous

/-- non-vacuity of `lines_roundtrip_nofinal`: "k1\n\nk2" -/
theorem lines_roundtrip_nofinal_nonvacuous :
    (∀ l ∈ ([[107, 49], []] : List Bytes) ++ [([107, 50] : Bytes)], 10 ∉ l ∧ l.getLast? ≠ some 13 ∧ l.length < 65536) ∧
    ([107, 50] : Bytes) ≠ [] := by decide

example : scan 65536 [107, 49, 10, 10, 107, 50] = ⟨[[107, 49], [], [107, 50]], false⟩ :=
  lines_roundtrip_nofinal 65536 [[107, 49], []] [107, 50] lines_roundtrip_nofinal_nonvacuous.1
    lines_roundtrip_nofinal_nonvacuous.2

/-- non-vacuity of `lines_roundtrip_crlf`: a key line, a line that is itself `\r`, an empty line -/
theorem lines_roundtrip_crlf_nonvacuous :
    ∀ l ∈ ([[107, 49], [13], []] : List Bytes), 10 ∉ l ∧ l.length + 1 < 65536 := by decide

example : scan 65536 [107, 49, 13, 10, 13, 13, 10, 13, 10] = ⟨[[107, 49], [13], []], false⟩ :=
  lines_roundtrip_crlf 65536 _ lines_roundtrip_crlf_nonvacuous

/-- non-vacuity of `scan_token_too_long`: token limit 4, "k1\n" then the 4-byte line `k234` -/
theorem scan_token_too_long_nonvacuous :
    (∀ l ∈ ([[107, 49]] : List Bytes), 10 ∉ l ∧ l.getLast? ≠ some 13 ∧ l.length < 4) ∧
    10 ∉ ([107, 50, 51, 52] : Bytes) ∧ 4 ≤ ([107, 50, 51, 52] : Bytes).length ∧ 0 < 4 := by decide

example : scan 4 [107, 49, 10, 107, 50, 51, 52, 10, 107, 53, 10] = ⟨[[107, 49]], true⟩ :=
  (scan_token_too_long 4 [[107, 49]] [107, 50, 51, 52] [107, 53, 10] scan_token_too_long_nonvacuous.1
    scan_token_too_long_nonvacuous.2.1 scan_token_too_long_nonvacuous.2.2.1
    scan_token_too_long_nonvacuous.2.2.2).2

/-- non-vacuity of `limit_reader` (no outer hypotheses; the premise of its second
    part): `toyFile` is within the 16 MiB limit -/
theorem limit_reader_nonvacuous : toyFile.length ≤ 2^24 := by decide

/-- non-vacuity of `recipient_error_content_free` and (same hypotheses, `parseIdentities`
    for `parseRecipients`) of `identity_error_no_secret_partial`: "k1\nzz\nk2\n" and
    "k1\nyyy\n" agree up to line 2, which in neither file parses -/
theorem recipient_error_content_free_nonvacuous :
    linesOf 65536 (2^24) [107, 49, 10, 122, 122, 10, 107, 50, 10] = [[107, 49]] ++ [122, 122] :: [[107, 50]] ∧
    linesOf 65536 (2^24) [107, 49, 10, 121, 121, 121, 10] = [[107, 49]] ++ [121, 121, 121] :: [] ∧
    content [122, 122] = true ∧ toyParse [122, 122] = none ∧
    content [121, 121, 121] = true ∧ toyParse [121, 121, 121] = none := by decide

example : parseIdentities toyParse 65536 (2^24) [107, 49, 10, 122, 122, 10, 107, 50, 10] =
    parseIdentities toyParse 65536 (2^24) [107, 49, 10, 121, 121, 121, 10] :=
  (identity_error_no_secret_partial toyParse 65536 (2^24) _ _ [[107, 49]] [[107, 50]] [] [122, 122] [121, 121, 121]
    recipient_error_content_free_nonvacuous.1 recipient_error_content_free_nonvacuous.2.1
    recipient_error_content_free_nonvacuous.2.2.1 recipient_error_content_free_nonvacuous.2.2.2.1
    recipient_error_content_free_nonvacuous.2.2.2.2.1 recipient_error_content_free_nonvacuous.2.2.2.2.2).1
example : parseRecipients toyParse 65536 (2^24) [107, 49, 10, 122, 122, 10, 107, 50, 10] = .error (.atLine 2) := by rfl

/-- non-vacuity of `error_content_free_bytes`: one good line `k1`, then `zz` resp.
    `y\r` (a CR LF ending), then the same rest "k2\n" -/
theorem error_content_free_bytes_nonvacuous :
    (∀ x ∈ ([[107, 49]] : List Bytes), 10 ∉ x ∧ x.length < 65536) ∧
    (10 ∉ ([122, 122] : Bytes) ∧ ([122, 122] : Bytes).length < 65536) ∧
    (10 ∉ ([121, 13] : Bytes) ∧ ([121, 13] : Bytes).length < 65536) ∧
    content (dropCR [122, 122]) = true ∧ toyParse (dropCR [122, 122]) = none ∧
    content (dropCR [121, 13]) = true ∧ toyParse (dropCR [121, 13]) = none ∧
    (joinLF [[107, 49]] ++ ([122, 122] ++ 10 :: [107, 50, 10])).length ≤ 2^24 ∧
    (joinLF [[107, 49]] ++ ([121, 13] ++ 10 :: [107, 50, 10])).length ≤ 2^24 := by decide

example : parseLib toyParse 65536 (2^24) (joinLF [[107, 49]] ++ ([122, 122] ++ 10 :: [107, 50, 10])) =
    parseLib toyParse 65536 (2^24) (joinLF [[107, 49]] ++ ([121, 13] ++ 10 :: [107, 50, 10])) :=
  have h := error_content_free_bytes_nonvacuous
  error_content_free_bytes toyParse 65536 (2^24) [[107, 49]] [122, 122] [121, 13] [107, 50, 10]
    h.1 h.2.1 h.2.2.1 h.2.2.2.1 h.2.2.2.2.1 h.2.2.2.2.2.1 h.2.2.2.2.2.2.1 h.2.2.2.2.2.2.2.1 h.2.2.2.2.2.2.2.2

/-- the hypotheses above have literally the shape the theorems ask for -/
example := keyfile_no_skip toyParse 65536 (2^24) toyFile 3 _ keyfile_no_skip_nonvacuous.1 keyfile_no_skip_nonvacuous.2
example := cli_skipped_sound toyParse toySniff toyValid 8 65536 (2^24) toyR1 2 cli_skipped_sound_nonvacuous
example := cli_ed25519_never_skipped toyParse toySniffEd toyValid 8 65536 (2^24) _ 1 _
  cli_ed25519_never_skipped_nonvacuous.1 cli_ed25519_never_skipped_nonvacuous.2.1
  cli_ed25519_never_skipped_nonvacuous.2.2.1 cli_ed25519_never_skipped_nonvacuous.2.2.2
example := cli_keyfile_no_skip toyParse toySniff toyValid 8 65536 (2^24) toyR1 1 _
  cli_keyfile_no_skip_nonvacuous.1 cli_keyfile_no_skip_nonvacuous.2
example := (limit_reader 65536 (2^24) toyFile).2 limit_reader_nonvacuous
example := recipient_error_content_free toyParse 65536 (2^24) _ _ [[107, 49]] [[107, 50]] [] [122, 122] [121, 121, 121]
    recipient_error_content_free_nonvacuous.1 recipient_error_content_free_nonvacuous.2.1
    recipient_error_content_free_nonvacuous.2.2.1 recipient_error_content_free_nonvacuous.2.2.2.1
    recipient_error_content_free_nonvacuous.2.2.2.2.1 recipient_error_content_free_nonvacuous.2.2.2.2.2

end nonvacuous

end Props.C18
end AgeModel
