/-
  C10 — passphrase files stand alone and bound the work they demand.
-/
import Proofs.FileLabels
import Proofs.TapeLayout
import AgeModel.CliIdent
import Proofs.ToyPrims
namespace AgeModel
namespace Props.C10
open Format

/-- A passphrase identity rejects (fatally, without deriving any key) every
    header in which a passphrase stanza is not the only stanza — wherever it stands. -/
theorem scrypt_identity_alone (P : Prims) (pw : Bytes) (maxWF : Nat) (ss : List Stanza)
    (hs : ∃ s ∈ ss, s.type = tScrypt) (hlen : ss.length ≠ 1) :
    (Identity.scrypt pw maxWF).unwrapLog P ss = (.fatal, []) := by
  unfold Identity.unwrapLog
  have : ss.any (fun s => s.type = tScrypt) = true := by
    rw [List.any_eq_true]
    obtain ⟨s, hm, ht⟩ := hs
    exact ⟨s, hm, by simp [ht]⟩
  simp [this, hlen]

/-- One stanza: a key is derived (the log is `[n]`) only if the work-factor
    argument is a canonical positive decimal `n` with `n ≤ max`; in every other
    case nothing is derived and the result is not a key — for every argument
    string, every configured maximum and every passphrase, right or wrong. -/
theorem workfactor_guard (P : Prims) (pw : Bytes) (maxWF : Nat) (s : Stanza) :
    (∃ a w n, s.args = [a, w] ∧ parseWorkFactor w = some n ∧ n ≤ maxWF ∧ (unwrapScrypt P pw maxWF s).2 = [n]) ∨
    ((unwrapScrypt P pw maxWF s).2 = [] ∧ ∀ k, (unwrapScrypt P pw maxWF s).1 ≠ .key k) := by
  unfold unwrapScrypt
  split
  · exact Or.inr ⟨rfl, by intro k; simp⟩
  · split
    · rename_i a w hargs
      split
      · exact Or.inr ⟨rfl, by intro k; simp⟩
      · split
        · exact Or.inr ⟨rfl, by intro k; simp⟩
        · split
          · exact Or.inr ⟨rfl, by intro k; simp⟩
          · rename_i n hn
            split
            · exact Or.inr ⟨rfl, by intro k; simp⟩
            · rename_i hle
              exact Or.inl ⟨a, w, n, hargs, hn, by omega, rfl⟩
    · exact Or.inr ⟨rfl, by intro k; simp⟩

/-- canonical positive decimals only: leading zeros, signs, spaces, hex, empty are not accepted -/
theorem workfactor_canonical (w : Bytes) (n : Nat) (h : parseWorkFactor w = some n) :
    ∃ d ds, w = d :: ds ∧ 49 ≤ d.toNat ∧ d.toNat ≤ 57 ∧ (∀ c ∈ ds, 48 ≤ c.toNat ∧ c.toNat ≤ 57) ∧ n < 2 ^ 63 := by
  unfold parseWorkFactor at h
  split at h
  · simp at h
  · rename_i d ds
    split at h
    · rename_i hc
      simp only at h
      split at h
      · rename_i hv
        refine ⟨d, ds, rfl, hc.1, hc.2.1, ?_, by simp only [Option.some.injEq] at h; omega⟩
        intro c hcm
        have := hc.2.2
        rw [List.all_eq_true] at this
        have := this c hcm
        simp at this; exact this
      · simp at h
    · simp at h

/-- every work factor for which the identity derives a key is within its configured maximum -/
theorem kdf_cost_bounded (P : Prims) (pw : Bytes) (maxWF : Nat) (ss : List Stanza) :
    ∀ n ∈ ((Identity.scrypt pw maxWF).unwrapLog P ss).2, n ≤ maxWF := by
  unfold Identity.unwrapLog
  simp only
  split
  · simp
  · -- multiUnwrapLog
    suffices h : ∀ ss : List Stanza, ∀ n ∈ (multiUnwrapLog (unwrapScrypt P pw maxWF) ss).2, n ≤ maxWF from h ss
    intro ss
    induction ss with
    | nil => simp [multiUnwrapLog]
    | cons s ss ih =>
      intro n hn
      unfold multiUnwrapLog at hn
      have hg := workfactor_guard P pw maxWF s
      generalize hr : unwrapScrypt P pw maxWF s = r at hn hg
      obtain ⟨res, log⟩ := r
      have hlog : ∀ m ∈ log, m ≤ maxWF := by
        intro m hm
        rcases hg with ⟨a, w, k, _, _, hk, hl⟩ | ⟨hl, _⟩
        · simp only at hl; rw [hl] at hm; simp at hm; omega
        · simp only at hl; rw [hl] at hm; simp at hm
      cases res with
      | incorrect =>
        simp only at hn
        rw [List.mem_append] at hn
        rcases hn with hn | hn
        · exact hlog n hn
        · exact ih n hn
      | key k => simp only at hn; exact hlog n hn
      | fatal => simp only at hn; exact hlog n hn

/-- Encryption refuses every recipient list in which a passphrase recipient is
    followed or preceded by a recipient that declares no labels (every native
    X25519 / SSH recipient): if Encrypt got as far as producing a header, the
    list cannot contain both. -/
theorem scrypt_never_mixed_encrypt (P : Prims) (tape : Bytes) (rs : List Recipient) (pw : Bytes) (n : Nat) (other : Recipient)
    (hs : Recipient.scrypt pw n ∈ rs) (ho : other ∈ rs)
    (hother : (∃ p, other = .x25519 p) ∨ (∃ w m, other = .sshEd w m) ∨ (∃ w p, other = .sshRsa w p)) :
    ∀ fk st t, encryptHeader P tape rs ≠ .ok (fk, st, t) := by
  intro fk st t hh
  obtain ⟨_, t0, _, hw⟩ := encryptHeader_fk hh
  cases rs with
  | nil => simp at hs
  | cons r rs' =>
    obtain ⟨ss, l, t1, hw1, hall⟩ := wrapAll_labels_none P fk r rs' 0 t0 [] st t hw
    -- labels of the passphrase recipient and of the other one, both equal (sorted) to those of the first
    have hlab : ∀ r' ∈ r :: rs', ∃ tp ss' l' t', wrapOne P r' fk tp = .ok (some (ss', l'), t') ∧ sortLabels l' = sortLabels l := by
      intro r' hr'
      simp only [List.mem_cons] at hr'
      rcases hr' with rfl | hr'
      · exact ⟨t0, ss, l, t1, hw1, rfl⟩
      · exact hall r' hr'
    obtain ⟨tp1, ss1, l1, t1', hws, hl1⟩ := hlab _ hs
    obtain ⟨tp2, ss2, l2, t2', hwo, hl2⟩ := hlab _ ho
    obtain ⟨salt, lab, _, _, _, hl1e⟩ := wrapOne_labels_scrypt P pw n fk tp1 ss1 l1 t1' hws
    have hl2e : l2 = [] := by
      rcases hother with ⟨p, rfl⟩ | ⟨w, m, rfl⟩ | ⟨w, p, rfl⟩
      · exact wrapOne_labels_x25519 P p fk tp2 ss2 l2 t2' hwo
      · exact wrapOne_labels_sshEd P w m fk tp2 ss2 l2 t2' hwo
      · exact wrapOne_labels_sshRsa P w p fk tp2 ss2 l2 t2' hwo
    rw [hl1e, sortLabels_singleton] at hl1
    rw [hl2e, sortLabels_nil] at hl2
    rw [← hl2] at hl1
    simp at hl1

/-- Two passphrase recipients in one list — anywhere in it: `pre`, `mid`, `post` are arbitrary. If Encrypt accepts the
    list, then the 16 bytes of the REAL tape that are the first one's label draw (after the 16 bytes of the file key, what
    `pre` consumed, and the first one's 16 bytes of salt) EQUAL the 16 bytes of the tape that are the second one's label
    draw (32 bytes of the first one and what `mid` consumed further on, after its own salt): a collision of the random
    source between two disjoint 16-byte slices — the reduction form of "a second passphrase recipient is refused". -/
theorem two_scrypt_need_equal_labels (P : Prims) (tape : Bytes) (pre mid post : List Recipient) (pw1 : Bytes) (n1 : Nat) (pw2 : Bytes) (n2 : Nat)
    (fk : Bytes) (st : List Stanza) (t : Bytes)
    (hh : encryptHeader P tape (pre ++ Recipient.scrypt pw1 n1 :: (mid ++ Recipient.scrypt pw2 n2 :: post)) = .ok (fk, st, t)) :
    (tape.drop (16 + (pre.map drawSize).sum + 16)).take 16 =
      (tape.drop (16 + (pre.map drawSize).sum + 32 + (mid.map drawSize).sum + 16)).take 16 := by
  obtain ⟨l0, hall⟩ := encryptHeader_located P tape _ fk st t hh
  obtain ⟨ss1, l1, t1, hw1, hl1⟩ := hall pre (.scrypt pw1 n1) (mid ++ Recipient.scrypt pw2 n2 :: post) rfl
  obtain ⟨ss2, l2, t2, hw2, hl2⟩ := hall (pre ++ Recipient.scrypt pw1 n1 :: mid) (.scrypt pw2 n2) post (by simp)
  have e1 := wrapOne_label_scrypt_located P pw1 n1 fk _ ss1 l1 t1 hw1
  have e2 := wrapOne_label_scrypt_located P pw2 n2 fk _ ss2 l2 t2 hw2
  rw [e1, sortLabels_singleton] at hl1
  rw [e2, sortLabels_singleton, ← hl1] at hl2
  simp only [List.cons.injEq, and_true] at hl2
  have hslice := (hexLower_inj _ _ hl2).symm
  rw [List.drop_drop, List.drop_drop] at hslice
  have hsum : ((pre ++ Recipient.scrypt pw1 n1 :: mid).map drawSize).sum =
      (pre.map drawSize).sum + 32 + (mid.map drawSize).sum := by
    simp [drawSize, Nat.add_assoc]
  rw [hsum] at hslice
  rw [show 16 + (pre.map drawSize).sum + 32 + (mid.map drawSize).sum + 16 =
      16 + ((pre.map drawSize).sum + 32 + (mid.map drawSize).sum) + 16 by omega]
  exact hslice

/-! ## the command line tool's own passphrase identity (cmd/age `LazyScryptIdentity`)
    and its passphrase-protected identities file (`EncryptedIdentity`) -/

open CliIdent in
/-- The CLI asks for the passphrase exactly when the header is a lone passphrase
    stanza — for every header, every callback behaviour. -/
theorem cli_prompt_iff (P : Prims) (ask : Option Bytes) (m : Nat) (ss : List Stanza) :
    (lazyUnwrap P ask m ss).2 = true ↔ ∃ s, ss = [s] ∧ s.type = tScrypt := by
  unfold lazyUnwrap
  split
  · rename_i h
    constructor
    · intro hf; simp at hf
    · rintro ⟨s, rfl, _⟩; exact absurd rfl h.2
  · match ss with
    | [] => simp
    | [s] =>
      simp only
      by_cases ht : s.type = tScrypt
      · simp only [ht, ne_eq, not_true_eq_false, if_false]
        constructor
        · intro _; exact ⟨s, rfl, ht⟩
        · intro _
          cases ask with
          | none => rfl
          | some pw =>
            simp only
            split
            · rfl
            · split <;> rfl
      · simp only [ne_eq, ht, not_false_eq_true, if_true]
        constructor
        · intro hf; simp at hf
        · rintro ⟨s', hs, ht'⟩
          simp only [List.cons.injEq, and_true] at hs
          subst hs; exact absurd ht' ht
    | _ :: _ :: _ =>
      simp

open CliIdent in
/-- a passphrase stanza that is not alone: fatal, without asking and without a key -/
theorem cli_passphrase_stanza_alone (P : Prims) (ask : Option Bytes) (m : Nat) (ss : List Stanza)
    (hs : ∃ s ∈ ss, s.type = tScrypt) (hlen : ss.length ≠ 1) :
    lazyUnwrap P ask m ss = (.fatal, false) := by
  unfold lazyUnwrap
  have : ss.any (fun s => s.type = tScrypt) = true := by
    rw [List.any_eq_true]
    obtain ⟨s, hm, ht⟩ := hs
    exact ⟨s, hm, by simp [ht]⟩
  simp [this, hlen]

open CliIdent in
/-- on a passphrase-encrypted file the CLI never answers "incorrect identity": a wrong
    passphrase (or no terminal) is a fatal error, so no other identity is tried and the
    operation fails at the header -/
theorem cli_wrong_passphrase_fatal (P : Prims) (ask : Option Bytes) (m : Nat) (s : Stanza) (ht : s.type = tScrypt) :
    (lazyUnwrap P ask m [s]).1 ≠ .incorrect := by
  unfold lazyUnwrap
  simp only [List.length_singleton, ne_eq, not_true_eq_false, and_false, if_false, ht]
  cases ask with
  | none => simp
  | some pw =>
    simp only
    split
    · simp
    · split
      · simp
      · rename_i r hr; exact hr

open CliIdent in
/-- whenever the CLI identity yields a file key, the passphrase typed is non-empty and the
    library's passphrase identity yields that key from the same stanza (so the
    work-factor bound `kdf_cost_bounded` and `workfactor_guard` apply to the CLI unchanged) -/
theorem cli_agrees_with_library (P : Prims) (ask : Option Bytes) (m : Nat) (ss : List Stanza) (k : Bytes)
    (h : (lazyUnwrap P ask m ss).1 = .key k) :
    ∃ pw s, ask = some pw ∧ pw ≠ [] ∧ ss = [s] ∧ (Identity.scrypt pw m).unwrap P [s] = .key k := by
  unfold lazyUnwrap at h
  split at h
  · simp at h
  · match ss, h with
    | [s], h =>
      simp only at h
      split at h
      · simp at h
      · cases ask with
        | none => simp at h
        | some pw =>
          simp only at h
          split at h
          · simp at h
          · rename_i hpw
            split at h
            · simp at h
            · rename_i r hr
              simp only at h
              refine ⟨pw, s, rfl, ?_, rfl, h⟩
              intro e; subst e; simp [newScryptIdentityOK] at hpw
    | [], h => simp at h
    | _ :: _ :: _, h => simp at h

open CliIdent in
/-- a passphrase-protected identities file is opened (and the passphrase asked for) at most
    once: after a call that opened it, no later call asks again, whatever it is given -/
theorem cli_encrypted_identity_asks_once (P : Prims) (F : Protected) (ask ask' : Option Bytes) (ss ss' : List Stanza)
    (ids : List Identity) (asked : Bool) (h : F.open_ ask = (some ids, asked)) :
    ((EncId.new.unwrap P F ask ss).1.unwrap P F ask' ss').2.2.1 = false := by
  unfold EncId.unwrap EncId.new
  simp only [h]

open CliIdent in
/-- a failed attempt (wrong passphrase, no terminal, damaged file) caches nothing -/
theorem cli_encrypted_identity_failure_keeps_nothing (P : Prims) (F : Protected) (ask : Option Bytes) (ss : List Stanza)
    (asked : Bool) (h : F.open_ ask = (none, asked)) :
    EncId.new.unwrap P F ask ss = (EncId.new, .fatal, asked, false) := by
  unfold EncId.unwrap EncId.new
  simp only [h]

/-- non-vacuity: a concrete non-canonical work factor ("05") and a canonical one ("18") -/
example : parseWorkFactor [48, 53] = none ∧ parseWorkFactor [49, 56] = some 18 ∧ parseWorkFactor [43, 53] = none := by decide

/-! ## non-vacuity witnesses (toy primitives of Proofs/ToyPrims) -/

/-- non-vacuity of `scrypt_identity_alone`: a header of two stanzas, an X25519 one followed by a passphrase one -/
theorem scrypt_identity_alone_nonvacuous :
    (∃ s ∈ [({ type := tX25519, args := [B64.encRaw (List.replicate 32 0)], body := List.replicate 28 1 } : Stanza),
            wrapScrypt Prims.toy [112, 119] 10 (List.replicate 16 7) (List.replicate 16 4)], s.type = tScrypt) ∧
    [({ type := tX25519, args := [B64.encRaw (List.replicate 32 0)], body := List.replicate 28 1 } : Stanza),
      wrapScrypt Prims.toy [112, 119] 10 (List.replicate 16 7) (List.replicate 16 4)].length ≠ 1 :=
  ⟨⟨_, List.mem_cons_of_mem _ (List.mem_singleton.mpr rfl), rfl⟩, by decide⟩

/-- non-vacuity of `workfactor_canonical`: the argument `18` -/
theorem workfactor_canonical_nonvacuous : parseWorkFactor [49, 56] = some 18 := by decide

/-- `kdf_cost_bounded` and `workfactor_guard` have no hypotheses; their bounded quantifier / first alternative is not empty:
    the identity of passphrase `pw` (maximum 22) opens the lone stanza wrapped for `pw` at work factor 10, deriving one key, at 10 -/
theorem kdf_cost_bounded_nonvacuous :
    (Identity.scrypt [112, 119] 22).unwrapLog Prims.toy
      [wrapScrypt Prims.toy [112, 119] 10 (List.replicate 16 7) (List.replicate 16 4)] = (.key (List.replicate 16 4), [10]) := by rfl

/-- … and the second alternative of `workfactor_guard` is met by the same stanza when the maximum is 9: fatal, nothing derived -/
example : unwrapScrypt Prims.toy [112, 119] 9
    (wrapScrypt Prims.toy [112, 119] 10 (List.replicate 16 7) (List.replicate 16 4)) = (.fatal, []) := by rfl

/-- non-vacuity of `scrypt_never_mixed_encrypt`: a passphrase recipient followed by an X25519 recipient -/
theorem scrypt_never_mixed_encrypt_nonvacuous :
    Recipient.scrypt [112] 10 ∈ [Recipient.scrypt [112] 10, Recipient.x25519 (List.replicate 32 0)] ∧
    Recipient.x25519 (List.replicate 32 0) ∈ [Recipient.scrypt [112] 10, Recipient.x25519 (List.replicate 32 0)] ∧
    ((∃ p, Recipient.x25519 (List.replicate 32 0) = .x25519 p) ∨
      (∃ w m, Recipient.x25519 (List.replicate 32 0) = .sshEd w m) ∨ (∃ w p, Recipient.x25519 (List.replicate 32 0) = .sshRsa w p)) :=
  ⟨List.mem_cons_self, List.mem_cons_of_mem _ List.mem_cons_self, Or.inl ⟨_, rfl⟩⟩

/-- … and on a tape long enough for every draw that list is refused for exactly that reason -/
example : encryptHeader Prims.toy (List.replicate 100 7)
    [Recipient.scrypt [112] 10, Recipient.x25519 (List.replicate 32 0)] = .error .incompatible := by rfl

/-- non-vacuity of `two_scrypt_need_equal_labels`: on the constant tape 7,7,7,… the two label draws coincide, and Encrypt accepts
    two different passphrase recipients (`pre = []`, `mid = []`, `post = []`) -/
theorem two_scrypt_need_equal_labels_nonvacuous :
    ∃ st, encryptHeader Prims.toy (List.replicate 100 7)
        ([] ++ Recipient.scrypt [112] 10 :: ([] ++ Recipient.scrypt [113] 12 :: [])) =
        .ok (List.replicate 16 7, st, List.replicate 20 7) := ⟨_, rfl⟩

/-- … the conclusion at that witness: bytes 32..47 of the tape (the first label draw) are bytes 64..79 (the second) -/
example : ((List.replicate 100 7 : Bytes).drop 32).take 16 = ((List.replicate 100 7 : Bytes).drop 64).take 16 := by
  obtain ⟨st, h⟩ := two_scrypt_need_equal_labels_nonvacuous
  exact two_scrypt_need_equal_labels _ _ [] [] [] _ _ _ _ _ _ _ h

/-- … and on the tape 0,1,2,…, where the two draws differ, the same list is refused -/
example : encryptHeader Prims.toy ((List.range 100).map Nat.toUInt8)
    [Recipient.scrypt [112] 10, Recipient.scrypt [113] 12] = .error .incompatible := by rfl

/-- non-vacuity of `cli_passphrase_stanza_alone`: the two-stanza header of `scrypt_identity_alone_nonvacuous` (same hypotheses) -/
theorem cli_passphrase_stanza_alone_nonvacuous :
    (∃ s ∈ [({ type := tX25519, args := [B64.encRaw (List.replicate 32 0)], body := List.replicate 28 1 } : Stanza),
            wrapScrypt Prims.toy [112, 119] 10 (List.replicate 16 7) (List.replicate 16 4)], s.type = tScrypt) ∧
    [({ type := tX25519, args := [B64.encRaw (List.replicate 32 0)], body := List.replicate 28 1 } : Stanza),
      wrapScrypt Prims.toy [112, 119] 10 (List.replicate 16 7) (List.replicate 16 4)].length ≠ 1 :=
  scrypt_identity_alone_nonvacuous

/-- non-vacuity of `cli_wrong_passphrase_fatal`: a passphrase stanza -/
theorem cli_wrong_passphrase_fatal_nonvacuous :
    (wrapScrypt Prims.toy [112, 119] 10 (List.replicate 16 7) (List.replicate 16 4)).type = tScrypt := rfl

open CliIdent in
/-- … and a lone passphrase stanza whose body does not open under the typed passphrase: asked, fatal -/
example : lazyUnwrap Prims.toy (some [120]) 22
    [{ type := tScrypt, args := [B64.encRaw (List.replicate 16 7), [49, 48]], body := List.replicate 28 1 }] = (.fatal, true) := by rfl

open CliIdent in
/-- non-vacuity of `cli_agrees_with_library`: the CLI identity, given the passphrase, opens the lone stanza wrapped for it -/
theorem cli_agrees_with_library_nonvacuous :
    (lazyUnwrap Prims.toy (some [112, 119]) 22
      [wrapScrypt Prims.toy [112, 119] 10 (List.replicate 16 7) (List.replicate 16 4)]).1 = .key (List.replicate 16 4) := by rfl

open CliIdent in
/-- non-vacuity of `cli_encrypted_identity_asks_once`: a protected file that opens (to one X25519 identity) when a passphrase is typed -/
theorem cli_encrypted_identity_asks_once_nonvacuous :
    ({ open_ := fun a => match a with
        | some _ => (some [Identity.x25519 (List.replicate 32 2)], true)
        | none => (none, true) } : Protected).open_ (some [112]) = (some [Identity.x25519 (List.replicate 32 2)], true) := rfl

open CliIdent in
/-- non-vacuity of `cli_encrypted_identity_failure_keeps_nothing`: the same protected file when the terminal is not available -/
theorem cli_encrypted_identity_failure_keeps_nothing_nonvacuous :
    ({ open_ := fun a => match a with
        | some _ => (some [Identity.x25519 (List.replicate 32 2)], true)
        | none => (none, true) } : Protected).open_ none = (none, true) := rfl

end Props.C10
end AgeModel
