/-
  C14 — hostile input produces errors, never panics or hangs.

  PARTIAL, by the nature of the technique. What a Lean model can carry, and what
  is proved here for ALL inputs:
    * every modelled parser / machine is a TOTAL function (Lean accepts no other),
      its fuel is provably sufficient (`fuel` is never an outcome), so the modelled
      logic returns on every input after a number of steps linear in its length;
    * every explicit `panic(...)` of the library (the list is regenerated from the
      source and pinned in Tie/C14) that lies in modelled code is an explicit
      `panic` outcome of the Impl machines and is unreachable;
    * a passphrase identity derives keys only within its configured maximum (C10);
    * armor failures carry the armor error class (C08); a rejected header leaves
      neither a header nor a payload (C07).
  What it cannot: a Go RUNTIME panic (index out of range, nil dereference) or a
  hang in code the model abstracts — encoding/base64, bufio, x/crypto's SSH key
  parsers, bcrypt-pbkdf. For that part the correspondence run is a mutation-based
  differential fuzz of every entry point under recover() and a watchdog: support
  for the tie, not a proof.
-/
import Proofs.Totality
import Props.C10
import Props.C08
import Props.C07
import Props.C12
namespace AgeModel
namespace Props.C14
open Stream

/-- header parser: total, never out of fuel; failure leaves nothing behind (an
    `Except.error` carries neither header nor payload) -/
theorem header_parser_total (b : Bytes) :
    (∃ h rest, Format.parse b = .ok (h, rest)) ∨ (∃ e, Format.parse b = .error e ∧ e ≠ .fuel) := by
  cases hp : Format.parse b with
  | ok v => exact Or.inl ⟨v.1, v.2, rfl⟩
  | error e => exact Or.inr ⟨e, rfl, fun he => Format.parse_no_fuel b (by rw [hp, he])⟩

/-- STREAM reader (`stream.Reader.Read`): on every ciphertext shorter than 2^88 bytes,
    every source ending and every sequence of read sizes, the machine terminates
    with a proper outcome: never one of the explicit panics ("dirty buffer",
    "chunk counter wrapped around") and never out of fuel. -/
theorem stream_reader_never_panics (A : AEAD) (C L : Nat) (hE : 0 < C + A.T) (k c : Bytes) (srcFail : Bool)
    (hL : c.length < L) (sizes : List Nat) (hpos : ∀ s ∈ sizes, 0 < s)
    (hlong : (dec A C k srcFail 0 c).1.length + c.length + 1 < sizes.length) :
    ∃ r' out o, (Reader.new ⟨c, srcFail⟩).drain A C L k sizes = (r', out, some o) ∧ o ≠ .fuel ∧ ∀ n, o ≠ .panic n := by
  obtain ⟨r', hr⟩ := Props.C12.reader_refines_spec A C L hE k c srcFail hL sizes hpos hlong
  have := decFrom_outcome A C hE k srcFail (c.length + 1) 0 c (by omega)
  exact ⟨r', _, _, hr, this.1, this.2⟩

/-- STREAM writer: the only errors `Write`/`Close` can report are the destination's
    failure and — after at least (L-1)·C bytes, L = 2^88 — the counter limit; the
    "flush called with partial chunk" panic and fuel exhaustion are unreachable. -/
theorem stream_writer_never_panics {S : DstSpec} (A : AEAD) (C L : Nat) (hC : 0 < C) (k acc0 : Bytes)
    (w w' : Writer S) (pt p : Bytes) (n : Nat) (e : Outcome)
    (hinv : WInv A C k acc0 w pt) (h : w.write A C L k p = (w', n, some e)) :
    e = .dstErr ∨ (e = .panic 3 ∧ (L - 1) * C ≤ pt.length + p.length) :=
  (write_err A C L hC k acc0 w w' pt p n e hinv h).2.2

theorem stream_close_never_panics {S : DstSpec} (A : AEAD) (C L : Nat) (k acc0 : Bytes)
    (w w' : Writer S) (pt : Bytes) (e : Outcome)
    (hinv : WInv A C k acc0 w pt) (h : w.close A C L k = (w', some e)) :
    e = .dstErr ∨ (e = .panic 3 ∧ (L - 1) * C ≤ pt.length) :=
  (close_err A C L k acc0 w w' pt e hinv h).2

/-- a passphrase identity never performs more key-derivation work than its maximum allows -/
theorem kdf_work_bounded (P : Prims) (pw : Bytes) (maxWF : Nat) (ss : List Format.Stanza) :
    ∀ n ∈ ((Identity.scrypt pw maxWF).unwrapLog P ss).2, n ≤ maxWF :=
  Props.C10.kdf_cost_bounded P pw maxWF ss

/-- armor failures carry the armor error class -/
theorem armor_errors_typed (W : Nat) (fail : Bool) (t : Bytes) :
    (Armor.read W fail t).2 = .eof ∨ (Armor.read W fail t).2 = .err :=
  Props.C08.armor_errors_typed W fail t

/-- Decrypt as a whole: a total function of (identities, file bytes); every error
    result carries no reader -/
theorem decrypt_total (P : Prims) (ids : List Identity) (file : Bytes) :
    (∃ k payload c, decryptInit P ids file = (.ok (k, payload), c)) ∨ (∃ e c, decryptInit P ids file = (.error e, c)) := by
  cases h : decryptInit P ids file with
  | mk r c =>
    cases r with
    | ok v => exact Or.inl ⟨v.1, v.2, c, rfl⟩
    | error e => exact Or.inr ⟨e, c, rfl⟩

end Props.C14
end AgeModel
