/-
  C14 — hostile input produces errors, never panics or hangs.

  PARTIAL, by the nature of the technique. What a Lean model can carry, and what
  is proved here for ALL inputs:
    * every modelled parser / machine is a TOTAL function (Lean accepts no other),
      its fuel is provably sufficient (`fuel` is never an outcome), so the modelled
      logic returns on every input after a number of steps linear in its length;
    * every explicit `panic(...)` of the library (the list is regenerated from the
      source and pinned in Tie/C14) that lies in modelled code is an explicit
      `panic` outcome of the Impl machines and is unreachable;
    * a passphrase identity derives keys only within its configured maximum (C10);
    * armor failures carry the armor error class (C08); a rejected header leaves
      neither a header nor a payload (C07).
  What it cannot: a Go RUNTIME panic (index out of range, nil dereference) or a
  hang in code the model abstracts — encoding/base64, bufio, x/crypto's SSH key
  parsers, bcrypt-pbkdf. For that part the correspondence run is a mutation-based
  differential fuzz of every entry point under recover() and a watchdog: support
  for the tie, not a proof.
-/
import Proofs.Totality
import Props.C10
import Props.C08
import Props.C07
import Props.C12
import Proofs.ToyPrims
namespace AgeModel
namespace Props.C14
open Stream

/-- header parser: total, never out of fuel; failure leaves nothing behind (an
    `Except.error` carries neither header nor payload) -/
theorem header_parser_total (b : Bytes) :
    (∃ h rest, Format.parse b = .ok (h, rest)) ∨ (∃ e, Format.parse b = .error e ∧ e ≠ .fuel) := by
  cases hp : Format.parse b with
  | ok v => exact Or.inl ⟨v.1, v.2, rfl⟩
  | error e => exact Or.inr ⟨e, rfl, fun he => Format.parse_no_fuel b (by rw [hp, he])⟩

/-- STREAM reader (`stream.Reader.Read`): on every ciphertext shorter than 2^88 bytes,
    every source ending and every sequence of read sizes, the machine terminates
    with a proper outcome: never one of the explicit panics ("dirty buffer",
    "chunk counter wrapped around") and never out of fuel. -/
theorem stream_reader_never_panics (A : AEAD) (C L : Nat) (hE : 0 < C + A.T) (k c : Bytes) (srcFail : Bool)
    (hL : c.length < L) (sizes : List Nat) (hpos : ∀ s ∈ sizes, 0 < s)
    (hlong : (dec A C k srcFail 0 c).1.length + c.length + 1 < sizes.length) :
    ∃ r' out o, (Reader.new ⟨c, srcFail⟩).drain A C L k sizes = (r', out, some o) ∧ o ≠ .fuel ∧ ∀ n, o ≠ .panic n := by
  obtain ⟨r', hr⟩ := Props.C12.reader_refines_spec A C L hE k c srcFail hL sizes hpos hlong
  have := decFrom_outcome A C hE k srcFail (c.length + 1) 0 c (by omega)
  exact ⟨r', _, _, hr, this.1, this.2⟩

/-- STREAM writer: the only errors `Write`/`Close` can report are the destination's
    failure and — after at least (L-1)·C bytes, L = 2^88 — the counter limit; the
    "flush called with partial chunk" panic and fuel exhaustion are unreachable. -/
theorem stream_writer_never_panics {S : DstSpec} (A : AEAD) (C L : Nat) (hC : 0 < C) (k acc0 : Bytes)
    (w w' : Writer S) (pt p : Bytes) (n : Nat) (e : Outcome)
    (hinv : WInv A C k acc0 w pt) (h : w.write A C L k p = (w', n, some e)) :
    e = .dstErr ∨ (e = .panic 3 ∧ (L - 1) * C ≤ pt.length + p.length) :=
  (write_err A C L hC k acc0 w w' pt p n e hinv h).2.2

theorem stream_close_never_panics {S : DstSpec} (A : AEAD) (C L : Nat) (k acc0 : Bytes)
    (w w' : Writer S) (pt : Bytes) (e : Outcome)
    (hinv : WInv A C k acc0 w pt) (h : w.close A C L k = (w', some e)) :
    e = .dstErr ∨ (e = .panic 3 ∧ (L - 1) * C ≤ pt.length) :=
  (close_err A C L k acc0 w w' pt e hinv h).2

/-- a passphrase identity never performs more key-derivation work than its maximum allows -/
theorem kdf_work_bounded (P : Prims) (pw : Bytes) (maxWF : Nat) (ss : List Format.Stanza) :
    ∀ n ∈ ((Identity.scrypt pw maxWF).unwrapLog P ss).2, n ≤ maxWF :=
  Props.C10.kdf_cost_bounded P pw maxWF ss

/-- armor failures carry the armor error class -/
theorem armor_errors_typed (W : Nat) (fail : Bool) (t : Bytes) :
    (Armor.read W fail t).2 = .eof ∨ (Armor.read W fail t).2 = .err :=
  Props.C08.armor_errors_typed W fail t

/-- Decrypt as a whole: a total function of (identities, file bytes); every error
    result carries no reader -/
theorem decrypt_total (P : Prims) (ids : List Identity) (file : Bytes) :
    (∃ k payload c, decryptInit P ids file = (.ok (k, payload), c)) ∨ (∃ e c, decryptInit P ids file = (.error e, c)) := by
  cases h : decryptInit P ids file with
  | mk r c =>
    cases r with
    | ok v => exact Or.inl ⟨v.1, v.2, c, rfl⟩
    | error e => exact Or.inr ⟨e, c, rfl⟩

/-! ## Non-vacuity witnesses (toy AEAD with a 12-byte tag, chunk size 4) -/

/-- evaluation helpers: a pair / triple is its first component and the (decidable) rest -/
theorem nv_pair {α β : Type} (x : α × β) (b : β) (h : x.2 = b) : x = (x.1, b) := by
  cases x; cases h; rfl
theorem nv_triple {α β γ : Type} (x : α × β × γ) (b : β) (c : γ) (h1 : x.2.1 = b) (h2 : x.2.2 = c) : x = (x.1, b, c) := by
  obtain ⟨a, b', c'⟩ := x; cases h1; cases h2; rfl

/-- non-vacuity of `stream_reader_never_panics`, on hostile input: 40 bytes of garbage on a source ending in an
    error, and a genuine three-chunk payload with a byte of the second tag flipped and two bytes appended; 60 reads of
    3 bytes each -/
theorem stream_reader_never_panics_nonvacuous :
    let c₁ : Bytes := List.replicate 40 0x41
    let c₂ : Bytes := (encrypt AEAD.toy 4 [7, 7] [1, 2, 3, 4, 5, 6, 7, 8, 9]).set 30 0xFF ++ [0, 0]
    let sizes := List.replicate 60 3
    0 < 4 + AEAD.toy.T ∧ (∀ s ∈ sizes, 0 < s) ∧
    c₁.length < 2^88 ∧ (dec AEAD.toy 4 [7, 7] true 0 c₁).1.length + c₁.length + 1 < sizes.length ∧
    c₂.length < 2^88 ∧ (dec AEAD.toy 4 [7, 7] false 0 c₂).1.length + c₂.length + 1 < sizes.length ∧
    dec AEAD.toy 4 [7, 7] true 0 c₁ = ([], .authFail) ∧ dec AEAD.toy 4 [7, 7] false 0 c₂ = ([1, 2, 3, 4], .authFail) := by
  decide

/-- non-vacuity of `stream_writer_never_panics`, both disjuncts: (1) over a destination failing at byte offset 20, a
    writer that has accepted `[1,2,3]` reports `dstErr` on the next Write; (2) with the counter limit set to 2, a fresh
    writer over the perfect destination reports the counter-limit panic on a 9-byte Write -/
theorem stream_writer_never_panics_nonvacuous :
    let d : Dst (DstSpec.atOffset 20 true false) := { acc := [0xAA], st := false }
    let w := ((Writer.new d).write AEAD.toy 4 (2^88) [7, 7] [1, 2, 3]).1
    let d₂ : Dst DstSpec.perfect := { acc := [], st := () }
    (∃ w', 0 < 4 ∧ WInv AEAD.toy 4 [7, 7] d.acc w [1, 2, 3] ∧
      w.write AEAD.toy 4 (2^88) [7, 7] [4, 5, 6, 7, 8, 9] = (w', 0, some .dstErr)) ∧
    (∃ w', 0 < 4 ∧ WInv AEAD.toy 4 [7, 7] d₂.acc (Writer.new d₂) [] ∧
      (Writer.new d₂).write AEAD.toy 4 2 [7, 7] [1, 2, 3, 4, 5, 6, 7, 8, 9] = (w', 0, some (.panic 3))) := by
  intro d w d₂
  refine ⟨⟨(w.write AEAD.toy 4 (2^88) [7, 7] [4, 5, 6, 7, 8, 9]).1, by decide, ?_, nv_triple _ _ _ (by decide) (by decide)⟩,
    ⟨((Writer.new d₂).write AEAD.toy 4 2 [7, 7] [1, 2, 3, 4, 5, 6, 7, 8, 9]).1, by decide, WInv_new AEAD.toy 4 [7, 7] d₂,
      nv_triple _ _ _ (by decide) (by decide)⟩⟩
  exact (write_ok AEAD.toy 4 (2^88) (by decide) [7, 7] d.acc (Writer.new d) w [] [1, 2, 3] 3
    (WInv_new AEAD.toy 4 [7, 7] d) (nv_triple _ _ _ (by decide) (by decide))).1

/-- non-vacuity of `stream_close_never_panics`, both disjuncts: (1) over a destination failing at byte offset 10, a
    writer holding `[1,2,3]` reports `dstErr` on Close (the final chunk is 15 bytes); (2) with the counter limit set to
    1, Close of a fresh writer reports the counter-limit panic -/
theorem stream_close_never_panics_nonvacuous :
    let d : Dst (DstSpec.atOffset 10 true false) := { acc := [0xAA], st := false }
    let w := ((Writer.new d).write AEAD.toy 4 (2^88) [7, 7] [1, 2, 3]).1
    let d₂ : Dst DstSpec.perfect := { acc := [], st := () }
    (∃ w', WInv AEAD.toy 4 [7, 7] d.acc w [1, 2, 3] ∧ w.close AEAD.toy 4 (2^88) [7, 7] = (w', some .dstErr)) ∧
    (∃ w', WInv AEAD.toy 4 [7, 7] d₂.acc (Writer.new d₂) [] ∧
      (Writer.new d₂).close AEAD.toy 4 1 [7, 7] = (w', some (.panic 3))) := by
  intro d w d₂
  refine ⟨⟨(w.close AEAD.toy 4 (2^88) [7, 7]).1, ?_, nv_pair _ _ (by decide)⟩,
    ⟨((Writer.new d₂).close AEAD.toy 4 1 [7, 7]).1, WInv_new AEAD.toy 4 [7, 7] d₂, nv_pair _ _ (by decide)⟩⟩
  exact (write_ok AEAD.toy 4 (2^88) (by decide) [7, 7] d.acc (Writer.new d) w [] [1, 2, 3] 3
    (WInv_new AEAD.toy 4 [7, 7] d) (nv_triple _ _ _ (by decide) (by decide))).1

/-- `kdf_work_bounded` has no hypotheses; its conclusion ranges over a log that is not always empty: an scrypt
    identity with maximum 20 facing a well-formed scrypt stanza of work factor 18 derives exactly one key -/
theorem kdf_work_bounded_nonvacuous :
    ((Identity.scrypt [112, 119] 20).unwrapLog Prims.toy
      [wrapScrypt Prims.toy [112, 119] 18 (List.replicate 16 3) (List.replicate 16 9)]).2 = [18] := by
  decide

end Props.C14
end AgeModel
