/-
  C03 — any change to the header invalidates the file before any output.
-/
import Proofs.FileDecrypt
import Props.C01
import Proofs.FormatTop
namespace AgeModel
namespace Props.C03
open Format Stream

/-- **MAC gate.** Decrypt returns a payload reader only if the header's MAC equals
    HMAC(HKDF(file key, "header"), the header bytes up to `---`) for the file key
    some identity unwrapped; the stream key is derived from that file key and the
    16 bytes following the header. On a mismatch there is no reader, hence no
    plaintext. -/
theorem mac_gate (P : Prims) (ids : List Identity) (file k payload : Bytes) (c : Nat)
    (h : decryptInit P ids file = (.ok (k, payload), c)) :
    ∃ hdr rest fk, parse file = .ok (hdr, rest) ∧ (∃ i ∈ ids, i.unwrap P hdr.stanzas = .key fk) ∧
      hdr.mac = P.hmac (P.hkdf fk [] headerInfo 32) (marshalNoMAC hdr) ∧
      k = streamKey P fk (rest.take 16) ∧ payload = rest.drop 16 := by
  obtain ⟨hdr, rest, fk, hp, hi, _, hmac, _, hk, hpl⟩ := decryptInit_ok P ids file k payload c h
  exact ⟨hdr, rest, fk, hp, hi, by rw [← hmac]; simp [headerMAC, marshalNoMAC], hk, hpl⟩

/-- **The MAC covers the received bytes.** For every accepted file the MAC input
    is literally the prefix of the file up to `---` (canonicity, C07): the file is
    `MAC-input ++ " " ++ base64(mac) ++ "\n" ++ rest`. -/
theorem mac_covers_received_bytes (file rest : Bytes) (hdr : Header) (hp : parse file = .ok (hdr, rest)) :
    file = marshalNoMAC hdr ++ [sp] ++ B64.encRaw hdr.mac ++ [nl] ++ rest := by
  have := (parse_canon hp).1
  rw [this]; simp [marshal]

/-- two different stanza lists give two different MAC inputs -/
theorem mac_input_injective (s₁ s₂ : List Stanza) (w₁ : ∀ s ∈ s₁, s.WF) (w₂ : ∀ s ∈ s₂, s.WF)
    (e : marshalNoMAC { stanzas := s₁, mac := [] } = marshalNoMAC { stanzas := s₂, mac := [] }) : s₁ = s₂ := by
  let m : Bytes := List.replicate 32 0
  have hm : m.length = 32 := by simp [m]
  have h1 := parse_marshal { stanzas := s₁, mac := m } ⟨w₁, hm⟩ []
  have h2 := parse_marshal { stanzas := s₂, mac := m } ⟨w₂, hm⟩ []
  have : marshal { stanzas := s₁, mac := m } = marshal { stanzas := s₂, mac := m } := by
    simp only [marshal, marshalNoMAC] at e ⊢
    rw [e]
  rw [this, h2] at h1
  simp only [Except.ok.injEq, Prod.mk.injEq, and_true] at h1
  exact (Header.mk.inj h1).1.symm

/-- **Reduction form.** Take any header `h'` accepted by Decrypt: some identity unwrapped a file key `fk` from `h'`'s
    stanzas and `h'`'s MAC is the MAC of `h'`'s stanzas under `fk` (that much is `mac_gate`). If `h'` carries the MAC
    of an honest header with different stanzas under that same file key, then HMAC under the header key maps two
    different messages to the same tag — an explicit HMAC collision/forgery. (If instead the unwrapped file key
    differs from the honest one, a stanza was re-wrapped to the recipient: something anyone holding the public key
    can do and no header MAC prevents; the payload then fails on its first chunk, see C02.) The file key of the
    conclusion is PINNED to the one an identity unwrapped: without that clause the statement would follow from
    `parse` alone, by choosing an `fk` that falsifies the inner premise. -/
theorem header_edit_reduction (P : Prims) (ids : List Identity) (file' k payload : Bytes) (c : Nat)
    (honest : List Stanza) (hw : ∀ s ∈ honest, s.WF)
    (h : decryptInit P ids file' = (.ok (k, payload), c)) :
    ∃ hdr' rest fk, parse file' = .ok (hdr', rest) ∧
      (∃ i ∈ ids, i.unwrap P hdr'.stanzas = .key fk) ∧ headerMAC P fk hdr'.stanzas = hdr'.mac ∧
      (hdr'.stanzas ≠ honest → hdr'.mac = headerMAC P fk honest →
        marshalNoMAC { stanzas := hdr'.stanzas, mac := [] } ≠ marshalNoMAC { stanzas := honest, mac := [] } ∧
        P.hmac (P.hkdf fk [] headerInfo 32) (marshalNoMAC { stanzas := hdr'.stanzas, mac := [] })
          = P.hmac (P.hkdf fk [] headerInfo 32) (marshalNoMAC { stanzas := honest, mac := [] })) := by
  obtain ⟨hdr', rest, fk, hp, hid, _, hmac, _⟩ := decryptInit_ok P ids file' k payload c h
  refine ⟨hdr', rest, fk, hp, hid, hmac, ?_⟩
  intro hne hreuse
  have hwf' := (parse_canon hp).2.1
  refine ⟨fun e => hne (mac_input_injective _ _ hwf' hw e), ?_⟩
  rw [hreuse] at hmac
  exact hmac

/-- **Idealised form.** If the honest header's MAC input has NO SECOND PREIMAGE under the header key (no other
    message has the honest tag — the symbolic idealisation of unforgeability, for this one tag), then a parseable
    header whose stanzas differ from the honest ones but which reuses the honest MAC is rejected for every identity
    list that unwraps the honest file key: Decrypt returns an error and no reader. Covers edits confined to other
    recipients' stanzas, insertion, deletion, duplication and every reordering, because `stanzas'` is an arbitrary
    list different from `honest`. (The hypothesis used to be injectivity of HMAC on ALL messages, which no HMAC with a
    32-byte output can have — `hinj_contradicts_hmac_len` below; the local form is met by lawful suites, see
    `header_edit_rejected_nonvacuous`.) -/
theorem header_edit_rejected (P : Prims) (ids : List Identity) (file' : Bytes) (fk : Bytes)
    (honest : List Stanza) (hw : ∀ s ∈ honest, s.WF)
    (hdr' : Header) (rest : Bytes) (hp : parse file' = .ok (hdr', rest))
    (hne : hdr'.stanzas ≠ honest) (hreuse : hdr'.mac = headerMAC P fk honest)
    (hsame : ∀ i ∈ ids, ∀ k', i.unwrap P hdr'.stanzas = .key k' → k' = fk)
    (hnc : ∀ m, P.hmac (P.hkdf fk [] headerInfo 32) m =
        P.hmac (P.hkdf fk [] headerInfo 32) (marshalNoMAC { stanzas := honest, mac := [] }) →
      m = marshalNoMAC { stanzas := honest, mac := [] }) :
    ∀ k payload c, decryptInit P ids file' ≠ (.ok (k, payload), c) := by
  intro k payload c h
  obtain ⟨hdr2, rest2, fk2, hp2, ⟨i, hi, hik⟩, _, hmac, _⟩ := decryptInit_ok P ids file' k payload c h
  rw [hp] at hp2
  simp only [Except.ok.injEq, Prod.mk.injEq] at hp2
  obtain ⟨rfl, rfl⟩ := hp2
  have hfk := hsame i hi fk2 hik
  subst hfk
  rw [hreuse] at hmac
  unfold headerMAC at hmac
  have := hnc _ hmac
  exact hne (mac_input_injective _ _ (parse_canon hp).2.1 hw this)

/-- a MAC that is not the correct MAC of the presented header is rejected outright
    (replaced by random bytes, zeros, the MAC of another file …) -/
theorem wrong_mac_rejected (P : Prims) (ids : List Identity) (file' : Bytes) (hdr' : Header) (rest : Bytes)
    (hp : parse file' = .ok (hdr', rest))
    (hbad : ∀ i ∈ ids, ∀ k', i.unwrap P hdr'.stanzas = .key k' → headerMAC P k' hdr'.stanzas ≠ hdr'.mac) :
    ∀ k payload c, decryptInit P ids file' ≠ (.ok (k, payload), c) := by
  intro k payload c h
  obtain ⟨hdr2, rest2, fk2, hp2, ⟨i, hi, hik⟩, _, hmac, _⟩ := decryptInit_ok P ids file' k payload c h
  rw [hp] at hp2
  simp only [Except.ok.injEq, Prod.mk.injEq] at hp2
  obtain ⟨rfl, rfl⟩ := hp2
  exact hbad i hi fk2 hik hmac

/-- non-vacuity of `mac_gate` / `header_edit_reduction`: a concrete accepted file (toy primitives) -/
example : ∃ ids file k payload c, decryptInit Prims.toy ids file = (.ok (k, payload), c) :=
  let ⟨f, k, p, _, _, h⟩ := Props.C01.nonvacuous_roundtrip
  ⟨_, f, k, p, 1, h⟩

/-! ## Non-vacuity: for every theorem above, concrete values meeting all of its hypotheses at once -/

/-- witness values: a 16-byte file key; the two stanzas an ssh-rsa and an X25519 recipient wrap it in under the toy
    primitives; a passphrase and an ssh-ed25519 identity (both answer "incorrect" on these stanzas) and the X25519
    identity that opens the second stanza; a 16-byte payload nonce; a 9-byte plaintext -/
def wFk : Bytes := [1, 2, 3, 4, 5, 6, 7, 8, 9, 10, 11, 12, 13, 14, 15, 16]
def wStanzas : List Stanza :=
  [{ type := tSshRsa, args := [sshTag Prims.toy [1, 2, 3]], body := wFk },
   { type := tX25519, args := [B64.encRaw (List.replicate 32 0)], body := wFk ++ List.replicate 12 0 }]
def wPre : List Identity := [Identity.scrypt [112] 22, Identity.sshEd [1] [2]]
def wId : Identity := Identity.x25519 (List.replicate 32 2)
def wNonce : Bytes := List.replicate 16 8
def wPt : Bytes := [1, 2, 3, 4, 5, 6, 7, 8, 9]
/-- the honest file for these values (chunks of 4) -/
def wFile : Bytes := specFile Prims.toy 4 wFk wStanzas wNonce wPt

/-- (helper for the witnesses below) -/
theorem wStanzas_wf : ∀ s ∈ wStanzas, s.WF := by
  intro s hs
  simp only [wStanzas, List.mem_cons, List.mem_nil_iff, or_false] at hs
  rcases hs with rfl | rfl <;> exact ⟨by decide, by decide⟩

/-- non-vacuity of `mac_gate`: toy primitives; Decrypt accepts the honest two-stanza file `wFile` for the identity list
    passphrase, ssh-ed25519, X25519 — the third identity opens the file key -/
theorem mac_gate_nonvacuous :
    decryptInit Prims.toy (wPre ++ wId :: []) wFile =
      (.ok (streamKey Prims.toy wFk wNonce, Stream.encrypt Prims.toy.aead 4 (streamKey Prims.toy wFk wNonce) wPt), 3) :=
  decryptInit_specFile Prims.toy Prims.toy_correct 4 wFk wNonce wPt wStanzas wStanzas_wf (by decide) (by decide)
    wPre [] wId (by decide) (by decide)

example : ∃ hdr rest fk, parse wFile = .ok (hdr, rest) ∧ (∃ i ∈ wPre ++ wId :: [], i.unwrap Prims.toy hdr.stanzas = .key fk) ∧
    hdr.mac = Prims.toy.hmac (Prims.toy.hkdf fk [] headerInfo 32) (marshalNoMAC hdr) :=
  let ⟨hdr, rest, fk, h1, h2, h3, _⟩ := mac_gate Prims.toy _ wFile _ _ _ mac_gate_nonvacuous
  ⟨hdr, rest, fk, h1, h2, h3⟩

/-- non-vacuity of `mac_covers_received_bytes`: the same file parses, into a header with two stanzas -/
theorem mac_covers_received_bytes_nonvacuous :
    parse wFile = .ok ({ stanzas := wStanzas, mac := headerMAC Prims.toy wFk wStanzas },
      wNonce ++ Stream.encrypt Prims.toy.aead 4 (streamKey Prims.toy wFk wNonce) wPt) :=
  specFile_parse Prims.toy Prims.toy_correct 4 wFk wNonce wPt wStanzas wStanzas_wf

/-- non-vacuity of `mac_input_injective`: two well-formed stanza lists with the same MAC input (necessarily the same list) -/
theorem mac_input_injective_nonvacuous :
    (∀ s ∈ wStanzas, s.WF) ∧ (∀ s ∈ wStanzas, s.WF) ∧
    marshalNoMAC { stanzas := wStanzas, mac := [] } = marshalNoMAC { stanzas := wStanzas, mac := [] } :=
  ⟨wStanzas_wf, wStanzas_wf, rfl⟩

/-- the honest header of which `wStanzas` is an edit: the X25519 stanza alone (the ssh-rsa stanza was inserted in front) -/
def wHonest : List Stanza := [{ type := tX25519, args := [B64.encRaw (List.replicate 32 0)], body := wFk ++ List.replicate 12 0 }]

/-- non-vacuity of `header_edit_reduction`, inner hypotheses included: toy primitives; `wFile` is accepted, its stanzas
    differ from the honest list `wHonest`, and its MAC is the honest MAC under the same file key (the toy HMAC is
    constant, so the theorem's conclusion — an HMAC collision — is what one finds) -/
theorem header_edit_reduction_nonvacuous :
    ∃ hdr' rest k payload,
      (∀ s ∈ wHonest, s.WF) ∧ decryptInit Prims.toy (wPre ++ wId :: []) wFile = (.ok (k, payload), 3) ∧
      parse wFile = .ok (hdr', rest) ∧ hdr'.stanzas ≠ wHonest ∧ hdr'.mac = headerMAC Prims.toy wFk wHonest := by
  refine ⟨_, _, _, _, ?_, mac_gate_nonvacuous, mac_covers_received_bytes_nonvacuous, by decide, rfl⟩
  intro s hs
  simp only [wHonest, List.mem_singleton] at hs
  subst hs
  exact ⟨by decide, by decide⟩

/-- a LAWFUL suite in which the honest MAC input has no second preimage: HMAC answers 32 one-bytes on that message and
    32 zero-bytes on every other; everything else as in the toy suite -/
def wPsp : Prims :=
  { Prims.toy with hmac := fun _ m => if m = marshalNoMAC { stanzas := wHonest, mac := [] } then List.replicate 32 1 else List.replicate 32 0 }

theorem wPsp_correct : wPsp.Correct where
  aead := AEAD.toy_correct
  dh_comm := by intros; rfl
  x25519_len := by intro a b c h; simp [wPsp, Prims.toy] at h; subst h; simp
  sha256_len := by intro b; simp [wPsp, Prims.toy]
  hmac_len := by intro k m; simp only [wPsp]; split <;> simp
  oaep := by intro pub priv _ seed m l c h; simp [wPsp, Prims.toy] at h ⊢; exact h.symm

/-- the edited header: the stanzas of `wStanzas` (the ssh-rsa stanza inserted in front) under the honest MAC -/
def wHdr' : Header := { stanzas := wStanzas, mac := headerMAC wPsp wFk wHonest }

theorem wHdr'_mac : wHdr'.mac = List.replicate 32 1 := by
  simp [wHdr', headerMAC, wPsp]

/-- non-vacuity of `header_edit_rejected`, with a lawful primitive suite (`wPsp_correct`): the honest header is the
    X25519 stanza alone; the presented header carries the two stanzas of `wStanzas` under the honest MAC; the
    identities are passphrase, ssh-ed25519, X25519, the last of which does unwrap the file key -/
theorem header_edit_rejected_nonvacuous :
    wPsp.Correct ∧ (∀ s ∈ wHonest, s.WF) ∧ parse (marshal wHdr' ++ wNonce) = .ok (wHdr', wNonce) ∧
    wHdr'.stanzas ≠ wHonest ∧ wHdr'.mac = headerMAC wPsp wFk wHonest ∧
    (∀ i ∈ wPre ++ wId :: [], ∀ k', i.unwrap wPsp wHdr'.stanzas = .key k' → k' = wFk) ∧
    (∀ m, wPsp.hmac (wPsp.hkdf wFk [] headerInfo 32) m =
        wPsp.hmac (wPsp.hkdf wFk [] headerInfo 32) (marshalNoMAC { stanzas := wHonest, mac := [] }) →
      m = marshalNoMAC { stanzas := wHonest, mac := [] }) ∧
    wId.unwrap wPsp wHdr'.stanzas = .key wFk := by
  refine ⟨wPsp_correct, ?_, parse_marshal wHdr' ⟨wStanzas_wf, by rw [wHdr'_mac]; rfl⟩ _, by decide, rfl, ?_, ?_, by decide⟩
  · intro s hs
    simp only [wHonest, List.mem_singleton] at hs
    subst hs
    exact ⟨by decide, by decide⟩
  · have h : ∀ i ∈ wPre ++ wId :: [], i.unwrap wPsp wHdr'.stanzas = .incorrect ∨ i.unwrap wPsp wHdr'.stanzas = .key wFk := by
      decide
    intro i hi k' hk
    rcases h i hi with h | h
    · rw [h] at hk; cases hk
    · rw [h] at hk; cases hk; rfl
  · intro m hm
    simp only [wPsp, if_true] at hm
    split at hm
    · assumption
    · exact absurd hm (by decide)

example : ∀ k payload c, decryptInit wPsp (wPre ++ wId :: []) (marshal wHdr' ++ wNonce) ≠ (.ok (k, payload), c) :=
  let ⟨_, hw, hp, hne, hreuse, hsame, hnc, _⟩ := header_edit_rejected_nonvacuous
  header_edit_rejected wPsp _ _ wFk wHonest hw wHdr' wNonce hp hne hreuse hsame hnc

/-- non-vacuity of `wrong_mac_rejected`: toy primitives (whose HMAC is 32 zero bytes); the two-stanza header under a MAC
    of 32 bytes of value 1; the X25519 identity does unwrap the file key -/
theorem wrong_mac_rejected_nonvacuous :
    parse (marshal { stanzas := wStanzas, mac := List.replicate 32 1 } ++ wNonce) =
      .ok ({ stanzas := wStanzas, mac := List.replicate 32 1 }, wNonce) ∧
    (∀ i ∈ wPre ++ wId :: [], ∀ k', i.unwrap Prims.toy wStanzas = .key k' →
      headerMAC Prims.toy k' wStanzas ≠ List.replicate 32 1) ∧
    wId.unwrap Prims.toy wStanzas = .key wFk :=
  ⟨parse_marshal _ ⟨wStanzas_wf, by decide⟩ _, fun _ _ _ _ h => (by decide : List.replicate 32 (0 : UInt8) ≠ List.replicate 32 1) h, by decide⟩

example : ∀ k payload c, decryptInit Prims.toy (wPre ++ wId :: [])
    (marshal { stanzas := wStanzas, mac := List.replicate 32 1 } ++ wNonce) ≠ (.ok (k, payload), c) :=
  let ⟨hp, hbad, _⟩ := wrong_mac_rejected_nonvacuous
  wrong_mac_rejected Prims.toy _ _ _ wNonce hp hbad

/-! ### why the hypothesis of `header_edit_rejected` is local: injectivity on ALL messages is impossible for a 32-byte HMAC -/

/-- pigeonhole: `N + 1` naturals below `N` are not pairwise distinct -/
theorem pigeonhole : ∀ (N : Nat) (g : Nat → Nat), (∀ i, i ≤ N → g i < N) → ∃ i j, i < j ∧ j ≤ N ∧ g i = g j := by
  intro N
  induction N with
  | zero => intro g h; exact absurd (h 0 (Nat.le_refl 0)) (Nat.not_lt_zero _)
  | succ N ih =>
    intro g h
    by_cases hc : ∃ i, i ≤ N ∧ g i = g (N + 1)
    · obtain ⟨i, hi, e⟩ := hc
      exact ⟨i, N + 1, by omega, Nat.le_refl _, e⟩
    · have hne : ∀ i, i ≤ N → g i ≠ g (N + 1) := fun i hi e => hc ⟨i, hi, e⟩
      obtain ⟨i, j, hij, hj, e⟩ := ih (fun i => if g (N + 1) < g i then g i - 1 else g i) (by
        intro i hi
        have h1 := h i (by omega)
        have h2 := h (N + 1) (Nat.le_refl _)
        have h3 := hne i hi
        show (if g (N + 1) < g i then g i - 1 else g i) < N
        split <;> omega)
      refine ⟨i, j, hij, by omega, ?_⟩
      have h3 := hne i (by omega)
      have h4 := hne j hj
      have e' : (if g (N + 1) < g i then g i - 1 else g i) = (if g (N + 1) < g j then g j - 1 else g j) := e
      split at e' <;> split at e' <;> omega

/-- a byte string as a number (little-endian) -/
def leNat : Bytes → Nat
  | [] => 0
  | x :: xs => x.toNat + 256 * leNat xs

theorem leNat_lt : ∀ b : Bytes, leNat b < 256 ^ b.length
  | [] => by simp [leNat]
  | x :: xs => by
    have := leNat_lt xs
    have hx := x.toNat_lt
    simp only [leNat, List.length_cons, Nat.pow_succ]
    omega

theorem leNat_inj : ∀ a b : Bytes, a.length = b.length → leNat a = leNat b → a = b
  | [], [], _, _ => rfl
  | [], _ :: _, h, _ => by simp at h
  | _ :: _, [], h, _ => by simp at h
  | x :: xs, y :: ys, h, e => by
    have hx := x.toNat_lt
    have hy := y.toNat_lt
    simp only [leNat] at e
    simp only [List.length_cons, Nat.add_right_cancel_iff] at h
    have h1 : x.toNat = y.toNat := by omega
    have h2 : leNat xs = leNat ys := by omega
    rw [leNat_inj xs ys h h2, UInt8.toNat_inj.mp h1]

/-- HMAC under a key being injective on ALL messages cannot hold for an HMAC with 32-byte output — in particular not
    for any `P` with `P.Correct` (`hmac_len`): among the 256^32 + 1 messages `0^0, 0^1, …` two share a tag. The first
    form of `header_edit_rejected` assumed it and so said nothing about a lawful suite (found by the vacuity audit);
    it now assumes only that the ONE honest tag has no second preimage. -/
theorem hinj_contradicts_hmac_len (P : Prims) (hlen : ∀ k m, (P.hmac k m).length = 32) (K : Bytes) :
    ¬ (∀ m₁ m₂, P.hmac K m₁ = P.hmac K m₂ → m₁ = m₂) := by
  intro hinj
  obtain ⟨i, j, hij, _, e⟩ := pigeonhole (256 ^ 32) (fun i => leNat (P.hmac K (List.replicate i 0))) (by
    intro i _
    have := leNat_lt (P.hmac K (List.replicate i 0))
    rw [hlen] at this
    exact this)
  have := hinj _ _ (leNat_inj _ _ (by rw [hlen, hlen]) e)
  have := congrArg List.length this
  simp only [List.length_replicate] at this
  omega

example (P : Prims) (hP : P.Correct) (K : Bytes) : ¬ (∀ m₁ m₂, P.hmac K m₁ = P.hmac K m₂ → m₁ = m₂) :=
  hinj_contradicts_hmac_len P hP.hmac_len K

end Props.C03
end AgeModel
