/-
  C03 — any change to the header invalidates the file before any output.
-/
import Proofs.FileDecrypt
import Props.C01
import Proofs.FormatTop
namespace AgeModel
namespace Props.C03
open Format Stream

/-- **MAC gate.** Decrypt returns a payload reader only if the header's MAC equals
    HMAC(HKDF(file key, "header"), the header bytes up to `---`) for the file key
    some identity unwrapped; the stream key is derived from that file key and the
    16 bytes following the header. On a mismatch there is no reader, hence no
    plaintext. -/
theorem mac_gate (P : Prims) (ids : List Identity) (file k payload : Bytes) (c : Nat)
    (h : decryptInit P ids file = (.ok (k, payload), c)) :
    ∃ hdr rest fk, parse file = .ok (hdr, rest) ∧ (∃ i ∈ ids, i.unwrap P hdr.stanzas = .key fk) ∧
      hdr.mac = P.hmac (P.hkdf fk [] headerInfo 32) (marshalNoMAC hdr) ∧
      k = streamKey P fk (rest.take 16) ∧ payload = rest.drop 16 := by
  obtain ⟨hdr, rest, fk, hp, hi, _, hmac, _, hk, hpl⟩ := decryptInit_ok P ids file k payload c h
  exact ⟨hdr, rest, fk, hp, hi, by rw [← hmac]; simp [headerMAC, marshalNoMAC], hk, hpl⟩

/-- **The MAC covers the received bytes.** For every accepted file the MAC input
    is literally the prefix of the file up to `---` (canonicity, C07): the file is
    `MAC-input ++ " " ++ base64(mac) ++ "\n" ++ rest`. -/
theorem mac_covers_received_bytes (file rest : Bytes) (hdr : Header) (hp : parse file = .ok (hdr, rest)) :
    file = marshalNoMAC hdr ++ [sp] ++ B64.encRaw hdr.mac ++ [nl] ++ rest := by
  have := (parse_canon hp).1
  rw [this]; simp [marshal]

/-- two different stanza lists give two different MAC inputs -/
theorem mac_input_injective (s₁ s₂ : List Stanza) (w₁ : ∀ s ∈ s₁, s.WF) (w₂ : ∀ s ∈ s₂, s.WF)
    (e : marshalNoMAC { stanzas := s₁, mac := [] } = marshalNoMAC { stanzas := s₂, mac := [] }) : s₁ = s₂ := by
  let m : Bytes := List.replicate 32 0
  have hm : m.length = 32 := by simp [m]
  have h1 := parse_marshal { stanzas := s₁, mac := m } ⟨w₁, hm⟩ []
  have h2 := parse_marshal { stanzas := s₂, mac := m } ⟨w₂, hm⟩ []
  have : marshal { stanzas := s₁, mac := m } = marshal { stanzas := s₂, mac := m } := by
    simp only [marshal, marshalNoMAC] at e ⊢
    rw [e]
  rw [this, h2] at h1
  simp only [Except.ok.injEq, Prod.mk.injEq, and_true] at h1
  exact (Header.mk.inj h1).1.symm

/-- **Reduction form.** Take any header `h'` accepted by Decrypt with file key `fk`
    (the one an identity unwrapped from `h'`'s stanzas). If `h'` carries the MAC
    of an honest header with different stanzas under the same file key, then
    HMAC under the header key maps two different messages to the same tag — an
    explicit HMAC collision/forgery. (If instead the unwrapped file key differs
    from the honest one, a stanza was re-wrapped to the recipient: something anyone
    holding the public key can do and no header MAC prevents; the payload then
    fails on its first chunk, see C02.) -/
theorem header_edit_reduction (P : Prims) (ids : List Identity) (file' k payload : Bytes) (c : Nat)
    (honest : List Stanza) (hw : ∀ s ∈ honest, s.WF)
    (h : decryptInit P ids file' = (.ok (k, payload), c)) :
    ∃ hdr' rest fk, parse file' = .ok (hdr', rest) ∧
      (hdr'.stanzas ≠ honest → hdr'.mac = headerMAC P fk honest →
        marshalNoMAC { stanzas := hdr'.stanzas, mac := [] } ≠ marshalNoMAC { stanzas := honest, mac := [] } ∧
        P.hmac (P.hkdf fk [] headerInfo 32) (marshalNoMAC { stanzas := hdr'.stanzas, mac := [] })
          = P.hmac (P.hkdf fk [] headerInfo 32) (marshalNoMAC { stanzas := honest, mac := [] })) := by
  obtain ⟨hdr', rest, fk, hp, _, _, hmac, _⟩ := decryptInit_ok P ids file' k payload c h
  refine ⟨hdr', rest, fk, hp, ?_⟩
  intro hne hreuse
  have hwf' := (parse_canon hp).2.1
  refine ⟨fun e => hne (mac_input_injective _ _ hwf' hw e), ?_⟩
  rw [hreuse] at hmac
  exact hmac

/-- **Idealised form.** If HMAC under the header key is injective on messages (no
    two messages share a tag — the symbolic idealisation of unforgeability), then a
    parseable header whose stanzas differ from the honest ones but which reuses the
    honest MAC is rejected for every identity list that unwraps the honest file
    key: Decrypt returns an error and no reader. Covers edits confined to other
    recipients' stanzas, insertion, deletion, duplication and every reordering,
    because `stanzas'` is an arbitrary list different from `honest`. -/
theorem header_edit_rejected (P : Prims) (ids : List Identity) (file' : Bytes) (fk : Bytes)
    (honest : List Stanza) (hw : ∀ s ∈ honest, s.WF)
    (hdr' : Header) (rest : Bytes) (hp : parse file' = .ok (hdr', rest))
    (hne : hdr'.stanzas ≠ honest) (hreuse : hdr'.mac = headerMAC P fk honest)
    (hsame : ∀ i ∈ ids, ∀ k', i.unwrap P hdr'.stanzas = .key k' → k' = fk)
    (hinj : ∀ m₁ m₂, P.hmac (P.hkdf fk [] headerInfo 32) m₁ = P.hmac (P.hkdf fk [] headerInfo 32) m₂ → m₁ = m₂) :
    ∀ k payload c, decryptInit P ids file' ≠ (.ok (k, payload), c) := by
  intro k payload c h
  obtain ⟨hdr2, rest2, fk2, hp2, ⟨i, hi, hik⟩, _, hmac, _⟩ := decryptInit_ok P ids file' k payload c h
  rw [hp] at hp2
  simp only [Except.ok.injEq, Prod.mk.injEq] at hp2
  obtain ⟨rfl, rfl⟩ := hp2
  have hfk := hsame i hi fk2 hik
  subst hfk
  rw [hreuse] at hmac
  unfold headerMAC at hmac
  have := hinj _ _ hmac
  exact hne (mac_input_injective _ _ (parse_canon hp).2.1 hw this)

/-- a MAC that is not the correct MAC of the presented header is rejected outright
    (replaced by random bytes, zeros, the MAC of another file …) -/
theorem wrong_mac_rejected (P : Prims) (ids : List Identity) (file' : Bytes) (hdr' : Header) (rest : Bytes)
    (hp : parse file' = .ok (hdr', rest))
    (hbad : ∀ i ∈ ids, ∀ k', i.unwrap P hdr'.stanzas = .key k' → headerMAC P k' hdr'.stanzas ≠ hdr'.mac) :
    ∀ k payload c, decryptInit P ids file' ≠ (.ok (k, payload), c) := by
  intro k payload c h
  obtain ⟨hdr2, rest2, fk2, hp2, ⟨i, hi, hik⟩, _, hmac, _⟩ := decryptInit_ok P ids file' k payload c h
  rw [hp] at hp2
  simp only [Except.ok.injEq, Prod.mk.injEq] at hp2
  obtain ⟨rfl, rfl⟩ := hp2
  exact hbad i hi fk2 hik hmac

/-- non-vacuity of `mac_gate` / `header_edit_reduction`: a concrete accepted file (toy primitives) -/
example : ∃ ids file k payload c, decryptInit Prims.toy ids file = (.ok (k, payload), c) :=
  let ⟨f, k, p, _, _, h⟩ := Props.C01.nonvacuous_roundtrip
  ⟨_, f, k, p, 1, h⟩

end Props.C03
end AgeModel
