/-
  C02 — tampered, truncated or reordered payload is never accepted.
-/
import Proofs.StreamTamper
import Proofs.ToyPrims
import Props.C12
import Proofs.FileTamper
namespace AgeModel
namespace Props.C02
open Stream

/-- **Exactly one chunking is accepted.** For a key, whatever byte string decrypts
    to a clean end of stream is the canonical encryption of what came out: covers
    re-splitting, re-flagging, an empty final chunk after a full one, trailing data.
    Needs only the functional laws of the AEAD (true of ChaCha20-Poly1305). -/
theorem accepts_only_own_chunking (A : AEAD) (hA : A.Correct) (C : Nat) (hC : 0 < C) (k c out : Bytes)
    (h : decrypt A C k c = (out, .eof)) : c = encrypt A C k out :=
  Stream.accepts_only_own_chunking A hA C hC k c out h

/-- **Tamper theorem (reduction form, no idealisation).** Let `pt` be the original
    plaintext and `c'` ANY byte string presented as the payload (bits flipped, cut
    at any point, extended, chunks dropped, duplicated, reordered, re-flagged,
    re-split, foreign). If every (nonce, plaintext) pair the reader successfully
    opens while processing `c'` is one the encryptor sealed for `pt` — i.e. the
    AEAD was not forged — then every plaintext byte released is, position for
    position, a byte of `pt` (the output is a prefix of `pt`), and a clean end of
    stream is reached only with all of `pt`. Contrapositive: any other behaviour
    exhibits an explicit forgery `(nonce, chunk)` among `openedFrom … c'`. -/
theorem tamper_prefix (A : AEAD) (C : Nat) (hC : 0 < C) (k pt c' : Bytes)
    (hlen : c'.length + 2 < 2 ^ 88) (hlenp : pt.length + 2 < 2 ^ 88)
    (hno : ∀ x ∈ openedFrom A C k 0 c' (c'.length + 1), x ∈ sealedFrom C 0 pt (pt.length + 1)) :
    (decrypt A C k c').1 <+: pt ∧ ((decrypt A C k c').2 = .eof → (decrypt A C k c').1 = pt) := by
  unfold decrypt
  exact tamper_aux A C hC k (c'.length + 1) 0 c' pt (pt.length + 1) (by omega) (by omega) (by omega) hno

/-- …hence a payload different from the one written never reaches a clean end of stream. -/
theorem tampered_never_eof (A : AEAD) (hA : A.Correct) (C : Nat) (hC : 0 < C) (k pt c' : Bytes)
    (hne : c' ≠ encrypt A C k pt)
    (hlen : c'.length + 2 < 2 ^ 88) (hlenp : pt.length + 2 < 2 ^ 88)
    (hno : ∀ x ∈ openedFrom A C k 0 c' (c'.length + 1), x ∈ sealedFrom C 0 pt (pt.length + 1)) :
    (decrypt A C k c').2 ≠ .eof := by
  intro he
  have h := (tamper_prefix A C hC k pt c' hlen hlenp hno).2 he
  have : decrypt A C k c' = (pt, .eof) := by
    rw [← h, ← he]
  exact hne (accepts_only_own_chunking A hA C hC k c' pt this)

/-! ## whole files: "the bytes after the header are changed in any way" -/

/-- **A file cut inside the payload nonce yields no reader.** -/
theorem file_cut_in_nonce (P : Prims) (hP : P.Correct) (fk : Bytes) (stanzas : List Format.Stanza) (rest : Bytes)
    (hwf : ∀ s ∈ stanzas, s.WF) (hfk : fk ≠ []) (pre post : List Identity) (id : Identity)
    (hpre : ∀ i ∈ pre, i.unwrap P stanzas = .incorrect) (hid : id.unwrap P stanzas = .key fk)
    (hshort : rest.length < streamNonceSize) (C : Nat) :
    decryptFile P C (pre ++ id :: post) (headerBytes P fk stanzas ++ rest) = .error .nonce := by
  unfold decryptFile
  rw [decryptInit_header_rest P hP fk stanzas rest hwf hfk pre post id hpre hid]
  simp [hshort]

/-- **Whole-file tamper theorem (reduction form).** Take the honest file
    `specFile … nonce pt` and replace everything after the nonce by ANY bytes `c'`.
    Every identity list that opens the header gets exactly what the STREAM layer
    makes of `c'` under the honest payload key; so, if no AEAD forgery is exhibited
    (every pair the reader opens is one that was sealed for `pt`), the bytes
    released are a prefix of `pt`, a clean end of stream comes only with all of
    `pt`, and a `c'` that differs from the honest payload never reaches a clean end. -/
theorem file_payload_tamper (P : Prims) (hP : P.Correct) (C : Nat) (hC : 0 < C)
    (fk nonce pt c' : Bytes) (stanzas : List Format.Stanza)
    (hwf : ∀ s ∈ stanzas, s.WF) (hfk : fk ≠ []) (hn : nonce.length = streamNonceSize)
    (pre post : List Identity) (id : Identity)
    (hpre : ∀ i ∈ pre, i.unwrap P stanzas = .incorrect) (hid : id.unwrap P stanzas = .key fk)
    (hlen : c'.length + 2 < 2 ^ 88) (hlenp : pt.length + 2 < 2 ^ 88)
    (hno : ∀ x ∈ openedFrom P.aead C (streamKey P fk nonce) 0 c' (c'.length + 1), x ∈ sealedFrom C 0 pt (pt.length + 1)) :
    ∃ out o, decryptFile P C (pre ++ id :: post) (headerBytes P fk stanzas ++ (nonce ++ c')) = .ok (out, o) ∧
      out <+: pt ∧ (o = .eof → out = pt) ∧
      (c' ≠ Stream.encrypt P.aead C (streamKey P fk nonce) pt → o ≠ .eof) := by
  have hrest : ¬ (nonce ++ c').length < streamNonceSize := by rw [List.length_append]; omega
  have h1 : (nonce ++ c').take streamNonceSize = nonce := by
    rw [List.take_append_of_le_length (by omega)]; exact List.take_of_length_le (by omega)
  have h2 : (nonce ++ c').drop streamNonceSize = c' := by
    rw [List.drop_append_of_le_length (by omega)]
    have : List.drop streamNonceSize nonce = [] := List.drop_of_length_le (by omega)
    simp [this]
  refine ⟨(decrypt P.aead C (streamKey P fk nonce) c').1, (decrypt P.aead C (streamKey P fk nonce) c').2, ?_, ?_⟩
  · unfold decryptFile
    rw [decryptInit_header_rest P hP fk stanzas _ hwf hfk pre post id hpre hid]
    simp only [hrest, if_false, h1, h2]
  · have ht := tamper_prefix P.aead C hC (streamKey P fk nonce) pt c' hlen hlenp hno
    exact ⟨ht.1, ht.2, fun hne => tampered_never_eof P.aead hP.aead C hC (streamKey P fk nonce) pt c' hne hlen hlenp hno⟩

/-- the honest file is `headerBytes ++ nonce ++ payload`: the theorem above is about its tamperings -/
theorem honest_file_shape (P : Prims) (C : Nat) (fk nonce pt : Bytes) (stanzas : List Format.Stanza) :
    specFile P C fk stanzas nonce pt = headerBytes P fk stanzas ++ (nonce ++ Stream.encrypt P.aead C (streamKey P fk nonce) pt) :=
  specFile_eq_header P C fk nonce pt stanzas

/-- no (key, nonce) pair is used twice within a payload: the counter/flag encoding is injective -/
theorem nonce_injective (i j : Nat) (f g : Bool) (hi : i < 2 ^ 88) (hj : j < 2 ^ 88) (h : nonce i f = nonce j g) :
    i = j ∧ f = g := nonce_inj i j f g hi hj h

/-- the reader machine, under every sequence of read sizes, releases exactly what the
    Spec releases and ends with the Spec's error — so all of the above carries over
    to `stream.Reader` (C12 `reader_refines_spec`), and a failed reader keeps failing. -/
theorem reader_carries_over (A : AEAD) (C L : Nat) (hE : 0 < C + A.T) (k c : Bytes)
    (hL : c.length < L) (sizes : List Nat) (hpos : ∀ s ∈ sizes, 0 < s)
    (hlong : (decrypt A C k c).1.length + c.length + 1 < sizes.length) :
    ∃ r', (Reader.new ⟨c, false⟩).drain A C L k sizes = (r', (decrypt A C k c).1, some (decrypt A C k c).2) :=
  Props.C12.reader_refines_spec A C L hE k c false hL sizes hpos hlong

/-- non-vacuity of the no-forgery hypothesis: with the toy AEAD, chunk size 4, the
    honest payload of a 9-byte plaintext opens exactly the three sealed pairs; and a
    payload truncated to its first chunk opens only the first pair. -/
example :
    let c := encrypt AEAD.toy 4 [7] [1, 2, 3, 4, 5, 6, 7, 8, 9]
    (∀ x ∈ openedFrom AEAD.toy 4 [7] 0 c (c.length + 1), x ∈ sealedFrom 4 0 [1, 2, 3, 4, 5, 6, 7, 8, 9] 10) ∧
    (∀ x ∈ openedFrom AEAD.toy 4 [7] 0 (c.take 16) 17, x ∈ sealedFrom 4 0 [1, 2, 3, 4, 5, 6, 7, 8, 9] 10) ∧
    (decrypt AEAD.toy 4 [7] (c.take 16)) = ([1, 2, 3, 4], .truncated) := by
  decide

end Props.C02
end AgeModel
