/-
  C02 — tampered, truncated or reordered payload is never accepted.
-/
import Proofs.StreamTamper
import Proofs.ToyPrims
import Props.C12
import Proofs.FileTamper
namespace AgeModel
namespace Props.C02
open Stream

/-- **Exactly one chunking is accepted.** For a key, whatever byte string decrypts
    to a clean end of stream is the canonical encryption of what came out: covers
    re-splitting, re-flagging, an empty final chunk after a full one, trailing data.
    Needs only the functional laws of the AEAD (true of ChaCha20-Poly1305). -/
theorem accepts_only_own_chunking (A : AEAD) (hA : A.Correct) (C : Nat) (hC : 0 < C) (k c out : Bytes)
    (h : decrypt A C k c = (out, .eof)) : c = encrypt A C k out :=
  Stream.accepts_only_own_chunking A hA C hC k c out h

/-- **Tamper theorem (reduction form, no idealisation).** Let `pt` be the original
    plaintext and `c'` ANY byte string presented as the payload (bits flipped, cut
    at any point, extended, chunks dropped, duplicated, reordered, re-flagged,
    re-split, foreign). If every (nonce, plaintext) pair the reader successfully
    opens while processing `c'` is one the encryptor sealed for `pt` — i.e. the
    AEAD was not forged — then every plaintext byte released is, position for
    position, a byte of `pt` (the output is a prefix of `pt`), and a clean end of
    stream is reached only with all of `pt`. Contrapositive: any other behaviour
    exhibits an explicit forgery `(nonce, chunk)` among `openedFrom … c'`. -/
theorem tamper_prefix (A : AEAD) (C : Nat) (hC : 0 < C) (k pt c' : Bytes)
    (hlen : c'.length + 2 < 2 ^ 88) (hlenp : pt.length + 2 < 2 ^ 88)
    (hno : ∀ x ∈ openedFrom A C k 0 c' (c'.length + 1), x ∈ sealedFrom C 0 pt (pt.length + 1)) :
    (decrypt A C k c').1 <+: pt ∧ ((decrypt A C k c').2 = .eof → (decrypt A C k c').1 = pt) := by
  unfold decrypt
  exact tamper_aux A C hC k (c'.length + 1) 0 c' pt (pt.length + 1) (by omega) (by omega) (by omega) hno

/-- …hence a payload different from the one written never reaches a clean end of stream. -/
theorem tampered_never_eof (A : AEAD) (hA : A.Correct) (C : Nat) (hC : 0 < C) (k pt c' : Bytes)
    (hne : c' ≠ encrypt A C k pt)
    (hlen : c'.length + 2 < 2 ^ 88) (hlenp : pt.length + 2 < 2 ^ 88)
    (hno : ∀ x ∈ openedFrom A C k 0 c' (c'.length + 1), x ∈ sealedFrom C 0 pt (pt.length + 1)) :
    (decrypt A C k c').2 ≠ .eof := by
  intro he
  have h := (tamper_prefix A C hC k pt c' hlen hlenp hno).2 he
  have : decrypt A C k c' = (pt, .eof) := by
    rw [← h, ← he]
  exact hne (accepts_only_own_chunking A hA C hC k c' pt this)

/-! ## whole files: "the bytes after the header are changed in any way" -/

/-- **A file cut inside the payload nonce yields no reader.** -/
theorem file_cut_in_nonce (P : Prims) (hP : P.Correct) (fk : Bytes) (stanzas : List Format.Stanza) (rest : Bytes)
    (hwf : ∀ s ∈ stanzas, s.WF) (hfk : fk ≠ []) (pre post : List Identity) (id : Identity)
    (hpre : ∀ i ∈ pre, i.unwrap P stanzas = .incorrect) (hid : id.unwrap P stanzas = .key fk)
    (hshort : rest.length < streamNonceSize) (C : Nat) :
    decryptFile P C (pre ++ id :: post) (headerBytes P fk stanzas ++ rest) = .error .nonce := by
  unfold decryptFile
  rw [decryptInit_header_rest P hP fk stanzas rest hwf hfk pre post id hpre hid]
  simp [hshort]

/-- **Whole-file tamper theorem (reduction form).** Take the honest file
    `specFile … nonce pt` and replace everything after the nonce by ANY bytes `c'`.
    Every identity list that opens the header gets exactly what the STREAM layer
    makes of `c'` under the honest payload key; so, if no AEAD forgery is exhibited
    (every pair the reader opens is one that was sealed for `pt`), the bytes
    released are a prefix of `pt`, a clean end of stream comes only with all of
    `pt`, and a `c'` that differs from the honest payload never reaches a clean end. -/
theorem file_payload_tamper (P : Prims) (hP : P.Correct) (C : Nat) (hC : 0 < C)
    (fk nonce pt c' : Bytes) (stanzas : List Format.Stanza)
    (hwf : ∀ s ∈ stanzas, s.WF) (hfk : fk ≠ []) (hn : nonce.length = streamNonceSize)
    (pre post : List Identity) (id : Identity)
    (hpre : ∀ i ∈ pre, i.unwrap P stanzas = .incorrect) (hid : id.unwrap P stanzas = .key fk)
    (hlen : c'.length + 2 < 2 ^ 88) (hlenp : pt.length + 2 < 2 ^ 88)
    (hno : ∀ x ∈ openedFrom P.aead C (streamKey P fk nonce) 0 c' (c'.length + 1), x ∈ sealedFrom C 0 pt (pt.length + 1)) :
    ∃ out o, decryptFile P C (pre ++ id :: post) (headerBytes P fk stanzas ++ (nonce ++ c')) = .ok (out, o) ∧
      out <+: pt ∧ (o = .eof → out = pt) ∧
      (c' ≠ Stream.encrypt P.aead C (streamKey P fk nonce) pt → o ≠ .eof) := by
  have hrest : ¬ (nonce ++ c').length < streamNonceSize := by rw [List.length_append]; omega
  have h1 : (nonce ++ c').take streamNonceSize = nonce := by
    rw [List.take_append_of_le_length (by omega)]; exact List.take_of_length_le (by omega)
  have h2 : (nonce ++ c').drop streamNonceSize = c' := by
    rw [List.drop_append_of_le_length (by omega)]
    have : List.drop streamNonceSize nonce = [] := List.drop_of_length_le (by omega)
    simp [this]
  refine ⟨(decrypt P.aead C (streamKey P fk nonce) c').1, (decrypt P.aead C (streamKey P fk nonce) c').2, ?_, ?_⟩
  · unfold decryptFile
    rw [decryptInit_header_rest P hP fk stanzas _ hwf hfk pre post id hpre hid]
    simp only [hrest, if_false, h1, h2]
  · have ht := tamper_prefix P.aead C hC (streamKey P fk nonce) pt c' hlen hlenp hno
    exact ⟨ht.1, ht.2, fun hne => tampered_never_eof P.aead hP.aead C hC (streamKey P fk nonce) pt c' hne hlen hlenp hno⟩

/-- the honest file is `headerBytes ++ nonce ++ payload`: the theorem above is about its tamperings -/
theorem honest_file_shape (P : Prims) (C : Nat) (fk nonce pt : Bytes) (stanzas : List Format.Stanza) :
    specFile P C fk stanzas nonce pt = headerBytes P fk stanzas ++ (nonce ++ Stream.encrypt P.aead C (streamKey P fk nonce) pt) :=
  specFile_eq_header P C fk nonce pt stanzas

/-- no (key, nonce) pair is used twice within a payload: the counter/flag encoding is injective -/
theorem nonce_injective (i j : Nat) (f g : Bool) (hi : i < 2 ^ 88) (hj : j < 2 ^ 88) (h : nonce i f = nonce j g) :
    i = j ∧ f = g := nonce_inj i j f g hi hj h

/-- the reader machine, under every sequence of read sizes, releases exactly what the
    Spec releases and ends with the Spec's error — so all of the above carries over
    to `stream.Reader` (C12 `reader_refines_spec`), and a failed reader keeps failing. -/
theorem reader_carries_over (A : AEAD) (C L : Nat) (hE : 0 < C + A.T) (k c : Bytes)
    (hL : c.length < L) (sizes : List Nat) (hpos : ∀ s ∈ sizes, 0 < s)
    (hlong : (decrypt A C k c).1.length + c.length + 1 < sizes.length) :
    ∃ r', (Reader.new ⟨c, false⟩).drain A C L k sizes = (r', (decrypt A C k c).1, some (decrypt A C k c).2) :=
  Props.C12.reader_refines_spec A C L hE k c false hL sizes hpos hlong

/-- non-vacuity of the no-forgery hypothesis: with the toy AEAD, chunk size 4, the
    honest payload of a 9-byte plaintext opens exactly the three sealed pairs; and a
    payload truncated to its first chunk opens only the first pair. -/
example :
    let c := encrypt AEAD.toy 4 [7] [1, 2, 3, 4, 5, 6, 7, 8, 9]
    (∀ x ∈ openedFrom AEAD.toy 4 [7] 0 c (c.length + 1), x ∈ sealedFrom 4 0 [1, 2, 3, 4, 5, 6, 7, 8, 9] 10) ∧
    (∀ x ∈ openedFrom AEAD.toy 4 [7] 0 (c.take 16) 17, x ∈ sealedFrom 4 0 [1, 2, 3, 4, 5, 6, 7, 8, 9] 10) ∧
    (decrypt AEAD.toy 4 [7] (c.take 16)) = ([1, 2, 3, 4], .truncated) := by
  decide

/-! ## Non-vacuity: for every theorem above, concrete values meeting all of its hypotheses at once -/

/-- witness values: a 9-byte plaintext; its payload under the toy AEAD in chunks of 4 (three chunks: 16 + 16 + 13 bytes);
    the same with one tag byte of the second chunk changed (offset 30: 1 ↦ 9); and cut after the second chunk -/
def wPt : Bytes := [1, 2, 3, 4, 5, 6, 7, 8, 9]
def wC : Bytes :=
  [1, 2, 3, 4, 0, 0, 0, 0, 0, 0, 0, 0, 0, 0, 0, 0,  5, 6, 7, 8, 0, 0, 0, 0, 0, 0, 0, 0, 0, 0, 1, 0,  9, 0, 0, 0, 0, 0, 0, 0, 0, 0, 0, 2, 1]
def wFlipped : Bytes :=
  [1, 2, 3, 4, 0, 0, 0, 0, 0, 0, 0, 0, 0, 0, 0, 0,  5, 6, 7, 8, 0, 0, 0, 0, 0, 0, 0, 0, 0, 0, 9, 0,  9, 0, 0, 0, 0, 0, 0, 0, 0, 0, 0, 2, 1]
def wCut : Bytes := wC.take 32

/-- non-vacuity of `accepts_only_own_chunking`: toy AEAD, chunks of 4; the 45-byte string `wC` decrypts to the 9-byte
    plaintext with a clean end -/
theorem accepts_only_own_chunking_nonvacuous :
    AEAD.toy.Correct ∧ 0 < 4 ∧ decrypt AEAD.toy 4 [7] wC = (wPt, .eof) :=
  ⟨AEAD.toy_correct, by decide, by decide⟩

example : wC = encrypt AEAD.toy 4 [7] wPt :=
  let ⟨hA, hC, h⟩ := accepts_only_own_chunking_nonvacuous
  accepts_only_own_chunking AEAD.toy hA 4 hC [7] wC wPt h

/-- non-vacuity of `tamper_prefix`: the payload cut after its second chunk (a genuine change: `wCut ≠ wC`); the reader
    opens the first two sealed pairs only, and releases 8 of the 9 bytes -/
theorem tamper_prefix_nonvacuous :
    0 < 4 ∧ wCut.length + 2 < 2 ^ 88 ∧ wPt.length + 2 < 2 ^ 88 ∧
    (∀ x ∈ openedFrom AEAD.toy 4 [7] 0 wCut (wCut.length + 1), x ∈ sealedFrom 4 0 wPt (wPt.length + 1)) ∧
    wCut ≠ encrypt AEAD.toy 4 [7] wPt ∧ decrypt AEAD.toy 4 [7] wCut = ([1, 2, 3, 4, 5, 6, 7, 8], .truncated) := by
  decide

/-- non-vacuity of `tampered_never_eof`: one tag byte of the second chunk changed; the reader opens the first sealed
    pair only (no forgery), releases 4 bytes and fails to authenticate -/
theorem tampered_never_eof_nonvacuous :
    AEAD.toy.Correct ∧ 0 < 4 ∧ wFlipped ≠ encrypt AEAD.toy 4 [7] wPt ∧
    wFlipped.length + 2 < 2 ^ 88 ∧ wPt.length + 2 < 2 ^ 88 ∧
    (∀ x ∈ openedFrom AEAD.toy 4 [7] 0 wFlipped (wFlipped.length + 1), x ∈ sealedFrom 4 0 wPt (wPt.length + 1)) ∧
    decrypt AEAD.toy 4 [7] wFlipped = ([1, 2, 3, 4], .authFail) :=
  ⟨AEAD.toy_correct, by decide, by decide, by decide, by decide, by decide, by decide⟩

/-- non-vacuity of `nonce_injective`: the hypotheses hold (only) for equal counters and flags -/
theorem nonce_injective_nonvacuous : 5 < 2 ^ 88 ∧ 5 < 2 ^ 88 ∧ nonce 5 true = nonce 5 true :=
  ⟨by decide, by decide, rfl⟩

/-- non-vacuity of `reader_carries_over`: toy AEAD, chunks of 4, counter limit 2^88, the tampered 45-byte payload,
    sixty reads of 3 bytes -/
theorem reader_carries_over_nonvacuous :
    0 < 4 + AEAD.toy.T ∧ wFlipped.length < 2 ^ 88 ∧ (∀ s ∈ List.replicate 60 3, 0 < s) ∧
    (decrypt AEAD.toy 4 [7] wFlipped).1.length + wFlipped.length + 1 < (List.replicate 60 3).length := by
  decide

example : ∃ r', (Reader.new ⟨wFlipped, false⟩).drain AEAD.toy 4 (2 ^ 88) [7] (List.replicate 60 3) =
    (r', [1, 2, 3, 4], some .authFail) :=
  let ⟨hE, hL, hpos, hlong⟩ := reader_carries_over_nonvacuous
  reader_carries_over AEAD.toy 4 (2 ^ 88) hE [7] wFlipped hL _ hpos hlong

/-- a 16-byte file key, and the two stanzas an ssh-rsa and an X25519 recipient wrap it in under the toy primitives -/
def wFk : Bytes := [1, 2, 3, 4, 5, 6, 7, 8, 9, 10, 11, 12, 13, 14, 15, 16]
def wStanzas : List Format.Stanza :=
  [{ type := tSshRsa, args := [sshTag Prims.toy [1, 2, 3]], body := wFk },
   { type := tX25519, args := [B64.encRaw (List.replicate 32 0)], body := wFk ++ List.replicate 12 0 }]
/-- a passphrase identity and an ssh-ed25519 identity: both answer "incorrect" on `wStanzas` -/
def wPre : List Identity := [Identity.scrypt [112] 22, Identity.sshEd [1] [2]]
def wId : Identity := Identity.x25519 (List.replicate 32 2)

/-- (helper for the witnesses below) -/
theorem wStanzas_wf : ∀ s ∈ wStanzas, s.WF := by
  intro s hs
  simp only [wStanzas, List.mem_cons, List.mem_nil_iff, or_false] at hs
  rcases hs with rfl | rfl <;> exact ⟨by decide, by decide⟩

/-- non-vacuity of `file_cut_in_nonce`: toy primitives, a two-stanza header, two identities answering "incorrect" before
    the X25519 identity that opens the second stanza, and 5 bytes after the header -/
theorem file_cut_in_nonce_nonvacuous :
    Prims.toy.Correct ∧ (∀ s ∈ wStanzas, s.WF) ∧ wFk ≠ [] ∧
    (∀ i ∈ wPre, i.unwrap Prims.toy wStanzas = .incorrect) ∧ wId.unwrap Prims.toy wStanzas = .key wFk ∧
    ([1, 2, 3, 4, 5] : Bytes).length < streamNonceSize :=
  ⟨Prims.toy_correct, wStanzas_wf, by decide, by decide, by decide, by decide⟩

example : decryptFile Prims.toy 4 (wPre ++ wId :: []) (headerBytes Prims.toy wFk wStanzas ++ [1, 2, 3, 4, 5]) = .error .nonce :=
  let ⟨hP, hwf, hfk, hpre, hid, hshort⟩ := file_cut_in_nonce_nonvacuous
  file_cut_in_nonce Prims.toy hP wFk wStanzas _ hwf hfk wPre [] wId hpre hid hshort 4

/-- non-vacuity of `file_payload_tamper`: same header and identities, a 16-byte nonce, the 9-byte plaintext in chunks
    of 4, and its payload with one tag byte of the second chunk changed (`wFlipped`) -/
theorem file_payload_tamper_nonvacuous :
    Prims.toy.Correct ∧ 0 < 4 ∧ (∀ s ∈ wStanzas, s.WF) ∧ wFk ≠ [] ∧ (List.replicate 16 (8 : UInt8)).length = streamNonceSize ∧
    (∀ i ∈ wPre, i.unwrap Prims.toy wStanzas = .incorrect) ∧ wId.unwrap Prims.toy wStanzas = .key wFk ∧
    wFlipped.length + 2 < 2 ^ 88 ∧ wPt.length + 2 < 2 ^ 88 ∧
    (∀ x ∈ openedFrom Prims.toy.aead 4 (streamKey Prims.toy wFk (List.replicate 16 8)) 0 wFlipped (wFlipped.length + 1),
      x ∈ sealedFrom 4 0 wPt (wPt.length + 1)) ∧
    wFlipped ≠ Stream.encrypt Prims.toy.aead 4 (streamKey Prims.toy wFk (List.replicate 16 8)) wPt :=
  ⟨Prims.toy_correct, by decide, wStanzas_wf, by decide, by decide, by decide, by decide, by decide, by decide, by decide, by decide⟩

example : ∃ out o, decryptFile Prims.toy 4 (wPre ++ wId :: [])
      (headerBytes Prims.toy wFk wStanzas ++ (List.replicate 16 8 ++ wFlipped)) = .ok (out, o) ∧ out <+: wPt ∧ o ≠ .eof :=
  let ⟨hP, hC, hwf, hfk, hn, hpre, hid, hlen, hlenp, hno, hne⟩ := file_payload_tamper_nonvacuous
  let ⟨out, o, h, hp, _, he⟩ := file_payload_tamper Prims.toy hP 4 hC wFk _ wPt wFlipped wStanzas hwf hfk hn wPre [] wId hpre hid hlen hlenp hno
  ⟨out, o, h, hp, he hne⟩

end Props.C02
end AgeModel
