/-
  C06 — fresh CSPRNG secrets per file; no key and nonce pair is reused.
  (Which generator the code reads — crypto/rand everywhere, math/rand only for
  the plugin grease name — is a regenerated fact checked in Tie/C06.lean.)
-/
import Proofs.FileWrite
import Proofs.ToyPrims
import Proofs.StreamTamper
import Proofs.TapeLayout
namespace AgeModel
namespace Props.C06
open Format Stream

/- `drawSize` (bytes of the random tape each kind of recipient consumes) and the proof of `wrapOne_consumes` live in
   Proofs/TapeLayout.lean, beside the lemmas that say where in the tape each recipient's wrap runs; both names stay
   available here: `Props.C06.drawSize` IS `AgeModel.drawSize`. -/
export AgeModel (drawSize)

/-- one recipient: a successful wrap consumed exactly the next `drawSize r` bytes
    of the tape and nothing else -/
theorem wrapOne_consumes (P : Prims) (r : Recipient) (fk tape : Bytes) (res : Option (List Stanza × List Bytes)) (t : Bytes)
    (h : wrapOne P r fk tape = .ok (res, t)) : ∃ used, tape = used ++ t ∧ used.length = drawSize r :=
  _root_.AgeModel.wrapOne_consumes P r fk tape res t h

/-- **Tape linearity.** Encrypt's header phase consumes a prefix of the tape made of
    consecutive, non-overlapping slices: 16 bytes of file key, then `drawSize r`
    bytes per recipient in list order; the payload nonce is the next 16 bytes.
    Nothing is drawn twice, and the number of bytes drawn grows with the number
    of recipients. -/
theorem tape_linear (P : Prims) (tape : Bytes) (rs : List Recipient) (fk : Bytes) (st : List Stanza) (t : Bytes)
    (h : encryptHeader P tape rs = .ok (fk, st, t)) :
    ∃ used, tape = fk ++ used ++ t ∧ fk.length = 16 ∧ used.length = (rs.map drawSize).sum := by
  obtain ⟨hfk, t0, hd0, hw⟩ := encryptHeader_fk h
  have hsplit := (draw_spec hd0).2
  suffices hloop : ∀ (rs : List Recipient) (i : Nat) (tp : Bytes) (acc : List Stanza) (lb : Option (List Bytes))
      (st : List Stanza) (t : Bytes), wrapAll P fk rs i tp acc lb = .ok (st, t) →
      ∃ used, tp = used ++ t ∧ used.length = (rs.map drawSize).sum by
    obtain ⟨used, hu, hl⟩ := hloop rs 0 t0 [] none st t hw
    exact ⟨used, by rw [hsplit, hu]; simp, hfk, hl⟩
  intro rs
  induction rs with
  | nil =>
    intro i tp acc lb st t h
    simp only [wrapAll, Except.ok.injEq, Prod.mk.injEq] at h
    exact ⟨[], by simp [h.2], rfl⟩
  | cons r rs ih =>
    intro i tp acc lb st t h
    unfold wrapAll at h
    split at h
    · simp at h
    · simp at h
    · rename_i ss l tp' hw1
      obtain ⟨u1, hu1, hl1⟩ := wrapOne_consumes P r fk tp _ tp' hw1
      simp only at h
      have hrec : ∀ lb', wrapAll P fk rs (i+1) tp' (acc ++ ss) lb' = .ok (st, t) →
          ∃ used, tp = used ++ t ∧ used.length = ((r :: rs).map drawSize).sum := by
        intro lb' h'
        obtain ⟨u2, hu2, hl2⟩ := ih _ _ _ _ _ _ h'
        exact ⟨u1 ++ u2, by rw [hu1, hu2]; simp, by simp [hl1, hl2]⟩
      split at h
      · exact hrec _ h
      · split at h
        · exact hrec _ h
        · simp at h

/-- the ephemeral secret of an X25519 stanza IS its tape slice (not a constant, not
    computed from the input, not shared with another stanza: slices are disjoint by
    `tape_linear`) -/
theorem x25519_secret_is_slice (P : Prims) (pub fk tape : Bytes) (ss : List Stanza) (l : List Bytes) (t : Bytes)
    (h : wrapOne P (.x25519 pub) fk tape = .ok (some (ss, l), t)) :
    ∃ eph st, tape = eph ++ t ∧ eph.length = 32 ∧ wrapX25519 P pub eph fk = some st ∧ ss = [st] := by
  unfold wrapOne at h
  simp only at h
  split at h
  · simp at h
  · rename_i eph t1 hd
    simp only [Except.ok.injEq, Prod.mk.injEq] at h
    obtain ⟨h1, rfl⟩ := h
    cases hw : wrapX25519 P pub eph fk with
    | none => simp [hw] at h1
    | some st =>
      simp only [hw, Option.map_some, Option.some.injEq, Prod.mk.injEq] at h1
      exact ⟨eph, st, (draw_spec hd).2, (draw_spec hd).1, hw, h1.1.symm⟩

/-- two files written one after the other use disjoint tape ranges (any number of
    files follows by iterating): file 1 uses `fk₁ ++ u₁ ++ n₁`, file 2 starts after it -/
theorem two_files_disjoint (P : Prims) (tape : Bytes) (rs₁ rs₂ : List Recipient)
    (fk₁ fk₂ : Bytes) (st₁ st₂ : List Stanza) (t₁ t₁' t₂ n₁ : Bytes)
    (h₁ : encryptHeader P tape rs₁ = .ok (fk₁, st₁, t₁)) (hn : draw streamNonceSize t₁ = some (n₁, t₁'))
    (h₂ : encryptHeader P t₁' rs₂ = .ok (fk₂, st₂, t₂)) :
    ∃ u₁ u₂, tape = fk₁ ++ u₁ ++ n₁ ++ (fk₂ ++ u₂ ++ t₂) ∧ fk₁.length = 16 ∧ n₁.length = 16 ∧ fk₂.length = 16 := by
  obtain ⟨u₁, e₁, l₁, _⟩ := tape_linear P tape rs₁ fk₁ st₁ t₁ h₁
  obtain ⟨u₂, e₂, l₂, _⟩ := tape_linear P t₁' rs₂ fk₂ st₂ t₂ h₂
  have hs := draw_spec hn
  exact ⟨u₁, u₂, by rw [e₁, hs.2, e₂]; simp, l₁, hs.1, l₂⟩

/-- header and payload nonce do not depend on the plaintext: two plaintexts under
    the same tape and recipients give files that differ only in the STREAM part -/
theorem secrets_independent_of_plaintext (P : Prims) (C : Nat) (tape : Bytes) (rs : List Recipient) (pt₁ pt₂ f₁ f₂ : Bytes)
    (h₁ : encryptFile P C tape rs pt₁ = .ok f₁) (h₂ : encryptFile P C tape rs pt₂ = .ok f₂) :
    ∃ hdr nonce k, f₁ = hdr ++ nonce ++ Stream.encrypt P.aead C k pt₁ ∧ f₂ = hdr ++ nonce ++ Stream.encrypt P.aead C k pt₂ := by
  unfold encryptFile at h₁ h₂
  cases hh : encryptHeader P tape rs with
  | error e => simp [hh] at h₁
  | ok v =>
    obtain ⟨fk, st, t⟩ := v
    simp only [hh] at h₁ h₂
    cases hd : draw streamNonceSize t with
    | none => simp [hd] at h₁
    | some x =>
      simp only [hd, Except.ok.injEq] at h₁ h₂
      exact ⟨_, x.1, _, h₁.symm, h₂.symm⟩

/-- the payload is the concatenation of the sealed (nonce, chunk) pairs, in order -/
theorem encrypt_is_sealed_chunks (A : AEAD) (C : Nat) (k : Bytes) :
    ∀ (fuel i : Nat) (p : Bytes), encFrom A C k i p fuel = (sealedFrom C i p fuel).flatMap (fun x => A.sealF k x.1 x.2) := by
  intro fuel
  induction fuel with
  | zero => intro i p; simp [encFrom, sealedFrom]
  | succ fuel ih =>
    intro i p
    unfold encFrom sealedFrom
    split
    · simp
    · simp [ih]

/-- **Chunk nonces.** Chunk `j` of a payload is sealed under `nonce j (j is last)`:
    a counter from zero, the final flag on the last chunk only; consequently all
    nonces of a payload are pairwise distinct (below 2^88 chunks). -/
theorem chunk_nonces_distinct (C : Nat) : ∀ (fuel i : Nat) (p : Bytes), i + fuel < 2 ^ 88 →
    ((sealedFrom C i p fuel).map (·.1)).Pairwise (· ≠ ·) := by
  intro fuel
  induction fuel with
  | zero => intro i p _; simp [sealedFrom]
  | succ fuel ih =>
    intro i p hb
    unfold sealedFrom
    split
    · simp
    · simp only [List.map_cons, List.pairwise_cons]
      refine ⟨?_, ih (i+1) _ (by omega)⟩
      intro n hn
      rw [List.mem_map] at hn
      obtain ⟨x, hx, rfl⟩ := hn
      obtain ⟨j, f, h1, h2, h3⟩ := sealedFrom_index C fuel (i+1) _ x hx
      rw [h3]
      intro e
      have := nonce_inj i j false f (by omega) (by omega) e
      omega

/-- the first pair is counter zero; the flag is set exactly on the last pair -/
theorem chunk_flags (C : Nat) (hC : 0 < C) : ∀ (fuel i : Nat) (p : Bytes), p.length < fuel →
    ∃ n, (sealedFrom C i p fuel).map (·.1) = (List.range n).map (fun j => nonce (i + j) false) ++ [nonce (i + n) true] := by
  intro fuel
  induction fuel with
  | zero => intro i p h; omega
  | succ fuel ih =>
    intro i p h
    unfold sealedFrom
    split
    · exact ⟨0, by simp⟩
    · rename_i hgt
      obtain ⟨n, hn⟩ := ih (i+1) (p.drop C) (by rw [List.length_drop]; omega)
      refine ⟨n+1, ?_⟩
      simp only [List.map_cons, hn, List.range_succ_eq_map, List.map_cons, List.map_map]
      simp [Nat.add_assoc, Nat.add_comm 1]

/-- non-vacuity of `tape_linear` / `two_files_disjoint`: the header of a two-recipient file is built from a
    concrete tape (toy primitives) -/
example : (encryptHeader Prims.toy (List.replicate 100 7)
    [Recipient.x25519 (List.replicate 32 0), Recipient.sshEd [1] (List.replicate 32 3)]).isOk = true := by decide

/-! ## non-vacuity witnesses (toy primitives; the tape is 0, 1, 2, … so that every slice is recognisable) -/

/-- non-vacuity of `wrapOne_consumes`: a passphrase recipient (work factor 10) wraps a 16-byte file key from a 40-byte
    tape, drawing 16 bytes of salt and 16 bytes of label and leaving the last 8 -/
theorem wrapOne_consumes_nonvacuous :
    wrapOne Prims.toy (.scrypt [112, 119] 10) (List.replicate 16 4) ((List.range 40).map Nat.toUInt8) =
      .ok (some ([wrapScrypt Prims.toy [112, 119] 10 ((List.range 16).map Nat.toUInt8) (List.replicate 16 4)],
                 [hexLower ((List.range' 16 16).map Nat.toUInt8)]), [32, 33, 34, 35, 36, 37, 38, 39]) := rfl

/-- non-vacuity of `tape_linear`: a 100-byte tape, an X25519 and an ssh-ed25519 recipient: file key = bytes 0..15,
    two 32-byte draws, 20 bytes left -/
theorem tape_linear_nonvacuous :
    ∃ st, encryptHeader Prims.toy ((List.range 100).map Nat.toUInt8)
      [Recipient.x25519 (List.replicate 32 0), Recipient.sshEd [1] (List.replicate 32 3)] =
        .ok ((List.range 16).map Nat.toUInt8, st, (List.range' 80 20).map Nat.toUInt8) := ⟨_, rfl⟩

/-- non-vacuity of `x25519_secret_is_slice`: an X25519 recipient wraps from a 40-byte tape, leaving the last 8 bytes -/
theorem x25519_secret_is_slice_nonvacuous :
    ∃ st, wrapOne Prims.toy (.x25519 (List.replicate 32 5)) (List.replicate 16 4) ((List.range 40).map Nat.toUInt8) =
      .ok (some ([st], []), [32, 33, 34, 35, 36, 37, 38, 39]) := ⟨_, rfl⟩

/-- non-vacuity of `two_files_disjoint`: one 120-byte tape; file 1 (an X25519 recipient) uses bytes 0..47 and the
    nonce 48..63, file 2 (a passphrase recipient) starts at byte 64 and leaves the last 8 -/
theorem two_files_disjoint_nonvacuous :
    ∃ st₁ st₂,
      encryptHeader Prims.toy ((List.range 120).map Nat.toUInt8) [Recipient.x25519 (List.replicate 32 0)] =
        .ok ((List.range 16).map Nat.toUInt8, st₁, (List.range' 48 72).map Nat.toUInt8) ∧
      draw streamNonceSize ((List.range' 48 72).map Nat.toUInt8) =
        some ((List.range' 48 16).map Nat.toUInt8, (List.range' 64 56).map Nat.toUInt8) ∧
      encryptHeader Prims.toy ((List.range' 64 56).map Nat.toUInt8) [Recipient.scrypt [112] 10] =
        .ok ((List.range' 64 16).map Nat.toUInt8, st₂, (List.range' 112 8).map Nat.toUInt8) := ⟨_, _, rfl, rfl, rfl⟩

/-- non-vacuity of `secrets_independent_of_plaintext`: the same tape and recipient, a 5-byte and a 9-byte plaintext
    (two and three chunks of 4) -/
theorem secrets_independent_of_plaintext_nonvacuous :
    ∃ f₁ f₂,
      encryptFile Prims.toy 4 ((List.range 100).map Nat.toUInt8) [Recipient.x25519 (List.replicate 32 0)] [1, 2, 3, 4, 5] = .ok f₁ ∧
      encryptFile Prims.toy 4 ((List.range 100).map Nat.toUInt8) [Recipient.x25519 (List.replicate 32 0)] [9, 8, 7, 6, 5, 4, 3, 2, 1] = .ok f₂ :=
  ⟨_, _, rfl, rfl⟩

/-- non-vacuity of `chunk_nonces_distinct`: 9 bytes in chunks of 4 from counter 0 with fuel 10: three sealed pairs -/
theorem chunk_nonces_distinct_nonvacuous :
    0 + 10 < 2 ^ 88 ∧ (sealedFrom 4 0 [1, 2, 3, 4, 5, 6, 7, 8, 9] 10).length = 3 := ⟨by decide, rfl⟩

/-- non-vacuity of `chunk_flags`: chunk size 4, a 9-byte plaintext, fuel 10 (what `encrypt` passes) -/
theorem chunk_flags_nonvacuous : 0 < 4 ∧ ([1, 2, 3, 4, 5, 6, 7, 8, 9] : Bytes).length < 10 := ⟨by decide, by decide⟩

/-- the conclusions of `tape_linear` and `chunk_flags` at those witnesses -/
example : ∃ used : Bytes, (List.range 100).map Nat.toUInt8 =
    (List.range 16).map Nat.toUInt8 ++ used ++ (List.range' 80 20).map Nat.toUInt8 ∧ used.length = 64 := by
  obtain ⟨st, h⟩ := tape_linear_nonvacuous
  obtain ⟨used, h1, _, h3⟩ := tape_linear _ _ _ _ _ _ h
  exact ⟨used, h1, h3⟩
example : (sealedFrom 4 0 [1, 2, 3, 4, 5, 6, 7, 8, 9] 10).map (·.1) = [nonce 0 false, nonce 1 false, nonce 2 true] := rfl

end Props.C06
end AgeModel
