/-
  Proofs.GoTiePluginCodec — plugin/encode.go: EncodeIdentity, ParseIdentity, EncodeRecipient,
  ParseRecipient as translated are the model's (split out of Proofs.GoTieCodec so that a rewrite of
  the plugin-name check does not take down the ties of internal/bech32 and of the native keys).
-/
import Proofs.GoTieCodec
import Proofs.GoTiePlugName
namespace AgeModel
namespace GoTie
open Extracted

/-! ## plugin/encode.go -/

def parseIdErr : Keys.Err → Option Go.Err
  | .bech32 _ => some ⟨"plugin.ParseIdentity", 0, []⟩
  | .badType => some ⟨"plugin.ParseIdentity", 1, []⟩
  | .badName => some ⟨"plugin.ParseIdentity", 2, []⟩
  | _ => some ⟨"unreachable", 0, []⟩

def parseRcErr : Keys.Err → Option Go.Err
  | .bech32 _ => some ⟨"plugin.ParseRecipient", 0, []⟩
  | .badType => some ⟨"plugin.ParseRecipient", 1, []⟩
  | .badName => some ⟨"plugin.ParseRecipient", 2, []⟩
  | _ => some ⟨"unreachable", 0, []⟩

theorem allowed_ascii_b : ∀ c : UInt8, Keys.allowed.contains c = true → c < 0x80 := by
  apply Bech32.forall_u8; decide +kernel

theorem isAscii_of_validName (name : Bytes) (h : Keys.validPluginName name = true) :
    Go.isAscii name = true := by
  unfold Keys.validPluginName at h
  split at h
  · cases h
  · simp only [List.all_eq_true] at h
    simp only [Go.isAscii, List.all_eq_true, decide_eq_true_eq]
    exact fun b hb => allowed_ascii_b b (h b hb)


theorem encodeIdentity_tie (name data : Bytes) :
    plugin_EncodeIdentity name data = .ok (Keys.encodeIdentity name data) := by
  unfold plugin_EncodeIdentity Keys.encodeIdentity
  simp only [bind, Except.bind, pure, Except.pure, validPluginName_tie]
  by_cases hv : (!Keys.validPluginName name) = true
  · rw [if_pos hv, if_pos hv]
  rw [if_neg hv, if_neg hv]
  have hv' : Keys.validPluginName name = true := by simpa using hv
  rw [toUpper_ascii name (isAscii_of_validName name hv'), encode_tie]
  simp only []
  rw [encode_fst]
  rfl

theorem encodeRecipient_tie (name data : Bytes) :
    plugin_EncodeRecipient name data = .ok (Keys.encodeRecipient name data) := by
  unfold plugin_EncodeRecipient Keys.encodeRecipient
  simp only [bind, Except.bind, pure, Except.pure, validPluginName_tie]
  by_cases hv : (!Keys.validPluginName name) = true
  · rw [if_pos hv, if_pos hv]
  rw [if_neg hv, if_neg hv]
  have hv' : Keys.validPluginName name = true := by simpa using hv
  rw [toLower_ascii name (isAscii_of_validName name hv'), encode_tie]
  simp only []
  rw [encode_fst]
  rfl


theorem hasBadByte_trimPrefix (s p : Bytes) (h : Bech32.hasBadByte s = false) :
    Bech32.hasBadByte (Go.strings_TrimPrefix s p) = false := by
  unfold Go.strings_TrimPrefix
  split
  · exact hasBadByte_drop _ _ h
  · exact h

theorem hasBadByte_trimSuffix (s p : Bytes) (h : Bech32.hasBadByte s = false) :
    Bech32.hasBadByte (Go.strings_TrimSuffix s p) = false := by
  unfold Go.strings_TrimSuffix
  split
  · exact hasBadByte_take _ _ h
  · exact h

theorem parseIdentity_tie (s : Bytes) :
    plugin_ParseIdentity s = .ok (match Keys.parseIdentity s with
      | .ok (n, d) => (n, d, none)
      | .error e => ([], [], parseIdErr e)) := by
  unfold plugin_ParseIdentity Keys.parseIdentity
  simp only [bind, Except.bind, pure, Except.pure, validPluginName_tie]
  rw [decode_tie]
  cases hd : Bech32.decode s with
  | error e =>
    simp only []
    rw [if_pos (decErr_ne_none e)]
    rfl
  | ok r =>
    obtain ⟨hrp, data⟩ := r
    simp only []
    rw [if_neg (by decide)]
    obtain ⟨D, d5, hs, _, hbs, _⟩ := Bech32.decode_ok hd
    have hbh : Bech32.hasBadByte hrp = false := by
      rw [hs, Bech32.hasBadByte_append] at hbs
      simpa using (Bool.or_eq_false_iff.mp hbs).1
    rw [toLower_ascii _ (isAscii_of_noBad _ (hasBadByte_trimSuffix _ _ (hasBadByte_trimPrefix _ _ hbh)))]
    by_cases h1 : (!Keys.hasPrefix hrp Keys.pfxPlugin || !Keys.hasSuffix hrp Keys.dash) = true
    · rw [if_pos h1]; exact (if_pos h1).trans rfl
    · rw [if_neg h1]; refine (if_neg h1).trans ?_
      by_cases h2 : (!Keys.validPluginName (Bech32.toLower
          (Keys.trimSuffix (Keys.trimPrefix hrp Keys.pfxPlugin) Keys.dash))) = true
      · rw [if_pos h2]; exact (if_pos h2).trans rfl
      · rw [if_neg h2]; exact (if_neg h2).trans rfl

theorem parseRecipient_tie (s : Bytes) :
    plugin_ParseRecipient s = .ok (match Keys.parseRecipient s with
      | .ok (n, d) => (n, d, none)
      | .error e => ([], [], parseRcErr e)) := by
  unfold plugin_ParseRecipient Keys.parseRecipient
  simp only [bind, Except.bind, pure, Except.pure, validPluginName_tie]
  rw [decode_tie]
  cases hd : Bech32.decode s with
  | error e =>
    simp only []
    rw [if_pos (decErr_ne_none e)]
    rfl
  | ok r =>
    obtain ⟨hrp, data⟩ := r
    simp only []
    rw [if_neg (by decide)]
    by_cases h1 : (!Keys.hasPrefix hrp Keys.pfxAge1) = true
    · rw [if_pos h1]; exact (if_pos h1).trans rfl
    · rw [if_neg h1]; refine (if_neg h1).trans ?_
      by_cases h2 : (!Keys.validPluginName (Keys.trimPrefix hrp Keys.pfxAge1)) = true
      · rw [if_pos h2]; exact (if_pos h2).trans rfl
      · rw [if_neg h2]; exact (if_neg h2).trans rfl

end GoTie
end AgeModel
