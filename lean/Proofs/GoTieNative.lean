/-
  Proofs.GoTieNative — the native recipients (X25519, scrypt), as they stand in the source.

  `(*X25519Recipient).Wrap`, `(*X25519Identity).unwrap/.Unwrap`, `(*ScryptRecipient).Wrap` and
  `.WrapWithLabels` are TRANSLATED from x25519.go / scrypt.go on every run
  (AgeModel/Extracted/Funcs.lean). Their callees outside the translated fragment —
  `curve25519.X25519`, `hkdf.New(sha256.New, …)` and reading from it, `scrypt.Key`,
  `aeadEncrypt`, `aeadDecrypt`, `format.EncodeToString`, `format.DecodeString`, `crypto/rand`
  (a tape) — are PARAMETERS of the translated definitions. The theorems say: whenever those
  parameters behave as the model's primitives `P` do (explicit hypotheses, `NativeEnv`), the
  translated functions compute the stanzas, labels, remaining tape and unwrap results of the
  model (`wrapX25519`, `unwrapX25519`, `wrapScrypt`, `wrapOne`, `Identity.unwrapLog`) for
  EVERY key, file key, stanza list and tape.
-/
import AgeModel.GoSem
import AgeModel.Recipients
import AgeModel.File
import AgeModel.Extracted.Funcs
import Proofs.GoTieUnwrap
import Proofs.GoTieScrypt
import Proofs.GoTieTape
namespace AgeModel
namespace GoTie
open Extracted

/-- the hypotheses that tie the abstract callees to the model's primitives `P`;
    `κ` is whatever `hkdf.New` returns (an `io.Reader` with hidden state) -/
structure NativeEnv (P : Prims) (κ : Type) extends ScryptEnv P where
  X : Bytes → Bytes → Go.M (Bytes × Option Go.Err)
  eX : Go.Err
  hX : ∀ a b, X a b = .ok (match P.x25519 a b with
                            | some c => (c, none)
                            | none => ([], some eX))
  Enc : Bytes → Go.M Bytes
  hEnc : ∀ b, Enc b = .ok (B64.encRaw b)
  H : Bytes → Bytes → Bytes → Go.M κ
  R : κ → Int → Go.M (Bytes × Option Go.Err × κ)
  hHR : ∀ s salt info, ∃ k k', H s salt info = .ok k ∧ R k 32 = .ok (P.hkdf s salt info 32, none, k')
  hLen : ∀ s salt info, (P.hkdf s salt info 32).length = 32
  Seal : Bytes → Bytes → Go.M (Bytes × Option Go.Err)
  hSeal : ∀ k pt, Seal k pt = .ok (P.wrapSeal k pt, none)
  eRand : Go.Err

/-! ## helpers -/

theorem digitChar_toNat (d : Nat) (h : d < 10) : (Nat.digitChar d).toNat.toUInt8 = (48 + d).toUInt8 := by
  have : ∀ k : Fin 10, (Nat.digitChar k.val).toNat.toUInt8 = (48 + k.val).toUInt8 := by decide
  exact this ⟨d, h⟩

theorem natDigits_eq (fuel n : Nat) (h : n < fuel) :
    Go.natDigits fuel n = (Nat.toDigits 10 n).map fun c => c.toNat.toUInt8 := by
  induction fuel generalizing n with
  | zero => omega
  | succ fuel ih =>
    rw [Go.natDigits, Nat.toDigits_eq_if (by decide)]
    split
    · rename_i h10
      simp only [List.map_cons, List.map_nil, digitChar_toNat n h10]
    · rw [ih (n / 10) (by omega)]
      simp only [List.map_append, List.map_cons, List.map_nil, digitChar_toNat (n % 10) (by omega)]

theorem writeAt32 (b : Bytes) (h : b.length = 32) : Go.writeAt (List.replicate 32 0) 0 b = b := by
  simp [Go.writeAt, h]

def xErr (k : Nat) : Bytes × Option Go.Err := ([], some ⟨"age.(*X25519Identity).unwrap", k, []⟩)

theorem resClass_xErr (k : Nat) : resClass (xErr k) = .fatal := by
  simp [resClass, xErr, age_ErrIncorrectIdentity]

/-- `strconv.Itoa` of a non-negative int is the model's decimal rendering -/
theorem itoa_eq (n : Nat) : Go.strconv_Itoa (Int.ofNat n) = natToDec n := by
  unfold Go.strconv_Itoa natToDec
  rw [if_neg (by simp only [Int.ofNat_eq_natCast]; omega)]
  exact natDigits_eq _ _ (by simp)

theorem hex_eq (b : Bytes) : Go.hex_EncodeToString b = hexLower b := by
  rfl

/-- (*X25519Recipient).Wrap = `wrapOne (.x25519 pub)`: ephemeral key from the tape, the stanza of the model -/
theorem x25519_wrap_tie (P : Prims) {κ : Type} (E : NativeEnv P κ) (pub fk tape : Bytes) :
    ∃ res, age_X25519Recipient_Wrap (tapeRead E.eRand) E.X P.basepoint E.Enc E.H E.R E.Seal ⟨pub⟩ fk tape = .ok res ∧
      match wrapOne P (.x25519 pub) fk tape with
      | .error () => res = ([], some E.eRand, tape)
      | .ok (some (ss, ls), t) => res = (ss.map toGoStanza, none, t) ∧ ls = []
      | .ok (none, t) => res = ([], some E.eX, t) := by
  have hmk : Go.makeList (0 : UInt8) 32 = .ok (List.replicate 32 0) := rfl
  have hmk0 : Go.makeList (0 : UInt8) 0 = .ok [] := rfl
  have hlen : Go.len (List.replicate 32 (0 : UInt8)) = Int.ofNat 32 := by simp [Go.len]
  have hn : ((none : Option Go.Err) != none) = false := rfl
  have hs : ∀ e : Go.Err, (some e != (none : Option Go.Err)) = true := fun _ => rfl
  unfold age_X25519Recipient_Wrap
  simp only [hmk, hmk0, ok_bind, hlen, wrapOne]
  cases hd : draw 32 tape with
  | none =>
    simp only [tapeRead_none E.eRand hd, ok_bind, hs, if_true]
    exact ⟨_, rfl, rfl⟩
  | some bt =>
    obtain ⟨eph, t⟩ := bt
    simp only [tapeRead_some E.eRand hd, ok_bind, writeAt32 eph (draw_length hd), hn, Bool.false_eq_true, if_false, E.hX, wrapX25519]
    cases h1 : P.x25519 eph P.basepoint with
    | none =>
      simp only [hs, if_true]
      exact ⟨_, rfl, rfl⟩
    | some ourPub =>
      simp only [hn, Bool.false_eq_true, if_false]
      cases h2 : P.x25519 eph pub with
      | none =>
        simp only [hs, if_true]
        exact ⟨_, rfl, rfl⟩
      | some shared =>
        obtain ⟨k, k', hH, hR⟩ := E.hHR shared (ourPub ++ pub) x25519Label
        simp only [x25519Label] at hH
        have hR' : E.R k (Int.ofNat 32) = .ok (P.hkdf shared (ourPub ++ pub) x25519Label 32, none, k') := hR
        simp only [hn, Bool.false_eq_true, if_false, E.hEnc, ok_bind, List.nil_append, hH, hR',
          writeAt32 _ (E.hLen _ _ _), E.hSeal]
        exact ⟨_, rfl, rfl, rfl⟩

/-- (*X25519Identity).unwrap = `unwrapX25519`, for every stanza -/
theorem x25519_unwrap_tie (P : Prims) {κ : Type} (E : NativeEnv P κ) (sk : Bytes) (s : Format.Stanza) :
    ∃ r, age_X25519Identity_unwrap E.D E.X E.H E.R E.A ⟨sk, (P.x25519 sk P.basepoint).getD []⟩ (toGoStanza s) = .ok r ∧
      resClass r = unwrapX25519 P sk s := by
  obtain ⟨ty, args, body⟩ := s
  have hmk : Go.makeList (0 : UInt8) 32 = .ok (List.replicate 32 0) := rfl
  have hmk0 : Go.makeList (0 : UInt8) 0 = .ok [] := rfl
  have hlen : Go.len (List.replicate 32 (0 : UInt8)) = Int.ofNat 32 := by simp [Go.len]
  have hn : ((none : Option Go.Err) != none) = false := rfl
  have hs : ∀ e : Go.Err, (some e != (none : Option Go.Err)) = true := fun _ => rfl
  unfold age_X25519Identity_unwrap unwrapX25519
  simp only [toGoStanza]
  by_cases ht : ty = tX25519
  · subst ht
    have hb : (tX25519 != [88, 50, 53, 53, 49, 57]) = false := by decide
    simp only [hb, Bool.false_eq_true, if_false, ne_eq, not_true_eq_false]
    rcases args with _ | ⟨a, _ | ⟨x, rest⟩⟩
    · have hl : (Go.len ([] : List Bytes) != 1) = true := by decide
      simp only [hl, if_true]
      exact ⟨xErr 0, rfl, resClass_xErr 0⟩
    · have hl : (Go.len [a] != 1) = false := rfl
      have h0 : Go.idx [a] 0 = .ok a := rfl
      simp only [hl, Bool.false_eq_true, if_false, h0, E.hD, ok_bind]
      cases hdec : Format.decodeString a with
      | none =>
        simp only [hs, if_true]
        exact ⟨xErr 1, rfl, resClass_xErr 1⟩
      | some pk =>
        simp only [hn, Bool.false_eq_true, if_false]
        by_cases hpk : pk.length = 32
        · have hl2 : (Go.len pk != 32) = false := by simp [Go.len, hpk]
          simp only [hl2, Bool.false_eq_true, if_false, hpk, not_true_eq_false, E.hX]
          cases hx : P.x25519 sk pk with
          | none =>
            exact ⟨xErr 3, rfl, resClass_xErr 3⟩
          | some shared =>
            obtain ⟨k, k', hH, hR⟩ := E.hHR shared (pk ++ (P.x25519 sk P.basepoint).getD []) x25519Label
            simp only [x25519Label] at hH
            have hR' : E.R k (Int.ofNat 32) = .ok (P.hkdf shared (pk ++ (P.x25519 sk P.basepoint).getD []) x25519Label 32, none, k') := hR
            simp only [hn, Bool.false_eq_true, if_false, hmk, hmk0, hlen, ok_bind, List.nil_append, hH, hR',
              writeAt32 _ (E.hLen _ _ _), E.hA, fileKeySize]
            cases aeadDecryptSized P (P.hkdf shared (pk ++ (P.x25519 sk P.basepoint).getD []) x25519Label 32) 16 body with
            | key fk =>
              have h1 : ((none : Option Go.Err) == age_errIncorrectCiphertextSize) = false := rfl
              simp only [h1, hn, Bool.false_eq_true, if_false]
              exact ⟨_, rfl, by simp [resClass]⟩
            | fatal =>
              simp only [beq_self_eq_true, if_true]
              exact ⟨xErr 4, rfl, resClass_xErr 4⟩
            | incorrect =>
              have h1 : (some E.eA == age_errIncorrectCiphertextSize) = false := by simpa using E.hne
              simp only [h1, hs, Bool.false_eq_true, if_false, if_true]
              exact ⟨_, rfl, resClass_incorrect⟩
        · have hl2 : (Go.len pk != 32) = true := by
            simp only [Go.len, bne_iff_ne, ne_eq, Int.ofNat_eq_natCast]; omega
          simp only [hl2, if_true, hpk, not_false_eq_true]
          exact ⟨xErr 2, rfl, resClass_xErr 2⟩
    · have hl : (Go.len (a :: x :: rest) != 1) = true := by
        simp only [Go.len, List.length_cons, bne_iff_ne, ne_eq, Int.ofNat_eq_natCast]; omega
      simp only [hl, if_true]
      exact ⟨xErr 0, rfl, resClass_xErr 0⟩
  · have hb : (ty != [88, 50, 53, 53, 49, 57]) = true := by simpa [tX25519] using ht
    simp only [hb, if_true, ne_eq, ht, not_false_eq_true]
    exact ⟨_, rfl, resClass_incorrect⟩

/-- (*X25519Identity).Unwrap = the model's identity on every stanza list -/
theorem x25519_Unwrap_tie (P : Prims) {κ : Type} (E : NativeEnv P κ) (sk : Bytes) (ss : List Format.Stanza) :
    ∃ r, age_X25519Identity_Unwrap errorsIsEq E.D E.X E.H E.R E.A ⟨sk, (P.x25519 sk P.basepoint).getD []⟩ (ss.map toGoStanza) = .ok r ∧
      resClass r = (Identity.unwrapLog P (.x25519 sk) ss).1 := by
  simp only [age_X25519Identity_Unwrap, Identity.unwrapLog]
  have hU : ∀ s, ∃ r, age_X25519Identity_unwrap E.D E.X E.H E.R E.A ⟨sk, (P.x25519 sk P.basepoint).getD []⟩ s = .ok r := by
    intro s
    obtain ⟨r, hr, _⟩ := x25519_unwrap_tie P E sk ⟨s.Type_, s.Args, s.Body⟩
    exact ⟨r, hr⟩
  obtain ⟨r, hr, hcl⟩ := multiUnwrap_tie _ hU ss
  refine ⟨r, ?_, ?_⟩
  · simp only [hr, ok_bind]; rfl
  · rw [hcl]
    congr 1
    funext s
    obtain ⟨r', hr', hc'⟩ := x25519_unwrap_tie P E sk s
    simp only [stanzaClass, hr', hc']

/-- (*ScryptRecipient).Wrap: salt from the tape, the stanza of the model. `1 << logN` is an `int`
    in Go; GoSem computes shifts without wrap-around, so the statement is confined to work
    factors below 63 (`SetWorkFactor` accepts 1 … 30; the default is 18) -/
theorem scrypt_wrap_tie (P : Prims) {κ : Type} (E : NativeEnv P κ) (pw : Bytes) (logN : Nat) (_hN : logN < 63) (fk tape : Bytes) :
    ∃ res, age_ScryptRecipient_Wrap (tapeRead E.eRand) E.Enc E.K E.Seal ⟨pw, Int.ofNat logN⟩ fk tape = .ok res ∧
      match draw scryptSaltSize tape with
      | none => res = ([], some E.eRand, tape)
      | some (salt, t) => res = ([toGoStanza (wrapScrypt P pw logN salt fk)], none, t) := by
  have hmk : Go.makeList (0 : UInt8) 16 = .ok (List.replicate 16 0) := rfl
  have hlen : Go.len (List.replicate 16 (0 : UInt8)) = Int.ofNat 16 := by simp [Go.len]
  have hn : ((none : Option Go.Err) != none) = false := rfl
  have hs : ∀ e : Go.Err, (some e != (none : Option Go.Err)) = true := fun _ => rfl
  have hsc : Go.shiftCount (Int.ofNat logN) = .ok logN := by
    unfold Go.shiftCount
    rw [if_neg (by simp only [Int.ofNat_eq_natCast]; omega)]; rfl
  have hsh : Go.shlInt 1 logN = (2 : Int) ^ logN := by simp [Go.shlInt]
  unfold age_ScryptRecipient_Wrap
  simp only [hmk, ok_bind, hlen, scryptSaltSize]
  cases hd : draw 16 tape with
  | none =>
    simp only [tapeRead_none E.eRand hd, ok_bind, hs, if_true]
    exact ⟨_, rfl, rfl⟩
  | some bt =>
    obtain ⟨salt, t⟩ := bt
    simp only [tapeRead_some E.eRand hd, ok_bind, writeAt16 salt (draw_length hd), hn, Bool.false_eq_true, if_false,
      E.hEnc, hsc, hsh, E.hSeal, itoa_eq]
    have hK := E.hK pw (scryptLabel ++ salt) logN
    simp only [scryptLabel] at hK
    simp only [hK, ok_bind, hn, Bool.false_eq_true, if_false]
    exact ⟨_, rfl, rfl⟩

/-- (*ScryptRecipient).WrapWithLabels = `wrapOne (.scrypt pw logN)`: the stanza, ONE fresh random
    label of 32 hex digits drawn after the salt, the remaining tape -/
theorem scrypt_wrapWithLabels_tie (P : Prims) {κ : Type} (E : NativeEnv P κ) (pw : Bytes) (logN : Nat) (_hN : logN < 63) (fk tape : Bytes) :
    ∃ res, age_ScryptRecipient_WrapWithLabels (tapeRead E.eRand) E.Enc E.K E.Seal ⟨pw, Int.ofNat logN⟩ fk tape = .ok res ∧
      match wrapOne P (.scrypt pw logN) fk tape with
      | .error () => res.1 = [] ∧ res.2.1 = [] ∧ res.2.2.1 = some E.eRand
      | .ok (some (ss, ls), t) => res = (ss.map toGoStanza, ls, none, t)
      | .ok (none, _) => False := by
  have hmk : Go.makeList (0 : UInt8) 16 = .ok (List.replicate 16 0) := rfl
  have hlen : Go.len (List.replicate 16 (0 : UInt8)) = Int.ofNat 16 := by simp [Go.len]
  have hn : ((none : Option Go.Err) != none) = false := rfl
  have hs : ∀ e : Go.Err, (some e != (none : Option Go.Err)) = true := fun _ => rfl
  obtain ⟨r1, hr1, hm⟩ := scrypt_wrap_tie P E pw logN _hN fk tape
  unfold age_ScryptRecipient_WrapWithLabels
  simp only [hr1, ok_bind, hmk, hlen, wrapOne]
  simp only [scryptSaltSize] at hm ⊢
  cases hd : draw 16 tape with
  | none =>
    rw [hd] at hm
    subst hm
    simp only [tapeRead_none E.eRand hd, ok_bind, hs, if_true]
    exact ⟨_, rfl, rfl, rfl, rfl⟩
  | some bt =>
    obtain ⟨salt, t⟩ := bt
    rw [hd] at hm
    simp only at hm
    subst hm
    simp only
    cases hd2 : draw 16 t with
    | none =>
      simp only [tapeRead_none E.eRand hd2, ok_bind, hs, if_true]
      exact ⟨_, rfl, rfl, rfl, rfl⟩
    | some bt2 =>
      obtain ⟨lab, t'⟩ := bt2
      simp only [tapeRead_some E.eRand hd2, ok_bind, hn, Bool.false_eq_true, if_false,
        writeAt16 lab (draw_length hd2), hex_eq]
      exact ⟨_, rfl, rfl⟩

end GoTie
end AgeModel
