/-
  Proofs.GoTiePluginBase — the plugin client's two conversations, as they stand in the source.

  `(*Recipient).WrapWithLabels` and `(*Identity).Unwrap` of plugin/client.go are TRANSLATED on
  every run: phase 1 (what the client sends), the phase-2 read loop with its `switch` on the
  stanza type, the labelled `break`, both `defer`s (the connection is closed at every return; an
  error is wrapped with the plugin's name — `%w`, taken as the error itself). The process, the
  stanza reader on its output and the UI are abstract state; `openClientConnection`,
  `writeStanza`, `writeStanzaWithBody`, `Stanza.Marshal`, `NewStanzaReader`, `ClientUI.readStanza`
  and `ClientUI.handle` are parameters, and `PluginEnv` says what is assumed of them in terms of the
  model: writing appends one stanza to the transcript and does not fail, reading pops the next
  message of the plugin's script or reports how the script ends, `handle` is the model's `UI.handle`.
  The theorems: for EVERY script the translated client writes exactly the model's phase 1 followed
  by the model's replies, leaves the UI in the model's state and returns the model's result
  (stanzas and labels / file key, or the corresponding error) — so the 28 theorems of `Props.C16`
  about `recipientClient` / `identityClient` are about the state machines in the source.
-/
import AgeModel.GoSem
import AgeModel.Plugin
import AgeModel.Extracted.Funcs
namespace AgeModel
namespace GoTie
open Extracted Plugin

/-- a Go string is its UTF-8 bytes -/
def bs (s : String) : Bytes := s.toUTF8.toList

def goFS (m : Plugin.Stanza) : format_Stanza := ⟨bs m.type, m.args.map bs, m.body⟩
def goAS (m : Plugin.Stanza) : age_Stanza := ⟨bs m.type, m.args.map bs, m.body⟩

structure PluginEnv (S : Type) (σ υ χ : Type) where
  ui : UI S
  dec : String → Option Bytes
  /-- what has been written to the plugin so far, and the UI state (the world the callbacks act on) -/
  absC : χ → List Plugin.Stanza
  uiOf : χ → S
  /-- what the plugin will still say, and how its output ends -/
  absS : σ → List Plugin.Stanza × End
  u : υ
  name : Bytes
  c0 : χ
  st0 : S
  script : Conv
  eEnd : End → Go.Err
  eH : Go.Err
  Open : Bytes → Bytes → Go.M (χ × Option Go.Err)
  hOpen : ∀ proto, Open name proto = .ok (c0, none)
  h0 : absC c0 = [] ∧ uiOf c0 = st0
  W : χ → Bytes → List Bytes → Go.M (Option Go.Err × χ)
  hW : ∀ c (t : String) (args : List String), ∃ c', W c (bs t) (args.map bs) = .ok (none, c') ∧
        absC c' = absC c ++ [⟨t, args, []⟩] ∧ uiOf c' = uiOf c
  WB : χ → Bytes → Bytes → Go.M (Option Go.Err × χ)
  hWB : ∀ c (t : String) (body : Bytes), ∃ c', WB c (bs t) body = .ok (none, c') ∧
        absC c' = absC c ++ [⟨t, [], body⟩] ∧ uiOf c' = uiOf c
  M : format_Stanza → χ → Go.M (Option Go.Err × χ)
  hM : ∀ c (m : Plugin.Stanza), ∃ c', M (goFS m) c = .ok (none, c') ∧ absC c' = absC c ++ [m] ∧ uiOf c' = uiOf c
  Close : χ → Go.M (Option Go.Err)
  hClose : ∀ c, ∃ e, Close c = .ok e
  New : χ → Go.M σ
  hNew : ∀ c, ∃ sr, New c = .ok sr ∧ absS sr = (script.msgs, script.fin)
  rem : σ → Nat
  hRem : ∀ sr, rem sr = (absS sr).1.length
  Rd : υ → Bytes → σ → Go.M (format_Stanza × Option Go.Err × σ)
  hRd : ∀ sr, ∃ out, Rd u name sr = .ok out ∧
        match absS sr with
        | ([], e) => out.2.1 = some (eEnd e)
        | (m :: rest, e) => out.1 = goFS m ∧ out.2.1 = none ∧ absS out.2.2 = (rest, e)
  Hd : υ → Bytes → χ → format_Stanza → Go.M (Bool × Option Go.Err × χ)
  hHd : ∀ c (m : Plugin.Stanza), ∃ out, Hd u name c (goFS m) = .ok out ∧
        match ui.handle dec (uiOf c) m with
        | .reply st r => out.1 = true ∧ out.2.1 = none ∧ absC out.2.2 = absC c ++ [r] ∧ uiOf out.2.2 = st
        | .fatal => out.1 = true ∧ out.2.1 = some eH ∧ absC out.2.2 = absC c ∧ uiOf out.2.2 = uiOf c
        | .unknown => out.1 = false ∧ out.2.1 = none ∧ absC out.2.2 = absC c ∧ uiOf out.2.2 = uiOf c

/-- which Go error stands for which error of the model (recipient side) -/
def rErrRel {S σ υ χ : Type} (E : PluginEnv S σ υ χ) : ClientErr → Option Go.Err → Prop
  | .pluginError _, g => g = some ⟨"plugin.(*Recipient).WrapWithLabels", 5, []⟩
  | .protocol, g => g = some E.eH ∨ ∃ k, k ∈ [1, 2, 3, 4] ∧ g = some ⟨"plugin.(*Recipient).WrapWithLabels", k, []⟩
  | .ended e, g => g = some (E.eEnd e)
  | .noStanzas, g => g = some ⟨"plugin.(*Recipient).WrapWithLabels", 6, []⟩
  | .incorrectIdentity, _ => False

/-- identity side -/
def iErrRel {S σ υ χ : Type} (E : PluginEnv S σ υ χ) : ClientErr → Option Go.Err → Prop
  | .pluginError _, g => g = some ⟨"plugin.(*Identity).Unwrap", 5, []⟩
  | .protocol, g => g = some E.eH ∨ ∃ k, k ∈ [1, 2, 3, 4] ∧ g = some ⟨"plugin.(*Identity).Unwrap", k, []⟩
  | .ended e, g => g = some (E.eEnd e)
  | .incorrectIdentity, g => g = age_ErrIncorrectIdentity
  | .noStanzas, _ => False

/-! ## shared facts about strings as bytes -/

theorem ba_loop (bs : ByteArray) (i : Nat) (r : List UInt8) :
    ByteArray.toList.loop bs i r = r.reverse ++ bs.data.toList.drop i := by
  fun_induction ByteArray.toList.loop bs i r with
  | case1 i r h ih =>
    rw [ih]
    have h' : i < bs.data.toList.length := by
      rw [Array.length_toList]; exact h
    have h2 : i < bs.data.size := h
    rw [List.drop_eq_getElem_cons h']
    have : bs.get! i = bs.data.toList[i] := by
      simp only [ByteArray.get!, Array.getElem_toList]
      exact getElem!_pos bs.data i h2
    simp [this]
  | case2 i r h =>
    have h' : bs.data.toList.length ≤ i := by
      rw [Array.length_toList]; exact Nat.le_of_not_lt h
    simp [List.drop_eq_nil_of_le h']

theorem ba_toList (bs : ByteArray) : bs.toList = bs.data.toList := by
  simp [ByteArray.toList, ba_loop]


theorem enc_head (c : Char) : ∃ b rest, String.utf8EncodeChar c = b :: rest ∧
    (c.val.toNat ≤ 127 → b.toNat = c.val.toNat ∧ rest = []) ∧ (127 < c.val.toNat → 192 ≤ b.toNat) := by
  unfold String.utf8EncodeChar
  simp only []
  split
  · refine ⟨_, _, rfl, fun _ => ⟨?_, rfl⟩, fun h => by omega⟩
    rw [UInt8.toNat_ofNat']; omega
  · split
    · refine ⟨_, _, rfl, fun h => by omega, fun _ => ?_⟩
      rw [UInt8.toNat_ofNat']; omega
    · split
      · refine ⟨_, _, rfl, fun h => by omega, fun _ => ?_⟩
        rw [UInt8.toNat_ofNat']; omega
      · refine ⟨_, _, rfl, fun h => by omega, fun _ => ?_⟩
        rw [UInt8.toNat_ofNat']; omega

theorem isDigit_iff (c : Char) : c.isDigit = true ↔ 48 ≤ c.val.toNat ∧ c.val.toNat ≤ 57 := by
  simp [Char.isDigit, UInt32.le_iff_toNat_le]

theorem goDigit_iff (b : UInt8) : Go.isDigit b = true ↔ 48 ≤ b.toNat ∧ b.toNat ≤ 57 := by
  simp [Go.isDigit, UInt8.le_iff_toNat_le]

theorem char_eq_iff (c : Char) (d : Char) : c = d ↔ c.val.toNat = d.val.toNat := by
  rw [UInt32.toNat_inj, Char.val_inj]

theorem enc_char (c : Char) : ∃ b rest, String.utf8EncodeChar c = b :: rest ∧
    (c.isDigit = true → rest = [] ∧ b.toNat = c.toNat ∧ Go.isDigit b = true) ∧
    (c.isDigit = false → Go.isDigit b = false) ∧
    (b = 43 ↔ c = '+') ∧ (b = 45 ↔ c = '-') ∧ (c = '+' ∨ c = '-' → rest = []) := by
  obtain ⟨b, rest, he, h1, h2⟩ := enc_head c
  refine ⟨b, rest, he, ?_, ?_, ?_, ?_, ?_⟩
  · intro hd
    rw [isDigit_iff] at hd
    obtain ⟨hb, hr⟩ := h1 (by omega)
    refine ⟨hr, hb, ?_⟩
    rw [goDigit_iff]; omega
  · intro hd
    have hd' : ¬ (48 ≤ c.val.toNat ∧ c.val.toNat ≤ 57) := by
      rw [← isDigit_iff]; simp [hd]
    have : ¬ (48 ≤ b.toNat ∧ b.toNat ≤ 57) := by
      by_cases hc : c.val.toNat ≤ 127
      · rw [(h1 hc).1]; exact hd'
      · have := h2 (by omega); omega
    rw [← goDigit_iff] at this
    simpa using this
  · rw [char_eq_iff, ← UInt8.toNat_inj]
    show b.toNat = 43 ↔ c.val.toNat = 43
    by_cases hc : c.val.toNat ≤ 127
    · rw [(h1 hc).1]
    · have := h2 (by omega); omega
  · rw [char_eq_iff, ← UInt8.toNat_inj]
    show b.toNat = 45 ↔ c.val.toNat = 45
    by_cases hc : c.val.toNat ≤ 127
    · rw [(h1 hc).1]
    · have := h2 (by omega); omega
  · intro h
    have : c.val.toNat ≤ 127 := by
      rcases h with h | h <;> (rw [char_eq_iff] at h; rw [h]; decide)
    exact (h1 this).2

def enc (cs : List Char) : List UInt8 := cs.flatMap String.utf8EncodeChar

theorem enc_cons (c : Char) (r : List Char) : enc (c :: r) = String.utf8EncodeChar c ++ enc r := by
  simp [enc]

theorem dv_some (cs : List Char) (acc v : Nat) (h : Plugin.digitsVal cs acc = some v) :
    (enc cs).all Go.isDigit = true ∧
    (enc cs).foldl (fun acc c => acc * 10 + (c.toNat - 48)) acc = v := by
  induction cs generalizing acc with
  | nil => simp [Plugin.digitsVal] at h; simp [enc, h]
  | cons c r ih =>
    unfold Plugin.digitsVal at h
    by_cases hd : c.isDigit = true
    · rw [if_pos hd] at h
      obtain ⟨b, rest, he, h1, -⟩ := enc_char c
      obtain ⟨hr, hb, hg⟩ := h1 hd
      obtain ⟨ia, ib⟩ := ih _ h
      subst hr
      rw [enc_cons, he]
      simp only [List.cons_append, List.nil_append, List.all_cons, hg, ia, Bool.and_self,
        List.foldl_cons, hb, true_and]
      exact ib
    · rw [if_neg hd] at h; cases h

theorem dv_none (cs : List Char) (acc : Nat) (h : Plugin.digitsVal cs acc = none) :
    (enc cs).all Go.isDigit = false := by
  induction cs generalizing acc with
  | nil => simp [Plugin.digitsVal] at h
  | cons c r ih =>
    unfold Plugin.digitsVal at h
    obtain ⟨b, rest, he, h1, h2, -⟩ := enc_char c
    by_cases hd : c.isDigit = true
    · rw [if_pos hd] at h
      obtain ⟨hr, hb, hg⟩ := h1 hd
      subst hr
      rw [enc_cons, he]
      simp only [List.cons_append, List.nil_append, List.all_cons, hg, ih _ h, Bool.and_false]
    · have hg := h2 (by simpa using hd)
      rw [enc_cons, he]
      simp only [List.cons_append, List.all_cons, hg, Bool.false_and]

theorem enc_isEmpty (cs : List Char) : (enc cs).isEmpty = cs.isEmpty := by
  cases cs with
  | nil => rfl
  | cons c r =>
    obtain ⟨b, rest, he, -⟩ := enc_char c
    rw [enc_cons, he]; rfl



def mTail (neg : Bool) (ds : List Char) : Option Int :=
  match ds with
  | [] => none
  | _ =>
    match Plugin.digitsVal ds 0 with
    | none => none
    | some v =>
      if neg then (if v ≤ 2 ^ 63 then some (- (v : Int)) else none)
      else (if v < 2 ^ 63 then some (v : Int) else none)

theorem atoiChars_plus (r : List Char) : atoiChars ('+' :: r) = mTail false r := rfl
theorem atoiChars_minus (r : List Char) : atoiChars ('-' :: r) = mTail true r := rfl
theorem atoiChars_nil : atoiChars [] = none := rfl
theorem atoiChars_other (c : Char) (r : List Char) (h1 : c ≠ '+') (h2 : c ≠ '-') :
    atoiChars (c :: r) = mTail false (c :: r) := by
  unfold atoiChars
  split
  · rename_i heq; cases heq; exact absurd rfl h2
  · split
    · rename_i heq; cases heq; exact absurd rfl h1
    · rename_i heq; cases heq; exact absurd rfl h2
    · rfl

def gTail (neg : Bool) (ds : List UInt8) : Int × Option Go.Err :=
  if ds.isEmpty || !ds.all Go.isDigit then (0, some ⟨"strconv.Atoi", 0, []⟩)
  else
    let v : Int := if neg then -(Int.ofNat (Go.digitsVal ds)) else Int.ofNat (Go.digitsVal ds)
    if v > 9223372036854775807 then (9223372036854775807, some ⟨"strconv.Atoi", 1, []⟩)
    else if v < -9223372036854775808 then (-9223372036854775808, some ⟨"strconv.Atoi", 1, []⟩)
    else (v, none)

theorem gAtoi_plus (r : List UInt8) : Go.strconv_Atoi (43 :: r) = gTail false r := rfl
theorem gAtoi_minus (r : List UInt8) : Go.strconv_Atoi (45 :: r) = gTail true r := rfl
theorem gAtoi_other (b : UInt8) (r : List UInt8) (h1 : b ≠ 43) (h2 : b ≠ 45) :
    Go.strconv_Atoi (b :: r) = gTail false (b :: r) := by
  have e1 : (some b == some (43:UInt8)) = false := by simp [h1]
  have e2 : (some b == some (45:UInt8)) = false := by simp [h2]
  unfold Go.strconv_Atoi gTail
  simp only [List.head?_cons, e1, e2, Bool.false_eq_true, if_false, Bool.or_self]

theorem tail_some (neg : Bool) (ds : List Char) (v : Int) (h : mTail neg ds = some v) :
    gTail neg (enc ds) = (v, none) := by
  cases ds with
  | nil => cases h
  | cons c r =>
    simp only [mTail] at h
    cases hdv : Plugin.digitsVal (c :: r) 0 with
    | none => rw [hdv] at h; cases h
    | some n =>
      rw [hdv] at h
      obtain ⟨ha, hf⟩ := dv_some _ _ _ hdv
      have hf' : Go.digitsVal (enc (c :: r)) = n := hf
      have hE : (enc (c :: r)).isEmpty = false := by rw [enc_isEmpty]; rfl
      unfold gTail
      simp only [hE, ha, Bool.not_true, Bool.or_self, Bool.false_eq_true, if_false, hf',
        Int.ofNat_eq_natCast]
      cases neg with
      | true =>
        simp only [if_true] at h ⊢
        by_cases hv : n ≤ 2 ^ 63
        · rw [if_pos hv] at h; cases h
          rw [if_neg (by omega), if_neg (by omega)]
        · rw [if_neg hv] at h; cases h
      | false =>
        simp only [Bool.false_eq_true, if_false] at h ⊢
        by_cases hv : n < 2 ^ 63
        · rw [if_pos hv] at h; cases h
          rw [if_neg (by omega), if_neg (by omega)]
        · rw [if_neg hv] at h; cases h

theorem tail_none (neg : Bool) (ds : List Char) (h : mTail neg ds = none) :
    (gTail neg (enc ds)).2 ≠ none := by
  cases ds with
  | nil => simp [gTail, enc]
  | cons c r =>
    simp only [mTail] at h
    cases hdv : Plugin.digitsVal (c :: r) 0 with
    | none =>
      have ha := dv_none _ _ hdv
      unfold gTail
      simp [ha]
    | some n =>
      rw [hdv] at h
      obtain ⟨ha, hf⟩ := dv_some _ _ _ hdv
      have hf' : Go.digitsVal (enc (c :: r)) = n := hf
      have hE : (enc (c :: r)).isEmpty = false := by rw [enc_isEmpty]; rfl
      unfold gTail
      simp only [hE, ha, Bool.not_true, Bool.or_self, Bool.false_eq_true, if_false, hf',
        Int.ofNat_eq_natCast]
      cases neg with
      | true =>
        simp only [if_true] at h ⊢
        by_cases hv : n ≤ 2 ^ 63
        · rw [if_pos hv] at h; cases h
        · rw [if_neg (by omega), if_pos (by omega)]; simp
      | false =>
        simp only [Bool.false_eq_true, if_false] at h ⊢
        by_cases hv : n < 2 ^ 63
        · rw [if_pos hv] at h; cases h
        · rw [if_pos (by omega)]; simp

theorem bs_eq_enc (s : String) : bs s = enc s.toList := by
  unfold bs enc
  rw [ba_toList, String.toUTF8, ← String.utf8Encode_toList, List.utf8Encode,
    List.toList_data_toByteArray]

/-- `strconv.Atoi` on the UTF-8 of a list of characters, against the model's `atoiChars` -/
theorem atoiChars_enc (cs : List Char) :
    (∀ v, atoiChars cs = some v → Go.strconv_Atoi (enc cs) = (v, none)) ∧
    (atoiChars cs = none → (Go.strconv_Atoi (enc cs)).2 ≠ none) := by
  cases cs with
  | nil => exact ⟨fun v h => (by cases h), fun _ => (by simp [enc, Go.strconv_Atoi])⟩
  | cons c r =>
    obtain ⟨b, rest, he, -, -, hp, hm, hs⟩ := enc_char c
    by_cases h1 : c = '+'
    · have hr := hs (Or.inl h1)
      have hb := hp.2 h1
      subst h1; subst hr; subst hb
      rw [enc_cons, he, atoiChars_plus]
      exact ⟨fun v h => tail_some _ _ _ h, fun h => tail_none _ _ h⟩
    · by_cases h2 : c = '-'
      · have hr := hs (Or.inr h2)
        have hb := hm.2 h2
        subst h2; subst hr; subst hb
        rw [enc_cons, he, atoiChars_minus]
        exact ⟨fun v h => tail_some _ _ _ h, fun h => tail_none _ _ h⟩
      · have hb1 : b ≠ 43 := fun h => h1 (hp.1 h)
        have hb2 : b ≠ 45 := fun h => h2 (hm.1 h)
        rw [atoiChars_other c r h1 h2]
        have : Go.strconv_Atoi (enc (c :: r)) = gTail false (enc (c :: r)) := by
          rw [enc_cons, he]; exact gAtoi_other b _ hb1 hb2
        rw [this]
        exact ⟨fun v h => tail_some _ _ _ h, fun h => tail_none _ _ h⟩

/-- different strings have different UTF-8 -/
theorem bs_inj {a b : String} : bs a = bs b ↔ a = b := by
  constructor
  · intro h
    unfold bs at h
    rw [ba_toList, ba_toList] at h
    have h2 : a.toUTF8.data = b.toUTF8.data := Array.toList_inj.mp h
    have h3 : a.toUTF8 = b.toUTF8 := ByteArray.ext h2
    exact String.toByteArray_inj.mp h3
  · intro h; rw [h]

/-- `strconv.Atoi` on the bytes of a string is the model's `atoi` -/
theorem atoi_some (s : String) (v : Int) (h : Plugin.atoi s = some v) : Go.strconv_Atoi (bs s) = (v, none) := by
  rw [bs_eq_enc]; exact (atoiChars_enc s.toList).1 v h

theorem atoi_none (s : String) (h : Plugin.atoi s = none) : (Go.strconv_Atoi (bs s)).2 ≠ none := by
  rw [bs_eq_enc]; exact (atoiChars_enc s.toList).2 h

end GoTie
end AgeModel
