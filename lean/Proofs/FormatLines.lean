/-
  Proofs.FormatLines — line splitting, space splitting and base64 line wrapping.
-/
import AgeModel.Format
import Proofs.B64
namespace AgeModel
namespace Format

/-! ### takeLine -/

theorem takeLine_eq : ∀ {b l r : Bytes}, takeLine b = some (l, r) → b = l ++ nl :: r ∧ nl ∉ l
  | [], l, r, h => by simp [takeLine] at h
  | c :: cs, l, r, h => by
    unfold takeLine at h
    split at h
    · rename_i hc; simp at h; obtain ⟨rfl, rfl⟩ := h; simp [hc]
    · rename_i hc
      split at h
      · rename_i l' r' heq
        simp at h; obtain ⟨rfl, rfl⟩ := h
        have ⟨h1, h2⟩ := takeLine_eq heq
        constructor
        · simp [h1]
        · simp; exact ⟨fun e => hc e.symm, h2⟩
      · simp at h

theorem takeLine_len {b l r : Bytes} (h : takeLine b = some (l, r)) : r.length < b.length := by
  have := (takeLine_eq h).1
  rw [this]; simp; omega

theorem takeLine_app : ∀ (l r : Bytes), nl ∉ l → takeLine (l ++ nl :: r) = some (l, r)
  | [], r, _ => by simp [takeLine]
  | c :: l, r, h => by
    simp at h
    have hc : ¬ c = nl := fun e => h.1 e.symm
    simp [takeLine, hc, takeLine_app l r h.2]

/-! ### wrap -/

theorem wrap_short {cs : Bytes} (h : cs.length < 64) : wrap cs = cs := by
  unfold wrap; simp [h]

theorem wrap_app64 {x y : Bytes} (h : x.length = 64) : wrap (x ++ y) = x ++ nl :: wrap y := by
  rw [wrap]
  have : ¬ (x ++ y).length < 64 := by rw [List.length_append]; omega
  simp only [this, dite_false]
  have h1 : (x ++ y).take 64 = x := by
    rw [List.take_append_of_le_length (by omega)]; exact List.take_of_length_le (by omega)
  have h2 : (x ++ y).drop 64 = y := by
    rw [List.drop_append_of_le_length (by omega)]
    have : List.drop 64 x = [] := List.drop_of_length_le (by omega)
    simp [this]
  rw [h1, h2]

/-! ### splitting on spaces -/

/-- `strings.Join(parts, " ")` -/
def joinSp : List Bytes → Bytes
  | [] => []
  | [a] => a
  | a :: b :: rest => a ++ sp :: joinSp (b :: rest)

theorem splitSp_ne_nil : ∀ l : Bytes, splitSp l ≠ []
  | [] => by simp [splitSp]
  | c :: cs => by
    unfold splitSp
    split
    · simp
    · split <;> simp

theorem joinSp_splitSp : ∀ l : Bytes, joinSp (splitSp l) = l
  | [] => by simp [splitSp, joinSp]
  | c :: cs => by
    have ih := joinSp_splitSp cs
    unfold splitSp
    split
    · rename_i hc
      have hne := splitSp_ne_nil cs
      cases hs : splitSp cs with
      | nil => exact absurd hs hne
      | cons h t =>
        rw [hs] at ih
        simp only [joinSp, List.nil_append, hc, ih]
    · split
      · rename_i hc h t hs
        rw [hs] at ih
        cases t with
        | nil => simp only [joinSp] at ih ⊢; rw [ih]
        | cons t1 ts => simp only [joinSp, List.cons_append] at ih ⊢; rw [ih]
      · rename_i hc hs
        exact absurd hs (splitSp_ne_nil cs)

theorem splitSp_nosp : ∀ (a : Bytes), sp ∉ a → splitSp a = [a]
  | [], _ => by simp [splitSp]
  | c :: cs, h => by
    simp at h
    have hc : ¬ c = sp := fun e => h.1 e.symm
    unfold splitSp
    simp only [hc, if_false, splitSp_nosp cs h.2]

theorem splitSp_app : ∀ (a rest : Bytes), sp ∉ a → splitSp (a ++ sp :: rest) = a :: splitSp rest
  | [], rest, _ => by simp [splitSp]
  | c :: cs, rest, h => by
    simp at h
    have hc : ¬ c = sp := fun e => h.1 e.symm
    simp only [List.cons_append, splitSp, hc, if_false, splitSp_app cs rest h.2]

theorem splitSp_joinSp : ∀ (ps : List Bytes), ps ≠ [] → (∀ p ∈ ps, sp ∉ p) → splitSp (joinSp ps) = ps
  | [], h, _ => absurd rfl h
  | [a], _, h => by simp only [joinSp]; exact splitSp_nosp a (h a (by simp))
  | a :: b :: rest, _, h => by
    simp only [joinSp]
    rw [splitSp_app a _ (h a (by simp))]
    rw [splitSp_joinSp (b :: rest) (by simp) (fun p hp => h p (by simp [hp]))]

theorem splitSp_parts_nosp : ∀ (l : Bytes) (p : Bytes), p ∈ splitSp l → sp ∉ p
  | [], p, h => by simp [splitSp] at h; subst h; simp
  | c :: cs, p, h => by
    unfold splitSp at h
    split at h
    · simp only [List.mem_cons] at h
      rcases h with h | h
      · subst h; simp
      · exact splitSp_parts_nosp cs p h
    · rename_i hc
      split at h
      · rename_i hd tl hs
        simp only [List.mem_cons] at h
        rcases h with h | h
        · subst h
          have := splitSp_parts_nosp cs hd (by rw [hs]; simp)
          simp; exact ⟨fun e => hc e.symm, this⟩
        · exact splitSp_parts_nosp cs p (by rw [hs]; simp [h])
      · simp only [List.mem_singleton] at h; subst h
        simp; exact fun e => hc e.symm

theorem joinSp_no_nl : ∀ (ps : List Bytes), (∀ p ∈ ps, nl ∉ p) → nl ∉ joinSp ps
  | [], _ => by simp [joinSp]
  | [a], h => by simp only [joinSp]; exact h a (by simp)
  | a :: b :: rest, h => by
    simp only [joinSp, List.mem_append, List.mem_cons, not_or]
    refine ⟨h a (by simp), by decide, joinSp_no_nl (b :: rest) (fun p hp => h p (by simp [hp]))⟩

/-- `"->" ++ " a" ++ " b" …` is the join of `"->" :: a :: b …` -/
theorem prefix_spaced (pre : Bytes) : ∀ (l : List Bytes), pre ++ spaced l = joinSp (pre :: l)
  | [] => by simp [spaced, joinSp]
  | a :: as => by
    simp only [spaced, joinSp]
    have := prefix_spaced a as
    rw [← this]
    simp

/-- valid strings contain neither space nor newline and are non-empty -/
theorem validString_props {s : Bytes} (h : validString s = true) : s ≠ [] ∧ sp ∉ s ∧ nl ∉ s := by
  unfold validString at h
  simp only [Bool.and_eq_true, Bool.not_eq_true', List.all_eq_true, decide_eq_true_eq] at h
  obtain ⟨h1, h2⟩ := h
  refine ⟨by intro e; subst e; simp at h1, ?_, ?_⟩
  · intro hm; have := h2 sp hm; simp [sp] at this
  · intro hm; have := h2 nl hm; simp [nl] at this

end Format
end AgeModel
