/-
  Proofs.StreamReaderTop — per-call and whole-run statements about the Reader.
-/
import Proofs.StreamReader
namespace AgeModel
namespace Stream

/-- termination measure for "reading to the end" -/
def Reader.nu (A : AEAD) (C : Nat) (k : Bytes) (r : Reader) : Nat :=
  (r.denote A C k).1.length + (if r.err = none then r.src.data.length + 1 else 0)

theorem read_spec (A : AEAD) (C L : Nat) (hE : 0 < C + A.T) (k : Bytes) (r : Reader) (n : Nat)
    (hn : 0 < n) (hb : r.Bounded L) :
    match r.read A C L k n with
    | (r', out, none) =>
        r.denote A C k = (out ++ (r'.denote A C k).1, (r'.denote A C k).2) ∧ r'.Bounded L ∧
        r'.nu A C k < r.nu A C k
    | (r', out, some e) => out = [] ∧ r.denote A C k = ([], e) ∧ r'.err = some e ∧ r'.unread = [] := by
  unfold Reader.read
  by_cases hu : r.unread.length > 0
  · simp only [hu, if_true]
    have hdl : (r.unread.drop n).length < r.unread.length := by rw [List.length_drop]; omega
    refine ⟨?_, hb, ?_⟩
    · unfold Reader.denote
      simp only
      cases r.err with
      | some e => simp
      | none => simp only; rw [← List.append_assoc, List.take_append_drop]
    · unfold Reader.nu Reader.denote
      simp only
      cases r.err with
      | some e => simp only; simpa using hdl
      | none => simp only [List.length_append]; simp only [if_true]; omega
  · have hu0 : r.unread = [] := List.eq_nil_of_length_eq_zero (by omega)
    simp only [hu, if_false]
    cases he : r.err with
    | some e =>
      simp only
      exact ⟨by first | rfl | trivial, by unfold Reader.denote; simp [he, hu0], he, hu0⟩
    | none =>
      simp only
      have hn0 : ¬ n = 0 := by omega
      simp only [hn0, if_false]
      have hspec := readChunk_spec A C L hE k r hu0 hb
      generalize hrc : r.readChunk A C L k = res at hspec
      obtain ⟨r1, x⟩ := res
      cases x with
      | error e =>
        simp only at hspec ⊢
        obtain ⟨h1, h2, h3⟩ := hspec
        refine ⟨by first | rfl | trivial, ?_, by first | rfl | trivial, h3⟩
        unfold Reader.denote; simp [he, hu0, h1]
      | ok last =>
        simp only at hspec ⊢
        obtain ⟨hf, hee, hbd, hlt, hnl, hl⟩ := hspec
        cases last with
        | false =>
          simp only [Bool.false_eq_true, if_false]
          have hd := hnl rfl
          have he1 : r1.err = none := by rw [hee, he]
          refine ⟨?_, hbd, ?_⟩
          · unfold Reader.denote
            simp only [he, he1, hu0, List.nil_append, hd]
            rw [← List.append_assoc, List.take_append_drop]
          · unfold Reader.nu Reader.denote
            simp only [he, he1, hu0, List.nil_append, hd, if_true, List.length_append, List.length_drop,
              List.length_take]
            omega
        | true =>
          simp only [if_true]
          have hd := hl rfl
          have he1 : r1.err = none := by rw [hee, he]
          unfold Reader.probe
          simp only
          cases hdat : r1.src.data with
          | nil =>
            simp only
            rw [hdat] at hd
            simp only [List.length_nil, if_true] at hd
            refine ⟨?_, ?_, ?_⟩
            · unfold Reader.denote
              simp only [he, hu0, List.nil_append, hd, hf, List.take_append_drop]
            · unfold Reader.Bounded at hbd ⊢; exact hbd
            · unfold Reader.nu Reader.denote
              simp only [he, hu0, List.nil_append, hd, if_true, List.length_drop]
              simp
              omega
          | cons b rest =>
            simp only
            rw [hdat] at hd
            simp only [List.length_cons, Nat.add_one_ne_zero, if_false] at hd
            refine ⟨?_, ?_, ?_⟩
            · unfold Reader.denote
              simp only [he, hu0, List.nil_append, hd, List.take_append_drop]
            · unfold Reader.Bounded at hbd ⊢; rw [hdat] at hbd; simp only [List.length_cons] at hbd ⊢; omega
            · unfold Reader.nu Reader.denote
              simp only [he, hu0, List.nil_append, hd, if_true, List.length_drop]
              simp
              omega

/-- a failed reader keeps failing with the same error and releases nothing -/
theorem read_sticky (A : AEAD) (C L : Nat) (k : Bytes) (r : Reader) (e : Outcome)
    (he : r.err = some e) (hu : r.unread = []) (n : Nat) :
    r.read A C L k n = (r, [], some e) := by
  unfold Reader.read; simp [he, hu]

theorem drain_spec (A : AEAD) (C L : Nat) (hE : 0 < C + A.T) (k : Bytes) :
    ∀ (sizes : List Nat) (r : Reader), (∀ s ∈ sizes, 0 < s) → r.Bounded L →
    match r.drain A C L k sizes with
    | (r', out, none) =>
        r.denote A C k = (out ++ (r'.denote A C k).1, (r'.denote A C k).2) ∧
        r'.nu A C k + sizes.length ≤ r.nu A C k
    | (r', out, some e) => r.denote A C k = (out, e) ∧ r'.err = some e ∧ r'.unread = [] := by
  intro sizes
  induction sizes with
  | nil => intro r _ _; simp [Reader.drain]
  | cons n ns ih =>
    intro r hpos hb
    unfold Reader.drain
    have hrs := read_spec A C L hE k r n (hpos n (by simp)) hb
    generalize hrd : r.read A C L k n = res at hrs
    obtain ⟨r1, out, e⟩ := res
    cases e with
    | some e =>
      simp only at hrs ⊢
      obtain ⟨h1, h2, h3, h4⟩ := hrs
      subst h1
      exact ⟨h2, h3, h4⟩
    | none =>
      simp only at hrs ⊢
      obtain ⟨h1, h2, h3⟩ := hrs
      have ih' := ih r1 (fun s hs => hpos s (by simp [hs])) h2
      generalize hdr : r1.drain A C L k ns = res2 at ih'
      obtain ⟨r2, out2, e2⟩ := res2
      cases e2 with
      | some e2 =>
        simp only at ih' ⊢
        obtain ⟨g1, g2, g3⟩ := ih'
        refine ⟨?_, g2, g3⟩
        rw [h1, g1]
      | none =>
        simp only at ih' ⊢
        obtain ⟨g1, g2⟩ := ih'
        refine ⟨?_, ?_⟩
        · rw [h1, g1]; simp
        · simp only [List.length_cons]; omega

end Stream
end AgeModel
