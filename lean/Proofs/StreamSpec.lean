/-
  Proofs.StreamSpec — lemmas about the Spec layer of STREAM:
  round trip, uniqueness of the accepted chunking, unfolding equations.
-/
import AgeModel.Laws
namespace AgeModel
namespace Stream

theorem nonce_length (i : Nat) (f : Bool) : (nonce i f).length = 12 := by
  simp [nonce, be_length]

theorem nonce_flag_ne (i : Nat) : nonce i true ≠ nonce i false := by
  intro h
  have := congrArg List.getLast? h
  simp [nonce] at this

/-! ### fuel independence and unfolding of `encFrom` -/

theorem encFrom_fuel (A : AEAD) (C : Nat) (hC : 0 < C) (k : Bytes) :
    ∀ (f : Nat) (i : Nat) (p : Bytes) (f' : Nat), p.length < f → p.length < f' →
      encFrom A C k i p f = encFrom A C k i p f' := by
  intro f
  induction f with
  | zero => intro i p f' h; omega
  | succ f ih =>
    intro i p f' h h'
    match f' with
    | 0 => omega
    | f'+1 =>
      unfold encFrom
      by_cases hle : p.length ≤ C
      · simp only [hle, if_true]
      · simp only [hle, if_false]
        have : (p.drop C).length < f := by rw [List.length_drop]; omega
        have : (p.drop C).length < f' := by rw [List.length_drop]; omega
        rw [ih (i+1) (p.drop C) f' ‹_› ‹_›]

/-- fuel-free form used by the refinement proofs -/
def enc (A : AEAD) (C : Nat) (k : Bytes) (i : Nat) (p : Bytes) : Bytes := encFrom A C k i p (p.length + 1)

theorem encrypt_eq_enc (A : AEAD) (C : Nat) (k p : Bytes) : encrypt A C k p = enc A C k 0 p := rfl

theorem enc_short (A : AEAD) (C : Nat) (k : Bytes) (i : Nat) (p : Bytes) (h : p.length ≤ C) :
    enc A C k i p = A.sealF k (nonce i true) p := by
  unfold enc encFrom; simp [h]

theorem enc_long (A : AEAD) (C : Nat) (hC : 0 < C) (k : Bytes) (i : Nat) (p : Bytes) (h : C < p.length) :
    enc A C k i p = A.sealF k (nonce i false) (p.take C) ++ enc A C k (i+1) (p.drop C) := by
  have hn : ¬ p.length ≤ C := by omega
  unfold enc
  rw [encFrom]
  simp only [hn, if_false]
  congr 1
  apply encFrom_fuel A C hC k
  · rw [List.length_drop]; omega
  · omega

/-- appending a full chunk in front -/
theorem enc_cons_chunk (A : AEAD) (C : Nat) (hC : 0 < C) (k : Bytes) (i : Nat) (a q : Bytes)
    (ha : a.length = C) (hq : q ≠ []) :
    enc A C k i (a ++ q) = A.sealF k (nonce i false) a ++ enc A C k (i+1) q := by
  have hqpos : 0 < q.length := List.length_pos_iff.mpr hq
  rw [enc_long A C hC k i (a ++ q) (by rw [List.length_append]; omega)]
  have h1 : (a ++ q).take C = a := by
    rw [List.take_append_of_le_length (by omega)]; exact List.take_of_length_le (by omega)
  have h2 : (a ++ q).drop C = q := by
    rw [List.drop_append_of_le_length (by omega)]
    have : List.drop C a = [] := List.drop_of_length_le (by omega)
    simp [this]
  rw [h1, h2]

/-! ### round trip -/

theorem roundtrip_aux (A : AEAD) (hA : A.Correct) (hN : A.NonceSep) (C : Nat) (hC : 0 < C) (k : Bytes) :
    ∀ (fuel : Nat) (i : Nat) (p : Bytes) (fuel2 : Nat), p.length < fuel → (i = 0 ∨ p ≠ []) →
      (encFrom A C k i p fuel).length < fuel2 →
      decFrom A C k false i (encFrom A C k i p fuel) fuel2 = (p, .eof) := by
  intro fuel
  induction fuel with
  | zero => intro i p f2 h; omega
  | succ fuel ih =>
    intro i p fuel2 hp hinv hf2
    have hT := hA.T_pos
    match fuel2 with
    | 0 => omega
    | fuel2+1 =>
    unfold encFrom at hf2 ⊢
    by_cases hle : p.length ≤ C
    · simp only [hle, if_true] at hf2 ⊢
      unfold decFrom
      have hl := hA.seal_len k (nonce i true) p
      have h1 : ¬ (A.sealF k (nonce i true) p).length = 0 := by omega
      by_cases hlt : p.length < C
      · have h2 : (A.sealF k (nonce i true) p).length < C + A.T := by omega
        have hi : ¬ (i ≠ 0 ∧ (A.sealF k (nonce i true) p).length = A.T) := by
          intro ⟨hi0, hlen⟩
          have : p.length = 0 := by omega
          have : p = [] := List.eq_nil_of_length_eq_zero this
          cases hinv with
          | inl h => exact hi0 h
          | inr h => exact h this
        simp only [h1, h2, hi, if_false, if_true, hA.open_seal, Bool.false_eq_true]
      · have hpe : p.length = C := by omega
        have h2 : ¬ (A.sealF k (nonce i true) p).length < C + A.T := by omega
        have htake : (A.sealF k (nonce i true) p).take (C + A.T) = A.sealF k (nonce i true) p := by
          apply List.take_of_length_le; omega
        have hdrop : ((A.sealF k (nonce i true) p).drop (C + A.T)).length = 0 := by
          simp; omega
        simp only [h2, if_false, htake,
          hN k _ _ p (nonce_length _ _) (nonce_length _ _) (nonce_flag_ne i), hA.open_seal, hdrop, if_true,
          Bool.false_eq_true]
    · simp only [hle, if_false] at hf2 ⊢
      have hgt : C < p.length := by omega
      have hl := hA.seal_len k (nonce i false) (p.take C)
      have htl : (p.take C).length = C := by rw [List.length_take]; omega
      unfold decFrom
      have h2 : ¬ (A.sealF k (nonce i false) (List.take C p) ++ encFrom A C k (i + 1) (List.drop C p) fuel).length < C + A.T := by
        rw [List.length_append]; omega
      have htake : (A.sealF k (nonce i false) (List.take C p) ++ encFrom A C k (i + 1) (List.drop C p) fuel).take (C + A.T)
          = A.sealF k (nonce i false) (List.take C p) := by
        rw [List.take_append_of_le_length (by omega)]
        apply List.take_of_length_le; omega
      have hdrop : (A.sealF k (nonce i false) (List.take C p) ++ encFrom A C k (i + 1) (List.drop C p) fuel).drop (C + A.T)
          = encFrom A C k (i + 1) (List.drop C p) fuel := by
        rw [List.drop_append_of_le_length (by omega)]
        have : List.drop (C + A.T) (A.sealF k (nonce i false) (List.take C p)) = [] := by
          apply List.drop_of_length_le; omega
        simp [this]
      simp only [h2, if_false, htake, hdrop, hA.open_seal]
      have hdl : (p.drop C).length < fuel := by simp; omega
      have hne : (i + 1 = 0 ∨ p.drop C ≠ []) := by
        right; intro h
        have := congrArg List.length h
        simp at this; omega
      have hlen2 : (encFrom A C k (i + 1) (List.drop C p) fuel).length < fuel2 := by
        simp at hf2; omega
      rw [ih (i+1) (p.drop C) fuel2 hdl hne hlen2]
      simp

theorem stream_roundtrip (A : AEAD) (hA : A.Correct) (hN : A.NonceSep) (C : Nat) (hC : 0 < C) (k p : Bytes) :
    decrypt A C k (encrypt A C k p) = (p, .eof) := by
  unfold decrypt encrypt
  exact roundtrip_aux A hA hN C hC k _ 0 p _ (by omega) (Or.inl rfl) (by omega)

end Stream
end AgeModel
