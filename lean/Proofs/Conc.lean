/-
  Proofs.Conc — lemmas for Props/C20: what a thread can observe is not changed
  by the steps of other threads, provided nobody writes a shared location.
-/
import AgeModel.Conc
namespace AgeModel.Conc

/-- what thread `i` can observe of a configuration: its own program counter and
    read history, the shared locations, and its private locations -/
def Sim (i : Nat) (c c' : Cfg) : Prop :=
  c.rest i = c'.rest i ∧ c.hist i = c'.hist i ∧
  (∀ n, c.store (.shared n) = c'.store (.shared n)) ∧
  (∀ n, c.store (.priv i n) = c'.store (.priv i n))

/-- the hypotheses of the theorem, for the steps still to be executed -/
def Good (c : Cfg) : Prop :=
  (∀ j l f, Step.write l f ∈ c.rest j → ∀ n, l ≠ .shared n) ∧
  (∀ j st, st ∈ c.rest j → ∀ k n, st.loc? = some (.priv k n) → k = j)

theorem Sim.refl (i : Nat) (c : Cfg) : Sim i c c := ⟨rfl, rfl, fun _ => rfl, fun _ => rfl⟩

theorem Sim.trans {i : Nat} {a b c : Cfg} (h1 : Sim i a b) (h2 : Sim i b c) : Sim i a c :=
  ⟨h1.1.trans h2.1, h1.2.1.trans h2.2.1, fun n => (h1.2.2.1 n).trans (h2.2.2.1 n),
   fun n => (h1.2.2.2 n).trans (h2.2.2.2 n)⟩

theorem upd_same {α : Type} (f : Nat → α) (i : Nat) (a : α) : upd f i a i = a := by simp [upd]

theorem upd_other {α : Type} (f : Nat → α) (i j : Nat) (a : α) (h : j ≠ i) : upd f i a j = f j := by
  simp [upd, h]

/-- after a step of thread `j` every thread's remaining program is a suffix of what it was -/
theorem rest_step_subset (c : Cfg) (j k : Nat) (st : Step) (h : st ∈ (stepThread c j).rest k) : st ∈ c.rest k := by
  unfold stepThread at h
  split at h
  · exact h
  all_goals
    rename_i heq
    by_cases hk : k = j
    · subst hk
      simp only [upd_same] at h
      rw [heq]; exact List.mem_cons_of_mem _ h
    · simp only [upd_other _ _ _ _ hk] at h
      exact h

theorem good_step (c : Cfg) (j : Nat) (h : Good c) : Good (stepThread c j) :=
  ⟨fun k l f hm n => h.1 k l f (rest_step_subset c j k _ hm) n,
   fun k st hm k' n hl => h.2 k st (rest_step_subset c j k _ hm) k' n hl⟩

/-- a step of another thread is invisible to thread `i` -/
theorem step_other (c : Cfg) (i j : Nat) (h : Good c) (hne : j ≠ i) : Sim i (stepThread c j) c := by
  have hij : i ≠ j := fun e => hne e.symm
  unfold stepThread
  split
  · exact Sim.refl i c
  · exact ⟨upd_other _ _ _ _ hij, upd_other _ _ _ _ hij, fun _ => rfl, fun _ => rfl⟩
  · rename_i l f r heq
    have hmem : Step.write l f ∈ c.rest j := by rw [heq]; exact List.mem_cons_self
    refine ⟨upd_other _ _ _ _ hij, rfl, fun n => ?_, fun n => ?_⟩
    · have : Loc.shared n ≠ l := fun e => h.1 j l f hmem n e.symm
      simp [setLoc, this]
    · have : Loc.priv i n ≠ l := by
        intro e
        have := h.2 j _ hmem i n (by simp [Step.loc?, e])
        exact hne this.symm
      simp [setLoc, this]
  · exact ⟨upd_other _ _ _ _ hij, rfl, fun _ => rfl, fun _ => rfl⟩

/-- thread `i` takes the same step from two configurations it cannot tell apart -/
theorem step_same (c c' : Cfg) (i : Nat) (hs : Sim i c c')
    (hsc : ∀ st, st ∈ c.rest i → ∀ k n, st.loc? = some (.priv k n) → k = i) :
    Sim i (stepThread c i) (stepThread c' i) := by
  obtain ⟨hr, hh, hsh, hpr⟩ := hs
  unfold stepThread
  rw [← hr]
  split
  · exact ⟨hr, hh, hsh, hpr⟩
  · rename_i l r heq
    have hl : c.store l = c'.store l := by
      cases l with
      | shared n => exact hsh n
      | priv k n =>
        have : k = i := hsc _ (by rw [heq]; exact List.mem_cons_self) k n rfl
        subst this; exact hpr n
    refine ⟨by simp [upd_same], by simp [upd_same, hh, hl], hsh, hpr⟩
  · rename_i l f r heq
    refine ⟨by simp [upd_same], hh, fun n => ?_, fun n => ?_⟩
    · simp only [setLoc, hh]; split <;> first | rfl | exact hsh n
    · simp only [setLoc, hh]; split <;> first | rfl | exact hpr n
  · exact ⟨by simp [upd_same], hh, hsh, hpr⟩

/-- the simulation: running any schedule, thread `i` observes what it observes when
    only its own steps are run -/
theorem run_sim (i : Nat) (σ : List Nat) : ∀ (c c' : Cfg), Good c → Sim i c c' →
    Sim i (run c σ) (run c' (List.replicate (σ.count i) i)) := by
  induction σ with
  | nil => intro c c' _ hs; simpa [run] using hs
  | cons j σ ih =>
    intro c c' hg hs
    by_cases hj : j = i
    · subst hj
      simp only [List.count_cons_self, List.replicate_succ, run]
      exact ih _ _ (good_step c j hg) (step_same c c' j hs (fun st hm k n hl => hg.2 j st hm k n hl))
    · have hc : (j :: σ).count i = σ.count i := by
        rw [List.count_cons_of_ne]; exact hj
      rw [hc]
      simp only [run]
      exact ih _ _ (good_step c j hg) (Sim.trans (step_other c i j hg hj) hs)

/-- shared locations are never modified -/
theorem run_shared (σ : List Nat) : ∀ (c : Cfg), Good c → ∀ n, (run c σ).store (.shared n) = c.store (.shared n) := by
  induction σ with
  | nil => intro c _ n; rfl
  | cons j σ ih =>
    intro c hg n
    simp only [run]
    rw [ih _ (good_step c j hg) n]
    unfold stepThread
    split
    · rfl
    · rfl
    · rename_i l f r heq
      have : Loc.shared n ≠ l := fun e => hg.1 j l f (by rw [heq]; exact List.mem_cons_self) n e.symm
      simp [setLoc, this]
    · rfl

end AgeModel.Conc
