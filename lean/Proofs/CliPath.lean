/-
  Lemmas about the lexical path model of AgeModel.Cli: splitting, the
  normalising fold, spellings of one path, idempotence of `clean`, and the
  relation between kernel path resolution (`resolve`) and `absPath`.
-/
import AgeModel.Cli
namespace AgeModel
namespace Cli

theorem splitSlash_ne_nil (p : Bytes) : splitSlash p ≠ [] := by
  cases p with
  | nil => simp [splitSlash]
  | cons c rest =>
    simp only [splitSlash]
    split
    · simp
    · split <;> simp

/-- splitting distributes over a separator -/
theorem splitSlash_append (a b : Bytes) : splitSlash (a ++ slash :: b) = splitSlash a ++ splitSlash b := by
  induction a with
  | nil => simp [splitSlash]
  | cons c a ih =>
    simp only [List.cons_append, splitSlash]
    by_cases hc : c = slash
    · simp [hc, ih]
    · simp only [hc, if_false, ih]
      cases hs : splitSlash a with
      | nil => exact absurd hs (splitSlash_ne_nil a)
      | cons x xs => simp

theorem splitSlash_noslash (c : Bytes) (h : slash ∉ c) : splitSlash c = [c] := by
  induction c with
  | nil => rfl
  | cons x xs ih =>
    have hx : x ≠ slash := fun e => h (by simp [e])
    have hxs : slash ∉ xs := fun e => h (by simp [e])
    simp [splitSlash, hx, ih hxs]

theorem splitSlash_mem_noslash (p : Bytes) : ∀ c ∈ splitSlash p, slash ∉ c := by
  induction p with
  | nil => intro c hc; simp [splitSlash] at hc; simp [hc]
  | cons x xs ih =>
    intro c hc
    simp only [splitSlash] at hc
    by_cases hx : x = slash
    · simp only [hx, if_true, List.mem_cons] at hc
      cases hc with
      | inl h => simp [h]
      | inr h => exact ih c h
    · simp only [hx, if_false] at hc
      cases hs : splitSlash xs with
      | nil => exact absurd hs (splitSlash_ne_nil xs)
      | cons y ys =>
        rw [hs] at hc ih
        simp only [List.mem_cons] at hc
        cases hc with
        | inl h =>
          subst h
          intro hm
          simp only [List.mem_cons] at hm
          cases hm with
          | inl h => exact hx h.symm
          | inr h => exact ih y (by simp) h
        | inr h => exact ih c (by simp [h])

/-! ### the normalising fold -/

theorem stepRooted_empty (st : List Bytes) : stepRooted st [] = st := by simp [stepRooted]
theorem stepRooted_dot (st : List Bytes) : stepRooted st dotB = st := by simp [stepRooted]
theorem stepRooted_dotdot (st : List Bytes) : stepRooted st dotdot = st.tail := by
  simp [stepRooted, dotdot, dotB]
theorem stepRooted_normal (st : List Bytes) (c : Bytes) (h : NormalComp c) : stepRooted st c = c :: st := by
  simp [stepRooted, h.1, h.2.1, h.2.2.1]

theorem rooted_append (a b : Bytes) (h : a ≠ []) : rooted (a ++ b) = rooted a := by
  cases a with
  | nil => exact absurd rfl h
  | cons c a => rfl

def ValidStack (st : List Bytes) : Prop := ∀ c ∈ st, NormalComp c

theorem stepRooted_valid (st : List Bytes) (c : Bytes) (hst : ValidStack st) (hc : slash ∉ c) :
    ValidStack (stepRooted st c) := by
  unfold stepRooted
  split
  · exact hst
  · split
    · intro x hx; exact hst x (List.mem_of_mem_tail hx)
    · rename_i h1 h2
      intro x hx
      simp only [List.mem_cons] at hx
      cases hx with
      | inl h =>
        subst h
        exact ⟨fun e => h1 (Or.inl e), fun e => h1 (Or.inr e), h2, hc⟩
      | inr h => exact hst x h

theorem foldl_stepRooted_valid (cs : List Bytes) (st : List Bytes) (hst : ValidStack st)
    (hcs : ∀ c ∈ cs, slash ∉ c) : ValidStack (cs.foldl stepRooted st) := by
  induction cs generalizing st with
  | nil => exact hst
  | cons c cs ih =>
    simp only [List.foldl_cons]
    exact ih _ (stepRooted_valid st c hst (hcs c (by simp))) (fun x hx => hcs x (by simp [hx]))

theorem ValidStack_reverse (t : List Bytes) : ValidStack t.reverse ↔ ValidPath t := by
  simp [ValidStack, ValidPath]

/-- every result of `absPath` is a valid cleaned path -/
theorem absPath_valid (cwd : Path) (p : Bytes) (hcwd : ValidPath cwd) : ValidPath (absPath cwd p) := by
  unfold absPath
  rw [← ValidStack_reverse, List.reverse_reverse]
  apply foldl_stepRooted_valid
  · split
    · intro c hc; simp at hc
    · exact (ValidStack_reverse cwd).2 hcwd
  · exact splitSlash_mem_noslash p

/-- normalising the string form of a valid path pushes its components -/
theorem foldl_join (t : Path) (hv : ValidPath t) (st : List Bytes) :
    (splitSlash (joinSlash t)).foldl stepRooted st = t.reverse ++ st := by
  induction t generalizing st with
  | nil => simp [joinSlash, splitSlash, stepRooted]
  | cons c cs ih =>
    have hc : NormalComp c := hv c (by simp)
    have hcs : ValidPath cs := fun x hx => hv x (by simp [hx])
    cases cs with
    | nil =>
      simp only [joinSlash, splitSlash_noslash c hc.2.2.2, List.foldl_cons, List.foldl_nil,
        stepRooted_normal st c hc]
      simp
    | cons c2 cs =>
      simp only [joinSlash, splitSlash_append, splitSlash_noslash c hc.2.2.2, List.cons_append,
        List.nil_append, List.foldl_cons, stepRooted_normal st c hc]
      rw [ih hcs]
      simp

theorem render_rooted (t : Path) : rooted (render t) = true := by simp [render, rooted]

theorem splitSlash_render (t : Path) : splitSlash (render t) = [] :: splitSlash (joinSlash t) := by
  simp [render, splitSlash]

/-- `absPath` of an already absolute, cleaned path is that path -/
theorem absPath_render (cwd t : Path) (hv : ValidPath t) : absPath cwd (render t) = t := by
  unfold absPath
  rw [render_rooted, splitSlash_render]
  simp only [if_true, List.foldl_cons, stepRooted_empty]
  rw [foldl_join t hv]
  simp

/-- the string form determines the path: Go compares the strings, the model the component lists -/
theorem render_injective (t u : Path) (ht : ValidPath t) (hu : ValidPath u) (h : render t = render u) : t = u := by
  have h1 := absPath_render [] t ht
  have h2 := absPath_render [] u hu
  rw [h] at h1
  exact h1.symm.trans h2

theorem abs_string_eq_iff (cwd : Path) (p q : Bytes) (hcwd : ValidPath cwd) :
    render (absPath cwd p) = render (absPath cwd q) ↔ absPath cwd p = absPath cwd q :=
  ⟨render_injective _ _ (absPath_valid cwd p hcwd) (absPath_valid cwd q hcwd), fun h => by rw [h]⟩

/-- `filepath.Abs` is idempotent (through the string form) -/
theorem absPath_idempotent (cwd : Path) (p : Bytes) (hcwd : ValidPath cwd) :
    absPath cwd (render (absPath cwd p)) = absPath cwd p :=
  absPath_render cwd _ (absPath_valid cwd p hcwd)

/-- `Clean(Clean(p)) = Clean(p)` for rooted paths (the only ones age compares) -/
theorem clean_idempotent_rooted (p : Bytes) (h : rooted p = true) : clean (clean p) = clean p := by
  have hc : clean p = render (absPath [] p) := by simp [clean, absPath, h]
  rw [hc]
  have hv : ValidPath (absPath [] p) := absPath_valid [] p (by intro c hc; simp at hc)
  have : clean (render (absPath [] p)) = render (absPath [] (render (absPath [] p))) := by
    simp [clean, absPath, render_rooted]
  rw [this, absPath_render [] _ hv]

/-! ### `Clean` of relative paths -/

/-- the shape of a cleaned relative path, as a reversed stack: normal
    components on top of a run of `..` -/
def RelStack (st : List Bytes) : Prop :=
  ∃ ns k, st = ns ++ List.replicate k dotdot ∧ ∀ c ∈ ns, NormalComp c

theorem stepRel_relStack (st : List Bytes) (c : Bytes) (hst : RelStack st) (hc : slash ∉ c) :
    RelStack (stepRel st c) := by
  obtain ⟨ns, k, rfl, hns⟩ := hst
  unfold stepRel
  split
  · exact ⟨ns, k, rfl, hns⟩
  · rename_i h1
    split
    · cases ns with
      | nil =>
        cases k with
        | zero => exact ⟨[], 1, by simp [List.replicate], by simp⟩
        | succ k =>
          simp only [List.nil_append, List.replicate_succ, if_true]
          exact ⟨[], k + 2, by simp [List.replicate_succ], by simp⟩
      | cons n ns =>
        have hn : n ≠ dotdot := (hns n (by simp)).2.2.1
        simp only [List.cons_append, hn, if_false]
        exact ⟨ns, k, rfl, fun x hx => hns x (by simp [hx])⟩
    · rename_i h2
      refine ⟨c :: ns, k, by simp, ?_⟩
      intro x hx
      simp only [List.mem_cons] at hx
      cases hx with
      | inl h => subst h; exact ⟨fun e => h1 (Or.inl e), fun e => h1 (Or.inr e), h2, hc⟩
      | inr h => exact hns x h

theorem foldl_stepRel_relStack (cs st : List Bytes) (hst : RelStack st) (hcs : ∀ c ∈ cs, slash ∉ c) :
    RelStack (cs.foldl stepRel st) := by
  induction cs generalizing st with
  | nil => exact hst
  | cons c cs ih =>
    simp only [List.foldl_cons]
    exact ih _ (stepRel_relStack st c hst (hcs c (by simp))) (fun x hx => hcs x (by simp [hx]))

theorem split_join (t : List Bytes) (h : ∀ c ∈ t, slash ∉ c) (hne : t ≠ []) : splitSlash (joinSlash t) = t := by
  induction t with
  | nil => exact absurd rfl hne
  | cons c cs ih =>
    have hc := h c (by simp)
    cases cs with
    | nil => simp [joinSlash, splitSlash_noslash c hc]
    | cons c2 cs =>
      simp only [joinSlash, splitSlash_append, splitSlash_noslash c hc]
      rw [ih (fun x hx => h x (by simp [hx])) (by simp)]
      simp

theorem foldl_stepRel_dotdots (k j : Nat) :
    (List.replicate k dotdot).foldl stepRel (List.replicate j dotdot) = List.replicate (j + k) dotdot := by
  induction k generalizing j with
  | zero => simp
  | succ k ih =>
    simp only [List.replicate_succ, List.foldl_cons]
    have : stepRel (List.replicate j dotdot) dotdot = List.replicate (j + 1) dotdot := by
      cases j with
      | zero => simp [stepRel, dotdot, dotB]
      | succ j => simp [stepRel, dotdot, dotB, List.replicate_succ]
    rw [this, ih]
    congr 1
    omega

theorem foldl_stepRel_normals (ms st : List Bytes) (h : ∀ c ∈ ms, NormalComp c) :
    ms.foldl stepRel st = ms.reverse ++ st := by
  induction ms generalizing st with
  | nil => simp
  | cons m ms ih =>
    have hm := h m (by simp)
    have : stepRel st m = m :: st := by simp [stepRel, hm.1, hm.2.1, hm.2.2.1]
    simp only [List.foldl_cons, this]
    rw [ih _ (fun x hx => h x (by simp [hx]))]
    simp

theorem joinSlash_head (t : List Bytes) (c : Bytes) (x : UInt8) (xs : Bytes) (h : c = x :: xs) :
    ∃ ys, joinSlash (c :: t) = x :: ys := by
  subst h
  cases t with
  | nil => exact ⟨xs, rfl⟩
  | cons c2 cs => exact ⟨_, rfl⟩

/-- `Clean(Clean(p)) = Clean(p)` for every path -/
theorem clean_idempotent (p : Bytes) : clean (clean p) = clean p := by
  by_cases hr : rooted p = true
  · exact clean_idempotent_rooted p hr
  · have hr' : rooted p = false := by simpa using hr
    have hrs : RelStack ((splitSlash p).foldl stepRel []) :=
      foldl_stepRel_relStack _ [] ⟨[], 0, by simp, by simp⟩ (splitSlash_mem_noslash p)
    obtain ⟨ns, k, hst, hns⟩ := hrs
    have hcp : clean p = (if joinSlash ((splitSlash p).foldl stepRel []).reverse = [] then dotB
        else joinSlash ((splitSlash p).foldl stepRel []).reverse) := by simp [clean, hr']
    rw [hst] at hcp
    -- the cleaned components, outermost first
    have ht : (ns ++ List.replicate k dotdot).reverse = List.replicate k dotdot ++ ns.reverse := by simp
    rw [ht] at hcp
    by_cases hemp : List.replicate k dotdot ++ ns.reverse = []
    · -- the result is "."
      rw [hemp] at hcp
      simp only [joinSlash, if_true] at hcp
      rw [hcp]
      simp [clean, rooted, dotB, dot, slash, splitSlash, stepRel, joinSlash]
    · have hall : ∀ c ∈ List.replicate k dotdot ++ ns.reverse, slash ∉ c ∧ c ≠ [] := by
        intro c hc
        simp only [List.mem_append, List.mem_replicate, List.mem_reverse] at hc
        cases hc with
        | inl h => rw [h.2]; simp [dotdot, dot, slash]
        | inr h => exact ⟨(hns c h).2.2.2, (hns c h).1⟩
      -- its string form is non-empty and not rooted
      obtain ⟨c0, t0, ht0⟩ : ∃ c0 t0, List.replicate k dotdot ++ ns.reverse = c0 :: t0 := by
        cases hl : List.replicate k dotdot ++ ns.reverse with
        | nil => exact absurd hl hemp
        | cons a b => exact ⟨a, b, rfl⟩
      have hc0 := hall c0 (by rw [ht0]; simp)
      obtain ⟨x, xs, hx⟩ : ∃ x xs, c0 = x :: xs := by
        cases c0 with
        | nil => exact absurd rfl hc0.2
        | cons x xs => exact ⟨x, xs, rfl⟩
      have hxs : x ≠ slash := fun e => hc0.1 (by rw [hx, e]; simp)
      obtain ⟨ys, hys⟩ := joinSlash_head t0 c0 x xs hx
      have hne : joinSlash (List.replicate k dotdot ++ ns.reverse) ≠ [] := by rw [ht0, hys]; simp
      rw [if_neg hne] at hcp
      rw [hcp]
      have hroot : rooted (joinSlash (List.replicate k dotdot ++ ns.reverse)) = false := by
        rw [ht0, hys]; simp [rooted, hxs]
      have hsj := split_join (List.replicate k dotdot ++ ns.reverse) (fun c hc => (hall c hc).1) hemp
      have hfold : (List.replicate k dotdot ++ ns.reverse).foldl stepRel [] = ns ++ List.replicate k dotdot := by
        rw [List.foldl_append]
        have := foldl_stepRel_dotdots k 0
        simp only [List.replicate_zero, Nat.zero_add] at this
        rw [this, foldl_stepRel_normals _ _ (fun c hc => hns c (by simpa using hc))]
        simp
      simp only [clean, hroot, Bool.false_eq_true, if_false, hsj, hfold, ht, if_neg hne]

/-! ### spellings of one path -/

theorem foldl_stepRooted_append (a b : List Bytes) (st : List Bytes) :
    (a ++ b).foldl stepRooted st = b.foldl stepRooted (a.foldl stepRooted st) := List.foldl_append

/-- `./p` -/
theorem abs_dot_slash (cwd : Path) (p : Bytes) (h : rooted p = false) :
    absPath cwd (dotB ++ slash :: p) = absPath cwd p := by
  unfold absPath
  have hr : rooted (dotB ++ slash :: p) = false := by simp [dotB, rooted, dot, slash]
  rw [hr, h, splitSlash_append, foldl_stepRooted_append]
  have : splitSlash dotB = [dotB] := splitSlash_noslash dotB (by simp [dotB, dot, slash])
  simp [this, stepRooted_dot]

/-- `p/.` -/
theorem abs_slash_dot (cwd : Path) (p : Bytes) (h : p ≠ []) :
    absPath cwd (p ++ slash :: dotB) = absPath cwd p := by
  unfold absPath
  rw [rooted_append p _ h, splitSlash_append, foldl_stepRooted_append]
  have : splitSlash dotB = [dotB] := splitSlash_noslash dotB (by simp [dotB, dot, slash])
  simp [this, stepRooted_dot]

/-- `p/` -/
theorem abs_trailing_slash (cwd : Path) (p : Bytes) (h : p ≠ []) :
    absPath cwd (p ++ [slash]) = absPath cwd p := by
  unfold absPath
  rw [rooted_append p _ h, splitSlash_append, foldl_stepRooted_append]
  simp [splitSlash, stepRooted_empty]

/-- `a//b` -/
theorem abs_double_slash (cwd : Path) (a b : Bytes) :
    absPath cwd (a ++ slash :: slash :: b) = absPath cwd (a ++ slash :: b) := by
  unfold absPath
  have hr : rooted (a ++ slash :: slash :: b) = rooted (a ++ slash :: b) := by
    cases a <;> rfl
  rw [hr, splitSlash_append, splitSlash_append, foldl_stepRooted_append, foldl_stepRooted_append]
  simp [splitSlash, stepRooted_empty]

/-- `d/../p` for a directory name `d` -/
theorem abs_down_up (cwd : Path) (d p : Bytes) (hd : NormalComp d) (h : rooted p = false) :
    absPath cwd (d ++ slash :: (dotdot ++ slash :: p)) = absPath cwd p := by
  unfold absPath
  have hr : rooted (d ++ slash :: (dotdot ++ slash :: p)) = false := by
    cases d with
    | nil => exact absurd rfl hd.1
    | cons x xs =>
      have : x ≠ slash := fun e => hd.2.2.2 (by simp [e])
      simp [rooted, this]
  rw [hr, h, splitSlash_append, splitSlash_append, foldl_stepRooted_append, foldl_stepRooted_append,
    splitSlash_noslash d hd.2.2.2]
  have : splitSlash dotdot = [dotdot] := splitSlash_noslash dotdot (by simp [dotdot, dot, slash])
  simp [this, stepRooted_normal _ d hd, stepRooted_dotdot]

/-- the absolute spelling `cwd/p` -/
theorem abs_absolute (cwd : Path) (p : Bytes) (hcwd : ValidPath cwd) (h : rooted p = false) :
    absPath cwd (render cwd ++ slash :: p) = absPath cwd p := by
  unfold absPath
  have hr : rooted (render cwd ++ slash :: p) = true := by simp [render, rooted]
  rw [hr, h, splitSlash_append, foldl_stepRooted_append, splitSlash_render]
  simp only [if_true, List.foldl_cons, stepRooted_empty, Bool.false_eq_true, if_false]
  rw [foldl_join cwd hcwd]
  simp

/-! ### kernel resolution agrees with the lexical form whenever it succeeds -/

theorem walk_eq_foldl (w : World) (cs st r : List Bytes) (h : walk w st cs = some r) :
    r = cs.foldl stepRooted st := by
  induction cs generalizing st with
  | nil => simp [walk] at h; simp [h]
  | cons c cs ih =>
    simp only [walk] at h
    split at h
    · simpa using ih _ h
    · simp at h

theorem resolve_eq_abs (w : World) (p : Bytes) (t : Path) (h : resolve w p = some t) :
    t = absPath w.cwd p := by
  unfold resolve at h
  split at h
  · simp at h
  · simp only [Option.map_eq_some_iff] at h
    obtain ⟨r, hr, hrt⟩ := h
    have := walk_eq_foldl w _ _ _ hr
    rw [← hrt, this]
    rfl

end Cli
end AgeModel
