/-
  Proofs.GoTieScrypt — the passphrase identity's guard, as it stands in the source.

  `age.multiUnwrap`, `(*ScryptIdentity).unwrap` and `(*ScryptIdentity).Unwrap` are
  TRANSLATED from scrypt.go / age.go on every run (AgeModel/Extracted/Funcs.lean).
  Their callees outside the translated fragment — `format.DecodeString`, `scrypt.Key`,
  `aeadDecrypt`, `errors.Is` — are PARAMETERS of the translated definitions. The
  theorems say: whenever those parameters behave as the model's primitives do (explicit
  hypotheses), the translated functions answer what the model of AgeModel/Recipients.lean
  answers (`unwrapScrypt`, `multiUnwrap`, `Identity.unwrapLog (.scrypt …)`), for EVERY
  stanza list, passphrase and configured maximum; and — the part of C10/C14 that is about
  WORK — whenever the model derives no key (its key-derivation log is empty), the
  translated code returns its error WITHOUT EVER CALLING `scrypt.Key`: handed a
  `scrypt.Key` that faults when called, it still returns normally.
-/
import AgeModel.GoSem
import AgeModel.Recipients
import AgeModel.Extracted.Funcs
import Proofs.GoTieUnwrap
namespace AgeModel
namespace GoTie
open Extracted

/-! ## helpers: the work-factor syntax -/

theorem reItems_pat : Go.reItems 13 [91, 49, 45, 57, 93, 91, 48, 45, 57, 93, 42] = some [⟨[(49,57)],false⟩, ⟨[(48,57)],true⟩] := by
  rfl

theorem star_digits (s : List UInt8) : Go.reMatchHere true [⟨[(48,57)],true⟩] s = s.all Go.isDigit := by
  induction s with
  | nil => simp [Go.reMatchHere]
  | cons c s ih =>
    rw [Go.reMatchHere]
    simp [Go.reMatchHere, ih, Go.ReItem.has, Go.isDigit]

theorem regexp_wf (w : List UInt8) : Go.regexp_MatchString [94, 91, 49, 45, 57, 93, 91, 48, 45, 57, 93, 42, 36] w =
    match w with
    | [] => false
    | d :: ds => (decide (49 ≤ d) && decide (d ≤ 57)) && ds.all Go.isDigit := by
  unfold Go.regexp_MatchString
  have h1 : ([91, 49, 45, 57, 93, 91, 48, 45, 57, 93, 42, 36] : List UInt8).getLast? == some 36 := by decide
  simp only [h1, if_true]
  have h2 : ([91, 49, 45, 57, 93, 91, 48, 45, 57, 93, 42, 36] : List UInt8).dropLast = [91, 49, 45, 57, 93, 91, 48, 45, 57, 93, 42] := by decide
  have h3 : ([91, 49, 45, 57, 93, 91, 48, 45, 57, 93, 42, 36] : List UInt8).length + 1 = 13 := by decide
  rw [h2, h3, reItems_pat]
  show Go.reMatchHere true [⟨[(49,57)],false⟩, ⟨[(48,57)],true⟩] w = _
  cases w with
  | nil => simp [Go.reMatchHere]
  | cons d ds =>
    rw [Go.reMatchHere.eq_def]
    simp [star_digits, Go.ReItem.has]

theorem foldl_ge (ds : List UInt8) (acc : Nat) :
    acc ≤ ds.foldl (fun acc c => acc * 10 + (c.toNat - 48)) acc := by
  induction ds generalizing acc with
  | nil => simp
  | cons c cs ih =>
    simp only [List.foldl_cons]
    exact Nat.le_trans (by omega) (ih _)

theorem all_digit_eq (ds : List UInt8) :
    ds.all (fun c => decide (48 ≤ c.toNat) && decide (c.toNat ≤ 57)) = ds.all Go.isDigit := by
  congr 1

/-- the model's work-factor parser, from the regexp and the decimal value -/
theorem parseWorkFactor_eq (w : List UInt8) :
    parseWorkFactor w =
      if Go.regexp_MatchString [94, 91, 49, 45, 57, 93, 91, 48, 45, 57, 93, 42, 36] w = true then
        (if Go.digitsVal w < 2 ^ 63 then some (Go.digitsVal w) else none)
      else none := by
  rw [regexp_wf]
  cases w with
  | nil => simp [parseWorkFactor]
  | cons d ds =>
    simp only [parseWorkFactor, all_digit_eq, Go.digitsVal]
    simp [UInt8.le_iff_toNat_le, and_assoc]

theorem atoi_of_match (w : List UInt8)
    (h : Go.regexp_MatchString [94, 91, 49, 45, 57, 93, 91, 48, 45, 57, 93, 42, 36] w = true) :
    1 ≤ Go.digitsVal w ∧
    Go.strconv_Atoi w = if Go.digitsVal w < 2 ^ 63 then (Int.ofNat (Go.digitsVal w), none)
      else (9223372036854775807, some ⟨"strconv.Atoi", 1, []⟩) := by
  rw [regexp_wf] at h
  cases w with
  | nil => simp at h
  | cons d ds =>
    simp only [Bool.and_eq_true, decide_eq_true_eq, UInt8.le_iff_toNat_le] at h
    obtain ⟨⟨h1, h2⟩, h3⟩ := h
    have hd1 : d ≠ 43 := by intro h; subst h; revert h1; decide
    have hd2 : d ≠ 45 := by intro h; subst h; revert h1; decide
    have hall : (d :: ds).all Go.isDigit = true := by
      simp only [List.all_cons, h3, Bool.and_true, Go.isDigit, UInt8.le_iff_toNat_le, Bool.and_eq_true, decide_eq_true_eq]
      constructor
      · have : (48 : UInt8).toNat = 48 := rfl
        have : (49 : UInt8).toNat = 49 := rfl
        omega
      · exact h2
    have hge : 1 ≤ Go.digitsVal (d :: ds) := by
      have := foldl_ge ds (0 * 10 + (d.toNat - 48))
      have e : (49 : UInt8).toNat = 49 := rfl
      simp only [Go.digitsVal, List.foldl_cons]
      omega
    refine ⟨hge, ?_⟩
    have e1 : (some d == some (43:UInt8)) = false := by simp [hd1]
    have e2 : (some d == some (45:UInt8)) = false := by simp [hd2]
    unfold Go.strconv_Atoi
    simp only [List.head?_cons, e1, e2, Bool.false_eq_true, if_false, hall, List.isEmpty_cons, Bool.not_true, Bool.or_self]
    generalize Go.digitsVal (d :: ds) = v
    simp only [Int.ofNat_eq_natCast]
    by_cases hv : v < 2 ^ 63
    · rw [if_neg (by omega), if_neg (by omega), if_pos hv]
    · rw [if_pos (by omega), if_neg hv]
/-! ## (*ScryptIdentity).unwrap -/

/-- the hypotheses that tie the abstract callees to the model's primitives `P` -/
structure ScryptEnv (P : Prims) where
  D : Bytes → Go.M (Bytes × Option Go.Err)
  K : Bytes → Bytes → Int → Int → Int → Int → Go.M (Bytes × Option Go.Err)
  A : Bytes → Int → Bytes → Go.M (Bytes × Option Go.Err)
  eD : Go.Err
  eA : Go.Err
  hD : ∀ a, D a = .ok (match Format.decodeString a with
                        | some b => (b, none)
                        | none => ([], some eD))
  hK : ∀ pw salt (logN : Nat), K pw salt ((2 : Int) ^ logN) 8 1 32 = .ok (P.scrypt pw salt logN, none)
  hA : ∀ k body, A k 16 body = .ok (match aeadDecryptSized P k 16 body with
                        | .key fk => (fk, none)
                        | .fatal => ([], age_errIncorrectCiphertextSize)
                        | .incorrect => ([], some eA))
  hne : some eA ≠ age_errIncorrectCiphertextSize

theorem ok_bind {α β : Type} (a : α) (f : α → Go.M β) : (Except.ok a : Go.M α) >>= f = f a := rfl

def siteErr (k : Nat) : Bytes × Option Go.Err := ([], some ⟨"age.(*ScryptIdentity).unwrap", k, []⟩)

/-- the part of `unwrap` after the `scrypt.Key` call, as a function of its answer -/
def afterKey (A : Bytes → Int → Bytes → Go.M (Bytes × Option Go.Err)) (body : Bytes)
    (t : Bytes × Option Go.Err) : Go.M (Bytes × Option Go.Err) :=
  if (t.2 != none) = true then pure (siteErr 7)
  else do
    let t4 ← A t.1 16 body
    if (t4.2 == age_errIncorrectCiphertextSize) = true then pure (siteErr 8)
    else if (t4.2 != none) = true then pure ([], age_ErrIncorrectIdentity)
    else pure (t4.1, none)

/-- which of the two work-factor error sites answers -/
def wfSite (w : Bytes) : Nat :=
  if Go.regexp_MatchString [94, 91, 49, 45, 57, 93, 91, 48, 45, 57, 93, 42, 36] w = true then 4 else 3

/-- the translated `unwrap` in closed form, for ANY `scrypt.Key` and `aeadDecrypt` -/
theorem unwrap_closed (D : Bytes → Go.M (Bytes × Option Go.Err)) (eD : Go.Err)
    (hD : ∀ a, D a = .ok (match Format.decodeString a with
                        | some b => (b, none)
                        | none => ([], some eD)))
    (K : Bytes → Bytes → Int → Int → Int → Int → Go.M (Bytes × Option Go.Err))
    (A : Bytes → Int → Bytes → Go.M (Bytes × Option Go.Err))
    (pw : Bytes) (maxWF : Nat) (s : Format.Stanza) :
    age_ScryptIdentity_unwrap D K A ⟨pw, Int.ofNat maxWF⟩ (toGoStanza s) =
      if s.type ≠ tScrypt then .ok ([], age_ErrIncorrectIdentity)
      else match s.args with
        | [a, w] =>
          match Format.decodeString a with
          | none => .ok (siteErr 1)
          | some salt =>
            if salt.length ≠ scryptSaltSize then .ok (siteErr 2)
            else match parseWorkFactor w with
              | none => .ok (siteErr (wfSite w))
              | some logN =>
                if logN > maxWF then .ok (siteErr 5)
                else K pw (scryptLabel ++ salt) ((2 : Int) ^ logN) 8 1 32 >>= afterKey A s.body
        | _ => .ok (siteErr 0) := by
  obtain ⟨ty, args, body⟩ := s
  unfold age_ScryptIdentity_unwrap
  simp only [toGoStanza]
  by_cases ht : ty = tScrypt
  · subst ht
    have hb : (tScrypt != [115, 99, 114, 121, 112, 116]) = false := by decide
    simp only [hb, Bool.false_eq_true, if_false, ne_eq, not_true_eq_false]
    rcases args with _ | ⟨a, _ | ⟨w, _ | ⟨x, rest⟩⟩⟩
    · have hl : (Go.len ([] : List Bytes) != 2) = true := by decide
      simp only [hl, if_true]; rfl
    · have hl : (Go.len [a] != 2) = true := rfl
      simp only [hl, if_true]; rfl
    · have hl : (Go.len [a, w] != 2) = false := rfl
      have h0 : Go.idx [a, w] 0 = .ok a := rfl
      have h1 : Go.idx [a, w] 1 = .ok w := rfl
      simp only [hl, Bool.false_eq_true, if_false, h0, h1, hD, ok_bind]
      cases hdec : Format.decodeString a with
      | none =>
        have hn : (some eD != (none : Option Go.Err)) = true := rfl
        simp only [hn, if_true]; rfl
      | some salt =>
        have hn : ((none : Option Go.Err) != none) = false := rfl
        simp only [hn, Bool.false_eq_true, if_false]
        by_cases hs : salt.length = 16
        · have hl2 : (Go.len salt != 16) = false := by simp [Go.len, hs]
          simp only [hl2, Bool.false_eq_true, if_false, scryptSaltSize, hs, not_true_eq_false]
          rw [parseWorkFactor_eq]
          cases hm : Go.regexp_MatchString [94, 91, 49, 45, 57, 93, 91, 48, 45, 57, 93, 42, 36] w with
          | false =>
            simp only [Bool.not_false, if_true, Bool.false_eq_true, if_false, wfSite, hm]; rfl
          | true =>
            obtain ⟨hge, hatoi⟩ := atoi_of_match w hm
            simp only [Bool.not_true, Bool.false_eq_true, if_false, if_true]
            by_cases hv : Go.digitsVal w < 2 ^ 63
            · rw [if_pos hv] at hatoi
              simp only [hatoi, hn, Bool.false_eq_true, if_false, if_pos hv]
              generalize Go.digitsVal w = v at hge
              by_cases hmax : v > maxWF
              · have hd : decide (Int.ofNat v > Int.ofNat maxWF) = true := by
                  simp only [Int.ofNat_eq_natCast, decide_eq_true_eq]; omega
                simp only [hd, if_true, if_pos hmax]; rfl
              · have hd : decide (Int.ofNat v > Int.ofNat maxWF) = false := by
                  simp only [Int.ofNat_eq_natCast, decide_eq_false_iff_not]; omega
                have hd0 : decide (Int.ofNat v ≤ 0) = false := by
                  simp only [Int.ofNat_eq_natCast, decide_eq_false_iff_not]; omega
                have hsc : Go.shiftCount (Int.ofNat v) = .ok v := by
                  unfold Go.shiftCount
                  rw [if_neg (by simp only [Int.ofNat_eq_natCast]; omega)]; rfl
                have hsh : Go.shlInt 1 v = (2 : Int) ^ v := by simp [Go.shlInt]
                simp only [hd, hd0, Bool.false_eq_true, if_false, hsc, ok_bind, hsh, if_neg hmax]
                rfl
            · rw [if_neg hv] at hatoi
              have hn2 : (some (⟨"strconv.Atoi", 1, []⟩ : Go.Err) != none) = true := rfl
              simp only [hatoi, hn2, if_true, if_neg hv, wfSite, hm]; rfl
        · have hl2 : (Go.len salt != 16) = true := by
            simp only [Go.len, bne_iff_ne, ne_eq, Int.ofNat_eq_natCast]; omega
          simp only [hl2, if_true, scryptSaltSize, hs, not_false_eq_true]; rfl
    · have hl : (Go.len (a :: w :: x :: rest) != 2) = true := by
        simp only [Go.len, List.length_cons, bne_iff_ne, ne_eq, Int.ofNat_eq_natCast]; omega
      simp only [hl, if_true]; rfl
  · have hb : (ty != [115, 99, 114, 121, 112, 116]) = true := by simpa [tScrypt] using ht
    simp only [hb, if_true, ne_eq, ht, not_false_eq_true]; rfl

theorem resClass_siteErr (k : Nat) : resClass (siteErr k) = .fatal := by
  simp [resClass, siteErr, age_ErrIncorrectIdentity]

theorem resClass_incorrect : resClass ([], age_ErrIncorrectIdentity) = .incorrect := by
  simp [resClass, age_ErrIncorrectIdentity]

/-- after a successful `scrypt.Key`, the translated code answers what the model's `aeadDecrypt` does -/
theorem afterKey_env (P : Prims) (E : ScryptEnv P) (k body : Bytes) :
    ∃ r, afterKey E.A body (k, none) = .ok r ∧ resClass r = aeadDecryptSized P k 16 body := by
  have hn : ((none : Option Go.Err) != none) = false := rfl
  simp only [afterKey, hn, Bool.false_eq_true, if_false, E.hA, ok_bind]
  cases aeadDecryptSized P k 16 body with
  | key fk =>
    have h1 : ((none : Option Go.Err) == age_errIncorrectCiphertextSize) = false := rfl
    simp only [h1, hn, Bool.false_eq_true, if_false]
    exact ⟨_, rfl, by simp [resClass]⟩
  | fatal =>
    simp only [beq_self_eq_true, if_true]
    exact ⟨_, rfl, resClass_siteErr 8⟩
  | incorrect =>
    have h1 : (some E.eA == age_errIncorrectCiphertextSize) = false := by simpa using E.hne
    have h2 : (some E.eA != none) = true := rfl
    simp only [h1, h2, Bool.false_eq_true, if_false, if_true]
    exact ⟨_, rfl, resClass_incorrect⟩

/-- either the model logs no key derivation and the translated code returns, whatever `scrypt.Key` is,
    an answer of the model's class; or the model logs one work factor and the translated code is
    one call of `scrypt.Key` with that factor followed by `afterKey` -/
theorem unwrap_cases (P : Prims) (E : ScryptEnv P) (pw : Bytes) (maxWF : Nat) (s : Format.Stanza) :
    ((unwrapScrypt P pw maxWF s).2 = [] ∧ ∃ r, resClass r = (unwrapScrypt P pw maxWF s).1 ∧
        ∀ K, age_ScryptIdentity_unwrap E.D K E.A ⟨pw, Int.ofNat maxWF⟩ (toGoStanza s) = .ok r)
    ∨ (∃ salt logN, (unwrapScrypt P pw maxWF s).2 = [logN] ∧ logN ≤ maxWF ∧
        (unwrapScrypt P pw maxWF s).1 = aeadDecryptSized P (P.scrypt pw (scryptLabel ++ salt) logN) 16 s.body ∧
        ∀ K, age_ScryptIdentity_unwrap E.D K E.A ⟨pw, Int.ofNat maxWF⟩ (toGoStanza s) =
          K pw (scryptLabel ++ salt) ((2 : Int) ^ logN) 8 1 32 >>= afterKey E.A s.body) := by
  by_cases ht : s.type = tScrypt
  · cases hargs : s.args with
    | nil =>
      refine Or.inl ⟨?_, siteErr 0, ?_, fun K => ?_⟩ <;> (try rw [unwrap_closed _ E.eD E.hD]) <;>
        simp [unwrapScrypt, resClass_siteErr, ht, hargs]
    | cons a t1 =>
      cases t1 with
      | nil =>
        refine Or.inl ⟨?_, siteErr 0, ?_, fun K => ?_⟩ <;> (try rw [unwrap_closed _ E.eD E.hD]) <;>
          simp [unwrapScrypt, resClass_siteErr, ht, hargs]
      | cons w t2 =>
        cases t2 with
        | cons x rest =>
          refine Or.inl ⟨?_, siteErr 0, ?_, fun K => ?_⟩ <;> (try rw [unwrap_closed _ E.eD E.hD]) <;>
            simp [unwrapScrypt, resClass_siteErr, ht, hargs]
        | nil =>
          cases hdec : Format.decodeString a with
          | none =>
            refine Or.inl ⟨?_, siteErr 1, ?_, fun K => ?_⟩ <;> (try rw [unwrap_closed _ E.eD E.hD]) <;>
              simp [unwrapScrypt, resClass_siteErr, ht, hargs, hdec]
          | some salt =>
            by_cases hs : salt.length = scryptSaltSize
            · cases hwf : parseWorkFactor w with
              | none =>
                refine Or.inl ⟨?_, siteErr (wfSite w), ?_, fun K => ?_⟩ <;> (try rw [unwrap_closed _ E.eD E.hD]) <;>
                  simp [unwrapScrypt, resClass_siteErr, ht, hargs, hdec, hs, hwf]
              | some logN =>
                by_cases hmax : logN > maxWF
                · refine Or.inl ⟨?_, siteErr 5, ?_, fun K => ?_⟩ <;> (try rw [unwrap_closed _ E.eD E.hD]) <;>
                    simp [unwrapScrypt, resClass_siteErr, ht, hargs, hdec, hs, hwf, hmax]
                · refine Or.inr ⟨salt, logN, ?_, by omega, ?_, fun K => ?_⟩ <;> (try rw [unwrap_closed _ E.eD E.hD]) <;>
                    simp [unwrapScrypt, ht, hargs, hdec, hs, hwf, hmax, fileKeySize]
            · refine Or.inl ⟨?_, siteErr 2, ?_, fun K => ?_⟩ <;> (try rw [unwrap_closed _ E.eD E.hD]) <;>
                simp [unwrapScrypt, resClass_siteErr, ht, hargs, hdec, hs]
  · refine Or.inl ⟨?_, ([], age_ErrIncorrectIdentity), ?_, fun K => ?_⟩ <;> (try rw [unwrap_closed _ E.eD E.hD]) <;>
      simp [unwrapScrypt, resClass_incorrect, ht]

theorem scrypt_unwrap_tie (P : Prims) (E : ScryptEnv P) (pw : Bytes) (maxWF : Nat) (s : Format.Stanza) :
    ∃ r, age_ScryptIdentity_unwrap E.D E.K E.A ⟨pw, Int.ofNat maxWF⟩ (toGoStanza s) = .ok r ∧
      resClass r = (unwrapScrypt P pw maxWF s).1 := by
  rcases unwrap_cases P E pw maxWF s with ⟨_, r, hr, hK⟩ | ⟨salt, logN, _, _, h1, hK⟩
  · exact ⟨r, hK _, hr⟩
  · obtain ⟨r, hr, hc⟩ := afterKey_env P E (P.scrypt pw (scryptLabel ++ salt) logN) s.body
    refine ⟨r, ?_, by rw [hc, h1]⟩
    rw [hK, E.hK, ok_bind, hr]

/-- no key-derivation work unless the model logs it: with a `scrypt.Key` that FAULTS when
    called, the translated `unwrap` still returns normally whenever the model's log is empty
    (type mismatch, wrong arity, bad salt, non-canonical or too large work factor) -/
theorem scrypt_unwrap_no_kdf (P : Prims) (E : ScryptEnv P) (pw : Bytes) (maxWF : Nat) (s : Format.Stanza)
    (h : (unwrapScrypt P pw maxWF s).2 = []) :
    ∃ r, age_ScryptIdentity_unwrap E.D (fun _ _ _ _ _ _ => .error (.panic 99)) E.A ⟨pw, Int.ofNat maxWF⟩ (toGoStanza s) = .ok r ∧
      resClass r = (unwrapScrypt P pw maxWF s).1 := by
  rcases unwrap_cases P E pw maxWF s with ⟨_, r, hr, hK⟩ | ⟨salt, logN, hl, _, _, _⟩
  · exact ⟨r, hK _, hr⟩
  · rw [h] at hl; cases hl

/-- … and when it does derive one, the cost parameter handed to `scrypt.Key` is `2^logN` with
    `logN ≤ maxWF` the logged factor (`r = 8`, `p = 1`, 32 bytes) -/
theorem scrypt_unwrap_kdf_args (P : Prims) (E : ScryptEnv P) (pw : Bytes) (maxWF : Nat) (s : Format.Stanza)
    (logN : Nat) (h : (unwrapScrypt P pw maxWF s).2 = [logN]) :
    logN ≤ maxWF ∧
    ∀ K', (∀ salt, K' pw salt ((2 : Int) ^ logN) 8 1 32 = E.K pw salt ((2 : Int) ^ logN) 8 1 32) →
      age_ScryptIdentity_unwrap E.D K' E.A ⟨pw, Int.ofNat maxWF⟩ (toGoStanza s) =
      age_ScryptIdentity_unwrap E.D E.K E.A ⟨pw, Int.ofNat maxWF⟩ (toGoStanza s) := by
  rcases unwrap_cases P E pw maxWF s with ⟨hl, _⟩ | ⟨salt, logN', hl, hle, _, hK⟩
  · rw [h] at hl; cases hl
  · rw [h] at hl
    cases hl
    refine ⟨hle, fun K' hK' => ?_⟩
    rw [hK K', hK E.K, hK']

/-! ## (*ScryptIdentity).Unwrap -/

def unwrapErr : Bytes × Option Go.Err := ([], some ⟨"age.(*ScryptIdentity).Unwrap", 0, []⟩)

theorem Unwrap_loop (stanzas : List age_Stanza) (ss : List Format.Stanza) :
    age_ScryptIdentity_Unwrap_loop1 stanzas (ss.map toGoStanza) =
      if (ss.any (fun s => s.type = tScrypt) && (Go.len stanzas != 1)) = true then .ok (.ret unwrapErr)
      else .ok (.next ()) := by
  induction ss with
  | nil => rfl
  | cons s ss ih =>
    have e : ((toGoStanza s).Type_ == [115, 99, 114, 121, 112, 116]) = decide (s.type = tScrypt) := by
      show (s.type == tScrypt) = decide (s.type = tScrypt)
      by_cases h : s.type = tScrypt <;> simp [h]
    simp only [List.map_cons, age_ScryptIdentity_Unwrap_loop1, ih, List.any_cons, e]
    by_cases h1 : s.type = tScrypt <;> by_cases h2 : (Go.len stanzas != 1) = true <;>
      simp [h1, h2, unwrapErr] <;> rfl

theorem len_map_ne_one (ss : List Format.Stanza) :
    (Go.len (ss.map toGoStanza) != 1) = decide (ss.length ≠ 1) := by
  simp only [Go.len, List.length_map, Int.ofNat_eq_natCast]
  by_cases h : ss.length = 1
  · simp [h]
  · have : ((ss.length : Int) != 1) = true := by simp only [bne_iff_ne, ne_eq]; omega
    simp [this, h]

theorem multiUnwrapLog_fst (f : Format.Stanza → UnwrapResult × List Nat) (ss : List Format.Stanza) :
    (multiUnwrapLog f ss).1 = multiUnwrap (fun s => (f s).1) ss := by
  induction ss with
  | nil => rfl
  | cons s ss ih =>
    simp only [multiUnwrapLog, multiUnwrap]
    rcases hf : f s with ⟨r, l⟩
    cases r <;> simp [ih]

theorem scrypt_Unwrap_tie (P : Prims) (E : ScryptEnv P) (pw : Bytes) (maxWF : Nat) (ss : List Format.Stanza) :
    ∃ r, age_ScryptIdentity_Unwrap errorsIsEq E.D E.K E.A ⟨pw, Int.ofNat maxWF⟩ (ss.map toGoStanza) = .ok r ∧
      resClass r = (Identity.unwrapLog P (.scrypt pw maxWF) ss).1 := by
  simp only [age_ScryptIdentity_Unwrap, Unwrap_loop, len_map_ne_one, Identity.unwrapLog]
  by_cases hc : ss.any (fun s => s.type = tScrypt) = true ∧ ss.length ≠ 1
  · have hb : (ss.any (fun s => s.type = tScrypt) && decide (ss.length ≠ 1)) = true := by
      simp only [Bool.and_eq_true, decide_eq_true_eq]; exact hc
    rw [if_pos hb, if_pos hc]
    exact ⟨unwrapErr, rfl, by simp [resClass, unwrapErr, age_ErrIncorrectIdentity]⟩
  · have hb : ¬ (ss.any (fun s => s.type = tScrypt) && decide (ss.length ≠ 1)) = true := by
      simp only [Bool.and_eq_true, decide_eq_true_eq]; exact hc
    rw [if_neg hb, if_neg hc]
    have hU : ∀ s, ∃ r, age_ScryptIdentity_unwrap E.D E.K E.A ⟨pw, Int.ofNat maxWF⟩ s = .ok r := by
      intro s
      obtain ⟨r, hr, _⟩ := scrypt_unwrap_tie P E pw maxWF ⟨s.Type_, s.Args, s.Body⟩
      exact ⟨r, hr⟩
    obtain ⟨r, hr, hcl⟩ := multiUnwrap_tie _ hU ss
    refine ⟨r, ?_, ?_⟩
    · simp only [ok_bind, hr]; rfl
    · rw [hcl, multiUnwrapLog_fst]
      congr 1
      funext s
      obtain ⟨r', hr', hc'⟩ := scrypt_unwrap_tie P E pw maxWF s
      simp only [stanzaClass, hr', hc']

/-- a header in which a passphrase stanza is not alone is refused before anything else:
    no `DecodeString`, no `scrypt.Key`, no `aeadDecrypt` call (all three fault when called) -/
theorem scrypt_Unwrap_alone (pw : Bytes) (maxWF : Int) (ss : List Format.Stanza)
    (h : ss.any (fun s => s.type = tScrypt) = true) (hn : ss.length ≠ 1) :
    age_ScryptIdentity_Unwrap errorsIsEq (fun _ => .error (.panic 97)) (fun _ _ _ _ _ _ => .error (.panic 98))
      (fun _ _ _ => .error (.panic 99)) ⟨pw, maxWF⟩ (ss.map toGoStanza) =
      .ok ([], some ⟨"age.(*ScryptIdentity).Unwrap", 0, []⟩) := by
  have hb : (ss.any (fun s => s.type = tScrypt) && decide (ss.length ≠ 1)) = true := by
    simp only [Bool.and_eq_true, decide_eq_true_eq]; exact ⟨h, hn⟩
  simp only [age_ScryptIdentity_Unwrap, Unwrap_loop, len_map_ne_one]
  rw [if_pos hb]
  rfl

end GoTie
end AgeModel
