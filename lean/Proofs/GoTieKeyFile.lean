/-
  Proofs.GoTieKeyFile — age.ParseIdentities and age.ParseRecipients (parse.go), as
  TRANSLATED from the Go source (AgeModel/Extracted/Funcs.lean, regenerated on every
  run), are the file-level model of AgeModel/KeyFile.lean — for EVERY file content and
  EVERY single-line parser (`ParseX25519Identity` / `ParseX25519Recipient` are kept
  abstract by the translator: they are a parameter here, as they are in the model).
  In particular the line number an error names (an integer argument of its
  fmt.Errorf call, recorded in `Go.Err.ints`) is the model's.
-/
import AgeModel.GoSem
import AgeModel.KeyFile
import AgeModel.Extracted.Funcs
namespace AgeModel
namespace GoTie
open Extracted

/-- the single-line parser as the file-level model sees it: a key, or a failure -/
def lineKey {κ : Type} (P : Bytes → Go.M (κ × Option Go.Err)) (l : Bytes) : Option κ :=
  match P l with
  | .ok (k, none) => some k
  | _ => none

def idFileErr : KeyFile.KeyFileErr → Option Go.Err
  | .atLine n => some ⟨"age.ParseIdentities", 0, [Int.ofNat n]⟩
  | .scanErr => some ⟨"age.ParseIdentities", 1, []⟩
  | .noKeys => some ⟨"age.ParseIdentities", 2, []⟩
  | .lineTooLong _ => some ⟨"unreachable", 0, []⟩

def rcFileErr : KeyFile.KeyFileErr → Option Go.Err
  | .atLine n => some ⟨"age.ParseRecipients", 0, [Int.ofNat n]⟩
  | .scanErr => some ⟨"age.ParseRecipients", 1, []⟩
  | .noKeys => some ⟨"age.ParseRecipients", 2, []⟩
  | .lineTooLong _ => some ⟨"unreachable", 0, []⟩


theorem rawLinesAux_eq (cur b : Bytes) : Go.rawLinesAux cur b = KeyFile.rawLinesAux cur b := by
  induction b generalizing cur with
  | nil => rfl
  | cons c cs ih => simp only [Go.rawLinesAux, KeyFile.rawLinesAux, ih]

theorem dropCR_eq (l : Bytes) : Go.dropCR l = KeyFile.dropCR l := rfl

theorem tokensFrom_eq (rs : List Bytes) : Go.tokensFrom rs = (KeyFile.scanFrom 65536 rs).lines := by
  induction rs with
  | nil => rfl
  | cons r rs ih =>
    simp only [Go.tokensFrom, KeyFile.scanFrom, Go.maxScanTokenSize]
    by_cases h : 65536 ≤ r.length
    · simp only [h, if_true]
    · simp only [h, if_false, ih, dropCR_eq]

theorem tooLongIn_eq (rs : List Bytes) : Go.tooLongIn rs = (KeyFile.scanFrom 65536 rs).err := by
  induction rs with
  | nil => rfl
  | cons r rs ih =>
    simp only [Go.tooLongIn, KeyFile.scanFrom, Go.maxScanTokenSize]
    by_cases h : 65536 ≤ r.length
    · simp only [h, if_true]
    · simp only [h, if_false, ih]

/-- the scanner of GoSem is the scanner of the key-file model -/
theorem scanner_tokens_eq (b : Bytes) : Go.scanner_Tokens b = (KeyFile.scan 65536 b).lines := by
  simp only [Go.scanner_Tokens, KeyFile.scan, KeyFile.rawLines, rawLinesAux_eq, tokensFrom_eq]

theorem scanner_err_eq (b : Bytes) : (Go.scanner_Err b != none) = (KeyFile.scan 65536 b).err := by
  simp only [Go.scanner_Err, KeyFile.scan, KeyFile.rawLines, rawLinesAux_eq, tooLongIn_eq]
  cases (KeyFile.scanFrom 65536 (KeyFile.rawLinesAux [] b)).err <;> rfl


theorem ignorable_eq (line : Bytes) :
    (Go.strings_HasPrefix line ([35] : List UInt8) || (line == ([] : List UInt8))) = KeyFile.ignorable line := by
  cases line with
  | nil => rfl
  | cons c cs =>
    simp [Go.strings_HasPrefix, KeyFile.ignorable, List.isPrefixOf]
    by_cases h : c = 35
    · subst h; rfl
    · have h' : ¬ (35 : UInt8) = c := fun e => h e.symm
      simp [h, h']

/-- what follows the loop in both functions, as a function of how the loop ended -/
def post {κ : Type} (fn : String) (se : Bool) :
    Go.Loop (List κ × Int) (List κ × Option Go.Err) → List κ × Option Go.Err
  | .ret v => v
  | .next (ids, _) =>
    if se then ([], some ⟨fn, 1, []⟩)
    else if ids.isEmpty then ([], some ⟨fn, 2, []⟩)
    else (ids, none)

def fileErr (fn : String) : KeyFile.KeyFileErr → Option Go.Err
  | .atLine n => some ⟨fn, 0, [Int.ofNat n]⟩
  | .scanErr => some ⟨fn, 1, []⟩
  | .noKeys => some ⟨fn, 2, []⟩
  | .lineTooLong _ => some ⟨"unreachable", 0, []⟩

def modelOut {κ : Type} (fn : String) : Except KeyFile.KeyFileErr (List κ) → List κ × Option Go.Err
  | .ok ks => (ks, none)
  | .error e => ([], fileErr fn e)

theorem ids_loop {κ : Type} (P : Bytes → Go.M (κ × Option Go.Err))
    (hP : ∀ l, ∃ r, P l = .ok r) (sc : Bytes) (se : Bool) (ts : List Bytes) :
    ∀ (ids : List κ) (n : Nat) (log : List Nat),
    ∃ r, age_ParseIdentities_loop1 P sc ts ids (Int.ofNat n) = .ok r ∧
      post "age.ParseIdentities" se r =
        modelOut "age.ParseIdentities" (KeyFile.loop (KeyFile.libLine (lineKey P)) se n ts ids log).res := by
  induction ts with
  | nil =>
    intro ids n log
    refine ⟨_, rfl, ?_⟩
    simp only [post, KeyFile.loop, KeyFile.finish]
    cases se
    · cases ids <;> rfl
    · rfl
  | cons t ts ih =>
    intro ids n log
    have hn : Int.ofNat n + 1 = Int.ofNat (n + 1) := rfl
    simp only [age_ParseIdentities_loop1, ignorable_eq, KeyFile.loop, KeyFile.libLine, hn]
    cases hi : KeyFile.ignorable t
    · obtain ⟨⟨k, e⟩, hr⟩ := hP t
      simp only [lineKey, hr, bind, Except.bind, pure, Except.pure]
      cases e with
      | none =>
        simp
        exact ih _ _ _
      | some e =>
        simp
        rfl
    · simp
      exact ih _ _ _

theorem recs_loop {κ : Type} (P : Bytes → Go.M (κ × Option Go.Err))
    (hP : ∀ l, ∃ r, P l = .ok r) (sc : Bytes) (se : Bool) (ts : List Bytes) :
    ∀ (ids : List κ) (n : Nat) (log : List Nat),
    ∃ r, age_ParseRecipients_loop1 P sc ts ids (Int.ofNat n) = .ok r ∧
      post "age.ParseRecipients" se r =
        modelOut "age.ParseRecipients" (KeyFile.loop (KeyFile.libLine (lineKey P)) se n ts ids log).res := by
  induction ts with
  | nil =>
    intro ids n log
    refine ⟨_, rfl, ?_⟩
    simp only [post, KeyFile.loop, KeyFile.finish]
    cases se
    · cases ids <;> rfl
    · rfl
  | cons t ts ih =>
    intro ids n log
    have hn : Int.ofNat n + 1 = Int.ofNat (n + 1) := rfl
    simp only [age_ParseRecipients_loop1, ignorable_eq, KeyFile.loop, KeyFile.libLine, hn]
    cases hi : KeyFile.ignorable t
    · obtain ⟨⟨k, e⟩, hr⟩ := hP t
      simp only [lineKey, hr, bind, Except.bind, pure, Except.pure]
      cases e with
      | none =>
        simp
        exact ih _ _ _
      | some e =>
        simp
        rfl
    · simp
      exact ih _ _ _

theorem parseIdentities_tie {κ : Type} (P : Bytes → Go.M (κ × Option Go.Err))
    (hP : ∀ l, ∃ r, P l = .ok r) (f : Bytes) :
    age_ParseIdentities P f = .ok (match KeyFile.parseIdentities (lineKey P) 65536 16777216 f with
      | .ok ks => (ks, none)
      | .error e => ([], idFileErr e)) := by
  have hse := scanner_err_eq (Go.io_LimitReader f (16777216 : Int))
  obtain ⟨r, hr, hpost⟩ := ids_loop P hP (Go.io_LimitReader f (16777216 : Int))
    (KeyFile.scan 65536 (Go.io_LimitReader f (16777216 : Int))).err
    (Go.scanner_Tokens (Go.io_LimitReader f (16777216 : Int))) [] 0 []
  have hr' : age_ParseIdentities_loop1 P (Go.io_LimitReader f 16777216)
      (Go.scanner_Tokens (Go.io_LimitReader f 16777216)) [] 0 = Except.ok r := hr
  have hm : ∀ x : Except KeyFile.KeyFileErr (List κ),
      (match x with
        | .ok ks => (ks, none)
        | .error e => ([], idFileErr e)) = modelOut "age.ParseIdentities" x := by
    intro x
    cases x with
    | ok ks => rfl
    | error e => cases e <;> rfl
  have hmodel : KeyFile.parseIdentities (lineKey P) 65536 16777216 f =
      (KeyFile.loop (KeyFile.libLine (lineKey P)) (KeyFile.scan 65536 (Go.io_LimitReader f 16777216)).err 0
          (Go.scanner_Tokens (Go.io_LimitReader f 16777216)) [] []).res := by
    rw [scanner_tokens_eq]
    rfl
  simp only [age_ParseIdentities, hr', bind, Except.bind, pure, Except.pure, hm, hmodel, ← hpost, hse]
  cases r with
  | ret v => rfl
  | next s =>
    obtain ⟨ids', n'⟩ := s
    simp only [post]
    cases (KeyFile.scan 65536 (Go.io_LimitReader f 16777216)).err
    · cases ids' with
      | nil => simp [Go.len]
      | cons a as => simp [Go.len]; omega
    · rfl

theorem parseRecipients_tie {κ : Type} (P : Bytes → Go.M (κ × Option Go.Err))
    (hP : ∀ l, ∃ r, P l = .ok r) (f : Bytes) :
    age_ParseRecipients P f = .ok (match KeyFile.parseRecipients (lineKey P) 65536 16777216 f with
      | .ok ks => (ks, none)
      | .error e => ([], rcFileErr e)) := by
  have hse := scanner_err_eq (Go.io_LimitReader f (16777216 : Int))
  obtain ⟨r, hr, hpost⟩ := recs_loop P hP (Go.io_LimitReader f (16777216 : Int))
    (KeyFile.scan 65536 (Go.io_LimitReader f (16777216 : Int))).err
    (Go.scanner_Tokens (Go.io_LimitReader f (16777216 : Int))) [] 0 []
  have hr' : age_ParseRecipients_loop1 P (Go.io_LimitReader f 16777216)
      (Go.scanner_Tokens (Go.io_LimitReader f 16777216)) [] 0 = Except.ok r := hr
  have hm : ∀ x : Except KeyFile.KeyFileErr (List κ),
      (match x with
        | .ok ks => (ks, none)
        | .error e => ([], rcFileErr e)) = modelOut "age.ParseRecipients" x := by
    intro x
    cases x with
    | ok ks => rfl
    | error e => cases e <;> rfl
  have hmodel : KeyFile.parseRecipients (lineKey P) 65536 16777216 f =
      (KeyFile.loop (KeyFile.libLine (lineKey P)) (KeyFile.scan 65536 (Go.io_LimitReader f 16777216)).err 0
          (Go.scanner_Tokens (Go.io_LimitReader f 16777216)) [] []).res := by
    rw [scanner_tokens_eq]
    rfl
  simp only [age_ParseRecipients, hr', bind, Except.bind, pure, Except.pure, hm, hmodel, ← hpost, hse]
  cases r with
  | ret v => rfl
  | next s =>
    obtain ⟨ids', n'⟩ := s
    simp only [post]
    cases (KeyFile.scan 65536 (Go.io_LimitReader f 16777216)).err
    · cases ids' with
      | nil => simp [Go.len]
      | cons a as => simp [Go.len]; omega
    · rfl

end GoTie
end AgeModel
