/-
  age-keygen: writing the result line by line is writing it at once (as far as
  the destination's final content and the success of the run go), and what a
  run does to its output.
-/
import Proofs.CliWorld
import Proofs.CliPath
set_option linter.unusedSimpArgs false
namespace AgeModel
namespace Cli

/-! ### segmentation independence of `accept` -/

theorem accept_append_ok (cap : Option Nat) (n : Nat) (a b : Bytes) (h : (accept cap n a).2 = true) :
    accept cap n (a ++ b) = (a ++ (accept cap (n + a.length) b).1, (accept cap (n + a.length) b).2) := by
  cases cap with
  | none => simp [accept]
  | some c =>
    simp only [accept] at h ⊢
    by_cases h1 : n + a.length ≤ c
    · by_cases h2 : n + a.length + b.length ≤ c
      · have h3 : n + (a.length + b.length) ≤ c := by omega
        simp [h2, h3]
      · have h3 : ¬ n + (a.length + b.length) ≤ c := by omega
        have hlen : a.length ≤ c - n := by omega
        simp only [List.length_append, h3, if_false, h2, Prod.mk.injEq, and_true]
        rw [List.take_append, List.take_of_length_le hlen]
        congr 2
        omega
    · simp [h1] at h

theorem accept_append_fail (cap : Option Nat) (n : Nat) (a b : Bytes) (h : (accept cap n a).2 = false) :
    accept cap n (a ++ b) = accept cap n a := by
  cases cap with
  | none => simp [accept] at h
  | some c =>
    simp only [accept] at h ⊢
    by_cases h1 : n + a.length ≤ c
    · simp [h1] at h
    · have h3 : ¬ n + (a.length + b.length) ≤ c := by omega
      simp only [List.length_append, h3, h1, if_false, Prod.mk.injEq, and_true]
      rw [List.take_append]
      have : c - n - a.length = 0 := by omega
      simp [this]

theorem accept_ok_le (n : Nat) (c : Nat) (a : Bytes) (h : (accept (some c) n a).2 = true) : n + a.length ≤ c := by
  simp only [accept] at h
  by_cases h1 : n + a.length ≤ c
  · exact h1
  · simp [h1] at h

/-! ### the write loop -/

theorem kwriteLines_file (t : Path) (m : Nat) (ls : List Bytes) :
    ∀ (p : Proc) (c0 : Bytes), p.w.get t = .file c0 m → (∀ L, p.w.fsize = some L → c0.length ≤ L) →
      (kwriteLines (.file t) p ls).1.w.get t = .file (c0 ++ (accept p.w.fsize c0.length ls.flatten).1) m ∧
      (kwriteLines (.file t) p ls).2 = (accept p.w.fsize c0.length ls.flatten).2 ∧
      (∀ u, u ≠ t → (kwriteLines (.file t) p ls).1.w.get u = p.w.get u) ∧
      (kwriteLines (.file t) p ls).1.emitted = p.emitted ∧
      (kwriteLines (.file t) p ls).1.w.fsize = p.w.fsize ∧
      (kwriteLines (.file t) p ls).1.w.closeFails = p.w.closeFails := by
  induction ls with
  | nil =>
    intro p c0 hg hcap
    have : accept p.w.fsize c0.length [] = ([], true) := by
      cases hf : p.w.fsize with
      | none => simp [accept]
      | some L => have := hcap L hf; simp [accept, this]
    simp [kwriteLines, this, hg]
  | cons l ls ih =>
    intro p c0 hg hcap
    simp only [kwriteLines, kwrite, Proc.writeFile, hg, List.flatten_cons]
    cases hok : (accept p.w.fsize c0.length l).2 with
    | true =>
      simp only [if_true]
      have hl := accept_ok _ _ _ hok
      rw [hl]
      have hcap' : ∀ L, p.w.fsize = some L → (c0 ++ l).length ≤ L := by
        intro L hf
        rw [hf] at hok
        have := accept_ok_le _ _ _ hok
        simp; omega
      have := ih { p with w := p.w.set t (.file (c0 ++ l) m) } (c0 ++ l) (by simp) (by simpa using hcap')
      simp only [World.set_fsize, World.set_closeFails, List.length_append] at this
      obtain ⟨h1, h2, h3, h4, h5, h6⟩ := this
      rw [accept_append_ok _ _ _ _ hok]
      refine ⟨by rw [h1]; simp, h2, ?_, h4, h5, h6⟩
      intro u hu
      rw [h3 u hu]
      exact World.get_set_other _ _ _ _ (Ne.symm hu)
    | false =>
      simp only [Bool.false_eq_true, if_false]
      rw [accept_append_fail _ _ _ _ hok, hok]
      refine ⟨by simp, (by first | rfl | trivial), ?_, (by first | rfl | trivial), (by first | rfl | trivial), (by first | rfl | trivial)⟩
      intro u hu
      exact World.get_set_other _ _ _ _ (Ne.symm hu)

theorem kwriteLines_stdout (ls : List Bytes) :
    ∀ (p : Proc), (∀ c, p.w.stdout = .limited (some c) → p.emitted.length ≤ c) →
      (kwriteLines .stdout p ls).1.w = p.w ∧
      match p.w.stdout with
      | .terminal => (kwriteLines .stdout p ls).1.emitted = p.emitted ++ ls.flatten ∧ (kwriteLines .stdout p ls).2 = true
      | .devFull => (kwriteLines .stdout p ls).1.emitted = p.emitted ∧ (kwriteLines .stdout p ls).2 = ls.isEmpty
      | .limited cap =>
        (kwriteLines .stdout p ls).1.emitted = p.emitted ++ (accept cap p.emitted.length ls.flatten).1 ∧
        (kwriteLines .stdout p ls).2 = (accept cap p.emitted.length ls.flatten).2 := by
  induction ls with
  | nil =>
    intro p hinv
    refine ⟨rfl, ?_⟩
    cases hso : p.w.stdout with
    | terminal => simp [kwriteLines]
    | devFull => simp [kwriteLines]
    | limited cap =>
      have : accept cap p.emitted.length [] = ([], true) := by
        cases cap with
        | none => simp [accept]
        | some c => have := hinv c hso; simp [accept, this]
      simp [kwriteLines, this]
  | cons l ls ih =>
    intro p hinv
    cases hso : p.w.stdout with
    | terminal =>
      simp only [kwriteLines, kwrite, Proc.writeStdout, hso, if_true, List.flatten_cons]
      have := ih { p with emitted := p.emitted ++ l } (by intro c hc; simp [hso] at hc)
      simp only [hso] at this
      exact ⟨this.1, by rw [this.2.1]; simp, this.2.2⟩
    | devFull =>
      simp [kwriteLines, kwrite, Proc.writeStdout, hso]
    | limited cap =>
      simp only [kwriteLines, kwrite, Proc.writeStdout, hso, List.flatten_cons]
      cases hok : (accept cap p.emitted.length l).2 with
      | true =>
        simp only [if_true]
        have hl := accept_ok _ _ _ hok
        rw [hl]
        have hinv' : ∀ c, cap = some c → (p.emitted ++ l).length ≤ c := by
          intro c hc
          rw [hc] at hok
          have := accept_ok_le _ _ _ hok
          simp; omega
        have := ih { p with emitted := p.emitted ++ l } (by
          intro c hc
          simp only [hso, Stdout.limited.injEq] at hc
          exact hinv' c hc)
        simp only [hso, List.length_append] at this
        rw [accept_append_ok _ _ _ _ hok]
        exact ⟨this.1, by rw [this.2.1]; simp, this.2.2⟩
      | false =>
        simp only [Bool.false_eq_true, if_false]
        rw [accept_append_fail _ _ _ _ hok, hok]
        exact ⟨(by first | rfl | trivial), (by first | rfl | trivial), (by first | rfl | trivial)⟩

/-! ### a whole age-keygen run -/

theorem krun_invalid (a : KArgs) (w : World) (o : KOracle) (h : kargsValid a = false) :
    krun a w o = ⟨1, w, []⟩ := by
  simp [krun, h]

/-- the output path cannot be opened with O_EXCL (it exists, or its directory does not): nothing happens -/
theorem krun_uncreatable (a : KArgs) (w : World) (o : KOracle) (hv : a.version = false) (hout : a.output ≠ [])
    (hc : createExcl w a.output = none) : krun a w o = ⟨1, w, []⟩ := by
  cases hargs : kargsValid a with
  | false => exact krun_invalid a w o hargs
  | true => simp [krun, hargs, hv, hout, hc]

theorem createExcl_of_absent (w : World) (name : Bytes) (t : Path) (hr : resolve w name = some t)
    (hg : w.get t = .absent) :
    createExcl w name = some (w.set t (.file [] (applyUmask 0o600 w.umask)), t) := by
  simp [createExcl, hr, hg]

/-- `-o` names a path that does not exist yet (in an existing directory) -/
theorem krun_file (a : KArgs) (w : World) (o : KOracle) (hv : a.version = false) (hargs : kargsValid a = true)
    (hout : a.output ≠ []) (t : Path) (hr : resolve w a.output = some t) (hg : w.get t = .absent) :
    (krun a w o).stdout = [] ∧ (∀ u, u ≠ t → (krun a w o).world.get u = w.get u) ∧
    match koperation a (w.set t (.file [] (applyUmask 0o600 w.umask))) o with
    | none => (krun a w o).exit = 1 ∧ (krun a w o).world.get t = .file [] (applyUmask 0o600 w.umask)
    | some segs =>
      (krun a w o).world.get t = .file (accept w.fsize 0 segs.flatten).1 (applyUmask 0o600 w.umask) ∧
      (krun a w o).exit = if (accept w.fsize 0 segs.flatten).2 && !w.closeFails then 0 else 1 := by
  have hcr := createExcl_of_absent w a.output t hr hg
  cases hop : koperation a (w.set t (.file [] (applyUmask 0o600 w.umask))) o with
  | none =>
    simp only [krun, hargs, hv, hout, hcr, hop, Proc.result, Bool.not_true, Bool.false_eq_true, if_false]
    refine ⟨trivial, ?_, trivial, by simp⟩
    intro u hu
    exact World.get_set_other _ _ _ _ (Ne.symm hu)
  | some segs =>
    have hk := kwriteLines_file t (applyUmask 0o600 w.umask) segs
      ({ w := w.set t (.file [] (applyUmask 0o600 w.umask)) } : Proc) [] (by simp) (by intro L _; simp)
    simp only [World.set_fsize, World.set_closeFails, List.length_nil, List.nil_append] at hk
    obtain ⟨h1, h2, h3, h4, h5, h6⟩ := hk
    simp only [krun, hargs, hv, hout, hcr, hop, Bool.not_true, Bool.false_eq_true, if_false]
    cases hok : (accept w.fsize 0 segs.flatten).2 with
    | true =>
      rw [hok] at h2
      simp only [h2, if_true, kfinish, Proc.result, h6, h4, h1, Bool.true_and]
      refine ⟨trivial, ?_, trivial, ?_⟩
      · intro u hu
        rw [h3 u hu]
        exact World.get_set_other _ _ _ _ (Ne.symm hu)
      · cases w.closeFails <;> simp
    | false =>
      rw [hok] at h2
      simp only [h2, Bool.false_eq_true, if_false, Proc.result, h4, h1, Bool.false_and]
      refine ⟨trivial, ?_, trivial, trivial⟩
      intro u hu
      rw [h3 u hu]
      exact World.get_set_other _ _ _ _ (Ne.symm hu)

/-- no `-o`: the result goes to standard output -/
theorem krun_stdout (a : KArgs) (w : World) (o : KOracle) (hv : a.version = false) (hargs : kargsValid a = true)
    (hout : a.output = []) :
    (krun a w o).world = w ∧
    match koperation a w o with
    | none => (krun a w o).exit = 1 ∧ (krun a w o).stdout = []
    | some segs =>
      match w.stdout with
      | .terminal => (krun a w o).stdout = segs.flatten ∧ (krun a w o).exit = 0
      | .devFull => (krun a w o).stdout = [] ∧ (krun a w o).exit = if segs.isEmpty then 0 else 1
      | .limited cap => (krun a w o).stdout = (accept cap 0 segs.flatten).1 ∧
          (krun a w o).exit = if (accept cap 0 segs.flatten).2 then 0 else 1 := by
  cases hop : koperation a w o with
  | none => simp [krun, hargs, hv, hout, hop, Proc.result]
  | some segs =>
    have hk := kwriteLines_stdout segs ({ w := w } : Proc) (by intro c _; simp)
    obtain ⟨h1, h2⟩ := hk
    simp only [krun, hargs, hv, hout, hop, Bool.not_true, Bool.false_eq_true, if_false, if_true]
    cases hso : w.stdout with
    | terminal =>
      simp only [hso] at h2
      simp [h2.1, h2.2, kfinish, Proc.result, h1]
    | devFull =>
      simp only [hso] at h2
      cases hemp : segs.isEmpty <;> simp [h2.1, h2.2, hemp, kfinish, Proc.result, h1]
    | limited cap =>
      simp only [hso, List.length_nil, List.nil_append] at h2
      cases hok : (accept cap 0 segs.flatten).2 <;> simp [h2.1, h2.2, hok, kfinish, Proc.result, h1]

theorem koperation_ne (a : KArgs) (w1 : World) (o : KOracle) (ho : o.WF) (segs : List Bytes)
    (h : koperation a w1 o = some segs) : segs ≠ [] := by
  unfold koperation at h
  simp only at h
  split at h
  · simp at h
  · split at h
    · split at h
      · exact (ho.lines_ne segs h).1
      · simp at h
    · simp only [Option.some.injEq] at h
      rw [← h]; simp

end Cli
end AgeModel
