/-
  What `execute` (the model of `decrypt`/`encrypt` plus the return from main)
  does, destination by destination.  `execute` is first shown to be one
  generic delivery loop (`deliver`) run on the byte string the plan wants to
  write; the loop is then characterised for each kind of destination.
-/
import Proofs.CliWorld
import Proofs.CliPath
set_option linter.unusedSimpArgs false
namespace AgeModel
namespace Cli

/-- what a plan tries to write: the bytes, whether an empty write comes first
    (`out.Write(nil)` in `decrypt`), and whether writing all of it is success -/
def Plan.stream : Plan → Option (Bytes × Bool × Bool)
  | .dec .headerRefused => none
  | .dec (.ok pt none) => some (pt, true, true)
  | .dec (.ok pt (some n)) => some (pt.take n, true, false)
  | .encFail => none
  | .encInputFail fl => some (fl, false, false)
  | .enc ct => some (ct, false, true)

def deliver (dest : Dest) (w : World) (d : Bytes) (nf succ : Bool) : Result :=
  let p0 : Proc := { w := w }
  let r1 := if nf then p0.write dest [] else (p0, true)
  if !r1.2 then r1.1.result 1 else
  let r2 := r1.1.writeNE dest d
  if !r2.2 then r2.1.result 1 else
  if !succ then r2.1.result 1 else r2.1.finish dest

theorem execute_eq_deliver (dest : Dest) (plan : Plan) (w : World) :
    execute dest plan w =
      match plan.stream with
      | none => ⟨1, w, []⟩
      | some (d, nf, succ) => deliver dest w d nf succ := by
  cases plan with
  | dec oc =>
    cases oc with
    | headerRefused => simp [execute, Plan.stream, Proc.result]
    | ok pt fa =>
      cases fa with
      | none => simp [execute, Plan.stream, deliver]
      | some n => simp [execute, Plan.stream, deliver]
  | encFail => simp [execute, Plan.stream, Proc.result]
  | encInputFail fl =>
    simp only [execute, Plan.stream, deliver, Bool.false_eq_true, if_false, Bool.not_true, Bool.not_false, if_true]
    split <;> rfl
  | enc ct => simp [execute, Plan.stream, deliver]

/-- a plan's complete result is the stream of a plan that succeeds -/
theorem complete_iff_stream (plan : Plan) (result : Bytes) :
    plan.complete = some result ↔ ∃ nf, plan.stream = some (result, nf, true) := by
  cases plan with
  | dec oc =>
    cases oc with
    | headerRefused => simp [Plan.complete, Plan.stream]
    | ok pt fa => cases fa <;> simp [Plan.complete, Plan.stream]
  | encFail => simp [Plan.complete, Plan.stream]
  | encInputFail fl => simp [Plan.complete, Plan.stream]
  | enc ct => simp [Plan.complete, Plan.stream]

/-! ### -version -/

/-- `-version`: the world is untouched, and the exit status is 0 exactly when
    standard output took the whole line -/
theorem printVersion_spec (w : World) (line : Bytes) :
    (printVersion w line).world = w ∧
    ((printVersion w line).exit = 0 ↔ Holds .stdout w (printVersion w line) line) ∧
    (printVersion w line).stdout <+: line := by
  cases hso : w.stdout with
  | terminal => simp [printVersion, Proc.writeStdout, Proc.result, Holds, hso]
  | devFull => simp [printVersion, Proc.writeStdout, Proc.result, Holds, hso]
  | limited cap =>
    refine ⟨by simp [printVersion, Proc.writeStdout, Proc.result, hso], ?_, ?_⟩
    · cases hok : (accept cap 0 line).2 with
      | true => simp [printVersion, Proc.writeStdout, Proc.result, Holds, hso, hok, accept_ok cap 0 line hok]
      | false =>
        have := accept_fail_ne cap 0 line (fun _ _ => Nat.zero_le _) hok
        simp [printVersion, Proc.writeStdout, Proc.result, Holds, hso, hok, this]
    · simpa [printVersion, Proc.writeStdout, Proc.result, hso] using accept_prefix cap 0 line

/-! ### standard output -/

theorem deliver_stdout (w : World) (d : Bytes) (nf succ : Bool) :
    (deliver .stdout w d nf succ).world = w ∧
    match w.stdout with
    | .terminal => (deliver .stdout w d nf succ).stdout = d ∧
        (deliver .stdout w d nf succ).exit = if succ then 0 else 1
    | .devFull => (deliver .stdout w d nf succ).stdout = [] ∧
        (deliver .stdout w d nf succ).exit = if nf = true ∨ d ≠ [] then 1 else if succ then 0 else 1
    | .limited cap => (deliver .stdout w d nf succ).stdout = (accept cap 0 d).1 ∧
        (deliver .stdout w d nf succ).exit = if (accept cap 0 d).2 && succ then 0 else 1 := by
  cases hso : w.stdout with
  | terminal =>
    cases nf <;> cases succ <;> by_cases hd : d = [] <;>
      simp [deliver, Proc.write, Proc.writeStdout, Proc.writeNE, Proc.finish, Proc.result, hso, hd]
  | devFull =>
    cases nf <;> cases succ <;> by_cases hd : d = [] <;>
      simp [deliver, Proc.write, Proc.writeStdout, Proc.writeNE, Proc.finish, Proc.result, hso, hd]
  | limited cap =>
    cases nf <;> cases succ <;> by_cases hd : d = [] <;>
      cases hok : (accept cap 0 d).2 <;>
      simp [deliver, Proc.write, Proc.writeStdout, Proc.writeNE, Proc.finish, Proc.result, hso, hd, hok] <;>
      simp_all

theorem deliver_buffered (w : World) (d : Bytes) (nf succ : Bool) (ht : w.stdout = .terminal) :
    (deliver .buffered w d nf succ).world = w ∧
    (deliver .buffered w d nf succ).stdout = (if succ then d else []) ∧
    (deliver .buffered w d nf succ).exit = if succ then 0 else 1 := by
  cases nf <;> cases succ <;> by_cases hd : d = [] <;>
    simp [deliver, Proc.write, Proc.writeStdout, Proc.writeNE, Proc.finish, Proc.result, ht, hd]

/-! ### the lazily opened -o file -/

theorem create_cases (w : World) (name : Bytes) :
    create w name = none ∨
    (∃ t, create w name = some (w, t) ∧ resolve w name = some t ∧ w.get t = .devFull) ∨
    (∃ t m, create w name = some (w.set t (.file [] m), t) ∧ resolve w name = some t ∧
      ((w.get t = .absent ∧ m = applyUmask 0o666 w.umask) ∨ ∃ c, w.get t = .file c m)) := by
  cases hcr : create w name with
  | none => exact Or.inl rfl
  | some x =>
    obtain ⟨w', t⟩ := x
    obtain ⟨hr, h⟩ := create_some w w' name t hcr
    rcases h with ⟨hg, hw⟩ | ⟨c, m, hg, hw⟩ | ⟨hg, hw⟩
    · subst hw; exact Or.inr (Or.inr ⟨t, _, rfl, hr, Or.inl ⟨hg, rfl⟩⟩)
    · subst hw; exact Or.inr (Or.inr ⟨t, m, rfl, hr, Or.inr ⟨c, hg⟩⟩)
    · subst hw; exact Or.inr (Or.inl ⟨t, rfl, hr, hg⟩)

/-- what the run does when `out` is the lazily opened file `name` -/
theorem deliver_lazy (w : World) (name d : Bytes) (nf succ : Bool) :
    (deliver (.lazy name) w d nf succ).stdout = [] ∧
    ((nf = false ∧ d = [] ∧ (deliver (.lazy name) w d nf succ).world = w ∧
        (deliver (.lazy name) w d nf succ).exit = if succ then 0 else 1) ∨
     ((nf = true ∨ d ≠ []) ∧
       ((create w name = none ∧ (deliver (.lazy name) w d nf succ).world = w ∧
           (deliver (.lazy name) w d nf succ).exit = 1) ∨
        (∃ t, resolve w name = some t ∧ w.get t = .devFull ∧ (deliver (.lazy name) w d nf succ).world = w ∧
           (deliver (.lazy name) w d nf succ).exit = 1) ∨
        (∃ t m, resolve w name = some t ∧
            ((w.get t = .absent ∧ m = applyUmask 0o666 w.umask) ∨ ∃ c, w.get t = .file c m) ∧
            (deliver (.lazy name) w d nf succ).world.get t = .file (accept w.fsize 0 d).1 m ∧
            (∀ u, u ≠ t → (deliver (.lazy name) w d nf succ).world.get u = w.get u) ∧
            (deliver (.lazy name) w d nf succ).exit =
              if (accept w.fsize 0 d).2 && succ && !w.closeFails then 0 else 1)))) := by
  by_cases htouch : nf = false ∧ d = []
  · obtain ⟨hnf, hd⟩ := htouch
    subst hnf; subst hd
    cases succ <;> simp [deliver, Proc.writeNE, Proc.finish, Proc.result]
  · have htouch' : nf = true ∨ d ≠ [] := by
      cases nf with
      | true => exact Or.inl rfl
      | false => exact Or.inr (fun hd => htouch ⟨rfl, hd⟩)
    rcases create_cases w name with hcr | ⟨t, hcr, hr, hg⟩ | ⟨t, m, hcr, hr, hg⟩
    · -- the file cannot be created
      refine ⟨?_, Or.inr ⟨htouch', Or.inl ⟨hcr, ?_, ?_⟩⟩⟩ <;>
      · cases nf <;> by_cases hd : d = [] <;>
          simp_all [deliver, Proc.write, Proc.writeNE, Proc.finish, Proc.result]
    · -- a device that takes nothing
      refine ⟨?_, Or.inr ⟨htouch', Or.inr (Or.inl ⟨t, hr, hg, ?_, ?_⟩)⟩⟩ <;>
      · cases nf <;> by_cases hd : d = [] <;>
          simp_all [deliver, Proc.write, Proc.writeNE, Proc.writeFile, Proc.finish, Proc.result]
    · -- a regular file, created or truncated
      refine ⟨?_, Or.inr ⟨htouch', Or.inr (Or.inr ⟨t, m, hr, hg, ?_, ?_, ?_⟩)⟩⟩
      · cases nf <;> by_cases hd : d = [] <;> cases hok : (accept w.fsize 0 d).2 <;> cases succ <;>
          simp_all [deliver, Proc.write, Proc.writeNE, Proc.writeFile, Proc.finish, Proc.result]
      · cases nf <;> by_cases hd : d = [] <;> cases hok : (accept w.fsize 0 d).2 <;> cases succ <;>
          simp_all [deliver, Proc.write, Proc.writeNE, Proc.writeFile, Proc.finish, Proc.result]
      · intro u hu
        have hu' : t ≠ u := Ne.symm hu
        cases nf <;> by_cases hd : d = [] <;> cases hok : (accept w.fsize 0 d).2 <;> cases succ <;>
          simp_all [deliver, Proc.write, Proc.writeNE, Proc.writeFile, Proc.finish, Proc.result]
      · cases nf <;> by_cases hd : d = [] <;> cases hok : (accept w.fsize 0 d).2 <;> cases succ <;>
          cases hcf : w.closeFails <;>
          simp_all [deliver, Proc.write, Proc.writeNE, Proc.writeFile, Proc.finish, Proc.result]

/-! ### consequences for `execute` -/

theorem stream_enc_ne (plan : Plan) (hct : ∀ ct, plan = .enc ct → ct ≠ []) (d : Bytes)
    (h : plan.stream = some (d, false, true)) : d ≠ [] := by
  cases plan with
  | dec oc =>
    cases oc with
    | headerRefused => simp [Plan.stream] at h
    | ok pt fa => cases fa <;> simp [Plan.stream] at h
  | encFail => simp [Plan.stream] at h
  | encInputFail fl => simp [Plan.stream] at h
  | enc ct =>
    simp only [Plan.stream, Option.some.injEq, Prod.mk.injEq, and_true] at h
    subst h
    exact hct _ rfl

theorem resolve_unique {w : World} {name : Bytes} {t u : Path} (h1 : resolve w name = some t)
    (h2 : resolve w name = some u) : t = u := by
  rw [h1] at h2; exact Option.some.inj h2

theorem deliver_exit0_iff (dest : Dest) (w : World) (d : Bytes) (nf succ : Bool)
    (hb : dest = .buffered → w.stdout = .terminal) (hne : nf = false → succ = true → d ≠ []) :
    (deliver dest w d nf succ).exit = 0 ↔ succ = true ∧ Holds dest w (deliver dest w d nf succ) d := by
  cases dest with
  | stdout =>
    have h := (deliver_stdout w d nf succ).2
    cases hso : w.stdout with
    | terminal =>
      rw [hso] at h
      simp only [Holds, h.1, h.2, hso]
      cases succ <;> simp
    | devFull =>
      rw [hso] at h
      simp only [Holds, h.1, h.2, hso]
      cases nf <;> cases succ <;> by_cases hd : d = [] <;> simp_all
    | limited cap =>
      rw [hso] at h
      simp only [Holds, h.1, h.2, hso]
      cases hok : (accept cap 0 d).2 with
      | true => cases succ <;> simp [accept_ok cap 0 d hok]
      | false =>
        have := accept_fail_ne cap 0 d (fun _ _ => Nat.zero_le _) hok
        cases succ <;> simp [this]
  | buffered =>
    obtain ⟨_, h2, h3⟩ := deliver_buffered w d nf succ (hb rfl)
    simp only [Holds, h2, h3]
    cases succ <;> simp
  | lazy name =>
    obtain ⟨_, h⟩ := deliver_lazy w name d nf succ
    rcases h with ⟨hnf, hd, hw, he⟩ | ⟨_, ⟨hcr, hw, he⟩ | ⟨t, hr, hg, hw, he⟩ | ⟨t, m, hr, hg, hgt, _, he⟩⟩
    · -- nothing is written at all
      cases succ with
      | false => simp [he]
      | true => exact absurd hd (hne hnf rfl)
    · rw [he]
      constructor
      · intro h; simp at h
      · intro ⟨_, hh⟩
        simp only [Holds, hw] at hh
        obtain ⟨_, t', m', hr', hg'⟩ := hh
        rcases create_none w name hcr with hn | ⟨t, hr, hg⟩
        · rw [hn] at hr'; simp at hr'
        · rw [resolve_unique hr' hr, hg] at hg'; simp at hg'
    · rw [he]
      constructor
      · intro h; simp at h
      · intro ⟨_, hh⟩
        simp only [Holds, hw] at hh
        obtain ⟨_, t', m', hr', hg'⟩ := hh
        rw [resolve_unique hr' hr, hg] at hg'; simp at hg'
    · rw [he]
      simp only [Holds]
      constructor
      · intro h0
        have h1 : (accept w.fsize 0 d).2 = true ∧ succ = true ∧ w.closeFails = false := by
          cases h2 : (accept w.fsize 0 d).2 <;> cases succ <;> cases h3 : w.closeFails <;> simp_all
        refine ⟨h1.2.1, h1.2.2, t, m, hr, ?_⟩
        rw [hgt, accept_ok _ _ _ h1.1]
      · intro ⟨hs, hcf, t', m', hr', hg'⟩
        rw [← resolve_unique hr hr', hgt] at hg'
        have hacc : (accept w.fsize 0 d).1 = d := by simpa using congrArg (fun n => match n with | .file c _ => c | _ => []) hg'
        have hok : (accept w.fsize 0 d).2 = true := by
          cases h2 : (accept w.fsize 0 d).2 with
          | true => rfl
          | false => exact absurd hacc (accept_fail_ne _ 0 d (fun _ _ => Nat.zero_le _) h2)
        simp [hok, hs, hcf]

/-- exit status 0 exactly when the plan is one that succeeds and its complete
    result is what the output holds afterwards -/
theorem execute_exit0_iff (dest : Dest) (plan : Plan) (w : World)
    (hb : dest = .buffered → w.stdout = .terminal) (hct : ∀ ct, plan = .enc ct → ct ≠ []) :
    (execute dest plan w).exit = 0 ↔
      ∃ result, plan.complete = some result ∧ Holds dest w (execute dest plan w) result := by
  rw [execute_eq_deliver]
  cases hs : plan.stream with
  | none =>
    simp only [Nat.succ_ne_zero, false_iff, not_exists, not_and]
    intro result hc
    obtain ⟨nf, hnf⟩ := (complete_iff_stream plan result).1 hc
    rw [hs] at hnf; simp at hnf
  | some x =>
    obtain ⟨d, nf, succ⟩ := x
    simp only
    rw [deliver_exit0_iff dest w d nf succ hb
      (fun h1 h2 => stream_enc_ne plan hct d (by rw [hs, h1, h2]))]
    constructor
    · intro ⟨hsucc, hh⟩
      exact ⟨d, (complete_iff_stream plan d).2 ⟨nf, by rw [hs, hsucc]⟩, hh⟩
    · intro ⟨result, hc, hh⟩
      obtain ⟨nf', hnf⟩ := (complete_iff_stream plan result).1 hc
      rw [hs] at hnf
      simp only [Option.some.injEq, Prod.mk.injEq] at hnf
      obtain ⟨h1, _, h3⟩ := hnf
      subst h1
      exact ⟨h3, hh⟩

/-- standard output destinations never touch the file system -/
theorem execute_world_of_not_lazy (dest : Dest) (plan : Plan) (w : World) (h : ∀ name, dest ≠ .lazy name)
    (hb : dest = .buffered → w.stdout = .terminal) : (execute dest plan w).world = w := by
  rw [execute_eq_deliver]
  cases hs : plan.stream with
  | none => rfl
  | some x =>
    obtain ⟨d, nf, succ⟩ := x
    cases dest with
    | stdout => exact (deliver_stdout w d nf succ).1
    | buffered => exact (deliver_buffered w d nf succ (hb rfl)).1
    | lazy name => exact absurd rfl (h name)

/-- with `-o`, nothing but the (resolved) output path changes and standard output stays empty -/
theorem execute_lazy_frame (name : Bytes) (plan : Plan) (w : World) :
    (execute (.lazy name) plan w).stdout = [] ∧
    ∀ u, resolve w name ≠ some u → (execute (.lazy name) plan w).world.get u = w.get u := by
  rw [execute_eq_deliver]
  cases hs : plan.stream with
  | none => exact ⟨rfl, fun _ _ => rfl⟩
  | some x =>
    obtain ⟨d, nf, succ⟩ := x
    obtain ⟨h0, h⟩ := deliver_lazy w name d nf succ
    refine ⟨h0, ?_⟩
    intro u hu
    rcases h with ⟨_, _, hw, _⟩ | ⟨_, ⟨_, hw, _⟩ | ⟨t, _, _, hw, _⟩ | ⟨t, m, hr, _, _, hfr, _⟩⟩
    · simp only; rw [hw]
    · simp only; rw [hw]
    · simp only; rw [hw]
    · exact hfr u (fun e => hu (by rw [e]; exact hr))

/-- a payload failure: non-zero exit, and whatever was written is a prefix of the plaintext -/
theorem execute_payload (dest : Dest) (w : World) (pt : Bytes) (n : Nat)
    (hb : dest = .buffered → w.stdout = .terminal) :
    (execute dest (.dec (.ok pt (some n))) w).exit = 1 ∧
    (execute dest (.dec (.ok pt (some n))) w).stdout <+: pt.take n ∧
    ∀ u, (execute dest (.dec (.ok pt (some n))) w).world.get u = w.get u ∨
      ∃ c m, (execute dest (.dec (.ok pt (some n))) w).world.get u = .file c m ∧ c <+: pt.take n := by
  rw [execute_eq_deliver]
  simp only [Plan.stream]
  cases dest with
  | stdout =>
    obtain ⟨hw, h⟩ := deliver_stdout w (pt.take n) true false
    refine ⟨?_, ?_, fun u => Or.inl (by rw [hw])⟩
    · cases hso : w.stdout <;> rw [hso] at h <;> simp [h.2]
    · cases hso : w.stdout with
      | terminal => rw [hso] at h; rw [h.1]; exact List.prefix_refl _
      | devFull => rw [hso] at h; rw [h.1]; exact List.nil_prefix
      | limited cap => rw [hso] at h; rw [h.1]; exact accept_prefix cap 0 _
  | buffered =>
    obtain ⟨hw, h1, h2⟩ := deliver_buffered w (pt.take n) true false (hb rfl)
    refine ⟨by simp [h2], by rw [h1]; exact List.nil_prefix, fun u => Or.inl (by rw [hw])⟩
  | lazy name =>
    obtain ⟨h0, h⟩ := deliver_lazy w name (pt.take n) true false
    rcases h with ⟨hnf, _⟩ | ⟨_, ⟨_, hw, he⟩ | ⟨t, _, _, hw, he⟩ | ⟨t, m, hr, _, hgt, hfr, he⟩⟩
    · simp at hnf
    · exact ⟨he, by rw [h0]; exact List.nil_prefix, fun u => Or.inl (by rw [hw])⟩
    · exact ⟨he, by rw [h0]; exact List.nil_prefix, fun u => Or.inl (by rw [hw])⟩
    · refine ⟨by simp [he], by rw [h0]; exact List.nil_prefix, fun u => ?_⟩
      by_cases hu : u = t
      · subst hu
        exact Or.inr ⟨_, m, hgt, accept_prefix _ 0 _⟩
      · exact Or.inl (hfr u hu)

/-- an output that cannot be created or cannot take the whole result: non-zero exit -/
theorem execute_output_fails (dest : Dest) (plan : Plan) (w : World) (result : Bytes)
    (hct : ∀ ct, plan = .enc ct → ct ≠ [])
    (hc : plan.complete = some result) (hf : OutputFails w result dest) : (execute dest plan w).exit ≠ 0 := by
  rw [execute_eq_deliver]
  obtain ⟨nf, hs⟩ := (complete_iff_stream plan result).1 hc
  rw [hs]
  simp only
  have hne : nf = false → result ≠ [] := fun h => stream_enc_ne plan hct result (by rw [hs, h])
  cases hf with
  | stdoutFull hso =>
    have h := (deliver_stdout w result nf true).2
    rw [hso] at h
    rw [h.2]
    cases nf with
    | true => simp
    | false => simp [hne rfl]
  | stdoutCap c hso hlt =>
    have h := (deliver_stdout w result nf true).2
    rw [hso] at h
    rw [h.2, accept_zero_some]
    have : ¬ result.length ≤ c := by omega
    simp [this]
  | create name hcr =>
    obtain ⟨_, h⟩ := deliver_lazy w name result nf true
    rcases h with ⟨hnf, hd, _, _⟩ | ⟨_, ⟨_, _, he⟩ | ⟨t, _, _, _, he⟩ | ⟨t, m, hr, hg, _, _, _⟩⟩
    · exact absurd hd (hne hnf)
    · simp [he]
    · simp [he]
    · rcases create_none w name hcr with hn | ⟨t', hr', hg'⟩
      · rw [hn] at hr; simp at hr
      · rw [resolve_unique hr' hr] at hg'
        rcases hg with ⟨h1, _⟩ | ⟨c, h1⟩ <;> rw [hg'] at h1 <;> simp at h1
  | fileFull name t hr hg =>
    obtain ⟨_, h⟩ := deliver_lazy w name result nf true
    rcases h with ⟨hnf, hd, _, _⟩ | ⟨_, ⟨_, _, he⟩ | ⟨t', _, _, _, he⟩ | ⟨t', m, hr', hg', _, _, _⟩⟩
    · exact absurd hd (hne hnf)
    · simp [he]
    · simp [he]
    · rw [resolve_unique hr' hr] at hg'
      rcases hg' with ⟨h1, _⟩ | ⟨c, h1⟩ <;> rw [hg] at h1 <;> simp at h1
  | fileCap name l hfs hlt =>
    obtain ⟨_, h⟩ := deliver_lazy w name result nf true
    rcases h with ⟨hnf, hd, _, _⟩ | ⟨_, ⟨_, _, he⟩ | ⟨t', _, _, _, he⟩ | ⟨t', m, _, _, _, _, he⟩⟩
    · exact absurd hd (hne hnf)
    · simp [he]
    · simp [he]
    · rw [he, hfs, accept_zero_some]
      have : ¬ result.length ≤ l := by omega
      simp [this]
  | close name hcf =>
    obtain ⟨_, h⟩ := deliver_lazy w name result nf true
    rcases h with ⟨hnf, hd, _, _⟩ | ⟨_, ⟨_, _, he⟩ | ⟨t', _, _, _, he⟩ | ⟨t', m, _, _, _, _, he⟩⟩
    · exact absurd hd (hne hnf)
    · simp [he]
    · simp [he]
    · rw [he, hcf]; simp

end Cli
end AgeModel
