/-
  Proofs.StreamTamper — whatever byte string is presented as the payload: unless
  the AEAD opens something the encryptor never sealed (a forgery), what is
  released is a prefix of the original plaintext, and a clean end of stream is
  reached only with the whole of it.
-/
import Proofs.Nonce
import Proofs.StreamCanon
namespace AgeModel
namespace Stream

/-- the (nonce, plaintext) pairs the encryptor seals for plaintext `p` from chunk index `i` -/
def sealedFrom (C : Nat) (i : Nat) (p : Bytes) (fuel : Nat) : List (Bytes × Bytes) :=
  match fuel with
  | 0 => []
  | fuel+1 =>
    if p.length ≤ C then [(nonce i true, p)]
    else (nonce i false, p.take C) :: sealedFrom C (i+1) (p.drop C) fuel

/-- the (nonce, plaintext) pairs the reader successfully opens on input `c` from chunk index `i` -/
def openedFrom (A : AEAD) (C : Nat) (k : Bytes) (i : Nat) (c : Bytes) (fuel : Nat) : List (Bytes × Bytes) :=
  match fuel with
  | 0 => []
  | fuel+1 =>
    let E := C + A.T
    if c.length < E then
      if c.length = 0 then []
      else if i ≠ 0 ∧ c.length = A.T then []
      else match A.openF k (nonce i true) c with
        | some p => [(nonce i true, p)]
        | none => []
    else
      match A.openF k (nonce i false) (c.take E) with
      | some p => (nonce i false, p) :: openedFrom A C k (i+1) (c.drop E) fuel
      | none =>
        match A.openF k (nonce i true) (c.take E) with
        | some p => [(nonce i true, p)]
        | none => []

/-- every sealed pair from index `i` on carries a counter in `[i, i + fuel)` -/
theorem sealedFrom_index (C : Nat) : ∀ (fuel i : Nat) (p : Bytes) (x : Bytes × Bytes),
    x ∈ sealedFrom C i p fuel → ∃ j f, i ≤ j ∧ j < i + fuel ∧ x.1 = nonce j f := by
  intro fuel
  induction fuel with
  | zero => intro i p x h; simp [sealedFrom] at h
  | succ fuel ih =>
    intro i p x h
    unfold sealedFrom at h
    split at h
    · simp only [List.mem_singleton] at h; subst h; exact ⟨i, true, Nat.le_refl _, by omega, rfl⟩
    · simp only [List.mem_cons] at h
      rcases h with h | h
      · subst h; exact ⟨i, false, Nat.le_refl _, by omega, rfl⟩
      · obtain ⟨j, f, h1, h2, h3⟩ := ih (i+1) _ x h
        exact ⟨j, f, by omega, by omega, h3⟩

/-- membership of a pair with counter `i` in the sealed list pins down the chunk -/
theorem sealedFrom_head (C : Nat) (fuel i : Nat) (p : Bytes) (f : Bool) (q : Bytes)
    (hb : i + fuel + 1 < 2 ^ 88) (h : (nonce i f, q) ∈ sealedFrom C i p (fuel + 1)) :
    (f = true ∧ p.length ≤ C ∧ q = p) ∨ (f = false ∧ C < p.length ∧ q = p.take C) := by
  unfold sealedFrom at h
  split at h
  · rename_i hle
    simp only [List.mem_singleton, Prod.mk.injEq] at h
    have := nonce_inj i i f true (by omega) (by omega) h.1
    exact Or.inl ⟨this.2, hle, h.2⟩
  · rename_i hgt
    simp only [List.mem_cons, Prod.mk.injEq] at h
    rcases h with h | h
    · have := nonce_inj i i f false (by omega) (by omega) h.1
      exact Or.inr ⟨this.2, by omega, h.2⟩
    · obtain ⟨j, g, h1, h2, h3⟩ := sealedFrom_index C fuel (i+1) _ _ h
      simp only at h3
      have := nonce_inj i j f g (by omega) (by omega) h3
      omega

theorem tamper_aux (A : AEAD) (C : Nat) (hC : 0 < C) (k : Bytes) :
    ∀ (fuel : Nat) (i : Nat) (c p : Bytes) (fuelS : Nat),
      i + fuel + 1 < 2 ^ 88 → i + fuelS + 1 < 2 ^ 88 → p.length < fuelS →
      (∀ x ∈ openedFrom A C k i c fuel, x ∈ sealedFrom C i p fuelS) →
      (decFrom A C k false i c fuel).1 <+: p ∧
      ((decFrom A C k false i c fuel).2 = .eof → (decFrom A C k false i c fuel).1 = p) := by
  intro fuel
  induction fuel with
  | zero => intro i c p fs _ _ _ _; simp [decFrom]
  | succ fuel ih =>
    intro i c p fuelS hb hbs hp hno
    match fuelS with
    | 0 => omega
    | fuelS+1 =>
    unfold decFrom
    unfold openedFrom at hno
    simp only [Bool.false_eq_true, if_false] at hno ⊢
    split
    · rename_i hshort
      simp only [hshort, if_true] at hno
      split
      · simp
      · rename_i h0
        simp only [h0, if_false] at hno
        split
        · simp
        · rename_i hemp
          simp only [hemp, if_false] at hno
          split
          · rename_i q hop
            simp only [hop, List.mem_singleton, forall_eq] at hno
            rcases sealedFrom_head C fuelS i p true q (by omega) hno with ⟨_, _, hq⟩ | ⟨hf, _, _⟩
            · subst hq; exact ⟨List.prefix_refl _, fun _ => rfl⟩
            · simp at hf
          · simp
    · rename_i hfull
      simp only [hfull, if_false] at hno
      split
      · rename_i q hop
        simp only [hop, List.mem_cons, forall_eq_or_imp] at hno
        obtain ⟨hhead, htail⟩ := hno
        rcases sealedFrom_head C fuelS i p false q (by omega) hhead with ⟨hf, _, _⟩ | ⟨_, hgt, hq⟩
        · simp at hf
        · -- the rest of the opened pairs lie in the tail of the sealed list
          have htail' : ∀ x ∈ openedFrom A C k (i+1) (c.drop (C + A.T)) fuel, x ∈ sealedFrom C (i+1) (p.drop C) fuelS := by
            intro x hx
            have hm := htail x hx
            unfold sealedFrom at hm
            have hn : ¬ p.length ≤ C := by omega
            simp only [hn, if_false, List.mem_cons] at hm
            rcases hm with hm | hm
            · -- x would carry counter i, but every pair opened from i+1 on carries a counter ≥ i+1
              exfalso
              have hidx : ∀ (fuel j : Nat) (c : Bytes) (y : Bytes × Bytes), y ∈ openedFrom A C k j c fuel →
                  ∃ m g, j ≤ m ∧ m < j + fuel ∧ y.1 = nonce m g := by
                intro fuel
                induction fuel with
                | zero => intro j c y hy; simp [openedFrom] at hy
                | succ fuel ihf =>
                  intro j c y hy
                  unfold openedFrom at hy
                  simp only at hy
                  split at hy
                  · split at hy
                    · simp at hy
                    · split at hy
                      · simp at hy
                      · split at hy
                        · simp only [List.mem_singleton] at hy; subst hy; exact ⟨j, true, Nat.le_refl _, by omega, rfl⟩
                        · simp at hy
                  · split at hy
                    · simp only [List.mem_cons] at hy
                      rcases hy with hy | hy
                      · subst hy; exact ⟨j, false, Nat.le_refl _, by omega, rfl⟩
                      · obtain ⟨m, g, a1, a2, a3⟩ := ihf (j+1) _ y hy
                        exact ⟨m, g, by omega, by omega, a3⟩
                    · split at hy
                      · simp only [List.mem_singleton] at hy; subst hy; exact ⟨j, true, Nat.le_refl _, by omega, rfl⟩
                      · simp at hy
              obtain ⟨m, g, a1, a2, a3⟩ := hidx fuel (i+1) _ x hx
              rw [hm] at a3
              simp only at a3
              have := nonce_inj i m false g (by omega) (by omega) a3
              omega
            · exact hm
          have hrec := ih (i+1) (c.drop (C + A.T)) (p.drop C) fuelS (by omega) (by omega)
            (by rw [List.length_drop]; omega) htail'
          subst hq
          constructor
          · have := (List.prefix_append_right_inj (p.take C)).mpr hrec.1
            rwa [List.take_append_drop] at this
          · intro he
            simp only at he
            rw [hrec.2 he, List.take_append_drop]
      · rename_i hnone
        simp only [hnone] at hno
        split
        · rename_i q hop
          simp only [hop, List.mem_singleton, forall_eq] at hno
          rcases sealedFrom_head C fuelS i p true q (by omega) hno with ⟨_, _, hq⟩ | ⟨hf, _, _⟩
          · subst hq
            split
            · exact ⟨List.prefix_refl _, fun _ => rfl⟩
            · exact ⟨List.prefix_refl _, fun _ => rfl⟩
          · simp at hf
        · simp

end Stream
end AgeModel
