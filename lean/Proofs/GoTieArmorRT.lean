/-
  Proofs.GoTieArmorRT — the armor round trip stated about the two translated ends.

  `codeDrain` calls the TRANSLATED `(*armoredReader).Read` with buffers of the given sizes and
  collects what each call copied, until the first reported error — what `io.ReadAll` or any other
  consumer does. `codeDrain_tie`: from related states it yields what the model's `AReader.drain`
  yields (same bytes, corresponding error, related final states), for EVERY list of sizes.
  `code_armor_roundtrip` composes this with `armor_writer_tie` and the model's `dearmor ∘ armor = id`:
  whatever sequence of writes goes through the translated `(*armoredWriter).Write` and `.Close` into
  an empty destination, the translated reader over the destination's bytes returns exactly the
  concatenated input and then io.EOF — for every input, every split into writes, and every sequence
  of positive `Read` sizes long enough to reach the end.
-/
import Proofs.GoTieArmorR
import Proofs.GoTieArmorW
import Props.C08
namespace AgeModel
namespace GoTie
open Extracted Armor

/-- `Read` called with buffers of the given sizes; the bytes each call copied, up to the first error -/
def codeDrain (E : B64DecEnv) : armor_armoredReader → List Nat → Go.M (armor_armoredReader × Bytes × Option Go.Err)
  | g, [] => .ok (g, [], none)
  | g, n :: ns => do
    let res ← armor_armoredReader_Read E.Dec g (List.replicate n 0)
    match res.2.1 with
    | some e => pure (res.2.2.1, res.2.2.2.take res.1.toNat, some e)
    | none => do
      let t ← codeDrain E res.2.2.1 ns
      pure (t.1, res.2.2.2.take res.1.toNat ++ t.2.1, t.2.2)

theorem aErrRel_some_ne (m : AOut) (g : Option Go.Err) (h : aErrRel (some m) g) : g ≠ none := by
  cases m <;> simp only [aErrRel] at h <;> subst h <;> simp [Go.io_EOF]

/-- the translated reader, driven call by call, yields what the model's reader machine yields -/
theorem codeDrain_tie (E : B64DecEnv) : ∀ (sizes : List Nat) (g : armor_armoredReader) (m : AReader), ARel g m →
    ∃ g' ge, codeDrain E g sizes = .ok (g', (m.drain 1024 false sizes).2.1, ge) ∧
      aErrRel (m.drain 1024 false sizes).2.2 ge ∧ ARel g' (m.drain 1024 false sizes).1
  | [], g, m, h => ⟨g, none, rfl, rfl, h⟩
  | n :: ns, g, m, h => by
    obtain ⟨res, hres, h1, h2, h3, h4⟩ := armor_read_tie E g m h (List.replicate n 0)
    simp only [List.length_replicate] at h1 h2 h3 h4
    have htake : res.2.2.2.take res.1.toNat = (m.read1 1024 false n).2.1 := by
      rw [h1, h2]; simp
    generalize hm : m.read1 1024 false n = mr at h1 h2 h3 h4 htake
    obtain ⟨r1, out, e⟩ := mr
    cases e with
    | some e =>
      have hne := aErrRel_some_ne e _ h3
      cases hge : res.2.1 with
      | none => exact absurd hge hne
      | some ge =>
        refine ⟨res.2.2.1, some ge, ?_, ?_, ?_⟩
        · simp only [codeDrain, hres, bind, Except.bind, hge, pure, Except.pure, AReader.drain, hm, htake]
        · simp only [AReader.drain, hm]; rw [← hge]; exact h3
        · simp only [AReader.drain, hm]; exact h4
    | none =>
      have hge : res.2.1 = none := by simpa [aErrRel] using h3
      obtain ⟨g', ge, hd, he, hr⟩ := codeDrain_tie E ns res.2.2.1 r1 h4
      refine ⟨g', ge, ?_, ?_, ?_⟩
      · simp only [codeDrain, hres, bind, Except.bind, hge, pure, Except.pure, AReader.drain, hm, htake, hd]
      · simp only [AReader.drain, hm]; exact he
      · simp only [AReader.drain, hm]; exact hr

/-- **armor round trip, about the code**: write anything, in any pieces, through the translated
    `armoredWriter` (then `Close`) into an empty destination; the translated `armoredReader` over what
    the destination holds returns the concatenated input and then io.EOF -/
theorem code_armor_roundtrip {δ ω : Type} (W : ArmorWEnv δ ω) (D : B64DecEnv) (ww0 : ω) (d0 : δ)
    (h0 : W.absI ww0 = [] ∧ W.absO ww0 = [] ∧ W.isOpen ww0) (hd0 : W.absD d0 = []) (ps : List Bytes)
    (sizes : List Nat) (hpos : ∀ s ∈ sizes, 0 < s)
    (hlong : ps.flatten.length + (armor ps.flatten).length + 2 < sizes.length) :
    ∃ a1 a2 g', armorWrites W ⟨false, false, ww0, d0⟩ ps = .ok (none, a1) ∧
      armor_armoredWriter_Close W.W W.Cl W.LE a1 = .ok (none, a2) ∧
      codeDrain D ⟨W.absD a2.dst, false, 0, 0, List.replicate 48 0, none⟩ sizes = .ok (g', ps.flatten, Go.io_EOF) := by
  obtain ⟨a1, a2, hw, hc, hd, _⟩ := armor_writer_tie W ww0 d0 h0 ps
  rw [hd0, List.nil_append] at hd
  have hrt := Props.C08.dearmor_armor 1024 (by decide) ps.flatten
  obtain ⟨r', hdr⟩ := Props.C08.armor_reader_refines_spec 1024 false (armor ps.flatten) sizes hpos (by rw [hrt]; exact hlong)
  rw [hrt] at hdr
  obtain ⟨g', ge, hcd, he, _⟩ := codeDrain_tie D sizes _ _ (armor_new_rel (armor ps.flatten))
  rw [hdr] at hcd he
  simp only [aErrRel] at he
  subst he
  exact ⟨a1, a2, g', hw, hc, by rw [hd]; exact hcd⟩

end GoTie
end AgeModel
