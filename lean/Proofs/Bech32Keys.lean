/-
  Proofs.Bech32Keys — lemmas about the key-string layer (AgeModel/Keys.lean)
  used by Props/C09.lean and Props/C17.lean.
-/
import Proofs.Bech32Codec
import AgeModel.Keys
namespace AgeModel
namespace Keys
open Bech32

instance instDecEqExcept {ε α : Type} [DecidableEq ε] [DecidableEq α] : DecidableEq (Except ε α)
  | .ok a, .ok b => if h : a = b then isTrue (by rw [h]) else isFalse (fun e => h (by cases e; rfl))
  | .error a, .error b => if h : a = b then isTrue (by rw [h]) else isFalse (fun e => h (by cases e; rfl))
  | .ok _, .error _ => isFalse (fun e => by cases e)
  | .error _, .ok _ => isFalse (fun e => by cases e)

/-! ## bytes of plugin names -/

/-- allowed characters are printable, are not path separators or the Bech32
    separator... (the digit `1` *is* allowed), and stay allowed under case mapping -/
theorem allowed_facts : ∀ c : UInt8, allowed.contains c = true →
    badByte c = false ∧ c ≠ 0x2f ∧ c ≠ 0x5c ∧ allowed.contains (lowerByte c) = true ∧
    allowed.contains (upperByte c) = true := by
  apply forall_u8; decide +kernel

/-- the allow-list, spelled as character classes -/
theorem allowed_iff : ∀ c : UInt8, allowed.contains c = true ↔
    ((0x61 ≤ c ∧ c ≤ 0x7a) ∨ (0x41 ≤ c ∧ c ≤ 0x5a) ∨ (0x30 ≤ c ∧ c ≤ 0x39) ∨
     c = 0x2b ∨ c = 0x2d ∨ c = 0x2e ∨ c = 0x5f) := by
  apply forall_u8; decide +kernel

theorem validPluginName_iff (n : Bytes) :
    validPluginName n = true ↔ n ≠ [] ∧ ∀ c ∈ n, allowed.contains c = true := by
  unfold validPluginName
  by_cases h : n = []
  · simp [h]
  · simp only [h, if_false, List.all_eq_true, ne_eq, not_false_eq_true, true_and]

theorem valid_noBad {n : Bytes} (h : validPluginName n = true) : hasBadByte n = false := by
  obtain ⟨_, hall⟩ := (validPluginName_iff n).mp h
  simp only [hasBadByte, List.any_eq_false]
  intro c hc
  rw [(allowed_facts c (hall c hc)).1]
  decide

theorem valid_noSep {n : Bytes} (h : validPluginName n = true) : (0x2f : UInt8) ∉ n ∧ (0x5c : UInt8) ∉ n := by
  obtain ⟨_, hall⟩ := (validPluginName_iff n).mp h
  constructor
  · intro hc; exact (allowed_facts _ (hall _ hc)).2.1 rfl
  · intro hc; exact (allowed_facts _ (hall _ hc)).2.2.1 rfl

theorem valid_toLower {n : Bytes} (h : validPluginName n = true) : validPluginName (toLower n) = true := by
  obtain ⟨hne, hall⟩ := (validPluginName_iff n).mp h
  apply (validPluginName_iff _).mpr
  refine ⟨?_, ?_⟩
  · intro he; apply hne
    have := congrArg List.length he
    simp only [toLower_length, List.length_nil] at this
    exact List.length_eq_zero_iff.mp this
  · intro c hc
    simp only [toLower, List.mem_map] at hc
    obtain ⟨d, hd, rfl⟩ := hc
    exact (allowed_facts d (hall d hd)).2.2.2.1

theorem valid_toUpper {n : Bytes} (h : validPluginName n = true) : validPluginName (toUpper n) = true := by
  obtain ⟨hne, hall⟩ := (validPluginName_iff n).mp h
  apply (validPluginName_iff _).mpr
  refine ⟨?_, ?_⟩
  · intro he; apply hne
    have := congrArg List.length he
    simp only [toUpper_length, List.length_nil] at this
    exact List.length_eq_zero_iff.mp this
  · intro c hc
    simp only [toUpper, List.mem_map] at hc
    obtain ⟨d, hd, rfl⟩ := hc
    exact (allowed_facts d (hall d hd)).2.2.2.2

/-! ## case of whole strings -/

theorem map_eq_self {f : UInt8 → UInt8} : ∀ {s : Bytes}, s.map f = s → ∀ c ∈ s, f c = c
  | [], _, c, hc => by simp at hc
  | x :: xs, h, c, hc => by
    simp only [List.map_cons, List.cons.injEq] at h
    rcases List.mem_cons.mp hc with rfl | hc
    · exact h.1
    · exact map_eq_self h.2 c hc

/-- an unmixed string containing a lower-case letter is lower case -/
theorem lower_of_mem {s : Bytes} (h : toLower s = s ∨ toUpper s = s) {c : UInt8} (hc : c ∈ s) (hl : upperByte c ≠ c) :
    toLower s = s := by
  rcases h with h | h
  · exact h
  · exact absurd (map_eq_self h c hc) hl

/-- an unmixed string containing an upper-case letter is upper case -/
theorem upper_of_mem {s : Bytes} (h : toLower s = s ∨ toUpper s = s) {c : UInt8} (hc : c ∈ s) (hl : lowerByte c ≠ c) :
    toUpper s = s := by
  rcases h with h | h
  · exact absurd (map_eq_self h c hc) hl
  · exact h

/-! ## package strings -/

theorem hasPrefix_iff (s p : Bytes) : hasPrefix s p = true ↔ ∃ t, s = p ++ t := by
  unfold hasPrefix
  rw [List.isPrefixOf_iff_prefix]
  constructor
  · rintro ⟨t, rfl⟩; exact ⟨t, rfl⟩
  · rintro ⟨t, rfl⟩; exact ⟨t, rfl⟩

theorem hasSuffix_iff (s p : Bytes) : hasSuffix s p = true ↔ ∃ t, s = t ++ p := by
  unfold hasSuffix
  rw [List.isSuffixOf_iff_suffix]
  constructor
  · rintro ⟨t, rfl⟩; exact ⟨t, rfl⟩
  · rintro ⟨t, rfl⟩; exact ⟨t, rfl⟩

theorem trimPrefix_append (p t : Bytes) : trimPrefix (p ++ t) p = t := by
  unfold trimPrefix
  rw [if_pos ((hasPrefix_iff _ _).mpr ⟨t, rfl⟩)]
  simp

theorem trimSuffix_append (t p : Bytes) : trimSuffix (t ++ p) p = t := by
  unfold trimSuffix
  rw [if_pos ((hasSuffix_iff _ _).mpr ⟨t, rfl⟩)]
  simp

/-! ## the fixed HRPs -/

theorem hrpAge_ok : hrpAge ≠ [] ∧ hasBadByte hrpAge = false ∧ toLower hrpAge = hrpAge := by decide
theorem hrpSecret_ok : hrpSecret ≠ [] ∧ hasBadByte hrpSecret = false ∧ toUpper hrpSecret = hrpSecret ∧
    toLower hrpSecret ≠ hrpSecret := by decide
theorem pfxAge1_ok : hasBadByte pfxAge1 = false ∧ toLower pfxAge1 = pfxAge1 := by decide
theorem pfxPlugin_ok : hasBadByte pfxPlugin = false ∧ toUpper pfxPlugin = pfxPlugin ∧ toLower pfxPlugin ≠ pfxPlugin := by
  decide

theorem encodeOrEmpty_of_ok {hrp data s : Bytes} (h : encode hrp data = .ok s) : encodeOrEmpty hrp data = s := by
  simp only [encodeOrEmpty, h]

/-- an upper-case HRP gives an upper-case string -/
theorem encode_upper {hrp data s : Bytes} (h : encode hrp data = .ok s) (hn : toLower hrp ≠ hrp) : toUpper s = s := by
  obtain ⟨_, _, _, _, _, _, _, e6⟩ := encode_ok h
  rw [if_neg hn] at e6
  rw [e6, toUpper_idem]

/-- the encoder's output is never empty -/
theorem encode_ne_nil {hrp data s : Bytes} (h : encode hrp data = .ok s) : s ≠ [] := by
  have := decode_encode h
  intro he
  subst he
  have h0 : decode [] = .error .badSeparator := rfl
  rw [h0] at this
  cases this

/-! ## native strings -/

theorem decode_recipientString (k : Bytes) :
    ∃ s, encode hrpAge k = .ok s ∧ recipientString k = s ∧ decode s = .ok (hrpAge, k) := by
  obtain ⟨d5, cs, _, _, _, _, _, _, _, h⟩ := encode_of_valid hrpAge k hrpAge_ok.1 hrpAge_ok.2.1 (Or.inr hrpAge_ok.2.2)
  exact ⟨_, h, encodeOrEmpty_of_ok h, decode_encode h⟩

theorem decode_identityString (k : Bytes) :
    ∃ s, encode hrpSecret k = .ok s ∧ identityString k = s ∧ decode s = .ok (hrpSecret, k) := by
  obtain ⟨d5, cs, _, _, _, _, _, _, _, h⟩ := encode_of_valid hrpSecret k hrpSecret_ok.1 hrpSecret_ok.2.1
    (Or.inl hrpSecret_ok.2.2.1)
  refine ⟨_, h, ?_, decode_encode h⟩
  unfold identityString
  rw [encodeOrEmpty_of_ok h, encode_upper h hrpSecret_ok.2.2.2]

/-- everything a successfully parsed native recipient string consists of -/
theorem parseX25519Recipient_ok {s k : Bytes} (h : parseX25519Recipient s = .ok k) :
    decode s = .ok (hrpAge, k) ∧ k.length = 32 := by
  unfold parseX25519Recipient at h
  cases hd : decode s with
  | error e => rw [hd] at h; cases h
  | ok r =>
    obtain ⟨t, k'⟩ := r
    rw [hd] at h
    simp only [] at h
    by_cases ht : t ≠ hrpAge
    · rw [if_pos ht] at h; cases h
    rw [if_neg ht] at h
    by_cases hl : k'.length ≠ 32
    · rw [if_pos hl] at h; cases h
    rw [if_neg hl] at h
    cases h
    have : t = hrpAge := Classical.not_not.mp ht
    have hl' : k.length = 32 := Classical.not_not.mp hl
    rw [this]
    exact ⟨rfl, hl'⟩

theorem parseX25519Identity_ok {s k : Bytes} (h : parseX25519Identity s = .ok k) :
    decode s = .ok (hrpSecret, k) ∧ k.length = 32 := by
  unfold parseX25519Identity at h
  cases hd : decode s with
  | error e => rw [hd] at h; cases h
  | ok r =>
    obtain ⟨t, k'⟩ := r
    rw [hd] at h
    simp only [] at h
    by_cases ht : t ≠ hrpSecret
    · rw [if_pos ht] at h; cases h
    rw [if_neg ht] at h
    by_cases hl : k'.length ≠ 32
    · rw [if_pos hl] at h; cases h
    rw [if_neg hl] at h
    cases h
    have : t = hrpSecret := Classical.not_not.mp ht
    have hl' : k.length = 32 := Classical.not_not.mp hl
    rw [this]
    exact ⟨rfl, hl'⟩

/-- a string that decodes with a lower-case-lettered HRP is lower case -/
theorem decoded_lower {s hrp data : Bytes} (h : decode s = .ok (hrp, data)) {c : UInt8} (hc : c ∈ hrp)
    (hl : upperByte c ≠ c) : toLower s = s := by
  obtain ⟨D, d5, d1, _, _, d4, _⟩ := decode_ok h
  exact lower_of_mem d4 (by rw [d1]; exact List.mem_append_left _ hc) hl

theorem decoded_upper {s hrp data : Bytes} (h : decode s = .ok (hrp, data)) {c : UInt8} (hc : c ∈ hrp)
    (hl : lowerByte c ≠ c) : toUpper s = s := by
  obtain ⟨D, d5, d1, _, _, d4, _⟩ := decode_ok h
  exact upper_of_mem d4 (by rw [d1]; exact List.mem_append_left _ hc) hl

/-- length of a string that decodes to 32 bytes -/
theorem decoded_length_32 {s hrp data : Bytes} (h : decode s = .ok (hrp, data)) (hl : data.length = 32) :
    s.length = hrp.length + 59 := by
  obtain ⟨D, d5, d1, _, _, _, _, _, d7, d8⟩ := decode_ok h
  have hlen := mapOpt_length _ _ _ d7
  simp only [List.length_append, createChecksum_length, toLower_length] at hlen
  obtain ⟨c1, c2⟩ := convertBits_5_8_length d5 data d8
  rw [d1]
  simp only [List.length_append, List.length_cons]
  omega

/-! ## plugin strings -/

theorem parseRecipient_ok {s name data : Bytes} (h : parseRecipient s = .ok (name, data)) :
    decode s = .ok (pfxAge1 ++ name, data) ∧ validPluginName name = true := by
  unfold parseRecipient at h
  cases hd : decode s with
  | error e => rw [hd] at h; cases h
  | ok r =>
    obtain ⟨hrp, data'⟩ := r
    rw [hd] at h
    simp only [] at h
    by_cases hp : hasPrefix hrp pfxAge1 = true
    · simp only [hp, Bool.not_true, Bool.false_eq_true, if_false] at h
      by_cases hv : validPluginName (trimPrefix hrp pfxAge1) = true
      · simp only [hv, Bool.not_true, Bool.false_eq_true, if_false, Except.ok.injEq, Prod.mk.injEq] at h
        obtain ⟨h1, h2⟩ := h
        subst h1 h2
        obtain ⟨t, ht⟩ := (hasPrefix_iff _ _).mp hp
        subst ht
        rw [trimPrefix_append] at hv ⊢
        exact ⟨rfl, hv⟩
      · simp only [hv, Bool.not_false, if_true] at h; cases h
    · simp only [hp, Bool.not_false, if_true] at h; cases h

theorem parseIdentity_ok {s name data : Bytes} (h : parseIdentity s = .ok (name, data)) :
    ∃ X, decode s = .ok (pfxPlugin ++ X ++ dash, data) ∧ name = toLower X ∧ validPluginName name = true := by
  unfold parseIdentity at h
  cases hd : decode s with
  | error e => rw [hd] at h; cases h
  | ok r =>
    obtain ⟨hrp, data'⟩ := r
    rw [hd] at h
    simp only [] at h
    by_cases hp : hasPrefix hrp pfxPlugin = true
    · by_cases hs : hasSuffix hrp dash = true
      · simp only [hp, hs, Bool.not_true, Bool.or_self, Bool.false_eq_true, if_false] at h
        by_cases hv : validPluginName (toLower (trimSuffix (trimPrefix hrp pfxPlugin) dash)) = true
        · simp only [hv, Bool.not_true, Bool.false_eq_true, if_false, Except.ok.injEq, Prod.mk.injEq] at h
          obtain ⟨h1, h2⟩ := h
          subst h2
          obtain ⟨t, ht⟩ := (hasPrefix_iff _ _).mp hp
          subst ht
          rw [trimPrefix_append] at hv h1
          -- t is not empty (the name is valid), so the final '-' of the HRP is the final '-' of t
          have htne : t ≠ [] := by
            intro he
            subst he
            revert hv
            decide
          obtain ⟨u, hu⟩ := (hasSuffix_iff _ _).mp hs
          have hlast : ∃ X, t = X ++ dash := by
            rcases List.eq_nil_or_concat t with he | ⟨X, b, hb⟩
            · exact absurd he htne
            · rw [List.concat_eq_append] at hb
              subst hb
              rw [← List.append_assoc] at hu
              have := (List.append_inj' hu rfl).2
              rw [dash] at this ⊢
              rw [this]
              exact ⟨X, rfl⟩
          obtain ⟨X, hX⟩ := hlast
          subst hX
          rw [trimSuffix_append] at hv h1
          refine ⟨X, by rw [List.append_assoc], h1.symm, by rw [← h1]; exact hv⟩
        · simp only [hv, Bool.not_false, if_true] at h; cases h
      · simp only [hs, Bool.not_false, Bool.or_true, if_true] at h; cases h
    · simp only [hp, Bool.not_false, Bool.true_or, if_true] at h; cases h

/-! ## vocabulary of the rejection theorems (Props/C09.lean) -/

/-- all four parsers (and hence `plugin.NewRecipient` / `NewIdentity`) reject `s`
    with a Bech32 error satisfying `P` -/
def RejectedWith (s : Bytes) (P : Bech32.Err → Prop) : Prop :=
  ∃ e, P e ∧ parseX25519Recipient s = .error (.bech32 e) ∧ parseX25519Identity s = .error (.bech32 e) ∧
    parseRecipient s = .error (.bech32 e) ∧ parseIdentity s = .error (.bech32 e) ∧
    newRecipient s = .error (.bech32 e) ∧ newIdentity s = .error (.bech32 e)

theorem rejected_of_decode {s : Bytes} {e : Bech32.Err} (h : decode s = .error e) : RejectedWith s (· = e) := by
  refine ⟨e, rfl, ?_, ?_, ?_, ?_, ?_, ?_⟩ <;>
    simp only [parseX25519Recipient, parseX25519Identity, parseRecipient, parseIdentity, newRecipient, newIdentity, h]

theorem error_of_not_ok {α : Type} (r : Except Keys.Err α) (h : ∀ a, r ≠ .ok a) : ∃ e, r = .error e := by
  cases r with
  | ok a => exact absurd rfl (h a)
  | error e => exact ⟨e, rfl⟩

/-- the string made of HRP `H`, data symbols `d5` and their valid checksum -/
def Assembled (H d5 cs : Bytes) : Prop :=
  H ≠ [] ∧ hasBadByte H = false ∧ toLower H = H ∧ (∀ x ∈ d5, x.toNat < 32) ∧
    mapOpt charsetAt (d5 ++ createChecksum H d5) = some cs

theorem decode_of_assembled {H d5 cs : Bytes} (h : Assembled H d5 cs) :
    decode (H ++ 0x31 :: cs) =
      match convertBits d5 5 8 false with
      | .error e => .error e
      | .ok b => .ok (H, b) := by
  obtain ⟨h1, h2, h3, h4, h5⟩ := h
  have hall : ∀ x ∈ d5 ++ createChecksum H d5, x.toNat < 32 := by
    intro x hx
    rcases List.mem_append.mp hx with hx | hx
    · exact h4 x hx
    · exact createChecksum_lt _ _ x hx
  obtain ⟨cs', c1, c2, c3, c4, c5⟩ := chars_of_syms _ hall
  rw [h5] at c1; cases c1
  exact decode_assembled H cs d5 h1 h2 c3 c4 (Or.inl (by rw [toLower_append, toLower_cons, h3, c2]; rfl))
    (by rw [c2]; exact c5)

end Keys
end AgeModel
