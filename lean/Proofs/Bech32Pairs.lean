/-
  Proofs.Bech32Pairs — the weight-4 computation, set up so that it can be split
  over 4 files (Proofs/Bech32Pairs0..3.lean) that lake builds in parallel.

  For every entry a of a row and the symbol-1 entry b of a *later* row of `tbl`,
  `(a ^^^ b) >>> 5` is not a key of `tree` (hence not `c >>> 5` for any table
  entry c): 49 476 probes.  A probe first consults a 2^16-bit bitset `P` of the
  keys reduced mod 2^16, held in one `Nat`; only if that bit is set (2.7 % of the
  probes) is the tree searched.  Chunk k handles the rows i with
  `min i (56 - i) % 4 = k` as the earlier row.
-/
import Proofs.Bech32Tables
namespace AgeModel
namespace Bech32

/-- the prefilter index of a 25-bit value -/
def pre (v : Nat) : Nat := v % 65536

/-- insert the (shifted) entries of a row into the prefilter bitset; each new
    bitset is forced to a literal (the kernel does not share thunks) -/
def insertP {β : Type} : List Nat → Nat → (Nat → β) → β
  | [], P, k => k P
  | a :: vs, P, k => force (P ||| 1 <<< pre (a >>> 5)) fun P' => insertP vs P' k

def insertRows {β : Type} : List (List Nat) → Nat → (Nat → β) → β
  | [], P, k => k P
  | row :: rest, P, k => insertP row P fun P' => insertRows rest P' k

/-- plain-fold specification of `insertP` / `insertRows` -/
def insP : List Nat → Nat → Nat
  | [], P => P
  | a :: vs, P => insP vs (P ||| 1 <<< pre (a >>> 5))

def insRows : List (List Nat) → Nat → Nat
  | [], P => P
  | row :: rest, P => insRows rest (insP row P)

theorem insertP_eq {β : Type} : ∀ (vs : List Nat) (P : Nat) (k : Nat → β), insertP vs P k = k (insP vs P)
  | [], _, _ => rfl
  | a :: vs, P, k => by simp only [insertP, force_eq, insP, insertP_eq vs]

theorem insertRows_eq {β : Type} : ∀ (t : List (List Nat)) (P : Nat) (k : Nat → β), insertRows t P k = k (insRows t P)
  | [], _, _ => rfl
  | row :: rest, P, k => by simp only [insertRows, insertP_eq, insRows, insertRows_eq rest]

theorem insP_mono : ∀ (vs : List Nat) (P i : Nat), P.testBit i = true → (insP vs P).testBit i = true
  | [], _, _, h => h
  | a :: vs, P, i, h => by
    apply insP_mono vs
    rw [Nat.testBit_or, h, Bool.true_or]

theorem insP_mem : ∀ (vs : List Nat) (P a : Nat), a ∈ vs → (insP vs P).testBit (pre (a >>> 5)) = true
  | [], _, _, h => by simp at h
  | b :: vs, P, a, h => by
    rcases List.mem_cons.mp h with rfl | h
    · apply insP_mono vs
      rw [Nat.testBit_or, Nat.testBit_shiftLeft]
      simp
    · exact insP_mem vs _ a h

theorem insRows_mono : ∀ (t : List (List Nat)) (P i : Nat), P.testBit i = true → (insRows t P).testBit i = true
  | [], _, _, h => h
  | row :: rest, P, i, h => insRows_mono rest _ i (insP_mono row P i h)

theorem insRows_mem : ∀ (t : List (List Nat)) (P : Nat) (row : List Nat) (a : Nat), row ∈ t → a ∈ row →
    (insRows t P).testBit (pre (a >>> 5)) = true
  | [], _, _, _, h, _ => by simp at h
  | r :: rest, P, row, a, h, ha => by
    rcases List.mem_cons.mp h with rfl | h
    · exact insRows_mono rest _ _ (insP_mem row P a ha)
    · exact insRows_mem rest _ row a h ha

/-- the prefilter for the whole table -/
def PF : Nat := insRows tbl 0

/-- `v` is not a key of the tree (consulting the bitset first) -/
def absent (P v : Nat) : Bool := force v fun w => !(P.testBit (pre w)) || (tree.find w).isNone

theorem absent_spec {P v : Nat} (h : absent P v = true) (hP : P.testBit (pre v) = true) : tree.find v = none := by
  simp only [absent, force_eq, hP, Bool.not_true, Bool.false_or, Option.isNone_iff_eq_none] at h
  exact h

/-- every entry of `row` against the *first* entry (symbol 1) of every row of `rest`;
    the other symbols of the later row are covered by GF(32)-linearity (Proofs/Bech32Scalar.lean) -/
def rowPairs (P : Nat) (row : List Nat) (rest : List (List Nat)) : Bool :=
  row.all fun a => rest.all fun row2 =>
    match row2 with
    | b :: _ => absent P ((a ^^^ b) >>> 5)
    | [] => true

def sel (k i : Nat) : Bool := (min i (56 - i)) % 4 == k

def pairsSel (P k : Nat) : Nat → List (List Nat) → Bool
  | _, [] => true
  | i, row :: rest => (if sel k i then rowPairs P row rest else true) && pairsSel P k (i + 1) rest

/-- chunk `k` of the computation (k = 0..3): rows i with `min i (56-i) % 4 = k` as the earlier row -/
def chunk (k : Nat) : Bool := insertRows tbl 0 fun P => pairsSel P k 0 tbl

/-- all rows against all later rows -/
def PairsAll (P : Nat) : List (List Nat) → Prop
  | [] => True
  | row :: rest => rowPairs P row rest = true ∧ PairsAll P rest

theorem pairsAll_of_chunks (P : Nat) : ∀ (t : List (List Nat)) (i : Nat),
    (∀ k, k < 4 → pairsSel P k i t = true) → PairsAll P t
  | [], _, _ => trivial
  | row :: rest, i, h => by
    refine ⟨?_, pairsAll_of_chunks P rest (i + 1) fun k hk => ?_⟩
    · have := h ((min i (56 - i)) % 4) (Nat.mod_lt _ (by decide))
      simp only [pairsSel, sel, beq_self_eq_true, if_true, Bool.and_eq_true] at this
      exact this.1
    · have := h k hk
      simp only [pairsSel, Bool.and_eq_true] at this
      exact this.2

theorem pairsAll_get (P : Nat) : ∀ (t : List (List Nat)), PairsAll P t →
    ∀ i j (hij : i < j) (hj : j < t.length), ∀ a ∈ t[i]'(Nat.lt_trans hij hj), ∀ b tl, t[j] = b :: tl →
      absent P ((a ^^^ b) >>> 5) = true
  | [], _, _, j, _, hj => by simp at hj
  | row :: rest, ⟨h1, h2⟩, i, j, hij, hj => by
    intro a ha b tl hb
    cases j with
    | zero => omega
    | succ j =>
      simp only [List.getElem_cons_succ] at hb
      cases i with
      | zero =>
        simp only [List.getElem_cons_zero] at ha
        simp only [rowPairs, List.all_eq_true] at h1
        have := h1 a ha _ (List.getElem_mem (by simpa using hj))
        rw [hb] at this
        exact this
      | succ i =>
        simp only [List.getElem_cons_succ] at ha
        exact pairsAll_get P rest h2 i j (by omega) (by simpa using hj) a ha b tl hb

end Bech32
end AgeModel
