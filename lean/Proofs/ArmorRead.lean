/-
  Proofs.ArmorRead — de-armoring the canonical armor of `b` yields `b` and a clean end.
-/
import AgeModel.Armor
import Proofs.B64Std
import Proofs.FormatLines
namespace AgeModel
namespace Armor
open Format (nl cr sp takeLine takeLine_app takeLine_eq wrap wrap_short wrap_app64)
open B64

theorem nl_not_mem_encStd (b : Bytes) : nl ∉ encStd b := encStd_not_mem b nl (Or.inl rfl)
theorem cr_not_mem_encStd (b : Bytes) : cr ∉ encStd b := encStd_not_mem b cr (Or.inr (Or.inl rfl))

theorem trimCR_of_not_mem {l : Bytes} (h : cr ∉ l) : trimCR l = l := by
  unfold trimCR
  cases hl : l.getLast? with
  | none => rfl
  | some c =>
    simp only
    have hc : c ∈ l := List.mem_of_getLast? hl
    have : c ≠ cr := fun e => h (e ▸ hc)
    simp [this]

/-- a line followed by LF, the line containing neither LF nor CR -/
theorem getLine_line (fail : Bool) (l r : Bytes) (hn : nl ∉ l) (hc : cr ∉ l) :
    getLine fail (l ++ nl :: r) = some (l, r) := by
  unfold getLine
  cases h : l ++ nl :: r with
  | nil => simp at h
  | cons x xs =>
    rw [← h, takeLine_app l r hn]
    simp [trimCR_of_not_mem hc]

theorem header_props : nl ∉ header ∧ cr ∉ header ∧ allSpace header = false := by decide
theorem footer_props : nl ∉ footer ∧ cr ∉ footer := by decide

theorem encStd_ne_footer (x : Bytes) : encStd x ≠ footer := by
  intro e
  have : (45 : UInt8) ∈ encStd x := by rw [e]; decide
  exact encStd_not_mem x 45 (Or.inr (Or.inr (Or.inr rfl))) this

theorem classify_enc (x : Bytes) (h0 : x ≠ []) (h48 : x.length ≤ 48) : classifyLine (encStd x) = .data x := by
  unfold classifyLine
  have hl := encStd_length x
  have hpos : 0 < x.length := List.length_pos_iff.mpr h0
  have h1 : ¬ (encStd x).length > 64 := by omega
  have h2 : ¬ (encStd x).length = 0 := by omega
  have h3 : (encStd x).any (fun c => c = cr || c = nl) = false := by
    rw [List.any_eq_false]
    intro c hc
    simp only [Bool.or_eq_true, decide_eq_true_eq, not_or]
    exact ⟨fun e => cr_not_mem_encStd x (e ▸ hc), fun e => nl_not_mem_encStd x (e ▸ hc)⟩
  simp [encStd_ne_footer x, h1, h2, h3, decStd_encStd]

theorem drainOK_nil (W : Nat) (hW : 0 < W) : drainOK W false [] = true := by
  unfold drainOK; simp [allSpace]; omega

/-- the tail of an armored text after the body lines -/
def tailOf (e : Bytes) : Bytes := (if e.length % 64 = 0 then [] else [nl]) ++ footer ++ [nl]

theorem readBody_armor (W : Nat) (hW : 0 < W) : ∀ (n : Nat) (b : Bytes), b.length < 48 * (n + 1) → ∀ (fuel : Nat), n + 1 < fuel →
    readBody W false fuel (wrap (encStd b) ++ tailOf (encStd b)) = (b, .eof) := by
  intro n
  induction n with
  | zero =>
    intro b hb fuel hf
    match fuel with
    | 0 => omega
    | fuel+1 =>
    unfold readBody
    by_cases h0 : b = []
    · subst h0
      simp only [encStd, tailOf, List.length_nil, Nat.zero_mod, if_true, List.nil_append]
      rw [wrap_short (by simp), List.nil_append, getLine_line false footer [] footer_props.1 footer_props.2]
      simp [classifyLine, drainOK_nil W hW]
    · have hl := encStd_length b
      have hpos : 0 < b.length := List.length_pos_iff.mpr h0
      have hshape : wrap (encStd b) ++ tailOf (encStd b) = encStd b ++ nl :: (footer ++ [nl]) := by
        by_cases hlt : (encStd b).length < 64
        · have hmod : ¬ (encStd b).length % 64 = 0 := by omega
          rw [wrap_short hlt]
          simp [tailOf, hmod]
        · have h64 : (encStd b).length = 64 := by omega
          have := wrap_app64 (x := encStd b) (y := []) h64
          rw [List.append_nil] at this
          rw [this, wrap_short (by simp)]
          simp [tailOf, h64]
      rw [hshape, getLine_line false _ _ (nl_not_mem_encStd b) (cr_not_mem_encStd b)]
      simp only [classify_enc b h0 (by omega)]
      have hb' : b.length < 48 := by omega
      simp only [hb', if_true]
      have e2 : footer ++ [nl] = footer ++ nl :: [] := by simp
      rw [e2, getLine_line false footer [] footer_props.1 footer_props.2]
      simp [drainOK_nil W hW]
  | succ n ih =>
    intro b hb fuel hf
    by_cases hlt : b.length < 48 * (n + 1)
    · exact ih b hlt fuel (by omega)
    · match fuel with
      | 0 => omega
      | fuel+1 =>
      have hsplit : b = b.take 48 ++ b.drop 48 := (List.take_append_drop 48 b).symm
      have ht : (b.take 48).length = 48 := by rw [List.length_take]; omega
      have hdl : (b.drop 48).length < 48 * (n + 1) := by rw [List.length_drop]; omega
      have henc : encStd b = encStd (b.take 48) ++ encStd (b.drop 48) := by
        conv => lhs; rw [hsplit]
        exact encStd_append _ _ (by omega)
      have hl48 : (encStd (b.take 48)).length = 64 := by rw [encStd_length, ht]
      have htail : tailOf (encStd b) = tailOf (encStd (b.drop 48)) := by
        unfold tailOf; rw [henc, List.length_append, hl48]; simp
      rw [htail, henc, wrap_app64 hl48]
      unfold readBody
      rw [List.append_assoc, List.cons_append,
        getLine_line false _ _ (nl_not_mem_encStd _) (cr_not_mem_encStd _)]
      have hne : b.take 48 ≠ [] := by intro e; rw [e] at ht; simp at ht
      simp only [classify_enc (b.take 48) hne (by omega)]
      have hnot : ¬ (b.take 48).length < 48 := by omega
      simp only [hnot, if_false]
      rw [ih (b.drop 48) hdl fuel (by omega)]
      simp

theorem wrap_length_ge' (cs : Bytes) : cs.length ≤ (wrap cs).length := by
  induction h : cs.length using Nat.strongRecOn generalizing cs with
  | _ n ih =>
    by_cases hlt : cs.length < 64
    · rw [wrap_short hlt]; omega
    · rw [wrap]; simp only [hlt, dite_false, List.length_append, List.length_cons, List.length_take]
      have := ih (cs.drop 64).length (by rw [List.length_drop]; omega) (cs.drop 64) rfl
      rw [List.length_drop] at this
      omega

/-- **dearmor ∘ armor = id** -/
theorem read_armor (W : Nat) (hW : 0 < W) (b : Bytes) : read W false (armor b) = (b, .eof) := by
  unfold read armor
  have e : header ++ [nl] ++ wrap (encStd b) ++ (if (encStd b).length % 64 = 0 then [] else [nl]) ++ footer ++ [nl]
      = header ++ nl :: (wrap (encStd b) ++ tailOf (encStd b)) := by simp [tailOf]
  rw [e]
  have hlead : readLeading W false ((header ++ nl :: (wrap (encStd b) ++ tailOf (encStd b))).length + 1)
      (header ++ nl :: (wrap (encStd b) ++ tailOf (encStd b))) 0 = some (wrap (encStd b) ++ tailOf (encStd b)) := by
    rw [readLeading, getLine_line false header _ header_props.1 header_props.2.1]
    simp [header_props.2.2]
  rw [hlead]
  simp only
  apply readBody_armor W hW (b.length / 48) b (by omega)
  have h1 := wrap_length_ge' (encStd b)
  have h2 := encStd_length b
  have h3 : 33 ≤ (tailOf (encStd b)).length := by
    unfold tailOf; split <;> simp [footer]
  rw [List.length_append]
  omega

end Armor
end AgeModel
