/-
  Proofs.GoTieSlicesEq — age.slicesEqual as translated is list equality
  (split out of Proofs.GoTieMisc so that a rewrite of one translated function only takes down the theorems about it)
-/
import AgeModel.GoSem
import AgeModel.Stream
import AgeModel.Format
import AgeModel.Keys
import AgeModel.Extracted.Funcs
namespace AgeModel
namespace GoTie
open Extracted

theorem idx_ofNat {α : Type} (a : List α) (i : Nat) (h : i < a.length) :
    Go.idx a (Int.ofNat i) = .ok a[i] := by
  simp [Go.idx, h]

theorem slicesEqual_loop (s1 s2 : List Bytes) : ∀ (is : List Nat),
    (∀ i ∈ is, i < s1.length ∧ i < s2.length) →
    age_slicesEqual_loop1 s1 s2 (is.map Int.ofNat) =
      .ok (if is.all (fun i => s1[i]? == s2[i]?) then .next () else .ret false)
  | [], _ => rfl
  | i :: rest, h => by
    have hi := h i (List.mem_cons_self ..)
    have ih := slicesEqual_loop s1 s2 rest (fun j hj => h j (List.mem_cons_of_mem _ hj))
    simp only [List.map_cons, age_slicesEqual_loop1, idx_ofNat s1 i hi.1, idx_ofNat s2 i hi.2,
      bind, Except.bind, pure, Except.pure, List.all_cons, List.getElem?_eq_getElem hi.1,
      List.getElem?_eq_getElem hi.2, ih]
    by_cases he : s1[i] = s2[i]
    · simp [he]
    · simp [he]

theorem rangeUp_0 (n : Nat) : Go.rangeUp 0 (Int.ofNat n) = (List.range n).map Int.ofNat := by
  simp [Go.rangeUp]

theorem slicesEqual_tie (a b : List Bytes) : age_slicesEqual a b = .ok (decide (a = b)) := by
  by_cases hl : a.length = b.length
  · have hl' : (Int.ofNat a.length != Int.ofNat b.length) = false := by
      rw [hl]; exact bne_self_eq_false _
    have hloop := slicesEqual_loop a b (List.range a.length)
      (fun i hi => by have := List.mem_range.mp hi; omega)
    simp only [age_slicesEqual, Go.len, hl', rangeUp_0, hloop, bind, Except.bind, pure, Except.pure,
      Bool.false_eq_true, if_false]
    by_cases hab : a = b
    · subst hab
      simp
    · have : (List.range a.length).all (fun i => a[i]? == b[i]?) = false := by
        rw [Bool.eq_false_iff]
        intro hall
        apply hab
        apply List.ext_getElem? 
        intro i
        by_cases hi : i < a.length
        · have := List.all_eq_true.mp hall i (List.mem_range.mpr hi)
          simpa using this
        · rw [List.getElem?_eq_none (by omega), List.getElem?_eq_none (by omega)]
      simp [this, hab]
  · have hl' : (Go.len a != Go.len b) = true := by
      simp only [Go.len, Int.ofNat_eq_natCast, bne_iff_ne, ne_eq]; omega
    have hab : a ≠ b := fun h => hl (by rw [h])
    simp [age_slicesEqual, hl', hab, pure, Except.pure]


end GoTie
end AgeModel
