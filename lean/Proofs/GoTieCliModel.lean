/-
  Proofs.GoTieCliModel — the translated `decrypt` of cmd/age REFINES the command-line model of
  Props/C15 (AgeModel/Cli.lean, `Cli.execute`): with the output read as the model's process state
  (`Cli.Proc`) writing to a fixed `Cli.Dest`, `out.Write(nil)` as `Proc.write dest []` and
  `io.Copy(out, r)` as `Proc.writeNE dest` of the bytes the payload releases (failing after them if
  the payload is damaged), the translated function returns exactly when the model's `execute` reaches
  `finish`, with the model's final state — and otherwise ends the process at the exit site (2: the
  empty write failed, 3: the copy failed or the payload is damaged; no other fault) where the model
  exits 1, the model's result being the state that write left.
  So the C15 theorems about `execute` on the decrypting side (nothing is created when the header is
  refused, what is left behind by a payload failure is a prefix, exit 0 iff delivered) speak about
  the order of calls in the source.
-/
import AgeModel.Cli
import Proofs.GoTieCliDecrypt
namespace AgeModel
namespace GoTie
open Extracted Cli

/-- `out.Write(b)` in the model -/
def mWrite (eW : Go.Err) (dest : Dest) (p : Proc) (b : Bytes) : Go.M (Int × Option Go.Err × Proc) :=
  let r := p.write dest b
  .ok (0, if r.2 then none else some eW, r.1)

/-- `io.Copy(out, r)` in the model: the bytes the payload releases are written (never as an empty write); an error is
    reported if a write fails or if the payload is damaged after them -/
def mCopy (eW : Go.Err) (dest : Dest) (data : Bytes) (damaged : Bool) (p : Proc) (_r : Bytes) : Go.M (Int × Option Go.Err × Proc) :=
  let x := p.writeNE dest data
  .ok (Int.ofNat data.length, if x.2 && !damaged then none else some eW, x.1)

/-- The translated `decrypt` against `Cli.execute`, outcome by outcome. `r1` is the first, empty write (the one that makes
    the lazy opener create the file), `r2` the copy of the bytes the payload releases, from the state `r1` leaves.
    * it RETURNS only if both writes succeeded and the payload was whole, with exactly the state `r2.1`, and the model's
      result is `finish` of that state;
    * otherwise the fault is one of the two exit sites after `age.Decrypt` and nothing else (no index fault, no other
      panic number): site 2 (`errorf` after `out.Write(nil)`) exactly when the empty write failed, the model's result
      then being the state that write left, with status 1; site 3 (`errorf` after `io.Copy`) when the empty write
      succeeded and the copy failed or the payload is damaged after the released bytes, the model's result then being
      the state after the copy — the released prefix, as far as the destination took it — with status 1. -/
theorem cli_decrypt_refines {ι : Type} (eW : Go.Err) (dest : Dest) (pt : Bytes) (fa : Option Nat) (ids : List ι) (inp : Bytes)
    (w : World) (hm : mangled inp = false) (ha : armored inp = false) :
    let data : Bytes := match fa with | none => pt | some n => pt.take n
    let r1 := ({ w := w } : Proc).write dest []
    let r2 := r1.1.writeNE dest data
    match main_decrypt (fun b => pure b) (fun _ (_ : List ι) => .ok (pt, none)) (mWrite eW dest)
        (mCopy eW dest data fa.isSome) ids inp ({ w := w } : Proc) with
    | .ok p' => p' = r2.1 ∧ r1.2 = true ∧ r2.2 = true ∧ fa = none ∧ execute dest (.dec (.ok pt fa)) w = p'.finish dest
    | .error f =>
      (f = .panic 1002 ∧ r1.2 = false ∧ execute dest (.dec (.ok pt fa)) w = r1.1.result 1) ∨
      (f = .panic 1003 ∧ r1.2 = true ∧ (r2.2 = false ∨ fa.isSome = true) ∧
        execute dest (.dec (.ok pt fa)) w = r2.1.result 1) := by
  intro data r1 r2
  rw [cli_decrypt_tie]
  simp only [hm, ha, Bool.false_eq_true, if_false, bind, Except.bind, pure, Except.pure, mWrite, mCopy, execute,
    bne_self_eq_false]
  show match (if ((if r1.2 = true then none else some eW) != none) = true then Except.error (Go.Fault.panic 1002)
        else if ((if (r2.2 && !fa.isSome) = true then none else some eW) != none) = true then
          Except.error (Go.Fault.panic 1003) else Except.ok r2.1 : Go.M Proc) with
    | .ok p' => p' = r2.1 ∧ r1.2 = true ∧ r2.2 = true ∧ fa = none ∧
        (if (!r1.2) = true then r1.1.result 1 else if (!r2.2) = true then r2.1.result 1
          else if fa.isSome = true then r2.1.result 1 else r2.1.finish dest) = p'.finish dest
    | .error f =>
      (f = .panic 1002 ∧ r1.2 = false ∧
        (if (!r1.2) = true then r1.1.result 1 else if (!r2.2) = true then r2.1.result 1
          else if fa.isSome = true then r2.1.result 1 else r2.1.finish dest) = r1.1.result 1) ∨
      (f = .panic 1003 ∧ r1.2 = true ∧ (r2.2 = false ∨ fa.isSome = true) ∧
        (if (!r1.2) = true then r1.1.result 1 else if (!r2.2) = true then r2.1.result 1
          else if fa.isSome = true then r2.1.result 1 else r2.1.finish dest) = r2.1.result 1)
  generalize r2 = x2
  generalize r1 = x1
  obtain ⟨p1, ok1⟩ := x1
  obtain ⟨p2, ok2⟩ := x2
  cases ok1 <;> cases ok2 <;> cases fa <;> simp

/-- a header that is refused: the translated `decrypt` ends the process before any write — the model's `execute` exits 1
    with the world untouched -/
theorem cli_decrypt_refused_refines {ι : Type} (dest : Dest) (e : Go.Err) (ids : List ι) (inp : Bytes) (w : World)
    (hm : mangled inp = false) (ha : armored inp = false) :
    main_decrypt (fun b => pure b) (fun _ (_ : List ι) => .ok ([], some e)) (fun (_ : Proc) _ => .error (.panic 77))
        (fun _ _ => .error (.panic 78)) ids inp ({ w := w } : Proc) = .error (.panic 1001) ∧
      execute dest (.dec .headerRefused) w = ⟨1, w, []⟩ := by
  constructor
  · rw [cli_decrypt_tie]
    simp [hm, ha, bind, Except.bind, pure, Except.pure]
  · rfl

end GoTie
end AgeModel
