/-
  Proofs.GoTieCliModel — the translated `decrypt` of cmd/age REFINES the command-line model of
  Props/C15 (AgeModel/Cli.lean, `Cli.execute`): with the output read as the model's process state
  (`Cli.Proc`) writing to a fixed `Cli.Dest`, `out.Write(nil)` as `Proc.write dest []` and
  `io.Copy(out, r)` as `Proc.writeNE dest` of the bytes the payload releases (failing after them if
  the payload is damaged), the translated function returns exactly when the model's `execute` reaches
  `finish`, with the model's final state — and ends the process exactly where the model exits 1.
  So the C15 theorems about `execute` on the decrypting side (nothing is created when the header is
  refused, what is left behind by a payload failure is a prefix, exit 0 iff delivered) speak about
  the order of calls in the source.
-/
import AgeModel.Cli
import Proofs.GoTieCliDecrypt
namespace AgeModel
namespace GoTie
open Extracted Cli

/-- `out.Write(b)` in the model -/
def mWrite (eW : Go.Err) (dest : Dest) (p : Proc) (b : Bytes) : Go.M (Int × Option Go.Err × Proc) :=
  let r := p.write dest b
  .ok (0, if r.2 then none else some eW, r.1)

/-- `io.Copy(out, r)` in the model: the bytes the payload releases are written (never as an empty write); an error is
    reported if a write fails or if the payload is damaged after them -/
def mCopy (eW : Go.Err) (dest : Dest) (data : Bytes) (damaged : Bool) (p : Proc) (_r : Bytes) : Go.M (Int × Option Go.Err × Proc) :=
  let x := p.writeNE dest data
  .ok (Int.ofNat data.length, if x.2 && !damaged then none else some eW, x.1)

theorem cli_decrypt_refines {ι : Type} (eW : Go.Err) (dest : Dest) (pt : Bytes) (fa : Option Nat) (ids : List ι) (inp : Bytes)
    (w : World) (hm : mangled inp = false) (ha : armored inp = false) :
    match main_decrypt (fun b => pure b) (fun _ (_ : List ι) => .ok (pt, none)) (mWrite eW dest)
        (mCopy eW dest (match fa with | none => pt | some n => pt.take n) fa.isSome) ids inp ({ w := w } : Proc) with
    | .ok p' => execute dest (.dec (.ok pt fa)) w = p'.finish dest
    | .error _ => (execute dest (.dec (.ok pt fa)) w).exit = 1 := by
  rw [cli_decrypt_tie]
  simp only [hm, ha, Bool.false_eq_true, if_false, bind, Except.bind, pure, Except.pure, mWrite, mCopy, execute,
    bne_self_eq_false]
  cases h1 : Proc.write dest ({ w := w } : Proc) [] with
  | mk p1 ok1 =>
    cases ok1 with
    | false => simp [Proc.result]
    | true =>
      simp only [if_true, bne_self_eq_false, Bool.false_eq_true, if_false, Bool.not_true]
      cases h2 : Proc.writeNE dest p1 (match fa with | none => pt | some n => pt.take n) with
      | mk p2 ok2 =>
        cases ok2 with
        | false => simp [Proc.result]
        | true =>
          cases fa with
          | none => simp
          | some n => simp [Proc.result]

/-- a header that is refused: the translated `decrypt` ends the process before any write — the model's `execute` exits 1
    with the world untouched -/
theorem cli_decrypt_refused_refines {ι : Type} (dest : Dest) (e : Go.Err) (ids : List ι) (inp : Bytes) (w : World)
    (hm : mangled inp = false) (ha : armored inp = false) :
    main_decrypt (fun b => pure b) (fun _ (_ : List ι) => .ok ([], some e)) (fun (_ : Proc) _ => .error (.panic 77))
        (fun _ _ => .error (.panic 78)) ids inp ({ w := w } : Proc) = .error (.panic 1001) ∧
      execute dest (.dec .headerRefused) w = ⟨1, w, []⟩ := by
  constructor
  · rw [cli_decrypt_tie]
    simp [hm, ha, bind, Except.bind, pure, Except.pure]
  · rfl

end GoTie
end AgeModel
