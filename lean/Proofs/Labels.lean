/-
  Proofs.Labels — `sort.Strings` on labels: the result depends only on the
  multiset of labels, not on the order a recipient returns them in.
-/
import AgeModel.File
namespace AgeModel

theorem u8_lt_irrefl (a : UInt8) : ¬ a < a := by
  rw [UInt8.lt_iff_toNat_lt]; omega

theorem u8_trichotomy (a b : UInt8) (h1 : ¬ a < b) (h2 : ¬ b < a) : a = b := by
  rw [UInt8.lt_iff_toNat_lt] at h1 h2
  exact UInt8.toNat_inj.mp (by omega)

theorem bytesLe_total : ∀ (a b : Bytes), bytesLe a b = true ∨ bytesLe b a = true
  | [], _ => Or.inl (by simp [bytesLe])
  | _ :: _, [] => Or.inr (by simp [bytesLe])
  | x :: xs, y :: ys => by
    simp only [bytesLe]
    by_cases h1 : x < y
    · simp [h1]
    · by_cases h2 : y < x
      · simp [h1, h2]
      · simp only [h1, h2, if_false]
        exact bytesLe_total xs ys

theorem bytesLe_antisymm : ∀ (a b : Bytes), bytesLe a b = true → bytesLe b a = true → a = b
  | [], [], _, _ => rfl
  | [], _ :: _, _, h => by simp [bytesLe] at h
  | _ :: _, [], h, _ => by simp [bytesLe] at h
  | x :: xs, y :: ys, h1, h2 => by
    simp only [bytesLe] at h1 h2
    by_cases hxy : x < y
    · have hyx : ¬ y < x := by rw [UInt8.lt_iff_toNat_lt] at hxy ⊢; omega
      simp [hxy, hyx] at h2
    · by_cases hyx : y < x
      · simp [hxy, hyx] at h1
      · simp only [hxy, hyx, if_false] at h1 h2
        rw [u8_trichotomy x y hxy hyx, bytesLe_antisymm xs ys h1 h2]

theorem bytesLe_trans : ∀ (a b c : Bytes), bytesLe a b = true → bytesLe b c = true → bytesLe a c = true
  | [], _, _, _, _ => by simp [bytesLe]
  | _ :: _, [], _, h, _ => by simp [bytesLe] at h
  | _ :: _, _ :: _, [], _, h => by simp [bytesLe] at h
  | x :: xs, y :: ys, z :: zs, h1, h2 => by
    simp only [bytesLe, UInt8.lt_iff_toNat_lt] at h1 h2 ⊢
    by_cases hxy : x.toNat < y.toNat
    · by_cases hyz : y.toNat < z.toNat
      · have : x.toNat < z.toNat := by omega
        simp [this]
      · by_cases hzy : z.toNat < y.toNat
        · simp [hyz, hzy] at h2
        · have : x.toNat < z.toNat := by omega
          simp [this]
    · by_cases hyx : y.toNat < x.toNat
      · simp [hxy, hyx] at h1
      · simp only [hxy, hyx, if_false] at h1
        have hxe : x.toNat = y.toNat := by omega
        by_cases hyz : y.toNat < z.toNat
        · have : x.toNat < z.toNat := by omega
          simp [this]
        · by_cases hzy : z.toNat < y.toNat
          · simp [hyz, hzy] at h2
          · simp only [hyz, hzy, if_false] at h2
            have h3 : ¬ x.toNat < z.toNat := by omega
            have h4 : ¬ z.toNat < x.toNat := by omega
            simp only [h3, h4, if_false]
            exact bytesLe_trans xs ys zs h1 h2

def Sorted (l : List Bytes) : Prop := l.Pairwise (fun a b => bytesLe a b = true)

theorem insertLabel_perm (x : Bytes) : ∀ l : List Bytes, (insertLabel x l).Perm (x :: l)
  | [] => by simp [insertLabel]
  | y :: ys => by
    unfold insertLabel
    split
    · exact List.Perm.refl _
    · exact (List.Perm.cons y (insertLabel_perm x ys)).trans (List.Perm.swap x y ys)

theorem insertLabel_sorted (x : Bytes) : ∀ l : List Bytes, Sorted l → Sorted (insertLabel x l)
  | [], _ => by simp [insertLabel, Sorted]
  | y :: ys, h => by
    unfold insertLabel
    have hy : ∀ z ∈ ys, bytesLe y z = true := (List.pairwise_cons.mp h).1
    have hs : Sorted ys := (List.pairwise_cons.mp h).2
    split
    · rename_i hxy
      refine List.pairwise_cons.mpr ⟨?_, h⟩
      intro z hz
      simp only [List.mem_cons] at hz
      rcases hz with rfl | hz
      · exact hxy
      · exact bytesLe_trans x y z hxy (hy z hz)
    · rename_i hxy
      have hyx : bytesLe y x = true := by
        rcases bytesLe_total x y with h1 | h1
        · exact absurd h1 hxy
        · exact h1
      refine List.pairwise_cons.mpr ⟨?_, insertLabel_sorted x ys hs⟩
      intro z hz
      have := (insertLabel_perm x ys).mem_iff.mp hz
      simp only [List.mem_cons] at this
      rcases this with rfl | hz'
      · exact hyx
      · exact hy z hz'

theorem sortLabels_perm : ∀ l : List Bytes, (sortLabels l).Perm l
  | [] => List.Perm.refl _
  | x :: xs => (insertLabel_perm x (sortLabels xs)).trans (List.Perm.cons x (sortLabels_perm xs))

theorem sortLabels_sorted : ∀ l : List Bytes, Sorted (sortLabels l)
  | [] => List.Pairwise.nil
  | x :: xs => insertLabel_sorted x _ (sortLabels_sorted xs)

theorem sorted_perm_eq : ∀ (l₁ l₂ : List Bytes), Sorted l₁ → Sorted l₂ → l₁.Perm l₂ → l₁ = l₂
  | [], l₂, _, _, h => (List.Perm.nil_eq h)
  | a :: t₁, [], _, _, h => by have := h.length_eq; simp at this
  | a :: t₁, b :: t₂, h₁, h₂, hp => by
    have ha : ∀ z ∈ t₁, bytesLe a z = true := (List.pairwise_cons.mp h₁).1
    have hb : ∀ z ∈ t₂, bytesLe b z = true := (List.pairwise_cons.mp h₂).1
    have hab : a = b := by
      have ha2 : a ∈ b :: t₂ := hp.mem_iff.mp (by simp)
      have hb1 : b ∈ a :: t₁ := hp.mem_iff.mpr (by simp)
      simp only [List.mem_cons] at ha2 hb1
      rcases ha2 with e | ha2
      · exact e
      · rcases hb1 with e | hb1
        · exact e.symm
        · exact bytesLe_antisymm a b (ha b hb1) (hb a ha2)
    subst hab
    rw [sorted_perm_eq t₁ t₂ (List.pairwise_cons.mp h₁).2 (List.pairwise_cons.mp h₂).2 (List.Perm.cons_inv hp)]

/-- `sort.Strings` yields the same list for any two orderings of the same labels -/
theorem sortLabels_perm_invariant (l₁ l₂ : List Bytes) (h : l₁.Perm l₂) : sortLabels l₁ = sortLabels l₂ :=
  sorted_perm_eq _ _ (sortLabels_sorted l₁) (sortLabels_sorted l₂)
    ((sortLabels_perm l₁).trans (h.trans (sortLabels_perm l₂).symm))

/-- for duplicate-free label lists, equal sorted lists ⇔ equal as sets -/
theorem sortLabels_eq_iff_perm (l₁ l₂ : List Bytes) : sortLabels l₁ = sortLabels l₂ ↔ l₁.Perm l₂ := by
  constructor
  · intro h
    exact (sortLabels_perm l₁).symm.trans (h ▸ sortLabels_perm l₂)
  · exact sortLabels_perm_invariant l₁ l₂

end AgeModel
