/-
  Proofs.ScryptNul — a fact about the concrete key derivation the driver runs
  (the same algorithm as x/crypto/scrypt): the passphrase enters scrypt only as
  an HMAC key, HMAC pads a short key with zero bytes, so a passphrase and the
  same passphrase followed by NUL bytes (up to 64 bytes in all) derive the same
  key.  This is the Lean side of known finding K1 (C04).
-/
import AgeModel.Crypto.All
namespace AgeModel.Crypto.Impl

theorem hmacKeyBlock_push_zero (p : ByteArray) (h : p.size < 64) :
    hmacKeyBlock (p.push 0) = hmacKeyBlock p := by
  unfold hmacKeyBlock
  have h1 : ¬ (p.push 0).size > 64 := by rw [ByteArray.size_push]; omega
  have h2 : ¬ p.size > 64 := by omega
  simp only [h1, h2, if_false]
  apply ByteArray.ext
  simp only [ByteArray.data_append, ByteArray.data_push, zeros, ByteArray.size_push]
  have : 64 - p.size = (64 - (p.size + 1)) + 1 := by omega
  rw [this, Array.replicate_succ']
  simp
  
theorem pbkdf2_push_zero (p salt : ByteArray) (iter dkLen : Nat) (h : p.size < 64) :
    pbkdf2Sha256BA (p.push 0) salt iter dkLen = pbkdf2Sha256BA p salt iter dkLen := by
  unfold pbkdf2Sha256BA
  rw [hmacKeyBlock_push_zero p h]

theorem scrypt_push_zero (p salt : ByteArray) (logN r pp dkLen : Nat) (h : p.size < 64) :
    scryptBA (p.push 0) salt logN r pp dkLen = scryptBA p salt logN r pp dkLen := by
  unfold scryptBA
  simp only [pbkdf2_push_zero _ _ _ _ h]

end AgeModel.Crypto.Impl

namespace AgeModel.Crypto
open Impl

theorem toBA_snoc (l : List UInt8) (x : UInt8) : toBA (l ++ [x]) = (toBA l).push x := by
  unfold toBA
  apply ByteArray.ext
  simp [List.toByteArray_append]

theorem toBA_size (l : List UInt8) : (toBA l).size = l.length := by
  unfold toBA; simp

theorem scrypt_nul_suffix (pw salt : Bytes) (logN r p dkLen : Nat) (h : pw.length < 64) :
    scrypt (pw ++ [0]) salt logN r p dkLen = scrypt pw salt logN r p dkLen := by
  unfold scrypt
  rw [toBA_snoc, scrypt_push_zero _ _ _ _ _ _ (by rw [toBA_size]; exact h)]

end AgeModel.Crypto
