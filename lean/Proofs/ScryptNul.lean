/-
  Proofs.ScryptNul — a fact about the concrete key derivation the driver runs
  (the same algorithm as x/crypto/scrypt): the passphrase enters scrypt only as
  an HMAC key, HMAC pads a short key with zero bytes, so a passphrase and the
  same passphrase followed by NUL bytes (up to 64 bytes in all) derive the same
  key.  This is the Lean side of known finding K1 (C04).
-/
import AgeModel.Crypto.All
namespace AgeModel.Crypto.Impl

theorem hmacKeyBlock_push_zero (p : ByteArray) (h : p.size < 64) :
    hmacKeyBlock (p.push 0) = hmacKeyBlock p := by
  unfold hmacKeyBlock
  have h1 : ¬ (p.push 0).size > 64 := by rw [ByteArray.size_push]; omega
  have h2 : ¬ p.size > 64 := by omega
  simp only [h1, h2, if_false]
  apply ByteArray.ext
  simp only [ByteArray.data_append, ByteArray.data_push, zeros, ByteArray.size_push]
  have : 64 - p.size = (64 - (p.size + 1)) + 1 := by omega
  rw [this, Array.replicate_succ']
  simp
  
theorem pbkdf2_push_zero (p salt : ByteArray) (iter dkLen : Nat) (h : p.size < 64) :
    pbkdf2Sha256BA (p.push 0) salt iter dkLen = pbkdf2Sha256BA p salt iter dkLen := by
  unfold pbkdf2Sha256BA
  rw [hmacKeyBlock_push_zero p h]

theorem scrypt_push_zero (p salt : ByteArray) (logN r pp dkLen : Nat) (h : p.size < 64) :
    scryptBA (p.push 0) salt logN r pp dkLen = scryptBA p salt logN r pp dkLen := by
  unfold scryptBA
  simp only [pbkdf2_push_zero _ _ _ _ h]

end AgeModel.Crypto.Impl

namespace AgeModel.Crypto
open Impl

theorem toBA_snoc (l : List UInt8) (x : UInt8) : toBA (l ++ [x]) = (toBA l).push x := by
  unfold toBA
  apply ByteArray.ext
  simp [List.toByteArray_append]

theorem toBA_size (l : List UInt8) : (toBA l).size = l.length := by
  unfold toBA; simp

theorem scrypt_nul_suffix (pw salt : Bytes) (logN r p dkLen : Nat) (h : pw.length < 64) :
    scrypt (pw ++ [0]) salt logN r p dkLen = scrypt pw salt logN r p dkLen := by
  unfold scrypt
  rw [toBA_snoc, scrypt_push_zero _ _ _ _ _ _ (by rw [toBA_size]; exact h)]

end AgeModel.Crypto

namespace AgeModel.Crypto.Impl

theorem pushBe32_size (a : ByteArray) (w : UInt32) : (pushBe32 a w).size = a.size + 4 := by
  simp [pushBe32, ByteArray.size_push]

theorem sha256BA_size (m : ByteArray) : (sha256BA m).size = 32 := by
  unfold sha256BA
  simp only [Id.run, pushBe32_size, bind, pure]
  simp [ByteArray.emptyWithCapacity]
  rfl

/-- HMAC replaces a key longer than its block by the key's SHA-256 digest -/
theorem hmacKeyBlock_long (p : ByteArray) (h : p.size > 64) : hmacKeyBlock p = hmacKeyBlock (sha256BA p) := by
  unfold hmacKeyBlock
  have h2 : ¬ (sha256BA p).size > 64 := by rw [sha256BA_size]; omega
  simp only [h, h2, if_true, if_false]

theorem pbkdf2_long (p salt : ByteArray) (iter dkLen : Nat) (h : p.size > 64) :
    pbkdf2Sha256BA p salt iter dkLen = pbkdf2Sha256BA (sha256BA p) salt iter dkLen := by
  unfold pbkdf2Sha256BA
  rw [hmacKeyBlock_long p h]

theorem scrypt_long (p salt : ByteArray) (logN r pp dkLen : Nat) (h : p.size > 64) :
    scryptBA p salt logN r pp dkLen = scryptBA (sha256BA p) salt logN r pp dkLen := by
  unfold scryptBA
  simp only [pbkdf2_long _ _ _ _ h]

end AgeModel.Crypto.Impl

namespace AgeModel.Crypto
open Impl

theorem ofBA_go (b : ByteArray) : ∀ (i : Nat) (acc : List UInt8), i ≤ b.size →
    ofBA.go b i acc = b.data.toList.take i ++ acc := by
  intro i
  induction i with
  | zero => intro acc _; simp [ofBA.go]
  | succ i ih =>
    intro acc h
    unfold ofBA.go
    rw [ih _ (by omega)]
    have hi : i < b.data.toList.length := by
      have : b.data.toList.length = b.size := Array.length_toList
      omega
    have hget : b[i]! = b.data.toList[i] := by
      have : i < b.size := h
      simp [getElem!_pos, this, ByteArray.getElem_eq_getElem_data]
    rw [hget, List.take_succ_eq_append_getElem hi]
    simp

theorem ofBA_eq (b : ByteArray) : ofBA b = b.data.toList := by
  unfold ofBA
  rw [ofBA_go b b.size [] (Nat.le_refl _)]
  have : b.data.toList.length = b.size := Array.length_toList
  rw [List.append_nil, ← this, List.take_length]

theorem toBA_ofBA (b : ByteArray) : toBA (ofBA b) = b := by
  rw [ofBA_eq]
  unfold toBA
  apply ByteArray.ext
  simp

theorem scrypt_long_passphrase (pw salt : Bytes) (logN r p dkLen : Nat) (h : pw.length > 64) :
    scrypt pw salt logN r p dkLen = scrypt (sha256 pw) salt logN r p dkLen := by
  unfold scrypt sha256
  rw [toBA_ofBA, scrypt_long _ _ _ _ _ _ (by rw [toBA_size]; exact h)]

end AgeModel.Crypto
