/-
  Proofs.GoTieFileRT — Encrypt then Decrypt, stated about the two translated functions.

  `code_file_roundtrip` composes `encrypt_tie` and `decrypt_tie` with the model's facts about what
  `Encrypt` writes and what `Decrypt` makes of an intact header: when the translated `age.Encrypt`
  has run on an empty destination that takes every write, the destination holds header ‖ nonce and
  the returned writer seals under the stream key K derived from the file key and that nonce; and
  for EVERY byte string `c` written after it, the translated `age.Decrypt` over the destination's
  bytes followed by `c` — with any identity list in which the first identity that does not answer
  "incorrect identity" opens the file key — returns a reader under the SAME key K over exactly `c`.
  With `code_stream_roundtrip` (the translated stream writer and reader under one key return what
  was written) that is the whole pipeline of C01 at the level of the source text.
-/
import Proofs.GoTieEncrypt
import Proofs.GoTieDecrypt
import Proofs.FileWrite
import Proofs.FileTamper
namespace AgeModel
namespace GoTie
open Extracted Format Stream

theorem code_file_roundtrip (P : Prims) (hP : P.Correct) {ρ δ ω ι : Type}
    (EE : EncryptEnv P DstSpec.perfect ρ δ ω) (DE : DecryptEnv P ι)
    (d : δ) (hd : (EE.absD d).acc = []) (rs : List ρ) (tape : Bytes)
    (hrs : ∀ r ∈ rs.map EE.recOf, r.ProducesWF P)
    (fk : Bytes) (stanzas : List Stanza) (t nonce t' : Bytes)
    (hh : encryptHeader P tape (rs.map EE.recOf) = .ok (fk, stanzas, t))
    (hn : draw streamNonceSize t = some (nonce, t'))
    (pre post : List ι) (id : ι)
    (hpre : ∀ i ∈ pre, (DE.idOf i).unwrap P stanzas = .incorrect) (hid : (DE.idOf id).unwrap P stanzas = .key fk) :
    ∃ res, age_Encrypt EE.nilW (tapeRead EE.eRand) EE.W EE.mac EE.marshalF EE.write EE.newWriter EE.key d rs tape = .ok res ∧
      res.2.1 = none ∧ res.1 = EE.mkW (streamKey P fk nonce) res.2.2.1 ∧ res.2.2.2 = t' ∧
      (EE.absD res.2.2.1).acc = headerBytes P fk stanzas ++ nonce ∧
      ∀ c : Bytes, age_Decrypt DE.D DE.U errorsIsEq DE.mac DE.newReader DE.key ((EE.absD res.2.2.1).acc ++ c) (pre ++ id :: post) =
        .ok (streamKey P fk nonce ++ c, none) := by
  obtain ⟨res, hrun, hres⟩ := encrypt_tie P EE d rs tape
  obtain ⟨w, d2, hinit⟩ := encryptInit_neverFails DstSpec.perfect_neverFails P tape (rs.map EE.recOf) EE.hdrSegs (EE.absD d)
    fk stanzas t nonce t' hh hn
  rw [hinit] at hres
  obtain ⟨h1, h2, h3, h4, _⟩ := hres
  obtain ⟨fk', stanzas', t0, nonce', hh', hn', hacc, _, _⟩ := encryptInit_ok P tape (rs.map EE.recOf) EE.hdrSegs (EE.absD d) d2 w _ t' hinit
  rw [hh] at hh'
  simp only [Except.ok.injEq, Prod.mk.injEq] at hh'
  obtain ⟨rfl, rfl, rfl⟩ := hh'
  rw [hn] at hn'
  simp only [Option.some.injEq, Prod.mk.injEq] at hn'
  obtain ⟨rfl, _⟩ := hn'
  rw [hd, List.nil_append] at hacc
  have hacc' : (EE.absD res.2.2.1).acc = headerBytes P fk stanzas ++ nonce := by rw [h3]; exact hacc
  refine ⟨res, hrun, h2, h1, h4, hacc', ?_⟩
  intro c
  obtain ⟨hfk, t1, _, hw⟩ := encryptHeader_fk hh
  have hwf : ∀ s ∈ stanzas, s.WF := wrapAll_wf P fk hfk (rs.map EE.recOf) 0 t1 [] none stanzas t hrs (by simp) hw
  have hfk' : fk ≠ [] := by intro e; rw [e] at hfk; simp [fileKeySize] at hfk
  have hnl : nonce.length = streamNonceSize := (draw_spec hn).1
  obtain ⟨r, hdec, hr⟩ := decrypt_tie P DE ((EE.absD res.2.2.1).acc ++ c) (pre ++ id :: post)
  have hmodel := decryptInit_header_rest P hP fk stanzas (nonce ++ c) hwf hfk' (pre.map DE.idOf) (post.map DE.idOf) (DE.idOf id)
    (by intro i hi; obtain ⟨j, hj, rfl⟩ := List.mem_map.mp hi; exact hpre j hj) hid
  have hlen : ¬ (nonce ++ c).length < streamNonceSize := by rw [List.length_append]; omega
  rw [if_neg hlen] at hmodel
  have hmap : (pre ++ id :: post).map DE.idOf = pre.map DE.idOf ++ DE.idOf id :: post.map DE.idOf := by simp
  rw [hacc', List.append_assoc, hmap, hmodel] at hr
  simp only at hr
  rw [hdec, hr]
  have e1 : (nonce ++ c).take streamNonceSize = nonce := by rw [← hnl]; simp
  have e2 : (nonce ++ c).drop streamNonceSize = c := by rw [← hnl]; simp
  rw [e1, e2]

end GoTie
end AgeModel
