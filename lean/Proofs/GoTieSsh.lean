/-
  Proofs.GoTieSsh — the ssh-ed25519 recipient and identity, as they stand in the source.

  `(*Ed25519Recipient).Wrap`, `(*Ed25519Identity).unwrap` / `.Unwrap` and agessh's own copy of
  `multiUnwrap` are TRANSLATED from agessh/agessh.go on every run. The primitives are parameters
  as for the native recipients (`NativeEnv`), plus (`SshEnv`): the key's wire form
  (`ssh.PublicKey.Marshal`), its fingerprint (`sshFingerprint`), and agessh's two-argument
  `aeadDecrypt`. The theorems: the stanza written is the model's `wrapSshEd` (tag, ephemeral share,
  tweak = HKDF(no secret, salt = wire form, label), the tweaked shared secret with the error of the
  second scalar multiplication DROPPED as in the source, salt = ephemeral share ‖ recipient point);
  `unwrap` answers what the model's `unwrapSshEd` answers for every stanza — in particular a
  malformed argument is reported BEFORE the tag is compared, and a failed decryption is fatal, not
  "incorrect identity".
-/
import AgeModel.GoSem
import AgeModel.Recipients
import AgeModel.File
import AgeModel.Extracted.Funcs
import Proofs.GoTieNative
namespace AgeModel
namespace GoTie
open Extracted

structure SshEnv (P : Prims) (κ π : Type) extends NativeEnv P κ where
  /-- the wire form of a key -/
  wire : π → Bytes
  Mar : π → Go.M Bytes
  hMar : ∀ k, Mar k = .ok (wire k)
  Fp : π → Go.M Bytes
  hFp : ∀ k, Fp k = .ok (sshTag P (wire k))
  OpenS : Bytes → Bytes → Go.M (Bytes × Option Go.Err)
  eO : Go.Err
  hOpen : ∀ k ct, OpenS k ct = .ok (match P.wrapOpen k ct with
                                    | some fk => (fk, none)
                                    | none => ([], some eO))

theorem ssh_multiUnwrap_loop (u : age_Stanza → Go.M (Bytes × Option Go.Err)) (hU : ∀ s, ∃ r, u s = .ok r)
    (ss : List Format.Stanza) :
    ∃ l, agessh_multiUnwrap_loop1 errorsIsEq u (ss.map toGoStanza) = .ok l ∧
      match l with
      | .next _ => multiUnwrap (fun s => stanzaClass u (toGoStanza s)) ss = .incorrect
      | .ret r => resClass r = multiUnwrap (fun s => stanzaClass u (toGoStanza s)) ss := by
  induction ss with
  | nil => exact ⟨.next (), rfl, rfl⟩
  | cons s ss ih =>
    obtain ⟨r, hr⟩ := hU (toGoStanza s)
    obtain ⟨l, hl, hl'⟩ := ih
    simp only [List.map_cons, agessh_multiUnwrap_loop1, hr, errorsIsEq, bind, Except.bind, pure, Except.pure, multiUnwrap, stanzaClass]
    by_cases h1 : r.2 = age_ErrIncorrectIdentity
    · have hc : resClass r = .incorrect := by
        simp [resClass, h1, age_ErrIncorrectIdentity]
      simp only [h1, beq_self_eq_true, if_true, hl, hc]
      exact ⟨l, rfl, hl'⟩
    · have hb : (r.2 == age_ErrIncorrectIdentity) = false := by simpa using h1
      simp only [hb, Bool.false_eq_true, if_false]
      by_cases h2 : r.2 = none
      · have hc : resClass r = .key r.1 := by simp [resClass, h2]
        simp only [h2, bne_self_eq_false, Bool.false_eq_true, if_false, hc]
        exact ⟨_, rfl, by simp [resClass]⟩
      · have hc : resClass r = .fatal := by simp [resClass, h1, h2]
        have hb2 : (r.2 != none) = true := by simpa using h2
        simp only [hb2, if_true, hc]
        exact ⟨_, rfl, by simp [resClass, h1, h2]⟩

theorem slice_full {α : Type} (a : List α) : Go.slice a 0 (Go.len a) = .ok a := by
  simp [Go.slice, Go.len]

/-- the first component of `curve25519.X25519` when its error is dropped -/
theorem X_fst {P : Prims} {κ : Type} (E : NativeEnv P κ) (a b : Bytes) :
    ∃ e, E.X a b = .ok ((P.x25519 a b).getD [], e) := by
  rw [E.hX]
  cases P.x25519 a b <;> exact ⟨_, rfl⟩

def sErr (k : Nat) : Bytes × Option Go.Err := ([], some ⟨"agessh.(*Ed25519Identity).unwrap", k, []⟩)

theorem resClass_sErr (k : Nat) : resClass (sErr k) = .fatal := by
  simp [resClass, sErr, age_ErrIncorrectIdentity]

/-- agessh.multiUnwrap is age.multiUnwrap -/
theorem ssh_multiUnwrap_tie (u : age_Stanza → Go.M (Bytes × Option Go.Err)) (hU : ∀ s, ∃ r, u s = .ok r)
    (ss : List Format.Stanza) :
    ∃ r, agessh_multiUnwrap errorsIsEq u (ss.map toGoStanza) = .ok r ∧
      resClass r = multiUnwrap (fun s => stanzaClass u (toGoStanza s)) ss := by
  obtain ⟨l, hl, hl'⟩ := ssh_multiUnwrap_loop u hU ss
  simp only [agessh_multiUnwrap, hl, bind, Except.bind, pure, Except.pure]
  cases l with
  | next x => cases x; exact ⟨_, rfl, by rw [hl']; simp [resClass, age_ErrIncorrectIdentity]⟩
  | ret r => exact ⟨_, rfl, hl'⟩

theorem sshEd_wrap_tie (P : Prims) {κ π : Type} (E : SshEnv P κ π) (key : π) (mont fk tape : Bytes) :
    ∃ res, agessh_Ed25519Recipient_Wrap (tapeRead E.eRand) E.X P.basepoint E.H E.Mar E.R E.Fp E.Enc E.Seal ⟨key, mont⟩ fk tape = .ok res ∧
      match wrapOne P (.sshEd (E.wire key) mont) fk tape with
      | .error () => res = ([], some E.eRand, tape)
      | .ok (some (ss, ls), t) => res = (ss.map toGoStanza, none, t) ∧ ls = []
      | .ok (none, t) => res = ([], some E.eX, t) := by
  have hmk : Go.makeList (0 : UInt8) 32 = .ok (List.replicate 32 0) := rfl
  have hmk0 : Go.makeList (0 : UInt8) 0 = .ok [] := rfl
  have hlen : Go.len (List.replicate 32 (0 : UInt8)) = Int.ofNat 32 := by simp [Go.len]
  have hn : ((none : Option Go.Err) != none) = false := rfl
  have hs : ∀ e : Go.Err, (some e != (none : Option Go.Err)) = true := fun _ => rfl
  unfold agessh_Ed25519Recipient_Wrap
  simp only [hmk, hmk0, ok_bind, hlen, wrapOne]
  cases hd : draw 32 tape with
  | none =>
    simp only [tapeRead_none E.eRand hd, ok_bind, hs, if_true]
    exact ⟨_, rfl, rfl⟩
  | some bt =>
    obtain ⟨eph, t⟩ := bt
    simp only [tapeRead_some E.eRand hd, ok_bind, writeAt32 eph (draw_length hd), hn, Bool.false_eq_true, if_false, E.hX eph P.basepoint, E.hX eph mont, wrapSshEd]
    cases h1 : P.x25519 eph P.basepoint with
    | none =>
      simp only [hs, if_true]
      exact ⟨_, rfl, rfl⟩
    | some ourPub =>
      simp only [hn, Bool.false_eq_true, if_false]
      cases h2 : P.x25519 eph mont with
      | none =>
        simp only [hs, if_true]
        exact ⟨_, rfl, rfl⟩
      | some shared =>
        obtain ⟨kt, kt', hHt, hRt⟩ := E.hHR [] (E.wire key) ed25519Label
        simp only [ed25519Label] at hHt
        have hRt' : E.R kt (Int.ofNat 32) = .ok (P.hkdf [] (E.wire key) ed25519Label 32, none, kt') := hRt
        simp only [hn, Bool.false_eq_true, if_false, E.hMar, ok_bind, hHt, hRt',
          writeAt32 _ (E.hLen _ _ _)]
        obtain ⟨e3, hX3⟩ := X_fst E.toNativeEnv (P.hkdf [] (E.wire key) ed25519Label 32) shared
        obtain ⟨k, k', hH, hR⟩ := E.hHR ((P.x25519 (P.hkdf [] (E.wire key) ed25519Label 32) shared).getD []) (ourPub ++ mont) ed25519Label
        have hH' : E.H ((P.x25519 (P.hkdf [] (E.wire key) ed25519Label 32) shared).getD []) (ourPub ++ mont) [97, 103, 101, 45, 101, 110, 99, 114, 121, 112, 116, 105, 111, 110, 46, 111, 114, 103, 47, 118, 49, 47, 115, 115, 104, 45, 101, 100, 50, 53, 53, 49, 57] = .ok k := hH
        have hR' : E.R k (Int.ofNat 32) = .ok (P.hkdf ((P.x25519 (P.hkdf [] (E.wire key) ed25519Label 32) shared).getD []) (ourPub ++ mont) ed25519Label 32, none, k') := hR
        simp only [hX3, hn, Bool.false_eq_true, if_false, E.hEnc, E.hFp, ok_bind, List.nil_append, hH', hR',
          writeAt32 _ (E.hLen _ _ _), E.hSeal, slice_full]
        exact ⟨_, rfl, rfl, rfl⟩

theorem sshEd_unwrap_tie (P : Prims) {κ π : Type} (E : SshEnv P κ π) (key : π) (sk : Bytes) (s : Format.Stanza) :
    ∃ r, agessh_Ed25519Identity_unwrap E.D E.Fp E.X E.H E.Mar E.R E.OpenS ⟨sk, (P.x25519 sk P.basepoint).getD [], key⟩ (toGoStanza s) = .ok r ∧
      resClass r = unwrapSshEd P (E.wire key) sk s := by
  obtain ⟨ty, args, body⟩ := s
  have hmk : Go.makeList (0 : UInt8) 32 = .ok (List.replicate 32 0) := rfl
  have hmk0 : Go.makeList (0 : UInt8) 0 = .ok [] := rfl
  have hlen : Go.len (List.replicate 32 (0 : UInt8)) = Int.ofNat 32 := by simp [Go.len]
  have hn : ((none : Option Go.Err) != none) = false := rfl
  have hs : ∀ e : Go.Err, (some e != (none : Option Go.Err)) = true := fun _ => rfl
  unfold agessh_Ed25519Identity_unwrap unwrapSshEd
  simp only [toGoStanza]
  by_cases ht : ty = tSshEd
  · subst ht
    have hb : (tSshEd != [115, 115, 104, 45, 101, 100, 50, 53, 53, 49, 57]) = false := by decide
    simp only [hb, Bool.false_eq_true, if_false, ne_eq, not_true_eq_false]
    rcases args with _ | ⟨tag, _ | ⟨a, _ | ⟨x, rest⟩⟩⟩
    · have hl : (Go.len ([] : List Bytes) != 2) = true := by decide
      simp only [hl, if_true]
      exact ⟨sErr 0, rfl, resClass_sErr 0⟩
    · have hl : (Go.len [tag] != 2) = true := rfl
      simp only [hl, if_true]
      exact ⟨sErr 0, rfl, resClass_sErr 0⟩
    · have hl : (Go.len [tag, a] != 2) = false := rfl
      have h0 : Go.idx [tag, a] 0 = .ok tag := rfl
      have h1 : Go.idx [tag, a] 1 = .ok a := rfl
      simp only [hl, Bool.false_eq_true, if_false, h0, h1, E.hD, E.hFp, ok_bind]
      cases hdec : Format.decodeString a with
      | none =>
        simp only [hs, if_true]
        exact ⟨sErr 1, rfl, resClass_sErr 1⟩
      | some pk =>
        simp only [hn, Bool.false_eq_true, if_false]
        by_cases hpk : pk.length = 32
        · have hl2 : (Go.len pk != 32) = false := by simp [Go.len, hpk]
          simp only [hl2, Bool.false_eq_true, if_false, hpk, not_true_eq_false]
          by_cases htag : tag = sshTag P (E.wire key)
          · subst htag
            simp only [bne_self_eq_false, Bool.false_eq_true, if_false, not_true_eq_false, E.hX sk pk]
            cases hx : P.x25519 sk pk with
            | none =>
              exact ⟨sErr 3, rfl, resClass_sErr 3⟩
            | some shared =>
              obtain ⟨kt, kt', hHt, hRt⟩ := E.hHR [] (E.wire key) ed25519Label
              simp only [ed25519Label] at hHt
              have hRt' : E.R kt (Int.ofNat 32) = .ok (P.hkdf [] (E.wire key) ed25519Label 32, none, kt') := hRt
              simp only [hn, Bool.false_eq_true, if_false, hmk, hmk0, hlen, E.hMar, ok_bind, hHt, hRt',
                writeAt32 _ (E.hLen _ _ _)]
              obtain ⟨e3, hX3⟩ := X_fst E.toNativeEnv (P.hkdf [] (E.wire key) ed25519Label 32) shared
              obtain ⟨k, k', hH, hR⟩ := E.hHR ((P.x25519 (P.hkdf [] (E.wire key) ed25519Label 32) shared).getD []) (pk ++ (P.x25519 sk P.basepoint).getD []) ed25519Label
              have hH' : E.H ((P.x25519 (P.hkdf [] (E.wire key) ed25519Label 32) shared).getD []) (pk ++ (P.x25519 sk P.basepoint).getD []) [97, 103, 101, 45, 101, 110, 99, 114, 121, 112, 116, 105, 111, 110, 46, 111, 114, 103, 47, 118, 49, 47, 115, 115, 104, 45, 101, 100, 50, 53, 53, 49, 57] = .ok k := hH
              have hR' : E.R k (Int.ofNat 32) = .ok (P.hkdf ((P.x25519 (P.hkdf [] (E.wire key) ed25519Label 32) shared).getD []) (pk ++ (P.x25519 sk P.basepoint).getD []) ed25519Label 32, none, k') := hR
              simp only [hX3, hn, Bool.false_eq_true, if_false, ok_bind, List.nil_append, hH', hR',
                writeAt32 _ (E.hLen _ _ _), E.hOpen]
              cases P.wrapOpen (P.hkdf ((P.x25519 (P.hkdf [] (E.wire key) ed25519Label 32) shared).getD []) (pk ++ (P.x25519 sk P.basepoint).getD []) ed25519Label 32) body with
              | some fk =>
                simp only [hn, Bool.false_eq_true, if_false]
                exact ⟨_, rfl, by simp [resClass]⟩
              | none =>
                simp only [hs, if_true]
                exact ⟨sErr 4, rfl, resClass_sErr 4⟩
          · have hbt : (tag != sshTag P (E.wire key)) = true := by simpa using htag
            simp only [hbt, if_true, htag, not_false_eq_true]
            exact ⟨_, rfl, resClass_incorrect⟩
        · have hl2 : (Go.len pk != 32) = true := by
            simp only [Go.len, bne_iff_ne, ne_eq, Int.ofNat_eq_natCast]; omega
          simp only [hl2, if_true, hpk, not_false_eq_true]
          exact ⟨sErr 2, rfl, resClass_sErr 2⟩
    · have hl : (Go.len (tag :: a :: x :: rest) != 2) = true := by
        simp only [Go.len, List.length_cons, bne_iff_ne, ne_eq, Int.ofNat_eq_natCast]; omega
      simp only [hl, if_true]
      exact ⟨sErr 0, rfl, resClass_sErr 0⟩
  · have hb : (ty != [115, 115, 104, 45, 101, 100, 50, 53, 53, 49, 57]) = true := by simpa [tSshEd] using ht
    simp only [hb, if_true, ne_eq, ht, not_false_eq_true]
    exact ⟨_, rfl, resClass_incorrect⟩

theorem sshEd_Unwrap_tie (P : Prims) {κ π : Type} (E : SshEnv P κ π) (key : π) (sk : Bytes) (ss : List Format.Stanza) :
    ∃ r, agessh_Ed25519Identity_Unwrap errorsIsEq E.D E.Fp E.X E.H E.Mar E.R E.OpenS ⟨sk, (P.x25519 sk P.basepoint).getD [], key⟩ (ss.map toGoStanza) = .ok r ∧
      resClass r = (Identity.unwrapLog P (.sshEd (E.wire key) sk) ss).1 := by
  simp only [agessh_Ed25519Identity_Unwrap, Identity.unwrapLog]
  have hU : ∀ s, ∃ r, agessh_Ed25519Identity_unwrap E.D E.Fp E.X E.H E.Mar E.R E.OpenS ⟨sk, (P.x25519 sk P.basepoint).getD [], key⟩ s = .ok r := by
    intro s
    obtain ⟨r, hr, _⟩ := sshEd_unwrap_tie P E key sk ⟨s.Type_, s.Args, s.Body⟩
    exact ⟨r, hr⟩
  obtain ⟨r, hr, hcl⟩ := ssh_multiUnwrap_tie _ hU ss
  refine ⟨r, ?_, ?_⟩
  · simp only [hr, ok_bind]; rfl
  · rw [hcl]
    congr 1
    funext s
    obtain ⟨r', hr', hc'⟩ := sshEd_unwrap_tie P E key sk s
    simp only [stanzaClass, hr', hc']

end GoTie
end AgeModel
