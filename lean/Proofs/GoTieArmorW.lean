/-
  Proofs.GoTieArmorW — the armoring writer, as it stands in the source.

  `(*armoredWriter).Write` and `.Close` (armor/armor.go) are TRANSLATED on every run. The
  destination is abstract state; the wrapped base64 encoder — `format.WrappedBase64Encoder` around
  encoding/base64's streaming encoder, holding the same destination — is an abstract handle
  (`ArmorWEnv`): each of its operations appends some bytes to the destination, and when it is closed
  the bytes it has appended in total are the standard base64 of everything written to it, in
  64-column lines (`Format.wrap (B64.encStd input)`); `LastLineIsEmpty` says whether that text ends
  at a line boundary. `armor_writer_tie`: for EVERY sequence of writes (none at all included)
  followed by `Close`, on a destination that takes every write, what has reached the destination
  is `Armor.armor` of the concatenated input — BEGIN line even when nothing was written, the
  newline before the END line exactly when the last body line is not empty — and a second `Close`
  is refused without touching the destination.
-/
import AgeModel.GoSem
import AgeModel.Armor
import AgeModel.Extracted.Funcs
namespace AgeModel
namespace GoTie
open Extracted

structure ArmorWEnv (δ ω : Type) where
  /-- everything written to the destination so far -/
  absD : δ → Bytes
  /-- what has been written INTO the encoder, and what the encoder has appended to the destination -/
  absI : ω → Bytes
  absO : ω → Bytes
  /-- the encoder has not been closed: only then do its `Write` and `Close` behave as described (a
      closed base64 encoder has flushed its padding; nothing is claimed about what it does next) -/
  isOpen : ω → Prop
  W : δ → Bytes → Go.M (Int × Option Go.Err × δ)
  hW : ∀ d b, ∃ d', W d b = .ok (Int.ofNat b.length, none, d') ∧ absD d' = absD d ++ b
  Wr : ω → Bytes → δ → Go.M (Int × Option Go.Err × ω × δ)
  hWr : ∀ ww p d, isOpen ww → ∃ ww' d' x, Wr ww p d = .ok (Int.ofNat p.length, none, ww', d') ∧
          absD d' = absD d ++ x ∧ absO ww' = absO ww ++ x ∧ absI ww' = absI ww ++ p ∧ isOpen ww'
  Cl : ω → δ → Go.M (Option Go.Err × ω × δ)
  hCl : ∀ ww d, isOpen ww → ∃ ww' d' x, Cl ww d = .ok (none, ww', d') ∧
          absD d' = absD d ++ x ∧ absO ww' = absO ww ++ x ∧ absI ww' = absI ww ∧
          absO ww' = Format.wrap (B64.encStd (absI ww))
  LE : ω → Go.M Bool
  hLE : ∀ ww, LE ww = .ok (decide ((B64.encStd (absI ww)).length % 64 = 0))

/-- the writes, one after the other; stops at the first error -/
def armorWrites {δ ω : Type} (E : ArmorWEnv δ ω) : armor_armoredWriter ω δ → List Bytes → Go.M (Option Go.Err × armor_armoredWriter ω δ)
  | a, [] => .ok (none, a)
  | a, p :: ps => do
    let r ← armor_armoredWriter_Write E.W E.Wr a p
    if r.2.1 != none then pure (r.2.1, r.2.2) else armorWrites E r.2.2 ps


/-- the writer invariant between writes: not closed; the encoder has taken `I`; either nothing has
    happened yet, or the destination holds the BEGIN line and what the encoder has appended -/
structure AWInv {δ ω : Type} (E : ArmorWEnv δ ω) (a : armor_armoredWriter ω δ) (I pre : Bytes) : Prop where
  closed : a.closed = false
  absI : E.absI a.encoder = I
  op : E.isOpen a.encoder
  st : (a.started = false ∧ I = [] ∧ E.absO a.encoder = [] ∧ E.absD a.dst = pre) ∨
       (a.started = true ∧ E.absD a.dst = pre ++ Armor.header ++ [Format.nl] ++ E.absO a.encoder)

theorem armor_header_lit :
    ([45, 45, 45, 45, 45, 66, 69, 71, 73, 78, 32, 65, 71, 69, 32, 69, 78, 67, 82, 89, 80, 84, 69, 68, 32, 70, 73, 76, 69, 45, 45, 45, 45, 45, 10] : List UInt8)
      = Armor.header ++ [Format.nl] := rfl

theorem armor_footer_lit :
    ([45, 45, 45, 45, 45, 69, 78, 68, 32, 65, 71, 69, 32, 69, 78, 67, 82, 89, 80, 84, 69, 68, 32, 70, 73, 76, 69, 45, 45, 45, 45, 45, 10] : List UInt8)
      = Armor.footer ++ [Format.nl] := rfl

theorem armor_write_inv {δ ω : Type} (E : ArmorWEnv δ ω) (a : armor_armoredWriter ω δ) (I pre p : Bytes)
    (h : AWInv E a I pre) :
    ∃ a', armor_armoredWriter_Write E.W E.Wr a p = .ok (Int.ofNat p.length, none, a') ∧
      AWInv E a' (I ++ p) pre := by
  obtain ⟨st, cl, enc, d⟩ := a
  obtain ⟨hc, hI, hop, hst⟩ := h
  simp only at hc hI hop hst
  cases st with
  | false =>
    rcases hst with ⟨_, hI0, hO, hD⟩ | ⟨h1, _⟩
    · obtain ⟨d', hw, hd'⟩ := E.hW d (Armor.header ++ [Format.nl])
      obtain ⟨ww', d'', x, hwr, hdd, hoo, hii, hop'⟩ := E.hWr enc p d' hop
      refine ⟨⟨true, cl, ww', d''⟩, ?_, ?_⟩
      · simp only [armor_armoredWriter_Write, armor_header_lit, hw, hwr, bind, Except.bind, pure, Except.pure]
        rfl
      · refine ⟨hc, ?_, hop', Or.inr ⟨rfl, ?_⟩⟩
        · simp only [hii, hI]
        · simp only [hdd, hd', hoo, hD, hO, List.append_assoc, List.nil_append]
    · cases h1
  | true =>
    rcases hst with ⟨h1, _⟩ | ⟨_, hD⟩
    · cases h1
    · obtain ⟨ww', d'', x, hwr, hdd, hoo, hii, hop'⟩ := E.hWr enc p d hop
      refine ⟨⟨true, cl, ww', d''⟩, ?_, ?_⟩
      · simp only [armor_armoredWriter_Write, hwr, bind, Except.bind, pure, Except.pure]
        rfl
      · refine ⟨hc, ?_, hop', Or.inr ⟨rfl, ?_⟩⟩
        · simp only [hii, hI]
        · simp only [hdd, hoo, hD, List.append_assoc]

theorem armor_writes_inv {δ ω : Type} (E : ArmorWEnv δ ω) (ps : List Bytes) :
    ∀ (a : armor_armoredWriter ω δ) (I pre : Bytes), AWInv E a I pre →
    ∃ a1, armorWrites E a ps = .ok (none, a1) ∧ AWInv E a1 (I ++ ps.flatten) pre := by
  induction ps with
  | nil => intro a I pre h; exact ⟨a, rfl, by simpa using h⟩
  | cons p ps ih =>
    intro a I pre h
    obtain ⟨a', hw, h'⟩ := armor_write_inv E a I pre p h
    obtain ⟨a1, hr, h1⟩ := ih a' (I ++ p) pre h'
    refine ⟨a1, ?_, ?_⟩
    · simp only [armorWrites, hw, bind, Except.bind]
      exact hr
    · simpa only [List.flatten_cons, List.append_assoc] using h1

/-- Close on a started, open writer -/
theorem armor_close_started {δ ω : Type} (E : ArmorWEnv δ ω) (enc : ω) (d : δ) (I pre : Bytes)
    (hI : E.absI enc = I) (hop : E.isOpen enc)
    (hD : E.absD d = pre ++ Armor.header ++ [Format.nl] ++ E.absO enc) :
    ∃ a2, armor_armoredWriter_Close E.W E.Cl E.LE ⟨true, false, enc, d⟩ = .ok (none, a2) ∧ a2.closed = true ∧
      E.absD a2.dst = pre ++ Armor.armor I := by
  obtain ⟨ww', d2, x, hcl, hd2, ho2, hi2, hwrap⟩ := E.hCl enc d hop
  have hle := E.hLE ww'
  rw [hi2, hI] at hle
  rw [hI] at hwrap
  by_cases hm : (B64.encStd I).length % 64 = 0
  · obtain ⟨d3, hw3, hd3⟩ := E.hW d2 (Armor.footer ++ [Format.nl])
    refine ⟨⟨true, true, ww', d3⟩, ?_, rfl, ?_⟩
    · simp [armor_armoredWriter_Close, armor_footer_lit, hcl, hle, hm, hw3, bind, Except.bind, pure, Except.pure]
    · simp only [hd3, hd2, hD, Armor.armor, hm, if_true, ← hwrap, ho2, List.append_assoc, List.nil_append]
  · obtain ⟨d3, hw3, hd3⟩ := E.hW d2 ([10] ++ (Armor.footer ++ [Format.nl]))
    refine ⟨⟨true, true, ww', d3⟩, ?_, rfl, ?_⟩
    · simp only [List.cons_append, List.nil_append] at hw3
      simp [armor_armoredWriter_Close, armor_footer_lit, hcl, hle, hm, hw3, bind, Except.bind, pure, Except.pure]
    · simp only [hd3, hd2, hD, Armor.armor, hm, if_false, ← hwrap, ho2, List.append_assoc]
      rfl

theorem armor_close_inv {δ ω : Type} (E : ArmorWEnv δ ω) (a : armor_armoredWriter ω δ) (I pre : Bytes)
    (h : AWInv E a I pre) :
    ∃ a2, armor_armoredWriter_Close E.W E.Cl E.LE a = .ok (none, a2) ∧ a2.closed = true ∧
      E.absD a2.dst = pre ++ Armor.armor I := by
  obtain ⟨st, cl, enc, d⟩ := a
  obtain ⟨hc, hI, hop, hst⟩ := h
  simp only at hc hI hop hst
  subst hc
  cases st with
  | false =>
    rcases hst with ⟨_, hI0, hO, hD⟩ | ⟨h1, _⟩
    · obtain ⟨d', hw, hd'⟩ := E.hW d (Armor.header ++ [Format.nl])
      have hD' : E.absD d' = pre ++ Armor.header ++ [Format.nl] ++ E.absO enc := by
        simp only [hd', hD, hO, List.append_assoc, List.append_nil]
      have heq : armor_armoredWriter_Close E.W E.Cl E.LE ⟨false, false, enc, d⟩ =
          armor_armoredWriter_Close E.W E.Cl E.LE ⟨true, false, enc, d'⟩ := by
        simp [armor_armoredWriter_Close, armor_header_lit, hw, bind, Except.bind, pure, Except.pure]
      rw [heq]
      exact armor_close_started E enc d' I pre hI hop hD'
    · cases h1
  | true =>
    rcases hst with ⟨h1, _⟩ | ⟨_, hD⟩
    · cases h1
    · exact armor_close_started E enc d I pre hI hop hD

theorem armor_close_closed {δ ω : Type} (E : ArmorWEnv δ ω) (a : armor_armoredWriter ω δ)
    (h : a.closed = true) :
    armor_armoredWriter_Close E.W E.Cl E.LE a = .ok (some ⟨"armor.(*armoredWriter).Close", 0, []⟩, a) := by
  simp only [armor_armoredWriter_Close, h, if_true, pure, Except.pure]

theorem armor_writer_tie {δ ω : Type} (E : ArmorWEnv δ ω) (ww0 : ω) (d0 : δ)
    (h0 : E.absI ww0 = [] ∧ E.absO ww0 = [] ∧ E.isOpen ww0) (ps : List Bytes) :
    ∃ a1 a2, armorWrites E ⟨false, false, ww0, d0⟩ ps = .ok (none, a1) ∧
      armor_armoredWriter_Close E.W E.Cl E.LE a1 = .ok (none, a2) ∧
      E.absD a2.dst = E.absD d0 ++ Armor.armor ps.flatten ∧
      armor_armoredWriter_Close E.W E.Cl E.LE a2 = .ok (some ⟨"armor.(*armoredWriter).Close", 0, []⟩, a2) := by
  have hinv : AWInv E (⟨false, false, ww0, d0⟩ : armor_armoredWriter ω δ) [] (E.absD d0) :=
    ⟨rfl, h0.1, h0.2.2, Or.inl ⟨rfl, rfl, h0.2.1, rfl⟩⟩
  obtain ⟨a1, hr, h1⟩ := armor_writes_inv E ps _ _ _ hinv
  obtain ⟨a2, hc, hcl, hd⟩ := armor_close_inv E a1 _ _ h1
  exact ⟨a1, a2, hr, hc, by simpa using hd, armor_close_closed E a2 hcl⟩

/-- the assumptions are satisfiable: an encoder that buffers everything and emits the whole wrapped
    text when it is closed (state: the input so far, and whether it has been closed), over a
    destination that is the list of bytes written to it -/
def ArmorWEnv.canonical : ArmorWEnv Bytes (Bytes × Bool) where
  absD d := d
  absI ww := ww.1
  absO ww := if ww.2 then Format.wrap (B64.encStd ww.1) else []
  isOpen ww := ww.2 = false
  W d b := .ok (Int.ofNat b.length, none, d ++ b)
  hW d b := ⟨d ++ b, rfl, rfl⟩
  Wr ww p d := .ok (Int.ofNat p.length, none, (ww.1 ++ p, ww.2), d)
  hWr ww p d h := ⟨(ww.1 ++ p, ww.2), d, [], rfl, by simp, by simp [h], rfl, h⟩
  Cl ww d := .ok (none, (ww.1, true), d ++ Format.wrap (B64.encStd ww.1))
  hCl ww d h := ⟨(ww.1, true), d ++ Format.wrap (B64.encStd ww.1), Format.wrap (B64.encStd ww.1), rfl, rfl, by simp [h], rfl, by simp⟩
  LE ww := .ok (decide ((B64.encStd ww.1).length % 64 = 0))
  hLE _ := rfl

/-- and its fresh state meets the premises of `armor_writer_tie` -/
theorem ArmorWEnv.canonical_fresh :
    ArmorWEnv.canonical.absI ([], false) = [] ∧ ArmorWEnv.canonical.absO ([], false) = [] ∧
      ArmorWEnv.canonical.isOpen ([], false) := ⟨rfl, rfl, rfl⟩

end GoTie
end AgeModel
